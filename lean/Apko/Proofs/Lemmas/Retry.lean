/-
Helper lemmas for C20 (Apko/Proofs/C20.lean): facts about the response-body model, `discard`,
the Spec checker and the invariant preserved by `reset` / `readLoop` / `read` / `close`.
-/
import Apko.Model.Retry

namespace Apko.Retry
open Apko

/-! ### lists -/

theorem prefix_drop_of_le {l₁ l₂ : Text} (h : l₁ <+: l₂) {n : Nat} (hn : n ≤ l₁.length) :
    l₁.drop n <+: l₂.drop n := by
  obtain ⟨t, rfl⟩ := h
  rw [List.drop_append_of_le_length hn]
  exact List.prefix_append _ _

theorem prefix_split {a b l : Text} (h : a ++ b <+: l) :
    a <+: l ∧ b <+: l.drop a.length := by
  obtain ⟨t, rfl⟩ := h
  refine ⟨⟨b ++ t, by simp⟩, ⟨t, ?_⟩⟩
  simp [List.append_assoc]

/-! ### `Body.read` -/

theorem Body.read_closed {b : Body} (m : Nat) (h : b.closed = true) : b.read m = (b, [], .fault) := by
  simp [Body.read, h]

/-- an open body hands out a prefix of what it still holds and keeps the rest -/
theorem Body.read_open {b : Body} (m : Nat) (h : b.closed = false) :
    b.rest = (b.read m).2.1 ++ (b.read m).1.rest ∧ (b.read m).1.ending = b.ending ∧
    (b.read m).1.closed = false ∧
    ((b.read m).2.2 = .eof → b.ending = .clean ∧ (b.read m).1.rest = []) := by
  unfold Body.read
  simp only [h, Bool.false_eq_true, if_false]
  by_cases he : b.rest.isEmpty
  · simp only [he, if_true]
    refine ⟨by simpa using he, trivial, h, ?_⟩
    intro hr
    refine ⟨?_, by simpa using he⟩
    cases hb : b.ending <;> simp_all [End.res]
  · simp only [he, Bool.false_eq_true, if_false]
    refine ⟨by simp, trivial, trivial, ?_⟩
    intro hr
    split at hr
    · next hc =>
        simp only [Bool.and_eq_true] at hc
        refine ⟨?_, by simpa using hc.1.1⟩
        cases hb : b.ending <;> simp_all [End.res]
    · cases hr

theorem Body.cap_le (b : Body) (m : Nat) : b.cap m ≤ m := by
  unfold Body.cap; split <;> omega

theorem Body.read_length_le (b : Body) (m : Nat) : (b.read m).2.1.length ≤ m := by
  unfold Body.read
  split
  · simp
  · split
    · simp
    · simp only [List.length_take]
      have := b.cap_le m
      omega

/-! ### `discard` (io.CopyN into io.Discard) -/

/-- every event is a body read -/
def OnlyBody (evs : List Event) : Prop := ∀ e ∈ evs, ∃ res, e = Event.body res

theorem discard_spec : ∀ (fuel : Nat) (b : Body) (n : Nat), b.closed = false →
    OnlyBody (discard fuel b n).2.2 ∧
    ((discard fuel b n).2.1 = true →
      n ≤ b.rest.length ∧ (discard fuel b n).1.rest = b.rest.drop n ∧
      (discard fuel b n).1.ending = b.ending ∧ (discard fuel b n).1.closed = false) := by
  intro fuel
  induction fuel with
  | zero =>
    intro b n h
    cases n with
    | zero => simp [discard, OnlyBody, h]
    | succ n => simp [discard, OnlyBody]
  | succ fuel ih =>
    intro b n h
    cases n with
    | zero => simp [discard, OnlyBody, h]
    | succ n =>
      have ho := Body.read_open (min discardBuf (n + 1)) h
      have hl := Body.read_length_le b (min discardBuf (n + 1))
      simp only [discard]
      generalize hrd : b.read (min discardBuf (n + 1)) = x at ho hl
      obtain ⟨b', out, res⟩ := x
      simp only at ho hl ⊢
      obtain ⟨hrest, hend, hcl, _⟩ := ho
      have hout : out.length ≤ n + 1 := by omega
      by_cases hres : res = .ok
      · simp only [hres, if_true]
        obtain ⟨ih1, ih2⟩ := ih b' (n + 1 - out.length) hcl
        refine ⟨?_, ?_⟩
        · intro e he
          simp only [List.mem_cons] at he
          rcases he with rfl | he
          · exact ⟨_, rfl⟩
          · exact ih1 e he
        · intro hg
          obtain ⟨a1, a2, a3, a4⟩ := ih2 hg
          refine ⟨?_, ?_, by rw [a3, hend], a4⟩
          · rw [hrest, List.length_append]; omega
          · rw [a2, hrest, List.drop_append, List.drop_eq_nil_of_le hout]; simp
      · simp only [hres, if_false]
        refine ⟨?_, ?_⟩
        · intro e he
          simp only [List.mem_singleton] at he
          exact ⟨_, he⟩
        · intro hg
          have h0 : n + 1 - out.length = 0 := by simpa using hg
          have hlen : out.length = n + 1 := by omega
          refine ⟨?_, ?_, hend, hcl⟩
          · rw [hrest, List.length_append]; omega
          · rw [hrest, List.drop_append, List.drop_eq_nil_of_le (by omega)]; simp [hlen]

/-! ### the Spec checker -/

namespace Spec

theorem runFrom_append (data : Text) (strict : Bool) : ∀ (l₁ l₂ : List Event) (s : St),
    runFrom data strict s (l₁ ++ l₂) = (runFrom data strict s l₁).bind (fun s' => runFrom data strict s' l₂) := by
  intro l₁
  induction l₁ with
  | nil => intro l₂ s; simp [runFrom]
  | cons e es ih =>
    intro l₂ s
    simp only [List.cons_append, runFrom]
    cases stepEvent data strict s e with
    | none => simp
    | some s' => simpa using ih l₂ s'

theorem runFrom_snoc {data : Text} {strict : Bool} {s s' : St} {l : List Event} (e : Event)
    (h : runFrom data strict s l = some s') :
    runFrom data strict s (l ++ [e]) = stepEvent data strict s' e := by
  rw [runFrom_append, h]
  simp only [Option.bind_some, runFrom]
  cases stepEvent data strict s' e <;> rfl

theorem runFrom_onlyBody {data : Text} {strict : Bool} : ∀ {evs : List Event}, OnlyBody evs →
    ∀ (c : Nat) (lb : Option Res), ∃ lb', runFrom data strict ⟨c, lb⟩ evs = some ⟨c, lb'⟩ := by
  intro evs
  induction evs with
  | nil => intro _ c lb; exact ⟨lb, rfl⟩
  | cons e es ih =>
    intro h c lb
    obtain ⟨res, rfl⟩ := h e (by simp)
    have h' : OnlyBody es := fun e he => h e (by simp [he])
    obtain ⟨lb', hlb⟩ := ih h' c (some res)
    exact ⟨lb', by simpa [runFrom, stepEvent] using hlb⟩

end Spec

/-! ### the invariant -/

def TruncationSignalled (script : List Conn) : Prop := ∀ c ∈ script, c.signalsTruncation

/-- what `reset` needs and keeps (the body is about to be closed, so nothing is asked of it) -/
structure Pre (data : Text) (strict : Bool) (r : Reader) : Prop where
  le : r.progress ≤ data.length
  trace : ∃ lb, Spec.runFrom data strict Spec.init r.log = some ⟨r.progress, lb⟩
  sig : strict = true → TruncationSignalled r.script

/-- the honest server -/
theorem serve_spec (data : Text) (k : Kind) (c : Conn) (range : Option Nat) :
    ((serve data k c range).1 = httpOK → (serve data k c range).2 = data) ∧
    ((serve data k c range).1 = httpPartial →
      ∃ p, range = some p ∧ (serve data k c range).2 = data.drop p) := by
  unfold serve
  simp only
  split
  · simp [httpOK, httpPartial]
  · split
    · cases range with
      | none => simp [httpOK, httpPartial]
      | some p => simp [httpOK, httpPartial]
    · next h1 h2 => exact ⟨fun h => absurd h h1, fun h => absurd h h2⟩

theorem mkBody_spec (content : Text) (c : Conn) :
    (mkBody content c).closed = false ∧ (mkBody content c).rest <+: content ∧
    (mkBody content c).ending = c.ending ∧
    (c.cutAfter = none → (mkBody content c).rest = content) := by
  unfold mkBody
  split
  · simp_all
  · next k hk => exact ⟨rfl, List.take_prefix _ _, rfl, fun h => by simp [hk] at h⟩

/-- a freshly installed body is open and positioned at `P` -/
structure Installed (data : Text) (strict : Bool) (P : Nat) (b : Body) : Prop where
  isOpen : b.closed = false
  pre : b.rest <+: data.drop P
  full : strict = true → b.ending = .clean → b.rest = data.drop P

theorem trace_req {data : Text} {strict : Bool} {r : Reader}
    (h : ∃ lb, Spec.runFrom data strict Spec.init r.log = some ⟨r.progress, lb⟩) :
    ∃ lb, Spec.runFrom data strict Spec.init
      (r.log ++ [Event.req (if r.progress ≠ 0 then some r.progress else none)]) = some ⟨r.progress, lb⟩ := by
  obtain ⟨lb, hlb⟩ := h
  refine ⟨lb, ?_⟩
  rw [Spec.runFrom_snoc _ hlb]
  simp [Spec.stepEvent]

theorem trace_bodies {data : Text} {strict : Bool} {log evs : List Event} {P : Nat}
    (h : ∃ lb, Spec.runFrom data strict Spec.init log = some ⟨P, lb⟩) (he : OnlyBody evs) :
    ∃ lb, Spec.runFrom data strict Spec.init (log ++ evs) = some ⟨P, lb⟩ := by
  obtain ⟨lb, hlb⟩ := h
  obtain ⟨lb', h'⟩ := Spec.runFrom_onlyBody (data := data) (strict := strict) he P lb
  exact ⟨lb', by rw [Spec.runFrom_append, hlb]; simpa using h'⟩

theorem reset_spec {cfg : Cfg} (hd : cfg.discardCode = httpOK) (hp : cfg.passCode = httpPartial)
    {data : Text} {strict : Bool} (k : Kind) {r r' : Reader} {o : Outcome}
    (h : Pre data strict r) (hr : Impl.reset cfg data k r = (r', o)) :
    Pre data strict r' ∧ r'.progress = r.progress ∧
    (∀ code, o = .installed code → Installed data strict r.progress r'.body) ∧
    ((∀ code, o ≠ .installed code) → r'.body.closed = true) := by
  have htr := trace_req h.trace
  unfold Impl.reset at hr
  simp only at hr
  split at hr
  · -- no connection left
    cases hr
    exact ⟨⟨h.le, htr, fun hs c hc => by simp_all⟩, rfl, fun _ hc => (nomatch hc), fun _ => rfl⟩
  · next c script hsc =>
    have hsig : strict = true → TruncationSignalled script := fun hs c' hc' =>
      h.sig hs c' (by rw [hsc]; exact List.mem_cons_of_mem _ hc')
    have hc : strict = true → c.signalsTruncation := fun hs => h.sig hs c (by rw [hsc]; simp)
    split at hr
    · cases hr
      exact ⟨⟨h.le, htr, hsig⟩, rfl, fun _ hc => (nomatch hc), fun _ => rfl⟩
    · have hsv := serve_spec data k c (if r.progress ≠ 0 then some r.progress else none)
      generalize serve data k c (if r.progress ≠ 0 then some r.progress else none) = sv at hr hsv
      obtain ⟨code, content⟩ := sv
      simp only at hr hsv
      have hmk := mkBody_spec content c
      split at hr
      · cases hr
        exact ⟨⟨h.le, htr, hsig⟩, rfl, fun _ hc => (nomatch hc), fun _ => rfl⟩
      · split at hr
        · next hcode =>
          -- 200: the whole file; discard what was already read
          have hcont : content = data := hsv.1 (by rw [hcode, hd])
          subst hcont
          split at hr
          · next hP =>
            rw [if_pos hP] at htr
            have hds := discard_spec (r.progress + 1) (mkBody content c) r.progress hmk.1
            generalize discard (r.progress + 1) (mkBody content c) r.progress = dv at hr hds
            obtain ⟨nb', good, evs⟩ := dv
            simp only at hds
            cases good with
            | true =>
              simp only at hr
              cases hr
              obtain ⟨a1, a2, a3, a4⟩ := hds.2 rfl
              refine ⟨⟨h.le, trace_bodies htr hds.1, hsig⟩, rfl, fun _ _ => ⟨a4, ?_, ?_⟩, fun hne => absurd rfl (hne _)⟩
              · show nb'.rest <+: _
                rw [a2]; exact prefix_drop_of_le hmk.2.1 a1
              · intro hs he
                show nb'.rest = _
                rw [a2, hmk.2.2.2 (hc hs (by rw [← hmk.2.2.1, ← a3]; exact he))]
            | false =>
              simp only at hr
              cases hr
              exact ⟨⟨h.le, trace_bodies htr hds.1, hsig⟩, rfl, fun _ hc => (nomatch hc), fun _ => rfl⟩
          · next hP =>
            rw [if_neg hP] at htr
            have hP0 : r.progress = 0 := by simpa using hP
            cases hr
            refine ⟨⟨h.le, htr, hsig⟩, rfl, fun _ _ => ⟨hmk.1, ?_, ?_⟩, fun hne => absurd rfl (hne _)⟩
            · show (mkBody content c).rest <+: _
              rw [hP0]; simpa using hmk.2.1
            · intro hs he
              show (mkBody content c).rest = _
              rw [hP0, hmk.2.2.2 (hc hs (by rw [← hmk.2.2.1]; exact he))]; simp
        · split at hr
          · cases hr
            exact ⟨⟨h.le, htr, hsig⟩, rfl, fun _ hc => (nomatch hc), fun _ => rfl⟩
          · next hne hcode =>
            -- 206: the file from the requested offset
            have hcode' : code = httpPartial := by
              rw [← hp]; exact Decidable.of_not_not hcode
            obtain ⟨p, hrange, hcont⟩ := hsv.2 hcode'
            have hpP : p = r.progress ∧ r.progress ≠ 0 := by
              by_cases h0 : r.progress = 0
              · simp [h0] at hrange
              · simp [h0] at hrange; exact ⟨hrange.symm, h0⟩
            cases hr
            refine ⟨⟨h.le, htr, hsig⟩, rfl, fun _ _ => ⟨hmk.1, ?_, ?_⟩, fun hne => absurd rfl (hne _)⟩
            · show (mkBody content c).rest <+: _
              rw [← hpP.1, ← hcont]; exact hmk.2.1
            · intro hs he
              show (mkBody content c).rest = _
              rw [hmk.2.2.2 (hc hs (by rw [← hmk.2.2.1]; exact he)), hcont, hpP.1]

/-- the body is closed, or open and positioned at `P` -/
def BodyAt (data : Text) (strict : Bool) (P : Nat) (b : Body) : Prop :=
  b.closed = true ∨ Installed data strict P b

/-- the invariant that holds between the consumer's operations -/
structure Inv (data : Text) (strict : Bool) (r : Reader) : Prop extends Pre data strict r where
  body : BodyAt data strict r.progress r.body

/-- one `Read` on a body positioned at `P` -/
theorem body_step {data : Text} {strict : Bool} {P : Nat} {b : Body} (m : Nat) (hP : P ≤ data.length)
    (hb : BodyAt data strict P b) :
    (b.read m).2.1 <+: data.drop P ∧
    BodyAt data strict (P + (b.read m).2.1.length) (b.read m).1 ∧
    (strict = true → (b.read m).2.2 = .eof → P + (b.read m).2.1.length = data.length) := by
  rcases hb with hc | hb
  · rw [Body.read_closed m hc]
    exact ⟨List.nil_prefix, Or.inl hc, fun _ h => nomatch h⟩
  · obtain ⟨hrest, hend, hcl, heof⟩ := Body.read_open m hb.isOpen
    generalize b.read m = x at hrest hend hcl heof
    obtain ⟨b', out, res⟩ := x
    simp only at hrest hend hcl heof ⊢
    have hpre := hb.pre
    rw [hrest] at hpre
    obtain ⟨p1, p2⟩ := prefix_split hpre
    rw [List.drop_drop] at p2
    refine ⟨p1, Or.inr ⟨hcl, p2, ?_⟩, ?_⟩
    · intro hs he
      have hfull := hb.full hs (by rw [← hend]; exact he)
      rw [hrest] at hfull
      rw [← List.drop_drop, ← hfull, List.drop_left]
    · intro hs he
      obtain ⟨e1, e2⟩ := heof he
      have hfull := hb.full hs e1
      rw [hrest, e2, List.append_nil] at hfull
      rw [hfull, List.length_drop]
      omega

theorem getLast?_tail {retry : Bool} {sched : List Bool} (h : (retry :: sched).getLast? = some false)
    (hr : retry = true) : sched.getLast? = some false := by
  cases sched with
  | nil => simp [hr] at h
  | cons a t => simpa [List.getLast?_cons_cons] using h

theorem readLoop_spec {cfg : Cfg} (hd : cfg.discardCode = httpOK) (hp : cfg.passCode = httpPartial)
    {data : Text} {strict : Bool} (k : Kind) (m : Nat) :
    ∀ (sched : List Bool), sched.getLast? = some false → ∀ (r : Reader) (last : Text × Res),
      Inv data strict r → ∀ (r' : Reader) (out : Text) (res : Res),
      Impl.readLoop cfg data k m sched r last = (r', out, res) →
      r'.progress = r.progress ∧ out <+: data.drop r.progress ∧
      BodyAt data strict (r.progress + out.length) r'.body ∧
      (strict = true → res = .eof → r.progress + out.length = data.length) ∧
      (strict = true → TruncationSignalled r'.script) ∧
      (∃ lb, Spec.runFrom data strict Spec.init r'.log = some ⟨r.progress, lb⟩ ∧
        (res.isErr = true ∨ lb = some res)) := by
  intro sched
  induction sched with
  | nil => intro hs; simp at hs
  | cons retry sched ih =>
    intro hs r last hinv r' out res hrl
    obtain ⟨b1, b2, b3⟩ := body_step m hinv.le hinv.body
    obtain ⟨lb0, htr0⟩ := hinv.trace
    have htr1 : ∀ res1, Spec.runFrom data strict Spec.init (r.log ++ [Event.body res1]) =
        some ⟨r.progress, some res1⟩ := fun res1 => by
      rw [Spec.runFrom_snoc _ htr0]; rfl
    unfold Impl.readLoop at hrl
    generalize r.body.read m = x at hrl b1 b2 b3
    obtain ⟨b', out1, res1⟩ := x
    simp only at hrl b1 b2 b3
    split at hrl
    · cases hrl
      exact ⟨rfl, b1, b2, b3, hinv.sig, _, htr1 _, Or.inr rfl⟩
    · next hf =>
      have hf' : res1 = .fault := Decidable.of_not_not hf
      subst hf'
      split at hrl
      · cases hrl
        exact ⟨rfl, b1, b2, b3, hinv.sig, _, htr1 _, Or.inl rfl⟩
      · next hretry =>
        have hretry' : retry = true := by simpa using hretry
        have hpre1 : Pre data strict { r with body := b', log := r.log ++ [Event.body Res.fault] } :=
          ⟨hinv.le, ⟨_, htr1 _⟩, hinv.sig⟩
        split at hrl
        · next r2 heq =>
          cases hrl
          obtain ⟨q1, q2, _, q4⟩ := reset_spec hd hp k hpre1 heq
          obtain ⟨lb, hlb⟩ := q1.trace
          rw [q2] at hlb
          exact ⟨q2, b1, Or.inl (q4 (fun _ hc => nomatch hc)), fun _ h => (nomatch h), q1.sig,
            lb, hlb, Or.inl rfl⟩
        · next r2 o hne heq =>
          obtain ⟨q1, q2, q3, q4⟩ := reset_spec hd hp k hpre1 heq
          have hinv2 : Inv data strict r2 := by
            refine ⟨q1, ?_⟩
            cases o with
            | installed code => rw [q2]; exact Or.inr (q3 code rfl)
            | passthrough code => exact Or.inl (q4 (fun _ hc => nomatch hc))
            | error => exact absurd rfl hne
          have := ih (getLast?_tail hs hretry') r2 (out1, Res.fault) hinv2 r' out res hrl
          rw [q2] at this
          exact this

/-- the configuration facts the proofs need; discharged for `Cfg.generated` by the ties in C20.lean -/
structure Cfg.Good (cfg : Cfg) : Prop where
  sched : cfg.sched.getLast? = some false
  discard : cfg.discardCode = httpOK
  pass : cfg.passCode = httpPartial

theorem read_inv {cfg : Cfg} (hc : cfg.Good) {data : Text} {strict : Bool} (k : Kind) (m : Nat)
    {r : Reader} (h : Inv data strict r) : Inv data strict (Impl.read cfg data k r m).1 := by
  unfold Impl.read
  have hsp := readLoop_spec hc.discard hc.pass (data := data) (strict := strict) k m cfg.sched hc.sched
    r ([], Res.ok) h
  generalize Impl.readLoop cfg data k m cfg.sched r ([], Res.ok) = x at hsp
  obtain ⟨r', out, res⟩ := x
  obtain ⟨p1, p2, p3, p4, p5, lb, p6, p7⟩ := hsp r' out res rfl
  simp only
  have hlen : out.length ≤ data.length - r.progress := by
    have := p2.length_le
    rwa [List.length_drop] at this
  have hle := h.le
  have c1 : out.isPrefixOf (data.drop r.progress) = true := List.isPrefixOf_iff_prefix.mpr p2
  have c2 : (!strict || res != .eof || r.progress + out.length == data.length) = true := by
    cases strict with
    | false => rfl
    | true =>
      by_cases he : res = .eof
      · simp [p4 rfl he]
      · simp [he]
  have c3 : (!(lb == some Res.fault || lb == some Res.weof) || res.isErr) = true := by
    rcases p7 with h7 | h7
    · simp [h7]
    · subst h7; cases res <;> simp [Res.isErr]
  refine ⟨⟨?_, ⟨none, ?_⟩, p5⟩, ?_⟩
  · show r'.progress + out.length ≤ data.length
    omega
  · show Spec.runFrom data strict Spec.init (r'.log ++ [Event.result out res]) = some ⟨r'.progress + out.length, none⟩
    rw [Spec.runFrom_snoc _ p6, p1]
    simp only [Spec.stepEvent]
    rw [if_pos (by simp only [c1, c2, c3, Bool.and_self])]
  · show BodyAt data strict (r'.progress + out.length) r'.body
    rw [p1]; exact p3

theorem close_inv {data : Text} {strict : Bool} {r : Reader} (h : Inv data strict r) :
    Inv data strict (Impl.close r) := by
  obtain ⟨lb, hlb⟩ := h.trace
  refine ⟨⟨h.le, ⟨lb, ?_⟩, h.sig⟩, Or.inl rfl⟩
  show Spec.runFrom data strict Spec.init (r.log ++ [Event.close]) = _
  rw [Spec.runFrom_snoc _ hlb]; rfl

theorem runOps_inv {cfg : Cfg} (hc : cfg.Good) {data : Text} {strict : Bool} (k : Kind) :
    ∀ (ops : List Op) (r : Reader), Inv data strict r → Inv data strict (runOps cfg data k r ops) := by
  intro ops
  induction ops with
  | nil => intro r h; exact h
  | cons op ops ih =>
    intro r h
    show Inv data strict (runOps cfg data k (step cfg data k r op) ops)
    apply ih
    cases op with
    | read m => exact read_inv hc k m h
    | close => exact close_inv h

/-- the whole download: `RoundTrip` followed by any consumer operations keeps the invariant -/
theorem run_inv {cfg : Cfg} (hc : cfg.Good) (data : Text) (strict : Bool) (k : Kind)
    (script : List Conn) (ops : List Op) (hsig : strict = true → TruncationSignalled script) :
    Inv data strict (run cfg data k script ops).2 := by
  have hpre : Pre data strict (Impl.start script) :=
    ⟨Nat.zero_le _, ⟨none, rfl⟩, hsig⟩
  unfold run Impl.roundTrip
  generalize hx : Impl.reset cfg data k (Impl.start script) = x
  obtain ⟨r, o⟩ := x
  obtain ⟨q1, q2, q3, q4⟩ := reset_spec hc.discard hc.pass k hpre hx
  cases o with
  | installed code =>
    exact runOps_inv hc k ops r ⟨q1, by rw [q2]; exact Or.inr (q3 code rfl)⟩
  | passthrough code => exact ⟨q1, Or.inl (q4 (fun _ hc => nomatch hc))⟩
  | error => exact ⟨q1, Or.inl (q4 (fun _ hc => nomatch hc))⟩

/-! ### bounded retries -/

def reqCount : List Event → Nat
  | [] => 0
  | .req _ :: es => reqCount es + 1
  | _ :: es => reqCount es

theorem reqCount_append (l₁ l₂ : List Event) : reqCount (l₁ ++ l₂) = reqCount l₁ + reqCount l₂ := by
  induction l₁ with
  | nil => simp [reqCount]
  | cons e es ih => cases e <;> simp [reqCount, ih] <;> omega

theorem reqCount_onlyBody {evs : List Event} (h : OnlyBody evs) : reqCount evs = 0 := by
  induction evs with
  | nil => rfl
  | cons e es ih =>
    obtain ⟨res, rfl⟩ := h e (by simp)
    simpa [reqCount] using ih (fun e he => h e (by simp [he]))

/-- `reset` sends exactly one request -/
theorem reset_reqCount (cfg : Cfg) (data : Text) (k : Kind) (r : Reader) :
    reqCount (Impl.reset cfg data k r).1.log = reqCount r.log + 1 := by
  unfold Impl.reset
  simp only
  split
  · simp [reqCount_append, reqCount]
  · split
    · simp [reqCount_append, reqCount]
    · generalize serve data k _ _ = sv
      obtain ⟨code, content⟩ := sv
      simp only
      split
      · simp [reqCount_append, reqCount]
      · have hmk := mkBody_spec content ‹Conn›
        split
        · split
          · have hds := discard_spec (r.progress + 1) (mkBody content ‹Conn›) r.progress hmk.1
            generalize discard (r.progress + 1) (mkBody content ‹Conn›) r.progress = dv at hds
            obtain ⟨nb', good, evs⟩ := dv
            cases good <;> simp [reqCount_append, reqCount, reqCount_onlyBody hds.1]
          · simp [reqCount_append, reqCount]
        · split <;> simp [reqCount_append, reqCount]

theorem readLoop_reqCount (cfg : Cfg) (data : Text) (k : Kind) (m : Nat) :
    ∀ (sched : List Bool) (r : Reader) (last : Text × Res),
      reqCount (Impl.readLoop cfg data k m sched r last).1.log ≤ reqCount r.log + sched.count true := by
  intro sched
  induction sched with
  | nil => intro r last; simp [Impl.readLoop]
  | cons retry sched ih =>
    intro r last
    unfold Impl.readLoop
    generalize r.body.read m = x
    obtain ⟨b', out, res⟩ := x
    simp only
    split
    · simp [reqCount_append, reqCount]
    · split
      · simp [reqCount_append, reqCount]
      · next hretry =>
        have hretry' : retry = true := by simpa using hretry
        have hrc := reset_reqCount cfg data k { r with body := b', log := r.log ++ [Event.body res] }
        simp only [reqCount_append, reqCount, Nat.add_zero] at hrc
        split
        · next r2 heq =>
          rw [heq] at hrc
          simp only at hrc ⊢
          rw [hrc, hretry', List.count_cons_self]; omega
        · next r2 o hne heq =>
          rw [heq] at hrc
          simp only at hrc
          have := ih r2 (out, Res.fault)
          rw [hretry', List.count_cons_self]; omega

/-! ### reading the property off an accepted trace -/

namespace Spec

theorem stepEvent_consumed {data : Text} {strict : Bool} {s s' : St} {e : Event}
    (h : stepEvent data strict s e = some s') :
    s'.consumed = s.consumed + (delivered [e]).length := by
  cases e with
  | req range => simp only [stepEvent] at h; split at h <;> simp_all [delivered]
  | body res => simp only [stepEvent] at h; cases h; simp [delivered]
  | result out res => simp only [stepEvent] at h; split at h <;> simp_all [delivered]; cases h; rfl
  | close => simp only [stepEvent] at h; cases h; simp [delivered]

theorem delivered_append (l₁ l₂ : List Event) : delivered (l₁ ++ l₂) = delivered l₁ ++ delivered l₂ := by
  induction l₁ with
  | nil => rfl
  | cons e es ih => cases e <;> simp [delivered, ih]

theorem runFrom_consumed {data : Text} {strict : Bool} : ∀ (l : List Event) (s s' : St),
    runFrom data strict s l = some s' → s'.consumed = s.consumed + (delivered l).length := by
  intro l
  induction l with
  | nil => intro s s' h; simp only [runFrom] at h; cases h; simp [delivered]
  | cons e es ih =>
    intro s s' h
    simp only [runFrom] at h
    split at h
    · cases h
    · next s1 h1 =>
      rw [ih s1 s' h, stepEvent_consumed h1]
      have : delivered (e :: es) = delivered [e] ++ delivered es := delivered_append [e] es
      rw [this, List.length_append]; omega

/-- an accepted trace accepts every event in the state reached by the events before it -/
theorem runFrom_split {data : Text} {strict : Bool} {s s'' : St} {pre post : List Event} {e : Event}
    (h : runFrom data strict s (pre ++ e :: post) = some s'') :
    ∃ s' s2, runFrom data strict s pre = some s' ∧ stepEvent data strict s' e = some s2 := by
  rw [runFrom_append] at h
  cases hp : runFrom data strict s pre with
  | none => simp [hp] at h
  | some s' =>
    simp only [hp, Option.bind_some, runFrom] at h
    cases he : stepEvent data strict s' e with
    | none => simp [he] at h
    | some s2 => exact ⟨s', s2, rfl, he⟩

theorem runFrom_prefix {data : Text} {strict : Bool} : ∀ (l : List Event) (s s' : St),
    runFrom data strict s l = some s' → delivered l <+: data.drop s.consumed := by
  intro l
  induction l with
  | nil => intro s s' _; exact List.nil_prefix
  | cons e es ih =>
    intro s s' h
    simp only [runFrom] at h
    split at h
    · cases h
    · next s1 h1 =>
      have ih' := ih s1 s' h
      have hc := stepEvent_consumed h1
      cases e with
      | result out res =>
        simp only [stepEvent] at h1
        split at h1
        · next hcond =>
          simp only [Bool.and_eq_true] at hcond
          obtain ⟨t, ht⟩ := List.isPrefixOf_iff_prefix.mp hcond.1.1
          simp only [delivered, List.length_append, List.length_nil, Nat.add_zero] at hc
          rw [hc, ← List.drop_drop, ← ht, List.drop_left] at ih'
          simp only [delivered]
          rw [← ht]
          exact (List.prefix_append_right_inj out).mpr ih'
        · cases h1
      | req range => simp only [delivered, List.length_nil, Nat.add_zero] at hc ⊢; rw [hc] at ih'; exact ih'
      | body r => simp only [delivered, List.length_nil, Nat.add_zero] at hc ⊢; rw [hc] at ih'; exact ih'
      | close => simp only [delivered, List.length_nil, Nat.add_zero] at hc ⊢; rw [hc] at ih'; exact ih'

/-- requests and closes leave the checker's state alone -/
def Quiet (evs : List Event) : Prop := ∀ e ∈ evs, (∃ range, e = Event.req range) ∨ e = Event.close

theorem runFrom_quiet {data : Text} {strict : Bool} : ∀ (l : List Event) (s s' : St), Quiet l →
    runFrom data strict s l = some s' → s' = s := by
  intro l
  induction l with
  | nil => intro s s' _ h; simp only [runFrom] at h; cases h; rfl
  | cons e es ih =>
    intro s s' hq h
    simp only [runFrom] at h
    split at h
    · cases h
    · next s1 h1 =>
      have hs1 : s1 = s := by
        rcases hq e (by simp) with ⟨range, rfl⟩ | rfl
        · simp only [stepEvent] at h1; split at h1 <;> simp_all
        · simp only [stepEvent] at h1; cases h1; rfl
      rw [hs1] at h
      exact ih s s' (fun e he => hq e (by simp [he])) h

end Spec

end Apko.Retry
