/-
Helper lemmas for C20 (Apko/Proofs/C20.lean): facts about the response-body model, `discard`,
the Spec checker and the invariant preserved by `reset` / `readLoop` / `read` / `close`.
-/
import Apko.Model.Retry

namespace Apko.Retry
open Apko

/-! ### lists -/

theorem prefix_drop_of_le {l₁ l₂ : Text} (h : l₁ <+: l₂) {n : Nat} (hn : n ≤ l₁.length) :
    l₁.drop n <+: l₂.drop n := by
  obtain ⟨t, rfl⟩ := h
  rw [List.drop_append_of_le_length hn]
  exact List.prefix_append _ _

theorem prefix_split {a b l : Text} (h : a ++ b <+: l) :
    a <+: l ∧ b <+: l.drop a.length := by
  obtain ⟨t, rfl⟩ := h
  refine ⟨⟨b ++ t, by simp⟩, ⟨t, ?_⟩⟩
  simp [List.append_assoc]

/-! ### `Body.read` -/

theorem Body.read_closed {b : Body} (m : Nat) (h : b.closed = true) : b.read m = (b, [], .fault) := by
  simp [Body.read, h]

/-- an open body hands out a prefix of what it still holds and keeps the rest -/
theorem Body.read_open {b : Body} (m : Nat) (h : b.closed = false) :
    b.rest = (b.read m).2.1 ++ (b.read m).1.rest ∧ (b.read m).1.ending = b.ending ∧
    (b.read m).1.closed = false ∧
    ((b.read m).2.2 = .eof → b.ending = .clean ∧ (b.read m).1.rest = []) := by
  unfold Body.read
  simp only [h, Bool.false_eq_true, if_false]
  by_cases he : b.rest.isEmpty
  · simp only [he, if_true]
    refine ⟨by simpa using he, trivial, h, ?_⟩
    intro hr
    refine ⟨?_, by simpa using he⟩
    cases hb : b.ending <;> simp_all [End.res]
  · simp only [he, Bool.false_eq_true, if_false]
    refine ⟨by simp, trivial, trivial, ?_⟩
    intro hr
    split at hr
    · next hc =>
        simp only [Bool.and_eq_true] at hc
        refine ⟨?_, by simpa using hc.1.1⟩
        cases hb : b.ending <;> simp_all [End.res]
    · cases hr

theorem Body.cap_le (b : Body) (m : Nat) : b.cap m ≤ m := by
  unfold Body.cap; split <;> omega

theorem Body.read_length_le (b : Body) (m : Nat) : (b.read m).2.1.length ≤ m := by
  unfold Body.read
  split
  · simp
  · split
    · simp
    · simp only [List.length_take]
      have := b.cap_le m
      omega

/-! ### `discard` (io.CopyN into io.Discard) -/

/-- every event is a body read -/
def OnlyBody (evs : List Event) : Prop := ∀ e ∈ evs, ∃ res, e = Event.body res

theorem discard_spec : ∀ (fuel : Nat) (b : Body) (n : Nat), b.closed = false →
    OnlyBody (discard fuel b n).2.2 ∧
    ((discard fuel b n).2.1 = none →
      n ≤ b.rest.length ∧ (discard fuel b n).1.rest = b.rest.drop n ∧
      (discard fuel b n).1.ending = b.ending ∧ (discard fuel b n).1.closed = false) := by
  intro fuel
  induction fuel with
  | zero =>
    intro b n h
    cases n with
    | zero => simp [discard, OnlyBody, h]
    | succ n => simp [discard, OnlyBody]
  | succ fuel ih =>
    intro b n h
    cases n with
    | zero => simp [discard, OnlyBody, h]
    | succ n =>
      have ho := Body.read_open (min discardBuf (n + 1)) h
      have hl := Body.read_length_le b (min discardBuf (n + 1))
      simp only [discard]
      generalize hrd : b.read (min discardBuf (n + 1)) = x at ho hl
      obtain ⟨b', out, res⟩ := x
      simp only at ho hl ⊢
      obtain ⟨hrest, hend, hcl, _⟩ := ho
      have hout : out.length ≤ n + 1 := by omega
      by_cases hres : res = .ok
      · simp only [hres, if_true]
        obtain ⟨ih1, ih2⟩ := ih b' (n + 1 - out.length) hcl
        refine ⟨?_, ?_⟩
        · intro e he
          simp only [List.mem_cons] at he
          rcases he with rfl | he
          · exact ⟨_, rfl⟩
          · exact ih1 e he
        · intro hg
          obtain ⟨a1, a2, a3, a4⟩ := ih2 hg
          refine ⟨?_, ?_, by rw [a3, hend], a4⟩
          · rw [hrest, List.length_append]; omega
          · rw [a2, hrest, List.drop_append, List.drop_eq_nil_of_le hout]; simp
      · simp only [hres, if_false]
        refine ⟨?_, ?_⟩
        · intro e he
          simp only [List.mem_singleton] at he
          exact ⟨_, he⟩
        · intro hg
          have h0 : n + 1 - out.length = 0 := by
            by_cases h0 : n + 1 - out.length = 0
            · exact h0
            · rw [if_neg h0] at hg; cases hg
          have hlen : out.length = n + 1 := by omega
          refine ⟨?_, ?_, hend, hcl⟩
          · rw [hrest, List.length_append]; omega
          · rw [hrest, List.drop_append, List.drop_eq_nil_of_le (by omega)]; simp [hlen]

/-- `errors.Join` of two errors is an error, and never the bare `io.EOF` the consumers take for the end -/
theorem joinErr_isErr (a b : Res) : (joinErr a b).isErr = true := by
  unfold joinErr; split <;> rfl

theorem joinErr_ne_eof (a b : Res) : joinErr a b ≠ .eof := by
  unfold joinErr; split <;> simp

/-! ### the Spec checker -/

namespace Spec

theorem runFrom_append (data : Text) (k : Kind) : ∀ (l₁ l₂ : List Event) (s : St),
    runFrom data k s (l₁ ++ l₂) = (runFrom data k s l₁).bind (fun s' => runFrom data k s' l₂) := by
  intro l₁
  induction l₁ with
  | nil => intro l₂ s; simp [runFrom]
  | cons e es ih =>
    intro l₂ s
    simp only [List.cons_append, runFrom]
    cases stepEvent data k s e with
    | none => simp
    | some s' => simpa using ih l₂ s'

theorem runFrom_snoc {data : Text} {k : Kind} {s s' : St} {l : List Event} (e : Event)
    (h : runFrom data k s l = some s') :
    runFrom data k s (l ++ [e]) = stepEvent data k s' e := by
  rw [runFrom_append, h]
  simp only [Option.bind_some, runFrom]
  cases stepEvent data k s' e <;> rfl

theorem runFrom_onlyBody {data : Text} {k : Kind} : ∀ {evs : List Event}, OnlyBody evs →
    ∀ (s : St), ∃ lb', runFrom data k s evs = some { s with lastBody := lb' } := by
  intro evs
  induction evs with
  | nil => intro _ s; exact ⟨s.lastBody, rfl⟩
  | cons e es ih =>
    intro h s
    obtain ⟨res, rfl⟩ := h e (by simp)
    have h' : OnlyBody es := fun e he => h e (by simp [he])
    obtain ⟨lb', hlb⟩ := ih h' { s with lastBody := some res }
    exact ⟨lb', by simpa [runFrom, stepEvent] using hlb⟩

end Spec

/-! ### the invariant -/

/-- the script-level (round 1) assumption: no connection of the script has a clean early end at all -/
def TruncationSignalled (script : List Conn) : Prop := ∀ c ∈ script, c.signalsTruncation

/-- what `reset` needs and keeps (the body is about to be closed, so nothing is asked of it): the checker,
started on the whole script `script0`, accepts the reader's log and stands where the reader stands —
same position, same connections left -/
structure Pre (data : Text) (k : Kind) (script0 : List Conn) (r : Reader) : Prop where
  le : r.progress ≤ data.length
  trace : ∃ lb w, Spec.runFrom data k (Spec.init script0) r.log = some ⟨r.progress, lb, r.script, w⟩

/-- the honest server -/
theorem serve_spec (data : Text) (k : Kind) (c : Conn) (range : Option Nat) :
    ((serve data k c range).1 = httpOK → (serve data k c range).2 = data) ∧
    ((serve data k c range).1 = httpPartial →
      ∃ p, range = some p ∧ (serve data k c range).2 = data.drop p) := by
  unfold serve
  simp only
  split
  · simp [httpOK, httpPartial]
  · split
    · cases range with
      | none => simp [httpOK, httpPartial]
      | some p => simp [httpOK, httpPartial]
    · next h1 h2 => exact ⟨fun h => absurd h h1, fun h => absurd h h2⟩

theorem mkBody_spec (content : Text) (c : Conn) :
    (mkBody content c).closed = false ∧ (mkBody content c).rest <+: content ∧
    (mkBody content c).ending = c.ending ∧
    (c.cutAfter = none → (mkBody content c).rest = content) := by
  unfold mkBody
  split
  · simp_all
  · next k hk => exact ⟨rfl, List.take_prefix _ _, rfl, fun h => by simp [hk] at h⟩

/-- a connection whose stream ends cleanly and whose clean early end (if any) is not invisible delivers
the whole response body — or it answered a request for offset `p` with 200 and fewer than `p` bytes -/
theorem mkBody_full {data : Text} {k : Kind} {c : Conn} {range : Option Nat} {code : Nat} {content : Text}
    (hs : serve data k c range = (code, content)) (hf : c.connFail = false)
    (hcode : code = httpOK ∨ code = httpPartial)
    (hinv : c.invisibleEnd data k range = false) (he : c.ending = .clean) :
    (mkBody content c).rest = content ∨
      (code = httpOK ∧ ∃ p, range = some p ∧ (mkBody content c).rest.length < p) := by
  unfold Conn.invisibleEnd Conn.cleanEarlyEnd at hinv
  unfold mkBody
  cases hq : c.cutAfter with
  | none => exact Or.inl rfl
  | some q =>
    simp only [hq, hf, he, hs, bne_self_eq_false, Bool.or_self, Bool.false_eq_true, if_false] at hinv ⊢
    by_cases hlt : q < content.length
    · right
      rw [if_pos ⟨hcode, hlt⟩] at hinv
      cases range with
      | none => simp [evidentEnd] at hinv
      | some p =>
        simp [evidentEnd] at hinv
        exact ⟨hinv.1, p, rfl, by have := hinv.2; simp only [List.length_take]; omega⟩
    · left
      exact List.take_of_length_le (by omega)

/-- a connection that satisfies the script-level assumption has no clean early end, whatever it is asked -/
theorem invisibleEnd_of_signals {c : Conn} (h : c.signalsTruncation) (data : Text) (k : Kind)
    (range : Option Nat) : c.invisibleEnd data k range = false := by
  unfold Conn.invisibleEnd Conn.cleanEarlyEnd
  by_cases he : c.ending = .clean
  · simp [h he]
  · simp [he]

/-- a freshly installed body is open and positioned at `P`; unless its connection is waived (`w`: it has a
clean early end the reader cannot see), a clean end is the end of the file -/
structure Installed (data : Text) (w : Bool) (P : Nat) (b : Body) : Prop where
  isOpen : b.closed = false
  pre : b.rest <+: data.drop P
  full : w = false → b.ending = .clean → b.rest = data.drop P

theorem trace_req {data : Text} {k : Kind} {script0 : List Conn} {r : Reader}
    (h : ∃ lb w, Spec.runFrom data k (Spec.init script0) r.log = some ⟨r.progress, lb, r.script, w⟩) :
    ∃ lb, Spec.runFrom data k (Spec.init script0)
      (r.log ++ [Event.req (if r.progress ≠ 0 then some r.progress else none)]) =
        some ⟨r.progress, lb, r.script.tail,
          Spec.nextWaive data k r.script (if r.progress ≠ 0 then some r.progress else none)⟩ := by
  obtain ⟨lb, w, hlb⟩ := h
  refine ⟨lb, ?_⟩
  rw [Spec.runFrom_snoc _ hlb]
  simp [Spec.stepEvent]

theorem trace_bodies {data : Text} {k : Kind} {s0 s : Spec.St} {log evs : List Event}
    (h : Spec.runFrom data k s0 log = some s) (he : OnlyBody evs) :
    ∃ lb, Spec.runFrom data k s0 (log ++ evs) = some { s with lastBody := lb } := by
  obtain ⟨lb', h'⟩ := Spec.runFrom_onlyBody (data := data) (k := k) he s
  exact ⟨lb', by rw [Spec.runFrom_append, h]; simpa using h'⟩

theorem reset_spec {cfg : Cfg} (hd : cfg.discardCode = httpOK) (hp : cfg.passCode = httpPartial)
    {data : Text} {k : Kind} {script0 : List Conn} {r r' : Reader} {o : Outcome}
    (h : Pre data k script0 r) (hr : Impl.reset cfg data k r = (r', o)) :
    r'.progress = r.progress ∧
    ∃ lb w, Spec.runFrom data k (Spec.init script0) r'.log = some ⟨r.progress, lb, r'.script, w⟩ ∧
      (∀ code, o = .installed code → Installed data w r.progress r'.body) ∧
      ((∀ code, o ≠ .installed code) → r'.body.closed = true) := by
  obtain ⟨lbq, htr⟩ := trace_req h.trace
  unfold Impl.reset at hr
  simp only at hr
  split at hr
  · -- no connection left
    next hsc =>
    cases hr
    have ht : r.script.tail = r.script := by rw [hsc]; rfl
    rw [ht] at htr
    exact ⟨rfl, lbq, _, htr, fun _ hc => (nomatch hc), fun _ => rfl⟩
  · next c script hsc =>
    rw [hsc] at htr
    simp only [List.tail_cons, Spec.nextWaive] at htr
    split at hr
    · cases hr
      exact ⟨rfl, lbq, _, htr, fun _ hc => (nomatch hc), fun _ => rfl⟩
    · next hfail =>
      have hf : c.connFail = false := by simpa using hfail
      have hsv := serve_spec data k c (if r.progress ≠ 0 then some r.progress else none)
      generalize hsveq : serve data k c (if r.progress ≠ 0 then some r.progress else none) = sv at hr hsv
      obtain ⟨code, content⟩ := sv
      simp only at hr hsv
      have hmk := mkBody_spec content c
      split at hr
      · cases hr
        exact ⟨rfl, lbq, _, htr, fun _ hc => (nomatch hc), fun _ => rfl⟩
      · split at hr
        · next hcode =>
          -- 200: the whole file; discard what was already read
          have hcode' : code = httpOK := by rw [hcode, hd]
          have hcont : content = data := hsv.1 hcode'
          subst hcont
          split at hr
          · next hP =>
            rw [if_pos hP] at htr hsveq
            have hds := discard_spec (r.progress + 1) (mkBody content c) r.progress hmk.1
            generalize discard (r.progress + 1) (mkBody content c) r.progress = dv at hr hds
            obtain ⟨nb', err, evs⟩ := dv
            simp only at hds
            obtain ⟨lb2, htr2⟩ := trace_bodies htr hds.1
            cases err with
            | none =>
              simp only at hr
              cases hr
              obtain ⟨a1, a2, a3, a4⟩ := hds.2 rfl
              refine ⟨rfl, lb2, _, htr2, fun _ _ => ⟨a4, ?_, ?_⟩, fun hne => absurd rfl (hne _)⟩
              · show nb'.rest <+: _
                rw [a2]; exact prefix_drop_of_le hmk.2.1 a1
              · intro hw he
                show nb'.rest = _
                rcases mkBody_full hsveq hf (Or.inl hcode') hw (by rw [← hmk.2.2.1, ← a3]; exact he) with hfull | ⟨_, p, hrange, hlt⟩
                · rw [a2, hfull]
                · cases hrange; omega
            | some e =>
              simp only at hr
              cases hr
              exact ⟨rfl, lb2, _, htr2, fun _ hc => (nomatch hc), fun _ => rfl⟩
          · next hP =>
            rw [if_neg hP] at htr hsveq
            have hP0 : r.progress = 0 := by simpa using hP
            cases hr
            refine ⟨rfl, lbq, _, htr, fun _ _ => ⟨hmk.1, ?_, ?_⟩, fun hne => absurd rfl (hne _)⟩
            · show (mkBody content c).rest <+: _
              rw [hP0]; simpa using hmk.2.1
            · intro hw he
              show (mkBody content c).rest = _
              rcases mkBody_full hsveq hf (Or.inl hcode') hw (by rw [← hmk.2.2.1]; exact he) with hfull | ⟨_, p, hrange, _⟩
              · rw [hfull, hP0]; simp
              · cases hrange
        · split at hr
          · cases hr
            exact ⟨rfl, lbq, _, htr, fun _ hc => (nomatch hc), fun _ => rfl⟩
          · next hne hcode =>
            -- 206: the file from the requested offset
            have hcode' : code = httpPartial := by
              rw [← hp]; exact Decidable.of_not_not hcode
            obtain ⟨p, hrange, hcont⟩ := hsv.2 hcode'
            have hpP : p = r.progress ∧ r.progress ≠ 0 := by
              by_cases h0 : r.progress = 0
              · simp [h0] at hrange
              · simp [h0] at hrange; exact ⟨hrange.symm, h0⟩
            cases hr
            refine ⟨rfl, lbq, _, htr, fun _ _ => ⟨hmk.1, ?_, ?_⟩, fun hne => absurd rfl (hne _)⟩
            · show (mkBody content c).rest <+: _
              rw [← hpP.1, ← hcont]; exact hmk.2.1
            · intro hw he
              show (mkBody content c).rest = _
              rcases mkBody_full hsveq hf (Or.inr hcode') hw (by rw [← hmk.2.2.1]; exact he) with hfull | ⟨h200, _⟩
              · rw [hfull, hcont, hpP.1]
              · rw [hcode'] at h200; exact absurd h200 (by decide)

/-- the body is closed, or open and positioned at `P` -/
def BodyAt (data : Text) (w : Bool) (P : Nat) (b : Body) : Prop :=
  b.closed = true ∨ Installed data w P b

/-- the invariant that holds between the consumer's operations -/
structure Inv (data : Text) (k : Kind) (script0 : List Conn) (r : Reader) : Prop where
  le : r.progress ≤ data.length
  state : ∃ lb w, Spec.runFrom data k (Spec.init script0) r.log = some ⟨r.progress, lb, r.script, w⟩ ∧
    BodyAt data w r.progress r.body

/-- one `Read` on a body positioned at `P` -/
theorem body_step {data : Text} {w : Bool} {P : Nat} {b : Body} (m : Nat) (hP : P ≤ data.length)
    (hb : BodyAt data w P b) :
    (b.read m).2.1 <+: data.drop P ∧
    BodyAt data w (P + (b.read m).2.1.length) (b.read m).1 ∧
    (w = false → (b.read m).2.2 = .eof → P + (b.read m).2.1.length = data.length) := by
  rcases hb with hc | hb
  · rw [Body.read_closed m hc]
    exact ⟨List.nil_prefix, Or.inl hc, fun _ h => nomatch h⟩
  · obtain ⟨hrest, hend, hcl, heof⟩ := Body.read_open m hb.isOpen
    generalize b.read m = x at hrest hend hcl heof
    obtain ⟨b', out, res⟩ := x
    simp only at hrest hend hcl heof ⊢
    have hpre := hb.pre
    rw [hrest] at hpre
    obtain ⟨p1, p2⟩ := prefix_split hpre
    rw [List.drop_drop] at p2
    refine ⟨p1, Or.inr ⟨hcl, p2, ?_⟩, ?_⟩
    · intro hs he
      have hfull := hb.full hs (by rw [← hend]; exact he)
      rw [hrest] at hfull
      rw [← List.drop_drop, ← hfull, List.drop_left]
    · intro hs he
      obtain ⟨e1, e2⟩ := heof he
      have hfull := hb.full hs e1
      rw [hrest, e2, List.append_nil] at hfull
      rw [hfull, List.length_drop]
      omega

theorem getLast?_tail {retry : Bool} {sched : List Bool} (h : (retry :: sched).getLast? = some false)
    (hr : retry = true) : sched.getLast? = some false := by
  cases sched with
  | nil => simp [hr] at h
  | cons a t => simpa [List.getLast?_cons_cons] using h

theorem readLoop_spec {cfg : Cfg} (hd : cfg.discardCode = httpOK) (hp : cfg.passCode = httpPartial)
    {data : Text} {k : Kind} {script0 : List Conn} (m : Nat) :
    ∀ (sched : List Bool), sched.getLast? = some false → ∀ (r : Reader) (last : Text × Res),
      Inv data k script0 r → ∀ (r' : Reader) (out : Text) (res : Res),
      Impl.readLoop cfg data k m sched r last = (r', out, res) →
      r'.progress = r.progress ∧ out <+: data.drop r.progress ∧
      ∃ lb w, Spec.runFrom data k (Spec.init script0) r'.log = some ⟨r.progress, lb, r'.script, w⟩ ∧
        BodyAt data w (r.progress + out.length) r'.body ∧
        (w = false → res = .eof → r.progress + out.length = data.length) ∧
        (res.isErr = true ∨ lb = some res) := by
  intro sched
  induction sched with
  | nil => intro hs; simp at hs
  | cons retry sched ih =>
    intro hs r last hinv r' out res hrl
    obtain ⟨lb0, w0, htr0, hbody⟩ := hinv.state
    obtain ⟨b1, b2, b3⟩ := body_step m hinv.le hbody
    have htr1 : ∀ res1, Spec.runFrom data k (Spec.init script0) (r.log ++ [Event.body res1]) =
        some ⟨r.progress, some res1, r.script, w0⟩ := fun res1 => by
      rw [Spec.runFrom_snoc _ htr0]; rfl
    unfold Impl.readLoop at hrl
    generalize r.body.read m = x at hrl b1 b2 b3
    obtain ⟨b', out1, res1⟩ := x
    simp only at hrl b1 b2 b3
    split at hrl
    · cases hrl
      exact ⟨rfl, b1, _, w0, htr1 _, b2, b3, Or.inr rfl⟩
    · next hf =>
      have hf' : res1 = .fault := Decidable.of_not_not hf
      subst hf'
      split at hrl
      · cases hrl
        exact ⟨rfl, b1, _, w0, htr1 _, b2, b3, Or.inl rfl⟩
      · next hretry =>
        have hretry' : retry = true := by simpa using hretry
        have hpre1 : Pre data k script0 { r with body := b', log := r.log ++ [Event.body Res.fault] } :=
          ⟨hinv.le, ⟨_, w0, htr1 _⟩⟩
        split at hrl
        · next r2 e heq =>
          -- the resumption failed: `return n, errors.Join(rerr, err)`
          cases hrl
          obtain ⟨q2, lb, w, hlb, _, q4⟩ := reset_spec hd hp hpre1 heq
          exact ⟨q2, b1, lb, w, hlb, Or.inl (q4 (fun _ hc => nomatch hc)),
            fun _ h => absurd h (joinErr_ne_eof _ _), Or.inl (joinErr_isErr _ _)⟩
        · next r2 o hne heq =>
          obtain ⟨q2, lb, w, hlb, q3, q4⟩ := reset_spec hd hp hpre1 heq
          have hinv2 : Inv data k script0 r2 := by
            refine ⟨by rw [q2]; exact hinv.le, lb, w, by rw [q2]; exact hlb, ?_⟩
            cases o with
            | installed code => rw [q2]; exact Or.inr (q3 code rfl)
            | passthrough code => exact Or.inl (q4 (fun _ hc => nomatch hc))
            | error e => exact absurd rfl (hne e)
          have := ih (getLast?_tail hs hretry') r2 (out1, Res.fault) hinv2 r' out res hrl
          rw [q2] at this
          exact this

/-- the configuration facts the proofs need; discharged for `Cfg.generated` by the ties in C20.lean -/
structure Cfg.Good (cfg : Cfg) : Prop where
  sched : cfg.sched.getLast? = some false
  discard : cfg.discardCode = httpOK
  pass : cfg.passCode = httpPartial

theorem read_inv {cfg : Cfg} (hc : cfg.Good) {data : Text} {k : Kind} {script0 : List Conn} (m : Nat)
    {r : Reader} (h : Inv data k script0 r) : Inv data k script0 (Impl.read cfg data k r m).1 := by
  unfold Impl.read
  have hsp := readLoop_spec hc.discard hc.pass (data := data) (k := k) (script0 := script0) m cfg.sched hc.sched
    r ([], Res.ok) h
  generalize Impl.readLoop cfg data k m cfg.sched r ([], Res.ok) = x at hsp
  obtain ⟨r', out, res⟩ := x
  obtain ⟨p1, p2, lb, w, p6, p3, p4, p7⟩ := hsp r' out res rfl
  simp only
  have hlen : out.length ≤ data.length - r.progress := by
    have := p2.length_le
    rwa [List.length_drop] at this
  have hle := h.le
  have c1 : out.isPrefixOf (data.drop r.progress) = true := List.isPrefixOf_iff_prefix.mpr p2
  have c2 : (w || res != .eof || r.progress + out.length == data.length) = true := by
    cases w with
    | true => rfl
    | false =>
      by_cases he : res = .eof
      · simp [p4 rfl he]
      · simp [he]
  have c3 : (!(lb == some Res.fault || lb == some Res.weof) || res.isErr) = true := by
    rcases p7 with h7 | h7
    · simp [h7]
    · subst h7; cases res <;> simp [Res.isErr]
  refine ⟨?_, none, w, ?_, ?_⟩
  · show r'.progress + out.length ≤ data.length
    omega
  · show Spec.runFrom data k (Spec.init script0) (r'.log ++ [Event.result out res]) =
      some ⟨r'.progress + out.length, none, r'.script, w⟩
    rw [Spec.runFrom_snoc _ p6, p1]
    simp only [Spec.stepEvent]
    rw [if_pos (by simp only [c1, c2, c3, Bool.and_self])]
  · show BodyAt data w (r'.progress + out.length) r'.body
    rw [p1]; exact p3

theorem close_inv {data : Text} {k : Kind} {script0 : List Conn} {r : Reader} (h : Inv data k script0 r) :
    Inv data k script0 (Impl.close r) := by
  obtain ⟨lb, w, hlb, _⟩ := h.state
  refine ⟨h.le, lb, w, ?_, Or.inl rfl⟩
  show Spec.runFrom data k (Spec.init script0) (r.log ++ [Event.close]) = _
  rw [Spec.runFrom_snoc _ hlb]; rfl

theorem runOps_inv {cfg : Cfg} (hc : cfg.Good) {data : Text} {k : Kind} {script0 : List Conn} :
    ∀ (ops : List Op) (r : Reader), Inv data k script0 r → Inv data k script0 (runOps cfg data k r ops) := by
  intro ops
  induction ops with
  | nil => intro r h; exact h
  | cons op ops ih =>
    intro r h
    show Inv data k script0 (runOps cfg data k (step cfg data k r op) ops)
    apply ih
    cases op with
    | read m => exact read_inv hc m h
    | close => exact close_inv h

/-- the whole download: `RoundTrip` followed by any consumer operations keeps the invariant — for every
file, server kind, fault script (clean early ends included) and operation sequence -/
theorem run_inv {cfg : Cfg} (hc : cfg.Good) (data : Text) (k : Kind)
    (script : List Conn) (ops : List Op) :
    Inv data k script (run cfg data k script ops).2 := by
  have hpre : Pre data k script (Impl.start script) :=
    ⟨Nat.zero_le _, ⟨none, false, rfl⟩⟩
  unfold run Impl.roundTrip
  generalize hx : Impl.reset cfg data k (Impl.start script) = x
  obtain ⟨r, o⟩ := x
  obtain ⟨q2, lb, w, hlb, q3, q4⟩ := reset_spec hc.discard hc.pass hpre hx
  have hq2 : r.progress = 0 := q2
  cases o with
  | installed code =>
    exact runOps_inv hc ops r ⟨by rw [hq2]; exact Nat.zero_le _, lb, w, by rw [q2]; exact hlb,
      by rw [q2]; exact Or.inr (q3 code rfl)⟩
  | passthrough code =>
    exact ⟨by rw [hq2]; exact Nat.zero_le _, lb, w, by rw [q2]; exact hlb, Or.inl (q4 (fun _ hc => nomatch hc))⟩
  | error e =>
    exact ⟨by rw [hq2]; exact Nat.zero_le _, lb, w, by rw [q2]; exact hlb, Or.inl (q4 (fun _ hc => nomatch hc))⟩

/-! ### bounded retries -/

def reqCount : List Event → Nat
  | [] => 0
  | .req _ :: es => reqCount es + 1
  | _ :: es => reqCount es

theorem reqCount_append (l₁ l₂ : List Event) : reqCount (l₁ ++ l₂) = reqCount l₁ + reqCount l₂ := by
  induction l₁ with
  | nil => simp [reqCount]
  | cons e es ih => cases e <;> simp [reqCount, ih] <;> omega

theorem reqCount_onlyBody {evs : List Event} (h : OnlyBody evs) : reqCount evs = 0 := by
  induction evs with
  | nil => rfl
  | cons e es ih =>
    obtain ⟨res, rfl⟩ := h e (by simp)
    simpa [reqCount] using ih (fun e he => h e (by simp [he]))

/-- `reset` sends exactly one request -/
theorem reset_reqCount (cfg : Cfg) (data : Text) (k : Kind) (r : Reader) :
    reqCount (Impl.reset cfg data k r).1.log = reqCount r.log + 1 := by
  unfold Impl.reset
  simp only
  split
  · simp [reqCount_append, reqCount]
  · split
    · simp [reqCount_append, reqCount]
    · generalize serve data k _ _ = sv
      obtain ⟨code, content⟩ := sv
      simp only
      split
      · simp [reqCount_append, reqCount]
      · have hmk := mkBody_spec content ‹Conn›
        split
        · split
          · have hds := discard_spec (r.progress + 1) (mkBody content ‹Conn›) r.progress hmk.1
            generalize discard (r.progress + 1) (mkBody content ‹Conn›) r.progress = dv at hds
            obtain ⟨nb', good, evs⟩ := dv
            cases good <;> simp [reqCount_append, reqCount, reqCount_onlyBody hds.1]
          · simp [reqCount_append, reqCount]
        · split <;> simp [reqCount_append, reqCount]

theorem readLoop_reqCount (cfg : Cfg) (data : Text) (k : Kind) (m : Nat) :
    ∀ (sched : List Bool) (r : Reader) (last : Text × Res),
      reqCount (Impl.readLoop cfg data k m sched r last).1.log ≤ reqCount r.log + sched.count true := by
  intro sched
  induction sched with
  | nil => intro r last; simp [Impl.readLoop]
  | cons retry sched ih =>
    intro r last
    unfold Impl.readLoop
    generalize r.body.read m = x
    obtain ⟨b', out, res⟩ := x
    simp only
    split
    · simp [reqCount_append, reqCount]
    · split
      · simp [reqCount_append, reqCount]
      · next hretry =>
        have hretry' : retry = true := by simpa using hretry
        have hrc := reset_reqCount cfg data k { r with body := b', log := r.log ++ [Event.body res] }
        simp only [reqCount_append, reqCount, Nat.add_zero] at hrc
        split
        · next r2 heq =>
          rw [heq] at hrc
          simp only at hrc ⊢
          rw [hrc, hretry', List.count_cons_self]; omega
        · next r2 o hne heq =>
          rw [heq] at hrc
          simp only at hrc
          have := ih r2 (out, Res.fault)
          rw [hretry', List.count_cons_self]; omega

/-! ### reading the property off an accepted trace -/

namespace Spec

theorem stepEvent_consumed {data : Text} {k : Kind} {s s' : St} {e : Event}
    (h : stepEvent data k s e = some s') :
    s'.consumed = s.consumed + (delivered [e]).length := by
  cases e with
  | req range =>
    simp only [stepEvent] at h
    by_cases hr : range = (if s.consumed ≠ 0 then some s.consumed else none)
    · rw [if_pos hr] at h; cases h; simp [delivered]
    · rw [if_neg hr] at h; cases h
  | body res => simp only [stepEvent] at h; cases h; simp [delivered]
  | result out res =>
    simp only [stepEvent] at h
    split at h
    · cases h; simp [delivered]
    · cases h
  | close => simp only [stepEvent] at h; cases h; simp [delivered]

theorem delivered_append (l₁ l₂ : List Event) : delivered (l₁ ++ l₂) = delivered l₁ ++ delivered l₂ := by
  induction l₁ with
  | nil => rfl
  | cons e es ih => cases e <;> simp [delivered, ih]

theorem runFrom_consumed {data : Text} {k : Kind} : ∀ (l : List Event) (s s' : St),
    runFrom data k s l = some s' → s'.consumed = s.consumed + (delivered l).length := by
  intro l
  induction l with
  | nil => intro s s' h; simp only [runFrom] at h; cases h; simp [delivered]
  | cons e es ih =>
    intro s s' h
    simp only [runFrom] at h
    split at h
    · cases h
    · next s1 h1 =>
      rw [ih s1 s' h, stepEvent_consumed h1]
      have : delivered (e :: es) = delivered [e] ++ delivered es := delivered_append [e] es
      rw [this, List.length_append]; omega

/-- an accepted trace accepts every event in the state reached by the events before it -/
theorem runFrom_split {data : Text} {k : Kind} {s s'' : St} {pre post : List Event} {e : Event}
    (h : runFrom data k s (pre ++ e :: post) = some s'') :
    ∃ s' s2, runFrom data k s pre = some s' ∧ stepEvent data k s' e = some s2 := by
  rw [runFrom_append] at h
  cases hp : runFrom data k s pre with
  | none => simp [hp] at h
  | some s' =>
    simp only [hp, Option.bind_some, runFrom] at h
    cases he : stepEvent data k s' e with
    | none => simp [he] at h
    | some s2 => exact ⟨s', s2, rfl, he⟩

theorem runFrom_prefix {data : Text} {k : Kind} : ∀ (l : List Event) (s s' : St),
    runFrom data k s l = some s' → delivered l <+: data.drop s.consumed := by
  intro l
  induction l with
  | nil => intro s s' _; exact List.nil_prefix
  | cons e es ih =>
    intro s s' h
    simp only [runFrom] at h
    split at h
    · cases h
    · next s1 h1 =>
      have ih' := ih s1 s' h
      have hc := stepEvent_consumed h1
      cases e with
      | result out res =>
        simp only [stepEvent] at h1
        split at h1
        · next hcond =>
          simp only [Bool.and_eq_true] at hcond
          obtain ⟨t, ht⟩ := List.isPrefixOf_iff_prefix.mp hcond.1.1
          simp only [delivered, List.length_append, List.length_nil, Nat.add_zero] at hc
          rw [hc, ← List.drop_drop, ← ht, List.drop_left] at ih'
          simp only [delivered]
          rw [← ht]
          exact (List.prefix_append_right_inj out).mpr ih'
        · cases h1
      | req range => simp only [delivered, List.length_nil, Nat.add_zero] at hc ⊢; rw [hc] at ih'; exact ih'
      | body r => simp only [delivered, List.length_nil, Nat.add_zero] at hc ⊢; rw [hc] at ih'; exact ih'
      | close => simp only [delivered, List.length_nil, Nat.add_zero] at hc ⊢; rw [hc] at ih'; exact ih'

/-- requests and closes -/
def Quiet (evs : List Event) : Prop := ∀ e ∈ evs, (∃ range, e = Event.req range) ∨ e = Event.close

/-- requests and closes leave the checker's position and its memory of the last body read alone -/
theorem runFrom_quiet {data : Text} {k : Kind} : ∀ (l : List Event) (s s' : St), Quiet l →
    runFrom data k s l = some s' → s'.consumed = s.consumed ∧ s'.lastBody = s.lastBody := by
  intro l
  induction l with
  | nil => intro s s' _ h; simp only [runFrom] at h; cases h; exact ⟨rfl, rfl⟩
  | cons e es ih =>
    intro s s' hq h
    simp only [runFrom] at h
    split at h
    · cases h
    · next s1 h1 =>
      have hs1 : s1.consumed = s.consumed ∧ s1.lastBody = s.lastBody := by
        rcases hq e (by simp) with ⟨range, rfl⟩ | rfl
        · simp only [stepEvent] at h1
          by_cases hr : range = (if s.consumed ≠ 0 then some s.consumed else none)
          · rw [if_pos hr] at h1; cases h1; exact ⟨rfl, rfl⟩
          · rw [if_neg hr] at h1; cases h1
        · simp only [stepEvent] at h1; cases h1; exact ⟨rfl, rfl⟩
      obtain ⟨a, b⟩ := ih s1 s' (fun e he => hq e (by simp [he])) h
      exact ⟨a.trans hs1.1, b.trans hs1.2⟩

/-- the checker's waiver is the one of the connection that answered the most recent request -/
theorem runFrom_waive {data : Text} {k : Kind} : ∀ (l : List Event) (s s' : St),
    runFrom data k s l = some s' → s'.waive = waiveAfter data k s.script s.waive l := by
  intro l
  induction l with
  | nil => intro s s' h; simp only [runFrom] at h; cases h; rfl
  | cons e es ih =>
    intro s s' h
    simp only [runFrom] at h
    split at h
    · cases h
    · next s1 h1 =>
      rw [ih s1 s' h]
      cases e with
      | req range =>
        simp only [stepEvent] at h1
        by_cases hr : range = (if s.consumed ≠ 0 then some s.consumed else none)
        · rw [if_pos hr] at h1; cases h1; rfl
        · rw [if_neg hr] at h1; cases h1
      | body res => simp only [stepEvent] at h1; cases h1; rfl
      | result out res =>
        simp only [stepEvent] at h1
        split at h1
        · cases h1; rfl
        · cases h1
      | close => simp only [stepEvent] at h1; cases h1; rfl

/-- the connections paired with the requests of a trace come from the script -/
theorem pairs_mem : ∀ (l : List Event) (cs : List Conn) (x : Option Nat × Conn),
    x ∈ pairs l cs → x.2 ∈ cs := by
  intro l
  induction l with
  | nil => intro cs x h; simp [pairs] at h
  | cons e es ih =>
    intro cs x h
    cases e with
    | req range =>
      cases cs with
      | nil => simp [pairs] at h
      | cons c cs =>
        simp only [pairs, List.mem_cons] at h
        rcases h with rfl | h
        · simp
        · exact List.mem_cons_of_mem _ (ih cs x h)
    | body res => exact ih cs x (by simpa [pairs] using h)
    | result out res => exact ih cs x (by simpa [pairs] using h)
    | close => exact ih cs x (by simpa [pairs] using h)

/-- the pairs of a prefix of the trace are pairs of the whole trace -/
theorem pairs_append_left : ∀ (l₁ l₂ : List Event) (cs : List Conn) (x : Option Nat × Conn),
    x ∈ pairs l₁ cs → x ∈ pairs (l₁ ++ l₂) cs := by
  intro l₁
  induction l₁ with
  | nil => intro l₂ cs x h; simp [pairs] at h
  | cons e es ih =>
    intro l₂ cs x h
    cases e with
    | req range =>
      cases cs with
      | nil => simp [pairs] at h
      | cons c cs =>
        simp only [pairs, List.cons_append, List.mem_cons] at h ⊢
        rcases h with rfl | h
        · exact Or.inl rfl
        · exact Or.inr (ih l₂ cs x h)
    | body res => simpa [pairs] using ih l₂ cs x (by simpa [pairs] using h)
    | result out res => simpa [pairs] using ih l₂ cs x (by simpa [pairs] using h)
    | close => simpa [pairs] using ih l₂ cs x (by simpa [pairs] using h)

/-- when no request of the trace was answered by a connection with an invisible clean early end, nothing
is waived anywhere -/
theorem waiveAfter_of_pairs {data : Text} {k : Kind} : ∀ (l : List Event) (cs : List Conn),
    (∀ x ∈ pairs l cs, x.2.invisibleEnd data k x.1 = false) → waiveAfter data k cs false l = false := by
  intro l
  induction l with
  | nil => intro cs _; rfl
  | cons e es ih =>
    intro cs h
    cases e with
    | req range =>
      cases cs with
      | nil =>
        -- the script is exhausted: every further request fails to connect
        show waiveAfter data k [] false es = false
        exact ih [] (fun x hx => by
          have := pairs_mem es [] x hx
          simp at this)
      | cons c cs =>
        have hc : c.invisibleEnd data k range = false := h (range, c) (by simp [pairs])
        show waiveAfter data k cs (c.invisibleEnd data k range) es = false
        rw [hc]
        exact ih cs (fun x hx => h x (by simp [pairs, hx]))
    | body res => exact ih cs (fun x hx => h x (by simpa [pairs] using hx))
    | result out res => exact ih cs (fun x hx => h x (by simpa [pairs] using hx))
    | close => exact ih cs (fun x hx => h x (by simpa [pairs] using hx))

end Spec

end Apko.Retry
