import Apko.Model.Conflict
import Apko.Proofs.Lemmas.FormatsSort
import Apko.Proofs.Lemmas.ConflictLost
/-! C07 / F07a: the witness evaluated in the kernel (`List.mergeSort` and `sortChildren` are compiled by
well-founded recursion; the equation lemmas of `Lemmas/FormatsSort.lean` evaluate them level by level). -/
namespace Apko.C07
open Apko Apko.Conflict

/-- one package: a top-level file, an empty top-level directory, `usr/` with one file -/
def witnessA : List Pkg :=
  [{ name := ['a'], origin := "oa".toList, entries :=
      [{ name := "top".toList, kind := .reg, sum := ['1'] },
       { name := "empty/".toList, kind := .dir, mode := 0o755 },
       { name := "usr/".toList, kind := .dir, mode := 0o755 },
       { name := "usr/x".toList, kind := .reg, sum := ['1'] }] }]

def witnessAFiles : List Entry := (witnessA.getD 0 default).entries

def witnessARecs : List Formats.FileRec := witnessAFiles.map toRec

/-- what `sortTarHeaders` returns for the four headers: two of them -/
theorem witnessA_sorted :
    Formats.sortHeaders witnessARecs = some [toRec { name := "usr/".toList, kind := .dir, mode := 0o755 },
      toRec { name := "usr/x".toList, kind := .reg, sum := ['1'] }] := by
  unfold Formats.sortHeaders
  simp only []
  have h1 : (Formats.dedupTexts (witnessARecs.map fun h => Formats.pathDir (Formats.pathClean h.name))).filter
      (fun d => Formats.pathDir d = ['.']) = [".".toList, "usr".toList] := by decide
  rw [h1, Formats.sortTexts_sorted _ (by decide)]
  apply Eq.trans
  · apply Formats.sortChildren_eval
    · decide
    · apply Formats.go_eval_cons                                  -- usr
      · apply Formats.sortChildren_eval
        · decide
        · exact Formats.sortChildren.go.eq_1 _ _
      · exact Formats.sortChildren.go.eq_1 _ _
  · decide

/-- **F07a**, kernel-checked end to end: the package installs (tarfs; no flag), all four headers survive
the pruning, the tree holds the regular file `top` and the directory `empty`, and the record
`AddInstalledPackage` writes lists neither -/
theorem F07a_witness :
    ∃ st all, installAll { backend := .lazy } [] witnessA = .ok (st, all) ∧ st.flags = [] ∧
      recordAll st.inst all = [witnessAFiles] ∧
      lookupT st.tree [['t', 'o', 'p']] = some (.file ['1'] 0o644 (some 0) false) ∧
      lookupT st.tree [['e', 'm', 'p', 't', 'y']] = some (.dir 0o755) ∧
      droppedNames witnessAFiles = ["top".toList, "empty/".toList] := by
  have hrun : (match installAll { backend := .lazy } [] witnessA with
      | .ok (st, all) => decide (st.flags = [] ∧ recordAll st.inst all = [witnessAFiles] ∧
          lookupT st.tree [['t', 'o', 'p']] = some (.file ['1'] 0o644 (some 0) false) ∧
          lookupT st.tree [['e', 'm', 'p', 't', 'y']] = some (.dir 0o755))
      | .error _ => false) = true := by decide
  cases hr : installAll { backend := .lazy } [] witnessA with
  | error x => rw [hr] at hrun; cases hrun
  | ok v =>
    obtain ⟨st, all⟩ := v
    rw [hr] at hrun
    simp only [decide_eq_true_eq] at hrun
    refine ⟨st, all, rfl, hrun.1, hrun.2.1, hrun.2.2.1, hrun.2.2.2, ?_⟩
    unfold droppedNames
    have := witnessA_sorted
    unfold witnessARecs at this
    rw [this]
    decide

/-- the same loss from the general theorem: `top` is a top-level name without children -/
example (out : List Formats.FileRec) (h : Formats.sortHeaders witnessARecs = some out) :
    toRec { name := "top".toList, kind := .reg, sum := ['1'] } ∉ out :=
  toplevel_leaf_lost witnessARecs out h _ (by decide) (by decide) (by decide)

end Apko.C07
