/-
C09, the fixpoint with provides, top level: `constrain` on the locked world, the first loop (now with
`disqualifyConflicts` acting on the members' provides), one world entry, all world entries, `resolve`.
-/
import Apko.Proofs.Lemmas.RelockProvLoop

namespace Apko.LockP
open Apko Apko.Resolver Apko.Lock
open Apko.C02 (Carries)

/-- `e` is the lock entry of a member, and its pin is the pin of every pinned member (the driver's F09a predicate
`pinLost` negated: with provides a pinned member has to pass the candidate filter for a virtual name through
`allowPin`, the pin of whichever entry is being resolved) -/
def EntryP (S : List Pkg) (e : Text) : Prop :=
  (∀ x, e ≠ '!' :: x) ∧ (∃ p ∈ S, ∃ pin, parseConstraint e = ⟨p.name, p.version, .eq, pin⟩) ∧
  PinsIn S (parseConstraint e).pin

structure StrongLock (S : List Pkg) (L : List Text) : Prop where
  sound : ∀ e ∈ L, EntryP S e
  complete : ∀ p ∈ S, ∃ e ∈ L, ∃ pin, parseConstraint e = ⟨p.name, p.version, .eq, pin⟩

theorem member_candidate {c : Cfg} {S : List Pkg} (ctx : PCtx c S) (sd : PSide c S) {dq : List Nat} (hf : Free S dq)
    {p : Pkg} (hp : p ∈ S) {pin : Text} (hpin : p.pin = [] ∨ p.pin = pin) :
    p ∈ filterPackages (c.nm p.name) dq p.version .eq [] pin none := by
  obtain ⟨v, hv⟩ := Option.isSome_iff_exists.mp (sd.pvOk p hp)
  refine mem_filter_intro (own_in_nm ctx hp) (hf p hp) ?_ (Or.inr ⟨v, v, hv, hv, satisfies_eq_self v⟩)
  rcases hpin with h | h
  · exact Or.inl h
  · exact Or.inr (Or.inr (Or.inl h))

theorem candidates_entry {c : Cfg} {S : List Pkg} (ctx : PCtx c S) (sd : PSide c S) {dq : List Nat} (hf : Free S dq)
    {e : Text} (he : EntryP S e) : ∃ l, candidates c e dq = some l := by
  obtain ⟨_, ⟨p, hp, pin, hparse⟩, hpins⟩ := he
  have hpin : p.pin = [] ∨ p.pin = pin := by have := hpins p hp; rw [hparse] at this; exact this
  unfold candidates
  simp only [hparse, C02.hasName_of_mem (ctx.sIn p hp) (Or.inl rfl), Bool.not_true, Bool.false_eq_true, ↓reduceIte]
  have := member_candidate ctx sd hf hp hpin
  split
  · next hem => rw [List.isEmpty_iff] at hem; rw [hem] at this; cases this
  · exact ⟨_, rfl⟩

theorem resolvePackage_entry {c : Cfg} {S : List Pkg} (ctx : PCtx c S) (sd : PSide c S) {dq : List Nat}
    (hl : Locked c S dq) (hf : Free S dq) {e : Text} (he : EntryP S e) :
    ∃ p ∈ S, resolvePackage c e dq = some p ∧ p.name = (parseConstraint e).name := by
  obtain ⟨l, hcand⟩ := candidates_entry ctx sd hf he
  obtain ⟨_, ⟨p, hp, pin, hparse⟩, _⟩ := he
  have hlne : l ≠ [] := by
    unfold candidates at hcand
    simp only at hcand
    split at hcand
    · cases hcand
    · split at hcand
      · cases hcand
      · next hne => simp only [Option.some.injEq] at hcand; rw [← hcand]; simpa using hne
  obtain ⟨b, hb⟩ := minFunc_ne_nil (cmp := comparePackages c.bothBad (parseConstraint e).name (parseConstraint e).pin [] []) hlne
  have hres : resolvePackage c e dq = some b := by
    unfold resolvePackage
    simp only [hcand]
    exact hb
  have hmem := Apko.Lock.resolvePackage_mem hres
  rw [hparse] at hmem
  simp only at hmem
  have hbS : b ∈ S := cand_member_name sd hl hp hmem
  have hbn : b.name = p.name := (nm_member sd hp (C02.filter_excludes_dq hmem).2).2
  exact ⟨b, hbS, hres, by rw [hparse]; exact hbn⟩

/-! ### the first loop -/

theorem worldLoop_succ {c : Cfg} {S : List Pkg} (ctx : PCtx c S) (sd : PSide c S) :
    ∀ (fuel : Nat) (cs : List Text) (dm : List (Text × Pkg)) (dq : List Nat),
      (∀ e ∈ cs, EntryP S e) → Locked c S dq → Free S dq → MemberMap S dm →
      ResOK (fun (r : List (Text × Pkg) × List Nat) => Locked c S r.2 ∧ Free S r.2 ∧ MemberMap S r.1 ∧
        (∀ n, (lookupT dm n).isSome = true → (lookupT r.1 n).isSome = true) ∧
        ∀ e ∈ cs, (lookupT r.1 (parseConstraint e).name).isSome = true) (worldLoop c fuel cs dm dq) := by
  intro fuel
  induction fuel with
  | zero => intro cs dm dq _ _ _ _; simp [worldLoop, ResOK]
  | succ fuel ih =>
    intro cs dm dq hcs hl hf hmm
    rw [worldLoop]
    split
    · next hem =>
      refine ⟨hl, hf, hmm, fun n h => h, fun e he => ?_⟩
      rw [List.isEmpty_iff] at hem
      rw [hem] at he
      cases he
    · next hne =>
      obtain ⟨next, hnext⟩ := nextPackage_some c dq cs (fun e he => candidates_entry ctx sd hf (hcs e he))
      have hmem : next ∈ cs := C02.nextPackage_mem hnext (by intro he; apply hne; simp [he])
      obtain ⟨p, hp, hres, hpn⟩ := resolvePackage_entry ctx sd hl hf (hcs next hmem)
      simp only [hnext, hres]
      obtain ⟨dq1, hdc, hf1, hsub⟩ := disqualifyConflicts_ok ctx sd hp hf
      rw [hdc]
      simp only
      have hmm2 : MemberMap S (setT dm p.name p) := by
        intro n q h
        rw [lkp_setT] at h
        split at h
        · next e => simp only [Option.some.injEq] at h; subst h; exact ⟨hp, e.symm⟩
        · exact hmm n q h
      have := ih (cs.filter (· != next)) (setT dm p.name p) dq1
        (fun e he => hcs e (List.mem_filter.mp he).1) (hl.mono hsub) hf1 hmm2
      revert this
      cases worldLoop c fuel (cs.filter (· != next)) (setT dm p.name p) dq1 with
      | err => exact fun h => h
      | outOfFuel => exact fun h => h
      | ok r =>
        simp only [ResOK]
        rintro ⟨h0, h1, h2, h3, h4⟩
        refine ⟨h0, h1, h2, fun n hn => h3 n (lkp_isSome_setT _ _ _ _ hn), fun e he => ?_⟩
        by_cases hen : e = next
        · subst hen
          apply h3
          rw [lkp_setT, ← hpn]
          simp
        · exact h4 e (List.mem_filter.mpr ⟨he, by simpa using hen⟩)

/-! ### one world entry, all world entries -/

theorem ResOK_mono {α} {P Q : α → Prop} {r : Res α} (h : ResOK P r) (hpq : ∀ a, P a → Q a) : ResOK Q r := by
  cases r with
  | ok a => exact hpq a h
  | err => exact h
  | outOfFuel => trivial

theorem installIfStep_id {c : Cfg} (h : ∀ q ∈ c.u.all, q.installIf = []) (deps : List Pkg) (dep : Pkg) :
    installIfStep c deps dep = deps := by
  unfold installIfStep
  simp [installIfMap_nil _ _ h]

theorem installIfFixedLoop_id {c : Cfg} (h : ∀ q ∈ c.u.all, q.installIf = []) :
    ∀ (fuel i : Nat) (deps : List Pkg), installIfFixedLoop c fuel i deps = deps := by
  intro fuel
  induction fuel with
  | zero => intro i deps; rfl
  | succ fuel ih =>
    intro i deps
    rw [installIfFixedLoop]
    split
    · rfl
    · rw [installIfStep_id h, ih]

theorem installIfMapLoop_id {c : Cfg} (h : ∀ q ∈ c.u.all, q.installIf = []) (deps : List Pkg) :
    installIfMapLoop c deps = deps := by
  unfold installIfMapLoop
  simp only
  generalize c.addedOrder (deps.map (·.name)) = names
  suffices ∀ acc : List Pkg, names.foldl (fun acc n =>
      match deps.find? (·.name = n) with
      | some d => installIfStep c acc d
      | none => acc) acc = acc from this deps
  induction names with
  | nil => intro acc; rfl
  | cons n ns ih =>
    intro acc
    simp only [List.foldl_cons]
    split
    · rw [installIfStep_id h, ih]
    · rw [ih]

theorem getPWD_succ {c : Cfg} {S : List Pkg} (ctx : PCtx c S) (sd : PSide c S) (fuel : Nat) (w : Text)
    (existing : List (Text × Pkg)) (st : St) (hw : EntryP S w) (inv : PInv c S ⟨st, existing, []⟩) :
    ResOK (fun r => r.pkg ∈ S ∧ r.pkg.name = (parseConstraint w).name ∧ (∀ d ∈ r.deps, d ∈ S) ∧
        PInv c S ⟨r.st, existing, []⟩)
      (getPackageWithDependencies c fuel w existing st) := by
  obtain ⟨p, hp, hres, hpn⟩ := resolvePackage_entry ctx sd inv.locked inv.free hw
  unfold getPackageWithDependencies
  simp only [hres]
  generalize hor : (existing.foldl (fun o e =>
    if !e.2.origin.isEmpty && !o.contains e.2.origin then o ++ [e.2.origin] else o) []) = origins
  have hg := getDeps_succ ctx sd (parseConstraint w).pin hw.2.2 fuel p [] ⟨st, existing, origins⟩ hp
    (inv.congr rfl rfl rfl)
  split
  · next heq => rw [heq] at hg; exact hg
  · trivial
  · next out heq =>
    rw [heq] at hg
    refine ⟨hp, hpn, ?_, ?_⟩
    · intro d hd
      simp only at hd
      split at hd
      · rw [installIfFixedLoop_id ctx.noiif] at hd
        exact hg.deps d (dedupByName_mem _ _ hd)
      · rw [installIfMapLoop_id ctx.noiif] at hd
        exact hg.deps d (dedupByName_mem _ _ hd)
    · have hdq : ∀ (b1 b2 : Prop) [Decidable b1] [Decidable b2] (s : St),
          (if b1 then (if b2 then s.flag "F02a" else s).flag "F02b" else if b2 then s.flag "F02a" else s).dq = s.dq := by
        intro b1 b2 _ _ s; split <;> split <;> simp only [flag_dq]
      have hsl : ∀ (b1 b2 : Prop) [Decidable b1] [Decidable b2] (s : St),
          (if b1 then (if b2 then s.flag "F02a" else s).flag "F02b" else if b2 then s.flag "F02a" else s).selected = s.selected := by
        intro b1 b2 _ _ s; split <;> split <;> simp only [flag_selected1]
      refine ⟨?_, ?_, ?_, inv.ex, inv.exk⟩
      · simp only [hdq]; exact hg.inv.locked
      · simp only [hdq]; exact hg.inv.free
      · simp only [hsl]; exact hg.inv.sel

theorem depMap_fold_exk {S : List Pkg} (l : List Pkg) (hl : ∀ x ∈ l, x ∈ S) :
    ∀ (m : List (Text × Pkg)), MemberMap S m →
      MemberMap S (l.foldl (fun m p => if (lookupT m p.name).isSome then m else m ++ [(p.name, p)]) m) := by
  induction l with
  | nil => intro m h; exact h
  | cons x xs ih =>
    intro m h
    simp only [List.foldl_cons]
    apply ih (fun y hy => hl y (List.mem_cons_of_mem _ hy))
    split
    · exact h
    · intro n q hq
      rw [m_lookupT_append_single] at hq
      cases hm : lookupT m n with
      | some v => rw [hm] at hq; simp only [Option.some.injEq] at hq; subst hq; exact h n v hm
      | none =>
        rw [hm] at hq
        simp only at hq
        split at hq
        · next e => simp only [Option.some.injEq] at hq; subst hq; exact ⟨hl _ List.mem_cons_self, e⟩
        · cases hq

theorem go_succ {c : Cfg} {S : List Pkg} (ctx : PCtx c S) (sd : PSide c S) :
    ∀ (ws : List Text) (depMap : List (Text × Pkg)) (st : St) (inst : List Pkg) (confs : List Text),
      (∀ w ∈ ws, EntryP S w) → PInv c S ⟨st, depMap, []⟩ → (∀ x ∈ inst, x ∈ S) →
      ResOK (fun r => (∀ x ∈ r.install, x ∈ S) ∧ (∀ y ∈ inst, y ∈ r.install) ∧
        ∀ w ∈ ws, ∃ y ∈ r.install, y.name = (parseConstraint w).name) (resolve.go c ws depMap st inst confs) := by
  intro ws
  induction ws with
  | nil =>
    intro depMap st inst confs _ _ hin
    simp only [resolve.go, ResOK]
    exact ⟨hin, fun y hy => hy, fun w hw => by cases hw⟩
  | cons w ws ih =>
    intro depMap st inst confs hws inv hin
    simp only [resolve.go]
    have hg := getPWD_succ ctx sd (fuelFor c.u) w depMap st (hws w List.mem_cons_self) inv
    split
    · next heq => rw [heq] at hg; exact hg
    · trivial
    · next r heq =>
      rw [heq] at hg
      obtain ⟨hrp, hrn, hrd, hinv⟩ := hg
      have hall : ∀ x ∈ r.deps ++ [r.pkg], x ∈ S := by
        intro x hx
        rcases List.mem_append.mp hx with h | h
        · exact hrd x h
        · simp only [List.mem_singleton] at h; rw [h]; exact hrp
      have hinst2 : ∀ x ∈ addAbsent (r.deps ++ [r.pkg]) inst, x ∈ S := by
        intro x hx
        rcases addAbsent_mem _ _ x hx with h1 | h1
        · exact hin x h1
        · exact hall x h1
      have hinv2 : PInv c S ⟨if dedupDropsOther inst (r.deps ++ [r.pkg]) = true then r.st.flag "F02a" else r.st,
          (r.deps ++ [r.pkg]).foldl (fun m p => if (lookupT m p.name).isSome then m else m ++ [(p.name, p)]) depMap, []⟩ := by
        refine ⟨?_, ?_, ?_, ?_, ?_⟩
        · have := hinv.locked; simp only [ite_flag_dq]; exact this
        · have := hinv.free; simp only [ite_flag_dq]; exact this
        · have := hinv.sel
          simp only at this ⊢
          split
          · rw [flag_selected1]; exact this
          · exact this
        · exact depMap_fold_ex _ _ hinv.ex
        · exact depMap_fold_exk _ hall _ hinv.exk
      have := ih _ _ _ (confs ++ r.conflicts) (fun x hx => hws x (List.mem_cons_of_mem _ hx)) hinv2 hinst2
      refine ResOK_mono this (fun rr h => ?_)
      obtain ⟨a1, a2, a3⟩ := h
      refine ⟨a1, fun y hy => a2 y (addAbsent_keeps _ _ y hy), fun w2 hw2 => ?_⟩
      rcases List.mem_cons.mp hw2 with rfl | hw3
      · obtain ⟨y, hy, hyn⟩ := addAbsent_has (r.deps ++ [r.pkg]) inst r.pkg (List.mem_append_right _ (List.mem_singleton.mpr rfl))
        exact ⟨y, a2 y hy, hyn.trans hrn⟩
      · exact a3 w2 hw3

/-! ### the whole re-resolution -/

theorem entry_conOK {S : List Pkg} (pvOk : ∀ p ∈ S, (pv p.version).isSome = true) {e : Text} (he : EntryP S e) :
    ConOK S e := by
  obtain ⟨hnb, ⟨p, hp, pin, hparse⟩, _⟩ := he
  obtain ⟨v, hv⟩ := Option.isSome_iff_exists.mp (pvOk p hp)
  right
  refine ⟨hnb, Or.inr ?_⟩
  simp only [pc, hparse]
  exact ⟨v, hv, p, hp, rfl, v, hv, satisfies_eq_self v⟩

theorem locked_of_constrain {c : Cfg} {S : List Pkg} (ctx : PCtx c S) {L : List Text}
    (huniq : ∀ x ∈ c.u.all, ∀ p ∈ S, x.name = p.name → versionMatches x.version p.version = true → x = p)
    (hL : StrongLock S L) {dq1 : List Nat} (hcon : constrain c L [] = some dq1) : Locked c S dq1 := by
  intro x hx ⟨p, hp, hpn⟩ hxs
  obtain ⟨e, he, pin, hparse⟩ := hL.complete p hp
  have hnm : x ∈ c.nm p.name := by
    unfold Cfg.nm nameMap
    exact List.mem_append_left _ (List.mem_filter.mpr ⟨hx, by simp [hpn]⟩)
  have hv : versionMatches x.version p.version = false := by
    cases hvm : versionMatches x.version p.version with
    | false => rfl
    | true => exact absurd (huniq x hx p hp hpn.symm hvm ▸ hp) hxs
  exact constrain_locks c e p.name p.version pin (hL.sound e he).1 hparse
    (C02.hasName_of_mem (ctx.sIn p hp) (Or.inl rfl)) x hnm hpn.symm hv L [] dq1 he hcon

/-- with provides: the re-resolution of a lock of `S` succeeds and returns exactly `S` -/
theorem relock_exact {c : Cfg} {S : List Pkg} {L : List Text} (ctx : PCtx c S) (sd : PSide c S)
    (huniq : ∀ x ∈ c.u.all, ∀ p ∈ S, x.name = p.name → versionMatches x.version p.version = true → x = p)
    (hL : StrongLock S L) : ∃ r, resolve c L [] = .ok r ∧ ∀ p, p ∈ r.install ↔ p ∈ S := by
  obtain ⟨dq1, hcon, hfree⟩ := constrain_free ctx sd L []
    (fun e he => entry_conOK sd.pvOk (hL.sound e he)) (by intro p _; rfl)
  have hlocked := locked_of_constrain ctx huniq hL hcon
  have hwl := worldLoop_succ ctx sd (L.length + 1) L [] dq1 hL.sound hlocked hfree
    (by intro n p h; simp [lookupT] at h)
  rcases C02.resolve_ok_or_err_total c L [] with ⟨r, h⟩ | h
  · refine ⟨r, h, ?_⟩
    unfold resolve at h
    simp only [hcon] at h
    split at h
    · cases h
    · cases h
    · next depMap dq2 heq =>
      rw [heq] at hwl
      obtain ⟨hl2, hf2, hmm, _, hcov⟩ := hwl
      simp only at hl2 hf2 hmm hcov
      have hex : ∀ p ∈ S, lookupT depMap p.name = some p := by
        intro p hp
        obtain ⟨e, he, pin, hparse⟩ := hL.complete p hp
        have := hcov e he
        rw [hparse] at this
        simp only at this
        cases hq : lookupT depMap p.name with
        | none => rw [hq] at this; cases this
        | some q =>
          obtain ⟨hqs, hqn⟩ := hmm _ _ hq
          rw [sd.names q hqs p hp hqn]
      have hgo := go_succ ctx sd L depMap ⟨dq2, [], []⟩ [] [] hL.sound
        ⟨hl2, hf2, by intro n p h; simp [lookupT] at h, hex, hmm⟩ (by intro x hx; cases hx)
      rw [h] at hgo
      obtain ⟨a1, _, a3⟩ := hgo
      intro p
      constructor
      · exact a1 p
      · intro hp
        obtain ⟨e, he, pin, hparse⟩ := hL.complete p hp
        obtain ⟨y, hy, hyn⟩ := a3 e he
        rw [hparse] at hyn
        have : y = p := sd.names y (a1 y hy) p hp hyn
        exact this ▸ hy
  · exfalso
    unfold resolve at h
    simp only [hcon] at h
    split at h
    · next heq => rw [heq] at hwl; exact hwl
    · cases h
    · next depMap dq2 heq =>
      rw [heq] at hwl
      obtain ⟨hl2, hf2, hmm, _, hcov⟩ := hwl
      simp only at hl2 hf2 hmm hcov
      have hex : ∀ p ∈ S, lookupT depMap p.name = some p := by
        intro p hp
        obtain ⟨e, he, pin, hparse⟩ := hL.complete p hp
        have := hcov e he
        rw [hparse] at this
        simp only at this
        cases hq : lookupT depMap p.name with
        | none => rw [hq] at this; cases this
        | some q =>
          obtain ⟨hqs, hqn⟩ := hmm _ _ hq
          rw [sd.names q hqs p hp hqn]
      have hgo := go_succ ctx sd L depMap ⟨dq2, [], []⟩ [] [] hL.sound
        ⟨hl2, hf2, by intro n p h; simp [lookupT] at h, hex, hmm⟩ (by intro x hx; cases hx)
      rw [h] at hgo
      exact hgo

end Apko.LockP
