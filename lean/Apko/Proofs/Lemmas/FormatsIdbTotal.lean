/-
C16 helper lemmas: `AddInstalledPackage` succeeds (no error, no endless recursion) on well-formed
packages whose file checksums are absent, `Q1…`, or valid hex.
-/
import Apko.Proofs.Lemmas.FormatsIdb
import Apko.Proofs.Lemmas.FormatsSortTerm

namespace Apko.Formats
open Apko

/-- the checksum PAX record is one `AddInstalledPackage` accepts -/
def csumOK (f : FileRec) : Bool :=
  f.isDir || f.csum.isEmpty || (['Q', '1'] : Text).isPrefixOf f.csum || (hexDecode f.csum).isSome

theorem fileLines_total (c : Codec) (f : FileRec) (h : csumOK f = true) : ∃ ls, fileLines c f = .ok ls := by
  unfold fileLines
  cases hd : f.isDir with
  | true => simp
  | false =>
    simp only [Bool.false_eq_true, if_false]
    split
    · exact ⟨_, rfl⟩
    · next hne =>
      split
      · exact ⟨_, rfl⟩
      · next hq =>
        cases hh : hexDecode f.csum with
        | some b => exact ⟨_, rfl⟩
        | none =>
          exfalso
          unfold csumOK at h
          have h1 : f.csum.isEmpty = false := by
            cases hc : f.csum with
            | nil => exact absurd hc hne
            | cons _ _ => rfl
          have h2 : (['Q', '1'] : Text).isPrefixOf f.csum = false := by
            cases hp : (['Q', '1'] : Text).isPrefixOf f.csum with
            | false => rfl
            | true => exact absurd hp hq
          simp [hd, h1, h2, hh] at h

theorem filesLines_total (c : Codec) : ∀ (fs : List FileRec), (∀ f ∈ fs, csumOK f = true) →
    ∃ fl, filesLines c fs = .ok fl := by
  intro fs
  induction fs with
  | nil => intro _; exact ⟨[], rfl⟩
  | cons f fs ih =>
    intro h
    obtain ⟨a, ha⟩ := fileLines_total c f (h f (by simp))
    obtain ⟨b, hb⟩ := ih (fun x hx => h x (by simp [hx]))
    exact ⟨a ++ b, by simp [filesLines, ha, hb, Res.bind]⟩

theorem renderInstalled_total (c : Codec) (rows : List Row) (ip : IPkg)
    (h1 : ∀ f ∈ ip.files, cleanRel f.name = true) (h2 : ∀ f ∈ ip.files, csumOK f = true) :
    ∃ t, renderInstalled c rows ip = .ok t := by
  obtain ⟨sorted, hs⟩ := sortHeaders_total ip.files h1
  obtain ⟨fl, hfl⟩ := filesLines_total c sorted (fun f hf => h2 f ((sortHeaders_followsDir ip.files sorted hs).2 f hf))
  refine ⟨unlines (recLines c rows ip.pkg ++ fl ++ [[]]), ?_⟩
  simp [renderInstalled, hs, hfl, Res.bind]

theorem renderInstalledAll_total (c : Codec) (rows : List Row) : ∀ (ips : List IPkg),
    (∀ ip ∈ ips, ∀ f ∈ ip.files, cleanRel f.name = true ∧ csumOK f = true) →
    ∃ t, renderInstalledAll c rows ips = .ok t := by
  intro ips
  induction ips with
  | nil => intro _; exact ⟨[], rfl⟩
  | cons ip ips ih =>
    intro h
    obtain ⟨a, ha⟩ := renderInstalled_total c rows ip (fun f hf => (h ip (by simp) f hf).1)
      (fun f hf => (h ip (by simp) f hf).2)
    obtain ⟨b, hb⟩ := ih (fun x hx => h x (by simp [hx]))
    exact ⟨a ++ b, by simp [renderInstalledAll, ha, hb, Res.bind]⟩

theorem WFIPkg_files (ip : IPkg) (h : WFIPkg ip = true) : ∀ f ∈ ip.files, cleanRel f.name = true := by
  unfold WFIPkg at h
  simp only [Bool.and_eq_true, List.all_eq_true] at h
  intro f hf
  exact (WFFile_spec f (h.2 f hf)).clean

end Apko.Formats
