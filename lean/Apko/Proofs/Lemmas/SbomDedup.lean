/-
C11 — the de-dup pass of `Generate` on a list `header ++ one element per installed apk`, under exactly the
complement of F11a (`idCollision o = false`): the header survives unchanged and the apk elements that survive
are those of the *distinct* entries of the installed database, in order (`List.eraseDups`).
-/
import Apko.Proofs.Lemmas.SbomVerdict

namespace Apko.Sbom
open Apko

theorem dedupLoop_congr (ps : List Pkg) {s1 s2 : List Id} (h : ∀ i, i ∈ s1 ↔ i ∈ s2) :
    dedupLoop ps s1 = dedupLoop ps s2 := by
  induction ps generalizing s1 s2 with
  | nil => rfl
  | cons p ps ih =>
    have hc : s1.contains p.id = s2.contains p.id := by
      cases h2 : s2.contains p.id
      · have : p.id ∉ s2 := by simpa using h2
        simpa using fun hm => this ((h _).mp hm)
      · have : p.id ∈ s2 := by simpa using h2
        simpa using (h _).mpr this
    simp only [dedupLoop, hc]
    split
    · exact ih h
    · congr 1
      apply ih
      intro i
      simp only [List.mem_cons, h i]

theorem dedupLoop_cons_seen (ps : List Pkg) (x : Id) (seen : List Id) :
    dedupLoop ps (x :: seen) = dedupLoop (ps.filter (fun p => p.id ≠ x)) seen := by
  induction ps generalizing seen with
  | nil => rfl
  | cons p ps ih =>
    by_cases e : p.id = x
    · have hf : (p :: ps).filter (fun p => p.id ≠ x) = ps.filter (fun p => p.id ≠ x) := by
        simp [e]
      have hc : (x :: seen).contains p.id = true := by simp [e]
      rw [hf]
      simp only [dedupLoop, hc, if_true]
      exact ih seen
    · have hf : (p :: ps).filter (fun p => p.id ≠ x) = p :: ps.filter (fun p => p.id ≠ x) := by
        simp [e]
      have hc : (x :: seen).contains p.id = seen.contains p.id := by
        simp [e]
      rw [hf]
      simp only [dedupLoop, hc]
      split
      · exact ih seen
      · congr 1
        rw [← ih (p.id :: seen)]
        apply dedupLoop_congr
        intro i
        simp only [List.mem_cons]
        constructor
        · rintro (h | h | h)
          · exact Or.inr (Or.inl h)
          · exact Or.inl h
          · exact Or.inr (Or.inr h)
        · rintro (h | h | h)
          · exact Or.inr (Or.inl h)
          · exact Or.inl h
          · exact Or.inr (Or.inr h)

/-- a prefix with pairwise distinct, unseen identifiers passes through the de-dup loop unchanged -/
theorem dedupLoop_append_nodup (l1 l2 : List Pkg) (seen : List Id) (hn : (l1.map (·.id)).Nodup)
    (hd : ∀ p ∈ l1, p.id ∉ seen) :
    dedupLoop (l1 ++ l2) seen = l1 ++ dedupLoop l2 ((l1.map (·.id)).reverse ++ seen) := by
  induction l1 generalizing seen with
  | nil => rfl
  | cons p ps ih =>
    simp only [List.map_cons, List.nodup_cons] at hn
    have hc : seen.contains p.id = false := by simpa using hd p (by simp)
    simp only [List.cons_append, dedupLoop, hc, Bool.false_eq_true, if_false]
    congr 1
    rw [ih (p.id :: seen) hn.2]
    · simp [List.reverse_cons, List.append_assoc]
    · intro q hq
      simp only [List.mem_cons, not_or]
      refine ⟨?_, hd q (by simp [hq])⟩
      intro e
      exact hn.1 (e ▸ List.mem_map_of_mem (f := fun x : Pkg => x.id) hq)

/-- on the image of a list under a map that is injective on identifiers, the de-dup loop is `eraseDups` -/
theorem dedupLoop_map_inj (f : Apk → Pkg) :
    ∀ (l : List Apk) (seen : List Id), (∀ a ∈ l, ∀ b ∈ l, (f a).id = (f b).id → a = b) →
      (∀ a ∈ l, (f a).id ∉ seen) → dedupLoop (l.map f) seen = l.eraseDups.map f
  | [], _, _, _ => rfl
  | a :: as, seen, hinj, hs => by
    have hc : seen.contains (f a).id = false := by simpa using hs a (by simp)
    have hfil : (as.map f).filter (fun p => p.id ≠ (f a).id) = (as.filter (fun b => !b == a)).map f := by
      rw [List.filter_map]
      congr 1
      apply List.filter_congr
      intro b hb
      by_cases e : b = a
      · subst e; simp
      · have : (f b).id ≠ (f a).id := fun h => e (hinj b (by simp [hb]) a (by simp) h)
        simp [e, this]
    have hlen := List.length_filter_le (fun b => !b == a) as
    rw [List.map_cons, List.eraseDups_cons, List.map_cons]
    simp only [dedupLoop, hc, Bool.false_eq_true, if_false]
    congr 1
    rw [dedupLoop_cons_seen, hfil]
    exact dedupLoop_map_inj f _ seen
      (fun x hx y hy => hinj x (by simp [(List.mem_filter.mp hx).1]) y (by simp [(List.mem_filter.mp hy).1]))
      (fun x hx => hs x (by simp [(List.mem_filter.mp hx).1]))
termination_by l => l.length
decreasing_by
  simp only [List.length_cons]; omega

/-- the element list after the de-dup pass, under exactly ¬F11a: header, then one element per distinct entry
of the installed database -/
theorem dedup_header_apks {o : Opts} (hn : (header o).ids.Nodup) (hcol : idCollision o = false) :
    dedup ((header o).packages ++ o.apks.map (apkPackage (nonceOf o.imageDigest))) =
      (header o).packages ++ o.apks.eraseDups.map (apkPackage (nonceOf o.imageDigest)) := by
  obtain ⟨hhdr, hinj⟩ := idCollision_false.mp hcol
  unfold dedup
  rw [dedupLoop_append_nodup _ _ _ hn (by simp)]
  congr 1
  apply dedupLoop_map_inj
  · exact hinj
  · intro a ha
    simp only [List.append_nil, List.mem_reverse]
    exact hhdr a ha

end Apko.Sbom
