/-
C03 — the version grammar, spelled as a concatenation, and the soundness half of
`recognise s = some r ↔ Grammar s r`.

`Grammar s r` says: `s` is

    d₁ ++ ("." ++ dᵢ)* ++ letter? ++ (preTok ++ digits*)? ++ (postTok ++ digits*)? ++ ("-r" ++ digits⁺)?

with every `dᵢ` a non-empty digit string, `letter` one byte in `a..z`, `preTok` / `postTok` a
non-empty key of `Generated.preSwitch` / `Generated.postSwitch`, and `r` records the pieces.
This is `Generated.versionRegex` (tied in `C03.tie_versionRegex`) read group by group.

This file: definitions, the staged form of `recognise` (`recognise_eq`), the span / token
lemmas, and `recognise_sound`.  Completeness is in `VersionGrammarComplete.lean`.
-/
import Apko.Model.Version

namespace Apko.VersionGrammar
open Apko

/-! ## the grammar -/

/-- `[0-9]*` -/
def IsDigits (d : Text) : Prop := d.all isDigit = true
/-- `[0-9]+` -/
def IsNum (d : Text) : Prop := d ≠ [] ∧ IsDigits d

instance (d : Text) : Decidable (IsDigits d) := by unfold IsDigits; infer_instance
instance (d : Text) : Decidable (IsNum d) := by unfold IsNum; infer_instance

/-- the text of `(\.[0-9]+)*` for the given components -/
def dotted : List Text → Text
  | [] => []
  | d :: ds => '.' :: (d ++ dotted ds)

/-- `([a-z]?)` : text and recorded value (0 = absent, else the byte) -/
inductive LetterG : Text → Nat → Prop
  | none : LetterG [] 0
  | some (c : Char) : isLower c = true → LetterG [c] c.toNat

/-- `((tok₁|…|tokₙ)([0-9]*))?` for the non-empty keys of a switch table: text, recorded
constant, recorded digit string -/
inductive SuffixG (tbl : List (String × Nat)) (noneVal : Nat) : Text → Nat → Text → Prop
  | none : SuffixG tbl noneVal [] noneVal []
  | some (tok : String) (val : Nat) (d : Text) : (tok, val) ∈ tbl → tok ≠ "" → IsDigits d →
      SuffixG tbl noneVal (tok.toList ++ d) val d

/-- `((-r)([0-9]+))?` : text and recorded digit string -/
inductive RevG : Text → Text → Prop
  | none : RevG [] []
  | some (d : Text) : IsNum d → RevG ('-' :: 'r' :: d) d

/-- the anchored regular expression as a concatenation -/
def Grammar (s : Text) (r : RawVersion) : Prop :=
  ∃ (d1 : Text) (more : List Text) (tl tp tq tr : Text),
    r.nums = d1 :: more ∧ (∀ d ∈ d1 :: more, IsNum d) ∧
    LetterG tl r.letter ∧
    SuffixG Generated.preSwitch Generated.preNone tp r.pre r.preNum ∧
    SuffixG Generated.postSwitch Generated.postNone tq r.post r.postNum ∧
    RevG tr r.rev ∧
    s = d1 ++ (dotted more ++ (tl ++ (tp ++ (tq ++ tr))))

/-! ## `recognise`, stage by stage -/

def recLetter (r2 : Text) : Nat × Text :=
  match r2 with
  | c :: cs => if isLower c then (c.toNat, cs) else (0, r2)
  | [] => (0, r2)

def recSuffix (tbl : List (String × Nat)) (noneVal : Nat) (r : Text) : Nat × Text × Text :=
  match matchToken tbl r with
  | some (v, r') => (v, (spanDigits r').1, (spanDigits r').2)
  | none => (noneVal, [], r)

def recRev (r5 : Text) : Option Text :=
  match r5 with
  | [] => some []
  | '-' :: 'r' :: r6 =>
    if (spanDigits r6).1.isEmpty then none
    else if (spanDigits r6).2.isEmpty then some (spanDigits r6).1
    else none
  | _ => none

theorem recRev_final {α : Type} (mk : Text → α) (r5 : Text) :
    (match r5 with
      | [] => some (mk [])
      | '-' :: 'r' :: r6 =>
        let (d, r7) := spanDigits r6
        if d.isEmpty then none
        else if r7.isEmpty then some (mk d)
        else none
      | _ => none) = (recRev r5).map mk := by
  unfold recRev
  split
  · rfl
  · simp only
    split
    · rfl
    · split <;> rfl
  · rfl

/-- `recognise` is the composition of its stages (no behaviour change: an equation about the
model's own definition) -/
theorem recognise_eq (s : Text) : recognise s =
    if (spanDigits s).1.isEmpty then none else
    let dn := parseDotNums s.length (spanDigits s).2
    let l := recLetter dn.2
    let p := recSuffix Generated.preSwitch Generated.preNone l.2
    let q := recSuffix Generated.postSwitch Generated.postNone p.2.2
    (recRev q.2.2).map fun rv => ⟨(spanDigits s).1 :: dn.1, l.1, p.1, p.2.1, q.1, q.2.1, rv⟩ := by
  unfold recognise
  simp only
  split
  · rfl
  · exact recRev_final _ _

/-! ## spans -/

/-- "`x` is empty or its first character fails `p`" -/
def StartsNot (p : Char → Bool) (x : Text) : Prop := ∀ c, x.head? = some c → p c = false

theorem startsNot_nil (p : Char → Bool) : StartsNot p [] := by intro c h; simp at h

theorem startsNot_cons {p : Char → Bool} {c : Char} {cs : Text} (h : p c = false) :
    StartsNot p (c :: cs) := by
  intro c' h'; simp at h'; subst h'; exact h

instance (p : Char → Bool) (x : Text) : Decidable (StartsNot p x) :=
  match x with
  | [] => isTrue (startsNot_nil p)
  | c :: _ =>
    if h : p c = false then isTrue (startsNot_cons h)
    else isFalse (fun hs => h (hs c rfl))

theorem spanDigits_eq_spanP (s : Text) : spanDigits s = spanP isDigit s := by
  induction s with
  | nil => rfl
  | cons c cs ih => simp only [spanDigits, spanP, ih]

/-- what a span returns: a split of the input, the first part inside `p`, maximal -/
theorem spanP_spec (p : Char → Bool) (s : Text) :
    s = (spanP p s).1 ++ (spanP p s).2 ∧ (spanP p s).1.all p = true ∧ StartsNot p (spanP p s).2 := by
  induction s with
  | nil => simp [spanP, startsNot_nil]
  | cons c cs ih =>
    simp only [spanP]
    by_cases h : p c = true
    · simp only [h, if_true, List.cons_append, List.all_cons, Bool.true_and]
      exact ⟨by rw [← ih.1], ih.2.1, ih.2.2⟩
    · simp only [h]
      exact ⟨by simp, by simp, startsNot_cons (by simpa using h)⟩

/-- maximal spans are forced: a `p`-run followed by something that does not continue it -/
theorem spanP_append {p : Char → Bool} {d r : Text} (hd : d.all p = true) (hr : StartsNot p r) :
    spanP p (d ++ r) = (d, r) := by
  induction d with
  | nil =>
    cases r with
    | nil => rfl
    | cons c cs => simp [spanP, hr c (by simp)]
  | cons c cs ih =>
    simp only [List.all_cons, Bool.and_eq_true] at hd
    simp [spanP, hd.1, ih hd.2]

theorem spanDigits_spec (s : Text) :
    s = (spanDigits s).1 ++ (spanDigits s).2 ∧ IsDigits (spanDigits s).1 ∧
      StartsNot isDigit (spanDigits s).2 := by
  rw [spanDigits_eq_spanP]; exact spanP_spec isDigit s

theorem spanDigits_append {d r : Text} (hd : IsDigits d) (hr : StartsNot isDigit r) :
    spanDigits (d ++ r) = (d, r) := by
  rw [spanDigits_eq_spanP]; exact spanP_append hd hr

theorem spanDigits_length (s : Text) : (spanDigits s).2.length ≤ s.length := by
  have h := (spanDigits_spec s).1
  have : s.length = ((spanDigits s).1 ++ (spanDigits s).2).length := by rw [← h]
  rw [List.length_append] at this; omega

/-! ## `(\.[0-9]+)*` -/

theorem parseDotNums_sound : ∀ (n : Nat) (s : Text),
    s = dotted (parseDotNums n s).1 ++ (parseDotNums n s).2 ∧ ∀ d ∈ (parseDotNums n s).1, IsNum d := by
  intro n
  induction n with
  | zero => intro s; simp [parseDotNums, dotted]
  | succ n ih =>
    intro s
    unfold parseDotNums
    split
    · rename_i h; cases h
    · rename_i fuel c cs h
      cases h
      by_cases hc : isDigit c = true
      · simp only [hc, if_true]
        have hs := spanDigits_spec (c :: cs)
        have hi := ih (spanDigits (c :: cs)).2
        refine ⟨?_, ?_⟩
        · simp only [dotted, List.cons_append, List.append_assoc, List.cons.injEq, true_and]
          rw [← hi.1, ← hs.1]
        · intro d hd
          simp only [List.mem_cons] at hd
          rcases hd with rfl | hd
          · refine ⟨?_, hs.2.1⟩
            simp only [spanDigits, hc, if_true]; simp
          · exact hi.2 d hd
      · simp [hc, dotted]
    · simp [dotted]

/-! ## tokens -/

theorem matchToken_sound {tbl : List (String × Nat)} {s : Text} {v : Nat} {r : Text}
    (h : matchToken tbl s = some (v, r)) :
    ∃ tok, (tok, v) ∈ tbl ∧ tok ≠ "" ∧ s = tok.toList ++ r := by
  induction tbl with
  | nil => simp [matchToken] at h
  | cons p rest ih =>
    obtain ⟨tok, val⟩ := p
    simp only [matchToken] at h
    split at h
    · obtain ⟨t, h1, h2, h3⟩ := ih h
      exact ⟨t, by simp [h1], h2, h3⟩
    · rename_i hne
      split at h
      · rename_i r' hs
        simp only [Option.some.injEq, Prod.mk.injEq] at h
        obtain ⟨rfl, rfl⟩ := h
        exact ⟨tok, by simp, hne, stripPrefix_eq_some.mp hs⟩
      · obtain ⟨t, h1, h2, h3⟩ := ih h
        exact ⟨t, by simp [h1], h2, h3⟩

/-! ## soundness -/

theorem recLetter_sound (x : Text) :
    ∃ tl, LetterG tl (recLetter x).1 ∧ x = tl ++ (recLetter x).2 := by
  unfold recLetter
  split
  · rename_i c cs
    by_cases h : isLower c = true
    · simp only [h, if_true]; exact ⟨[c], .some c h, rfl⟩
    · simp only [h]; exact ⟨[], .none, rfl⟩
  · exact ⟨[], .none, rfl⟩

theorem recSuffix_sound (tbl : List (String × Nat)) (nv : Nat) (x : Text) :
    ∃ t, SuffixG tbl nv t (recSuffix tbl nv x).1 (recSuffix tbl nv x).2.1 ∧
      x = t ++ (recSuffix tbl nv x).2.2 := by
  unfold recSuffix
  split
  · rename_i v r' hm
    obtain ⟨tok, hmem, hne, hx⟩ := matchToken_sound hm
    have hs := spanDigits_spec r'
    refine ⟨tok.toList ++ (spanDigits r').1, .some tok v _ hmem hne hs.2.1, ?_⟩
    simp only [List.append_assoc]
    rw [← hs.1]; exact hx
  · exact ⟨[], .none, rfl⟩

theorem recRev_sound {x d : Text} (h : recRev x = some d) : RevG x d := by
  unfold recRev at h
  split at h
  · simp only [Option.some.injEq] at h; subst h; exact .none
  · rename_i r6
    split at h
    · simp at h
    · rename_i hne
      split at h
      · rename_i hemp
        simp only [Option.some.injEq] at h
        have hs := spanDigits_spec r6
        have h2 : (spanDigits r6).2 = [] := by simpa using hemp
        have : r6 = d := by
          have := hs.1; rw [h2, List.append_nil, h] at this; exact this
        subst this
        refine .some _ ⟨?_, ?_⟩
        · intro e; rw [← h] at e; simp [e] at hne
        · have := hs.2.1; rw [h] at this; exact this
      · simp at h
  · simp at h

/-- soundness: whatever the recogniser accepts is a word of the grammar, with the recorded pieces -/
theorem recognise_sound {s : Text} {r : RawVersion} (h : recognise s = some r) : Grammar s r := by
  rw [recognise_eq] at h
  split at h
  · simp at h
  · rename_i hne
    simp only [Option.map_eq_some_iff] at h
    obtain ⟨rv, hrv, rfl⟩ := h
    have h1 := spanDigits_spec s
    have h2 := parseDotNums_sound s.length (spanDigits s).2
    obtain ⟨tl, hl, el⟩ := recLetter_sound (parseDotNums s.length (spanDigits s).2).2
    obtain ⟨tp, hp, ep⟩ := recSuffix_sound Generated.preSwitch Generated.preNone
      (recLetter (parseDotNums s.length (spanDigits s).2).2).2
    obtain ⟨tq, hq, eq⟩ := recSuffix_sound Generated.postSwitch Generated.postNone
      (recSuffix Generated.preSwitch Generated.preNone
        (recLetter (parseDotNums s.length (spanDigits s).2).2).2).2.2
    have hr := recRev_sound hrv
    refine ⟨_, _, tl, tp, tq, _, rfl, ?_, hl, hp, hq, hr, ?_⟩
    · intro d hd
      simp only [List.mem_cons] at hd
      rcases hd with rfl | hd
      · exact ⟨by intro e; simp [e] at hne, h1.2.1⟩
      · exact h2.2 d hd
    · rw [← eq, ← ep, ← el, ← h2.1, ← h1.1]

end Apko.VersionGrammar
