/-
C10 — `WellNestedStackOK`: the stack-free preorder property of a walk (`WellNested`) implies the
stack condition `StackOK` used by the splitLayers theorems.

Invariant of the main stack `s` after visiting the prefix `pre`:
  (K) every directory `d` of `pre` such that all directories visited after it lie below it is on `s`;
  (P) path lengths strictly increase along `s`.
-/
import Apko.Proofs.Lemmas.LayersStmt

namespace Apko.C10
open Apko Apko.Layers

/-! ## generic list facts -/

theorem mem_takeWhile_true {α : Type} (q : α → Bool) :
    ∀ (l : List α) (x : α), x ∈ l.takeWhile q → q x = true := by
  intro l
  induction l with
  | nil => intro x h; simp at h
  | cons a l ih =>
    intro x h
    by_cases ha : q a = true
    · rw [List.takeWhile_cons_of_pos ha] at h
      rcases List.mem_cons.1 h with h | h
      · subst h; exact ha
      · exact ih x h
    · rw [List.takeWhile_cons_of_neg ha] at h; simp at h

theorem dropWhile_head_false {α : Type} (q : α → Bool) :
    ∀ (l : List α) (e : α) (r : List α), l.dropWhile q = e :: r → q e = false := by
  intro l
  induction l with
  | nil => intro e r h; simp at h
  | cons a l ih =>
    intro e r h
    by_cases ha : q a = true
    · rw [List.dropWhile_cons_of_pos ha] at h; exact ih e r h
    · rw [List.dropWhile_cons_of_neg ha] at h
      injection h with h1 h2
      subst h1
      simpa using ha

/-- `l = (dropWhile q l.reverse).reverse ++ (takeWhile q l.reverse).reverse` -/
theorem rev_split {α : Type} (q : α → Bool) (l : List α) :
    l = (l.reverse.dropWhile q).reverse ++ (l.reverse.takeWhile q).reverse := by
  have h := @List.takeWhile_append_dropWhile α q l.reverse
  have h2 := congrArg List.reverse h
  rw [List.reverse_reverse, List.reverse_append] at h2
  exact h2.symm

theorem split_snoc {α : Type} {a b pre : List α} {d f : α}
    (h : a ++ d :: b = pre ++ [f]) :
    (a = pre ∧ d = f ∧ b = []) ∨ ∃ b', b = b' ++ [f] ∧ pre = a ++ d :: b' := by
  rcases List.eq_nil_or_concat b with hb | ⟨b', x, hb⟩
  · subst hb
    have h' : a ++ [d] = pre ++ [f] := h
    have := List.append_inj' h' rfl
    left
    refine ⟨this.1, ?_, rfl⟩
    simpa using this.2
  · right
    rw [List.concat_eq_append] at hb
    subst hb
    have h' : (a ++ d :: b') ++ [x] = pre ++ [f] := by simpa using h
    have := List.append_inj' h' rfl
    have hx : x = f := by simpa using this.2
    subst hx
    exact ⟨b', rfl, this.1.symm⟩

theorem prefix_dropLast {α : Type} {l₁ l₂ : List α} (h : l₁ <+: l₂) (hne : l₁ ≠ l₂) :
    l₁ <+: l₂.dropLast := by
  obtain ⟨t, rfl⟩ := h
  have ht : t ≠ [] := by
    intro ht; subst ht; simp at hne
  rw [List.dropLast_append_of_ne_nil ht]
  exact List.prefix_append _ _

/-! ## `popTo` -/

/-- `stack = popTo parent stack ++ t`, nothing in `t` has path `parent` -/
theorem popTo_split (parent : Path) (s : List WEntry) :
    ∃ t, s = popTo parent s ++ t ∧ ∀ x ∈ t, x.path ≠ parent := by
  refine ⟨(s.reverse.takeWhile (fun e => e.path != parent)).reverse, ?_, ?_⟩
  · exact rev_split _ s
  · intro x hx
    have := mem_takeWhile_true _ _ x (List.mem_reverse.1 hx)
    simpa using this

/-- `popTo parent s` is empty or ends in an element with path `parent` -/
theorem popTo_last (parent : Path) (s : List WEntry) :
    popTo parent s = [] ∨ ∃ i e, popTo parent s = i ++ [e] ∧ e.path = parent := by
  unfold popTo
  cases hd : s.reverse.dropWhile (fun e => e.path != parent) with
  | nil => left; rfl
  | cons e r =>
    right
    refine ⟨r.reverse, e, by simp, ?_⟩
    have := dropWhile_head_false _ _ e r hd
    simpa using this

/-- path lengths strictly increase along the stack -/
def Incr (s : List WEntry) : Prop := s.Pairwise (fun a b => a.path.length < b.path.length)

theorem popTo_len {parent : Path} {s : List WEntry} (hP : Incr s) :
    ∀ x ∈ popTo parent s, x.path.length ≤ parent.length := by
  obtain ⟨t, hs, _⟩ := popTo_split parent s
  intro x hx
  rcases popTo_last parent s with h | ⟨i, e, h, he⟩
  · rw [h] at hx; simp at hx
  · have hP' : Incr (popTo parent s) := by
      unfold Incr at hP
      rw [hs] at hP
      exact (List.pairwise_append.1 hP).1
    rw [h] at hx hP'
    have hP'' := (List.pairwise_append.1 hP').2.2
    rcases List.mem_append.1 hx with hx | hx
    · have := hP'' x hx e (by simp)
      rw [he] at this; omega
    · have : x = e := by simpa using hx
      subst this; rw [he]; exact Nat.le_refl _

theorem popTo_incr {parent : Path} {s : List WEntry} (hP : Incr s) : Incr (popTo parent s) := by
  obtain ⟨t, hs, _⟩ := popTo_split parent s
  unfold Incr at hP ⊢
  rw [hs] at hP
  exact (List.pairwise_append.1 hP).1

theorem popTo_mem {parent : Path} {s : List WEntry} (hP : Incr s) {d d' : WEntry}
    (hd : d ∈ s) (hdp : d.path = parent) (hd' : d' ∈ s) (hlen : d'.path.length ≤ parent.length) :
    d' ∈ popTo parent s := by
  obtain ⟨t, hs, ht⟩ := popTo_split parent s
  have hdk : d ∈ popTo parent s := by
    rw [hs] at hd
    rcases List.mem_append.1 hd with h | h
    · exact h
    · exact absurd hdp (ht d h)
  rw [hs] at hd'
  rcases List.mem_append.1 hd' with h | h
  · exact h
  · exfalso
    unfold Incr at hP
    rw [hs] at hP
    have := (List.pairwise_append.1 hP).2.2 d hdk d' h
    rw [hdp] at this; omega

theorem pushDir_incr {s : List WEntry} {f : WEntry} (hP : Incr s) (hf : f.path ≠ []) :
    Incr (pushDir s f) := by
  unfold pushDir
  split
  · unfold Incr
    rw [List.pairwise_append]
    refine ⟨popTo_incr hP, by simp, ?_⟩
    intro a ha b hb
    have hb' : b = f := by simpa using hb
    subst hb'
    have h1 := popTo_len hP a ha
    have h2 : (parentOf b.path).length = b.path.length - 1 := by
      unfold parentOf; exact List.length_dropLast
    have h3 : 0 < b.path.length := List.length_pos_iff.2 hf
    omega
  · exact hP

/-! ## the (K) invariant -/

/-- every directory of `pre` below which all later directories of `pre` lie is on the stack -/
def Keeps (pre s : List WEntry) : Prop :=
  ∀ a d b, pre = a ++ d :: b → d.isDir = true →
    (∀ x ∈ b, x.isDir = true → d.path <+: x.path) → d ∈ s

theorem wellNestedAt_split {pre : List WEntry} {f : WEntry}
    (h : WellNestedAt pre f = true) (hp : parentOf f.path ≠ []) :
    ∃ a d b, pre = a ++ d :: b ∧ d.isDir = true ∧ d.path = parentOf f.path ∧
      ∀ x ∈ b, x.isDir = true → parentOf f.path <+: x.path := by
  unfold WellNestedAt at h
  simp only [Bool.or_eq_true, decide_eq_true_eq, Bool.and_eq_true] at h
  rcases h with h | ⟨h1, h2⟩
  · exact absurd h hp
  · generalize hq : (fun (d : WEntry) => !(d.isDir && decide (d.path = parentOf f.path))) = q at h1 h2
    cases hd : pre.reverse.dropWhile q with
    | nil => rw [hd] at h1; simp at h1
    | cons d r =>
      have hsp := rev_split q pre
      rw [hd] at hsp
      refine ⟨r.reverse, d, (pre.reverse.takeWhile q).reverse, by simpa using hsp, ?_⟩
      have hqd := dropWhile_head_false q _ d r hd
      rw [← hq] at hqd
      simp only [Bool.not_eq_false', Bool.and_eq_true, decide_eq_true_eq] at hqd
      refine ⟨hqd.1, hqd.2, ?_⟩
      intro x hx hxd
      have := List.all_eq_true.1 h2 x (List.mem_reverse.1 hx)
      simp only [hxd, Bool.not_true, Bool.false_or] at this
      exact List.isPrefixOf_iff_prefix.1 this

theorem pushDir_keeps {pre s : List WEntry} {f : WEntry}
    (hK : Keeps pre s) (hP : Incr s)
    (hne : ∀ x ∈ pre, x.path ≠ []) (hnd : ∀ x ∈ pre, x.path ≠ f.path)
    (hw : WellNestedAt pre f = true) :
    Keeps (pre ++ [f]) (pushDir s f) := by
  intro a d' b hsplit hd'dir hb
  rcases split_snoc hsplit.symm with ⟨_, hdf, _⟩ | ⟨b', hb', hpre⟩
  · -- `d' = f`
    subst hdf
    unfold pushDir
    rw [if_pos hd'dir]
    simp
  · -- `d'` in `pre`
    subst hb'
    have hd's : d' ∈ s := hK a d' b' hpre hd'dir (fun x hx => hb x (List.mem_append_left _ hx))
    unfold pushDir
    split
    · rename_i hfdir
      have hd'pre : d' ∈ pre := by rw [hpre]; simp
      have hpf : d'.path <+: f.path := hb f (by simp) hfdir
      have hpp : d'.path <+: parentOf f.path := prefix_dropLast hpf (hnd d' hd'pre)
      have hpne : parentOf f.path ≠ [] := by
        intro h0
        rw [h0] at hpp
        exact hne d' hd'pre (List.prefix_nil.1 hpp)
      obtain ⟨a2, d, b2, hpre2, hddir, hdpath, hb2⟩ := wellNestedAt_split hw hpne
      have hds : d ∈ s := hK a2 d b2 hpre2 hddir (fun x hx hxd => by rw [hdpath]; exact hb2 x hx hxd)
      exact List.mem_append_left _ (popTo_mem hP hds hdpath hd's hpp.length_le)
    · exact hd's

/-! ## main induction -/

theorem stackOK_go : ∀ (rest pre s : List WEntry),
    ((pre ++ rest).map (·.path)).Nodup → (∀ f ∈ pre ++ rest, f.path ≠ []) →
    WellNestedGo pre rest = true → Keeps pre s → Incr s →
    (mainStacks s rest).all (fun (f, s) =>
      parentOf f.path = [] || s.any (fun d => d.path = parentOf f.path)) = true := by
  intro rest
  induction rest with
  | nil => intro pre s _ _ _ _ _; simp [mainStacks]
  | cons f r ih =>
    intro pre s hnd hne hw hK hP
    unfold WellNestedGo at hw
    rw [Bool.and_eq_true] at hw
    have hndf : ∀ x ∈ pre, x.path ≠ f.path := by
      rw [List.map_append, List.nodup_append] at hnd
      intro x hx
      exact hnd.2.2 x.path (List.mem_map_of_mem hx) f.path (by simp)
    have hnepre : ∀ x ∈ pre, x.path ≠ [] := fun x hx => hne x (List.mem_append_left _ hx)
    have hfne : f.path ≠ [] := hne f (by simp)
    have hK' := pushDir_keeps hK hP hnepre hndf hw.1
    have hP' := pushDir_incr hP hfne
    have hassoc : pre ++ [f] ++ r = pre ++ f :: r := by simp
    have hrest := ih (pre ++ [f]) (pushDir s f) (by rw [hassoc]; exact hnd)
      (by rw [hassoc]; exact hne) hw.2 hK' hP'
    unfold mainStacks
    simp only [List.all_cons, Bool.and_eq_true]
    refine ⟨?_, hrest⟩
    by_cases hp : parentOf f.path = []
    · simp [hp]
    · obtain ⟨a, d, b, hpre, hddir, hdpath, hb⟩ := wellNestedAt_split hw.1 hp
      have hmem : d ∈ pushDir s f := by
        apply hK' a d (b ++ [f]) (by rw [hpre]; simp) hddir
        intro x hx hxd
        rw [hdpath]
        rcases List.mem_append.1 hx with hx | hx
        · exact hb x hx hxd
        · have : x = f := by simpa using hx
          subst this
          unfold parentOf; exact List.dropLast_prefix _
      simp only [Bool.or_eq_true, decide_eq_true_eq, List.any_eq_true]
      right
      exact ⟨d, hmem, hdpath⟩

theorem wellNestedStackOK : WellNestedStackOK := by
  intro walk hnd hne hw
  unfold StackOK
  apply stackOK_go walk [] [] (by simpa using hnd) (by simpa using hne) hw
  · intro a d b h; simp at h
  · exact List.Pairwise.nil

end Apko.C10
