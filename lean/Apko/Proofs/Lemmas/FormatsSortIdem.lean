/-
C16 / C07: `sortTarHeaders` is idempotent on tree-shaped header lists: sorting the list it produced
(what a reader of the installed db would hand back) gives the same list again.
-/
import Apko.Proofs.Lemmas.FormatsSortOrder

namespace Apko.Formats
open Apko

/-! ## more fuel does not change a result -/

theorem go_fuel_mono (hs : List FileRec) (f : Nat)
    (ih : ∀ c o, sortChildren hs f c = some o → sortChildren hs (f + 1) c = some o) :
    ∀ (dirs : List (Text × FileRec)) (y : List FileRec),
      sortChildren.go hs f dirs = some y → sortChildren.go hs (f + 1) dirs = some y := by
  intro dirs
  induction dirs with
  | nil => intro y h; rw [sortChildren.go.eq_1] at h ⊢; exact h
  | cons p rest ihd =>
    intro y h
    obtain ⟨n, d⟩ := p
    rw [sortChildren.go.eq_2] at h
    split at h
    · next sub tl hsub htl =>
      rw [sortChildren.go.eq_2, ih _ _ hsub, ihd tl htl]
      exact h
    · exact absurd h (by simp)

theorem sortChildren_fuel_succ (hs : List FileRec) : ∀ (f : Nat) (c : List Text) (o : List FileRec),
    sortChildren hs f c = some o → sortChildren hs (f + 1) c = some o := by
  intro f
  induction f with
  | zero => intro c o h; rw [sortChildren.eq_1] at h; exact absurd h (by simp)
  | succ f ih =>
    intro c o h
    rw [sortChildren.eq_2] at h ⊢
    simp only [Option.map_eq_some_iff] at h ⊢
    obtain ⟨y, hy, rfl⟩ := h
    exact ⟨y, go_fuel_mono hs f ih _ y hy, rfl⟩

theorem sortChildren_fuel_mono (hs : List FileRec) (f k : Nat) (c : List Text) (o : List FileRec)
    (h : sortChildren hs f c = some o) : sortChildren hs (f + k) c = some o := by
  induction k with
  | zero => exact h
  | succ k ih => exact sortChildren_fuel_succ hs (f + k) c o ih

/-! ## one level, two header lists -/

theorem sortChildren_unfold (hs : List FileRec) (fuel : Nat) (c : List Text) :
    sortChildren hs (fuel + 1) c =
      (sortChildren.go hs fuel (dirsOf hs (sortTexts c))).map (fun y => filesOf hs (sortTexts c) ++ y) := by
  rw [sortChildren.eq_2]
  rfl

theorem go_congr (hsA hsB : List FileRec) (fA fB : Nat) : ∀ (dirs : List (Text × FileRec)),
    (∀ p ∈ dirs, sortChildren hsA fA (childrenOf hsA p.1) = sortChildren hsB fB (childrenOf hsB p.1)) →
    sortChildren.go hsA fA dirs = sortChildren.go hsB fB dirs := by
  intro dirs
  induction dirs with
  | nil => intro _; rw [sortChildren.go.eq_1, sortChildren.go.eq_1]
  | cons p rest ih =>
    intro h
    obtain ⟨n, d⟩ := p
    rw [sortChildren.go.eq_2, sortChildren.go.eq_2, h (n, d) (by simp), ih (fun q hq => h q (by simp [hq]))]

theorem level_congr (hsA hsB : List FileRec) (fA fB : Nat) (cA cB : List Text)
    (hf : filesOf hsA (sortTexts cA) = filesOf hsB (sortTexts cB))
    (hd : dirsOf hsA (sortTexts cA) = dirsOf hsB (sortTexts cB))
    (hsub : ∀ p ∈ dirsOf hsA (sortTexts cA),
      sortChildren hsA fA (childrenOf hsA p.1) = sortChildren hsB fB (childrenOf hsB p.1)) :
    sortChildren hsA (fA + 1) cA = sortChildren hsB (fB + 1) cB := by
  rw [sortChildren_unfold, sortChildren_unfold, hf, ← hd, go_congr hsA hsB fA fB _ hsub]

theorem filterMap_congrOn {α β : Type} (f g : α → Option β) : ∀ (l : List α), (∀ a ∈ l, f a = g a) →
    l.filterMap f = l.filterMap g := by
  intro l
  induction l with
  | nil => intro _; rfl
  | cons a l ih =>
    intro h
    rw [List.filterMap_cons, List.filterMap_cons, h a (by simp), ih (fun x hx => h x (by simp [hx]))]

/-- the function `dirsOf` maps over the names -/
def dirOf (hs : List FileRec) (n : Text) : Option (Text × FileRec) :=
  match lookupHeader hs n with
  | some h => if h.isDir then some (n, h) else none
  | none => none

theorem dirsOf_eq (hs : List FileRec) (l : List Text) : dirsOf hs l = l.filterMap (dirOf hs) := rfl

theorem dirOf_congr (hsA hsB : List FileRec) (n : Text) (h : lookupHeader hsA n = lookupHeader hsB n) :
    dirOf hsA n = dirOf hsB n := by
  unfold dirOf; rw [h]

theorem dirsOf_congr (hsA hsB : List FileRec) (l : List Text)
    (h : ∀ n ∈ l, lookupHeader hsA n = lookupHeader hsB n) : dirsOf hsA l = dirsOf hsB l := by
  rw [dirsOf_eq, dirsOf_eq]
  exact filterMap_congrOn _ _ l (fun n hn => dirOf_congr hsA hsB n (h n hn))

theorem filesOf_congr (hsA hsB : List FileRec) (l : List Text)
    (h : ∀ n ∈ l, lookupHeader hsA n = lookupHeader hsB n) : filesOf hsA l = filesOf hsB l := by
  unfold filesOf
  rw [filterMap_congrOn _ _ l h]

/-! ## dropping the records that are not emitted changes nothing -/

/-- the records `sortTarHeaders` keeps -/
def kept (hs : List FileRec) : List FileRec := hs.filter (emitted hs)

theorem mem_kept (hs : List FileRec) (x : FileRec) : x ∈ kept hs ↔ x ∈ hs ∧ emitted hs x = true := by
  unfold kept; rw [List.mem_filter]

theorem emitted_of_nontop (hs : List FileRec) (x : FileRec) (h : pathDir x.name ≠ ['.']) : emitted hs x = true := by
  rw [emitted_iff]; exact Or.inl h

theorem TreeP.kept (hs : List FileRec) (ht : TreeP hs) : TreeP (kept hs) := by
  refine ⟨fun h hh => ht.clean h ((mem_kept hs h).mp hh).1,
    fun a ha b hb => ht.distinct a ((mem_kept hs a).mp ha).1 b ((mem_kept hs b).mp hb).1, ?_⟩
  intro h hh hne
  have hm := ((mem_kept hs h).mp hh).1
  obtain ⟨d, hd, h1, h2⟩ := ht.parent h hm hne
  refine ⟨d, (mem_kept hs d).mpr ⟨hd, ?_⟩, h1, h2⟩
  rw [emitted_iff]
  by_cases e : pathDir d.name = ['.']
  · exact Or.inr ⟨h1, h, hm, h2.symm⟩
  · exact Or.inl e

theorem lookup_kept (hs : List FileRec) (ht : TreeP hs) (c : Text)
    (h : ∀ x ∈ hs, x.name = c → emitted hs x = true) : lookupHeader hs c = lookupHeader (kept hs) c := by
  have htk := TreeP.kept hs ht
  cases h1 : lookupHeader hs c with
  | some x =>
    obtain ⟨hm, hn⟩ := (lookupHeader_iff hs ht c x).mp h1
    exact ((lookupHeader_iff (kept hs) htk c x).mpr ⟨(mem_kept hs x).mpr ⟨hm, h x hm hn⟩, hn⟩).symm
  | none =>
    cases h2 : lookupHeader (kept hs) c with
    | none => rfl
    | some x =>
      obtain ⟨hm, hn⟩ := (lookupHeader_iff (kept hs) htk c x).mp h2
      rw [(lookupHeader_iff hs ht c x).mpr ⟨((mem_kept hs x).mp hm).1, hn⟩] at h1
      exact absurd h1 (by simp)

theorem lookup_kept_nontop (hs : List FileRec) (ht : TreeP hs) (c : Text) (hc : pathDir c ≠ ['.']) :
    lookupHeader hs c = lookupHeader (kept hs) c :=
  lookup_kept hs ht c (fun x _ hn => emitted_of_nontop hs x (by rw [hn]; exact hc))

theorem childrenOf_kept (hs : List FileRec) (ht : TreeP hs) (n : Text) (hn : n ≠ ['.']) :
    childrenOf (kept hs) n = childrenOf hs n := by
  have key : ∀ (l : List FileRec) (e : FileRec → Bool),
      (∀ x ∈ l, e x = false → pathDir (pathClean x.name) ≠ n) →
      ((l.filter e).map fun h => pathClean h.name).filter (fun m => pathDir m = n) =
      (l.map fun h => pathClean h.name).filter (fun m => pathDir m = n) := by
    intro l e
    induction l with
    | nil => intro _; rfl
    | cons a l ih =>
      intro h
      have ih' := ih (fun x hx => h x (by simp [hx]))
      cases hea : e a with
      | true =>
        simp only [List.filter_cons, hea, if_true, List.map_cons]
        split
        · rw [ih']
        · exact ih'
      | false =>
        have := h a (by simp) hea
        simp only [List.filter_cons, hea, Bool.false_eq_true, if_false, List.map_cons, decide_eq_true_eq, this]
        exact ih'
  unfold childrenOf kept
  apply key
  intro x hx he
  have hd : pathDir x.name = ['.'] := by
    cases hq : decide (pathDir x.name = ['.']) with
    | true => simpa using hq
    | false =>
      have : emitted hs x = true := emitted_of_nontop hs x (by simpa using hq)
      rw [this] at he; exact absurd he (by simp)
  rw [pathClean_cleanRel x.name (ht.clean x hx), hd]
  exact fun e => hn e.symm

theorem sortChildren_kept (hs : List FileRec) (ht : TreeP hs) : ∀ (fuel : Nat) (c : List Text),
    (∀ x ∈ c, pathDir x ≠ ['.']) → sortChildren hs fuel c = sortChildren (kept hs) fuel c := by
  intro fuel
  induction fuel with
  | zero => intro c _; rw [sortChildren.eq_1, sortChildren.eq_1]
  | succ fuel ih =>
    intro c hc
    have hl : ∀ n ∈ sortTexts c, lookupHeader hs n = lookupHeader (kept hs) n := fun n hn =>
      lookup_kept_nontop hs ht n (hc n ((mem_sortTexts _ _).mp hn))
    apply level_congr hs (kept hs) fuel fuel c c (filesOf_congr _ _ _ hl) (dirsOf_congr _ _ _ hl)
    intro p hp
    rw [mem_dirsOf] at hp
    obtain ⟨hm, hn⟩ := (lookupHeader_iff hs ht p.1 p.2).mp hp.2.1
    have hne : p.1 ≠ ['.'] := hn ▸ cleanRel_ne_dot _ (ht.clean p.2 hm)
    rw [childrenOf_kept hs ht p.1 hne]
    exact ih _ (fun x hx => by rw [mem_childrenOf hs p.1 x hx]; exact hne)

/-! ## the top level -/

/-- the keys of `directoryChildren` whose `Dir` is "." -/
def rawTop (hs : List FileRec) : List Text :=
  (dedupTexts (hs.map fun h => pathDir (pathClean h.name))).filter fun d => pathDir d = ['.']

theorem sortHeaders_eq (hs : List FileRec) :
    sortHeaders hs = sortChildren hs (hs.length + 1 + 1) (sortTexts (rawTop hs)) := rfl

theorem mem_rawTop (hs : List FileRec) (ht : TreeP hs) (t : Text) :
    t ∈ rawTop hs ↔ (∃ y ∈ hs, pathDir y.name = t) ∧ pathDir t = ['.'] := by
  rw [← mem_sortTexts]; exact mem_top hs ht t

theorem rawTop_nodup (hs : List FileRec) : (rawTop hs).Nodup :=
  List.Pairwise.filter _ (dedupTexts_nodup _)

theorem sortTexts_filter (l : List Text) (p : Text → Bool) : (sortTexts l).filter p = sortTexts (l.filter p) := by
  unfold sortTexts
  apply List.Perm.eq_of_pairwise (le := fun a b => textLe a b = true)
  · intro a b _ _ h1 h2; exact textLe_antisymm a b h1 h2
  · exact List.Pairwise.filter _ (List.pairwise_mergeSort (fun a b c => textLe_trans a b c) textLe_total l)
  · exact List.pairwise_mergeSort (fun a b c => textLe_trans a b c) textLe_total _
  · exact ((List.mergeSort_perm l textLe).filter p).trans (List.mergeSort_perm (l.filter p) textLe).symm

theorem filterMap_filter_isSome {α β : Type} (f : α → Option β) : ∀ (l : List α),
    l.filterMap f = (l.filter fun a => (f a).isSome).filterMap f := by
  intro l
  induction l with
  | nil => rfl
  | cons a l ih =>
    cases h : f a with
    | none => simp only [List.filterMap_cons, List.filter_cons, h, Option.isSome_none, Bool.false_eq_true, if_false]; exact ih
    | some b => simp only [List.filterMap_cons, List.filter_cons, h, Option.isSome_some, if_true]; rw [ih]

/-- only the names that are directory records matter -/
theorem dirsOf_sort_filter (hs : List FileRec) (l : List Text) :
    dirsOf hs (sortTexts l) = dirsOf hs (sortTexts (l.filter fun t => (dirOf hs t).isSome)) := by
  rw [dirsOf_eq, dirsOf_eq, filterMap_filter_isSome (dirOf hs) (sortTexts l), sortTexts_filter]

theorem dirOf_isSome (hs : List FileRec) (ht : TreeP hs) (t : Text) :
    (dirOf hs t).isSome = true ↔ ∃ d ∈ hs, d.name = t ∧ d.isDir = true := by
  unfold dirOf
  constructor
  · intro h
    split at h
    · next d hl =>
      split at h
      · next hd =>
        obtain ⟨hm, hn⟩ := (lookupHeader_iff hs ht t d).mp hl
        exact ⟨d, hm, hn, hd⟩
      · exact absurd h (by simp)
    · exact absurd h (by simp)
  · rintro ⟨d, hm, hn, hd⟩
    rw [(lookupHeader_iff hs ht t d).mpr ⟨hm, hn⟩]
    simp [hd]

/-- no top-level key is a non-directory record -/
theorem filesOf_top_nil (hs : List FileRec) (ht : TreeP hs) : filesOf hs (sortTexts (sortTexts (rawTop hs))) = [] := by
  rw [List.eq_nil_iff_forall_not_mem]
  intro x hx
  rw [mem_filesOf] at hx
  obtain ⟨hxd, t, ht', hl⟩ := hx
  rw [mem_sortTexts, mem_sortTexts, mem_rawTop hs ht] at ht'
  obtain ⟨hx, hxn⟩ := (lookupHeader_iff hs ht t x).mp hl
  obtain ⟨⟨y, hy, hyd⟩, _⟩ := ht'
  obtain ⟨p, hp, hpd, hpn⟩ := ht.parent y hy (by rw [hyd, ← hxn]; exact cleanRel_ne_dot _ (ht.clean x hx))
  have : p = x := ht.distinct p hp x hx (by rw [hpn, hyd, hxn])
  rw [this, hxd] at hpd
  exact absurd hpd (by simp)

/-- a top-level directory record that has a child, seen from either list -/
theorem topDir_iff (hs : List FileRec) (ht : TreeP hs) (t : Text) :
    (t ∈ rawTop (kept hs) ∧ (dirOf (kept hs) t).isSome = true) ↔ (t ∈ rawTop hs ∧ (dirOf hs t).isSome = true) := by
  have htk := TreeP.kept hs ht
  rw [mem_rawTop hs ht, mem_rawTop (kept hs) htk, dirOf_isSome hs ht, dirOf_isSome (kept hs) htk]
  constructor
  · rintro ⟨⟨⟨y, hy, hyd⟩, htd⟩, d, hd, hdn, hdd⟩
    exact ⟨⟨⟨y, ((mem_kept hs y).mp hy).1, hyd⟩, htd⟩, d, ((mem_kept hs d).mp hd).1, hdn, hdd⟩
  · rintro ⟨⟨⟨y, hy, hyd⟩, htd⟩, d, hd, hdn, hdd⟩
    have hne : pathDir y.name ≠ ['.'] := by rw [hyd, ← hdn]; exact cleanRel_ne_dot _ (ht.clean d hd)
    have hyk : y ∈ kept hs := (mem_kept hs y).mpr ⟨hy, emitted_of_nontop hs y hne⟩
    have hdk : d ∈ kept hs := (mem_kept hs d).mpr ⟨hd, by
      rw [emitted_iff]; exact Or.inr ⟨hdd, y, hy, by rw [hyd, hdn]⟩⟩
    exact ⟨⟨⟨y, hyk, hyd⟩, htd⟩, d, hdk, hdn, hdd⟩

theorem dirsOf_top_kept (hs : List FileRec) (ht : TreeP hs) :
    dirsOf (kept hs) (sortTexts (sortTexts (rawTop (kept hs)))) = dirsOf hs (sortTexts (sortTexts (rawTop hs))) := by
  have htk := TreeP.kept hs ht
  rw [dirsOf_sort_filter (kept hs), dirsOf_sort_filter hs]
  have hperm : ((sortTexts (rawTop (kept hs))).filter fun t => (dirOf (kept hs) t).isSome).Perm
      ((sortTexts (rawTop hs)).filter fun t => (dirOf hs t).isSome) := by
    rw [List.perm_ext_iff_of_nodup (List.Pairwise.filter _ (sortTexts_nodup _ (rawTop_nodup _)))
      (List.Pairwise.filter _ (sortTexts_nodup _ (rawTop_nodup _)))]
    intro t
    rw [List.mem_filter, List.mem_filter, mem_sortTexts, mem_sortTexts]
    exact topDir_iff hs ht t
  rw [sortTexts_perm _ _ hperm]
  apply dirsOf_congr
  intro t ht'
  rw [mem_sortTexts, List.mem_filter, mem_sortTexts, mem_rawTop hs ht, dirOf_isSome hs ht] at ht'
  obtain ⟨⟨⟨y, hy, hyd⟩, _⟩, d, hd, hdn, hdd⟩ := ht'
  symm
  apply lookup_kept hs ht t
  intro x hx hxn
  have : x = d := ht.distinct x hx d hd (by rw [hxn, hdn])
  subst this
  rw [emitted_iff]; exact Or.inr ⟨hdd, y, hy, by rw [hyd, hxn]⟩

/-- dropping the records `sortTarHeaders` does not emit changes nothing -/
theorem sortHeaders_kept (hs : List FileRec) (ht : TreeP hs) : sortHeaders (kept hs) = sortHeaders hs := by
  have htk := TreeP.kept hs ht
  rw [sortHeaders_eq, sortHeaders_eq]
  apply level_congr (kept hs) hs ((kept hs).length + 1) (hs.length + 1)
  · rw [filesOf_top_nil hs ht, filesOf_top_nil (kept hs) htk]
  · exact dirsOf_top_kept hs ht
  · intro p hp
    rw [mem_dirsOf] at hp
    obtain ⟨hm, hn⟩ := (lookupHeader_iff (kept hs) htk p.1 p.2).mp hp.2.1
    have hc : cleanRel p.1 = true := hn ▸ htk.clean p.2 hm
    have hne : p.1 ≠ ['.'] := cleanRel_ne_dot _ hc
    obtain ⟨o, ho⟩ := sortChildren_total (kept hs) htk.clean ((kept hs).length + 1) p.1 hc
      (by have := weight_le (kept hs) p.1; omega)
    have hlen : (kept hs).length ≤ hs.length := List.length_filter_le _ _
    have hmono := sortChildren_fuel_mono (kept hs) ((kept hs).length + 1) (hs.length - (kept hs).length) _ o ho
    rw [show (kept hs).length + 1 + (hs.length - (kept hs).length) = hs.length + 1 by omega] at hmono
    rw [ho, ← hmono, childrenOf_kept hs ht p.1 hne]
    exact (sortChildren_kept hs ht _ _ (fun x hx => by rw [mem_childrenOf hs p.1 x hx]; exact hne)).symm

/-- `sortTarHeaders` is idempotent on trees: its output is a fixed point -/
theorem sortHeaders_idem (hs : List FileRec) (ht : TreeP hs) (hn : namesNodup hs = true) (out : List FileRec)
    (h : sortHeaders hs = some out) : sortHeaders out = some out := by
  obtain ⟨out', h1, h2⟩ := sortHeaders_perm hs ht hn
  rw [h] at h1
  simp only [Option.some.injEq] at h1
  subst h1
  rw [← sortHeaders_perm_invariant (kept hs) out (TreeP.kept hs ht) h2.symm, sortHeaders_kept hs ht, h]

/-- the output of `sortTarHeaders` on a tree is again a tree, with distinct names -/
theorem sortHeaders_tree (hs : List FileRec) (ht : TreeP hs) (hn : namesNodup hs = true) (out : List FileRec)
    (h : sortHeaders hs = some out) : TreeP out ∧ namesNodup out = true := by
  obtain ⟨out', h1, h2⟩ := sortHeaders_perm hs ht hn
  rw [h] at h1
  simp only [Option.some.injEq] at h1
  subst h1
  have htk := TreeP.kept hs ht
  refine ⟨TreeP.perm (kept hs) out htk h2.symm, ?_⟩
  unfold namesNodup at hn ⊢
  simp only [decide_eq_true_eq] at hn ⊢
  have hk : ((kept hs).map fun h => pathClean h.name).Nodup :=
    List.Nodup.sublist (List.Sublist.map _ List.filter_sublist) hn
  exact (h2.map _).nodup_iff.mpr hk

end Apko.Formats
