import Apko.Proofs.Lemmas.FSPosix
/-! A concrete state for the non-vacuity examples of `resolve_posix_partial`: a chain of three absolute
symbolic links ending in a directory, and a dangling absolute link.  The state is what the operations
below produce from the empty file system (`absDemo_reachable`). -/
namespace Apko.FS
open Apko Apko.Path

/-- answers of lookups can be compared by evaluation -/
instance exceptDecEq {ε α : Type} [DecidableEq ε] [DecidableEq α] : DecidableEq (Except ε α)
  | .ok a, .ok b => if h : a = b then isTrue (by rw [h]) else isFalse (by intro h'; cases h'; exact h rfl)
  | .error a, .error b => if h : a = b then isTrue (by rw [h]) else isFalse (by intro h'; cases h'; exact h rfl)
  | .ok _, .error _ => isFalse (by intro h; cases h)
  | .error _, .ok _ => isFalse (by intro h; cases h)

/-- a property of every inode of a state: of the listed nodes and of the default node every other
identity reads as -/
theorem forall_node {fs : FS} {P : Inode → Prop} (h : ∀ n ∈ fs.nodes, P n) (hd : P default) :
    ∀ i, P (fs.node i) := by
  intro i
  by_cases hi : i < fs.nodes.length
  · have : fs.node i = fs.nodes[i] := by simp [FS.node, List.getD_eq_getElem?_getD, hi]
    rw [this]; exact h _ (List.getElem_mem hi)
  · rw [node_default_of_ge fs i (Nat.le_of_not_lt hi)]; exact hd

/-- `Inv` of a literal state, by evaluation -/
theorem inv_of_nodes {fs : FS} (hroot : (fs.node 0).dir = true)
    (h : ∀ n ∈ fs.nodes, (n.children.map (·.1)).Nodup ∧ (∀ e ∈ n.children, e.2 < fs.nodes.length) ∧
      (n.dir = false → n.children = [])) : Inv fs where
  root := hroot
  names := forall_node (P := fun n => (n.children.map (·.1)).Nodup) (fun n hn => (h n hn).1) (by decide)
  live := fun i n j hm =>
    forall_node (P := fun nd => ∀ e ∈ nd.children, e.2 < fs.nodes.length) (fun n hn => (h n hn).2.1)
      (by intro e he; cases he) i (n, j) hm
  files := forall_node (P := fun n => n.dir = false → n.children = []) (fun n hn => (h n hn).2.2) (by decide)

/-- `MkdirAll a/b; Symlink /a l3; Symlink /l3 l2; Symlink /l2 l1; Symlink /nowhere/x dang` -/
def absDemoOps : List Op :=
  [.mkdirAll "a/b".toList 0o755,
   .symlink "/a".toList "l3".toList, .symlink "/l3".toList "l2".toList, .symlink "/l2".toList "l1".toList,
   .symlink "/nowhere/x".toList "dang".toList]

/-- the state after `absDemoOps` -/
def absDemo : FS :=
  { nodes := [
      { rootInode with children := [("a".toList, 1), ("l3".toList, 3), ("l2".toList, 4), ("l1".toList, 5),
                                    ("dang".toList, 6)] },
      { dir := true, mode := modeDir ||| 0o755, children := [("b".toList, 2)] },
      { dir := true, mode := modeDir ||| 0o755 },
      { mode := modeSymlink + 0o777, target := "/a".toList },
      { mode := modeSymlink + 0o777, target := "/l3".toList },
      { mode := modeSymlink + 0o777, target := "/l2".toList },
      { mode := modeSymlink + 0o777, target := "/nowhere/x".toList }] }

theorem absDemo_reachable (b : Backend) : (run (Cfg.impl b) FS.empty absDemoOps).1 = absDemo := by
  cases b <;> decide

theorem absDemo_inv : Inv absDemo := inv_of_nodes (by decide) (by decide)

theorem absDemo_nodots : ∀ i : Nat, ∀ cmp ∈ parts (absDemo.node i).target, cmp ≠ dot ∧ cmp ≠ dotdot :=
  forall_node (P := fun n => ∀ cmp ∈ parts n.target, cmp ≠ dot ∧ cmp ≠ dotdot) (by decide) (by decide)

theorem absDemo_abs : ∀ i : Nat, (absDemo.node i).isSymlink = true → isAbs (absDemo.node i).target = true :=
  forall_node (P := fun n => n.isSymlink = true → isAbs n.target = true) (by decide) (by decide)

/-! the witness of finding F17d as a state: `l → /a/b`, `a/b/up → ../c` -/

def dotDemoOps : List Op :=
  [.mkdirAll "a/b".toList 0o755, .mkdirAll "c".toList 0o755, .mkdirAll "a/c".toList 0o755,
   .symlink "/a/b".toList "l".toList, .symlink "../c".toList "a/b/up".toList]

def dotDemo : FS :=
  { nodes := [
      { rootInode with children := [("a".toList, 1), ("c".toList, 3), ("l".toList, 5)] },
      { dir := true, mode := modeDir ||| 0o755, children := [("b".toList, 2), ("c".toList, 4)] },
      { dir := true, mode := modeDir ||| 0o755, children := [("up".toList, 6)] },
      { dir := true, mode := modeDir ||| 0o755 },
      { dir := true, mode := modeDir ||| 0o755 },
      { mode := modeSymlink + 0o777, target := "/a/b".toList },
      { mode := modeSymlink + 0o777, target := "../c".toList }] }

theorem dotDemo_reachable (b : Backend) : (run (Cfg.impl b) FS.empty dotDemoOps).1 = dotDemo := by
  cases b <;> decide

/-! relative targets behind a link: `l → /d`, and in `d` a chain `r → rx → rxx → … → f` of `k` links with
relative targets.  Looking `l/r` up, Impl joins each target to the traversed prefix `l` and follows `l`
again for every link of the chain (2k traversals), POSIX follows k + 1. -/

def rname (i : Nat) : Name := 'r' :: List.replicate i 'x'

def relChain (k : Nat) : FS :=
  { nodes :=
      [{ rootInode with children := [("d".toList, 1), ("l".toList, 2)] },
       { dir := true, mode := modeDir ||| 0o755,
         children := (List.range k).map (fun i => (rname i, 3 + i)) ++ [("f".toList, 3 + k)] },
       { mode := modeSymlink + 0o777, target := "/d".toList }] ++
      (List.range k).map (fun i =>
        { mode := modeSymlink + 0o777, target := if i + 1 < k then rname (i + 1) else "f".toList }) ++
      [{ mode := 0o644 }] }

/-! a merged-`/usr` layout: `usr/bin/sh → busybox` (relative, in a real directory), `bin → /usr/bin`,
`lnk → usr/bin/sh` (relative, at the root) -/

def mergeDemoOps : List Op :=
  [.mkdirAll "usr/bin".toList 0o755, .mknod "usr/bin/busybox".toList 0o755 0,
   .symlink "busybox".toList "usr/bin/sh".toList, .symlink "/usr/bin".toList "bin".toList,
   .symlink "usr/bin/sh".toList "lnk".toList]

def mergeDemo : FS :=
  { nodes := [
      { rootInode with children := [("usr".toList, 1), ("bin".toList, 5), ("lnk".toList, 6)] },
      { dir := true, mode := modeDir ||| 0o755, children := [("bin".toList, 2)] },
      { dir := true, mode := modeDir ||| 0o755, children := [("busybox".toList, 3), ("sh".toList, 4)] },
      { mode := 0o755 ||| modeCharDevice ||| modeDevice },
      { mode := modeSymlink + 0o777, target := "busybox".toList },
      { mode := modeSymlink + 0o777, target := "/usr/bin".toList },
      { mode := modeSymlink + 0o777, target := "usr/bin/sh".toList }] }

theorem mergeDemo_reachable (b : Backend) : (run (Cfg.impl b) FS.empty mergeDemoOps).1 = mergeDemo := by
  cases b <;> decide

end Apko.FS
