/-
C02 lemmas, part 1: the small pieces of the greedy resolver (`Apko/Model/Resolver.lean`).

* `dq` only grows: `dqAdd`, `disqualifyProviders`, `constrain`, `disqualifyConflicts` are inflationary;
* `nameMap` only lists packages of the universe that carry or provide the name;
* `Tight c dq dep`: every not-disqualified provider of `dep`'s name satisfies `dep` (the spec's `sat`);
  `constrain_tightens` — that is what the `constrain` pre-pass establishes, and it persists as `dq` grows;
* `candidate_sat` — hence whatever `resolvePackage` / the candidate filter returns satisfies the constraint;
* ghost flags only grow; `pick` only appends to `selected`, under keys the package carries or provides;
* de-duplication by name: when the ghost test `dedupDropsOther` is false nothing is lost up to (name, id).

Core only.  Everything is stated for all inputs.
-/
import Apko.Model.Resolver

namespace Apko.C02
open Apko Apko.Resolver

/-! ## generic list facts -/

theorem foldl_infl {α : Type} (f : List Nat → α → List Nat) (hf : ∀ d x, d ⊆ f d x)
    (l : List α) (d : List Nat) : d ⊆ l.foldl f d := by
  induction l generalizing d with
  | nil => simp
  | cons x xs ih => exact fun a ha => ih (f d x) (hf d x ha)

theorem foldlM_infl {α : Type} (f : List Nat → α → Option (List Nat))
    (hf : ∀ d x d', f d x = some d' → d ⊆ d') (l : List α) (d d' : List Nat)
    (h : l.foldlM f d = some d') : d ⊆ d' := by
  induction l generalizing d with
  | nil => simp only [List.foldlM_nil, pure, Option.some.injEq] at h; subst h; simp
  | cons x xs ih =>
    simp only [List.foldlM_cons, bind, Option.bind] at h
    split at h
    · simp at h
    · next d1 h1 => exact fun a ha => ih d1 h (hf d x d1 h1 ha)

/-! ## dq -/

theorem pv_nil : pv [] = none := by decide

theorem contains_false_iff {dq : List Nat} {i : Nat} : dq.contains i = false ↔ i ∉ dq := by
  simp

theorem mem_dqAdd {dq : List Nat} {i x : Nat} : x ∈ dqAdd dq i ↔ x ∈ dq ∨ x = i := by
  unfold dqAdd
  split
  · next h =>
    have : i ∈ dq := by simpa using h
    constructor
    · exact Or.inl
    · rintro (h | h)
      · exact h
      · subst h; exact this
  · simp

theorem dqAdd_infl (dq : List Nat) (i : Nat) : dq ⊆ dqAdd dq i :=
  fun _ h => mem_dqAdd.mpr (Or.inl h)

theorem self_mem_dqAdd (dq : List Nat) (i : Nat) : i ∈ dqAdd dq i := mem_dqAdd.mpr (Or.inr rfl)

/-- `disqualifyProviders` only adds -/
theorem disqualifyProviders_infl (c : Cfg) (x : Text) (dq : List Nat) :
    dq ⊆ disqualifyProviders c x dq := by
  unfold disqualifyProviders
  simp only
  split
  · simp
  · exact foldl_infl (fun d (q : Pkg) => dqAdd d q.id) (fun d q => dqAdd_infl d q.id) _ _

/-! ## nameMap -/

/-- does `p` carry `name`, as its own name or as the name of one of its provides -/
def Carries (p : Pkg) (name : Text) : Prop := p.name = name ∨ ∃ pr ∈ p.provides, provName pr = name

/-- `nameMap[name]` lists only packages of the universe that carry `name` (for every `order`) -/
theorem nameMap_mem {u : Universe} {order : List Text} {name : Text} {p : Pkg}
    (h : p ∈ nameMap u order name) : p ∈ u.all ∧ Carries p name := by
  unfold nameMap at h
  rcases List.mem_append.mp h with h | h
  · simp only [List.mem_filter, decide_eq_true_eq] at h
    exact ⟨h.1, Or.inl h.2⟩
  · simp only [List.mem_flatMap, List.mem_filter, List.mem_map, decide_eq_true_eq] at h
    obtain ⟨n, _, q, ⟨hq, _⟩, pr, ⟨hpr, hn⟩, rfl⟩ := h
    exact ⟨hq, Or.inr ⟨pr, hpr, hn⟩⟩

theorem hasName_of_mem {u : Universe} {name : Text} {p : Pkg} (hp : p ∈ u.all) (hc : Carries p name) :
    hasName u name = true := by
  unfold hasName
  rw [List.any_eq_true]
  refine ⟨p, hp, ?_⟩
  rcases hc with h | ⟨pr, hpr, hn⟩
  · simp [h]
  · simp only [Bool.or_eq_true, decide_eq_true_eq, List.any_eq_true]
    exact Or.inr ⟨pr, hpr, hn⟩

/-! ## the candidate filter and the best candidate (stand-alone copies of the facts in `C02.lean`) -/

theorem mem_filterPackages {cands : List Pkg} {dq : List Nat} {version : Text} {dep : Dep}
    {allowPin preferPin : Text} {installed : Option Pkg} {p : Pkg}
    (h : p ∈ filterPackages cands dq version dep allowPin preferPin installed) :
    dq.contains p.id = false ∧ p ∈ cands := by
  unfold filterPackages at h
  simp only at h
  split at h
  · simp only [List.mem_filter, Bool.and_eq_true, Bool.not_eq_true'] at h
    exact ⟨h.2.1, h.1⟩
  · split at h
    · simp at h
    · simp only [List.mem_filter, Bool.and_eq_true, Bool.not_eq_true'] at h
      exact ⟨h.1.2.1, h.1.1⟩

theorem foldl_minFunc_mem (cmp : Pkg → Pkg → Ordering) (xs : List Pkg) (x : Pkg) :
    xs.foldl (fun m y => if cmp y m = .lt then y else m) x ∈ x :: xs := by
  induction xs generalizing x with
  | nil => simp
  | cons y ys ih =>
    simp only [List.foldl_cons]
    have := ih (if cmp y x = .lt then y else x)
    by_cases hc : cmp y x = .lt
    · simp only [hc, if_true] at this ⊢
      exact List.mem_cons_of_mem _ this
    · simp only [hc, if_false] at this ⊢
      rcases List.mem_cons.mp this with h | h
      · rw [h]; exact List.mem_cons_self ..
      · exact List.mem_cons_of_mem _ (List.mem_cons_of_mem _ h)

theorem mem_of_minFunc {cmp : Pkg → Pkg → Ordering} {l : List Pkg} {b : Pkg}
    (h : minFunc cmp l = some b) : b ∈ l := by
  cases l with
  | nil => simp [minFunc] at h
  | cons x xs =>
    simp only [minFunc, Option.some.injEq] at h
    rw [← h]; exact foldl_minFunc_mem cmp xs x

theorem lowestOption_mem {opts : List (Text × List Pkg)} {e : Text × List Pkg}
    (h : lowestOption opts = some e) : e ∈ opts := by
  cases opts with
  | nil => simp [lowestOption] at h
  | cons x xs =>
    simp only [lowestOption, Option.some.injEq] at h
    rw [← h]
    clear h
    induction xs generalizing x with
    | nil => simp
    | cons y ys ih =>
      simp only [List.foldl_cons]
      have := ih (if y.2.length < x.2.length then y
        else if (y.2.length = x.2.length && y.1 < x.1) = true then y else x)
      rcases List.mem_cons.mp this with h | h
      · rw [h]
        split
        · simp
        · split <;> simp
      · exact List.mem_cons_of_mem _ (List.mem_cons_of_mem _ h)

theorem lowestOption_none {opts : List (Text × List Pkg)} (h : lowestOption opts = none) : opts = [] := by
  cases opts with
  | nil => rfl
  | cons x xs => simp [lowestOption] at h

/-- what `resolvePackage` returns is a not-disqualified member of `nameMap` of the constraint's name -/
theorem resolvePackage_mem {c : Cfg} {n : Text} {dq : List Nat} {p : Pkg}
    (h : resolvePackage c n dq = some p) :
    p ∈ c.nm (parseConstraint n).name ∧ dq.contains p.id = false := by
  unfold resolvePackage candidates at h
  simp only at h
  split at h
  · simp at h
  · next l hl =>
    split at hl
    · simp at hl
    · split at hl
      · simp at hl
      · simp only [Option.some.injEq] at hl
        have := mem_of_minFunc h
        rw [← hl] at this
        have h2 := mem_filterPackages this
        exact ⟨h2.2, h2.1⟩

/-! ## `Tight`: what the `constrain` pre-pass establishes -/

/-- every provider of `dep`'s name that is not disqualified satisfies `dep` in the sense of the spec -/
def Tight (c : Cfg) (dq : List Nat) (dep : Text) : Prop :=
  ∀ p ∈ c.nm (parseConstraint dep).name, dq.contains p.id = false → sat p dep = true

theorem Tight.mono {c : Cfg} {dq dq' : List Nat} {dep : Text} (h : Tight c dq dep) (hs : dq ⊆ dq') :
    Tight c dq' dep := by
  intro p hp hn
  apply h p hp
  rw [contains_false_iff] at hn ⊢
  exact fun hm => hn (hs hm)

/-- a constraint without a version operator is satisfied by every member of `nameMap[name]` -/
theorem sat_of_carries_any {p : Pkg} {dep : Text} (hc : Carries p (parseConstraint dep).name)
    (ha : (parseConstraint dep).dep = .any ∨ (parseConstraint dep).version = []) : sat p dep = true := by
  unfold sat
  simp only [Bool.or_eq_true, Bool.and_eq_true, decide_eq_true_eq, List.any_eq_true]
  rcases hc with h | ⟨pr, hpr, hn⟩
  · left
    refine ⟨h, ?_⟩
    rcases ha with ha | ha
    · simp [ha]
    · simp [ha]
  · right
    refine ⟨pr, hpr, hn, ?_⟩
    rcases ha with ha | ha
    · simp [ha]
    · simp [ha]

theorem tight_any (c : Cfg) (dq : List Nat) (dep : Text)
    (ha : (parseConstraint dep).dep = .any ∨ (parseConstraint dep).version = []) : Tight c dq dep :=
  fun _ hp _ => sat_of_carries_any (nameMap_mem hp).2 ha

theorem tight_noName (c : Cfg) (dq : List Nat) (dep : Text)
    (hn : hasName c.u (parseConstraint dep).name = false) : Tight c dq dep := by
  intro p hp _
  have := nameMap_mem hp
  rw [hasName_of_mem this.1 this.2] at hn
  exact absurd hn (by simp)

/-- the per-provider step of `constrain` for a constraint with a version operator -/
def tightenProv (p : Constraint) (req : Version) (d : List Nat) (prov : Pkg) : List Nat :=
  if prov.name = p.name then
    match pv prov.version with
    | none => dqAdd d prov.id
    | some act => if !p.dep.satisfies act req then dqAdd d prov.id else d
  else
    prov.provides.foldl (fun d' pr =>
      let pp := parseConstraint pr
      if pp.name != p.name then d'
      else match pv pp.version with
        | none => dqAdd d' prov.id
        | some act => if !p.dep.satisfies act req then dqAdd d' prov.id else d') d

/-- the provide-by-provide inner step -/
def tightenProvide (p : Constraint) (req : Version) (prov : Pkg) (d' : List Nat) (pr : Text) : List Nat :=
  let pp := parseConstraint pr
  if pp.name != p.name then d'
  else match pv pp.version with
    | none => dqAdd d' prov.id
    | some act => if !p.dep.satisfies act req then dqAdd d' prov.id else d'

theorem tightenProvide_infl (p : Constraint) (req : Version) (prov : Pkg) (d : List Nat) (pr : Text) :
    d ⊆ tightenProvide p req prov d pr := by
  unfold tightenProvide
  simp only
  split
  · simp
  · split
    · exact dqAdd_infl _ _
    · split
      · exact dqAdd_infl _ _
      · simp

theorem tightenProv_infl (p : Constraint) (req : Version) (d : List Nat) (prov : Pkg) :
    d ⊆ tightenProv p req d prov := by
  unfold tightenProv
  split
  · split
    · exact dqAdd_infl _ _
    · split
      · exact dqAdd_infl _ _
      · simp
  · exact foldl_infl (tightenProvide p req prov) (tightenProvide_infl p req prov) _ _

/-- the provide passes the version test of `constrain` -/
def ProvideOk (p : Constraint) (req : Version) (pr : Text) : Prop :=
  (parseConstraint pr).name = p.name →
    ∃ act, pv (parseConstraint pr).version = some act ∧ p.dep.satisfies act req = true

theorem tightenProvide_ok {p : Constraint} {req : Version} {prov : Pkg} {d : List Nat} {pr : Text}
    (h : prov.id ∉ tightenProvide p req prov d pr) : ProvideOk p req pr := by
  intro hn
  unfold tightenProvide at h
  simp only [hn, bne_self_eq_false, Bool.false_eq_true, if_false] at h
  split at h
  · exact absurd (self_mem_dqAdd _ _) h
  · next act hact =>
    split at h
    · exact absurd (self_mem_dqAdd _ _) h
    · next hs => exact ⟨act, hact, by simpa using hs⟩

theorem tightenProvides_ok {p : Constraint} {req : Version} {prov : Pkg} (l : List Text) {d : List Nat}
    (h : prov.id ∉ l.foldl (tightenProvide p req prov) d) : ∀ pr ∈ l, ProvideOk p req pr := by
  induction l generalizing d with
  | nil => simp
  | cons x xs ih =>
    simp only [List.foldl_cons] at h
    intro pr hpr
    rcases List.mem_cons.mp hpr with rfl | hpr
    · apply tightenProvide_ok (prov := prov) (d := d)
      exact fun hm => h (foldl_infl _ (tightenProvide_infl p req prov) xs _ hm)
    · exact ih h pr hpr

/-- the provider passes `constrain` -/
def ProvOk (p : Constraint) (req : Version) (prov : Pkg) : Prop :=
  if prov.name = p.name then ∃ act, pv prov.version = some act ∧ p.dep.satisfies act req = true
  else ∀ pr ∈ prov.provides, ProvideOk p req pr

theorem tightenProv_ok {p : Constraint} {req : Version} {prov : Pkg} {d : List Nat}
    (h : prov.id ∉ tightenProv p req d prov) : ProvOk p req prov := by
  unfold tightenProv at h
  unfold ProvOk
  split
  · next hn =>
    simp only [hn, if_true] at h
    split at h
    · exact absurd (self_mem_dqAdd _ _) h
    · next act hact =>
      split at h
      · exact absurd (self_mem_dqAdd _ _) h
      · next hs => exact ⟨act, hact, by simpa using hs⟩
  · next hn =>
    simp only [hn, if_false] at h
    exact tightenProvides_ok _ h

theorem tightenProvs_ok {p : Constraint} {req : Version} (l : List Pkg) {d : List Nat} :
    ∀ prov ∈ l, prov.id ∉ l.foldl (tightenProv p req) d → ProvOk p req prov := by
  induction l generalizing d with
  | nil => simp
  | cons x xs ih =>
    intro prov hprov h
    simp only [List.foldl_cons] at h
    rcases List.mem_cons.mp hprov with rfl | hprov
    · apply tightenProv_ok (d := d)
      exact fun hm => h (foldl_infl _ (tightenProv_infl p req) xs _ hm)
    · exact ih prov hprov h

/-- a provider that passes `constrain`'s test for `dep` satisfies `dep` in the sense of the spec:
under its own name its own version satisfies the operator; otherwise EVERY provide of that name does,
and a member of `nameMap[name]` of a different name has at least one -/
theorem sat_of_provOk {prov : Pkg} {dep : Text} {req : Version}
    (hreq : pv (parseConstraint dep).version = some req)
    (hc : Carries prov (parseConstraint dep).name) (hok : ProvOk (parseConstraint dep) req prov) :
    sat prov dep = true := by
  unfold sat
  simp only [Bool.or_eq_true, Bool.and_eq_true, decide_eq_true_eq, List.any_eq_true]
  unfold ProvOk at hok
  split at hok
  · next hn =>
    obtain ⟨act, hact, hs⟩ := hok
    left
    refine ⟨hn, ?_⟩
    simp [hact, hreq, hs]
  · next hn =>
    rcases hc with h | ⟨pr, hpr, hpn⟩
    · exact absurd h hn
    · obtain ⟨act, hact, hs⟩ := hok pr hpr hpn
      right
      refine ⟨pr, hpr, hpn, ?_⟩
      have hne : (parseConstraint pr).version ≠ [] := by
        intro he; rw [he, pv_nil] at hact; exact absurd hact (by simp)
      simp [hact, hreq, hs, hne]

/-- `constrain` only adds to `dq` -/
theorem constrain_infl (c : Cfg) (l : List Text) (dq dq' : List Nat)
    (h : constrain c l dq = some dq') : dq ⊆ dq' := by
  induction l generalizing dq with
  | nil => simp only [constrain, Option.some.injEq] at h; subst h; simp
  | cons con rest ih =>
    unfold constrain at h
    split at h
    · exact fun a ha => ih _ h (disqualifyProviders_infl c _ dq ha)
    · simp only at h
      split at h
      · exact ih _ h
      · split at h
        · exact ih _ h
        · split at h
          · simp at h
          · next req _ =>
            refine fun a ha => ih _ h ?_
            exact foldl_infl (tightenProv (parseConstraint con) req)
              (tightenProv_infl (parseConstraint con) req) _ _ ha

/-- T `constrain_tightens`: after a successful `constrain c l dq`, every non-conflict member of `l` is
tight: each provider of its name that is still a candidate satisfies it (spec `sat`). -/
theorem constrain_tightens (c : Cfg) (l : List Text) (dq dq' : List Nat)
    (h : constrain c l dq = some dq') : ∀ d ∈ l, isConflict d = false → Tight c dq' d := by
  induction l generalizing dq with
  | nil => simp
  | cons con rest ih =>
    intro d hd hnc
    unfold constrain at h
    split at h
    · next x =>
      rcases List.mem_cons.mp hd with rfl | hd
      · simp [isConflict] at hnc
      · exact ih _ h d hd hnc
    · next hnot =>
      simp only at h
      split at h
      · next hany =>
        rcases List.mem_cons.mp hd with rfl | hd
        · exact tight_any c dq' d (Or.inl hany)
        · exact ih _ h d hd hnc
      · split at h
        · next hnn =>
          rcases List.mem_cons.mp hd with rfl | hd
          · exact tight_noName c dq' d (by simpa using hnn)
          · exact ih _ h d hd hnc
        · split at h
          · simp at h
          · next req hreq =>
            rcases List.mem_cons.mp hd with rfl | hd
            · intro p hp hn
              have hsub := constrain_infl c rest _ dq' h
              have hnot' : p.id ∉ (c.nm (parseConstraint d).name).foldl
                  (tightenProv (parseConstraint d) req) dq := by
                rw [contains_false_iff] at hn
                exact fun hm => hn (hsub hm)
              exact sat_of_provOk hreq (nameMap_mem hp).2 (tightenProvs_ok _ p hp hnot')
            · exact ih _ h d hd hnc

/-- T `candidate_sat`: under `Tight`, what `resolvePackage` returns satisfies the constraint -/
theorem candidate_sat {c : Cfg} {n : Text} {dq : List Nat} {p : Pkg}
    (h : resolvePackage c n dq = some p) (ht : Tight c dq n) : sat p n = true :=
  ht p (resolvePackage_mem h).1 (resolvePackage_mem h).2

/-- … and so does every member of the candidate filter over `nameMap[name]` -/
theorem filter_candidate_sat {c : Cfg} {dep : Text} {dq : List Nat} {version : Text} {op : Dep}
    {allowPin preferPin : Text} {installed : Option Pkg} {p : Pkg}
    (h : p ∈ filterPackages (c.nm (parseConstraint dep).name) dq version op allowPin preferPin installed)
    (ht : Tight c dq dep) : sat p dep = true :=
  ht p (mem_filterPackages h).2 (mem_filterPackages h).1

/-- `disqualifyConflicts` only adds -/
theorem disqualifyConflicts_infl (c : Cfg) (pkg : Pkg) (dq dq' : List Nat)
    (h : disqualifyConflicts c pkg dq = some dq') : dq ⊆ dq' := by
  unfold disqualifyConflicts at h
  refine foldlM_infl _ ?_ _ _ _ h
  intro d prov d' hd
  simp only at hd
  split at hd
  · simp only [Option.some.injEq] at hd; subst hd; simp
  · refine foldlM_infl _ ?_ _ _ _ hd
    intro e conflict e' he
    split at he
    · simp only [Option.some.injEq] at he; subst he; simp
    · split at he
      · simp only [Option.some.injEq] at he; subst he; simp
      · split at he
        · simp at he
        · simp only [Option.some.injEq] at he; subst he; simp
        · simp only [Option.some.injEq] at he; subst he; exact dqAdd_infl _ _

end Apko.C02
