import Apko.Proofs.Lemmas.ConflictInv
/-! C07: no_silent_overwrite with the exact flag set — a header changes no other path unless the run
raises `alias` (F07g) or `throughLink` (F07d) at that header. -/
namespace Apko.C07
open Apko Apko.Conflict Apko.Path

/-- the flags that cannot move a write away from the header's own path -/
def Flag.isLocal : Flag → Bool
  | .alias _ => false
  | .throughLink _ _ => false
  | _ => true

def Local (x : List Flag) : Prop := ∀ f ∈ x, Flag.isLocal f = true

theorem Local_append {x y : List Flag} : Local (x ++ y) ↔ Local x ∧ Local y := by
  unfold Local
  constructor
  · intro h; exact ⟨fun f hf => h f (List.mem_append_left _ hf), fun f hf => h f (List.mem_append_right _ hf)⟩
  · rintro ⟨h1, h2⟩ f hf
    rcases List.mem_append.1 hf with hf | hf
    · exact h1 f hf
    · exact h2 f hf

theorem aliasFlag_cases (t : Tree) (e : Entry) : aliasFlag t e = [] ∨ aliasFlag t e = [.alias e.name] := by
  unfold aliasFlag
  split
  · exact Or.inr rfl
  · split
    · split
      · exact Or.inl rfl
      · exact Or.inr rfl
    · exact Or.inl rfl

theorem aliasFlag_local {t : Tree} {e : Entry} (h : Local (aliasFlag t e)) : aliasFlag t e = [] := by
  rcases aliasFlag_cases t e with h0 | h1
  · exact h0
  · rw [h1] at h
    have := h _ (List.mem_singleton.2 rfl)
    simp [Flag.isLocal] at this

/-- off the own path nothing changes -/
def Off (e : Entry) (st st' : St) : Prop :=
  ∀ q, q ≠ parts e.name → lookupT st'.tree q = lookupT st.tree q

theorem lazyFile_off (c : Cfg) (pkgs : List Pkg) (i : Nat) (e : Entry) (st st' : St) (b : Bool)
    (h : lazyFile c pkgs i e st = .ok (st', b)) (hne : parts e.name ≠ []) (hal : aliasFlag st.tree e = []) :
    Off e st st' := by
  unfold lazyFile at h
  dsimp only at h
  split at h
  · cases h
  · rename_i d hp
    have hown := own_path hp hal hne
    simp only [hown] at h
    intro q hq
    repeat' split at h
    all_goals first
      | (cases h; done)
      | (cases h; first | rfl | exact lookupT_setT_ne _ _ _ _ hq)

theorem streamLink_off (c : Cfg) (i : Nat) (e : Entry) (st st' : St) (b : Bool)
    (h : streamLink c i e st = .ok (st', b)) (hne : parts e.name ≠ []) (hal : aliasFlag st.tree e = []) :
    Off e st st' := by
  unfold streamLink at h
  dsimp only at h
  split at h
  · cases h
  · rename_i d hp
    have hown := own_path hp hal hne
    simp only [hown] at h
    intro q hq
    repeat' split at h
    all_goals first
      | (cases h; done)
      | (cases h; first | rfl | exact lookupT_setT_ne _ _ _ _ hq)

theorem streamReg_off (c : Cfg) (pkgs : List Pkg) (i : Nat) (e : Entry) (st st' : St) (b : Bool)
    (h : streamReg c pkgs i e st = .ok (st', b)) (hne : parts e.name ≠ []) (hal : aliasFlag st.tree e = []) :
    ∃ x, st'.flags = st.flags ++ x ∧ (Local x → Off e st st') := by
  unfold streamReg at h
  dsimp only at h
  split at h
  · -- `Stat` succeeds
    split at h
    · split at h
      · cases h
        exact ⟨_, rfl, fun _ q _ => rfl⟩
      · split at h
        · cases h
        · rename_i d hp
          have hown := own_path hp hal hne
          simp only [hown] at h
          cases h
          exact ⟨_, rfl, fun _ q hq => by
            dsimp only
            rw [lookupT_setT_ne _ _ _ _ hq, lookupT_removeT_ne _ _ _ hq]⟩
      · cases h
    · cases h
  · -- `Stat` fails: the file is created
    split at h
    · rename_i p d hp
      have hown := own_path hp hal hne
      simp only [hown] at h
      split at h
      · rename_i hpe
        cases h
        refine ⟨[], by simp, fun _ q hq => ?_⟩
        dsimp only
        rw [hpe, lookupT_setT_ne _ _ _ _ hq]
      · split at h
        · cases h
        · cases h
          exact ⟨_, rfl, fun hx => by
            have hb := hx _ (List.mem_singleton.2 rfl)
            simp [Flag.isLocal] at hb⟩
    · cases h

/-- one header: off its own path every node that was there is still there (directories may have been
added on the way), unless the step raised `alias` or `throughLink` -/
theorem stepEntry_off (c : Cfg) (hc : c.spec = false) (pkgs : List Pkg) (i : Nat) (e : Entry) (st st' : St) (b : Bool)
    (h : stepEntry c pkgs i e st = .ok (st', b)) (hwf : WFn e) :
    ∃ x, st'.flags = st.flags ++ x ∧
      (Local x → ∀ q n, q ≠ parts e.name → lookupT st.tree q = some n → lookupT st'.tree q = some n) := by
  unfold stepEntry at h
  split at h
  · split at h
    · cases h
    · rename_i t hm
      cases h
      exact ⟨[], by simp, fun _ q n _ hq => mkdirAllAux_grows _ _ _ _ _ _ hm q n hq⟩
  · rename_i hk
    have hne := hwf (by rw [hk]; decide)
    simp only [hc, Bool.false_eq_true, if_false] at h
    split at h
    · obtain ⟨st1, hr, ht, hi, hfl⟩ := addFlags_ok h
      obtain ⟨y, hy⟩ := lazyFile_flags _ _ _ _ _ _ _ hr
      refine ⟨y ++ _, by rw [hfl, hy, List.append_assoc], fun hx q n hq hl => ?_⟩
      have hal : aliasFlag st.tree e = [] := aliasFlag_local (Local_append.1 hx).2
      rw [ht, lazyFile_off c pkgs i e st st1 b hr hne hal q hq]; exact hl
    · obtain ⟨st1, hr, ht, hi, hfl⟩ := addFlags_ok h
      obtain ⟨y, hy⟩ := streamReg_flags _ _ _ _ _ _ _ hr
      refine ⟨y ++ _, by rw [hfl, hy, List.append_assoc], fun hx q n hq hl => ?_⟩
      have hal : aliasFlag st.tree e = [] := aliasFlag_local (Local_append.1 (Local_append.1 hx).2).1
      obtain ⟨y2, hy2, hoff⟩ := streamReg_off c pkgs i e st st1 b hr hne hal
      have : y2 = y := List.append_cancel_left (hy2.symm.trans hy)
      rw [ht, hoff (this ▸ (Local_append.1 hx).1) q hq]; exact hl
  · rename_i hk
    have hne := hwf (by rw [hk]; decide)
    simp only [hc, Bool.false_eq_true, if_false] at h
    obtain ⟨st1, hr, ht, hi, hfl⟩ := addFlags_ok h
    split at hr
    · obtain ⟨y, hy⟩ := lazyFile_flags _ _ _ _ _ _ _ hr
      refine ⟨y ++ _, by rw [hfl, hy, List.append_assoc], fun hx q n hq hl => ?_⟩
      have hal : aliasFlag st.tree e = [] := aliasFlag_local (Local_append.1 hx).2
      rw [ht, lazyFile_off c pkgs i e st st1 b hr hne hal q hq]; exact hl
    · obtain ⟨y, hy⟩ := streamLink_flags _ _ _ _ _ _ hr
      refine ⟨y ++ _, by rw [hfl, hy, List.append_assoc], fun hx q n hq hl => ?_⟩
      have hal : aliasFlag st.tree e = [] := aliasFlag_local (Local_append.1 hx).2
      rw [ht, streamLink_off c i e st st1 b hr hne hal q hq]; exact hl

end Apko.C07
