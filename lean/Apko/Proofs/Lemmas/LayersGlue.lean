/-
C10 — combining the merge-loop invariants (`LayersGroup`) with the canonicity of the tail
(`LayersFinish`) into the grouping theorems of `LayersStmt`.
-/
import Apko.Proofs.Lemmas.LayersGroup
import Apko.Proofs.Lemmas.LayersFinish

namespace Apko.C10
open Apko Apko.Layers

theorem finalIds_eq (o4 : Order) (st : GState) : finalIds o4 st = liveIds o4 st := rfl

theorem raw_flatten_perm {pkgs : List LPkg} {o1 o2 o3 o4 : Order} {st4 : GState}
    (hu : UniqueNames pkgs) (ho1 : IsPerm o1) (ho2 : IsPerm o2) (ho4 : IsPerm o4)
    (hs : phase4 o3 (phase3 o2 (phase2 o1 (phase1 pkgs))) (phase2 o1 (phase1 pkgs)) = .ok st4) :
    (((finalIds o4 st4).map st4.grp).flatten).Perm pkgs := by
  have := partition_st4 hu ho1 ho2 hs ho4
  rw [List.flatMap_def] at this
  exact this

theorem groupsPartition : GroupsPartition := by
  intro pkgs budget o1 o2 o3 o4 gs hu ho1 ho2 _ ho4 h
  obtain ⟨_, st4, hs, rfl⟩ := ok_shape_raw h
  exact (finishRaw_perm _ _).trans (raw_flatten_perm hu ho1 ho2 ho4 hs)

theorem groupsClosed : GroupsClosed := by
  intro pkgs budget o1 o2 o3 o4 gs hu ho1 ho2 ho3 ho4 h a ha b hb hab
  obtain ⟨_, st4, hs, rfl⟩ := ok_shape_raw h
  obtain ⟨i, hi, hai, hbi⟩ := closed_st4_mem hu ho1 ho2 ho3 hs ho4 ha hb hab
  obtain ⟨g, hg, hsub⟩ := finish_coarsens ((finalIds o4 st4).map st4.grp) budget.toNat
    (st4.grp i) (List.mem_map_of_mem (finalIds_eq o4 st4 ▸ hi))
  unfold sameGroup
  rw [List.any_eq_true]
  exact ⟨g, hg, by simp [hsub a hai, hsub b hbi]⟩

theorem raw_canon {pkgs : List LPkg} {o1 o2 o3 o4 o1' o2' o3' o4' : Order} {st4 st4' : GState}
    (hu : UniqueNames pkgs) (ho1 : IsPerm o1) (ho2 : IsPerm o2) (ho3 : IsPerm o3)
    (ho4 : IsPerm o4) (ho1' : IsPerm o1') (ho2' : IsPerm o2') (ho3' : IsPerm o3')
    (ho4' : IsPerm o4')
    (hs : phase4 o3 (phase3 o2 (phase2 o1 (phase1 pkgs))) (phase2 o1 (phase1 pkgs)) = .ok st4)
    (hs' : phase4 o3' (phase3 o2' (phase2 o1' (phase1 pkgs))) (phase2 o1' (phase1 pkgs)) = .ok st4')
    (b : Nat) :
    finish o4 b st4 = finish o4' b st4' := by
  rw [finish_eq_finishRaw, finish_eq_finishRaw]
  apply finishRaw_canon
  · exact ((raw_flatten_perm hu ho1 ho2 ho4 hs).map _).nodup_iff.mpr hu
  · exact ((raw_flatten_perm hu ho1' ho2' ho4' hs').map _).nodup_iff.mpr hu
  · intro r hr
    obtain ⟨i, hi, rfl⟩ := List.mem_map.mp hr
    exact ne_nil_st4 hu ho1 ho2 hs ho4 (finalIds_eq o4 st4 ▸ hi)
  · intro r hr
    obtain ⟨i, hi, rfl⟩ := List.mem_map.mp hr
    exact ne_nil_st4 hu ho1' ho2' hs' ho4' (finalIds_eq o4' st4' ▸ hi)
  · intro r hr
    obtain ⟨i, hi, rfl⟩ := List.mem_map.mp hr
    obtain ⟨j, hj, hp⟩ := live_groups_match hu ho1 ho2 ho3 ho1' ho2' ho3' hs hs' ho4 ho4' i
      (finalIds_eq o4 st4 ▸ hi)
    exact ⟨_, List.mem_map_of_mem (finalIds_eq o4' st4' ▸ hj), hp⟩
  · intro r hr
    obtain ⟨i, hi, rfl⟩ := List.mem_map.mp hr
    obtain ⟨j, hj, hp⟩ := live_groups_match hu ho1' ho2' ho3' ho1 ho2 ho3 hs' hs ho4' ho4 i
      (finalIds_eq o4' st4' ▸ hi)
    exact ⟨_, List.mem_map_of_mem (finalIds_eq o4 st4 ▸ hj), hp.symm⟩

theorem groupPermInvariant : GroupPermInvariant := by
  intro pkgs budget o1 o2 o3 o4 o1' o2' o3' o4' hu ho1 ho2 ho3 ho4 ho1' ho2' ho3' ho4'
  unfold groupByOriginAndSize
  split
  · rfl
  · simp only
    cases hs : phase4 o3 (phase3 o2 (phase2 o1 (phase1 pkgs))) (phase2 o1 (phase1 pkgs)) with
    | ok st4 =>
      obtain ⟨st4', hs'⟩ := (phase4_ok_iff hu ho1' ho2' ho3').2
        ((phase4_ok_iff hu ho1 ho2 ho3).1 ⟨st4, hs⟩)
      rw [hs']
      simp only [Res.bind]
      rw [raw_canon hu ho1 ho2 ho3 ho4 ho1' ho2' ho3' ho4' hs hs']
    | err =>
      have := (phase4_err_iff hu ho1' ho2' ho3').2 ((phase4_err_iff hu ho1 ho2 ho3).1 hs)
      rw [this]
      rfl
    | panic => exact absurd hs (phase4_ne_panic hu ho1 ho2)

/-- the outcome is an error exactly when the budget is negative or some replaces entry naming a
present package cannot be evaluated, and it is never a panic -/
theorem group_outcome {pkgs : List LPkg} {budget : Int} {o1 o2 o3 o4 : Order}
    (hu : UniqueNames pkgs) (ho1 : IsPerm o1) (ho2 : IsPerm o2) (ho3 : IsPerm o3) :
    (groupByOriginAndSize pkgs budget o1 o2 o3 o4 = .err ↔
      (budget < 0 ∨ replacesError pkgs = true)) ∧
    groupByOriginAndSize pkgs budget o1 o2 o3 o4 ≠ .panic := by
  unfold groupByOriginAndSize
  split
  · next hb => exact ⟨⟨fun _ => Or.inl hb, fun _ => rfl⟩, fun h => (by cases h)⟩
  · next hb =>
    simp only
    cases hs : phase4 o3 (phase3 o2 (phase2 o1 (phase1 pkgs))) (phase2 o1 (phase1 pkgs)) with
    | ok st4 =>
      have hne : replacesError pkgs = false := (phase4_ok_iff hu ho1 ho2 ho3).1 ⟨st4, hs⟩
      simp only [Res.bind]
      refine ⟨⟨fun h => (by cases h), fun h => ?_⟩, fun h => (by cases h)⟩
      rcases h with h | h
      · exact absurd h hb
      · rw [hne] at h; cases h
    | err =>
      have := (phase4_err_iff hu ho1 ho2 ho3).1 hs
      simp [Res.bind, this]
    | panic => exact absurd hs (phase4_ne_panic hu ho1 ho2)

end Apko.C10
