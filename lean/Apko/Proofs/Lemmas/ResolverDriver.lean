/-
C02 lemmas, part 7: every universe the driver reads from a request line has pairwise distinct package
ids (they are assigned consecutively by `readPkgs` / `readIndexes`), so the hypothesis `UniverseWF` of
`resolve_sound_partial` holds of every universe the correspondence suite `resolver` ever evaluates.

Core only.  For all request lines.
-/
import Apko.Driver.Resolver
import Apko.Proofs.Lemmas.ResolverState

namespace Apko.C02
open Apko Apko.Resolver Apko.Driver.Resolver

/-- ids strictly increase along the list and lie in `[lo, hi)` -/
def IdsIn (l : List Pkg) (lo hi : Nat) : Prop :=
  l.Pairwise (fun a b => a.id < b.id) ∧ ∀ p ∈ l, lo ≤ p.id ∧ p.id < hi

theorem readPkgs_ids (pin uri : Text) (n : Nat) :
    ∀ (id : Nat) (rest : List String) (ps : List Pkg) (id' : Nat) (rest' : List String),
      readPkgs pin uri n id rest = some (ps, id', rest') → id ≤ id' ∧ IdsIn ps id id' := by
  induction n with
  | zero =>
    intro id rest ps id' rest' h
    simp only [readPkgs, Option.some.injEq, Prod.mk.injEq] at h
    obtain ⟨rfl, rfl, _⟩ := h
    exact ⟨Nat.le_refl _, by simp [IdsIn]⟩
  | succ n ih =>
    intro id rest ps id' rest' h
    unfold readPkgs at h
    split at h
    · omega
    · next heq =>
      injection heq with hn
      subst hn
      split at h
      · next ps1 id1 rest1 h1 =>
        simp only [Option.some.injEq, Prod.mk.injEq] at h
        obtain ⟨rfl, rfl, _⟩ := h
        obtain ⟨hle, hpw, hin⟩ := ih _ _ _ _ _ h1
        refine ⟨by omega, ?_, ?_⟩
        · rw [List.pairwise_cons]
          refine ⟨fun p hp => ?_, hpw⟩
          have := (hin p hp).1
          simp only
          omega
        · intro p hp
          rcases List.mem_cons.mp hp with rfl | hp
          · simp only; omega
          · have := hin p hp
            omega
      · simp at h
    · simp at h

theorem readIndexes_ids (n : Nat) :
    ∀ (id : Nat) (rest : List String) (u : Universe) (id' : Nat) (rest' : List String),
      readIndexes n id rest = some (u, id', rest') → id ≤ id' ∧ IdsIn u.all id id' := by
  induction n with
  | zero =>
    intro id rest u id' rest' h
    simp only [readIndexes, Option.some.injEq, Prod.mk.injEq] at h
    obtain ⟨rfl, rfl, _⟩ := h
    exact ⟨Nat.le_refl _, by simp [IdsIn, Universe.all]⟩
  | succ n ih =>
    intro id rest u id' rest' h
    unfold readIndexes at h
    split at h
    · omega
    · next heq =>
      injection heq with hn
      subst hn
      split at h
      · next ps id1 rest1 h1 =>
        split at h
        · next is id2 rest2 h2 =>
          simp only [Option.some.injEq, Prod.mk.injEq] at h
          obtain ⟨rfl, rfl, _⟩ := h
          obtain ⟨hle1, hpw1, hin1⟩ := readPkgs_ids _ _ _ _ _ _ _ _ h1
          obtain ⟨hle2, hpw2, hin2⟩ := ih _ _ _ _ _ h2
          refine ⟨by omega, ?_, ?_⟩
          · simp only [Universe.all, List.flatMap_cons]
            rw [List.pairwise_append]
            refine ⟨hpw1, hpw2, ?_⟩
            intro a ha b hb
            have := hin1 a ha
            have := hin2 b hb
            omega
          · intro p hp
            simp only [Universe.all, List.flatMap_cons, List.mem_append] at hp
            rcases hp with hp | hp
            · have := hin1 p hp; omega
            · have := hin2 p hp; omega
        · simp at h
      · simp at h
    · simp at h

theorem IdsIn.distinct {u : Universe} {lo hi : Nat} (h : IdsIn u.all lo hi) : IdsDistinct u :=
  h.1.imp (fun hlt => Nat.ne_of_lt hlt)

/-- every architecture's universe read by the driver has pairwise distinct ids -/
theorem readArchs_ids (n : Nat) :
    ∀ (rest : List String) (archs : List (Text × Universe)) (rest' : List String),
      readArchs n rest = some (archs, rest') → ∀ a ∈ archs, IdsDistinct a.2 := by
  induction n with
  | zero =>
    intro rest archs rest' h
    simp only [readArchs, Option.some.injEq, Prod.mk.injEq] at h
    obtain ⟨rfl, _⟩ := h
    simp
  | succ n ih =>
    intro rest archs rest' h
    unfold readArchs at h
    split at h
    · omega
    · next heq =>
      injection heq with hn
      subst hn
      split at h
      · next u idu rest1 h1 =>
        split at h
        · next as rest2 h2 =>
          simp only [Option.some.injEq, Prod.mk.injEq] at h
          obtain ⟨rfl, _⟩ := h
          intro a ha
          rcases List.mem_cons.mp ha with rfl | ha
          · exact (readIndexes_ids _ _ _ _ _ _ h1).2.distinct
          · exact ih _ _ _ h2 a ha
        · simp at h
      · simp at h
    · simp at h

/-- T `driver_universe_wf`: the universe the driver resolves in (`lookupT archs self`) has pairwise
distinct ids, whatever the request line -/
theorem driver_universe_wf {n : Nat} {rest rest' : List String} {archs : List (Text × Universe)}
    {self : Text} {u : Universe} (h : readArchs n rest = some (archs, rest'))
    (hl : lookupT archs self = some u) : IdsDistinct (Driver.Resolver.cfgOf u).u :=
  readArchs_ids n rest archs rest' h (self, u) (lookupT_some_mem hl)

end Apko.C02
