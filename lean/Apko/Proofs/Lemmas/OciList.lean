/-
Helper lemmas for C12: byte-string order, sorting, association lists.
-/
import Apko.Model.Oci

namespace Apko.Oci

theorem leText_trans (a b c : Text) : leText a b = true → leText b c = true → leText a c = true := by
  simp only [leText, decide_eq_true_eq]; exact List.le_trans

theorem leText_total (a b : Text) : (leText a b || leText b a) = true := by
  simp only [leText, Bool.or_eq_true, decide_eq_true_eq]; exact List.le_total a b

theorem leKey_trans {β : Type} (a b c : Text × β) : leKey a b = true → leKey b c = true → leKey a c = true := by
  simp only [leKey, decide_eq_true_eq]; exact List.le_trans

theorem leKey_total {β : Type} (a b : Text × β) : (leKey a b || leKey b a) = true := by
  simp only [leKey, Bool.or_eq_true, decide_eq_true_eq]; exact List.le_total a.1 b.1

theorem sortText_sorted (l : List Text) : (sortText l).Pairwise (· ≤ ·) := by
  have := List.pairwise_mergeSort leText_trans leText_total l
  simpa [leText, sortText] using this

theorem sortText_perm (l : List Text) : (sortText l).Perm l := List.mergeSort_perm l leText

theorem mem_sortText {a : Text} {l : List Text} : a ∈ sortText l ↔ a ∈ l := List.mem_mergeSort

theorem sortKey_sorted {β : Type} (l : List (Text × β)) : (keysOf (l.mergeSort leKey)).Pairwise (· ≤ ·) := by
  have := List.pairwise_mergeSort (le := leKey (β := β)) leKey_trans leKey_total l
  simp only [keysOf, List.pairwise_map]
  simpa [leKey] using this

/-- sorting is independent of the order the elements arrive in (map iteration order) -/
theorem sortText_perm_eq {l l' : List Text} (h : l.Perm l') : sortText l = sortText l' := by
  apply List.Perm.eq_of_pairwise (le := fun a b => a ≤ b)
  · intro a b _ _ hab hba; exact List.le_antisymm hab hba
  · exact sortText_sorted l
  · exact sortText_sorted l'
  · exact (sortText_perm l).trans (h.trans (sortText_perm l').symm)

theorem eq_of_key_eq {β : Type} {l : List (Text × β)} (hnd : (keysOf l).Nodup) {a b : Text × β}
    (ha : a ∈ l) (hb : b ∈ l) (hk : a.1 = b.1) : a = b := by
  induction l with
  | nil => cases ha
  | cons x l ih =>
    simp only [keysOf, List.map_cons, List.nodup_cons, List.mem_map, not_exists, not_and] at hnd
    simp only [List.mem_cons] at ha hb
    rcases ha with rfl | ha <;> rcases hb with rfl | hb
    · rfl
    · exact absurd hk.symm (hnd.1 b hb)
    · exact absurd hk (hnd.1 a ha)
    · exact ih hnd.2 ha hb

theorem sortKey_perm_eq {β : Type} {l l' : List (Text × β)} (h : l.Perm l') (hnd : (keysOf l).Nodup) :
    l.mergeSort leKey = l'.mergeSort leKey := by
  apply List.Perm.eq_of_pairwise (le := fun a b => leKey a b = true)
  · intro a b ha hb hab hba
    have ha' : a ∈ l := List.mem_mergeSort.mp ha
    have hb' : b ∈ l := h.symm.mem_iff.mp (List.mem_mergeSort.mp hb)
    simp only [leKey, decide_eq_true_eq] at hab hba
    exact eq_of_key_eq hnd ha' hb' (List.le_antisymm hab hba)
  · exact List.pairwise_mergeSort leKey_trans leKey_total l
  · exact List.pairwise_mergeSort leKey_trans leKey_total l'
  · exact (List.mergeSort_perm l leKey).trans (h.trans (List.mergeSort_perm l' leKey).symm)

theorem nodup_map_of_inj_on {α β : Type} (f : α → β) (l : List α)
    (hinj : ∀ a ∈ l, ∀ b ∈ l, f a = f b → a = b) (hnd : l.Nodup) : (l.map f).Nodup := by
  induction l with
  | nil => simp
  | cons x l ih =>
    simp only [List.nodup_cons] at hnd
    simp only [List.map_cons, List.nodup_cons, List.mem_map, not_exists, not_and]
    refine ⟨?_, ih (fun a ha b hb => hinj a (List.mem_cons_of_mem _ ha) b (List.mem_cons_of_mem _ hb)) hnd.2⟩
    intro y hy hxy
    have := hinj y (List.mem_cons_of_mem _ hy) x List.mem_cons_self hxy
    exact hnd.1 (this ▸ hy)

/-! ### association-list lookup -/

theorem lookupT_mem {β : Type} {k : Text} {l : List (Text × β)} {v : β} (h : lookupT k l = some v) : (k, v) ∈ l := by
  induction l with
  | nil => simp [lookupT] at h
  | cons x l ih =>
    obtain ⟨k', v'⟩ := x
    simp only [lookupT] at h
    split at h
    · next hk => simp only [Option.some.injEq] at h; subst hk; subst h; exact List.mem_cons_self
    · exact List.mem_cons_of_mem _ (ih h)

theorem lookupT_none {β : Type} {k : Text} {l : List (Text × β)} (h : k ∉ keysOf l) : lookupT k l = none := by
  induction l with
  | nil => rfl
  | cons x l ih =>
    obtain ⟨k', v'⟩ := x
    simp only [keysOf, List.map_cons, List.mem_cons, not_or] at h
    simp only [lookupT]
    rw [if_neg (fun hk => h.1 hk.symm)]
    exact ih h.2

theorem lookupT_isSome {β : Type} {k : Text} {l : List (Text × β)} (h : k ∈ keysOf l) : ∃ v, lookupT k l = some v := by
  induction l with
  | nil => cases h
  | cons x l ih =>
    obtain ⟨k', v'⟩ := x
    simp only [keysOf, List.map_cons, List.mem_cons] at h
    simp only [lookupT]
    by_cases hk : k' = k
    · exact ⟨v', by rw [if_pos hk]⟩
    · rw [if_neg hk]
      rcases h with h | h
      · exact absurd h.symm hk
      · exact ih h

/-! ### dedup -/

theorem mem_dedup {a : Text} {l : List Text} : a ∈ dedup l ↔ a ∈ l := by
  induction l with
  | nil => simp [dedup]
  | cons x l ih =>
    simp only [dedup]
    split
    · next h => rw [ih]; constructor
                · exact List.mem_cons_of_mem _
                · intro h'; rcases List.mem_cons.mp h' with rfl | h'
                  · exact h
                  · exact h'
    · simp [ih]

theorem nodup_dedup (l : List Text) : (dedup l).Nodup := by
  induction l with
  | nil => simp [dedup]
  | cons x l ih =>
    simp only [dedup]
    split
    · exact ih
    · next h => exact List.nodup_cons.mpr ⟨fun h' => h (mem_dedup.mp h'), ih⟩

/-! ### Go map assignment on association lists -/

theorem mem_setKV {β : Type} {m : List (Text × β)} {k : Text} {v : β} {p : Text × β} :
    p ∈ setKV m k v ↔ p = (k, v) ∨ (p ∈ m ∧ p.1 ≠ k) := by
  simp [setKV, List.mem_filter]

theorem keys_setKV_nodup {β : Type} {m : List (Text × β)} (h : (keysOf m).Nodup) (k : Text) (v : β) :
    (keysOf (setKV m k v)).Nodup := by
  simp only [setKV, keysOf, List.map_cons, List.nodup_cons, List.mem_map, List.mem_filter, not_exists, not_and]
  refine ⟨fun x hx hk => ?_, ?_⟩
  · have := hx.2; simp at this; exact this hk
  · exact (List.Nodup.sublist (List.Sublist.map _ List.filter_sublist) h)

/-- an assignment survives the later ones when all later assignments to its key store the same value -/
theorem mem_foldl_setKV {β : Type} (rest : List (Text × β)) (acc : List (Text × β)) (p : Text × β)
    (hp : p ∈ acc) (hfun : ∀ y ∈ rest, y.1 = p.1 → y.2 = p.2) :
    p ∈ rest.foldl (fun acc kv => setKV acc kv.1 kv.2) acc := by
  induction rest generalizing acc with
  | nil => exact hp
  | cons y rest ih =>
    simp only [List.foldl_cons]
    apply ih
    · rw [mem_setKV]
      by_cases hk : y.1 = p.1
      · left
        have := hfun y List.mem_cons_self hk
        cases p; cases y; simp_all
      · right; exact ⟨hp, fun h => hk h.symm⟩
    · intro z hz; exact hfun z (List.mem_cons_of_mem _ hz)

theorem mem_foldl_setKV_of_functional {β : Type} (kvs : List (Text × β)) (acc : List (Text × β))
    (hfun : ∀ a ∈ kvs, ∀ b ∈ kvs, a.1 = b.1 → a.2 = b.2) :
    ∀ p ∈ kvs, p ∈ kvs.foldl (fun acc kv => setKV acc kv.1 kv.2) acc := by
  induction kvs generalizing acc with
  | nil => intro p hp; cases hp
  | cons x kvs ih =>
    intro p hp
    simp only [List.foldl_cons]
    rcases List.mem_cons.mp hp with rfl | hp
    · apply mem_foldl_setKV
      · rw [mem_setKV]; left; rfl
      · intro y hy hk; exact hfun y (List.mem_cons_of_mem _ hy) p List.mem_cons_self hk
    · exact ih _ (fun a ha b hb => hfun a (List.mem_cons_of_mem _ ha) b (List.mem_cons_of_mem _ hb)) p hp

/-- `t ++ "-" ++ s` determines `s` when the suffixes contain no dash -/
theorem dash_suffix_inj {t t' s s' : Text} (hs : '-' ∉ s) (hs' : '-' ∉ s')
    (h : t ++ '-' :: s = t' ++ '-' :: s') : s = s' := by
  have key : ∀ (a b x y : Text), '-' ∉ a → '-' ∉ b → a ++ '-' :: x = b ++ '-' :: y → a = b := by
    intro a
    induction a with
    | nil =>
      intro b x y _ hb h
      cases b with
      | nil => rfl
      | cons c b => simp at h; exact absurd (h.1 ▸ List.mem_cons_self) hb
    | cons c a ih =>
      intro b x y ha hb h
      cases b with
      | nil => simp at h; exact absurd (h.1 ▸ List.mem_cons_self) ha
      | cons d b =>
        simp only [List.cons_append, List.cons.injEq] at h
        have := ih b x y (fun h' => ha (List.mem_cons_of_mem _ h')) (fun h' => hb (List.mem_cons_of_mem _ h')) h.2
        rw [h.1, this]
  have hr := congrArg List.reverse h
  simp only [List.reverse_append, List.reverse_cons, List.append_assoc, List.singleton_append] at hr
  have := key s.reverse s'.reverse t.reverse t'.reverse (by simpa using hs) (by simpa using hs') hr
  simpa using congrArg List.reverse this

end Apko.Oci
