/-
C16 / C01 / C08: the order in which `AddInstalledPackage` lists headers does not depend on the order in
which it receives them: for tree-shaped header lists, `sortTarHeaders` of a permutation is the same list.
-/
import Apko.Proofs.Lemmas.FormatsSortNodup
namespace Apko.Formats
open Apko

theorem char_eq_of_toNat (a b : Char) (h : a.toNat = b.toNat) : a = b := by
  apply Char.ext
  apply UInt32.toNat_inj.mp
  exact h

theorem textLe_antisymm : ∀ (a b : Text), textLe a b = true → textLe b a = true → a = b := by
  intro a
  induction a with
  | nil => intro b _ h2; cases b with
    | nil => rfl
    | cons _ _ => simp [textLe] at h2
  | cons x xs ih =>
    intro b h1 h2
    cases b with
    | nil => simp [textLe] at h1
    | cons y ys =>
      simp only [textLe] at h1 h2
      by_cases hxy : x.toNat < y.toNat
      · have : ¬ y.toNat < x.toNat := by omega
        simp [hxy, this] at h2
      · by_cases hyx : y.toNat < x.toNat
        · simp [hxy, hyx] at h1
        · simp only [hxy, hyx, if_false] at h1 h2
          have : x = y := char_eq_of_toNat x y (by omega)
          rw [this, ih ys h1 h2]

theorem textLe_total : ∀ (a b : Text), (textLe a b || textLe b a) = true := by
  intro a
  induction a with
  | nil => intro b; simp [textLe]
  | cons x xs ih =>
    intro b
    cases b with
    | nil => simp [textLe]
    | cons y ys =>
      simp only [textLe]
      by_cases hxy : x.toNat < y.toNat
      · simp [hxy]
      · by_cases hyx : y.toNat < x.toNat
        · simp [hxy, hyx]
        · simp only [hxy, hyx, if_false]; exact ih ys

theorem textLe_trans : ∀ (a b c : Text), textLe a b = true → textLe b c = true → textLe a c = true := by
  intro a
  induction a with
  | nil => intro b c _ _; simp [textLe]
  | cons x xs ih =>
    intro b c h1 h2
    cases b with
    | nil => simp [textLe] at h1
    | cons y ys =>
      cases c with
      | nil => simp [textLe] at h2
      | cons z zs =>
        simp only [textLe] at h1 h2 ⊢
        by_cases hxy : x.toNat < y.toNat
        · by_cases hyz : y.toNat < z.toNat
          · have : x.toNat < z.toNat := by omega
            simp [this]
          · by_cases hzy : z.toNat < y.toNat
            · simp [hyz, hzy] at h2
            · have : x.toNat < z.toNat := by omega
              simp [this]
        · by_cases hyx : y.toNat < x.toNat
          · simp [hxy, hyx] at h1
          · simp only [hxy, hyx, if_false] at h1
            by_cases hyz : y.toNat < z.toNat
            · have : x.toNat < z.toNat := by omega
              simp [this]
            · by_cases hzy : z.toNat < y.toNat
              · simp [hyz, hzy] at h2
              · simp only [hyz, hzy, if_false] at h2
                have h3 : ¬ x.toNat < z.toNat := by omega
                have h4 : ¬ z.toNat < x.toNat := by omega
                simp only [h3, h4, if_false]
                exact ih ys zs h1 h2

/-- sorting depends only on the multiset -/
theorem sortTexts_perm (l1 l2 : List Text) (h : l1.Perm l2) : sortTexts l1 = sortTexts l2 := by
  unfold sortTexts
  apply List.Perm.eq_of_pairwise (le := fun a b => textLe a b = true)
  · intro a b _ _ h1 h2; exact textLe_antisymm a b h1 h2
  · exact List.pairwise_mergeSort (fun a b c => textLe_trans a b c) textLe_total l1
  · exact List.pairwise_mergeSort (fun a b c => textLe_trans a b c) textLe_total l2
  · exact (List.mergeSort_perm l1 textLe).trans (h.trans (List.mergeSort_perm l2 textLe).symm)

theorem TreeP.perm (hs1 hs2 : List FileRec) (ht : TreeP hs1) (hp : hs1.Perm hs2) : TreeP hs2 := by
  refine ⟨fun h hh => ht.clean h (hp.mem_iff.mpr hh),
    fun a ha b hb => ht.distinct a (hp.mem_iff.mpr ha) b (hp.mem_iff.mpr hb), ?_⟩
  intro h hh hne
  obtain ⟨d, hd, h1, h2⟩ := ht.parent h (hp.mem_iff.mpr hh) hne
  exact ⟨d, hp.mem_iff.mp hd, h1, h2⟩

theorem lookupHeader_perm (hs1 hs2 : List FileRec) (ht : TreeP hs1) (hp : hs1.Perm hs2) (n : Text) :
    lookupHeader hs1 n = lookupHeader hs2 n := by
  have ht2 := TreeP.perm hs1 hs2 ht hp
  cases h1 : lookupHeader hs1 n with
  | some h =>
    obtain ⟨hm, hn⟩ := (lookupHeader_iff hs1 ht n h).mp h1
    exact ((lookupHeader_iff hs2 ht2 n h).mpr ⟨hp.mem_iff.mp hm, hn⟩).symm
  | none =>
    cases h2 : lookupHeader hs2 n with
    | none => rfl
    | some h =>
      obtain ⟨hm, hn⟩ := (lookupHeader_iff hs2 ht2 n h).mp h2
      rw [(lookupHeader_iff hs1 ht n h).mpr ⟨hp.mem_iff.mpr hm, hn⟩] at h1
      exact absurd h1 (by simp)

theorem childrenOf_perm (hs1 hs2 : List FileRec) (hp : hs1.Perm hs2) (n : Text) :
    (childrenOf hs1 n).Perm (childrenOf hs2 n) := by
  unfold childrenOf
  exact (hp.map _).filter _

theorem sortChildren_perm (hs1 hs2 : List FileRec) (ht : TreeP hs1) (hp : hs1.Perm hs2) :
    ∀ (fuel : Nat) (c1 c2 : List Text), c1.Perm c2 → sortChildren hs1 fuel c1 = sortChildren hs2 fuel c2 := by
  have hl : lookupHeader hs1 = lookupHeader hs2 := funext (lookupHeader_perm hs1 hs2 ht hp)
  intro fuel
  induction fuel with
  | zero => intro c1 c2 _; rw [sortChildren.eq_1, sortChildren.eq_1]
  | succ fuel ih =>
    intro c1 c2 hc
    have hgo : ∀ (dirs : List (Text × FileRec)), sortChildren.go hs1 fuel dirs = sortChildren.go hs2 fuel dirs := by
      intro dirs
      induction dirs with
      | nil => rw [sortChildren.go.eq_1, sortChildren.go.eq_1]
      | cons p rest ihd =>
        obtain ⟨n, d⟩ := p
        rw [sortChildren.go.eq_2, sortChildren.go.eq_2, ihd, ih _ _ (childrenOf_perm hs1 hs2 hp n)]
    rw [sortChildren.eq_2, sortChildren.eq_2, sortTexts_perm c1 c2 hc, hl, hgo]

theorem dedupTexts_perm (l1 l2 : List Text) (h : l1.Perm l2) : (dedupTexts l1).Perm (dedupTexts l2) := by
  rw [List.perm_ext_iff_of_nodup (dedupTexts_nodup l1) (dedupTexts_nodup l2)]
  intro a
  rw [mem_dedupTexts, mem_dedupTexts, h.mem_iff]

/-- `sortTarHeaders` of a tree-shaped header list does not depend on the order of the list -/
theorem sortHeaders_perm_invariant (hs1 hs2 : List FileRec) (ht : TreeP hs1) (hp : hs1.Perm hs2) :
    sortHeaders hs1 = sortHeaders hs2 := by
  unfold sortHeaders
  simp only []
  rw [hp.length_eq]
  apply sortChildren_perm hs1 hs2 ht hp
  rw [sortTexts_perm _ _ ((dedupTexts_perm _ _ (hp.map _)).filter _)]

end Apko.Formats
