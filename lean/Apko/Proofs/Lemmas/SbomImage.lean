/-
The image and layer elements survive `Generate`'s apk loop also in the presence of embedded SBOMs,
as long as nothing else in the input claims their names or identifiers (C11, image_layers general form).
-/
import Apko.Proofs.Lemmas.SbomGen

namespace Apko.Sbom
open Apko

def protIds (o : Opts) : List Id := imageId o.imageDigest :: o.layers.map layerId
def digests (o : Opts) : List Text := o.imageDigest :: o.layers

/-- image described, every layer contained, their elements present, and only digest-named elements carry
their identifiers -/
structure Prot (o : Opts) (d : Doc) : Prop where
  desc : d.describes = [imageId o.imageDigest]
  rels : ∀ l ∈ o.layers, (⟨imageId o.imageDigest, "CONTAINS".toList, layerId l⟩ : Rel) ∈ d.rels
  ids : ∀ i ∈ protIds o, i ∈ d.ids
  names : ∀ p ∈ d.packages, p.id ∈ protIds o → p.name ∈ digests o

theorem replaceBody_prot {o : Opts} {d : Doc} {a b : Id} (h : Prot o d) (ha : a ∉ protIds o) :
    Prot o (replaceBody d a b) := by
  have hi : imageId o.imageDigest ≠ a := fun e => ha (e ▸ by simp [protIds])
  have hl : ∀ l ∈ o.layers, layerId l ≠ a := fun l hl e =>
    ha (e ▸ by simp only [protIds, List.mem_cons, List.mem_map]; exact Or.inr ⟨l, hl, rfl⟩)
  refine ⟨?_, ?_, ?_, ?_⟩
  · show replaceFirst a b d.describes = _
    rw [h.desc]; simp [replaceFirst, hi]
  · intro l hl'
    show _ ∈ d.rels.map (renameRel a b)
    refine List.mem_map.mpr ⟨_, h.rels l hl', ?_⟩
    simp [renameRel, hi, hl l hl']
  · intro i hi'
    exact replaceBody_ids_keep (h.ids i hi') (fun e => ha (e ▸ hi'))
  · intro p hp
    exact h.names p (replaceBody_packages_sub hp)

theorem replaceRound_prot {o : Opts} {name : Text} {d : Doc} {t : Id} (h : Prot o d)
    (hn : name ∉ digests o) : Prot o (replaceRound name d t) := by
  unfold replaceRound
  split
  · next q hq =>
    have hqm : q ∈ d.packages := List.mem_of_find?_eq_some hq
    have hqn : q.name = name := by simpa using List.find?_some hq
    have hqa : q.id ∉ protIds o := fun hc => hn (hqn ▸ h.names q hqm hc)
    unfold replacePackage
    split
    · exact h
    · exact replaceBody_prot h hqa
  · exact h

theorem foldl_replaceRound_prot {o : Opts} {name : Text} (l : List Id) {d : Doc} (h : Prot o d)
    (hn : name ∉ digests o) : Prot o (l.foldl (replaceRound name) d) := by
  induction l generalizing d with
  | nil => exact h
  | cons x xs ih => exact ih (replaceRound_prot h hn)

theorem processInternal_prot {o : Opts} {fs : SbomDir} {ord : List Id → List Id} {doc d : Doc} {name version : Text}
    (h : Prot o doc) (hn : name ∉ digests o) (hemb : ∀ i ∈ embeddedIds fs, i ∉ protIds o)
    (hp : processInternal fs ord doc name version = .ok d) : Prot o d := by
  unfold processInternal at hp
  split at hp
  · cases hp
  · cases hp; exact h
  · cases hp; exact h
  · cases hp; exact h
  · next emb hloc =>
    dsimp only at hp
    split at hp
    · cases hp
    · next doc1 hcp =>
      split at hp
      · cases hp
      · next lics hl =>
        cases hp
        obtain ⟨todo, _, _, _, hpk, hrl, hds, _⟩ := copyElements_spec hcp
        apply foldl_replaceRound_prot _ _ hn
        refine ⟨?_, ?_, ?_, ?_⟩
        · show doc1.describes = _; rw [hds]; exact h.desc
        · intro l hl'; show _ ∈ doc1.rels; rw [hrl]; exact List.mem_append_left _ (h.rels l hl')
        · intro i hi
          show i ∈ doc1.packages.map (·.id)
          rw [hpk, List.map_append]
          exact List.mem_append_left _ (h.ids i hi)
        · intro p hp' hpi
          have : p ∈ doc1.packages := hp'
          rw [hpk] at this
          rcases List.mem_append.mp this with hp'' | hp''
          · exact h.names p hp'' hpi
          · exact absurd hpi (hemb _ (locate_doc_embedded hloc p (List.mem_filter.mp hp'').1))

theorem addApks_prot {o : Opts} {fs : SbomDir} {ord : List Id → List Id} {nonce : Text}
    (apks : List Apk) (hname : ∀ a ∈ apks, a.name ∉ digests o) (hemb : ∀ i ∈ embeddedIds fs, i ∉ protIds o)
    (hapk : ∀ a ∈ apks, apkId nonce a ∉ protIds o) {doc d : Doc} (h : Prot o doc)
    (hp : addApks fs ord nonce apks doc = .ok d) : Prot o d := by
  induction apks generalizing doc with
  | nil => simp only [addApks] at hp; cases hp; exact h
  | cons a as ih =>
    simp only [addApks] at hp
    split at hp
    · cases hp
    · next doc' ha =>
      refine ih (fun b hb => hname b (by simp [hb])) (fun b hb => hapk b (by simp [hb])) ?_ hp
      unfold addApk at ha
      refine processInternal_prot ?_ (hname a (by simp)) hemb ha
      refine ⟨h.desc, h.rels, ?_, ?_⟩
      · intro i hi
        simp only [Doc.ids, List.map_append, List.mem_append]
        exact Or.inl (h.ids i hi)
      · intro p hp' hpi
        rcases List.mem_append.mp hp' with hp'' | hp''
        · exact h.names p hp'' hpi
        · simp only [List.mem_singleton] at hp''
          subst hp''
          exact absurd hpi (hapk a (by simp))

theorem headerBase_prot (o : Opts) : Prot o (headerBase o) := by
  refine ⟨rfl, ?_, ?_, ?_⟩
  · intro l hl; simp only [headerBase, List.mem_map]; exact ⟨l, hl, rfl⟩
  · intro i hi
    simp only [protIds, List.mem_cons, List.mem_map] at hi
    simp only [headerBase, Doc.ids, List.map_cons, List.mem_cons, layerPackages, List.map_map, List.mem_map]
    rcases hi with rfl | ⟨l, hl, rfl⟩
    · exact Or.inl rfl
    · exact Or.inr ⟨l, hl, rfl⟩
  · intro p hp _
    simp only [headerBase, List.mem_cons, layerPackages, List.mem_map] at hp
    simp only [digests, List.mem_cons]
    rcases hp with rfl | ⟨l, hl, rfl⟩
    · exact Or.inl rfl
    · exact Or.inr hl


theorem header_prot {o : Opts} (hi : o.imageDigest.isEmpty = false) (hsrc : sourceId o.vcsUrl ∉ protIds o) :
    Prot o (header o) := by
  rw [header_image hi]
  split
  · exact headerBase_prot o
  · have hb := headerBase_prot o
    refine ⟨hb.desc, ?_, ?_, ?_⟩
    · intro l hl; exact List.mem_append_left _ (hb.rels l hl)
    · intro i hi'
      simp only [addSourcePackage, Doc.ids, List.map_append, List.mem_append]
      exact Or.inl (hb.ids i hi')
    · intro p hp hpi
      simp only [addSourcePackage] at hp
      rcases List.mem_append.mp hp with hp | hp
      · exact hb.names p hp hpi
      · simp only [List.mem_singleton] at hp
        subst hp
        exact absurd hpi hsrc

end Apko.Sbom
