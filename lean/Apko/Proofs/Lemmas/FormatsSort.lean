/-
C16 / C07 helper lemmas: the order `sortTarHeaders` produces.  In its output every non-directory
record stands in the run of non-directory records that follows the record of its parent directory
(or, before the first directory record, is a top-level name) — exactly the state `ParseInstalled`
keeps in `lastDir` when it rebuilds full paths from `F:` / `R:` lines.
-/
import Apko.Proofs.Lemmas.Formats

namespace Apko.Formats
open Apko

/-- the reader's view of a header list: `cur` is the cleaned name of the last directory record seen
(`none` before the first); every non-directory record must be a child of it (of "." at the start) -/
def followsDir : Option Text → List FileRec → Bool
  | _, [] => true
  | cur, f :: rest =>
    if f.isDir then followsDir (some (pathClean f.name)) rest
    else (pathDir (pathClean f.name) == cur.getD ['.']) && followsDir cur rest

def startsDir : List FileRec → Bool
  | [] => true
  | f :: _ => f.isDir

theorem followsDir_startsDir (c1 c2 : Option Text) (b : List FileRec) (h : startsDir b = true) :
    followsDir c1 b = followsDir c2 b := by
  cases b with
  | nil => rfl
  | cons f rest => simp only [startsDir] at h; simp [followsDir, h]

theorem followsDir_append (b : List FileRec) (hb : startsDir b = true) (hb2 : followsDir none b = true) :
    ∀ (a : List FileRec) (cur : Option Text), followsDir cur a = true → followsDir cur (a ++ b) = true := by
  intro a
  induction a with
  | nil => intro cur _; rw [List.nil_append, followsDir_startsDir cur none b hb]; exact hb2
  | cons f rest ih =>
    intro cur h
    simp only [followsDir, List.cons_append] at h ⊢
    split
    · next hd => simp only [hd, if_true] at h; exact ih _ h
    · next hd =>
      simp only [hd, Bool.false_eq_true, if_false, Bool.and_eq_true] at h
      simp only [Bool.and_eq_true]
      exact ⟨h.1, ih _ h.2⟩

theorem followsDir_files (cur : Option Text) (b : List FileRec) :
    ∀ (a : List FileRec), (∀ f ∈ a, f.isDir = false ∧ pathDir (pathClean f.name) = cur.getD ['.']) →
      followsDir cur (a ++ b) = followsDir cur b := by
  intro a
  induction a with
  | nil => intro _; rfl
  | cons f rest ih =>
    intro h
    have hf := h f (by simp)
    simp only [followsDir, List.cons_append, hf.1, Bool.false_eq_true, if_false, hf.2, beq_self_eq_true,
      Bool.true_and]
    exact ih (fun x hx => h x (by simp [hx]))

theorem lookupHeader_some (hs : List FileRec) (n : Text) (h : FileRec) (e : lookupHeader hs n = some h) :
    h ∈ hs ∧ pathClean h.name = n := by
  unfold lookupHeader at e
  have h1 := List.mem_of_find?_eq_some e
  have h2 := List.find?_some e
  exact ⟨by simpa using h1, by simpa using h2⟩

theorem mem_sortTexts (l : List Text) (a : Text) : a ∈ sortTexts l ↔ a ∈ l := by
  unfold sortTexts; exact List.mem_mergeSort

theorem mem_childrenOf (hs : List FileRec) (d c : Text) (h : c ∈ childrenOf hs d) : pathDir c = d := by
  unfold childrenOf at h
  simpa using (List.mem_filter.mp h).2

/-- what is claimed of an output block: the reader-state invariant, and nothing is invented -/
def BlockOK (hs : List FileRec) (cur : Option Text) (out : List FileRec) : Prop :=
  followsDir cur out = true ∧ ∀ f ∈ out, f ∈ hs

theorem go_ok (hs : List FileRec) (fuel : Nat)
    (P : ∀ (children : List Text) (cur : Option Text) (out : List FileRec),
      (∀ c ∈ children, pathDir c = cur.getD ['.']) → sortChildren hs fuel children = some out → BlockOK hs cur out) :
    ∀ (dirs : List (Text × FileRec)) (out : List FileRec),
      (∀ p ∈ dirs, p.2.isDir = true ∧ pathClean p.2.name = p.1 ∧ p.2 ∈ hs) →
      sortChildren.go hs fuel dirs = some out → startsDir out = true ∧ BlockOK hs none out := by
  intro dirs
  induction dirs with
  | nil =>
    intro out _ h
    rw [sortChildren.go.eq_1] at h
    simp only [Option.some.injEq] at h; subst h
    exact ⟨rfl, rfl, by simp⟩
  | cons p rest ih =>
    intro out hd h
    obtain ⟨n, d⟩ := p
    rw [sortChildren.go.eq_2] at h
    split at h
    · next sub tl hsub htl =>
      simp only [Option.some.injEq] at h; subst h
      have hdir : d.isDir = true := (hd (n, d) (by simp)).1
      have hname : pathClean d.name = n := (hd (n, d) (by simp)).2.1
      have hmem : d ∈ hs := (hd (n, d) (by simp)).2.2
      obtain ⟨htl1, htl2, htl3⟩ := ih tl (fun q hq => hd q (by simp [hq])) htl
      obtain ⟨hs1, hs2⟩ := P (childrenOf hs n) (some n) sub
        (fun c hc => by simpa using mem_childrenOf hs n c hc) hsub
      refine ⟨by simp [startsDir, hdir], ?_, ?_⟩
      · simp only [List.cons_append, followsDir, hdir, if_true, hname]
        exact followsDir_append tl htl1 htl2 sub (some n) hs1
      · intro f hf
        simp only [List.mem_cons, List.mem_append] at hf
        rcases hf with (hf | hf) | hf
        · subst hf; exact hmem
        · exact hs2 f hf
        · exact htl3 f hf
    · exact absurd h (by simp)

theorem sortChildren_ok (hs : List FileRec) : ∀ (fuel : Nat) (children : List Text) (cur : Option Text)
    (out : List FileRec), (∀ c ∈ children, pathDir c = cur.getD ['.']) →
      sortChildren hs fuel children = some out → BlockOK hs cur out := by
  intro fuel
  induction fuel with
  | zero => intro children cur out _ h; rw [sortChildren.eq_1] at h; exact absurd h (by simp)
  | succ fuel ih =>
    intro children cur out hc h
    rw [sortChildren.eq_2] at h
    simp only [Option.map_eq_some_iff] at h
    obtain ⟨x, hx, rfl⟩ := h
    have hdirs : ∀ p ∈ (sortTexts children).filterMap (fun n =>
        match lookupHeader hs n with
        | some h => if h.isDir = true then some (n, h) else none
        | none => none), p.2.isDir = true ∧ pathClean p.2.name = p.1 ∧ p.2 ∈ hs := by
      intro p hp
      simp only [List.mem_filterMap] at hp
      obtain ⟨n, _, hn⟩ := hp
      split at hn
      · next h' hl =>
        split at hn
        · next hd =>
          simp only [Option.some.injEq] at hn; subst hn
          exact ⟨hd, (lookupHeader_some hs n h' hl).2, (lookupHeader_some hs n h' hl).1⟩
        · exact absurd hn (by simp)
      · exact absurd hn (by simp)
    obtain ⟨hx1, hx2, hx3⟩ := go_ok hs fuel ih _ x hdirs hx
    have hfiles : ∀ f ∈ ((sortTexts children).filterMap (lookupHeader hs)).filter (fun h => !h.isDir),
        (f.isDir = false ∧ pathDir (pathClean f.name) = cur.getD ['.']) ∧ f ∈ hs := by
      intro f hf
      simp only [List.mem_filter, List.mem_filterMap, Bool.not_eq_true'] at hf
      obtain ⟨⟨n, hn, hl⟩, hd⟩ := hf
      have := lookupHeader_some hs n f hl
      refine ⟨⟨hd, ?_⟩, this.1⟩
      rw [this.2]; exact hc n ((mem_sortTexts _ _).mp hn)
    refine ⟨?_, ?_⟩
    · rw [followsDir_files cur x _ (fun f hf => (hfiles f hf).1), followsDir_startsDir cur none x hx1]
      exact hx2
    · intro f hf
      rcases List.mem_append.mp hf with hf | hf
      · exact (hfiles f hf).2
      · exact hx3 f hf

/-- `sortTarHeaders_parent_adjacent`, reader-state form: reading the output of `sortTarHeaders` front to
back and remembering the last directory record, every non-directory record is a child of that
directory (of "." before the first directory record); and every output record is an input record. -/
theorem sortHeaders_followsDir (hs out : List FileRec) (h : sortHeaders hs = some out) :
    followsDir none out = true ∧ ∀ f ∈ out, f ∈ hs := by
  unfold sortHeaders at h
  refine sortChildren_ok hs _ _ none out ?_ h
  intro c hc
  rw [mem_sortTexts] at hc
  simpa using (List.mem_filter.mp hc).2

/-! ## the positional reading of `followsDir` -/

/-- the directory state after reading `pre` -/
def dirAfter (cur : Option Text) (pre : List FileRec) : Option Text :=
  pre.foldl (fun c r => if r.isDir then some (pathClean r.name) else c) cur

theorem followsDir_at (f : FileRec) (post : List FileRec) (hf : f.isDir = false) :
    ∀ (pre : List FileRec) (cur : Option Text), followsDir cur (pre ++ f :: post) = true →
      pathDir (pathClean f.name) = (dirAfter cur pre).getD ['.'] := by
  intro pre
  induction pre with
  | nil =>
    intro cur h
    simp only [List.nil_append, followsDir, hf, Bool.false_eq_true, if_false, Bool.and_eq_true, beq_iff_eq] at h
    exact h.1
  | cons r rest ih =>
    intro cur h
    simp only [List.cons_append, followsDir] at h
    simp only [dirAfter, List.foldl_cons]
    split at h
    · next hr => simp only [hr, if_true]; exact ih _ h
    · next hr =>
      simp only [Bool.and_eq_true] at h
      simp only [hr, Bool.false_eq_true, if_false]; exact ih _ h.2

/-- the last directory record of `pre`, with the run of non-directory records behind it -/
theorem dirAfter_spec : ∀ (pre : List FileRec) (cur : Option Text),
    ((∀ r ∈ pre, r.isDir = false) ∧ dirAfter cur pre = cur) ∨
    ∃ p1 d run, pre = p1 ++ d :: run ∧ d.isDir = true ∧ (∀ r ∈ run, r.isDir = false) ∧
      dirAfter cur pre = some (pathClean d.name) := by
  intro pre
  induction pre with
  | nil => intro cur; exact Or.inl ⟨by simp, rfl⟩
  | cons r rest ih =>
    intro cur
    simp only [dirAfter, List.foldl_cons]
    cases hr : r.isDir with
    | true =>
      simp only [if_true]
      rcases ih (some (pathClean r.name)) with ⟨h1, h2⟩ | ⟨p1, d, run, e, hd, hrun, h2⟩
      · exact Or.inr ⟨[], r, rest, rfl, hr, h1, h2⟩
      · exact Or.inr ⟨r :: p1, d, run, by simp [e], hd, hrun, h2⟩
    | false =>
      simp only [Bool.false_eq_true, if_false]
      rcases ih cur with ⟨h1, h2⟩ | ⟨p1, d, run, e, hd, hrun, h2⟩
      · refine Or.inl ⟨?_, h2⟩
        intro x hx
        rcases List.mem_cons.mp hx with hx | hx
        · subst hx; exact hr
        · exact h1 x hx
      · exact Or.inr ⟨r :: p1, d, run, by simp [e], hd, hrun, h2⟩

/-- `sortTarHeaders_parent_adjacent`, positional form: a non-directory record of the output is either
preceded by the record of its parent directory with only non-directory records in between, or stands
before every directory record and is a top-level name. -/
theorem sortHeaders_parent_adjacent (hs out : List FileRec) (h : sortHeaders hs = some out)
    (pre post : List FileRec) (f : FileRec) (e : out = pre ++ f :: post) (hf : f.isDir = false) :
    (∃ p1 d run, pre = p1 ++ d :: run ∧ d.isDir = true ∧ (∀ r ∈ run, r.isDir = false) ∧
        pathClean d.name = pathDir (pathClean f.name)) ∨
    ((∀ r ∈ pre, r.isDir = false) ∧ pathDir (pathClean f.name) = ['.']) := by
  have h1 := (sortHeaders_followsDir hs out h).1
  rw [e] at h1
  have h2 := followsDir_at f post hf pre none h1
  rcases dirAfter_spec pre none with ⟨a, b⟩ | ⟨p1, d, run, e', hd, hrun, b⟩
  · right; rw [b] at h2; exact ⟨a, h2⟩
  · left; rw [b] at h2; exact ⟨p1, d, run, e', hd, hrun, h2.symm⟩

/-! ## evaluating `sortHeaders` on literals

`sortChildren` is compiled by well-founded recursion, so `decide` cannot run it; these equations let a
proof script evaluate it level by level (used for the `example`s that show hypotheses are satisfiable). -/

theorem sortTexts_sorted (l : List Text) (h : l.Pairwise (fun a b => textLe a b = true)) : sortTexts l = l :=
  List.mergeSort_of_pairwise h

def filesOf (hs : List FileRec) (sorted : List Text) : List FileRec :=
  (sorted.filterMap (lookupHeader hs)).filter (fun h => !h.isDir)

def dirsOf (hs : List FileRec) (sorted : List Text) : List (Text × FileRec) :=
  sorted.filterMap fun n => match lookupHeader hs n with
    | some h => if h.isDir then some (n, h) else none
    | none => none

theorem sortChildren_eval (hs : List FileRec) (fuel : Nat) (children : List Text) (out : List FileRec)
    (h1 : children.Pairwise (fun a b => textLe a b = true))
    (h4 : sortChildren.go hs fuel (dirsOf hs children) = some out) :
    sortChildren hs (fuel + 1) children = some (filesOf hs children ++ out) := by
  rw [sortChildren.eq_2, sortTexts_sorted children h1]
  show Option.map _ (sortChildren.go hs fuel (dirsOf hs children)) = _
  rw [h4]
  simp [filesOf]

theorem sortChildren_evalSorted (hs : List FileRec) (fuel : Nat) (children sorted : List Text) (out : List FileRec)
    (h1 : sortTexts children = sorted)
    (h4 : sortChildren.go hs fuel (dirsOf hs sorted) = some out) :
    sortChildren hs (fuel + 1) children = some (filesOf hs sorted ++ out) := by
  rw [sortChildren.eq_2, h1]
  show Option.map _ (sortChildren.go hs fuel (dirsOf hs sorted)) = _
  rw [h4]
  simp [filesOf]

theorem go_eval_cons (hs : List FileRec) (fuel : Nat) (n : Text) (h : FileRec) (rest : List (Text × FileRec))
    (sub tl : List FileRec) (h1 : sortChildren hs fuel (childrenOf hs n) = some sub)
    (h2 : sortChildren.go hs fuel rest = some tl) :
    sortChildren.go hs fuel ((n, h) :: rest) = some (h :: sub ++ tl) := by
  rw [sortChildren.go.eq_2, h1, h2]

theorem sortHeaders_nil : sortHeaders [] = some [] := by
  unfold sortHeaders
  simp only []
  rw [show (dedupTexts (([] : List FileRec).map fun h => pathDir (pathClean h.name))).filter
      (fun d => pathDir d = ['.']) = [] by decide, sortTexts_sorted _ (by decide)]
  exact sortChildren_eval [] _ [] [] (by decide) (sortChildren.go.eq_1 _ _)

end Apko.Formats
