/-
C10 — phases 1–4 of `groupByOriginAndSize` (everything before `finish`).

Main results (all about the state `st4` with
`phase4 o3 (phase3 o2 st2) st2 = .ok st4`, `st2 = phase2 o1 (phase1 pkgs)`):

* `Inv pkgs st`              the partition invariant of a state (`Share st a b` = same index)
* `inv_phase2`               it holds after phase 1 + phase 2
* `rmOk_phase3`              `replaceMap` is exactly `name ↦ replaces` for non-empty replaces
* `mergeStep_case`           outcome analysis of one `mergeStep` under the invariant
* `mergeStep_inv`            the invariant is preserved by every successful `mergeStep`
* `inv_st4`                  hence it holds for `st4`
* `liveIds`, `collect_eq`    the ids `collect` iterates over; `collect = liveIds.map (mkGrp ∘ grp)`
* D1: `partition_st4` (`liveIds_partition`), `nodup_liveIds`, `ne_nil_st4`, `liveIds_perm`
* D2: `closed_st4`, `closed_st4_mem`
* D3: `share_iff_conn_st4`, `mem_iff_conn_st4`, `live_groups_match`
* D4: `phase4_ne_panic`, `phase4_err_iff`, `phase4_ok_iff`
-/
import Apko.Proofs.Lemmas.LayersStmt

namespace Apko.C10
open Apko Apko.Layers

/-! ## generic fold lemmas -/

theorem foldl_inv {α β : Type} {f : α → β → α} {P : α → Prop} {l : List β} {a : α}
    (h0 : P a) (hs : ∀ acc x, x ∈ l → P acc → P (f acc x)) : P (l.foldl f a) := by
  induction l generalizing a with
  | nil => exact h0
  | cons x l ih =>
    simp only [List.foldl_cons]
    exact ih (hs a x (by simp) h0) (fun acc y hy => hs acc y (by simp [hy]))

/-- if some element's step establishes `Q` and every step keeps `Q`, the fold ends in `Q` -/
theorem foldl_reach {α β : Type} {f : α → β → α} {Q : α → Prop} {l : List β} {a : α} {x : β}
    (hx : x ∈ l) (he : ∀ acc, Q (f acc x)) (hk : ∀ acc y, Q acc → Q (f acc y)) :
    Q (l.foldl f a) := by
  obtain ⟨s, t, rfl⟩ := List.append_of_mem hx
  rw [List.foldl_append, List.foldl_cons]
  exact foldl_inv (he _) (fun acc y _ h => hk acc y h)

theorem foldRes_inv {α β : Type} {f : α → β → Res α} {P : α → Prop} {l : List β} {a a' : α}
    (hs : ∀ s b s', b ∈ l → P s → f s b = .ok s' → P s')
    (h0 : P a) (h : foldRes f a l = .ok a') : P a' := by
  induction l generalizing a with
  | nil => simp [foldRes] at h; exact h ▸ h0
  | cons b l ih =>
    simp only [foldRes] at h
    cases hf : f a b with
    | ok s =>
      rw [hf] at h
      exact ih (fun s b s' hb => hs s b s' (by simp [hb])) (hs a b s (by simp) h0 hf) h
    | err => rw [hf] at h; simp [Res.bind] at h
    | panic => rw [hf] at h; simp [Res.bind] at h

/-- a successful `foldRes` executed the step of every list element, in a state satisfying the
invariant, and the rest of the run is again a successful `foldRes` over list elements -/
theorem foldRes_split {α β : Type} {f : α → β → Res α} {P : α → Prop} {l : List β} {a a' : α}
    {b : β}
    (hs : ∀ s b s', b ∈ l → P s → f s b = .ok s' → P s')
    (h0 : P a) (h : foldRes f a l = .ok a') (hb : b ∈ l) :
    ∃ a1 a2 l2, P a1 ∧ f a1 b = .ok a2 ∧ (∀ x ∈ l2, x ∈ l) ∧ foldRes f a2 l2 = .ok a' := by
  induction l generalizing a with
  | nil => simp at hb
  | cons c l ih =>
    simp only [foldRes] at h
    cases hf : f a c with
    | ok s =>
      rw [hf] at h
      simp only [Res.bind] at h
      rcases List.mem_cons.1 hb with rfl | hb'
      · exact ⟨a, s, l, h0, hf, fun x hx => by simp [hx], h⟩
      · obtain ⟨a1, a2, l2, h1, h2, h3, h4⟩ :=
          ih (fun s b s' hb => hs s b s' (by simp [hb])) (hs a c s (by simp) h0 hf) h hb'
        exact ⟨a1, a2, l2, h1, h2, fun x hx => by simp [h3 x hx], h4⟩
    | err => rw [hf] at h; simp [Res.bind] at h
    | panic => rw [hf] at h; simp [Res.bind] at h

/-- `foldRes` never panics when no step panics in a state satisfying the invariant -/
theorem foldRes_ne_panic {α β : Type} {f : α → β → Res α} {P : α → Prop} {l : List β} {a : α}
    (hs : ∀ s b s', b ∈ l → P s → f s b = .ok s' → P s')
    (hp : ∀ s b, b ∈ l → P s → f s b ≠ .panic)
    (h0 : P a) : foldRes f a l ≠ .panic := by
  induction l generalizing a with
  | nil => simp [foldRes]
  | cons c l ih =>
    simp only [foldRes]
    cases hf : f a c with
    | ok s =>
      simp only [Res.bind]
      exact ih (fun s b s' hb => hs s b s' (by simp [hb])) (fun s b hb => hp s b (by simp [hb]))
        (hs a c s (by simp) h0 hf)
    | err => simp [Res.bind]
    | panic => exact absurd hf (hp a c (by simp) h0)

/-- a `foldRes` that ends in `.err` has a step returning `.err` in a state satisfying the invariant -/
theorem foldRes_err {α β : Type} {f : α → β → Res α} {P : α → Prop} {l : List β} {a : α}
    (hs : ∀ s b s', b ∈ l → P s → f s b = .ok s' → P s')
    (h0 : P a) (h : foldRes f a l = .err) : ∃ s b, b ∈ l ∧ P s ∧ f s b = .err := by
  induction l generalizing a with
  | nil => simp [foldRes] at h
  | cons c l ih =>
    simp only [foldRes] at h
    cases hf : f a c with
    | ok s =>
      rw [hf] at h
      simp only [Res.bind] at h
      obtain ⟨s', b, hb, h1, h2⟩ :=
        ih (fun s b s' hb => hs s b s' (by simp [hb])) (hs a c s (by simp) h0 hf) h
      exact ⟨s', b, by simp [hb], h1, h2⟩
    | err => exact ⟨a, c, by simp, h0, hf⟩
    | panic => rw [hf] at h; simp [Res.bind] at h

/-! ## association lists -/

theorem aget_aset {α : Type} (m : List (Text × α)) (k k' : Text) (v : α) :
    aget (aset m k v) k' = if k = k' then some v else aget m k' := by
  induction m with
  | nil => simp [aset, aget]
  | cons e m ih =>
    obtain ⟨k0, v0⟩ := e
    simp only [aset]
    by_cases h : k0 = k
    · subst h
      simp only [if_true, aget]
      by_cases h2 : k0 = k' <;> simp [h2]
    · simp only [h, if_false, aget, ih]
      by_cases h2 : k = k'
      · subst h2; simp [h]
      · simp [h2]

theorem mem_akeys_iff {α : Type} (m : List (Text × α)) (k : Text) :
    k ∈ akeys m ↔ ∃ v, aget m k = some v := by
  induction m with
  | nil => simp [akeys, aget]
  | cons e m ih =>
    obtain ⟨k0, v0⟩ := e
    simp only [akeys, List.map_cons, List.mem_cons, aget] at ih ⊢
    by_cases h : k0 = k
    · subst h; simp
    · simp only [h, if_false]
      rw [← ih]
      constructor
      · rintro (h' | h')
        · exact absurd h'.symm h
        · exact h'
      · exact Or.inr

/-! ## dedupNat -/

theorem mem_dedupNat (seen l : List Nat) (i : Nat) :
    i ∈ dedupNat seen l ↔ i ∈ l ∧ i ∉ seen := by
  induction l generalizing seen with
  | nil => simp [dedupNat]
  | cons j l ih =>
    simp only [dedupNat]
    by_cases hj : j ∈ seen
    · simp only [hj, if_true, ih, List.mem_cons]
      constructor
      · rintro ⟨h1, h2⟩; exact ⟨Or.inr h1, h2⟩
      · rintro ⟨h1 | h1, h2⟩
        · subst h1; exact absurd hj h2
        · exact ⟨h1, h2⟩
    · simp only [hj, if_false, List.mem_cons, ih]
      constructor
      · rintro (h | ⟨h1, h2⟩)
        · subst h; exact ⟨Or.inl rfl, hj⟩
        · exact ⟨Or.inr h1, fun h => h2 (Or.inr h)⟩
      · rintro ⟨h1 | h1, h2⟩
        · exact Or.inl h1
        · by_cases hij : i = j
          · exact Or.inl hij
          · refine Or.inr ⟨h1, ?_⟩
            rintro (h | h)
            · exact hij h
            · exact h2 h

theorem nodup_dedupNat (seen l : List Nat) : (dedupNat seen l).Nodup := by
  induction l generalizing seen with
  | nil => simp [dedupNat]
  | cons j l ih =>
    simp only [dedupNat]
    by_cases hj : j ∈ seen
    · simp only [hj, if_true]; exact ih seen
    · simp only [hj, if_false, List.nodup_cons]
      refine ⟨?_, ih _⟩
      intro h
      have := (mem_dedupNat (j :: seen) l j).1 h
      simp at this

/-! ## the heap -/

theorem getD_snoc (h : List (List LPkg)) (m : List LPkg) (j : Nat) :
    (h ++ [m]).getD j [] = if j = h.length then m else h.getD j [] := by
  simp only [List.getD_eq_getElem?_getD, List.getElem?_append]
  by_cases h1 : j < h.length
  · have : j ≠ h.length := by omega
    simp [h1, this]
  · by_cases h2 : j = h.length
    · subst h2; simp
    · have h3 : h.length ≤ j := by omega
      have h4 : j - h.length ≠ 0 := by omega
      simp [h1, h2]
      cases hj : j - h.length with
      | zero => exact absurd hj h4
      | succ n => simp

theorem getD_modify (h : List (List LPkg)) (f : List LPkg → List LPkg) (i j : Nat)
    (hi : i < h.length) :
    (h.modify i f).getD j [] = if j = i then f (h.getD i []) else h.getD j [] := by
  simp only [List.getD_eq_getElem?_getD, List.getElem?_modify]
  by_cases h1 : j = i
  · subst h1
    simp [List.getElem?_eq_getElem hi]
  · have : ¬ i = j := fun h => h1 h.symm
    simp only [this, h1, if_false]
    cases h[j]? <;> simp

theorem getD_ne_nil_lt {h : List (List LPkg)} {j : Nat} (hne : h.getD j [] ≠ []) : j < h.length := by
  by_cases h1 : j < h.length
  · exact h1
  · exfalso; apply hne
    simp [List.getD_eq_getElem?_getD, List.getElem?_eq_none (by omega : h.length ≤ j)]

/-! ## repoint -/

theorem repoint_heap (st : GState) (id : Nat) (ms : List LPkg) :
    (repoint st id ms).heap = st.heap := by
  unfold repoint
  exact foldl_inv (P := fun s : GState => s.heap = st.heap) rfl (fun acc x _ h => h)

theorem repoint_byPackage (st : GState) (id : Nat) (ms : List LPkg) (k : Text) :
    aget (repoint st id ms).byPackage k =
      if k ∈ ms.map (·.name) then some id else aget st.byPackage k := by
  induction ms generalizing st with
  | nil => simp [repoint]
  | cons p ms ih =>
    have : repoint st id (p :: ms) = repoint
        ⟨st.heap, aset st.byOrigin p.origin id, aset st.byPackage p.name id⟩ id ms := by
      simp [repoint]
    rw [this, ih, aget_aset]
    simp only [List.map_cons, List.mem_cons]
    by_cases h1 : k ∈ ms.map (·.name)
    · simp [h1]
    · by_cases h2 : p.name = k
      · simp [h2]
      · have : ¬ k = p.name := fun h => h2 h.symm
        simp [h1, h2, this]

theorem repoint_byOrigin (st : GState) (id : Nat) (ms : List LPkg) (k : Text) :
    aget (repoint st id ms).byOrigin k =
      if k ∈ ms.map (·.origin) then some id else aget st.byOrigin k := by
  induction ms generalizing st with
  | nil => simp [repoint]
  | cons p ms ih =>
    have : repoint st id (p :: ms) = repoint
        ⟨st.heap, aset st.byOrigin p.origin id, aset st.byPackage p.name id⟩ id ms := by
      simp [repoint]
    rw [this, ih, aget_aset]
    simp only [List.map_cons, List.mem_cons]
    by_cases h1 : k ∈ ms.map (·.origin)
    · simp [h1]
    · by_cases h2 : p.origin = k
      · simp [h2]
      · have : ¬ k = p.origin := fun h => h2 h.symm
        simp [h1, h2, this]

/-! ## connectivity -/

/-- one grouping edge between two packages of the image: same origin, or a version-checked
replaces edge in either direction -/
def Rel (pkgs : List LPkg) (a b : LPkg) : Prop :=
  a ∈ pkgs ∧ b ∈ pkgs ∧
    (a.origin = b.origin ∨ replacesEdge pkgs a b = true ∨ replacesEdge pkgs b a = true)

/-- reflexive-transitive closure of `Rel` -/
inductive Conn (pkgs : List LPkg) : LPkg → LPkg → Prop
  | refl (a : LPkg) : Conn pkgs a a
  | tail {a b c : LPkg} : Conn pkgs a b → Rel pkgs b c → Conn pkgs a c

theorem Rel.symm {pkgs : List LPkg} {a b : LPkg} (h : Rel pkgs a b) : Rel pkgs b a := by
  obtain ⟨ha, hb, h | h | h⟩ := h
  · exact ⟨hb, ha, Or.inl h.symm⟩
  · exact ⟨hb, ha, Or.inr (Or.inr h)⟩
  · exact ⟨hb, ha, Or.inr (Or.inl h)⟩

theorem Conn.single {pkgs : List LPkg} {a b : LPkg} (h : Rel pkgs a b) : Conn pkgs a b :=
  .tail (.refl a) h

theorem Conn.trans {pkgs : List LPkg} {a b c : LPkg} (h1 : Conn pkgs a b) (h2 : Conn pkgs b c) :
    Conn pkgs a c := by
  induction h2 with
  | refl => exact h1
  | tail _ hr ih => exact .tail ih hr

theorem Conn.symm {pkgs : List LPkg} {a b : LPkg} (h : Conn pkgs a b) : Conn pkgs b a := by
  induction h with
  | refl => exact .refl _
  | tail _ hr ih => exact (Conn.single hr.symm).trans ih

theorem Conn.mem_right {pkgs : List LPkg} {a b : LPkg} (h : Conn pkgs a b) (ha : a ∈ pkgs) :
    b ∈ pkgs := by
  induction h with
  | refl => exact ha
  | tail _ hr _ => exact hr.2.1

/-! ## the partition invariant -/

/-- The partition invariant of a grouping state relative to the package list.
An index `i` is *live* when some origin maps to it.  Live groups consist of packages of the
image, are duplicate-free, every member's origin (and name) points back to the group, and all
members are connected by origin / replaces edges.  `byPackage` is `byOrigin ∘ origin` on the
packages of the image and has no other keys. -/
structure Inv (pkgs : List LPkg) (st : GState) : Prop where
  mem   : ∀ p ∈ pkgs, ∃ i, aget st.byOrigin p.origin = some i ∧ p ∈ st.grp i
  live  : ∀ o i, aget st.byOrigin o = some i →
            ∀ q ∈ st.grp i, q ∈ pkgs ∧ aget st.byOrigin q.origin = some i
  nodup : ∀ o i, aget st.byOrigin o = some i → (st.grp i).Nodup
  keysO : ∀ o i, aget st.byOrigin o = some i → ∃ p ∈ pkgs, p.origin = o
  conn  : ∀ o i, aget st.byOrigin o = some i → ∀ p ∈ st.grp i, ∀ q ∈ st.grp i, Conn pkgs p q
  byPkg : ∀ p ∈ pkgs, aget st.byPackage p.name = aget st.byOrigin p.origin
  keysP : ∀ k i, aget st.byPackage k = some i → ∃ p ∈ pkgs, p.name = k

namespace Inv
variable {pkgs : List LPkg} {st : GState}

/-- a package of the image is in the live group `i` iff its origin maps to `i` -/
theorem mem_grp_iff (h : Inv pkgs st) {o : Text} {i : Nat} (hi : aget st.byOrigin o = some i)
    {p : LPkg} (hp : p ∈ pkgs) : p ∈ st.grp i ↔ aget st.byOrigin p.origin = some i := by
  constructor
  · intro hm; exact (h.live o i hi p hm).2
  · intro ho
    obtain ⟨j, hj, hm⟩ := h.mem p hp
    rw [ho] at hj; cases hj; exact hm

theorem ne_nil (h : Inv pkgs st) {o : Text} {i : Nat} (hi : aget st.byOrigin o = some i) :
    st.grp i ≠ [] := by
  obtain ⟨p, hp, rfl⟩ := h.keysO o i hi
  have := (h.mem_grp_iff hi hp).2 hi
  intro h0; rw [h0] at this; simp at this

theorem lt (h : Inv pkgs st) {o : Text} {i : Nat} (hi : aget st.byOrigin o = some i) :
    i < st.heap.length := getD_ne_nil_lt (h.ne_nil hi)

/-- the index of a package of the image -/
theorem idx (h : Inv pkgs st) {p : LPkg} (hp : p ∈ pkgs) :
    ∃ i, aget st.byPackage p.name = some i ∧ aget st.byOrigin p.origin = some i ∧ p ∈ st.grp i := by
  obtain ⟨i, hi, hm⟩ := h.mem p hp
  exact ⟨i, (h.byPkg p hp).trans hi, hi, hm⟩

/-- every `byPackage` value is live, and the key is the name of a member -/
theorem pkgLive (h : Inv pkgs st) {k : Text} {i : Nat}
    (hk : aget st.byPackage k = some i) :
    ∃ p ∈ pkgs, p.name = k ∧ aget st.byOrigin p.origin = some i ∧ p ∈ st.grp i := by
  obtain ⟨p, hp, rfl⟩ := h.keysP k i hk
  obtain ⟨j, h1, h2, h3⟩ := h.idx hp
  rw [hk] at h1; cases h1
  exact ⟨p, hp, rfl, h2, h3⟩

end Inv

/-- packages of the image are determined by their name -/
theorem eq_of_name {pkgs : List LPkg} (hu : UniqueNames pkgs) {a b : LPkg} (ha : a ∈ pkgs)
    (hb : b ∈ pkgs) (h : a.name = b.name) : a = b := by
  unfold UniqueNames at hu
  induction pkgs with
  | nil => simp at ha
  | cons p l ih =>
    simp only [List.map_cons, List.nodup_cons, List.mem_map, not_exists, not_and] at hu
    rcases List.mem_cons.1 ha with rfl | ha' <;> rcases List.mem_cons.1 hb with rfl | hb'
    · rfl
    · exact absurd h.symm (hu.1 b hb')
    · exact absurd h (hu.1 a ha')
    · exact ih hu.2 ha' hb'

theorem nodup_of_uniqueNames {pkgs : List LPkg} (hu : UniqueNames pkgs) : pkgs.Nodup := by
  unfold UniqueNames at hu
  induction pkgs with
  | nil => simp
  | cons p l ih =>
    simp only [List.map_cons, List.nodup_cons, List.mem_map, not_exists, not_and] at hu
    simp only [List.nodup_cons]
    exact ⟨fun hm => hu.1 p hm rfl, ih hu.2⟩

/-! ## phase 1 -/

/-- invariant of the first loop, relative to the processed prefix `l` -/
structure Inv1 (l : List LPkg) (st : GState) : Prop where
  mem   : ∀ p ∈ l, ∃ i, aget st.byOrigin p.origin = some i ∧ p ∈ st.grp i
  live  : ∀ o i, aget st.byOrigin o = some i → ∀ q ∈ st.grp i, q ∈ l ∧ q.origin = o
  nodup : ∀ o i, aget st.byOrigin o = some i → (st.grp i).Nodup
  keysO : ∀ o i, aget st.byOrigin o = some i → ∃ p ∈ l, p.origin = o
  lt    : ∀ o i, aget st.byOrigin o = some i → i < st.heap.length
  bp    : st.byPackage = []

theorem Inv1.inj {l : List LPkg} {st : GState} (h : Inv1 l st) {o o' : Text} {i : Nat}
    (h1 : aget st.byOrigin o = some i) (h2 : aget st.byOrigin o' = some i) : o = o' := by
  obtain ⟨p, hp, rfl⟩ := h.keysO o i h1
  obtain ⟨j, hj, hm⟩ := h.mem p hp
  rw [h1] at hj; cases hj
  exact (h.live o' i h2 p hm).2

theorem addPkg_inv1 {l : List LPkg} {st : GState} {p : LPkg} (h : Inv1 l st) (hp : p ∉ l) :
    Inv1 (l ++ [p]) (addPkg st p) := by
  unfold addPkg
  cases ho : aget st.byOrigin p.origin with
  | some i =>
    simp only
    have hi := h.lt _ _ ho
    have hg : ∀ j, (GState.mk (st.heap.modify i (· ++ [p])) st.byOrigin st.byPackage).grp j =
        if j = i then st.grp i ++ [p] else st.grp j := by
      intro j; simp only [GState.grp]; exact getD_modify _ _ _ _ hi
    refine ⟨?_, ?_, ?_, ?_, ?_, h.bp⟩
    · intro q hq
      rcases List.mem_append.1 hq with hq | hq
      · obtain ⟨j, hj, hm⟩ := h.mem q hq
        refine ⟨j, hj, ?_⟩
        rw [hg]; split
        · next e => subst e; exact List.mem_append_left _ hm
        · exact hm
      · simp only [List.mem_singleton] at hq; subst hq
        exact ⟨i, ho, by rw [hg]; simp⟩
    · intro o j hj q hq
      simp only at hj
      rw [hg] at hq
      split at hq
      · next e =>
        subst e
        rcases List.mem_append.1 hq with hq | hq
        · have := h.live o j hj q hq
          exact ⟨List.mem_append_left _ this.1, this.2⟩
        · simp only [List.mem_singleton] at hq; subst hq
          exact ⟨by simp, h.inj ho hj⟩
      · have := h.live o j hj q hq
        exact ⟨List.mem_append_left _ this.1, this.2⟩
    · intro o j hj
      simp only at hj
      rw [hg]; split
      · next e =>
        subst e
        rw [List.nodup_append]
        refine ⟨h.nodup o j hj, by simp, ?_⟩
        intro a ha b hb
        simp only [List.mem_singleton] at hb; subst hb
        intro e; subst e
        exact hp (h.live o j hj a ha).1
      · exact h.nodup o j hj
    · intro o j hj
      obtain ⟨q, hq, e⟩ := h.keysO o j hj
      exact ⟨q, List.mem_append_left _ hq, e⟩
    · intro o j hj
      simp only [List.length_modify]
      exact h.lt o j hj
  | none =>
    simp only
    have hg : ∀ j, (GState.mk (st.heap ++ [[p]]) (aset st.byOrigin p.origin st.heap.length)
        st.byPackage).grp j = if j = st.heap.length then [p] else st.grp j := by
      intro j; simp only [GState.grp]; exact getD_snoc _ _ _
    have ha : ∀ o, aget (aset st.byOrigin p.origin st.heap.length) o =
        if p.origin = o then some st.heap.length else aget st.byOrigin o :=
      fun o => aget_aset _ _ _ _
    refine ⟨?_, ?_, ?_, ?_, ?_, h.bp⟩
    · intro q hq
      rcases List.mem_append.1 hq with hq | hq
      · obtain ⟨j, hj, hm⟩ := h.mem q hq
        have hne : ¬ p.origin = q.origin := by
          intro e; rw [e, hj] at ho; cases ho
        refine ⟨j, by simp only [ha, hne, if_false]; exact hj, ?_⟩
        have := h.lt _ _ hj
        rw [hg, if_neg (by omega)]; exact hm
      · simp only [List.mem_singleton] at hq; subst hq
        exact ⟨st.heap.length, by simp [ha], by rw [hg]; simp⟩
    · intro o j hj q hq
      simp only [ha] at hj
      split at hj
      · next e =>
        cases hj
        rw [hg] at hq; simp only [if_true, List.mem_singleton] at hq; subst hq
        exact ⟨by simp, e⟩
      · have hlt := h.lt _ _ hj
        rw [hg, if_neg (by omega)] at hq
        have := h.live o j hj q hq
        exact ⟨List.mem_append_left _ this.1, this.2⟩
    · intro o j hj
      simp only [ha] at hj
      split at hj
      · cases hj; rw [hg]; simp
      · have hlt := h.lt _ _ hj
        rw [hg, if_neg (by omega)]
        exact h.nodup o j hj
    · intro o j hj
      simp only [ha] at hj
      split at hj
      · next e => exact ⟨p, by simp, e⟩
      · obtain ⟨q, hq, e⟩ := h.keysO o j hj
        exact ⟨q, List.mem_append_left _ hq, e⟩
    · intro o j hj
      simp only [ha] at hj
      simp only [List.length_append, List.length_singleton]
      split at hj
      · cases hj; omega
      · have := h.lt _ _ hj; omega

theorem foldl_addPkg_inv1 (l done : List LPkg) (st : GState) (h : Inv1 done st)
    (hn : (done ++ l).Nodup) : Inv1 (done ++ l) (l.foldl addPkg st) := by
  induction l generalizing done st with
  | nil => simpa using h
  | cons p l ih =>
    simp only [List.foldl_cons]
    have hp : p ∉ done := by
      intro hm
      rw [List.nodup_append] at hn
      exact hn.2.2 p hm p (by simp) rfl
    have := ih (done ++ [p]) (addPkg st p) (addPkg_inv1 h hp) (by simpa using hn)
    simpa using this

theorem inv1_phase1 {pkgs : List LPkg} (hn : pkgs.Nodup) : Inv1 pkgs (phase1 pkgs) := by
  have h0 : Inv1 [] ⟨[], [], []⟩ :=
    ⟨by simp, by simp [aget], by simp [aget], by simp [aget], by simp [aget], rfl⟩
  unfold phase1
  simpa using foldl_addPkg_inv1 pkgs [] _ h0 (by simpa using hn)

/-! ## phase 2 -/

theorem phase2_sound {pkgs : List LPkg} {st : GState} (o1 : Order) (h : Inv1 pkgs st) :
    ∀ k i, aget (phase2 o1 st).byPackage k = some i →
      ∃ p ∈ pkgs, p.name = k ∧ aget st.byOrigin p.origin = some i := by
  unfold phase2; simp only
  apply foldl_inv (P := fun bp => ∀ k i, aget bp k = some i →
      ∃ p ∈ pkgs, p.name = k ∧ aget st.byOrigin p.origin = some i)
  · simp [aget]
  · intro acc o _ hacc
    cases ho : aget st.byOrigin o with
    | none => exact hacc
    | some i =>
      simp only
      apply foldl_inv (P := fun bp => ∀ k i, aget bp k = some i →
          ∃ p ∈ pkgs, p.name = k ∧ aget st.byOrigin p.origin = some i)
      · exact hacc
      · intro acc p hp hacc k j hk
        rw [aget_aset] at hk
        split at hk
        · next e =>
          cases hk
          have := h.live o _ ho p hp
          exact ⟨p, this.1, e, by rw [this.2]; exact ho⟩
        · exact hacc k j hk

theorem phase2_complete {pkgs : List LPkg} {st : GState} {o1 : Order} (ho1 : IsPerm o1)
    (h : Inv1 pkgs st) {p : LPkg} (hp : p ∈ pkgs) :
    ∃ j, aget (phase2 o1 st).byPackage p.name = some j := by
  obtain ⟨i, hi, hm⟩ := h.mem p hp
  have hkeep : ∀ (acc : List (Text × Nat)) (q : LPkg) (i' : Nat), (∃ j, aget acc p.name = some j) →
      ∃ j, aget (aset acc q.name i') p.name = some j := by
    intro acc q i' ⟨j, hj⟩
    rw [aget_aset]; split
    · exact ⟨_, rfl⟩
    · exact ⟨j, hj⟩
  unfold phase2; simp only
  apply foldl_reach (Q := fun bp => ∃ j, aget bp p.name = some j) (x := p.origin)
  · exact (ho1 _).mem_iff.2 ((mem_akeys_iff _ _).2 ⟨i, hi⟩)
  · intro acc
    rw [hi]; simp only
    apply foldl_reach (Q := fun bp => ∃ j, aget bp p.name = some j) (x := p) hm
    · intro acc; exact ⟨i, by rw [aget_aset]; simp⟩
    · intro acc q hq; exact hkeep acc q i hq
  · intro acc o hacc
    cases ho : aget st.byOrigin o with
    | none => exact hacc
    | some i' =>
      simp only
      exact foldl_inv (P := fun bp => ∃ j, aget bp p.name = some j) hacc
        (fun acc q _ hq => hkeep acc q i' hq)

/-- the partition invariant holds after the first two loops -/
theorem inv_phase2 {pkgs : List LPkg} {o1 : Order} (hu : UniqueNames pkgs) (ho1 : IsPerm o1) :
    Inv pkgs (phase2 o1 (phase1 pkgs)) := by
  have h := inv1_phase1 (nodup_of_uniqueNames hu)
  have hs := phase2_sound o1 h
  refine ⟨h.mem, ?_, h.nodup, h.keysO, ?_, ?_, ?_⟩
  · intro o i hi q hq
    have := h.live o i hi q hq
    exact ⟨this.1, by rw [this.2]; exact hi⟩
  · intro o i hi p hp q hq
    have h1 := h.live o i hi p hp
    have h2 := h.live o i hi q hq
    exact Conn.single ⟨h1.1, h2.1, Or.inl (h1.2.trans h2.2.symm)⟩
  · intro p hp
    obtain ⟨j, hj⟩ := phase2_complete ho1 h hp
    obtain ⟨p', hp', hn, ho⟩ := hs _ _ hj
    have := eq_of_name hu hp' hp hn
    subst this
    rw [hj]; exact ho.symm
  · intro k i hk
    obtain ⟨p, hp, hn, _⟩ := hs k i hk
    exact ⟨p, hp, hn⟩

/-! ## phase 3 -/

/-- what the merge loop needs to know about `replaceMap` -/
structure RMOk (pkgs : List LPkg) (rm : List (Text × List Text)) : Prop where
  sound    : ∀ k reps, aget rm k = some reps → ∃ a ∈ pkgs, a.name = k ∧ a.replaces = reps
  complete : ∀ a ∈ pkgs, a.replaces ≠ [] → aget rm a.name = some a.replaces

theorem phase3_sound {pkgs : List LPkg} {st : GState} (o2 : Order) (h : Inv pkgs st) :
    ∀ k reps, aget (phase3 o2 st) k = some reps → ∃ a ∈ pkgs, a.name = k ∧ a.replaces = reps := by
  unfold phase3
  apply foldl_inv (P := fun rm => ∀ k reps, aget rm k = some reps →
      ∃ a ∈ pkgs, a.name = k ∧ a.replaces = reps)
  · simp [aget]
  · intro acc k0 _ hacc
    cases hk0 : aget st.byPackage k0 with
    | none => exact hacc
    | some i =>
      simp only
      obtain ⟨p0, _, _, hlive, _⟩ := h.pkgLive hk0
      apply foldl_inv (P := fun rm => ∀ k reps, aget rm k = some reps →
          ∃ a ∈ pkgs, a.name = k ∧ a.replaces = reps)
      · exact hacc
      · intro acc p hp hacc k reps hk
        split at hk
        · exact hacc k reps hk
        · rw [aget_aset] at hk
          split at hk
          · next e =>
            cases hk
            exact ⟨p, (h.live _ _ hlive p hp).1, e, rfl⟩
          · exact hacc k reps hk

theorem phase3_complete {pkgs : List LPkg} {st : GState} {o2 : Order} (ho2 : IsPerm o2)
    (h : Inv pkgs st) {a : LPkg} (ha : a ∈ pkgs) (hr : a.replaces ≠ []) :
    ∃ reps, aget (phase3 o2 st) a.name = some reps := by
  obtain ⟨i, hi, _, hm⟩ := h.idx ha
  have hkeep : ∀ (acc : List (Text × List Text)) (q : LPkg),
      (∃ j, aget acc a.name = some j) →
      ∃ j, aget (if q.replaces.isEmpty then acc else aset acc q.name q.replaces) a.name = some j := by
    intro acc q ⟨j, hj⟩
    split
    · exact ⟨j, hj⟩
    · rw [aget_aset]; split
      · exact ⟨_, rfl⟩
      · exact ⟨j, hj⟩
  unfold phase3
  apply foldl_reach (Q := fun rm => ∃ j, aget rm a.name = some j) (x := a.name)
  · exact (ho2 _).mem_iff.2 ((mem_akeys_iff _ _).2 ⟨i, hi⟩)
  · intro acc
    rw [hi]; simp only
    apply foldl_reach (Q := fun rm => ∃ j, aget rm a.name = some j) (x := a) hm
    · intro acc
      have : a.replaces.isEmpty = false := by
        cases hr' : a.replaces with
        | nil => exact absurd hr' hr
        | cons _ _ => rfl
      exact ⟨a.replaces, by simp [this, aget_aset]⟩
    · intro acc q hq; exact hkeep acc q hq
  · intro acc o hacc
    cases ho : aget st.byPackage o with
    | none => exact hacc
    | some i' =>
      simp only
      exact foldl_inv (P := fun rm => ∃ j, aget rm a.name = some j) hacc
        (fun acc q _ hq => hkeep acc q hq)

theorem rmOk_phase3 {pkgs : List LPkg} {st : GState} {o2 : Order} (hu : UniqueNames pkgs)
    (ho2 : IsPerm o2) (h : Inv pkgs st) : RMOk pkgs (phase3 o2 st) := by
  refine ⟨phase3_sound o2 h, ?_⟩
  intro a ha hr
  obtain ⟨reps, hreps⟩ := phase3_complete ho2 h ha hr
  obtain ⟨a', ha', hn, he⟩ := phase3_sound o2 h _ _ hreps
  have := eq_of_name hu ha' ha hn
  subst this
  rw [hreps, he]

/-! ## merging a union of live groups -/

/-- `M` is a set of packages of the image closed under "same index" -/
structure Closed (pkgs : List LPkg) (st : GState) (M : List LPkg) : Prop where
  sub    : ∀ q ∈ M, q ∈ pkgs
  closed : ∀ q ∈ M, ∀ p ∈ pkgs, aget st.byOrigin p.origin = aget st.byOrigin q.origin → p ∈ M

/-- the state after `merge` + the update loop -/
def mergeInto (st : GState) (M : List LPkg) : GState :=
  repoint { st with heap := st.heap ++ [M] } st.heap.length M

theorem mergeInto_grp (st : GState) (M : List LPkg) (j : Nat) :
    (mergeInto st M).grp j = if j = st.heap.length then M else st.grp j := by
  simp only [mergeInto, GState.grp, repoint_heap]
  exact getD_snoc _ _ _

theorem mergeInto_byOrigin (st : GState) (M : List LPkg) (o : Text) :
    aget (mergeInto st M).byOrigin o =
      if o ∈ M.map (·.origin) then some st.heap.length else aget st.byOrigin o := by
  simp only [mergeInto, repoint_byOrigin]

theorem mergeInto_byPackage (st : GState) (M : List LPkg) (k : Text) :
    aget (mergeInto st M).byPackage k =
      if k ∈ M.map (·.name) then some st.heap.length else aget st.byPackage k := by
  simp only [mergeInto, repoint_byPackage]

theorem Closed.origin_mem_iff {pkgs : List LPkg} {st : GState} {M : List LPkg}
    (hc : Closed pkgs st M) {p : LPkg} (hp : p ∈ pkgs) :
    p.origin ∈ M.map (·.origin) ↔ p ∈ M := by
  constructor
  · intro hm
    obtain ⟨q, hq, e⟩ := List.mem_map.1 hm
    exact hc.closed q hq p hp (by rw [e])
  · intro hm; exact List.mem_map.2 ⟨p, hm, rfl⟩

theorem Closed.name_mem_iff {pkgs : List LPkg} {st : GState} {M : List LPkg}
    (hu : UniqueNames pkgs) (hc : Closed pkgs st M) {p : LPkg} (hp : p ∈ pkgs) :
    p.name ∈ M.map (·.name) ↔ p ∈ M := by
  constructor
  · intro hm
    obtain ⟨q, hq, e⟩ := List.mem_map.1 hm
    have := eq_of_name hu (hc.sub q hq) hp e
    subst this; exact hq
  · intro hm; exact List.mem_map.2 ⟨p, hm, rfl⟩

/-- a live group none of whose origins is re-pointed is disjoint from `M` -/
theorem Closed.untouched {pkgs : List LPkg} {st : GState} {M : List LPkg}
    (h : Inv pkgs st) (hc : Closed pkgs st M) {o : Text} {j : Nat}
    (hj : aget st.byOrigin o = some j) (ho : o ∉ M.map (·.origin)) :
    ∀ q ∈ st.grp j, q.origin ∉ M.map (·.origin) := by
  intro q hq hm
  have hq' := h.live o j hj q hq
  have hqM := (hc.origin_mem_iff hq'.1).1 hm
  obtain ⟨p, hp, rfl⟩ := h.keysO o j hj
  exact ho ((hc.origin_mem_iff hp).2 (hc.closed q hqM p hp (by rw [hj, hq'.2])))

theorem mergeInto_inv {pkgs : List LPkg} {st : GState} {M : List LPkg} (hu : UniqueNames pkgs)
    (h : Inv pkgs st) (hc : Closed pkgs st M) (hn : M.Nodup)
    (hconn : ∀ p ∈ M, ∀ q ∈ M, Conn pkgs p q) : Inv pkgs (mergeInto st M) := by
  refine ⟨?_, ?_, ?_, ?_, ?_, ?_, ?_⟩
  · intro p hp
    by_cases hm : p ∈ M
    · refine ⟨st.heap.length, ?_, ?_⟩
      · rw [mergeInto_byOrigin, if_pos ((hc.origin_mem_iff hp).2 hm)]
      · rw [mergeInto_grp, if_pos rfl]; exact hm
    · obtain ⟨i, hi, hmi⟩ := h.mem p hp
      refine ⟨i, ?_, ?_⟩
      · rw [mergeInto_byOrigin, if_neg (fun hh => hm ((hc.origin_mem_iff hp).1 hh))]; exact hi
      · have := h.lt hi
        rw [mergeInto_grp, if_neg (by omega)]; exact hmi
  · intro o j hj q hq
    rw [mergeInto_byOrigin] at hj
    split at hj
    · cases hj
      rw [mergeInto_grp, if_pos rfl] at hq
      refine ⟨hc.sub q hq, ?_⟩
      rw [mergeInto_byOrigin, if_pos (List.mem_map.2 ⟨q, hq, rfl⟩)]
    · next ho =>
      have := h.lt hj
      rw [mergeInto_grp, if_neg (by omega)] at hq
      have hq' := h.live o j hj q hq
      refine ⟨hq'.1, ?_⟩
      rw [mergeInto_byOrigin, if_neg (hc.untouched h hj ho q hq)]; exact hq'.2
  · intro o j hj
    rw [mergeInto_byOrigin] at hj
    split at hj
    · cases hj; rw [mergeInto_grp, if_pos rfl]; exact hn
    · have := h.lt hj
      rw [mergeInto_grp, if_neg (by omega)]; exact h.nodup o j hj
  · intro o j hj
    rw [mergeInto_byOrigin] at hj
    split at hj
    · next ho =>
      obtain ⟨q, hq, e⟩ := List.mem_map.1 ho
      exact ⟨q, hc.sub q hq, e⟩
    · exact h.keysO o j hj
  · intro o j hj
    rw [mergeInto_byOrigin] at hj
    split at hj
    · cases hj; rw [mergeInto_grp, if_pos rfl]; exact hconn
    · have := h.lt hj
      rw [mergeInto_grp, if_neg (by omega)]; exact h.conn o j hj
  · intro p hp
    rw [mergeInto_byOrigin, mergeInto_byPackage]
    by_cases hm : p ∈ M
    · rw [if_pos ((hc.origin_mem_iff hp).2 hm), if_pos ((hc.name_mem_iff hu hp).2 hm)]
    · rw [if_neg (fun hh => hm ((hc.origin_mem_iff hp).1 hh)),
        if_neg (fun hh => hm ((hc.name_mem_iff hu hp).1 hh))]
      exact h.byPkg p hp
  · intro k i hk
    rw [mergeInto_byPackage] at hk
    split at hk
    · next hm =>
      obtain ⟨q, hq, e⟩ := List.mem_map.1 hm
      exact ⟨q, hc.sub q hq, e⟩
    · exact h.keysP k i hk

/-- two packages of the image share a group -/
def Share (st : GState) (a b : LPkg) : Prop :=
  ∃ i, aget st.byPackage a.name = some i ∧ aget st.byPackage b.name = some i

theorem share_iff {pkgs : List LPkg} {st : GState} (h : Inv pkgs st) {a b : LPkg}
    (ha : a ∈ pkgs) (hb : b ∈ pkgs) :
    Share st a b ↔ aget st.byOrigin a.origin = aget st.byOrigin b.origin := by
  obtain ⟨i, hi, hio, _⟩ := h.idx ha
  obtain ⟨j, hj, hjo, _⟩ := h.idx hb
  unfold Share
  rw [hi, hj, hio, hjo]
  constructor
  · rintro ⟨k, h1, h2⟩; rw [h1, h2]
  · intro e; exact ⟨i, rfl, e.symm⟩

/-- sharing a group survives a merge -/
theorem mergeInto_share {pkgs : List LPkg} {st : GState} {M : List LPkg} (hu : UniqueNames pkgs)
    (h : Inv pkgs st) (hc : Closed pkgs st M) {a b : LPkg} (ha : a ∈ pkgs) (hb : b ∈ pkgs)
    (hs : Share st a b) : Share (mergeInto st M) a b := by
  have he := (share_iff h ha hb).1 hs
  obtain ⟨i, hi, hj⟩ := hs
  unfold Share
  rw [mergeInto_byPackage, mergeInto_byPackage]
  by_cases hm : a ∈ M
  · have hbM := hc.closed a hm b hb he.symm
    exact ⟨_, by rw [if_pos ((hc.name_mem_iff hu ha).2 hm)],
      by rw [if_pos ((hc.name_mem_iff hu hb).2 hbM)]⟩
  · have hbM : b ∉ M := fun hbM => hm (hc.closed b hbM a ha he)
    exact ⟨i, by rw [if_neg (fun hh => hm ((hc.name_mem_iff hu ha).1 hh))]; exact hi,
      by rw [if_neg (fun hh => hbM ((hc.name_mem_iff hu hb).1 hh))]; exact hj⟩

/-- members of `M` share a group after the merge -/
theorem mergeInto_share_of_mem {st : GState} {M : List LPkg} {a b : LPkg} (ha : a ∈ M)
    (hb : b ∈ M) : Share (mergeInto st M) a b := by
  refine ⟨st.heap.length, ?_, ?_⟩
  · rw [mergeInto_byPackage, if_pos (List.mem_map.2 ⟨a, ha, rfl⟩)]
  · rw [mergeInto_byPackage, if_pos (List.mem_map.2 ⟨b, hb, rfl⟩)]

theorem closed_grp {pkgs : List LPkg} {st : GState} (h : Inv pkgs st) {o : Text} {i : Nat}
    (hi : aget st.byOrigin o = some i) : Closed pkgs st (st.grp i) := by
  refine ⟨fun q hq => (h.live o i hi q hq).1, ?_⟩
  intro q hq p hp e
  rw [(h.live o i hi q hq).2] at e
  exact (h.mem_grp_iff hi hp).2 e

theorem Closed.append {pkgs : List LPkg} {st : GState} {M1 M2 : List LPkg}
    (h1 : Closed pkgs st M1) (h2 : Closed pkgs st M2) : Closed pkgs st (M1 ++ M2) := by
  refine ⟨?_, ?_⟩
  · intro q hq
    rcases List.mem_append.1 hq with hq | hq
    · exact h1.sub q hq
    · exact h2.sub q hq
  · intro q hq p hp e
    rcases List.mem_append.1 hq with hq | hq
    · exact List.mem_append_left _ (h1.closed q hq p hp e)
    · exact List.mem_append_right _ (h2.closed q hq p hp e)

/-! ## replacesGroup on a group with unique names -/

/-- the verdict of `replacesGroup` on the one candidate `b` -/
def evalOne (c : Constraint) (b : LPkg) : Option Bool :=
  match Impl.parseVersion b.version with
  | none => none
  | some v => c.satisfiedBy Impl.parseVersion v

theorem replacesGroupGo_no_name {c : Constraint} {g : List LPkg}
    (h : ∀ p ∈ g, p.name ≠ c.name) : replacesGroupGo c g = some false := by
  induction g with
  | nil => rfl
  | cons p g ih =>
    simp only [replacesGroupGo]
    rw [if_pos (h p (by simp))]
    exact ih (fun q hq => h q (by simp [hq]))

theorem replacesGroupGo_unique {c : Constraint} {g : List LPkg} {b : LPkg}
    (hn : (g.map (·.name)).Nodup) (hb : b ∈ g) (hbn : b.name = c.name) :
    replacesGroupGo c g = evalOne c b := by
  induction g with
  | nil => simp at hb
  | cons p g ih =>
    simp only [List.map_cons, List.nodup_cons, List.mem_map, not_exists, not_and] at hn
    simp only [replacesGroupGo]
    rcases List.mem_cons.1 hb with rfl | hb'
    · rw [if_neg (by simp [hbn])]
      have hrest : replacesGroupGo c g = some false :=
        replacesGroupGo_no_name (fun q hq e => hn.1 q hq (e.trans hbn.symm))
      unfold evalOne
      cases Impl.parseVersion b.version with
      | none => rfl
      | some v =>
        simp only
        cases hsat : c.satisfiedBy Impl.parseVersion v with
        | none => rfl
        | some t => cases t <;> simp [hrest]
    · have : p.name ≠ c.name := fun e => hn.1 b hb' (hbn.trans e.symm)
      rw [if_pos this]
      exact ih hn.2 hb'

theorem nodup_names_of_subset {pkgs g : List LPkg} (hu : UniqueNames pkgs) (hn : g.Nodup)
    (hs : ∀ q ∈ g, q ∈ pkgs) : (g.map (·.name)).Nodup := by
  induction g with
  | nil => simp
  | cons q g ih =>
    simp only [List.nodup_cons] at hn
    simp only [List.map_cons, List.nodup_cons, List.mem_map, not_exists, not_and]
    refine ⟨?_, ih hn.2 (fun x hx => hs x (by simp [hx]))⟩
    intro x hx e
    have := eq_of_name hu (hs x (by simp [hx])) (hs q (by simp)) e
    subst this
    exact hn.1 hx

theorem replacesEdge_iff {pkgs : List LPkg} {a b : LPkg} :
    replacesEdge pkgs a b = true ↔
      ∃ rep ∈ a.replaces, (parseConstraint rep).name = b.name ∧ b ∈ pkgs ∧
        evalOne (parseConstraint rep) b = some true := by
  unfold replacesEdge evalOne
  simp only [List.any_eq_true, Bool.and_eq_true, decide_eq_true_eq]
  constructor
  · rintro ⟨rep, hrep, ⟨h1, h2⟩, h3⟩
    refine ⟨rep, hrep, h1, h2, ?_⟩
    cases hv : Impl.parseVersion b.version with
    | none => rw [hv] at h3; simp at h3
    | some v => rw [hv] at h3; simpa using h3
  · rintro ⟨rep, hrep, h1, h2, h3⟩
    refine ⟨rep, hrep, ⟨h1, h2⟩, ?_⟩
    cases hv : Impl.parseVersion b.version with
    | none => rw [hv] at h3; simp at h3
    | some v => rw [hv] at h3; simpa using h3

theorem replacesError_iff {pkgs : List LPkg} :
    replacesError pkgs = true ↔
      ∃ a ∈ pkgs, ∃ rep ∈ a.replaces, ∃ b ∈ pkgs, b.name = (parseConstraint rep).name ∧
        evalOne (parseConstraint rep) b = none := by
  unfold replacesError evalOne
  simp only [List.any_eq_true, Bool.and_eq_true, decide_eq_true_eq]
  constructor
  · rintro ⟨a, ha, rep, hrep, b, hb, h1, h3⟩
    refine ⟨a, ha, rep, hrep, b, hb, h1.symm, ?_⟩
    cases hv : Impl.parseVersion b.version with
    | none => rfl
    | some v => rw [hv] at h3; simpa using h3
  · rintro ⟨a, ha, rep, hrep, b, hb, h1, h3⟩
    refine ⟨a, ha, rep, hrep, b, hb, h1.symm, ?_⟩
    cases hv : Impl.parseVersion b.version with
    | none => rfl
    | some v => rw [hv] at h3; simpa using h3

/-! ## one step of the merge loop -/

/-- the possible outcomes of `mergeStep a.name st rep` in a state satisfying the invariant -/
inductive StepCase (pkgs : List LPkg) (st : GState) (a : LPkg) (rep : Text) : Res GState → Prop
  | absent : (∀ b ∈ pkgs, b.name ≠ (parseConstraint rep).name) → StepCase pkgs st a rep (.ok st)
  | err (b : LPkg) : b ∈ pkgs → b.name = (parseConstraint rep).name →
      evalOne (parseConstraint rep) b = none → StepCase pkgs st a rep .err
  | noedge (b : LPkg) : b ∈ pkgs → b.name = (parseConstraint rep).name →
      evalOne (parseConstraint rep) b = some false → StepCase pkgs st a rep (.ok st)
  | same (b : LPkg) : b ∈ pkgs → b.name = (parseConstraint rep).name →
      evalOne (parseConstraint rep) b = some true → Share st a b → StepCase pkgs st a rep (.ok st)
  | merge (b : LPkg) (g r : Nat) : b ∈ pkgs → b.name = (parseConstraint rep).name →
      evalOne (parseConstraint rep) b = some true →
      aget st.byOrigin a.origin = some g → aget st.byOrigin b.origin = some r → r ≠ g →
      StepCase pkgs st a rep (.ok (mergeInto st (st.grp g ++ st.grp r)))

theorem mergeStep_case {pkgs : List LPkg} {st : GState} (hu : UniqueNames pkgs) (h : Inv pkgs st)
    {a : LPkg} (ha : a ∈ pkgs) (rep : Text) :
    StepCase pkgs st a rep (mergeStep a.name st rep) := by
  unfold mergeStep
  simp only
  cases hr : aget st.byPackage (parseConstraint rep).name with
  | none =>
    simp only
    apply StepCase.absent
    intro b hb e
    obtain ⟨i, hi, _⟩ := h.idx hb
    rw [e, hr] at hi; cases hi
  | some r =>
    simp only
    obtain ⟨b, hb, hbn, hbo, hbm⟩ := h.pkgLive hr
    have hnames := nodup_names_of_subset hu (h.nodup _ _ hbo) (fun q hq => (h.live _ _ hbo q hq).1)
    rw [replacesGroupGo_unique hnames hbm hbn]
    cases he : evalOne (parseConstraint rep) b with
    | none => exact StepCase.err b hb hbn he
    | some t =>
      cases t with
      | false => exact StepCase.noedge b hb hbn he
      | true =>
        simp only
        obtain ⟨g, hg, hgo, _⟩ := h.idx ha
        rw [hg]
        simp only
        by_cases hrg : r = g
        · rw [if_pos hrg]
          exact StepCase.same b hb hbn he ⟨g, hg, by rw [hbn, hr, hrg]⟩
        · rw [if_neg hrg]
          exact StepCase.merge b g r hb hbn he hgo hbo hrg

theorem Share.symm {st : GState} {a b : LPkg} (h : Share st a b) : Share st b a := by
  obtain ⟨i, h1, h2⟩ := h; exact ⟨i, h2, h1⟩

theorem Share.trans {st : GState} {a b c : LPkg} (h1 : Share st a b) (h2 : Share st b c) :
    Share st a c := by
  obtain ⟨i, hi1, hi2⟩ := h1
  obtain ⟨j, hj1, hj2⟩ := h2
  rw [hi2] at hj1; cases hj1
  exact ⟨i, hi1, hj2⟩

theorem Share.refl {pkgs : List LPkg} {st : GState} (h : Inv pkgs st) {a : LPkg} (ha : a ∈ pkgs) :
    Share st a a := by
  obtain ⟨i, hi, _⟩ := h.idx ha; exact ⟨i, hi, hi⟩

/-- a successful step preserves the invariant -/
theorem mergeStep_inv {pkgs : List LPkg} {st st' : GState} (hu : UniqueNames pkgs)
    (h : Inv pkgs st) {a : LPkg} (ha : a ∈ pkgs) {rep : Text} (hrep : rep ∈ a.replaces)
    (hs : mergeStep a.name st rep = .ok st') : Inv pkgs st' := by
  have hc := mergeStep_case hu h ha rep
  rw [hs] at hc
  cases hc with
  | absent _ => exact h
  | noedge _ _ _ _ => exact h
  | same _ _ _ _ _ => exact h
  | merge b g r hb hbn he hg hr hne =>
    have hag : a ∈ st.grp g := (h.mem_grp_iff hg ha).2 hg
    have hbr : b ∈ st.grp r := (h.mem_grp_iff hr hb).2 hr
    have hab : Conn pkgs a b :=
      Conn.single ⟨ha, hb, Or.inr (Or.inl (replacesEdge_iff.2 ⟨rep, hrep, hbn.symm, hb, he⟩))⟩
    apply mergeInto_inv hu h ((closed_grp h hg).append (closed_grp h hr))
    · rw [List.nodup_append]
      refine ⟨h.nodup _ _ hg, h.nodup _ _ hr, ?_⟩
      intro x hx y hy e
      subst e
      have h1 := (h.live _ _ hg x hx).2
      have h2 := (h.live _ _ hr x hy).2
      rw [h1] at h2; cases h2; exact hne rfl
    · intro p hp q hq
      have hcg := h.conn _ _ hg
      have hcr := h.conn _ _ hr
      rcases List.mem_append.1 hp with hp | hp <;> rcases List.mem_append.1 hq with hq | hq
      · exact hcg p hp q hq
      · exact ((hcg p hp a hag).trans hab).trans (hcr b hbr q hq)
      · exact ((hcr p hp b hbr).trans hab.symm).trans (hcg a hag q hq)
      · exact hcr p hp q hq

/-- sharing a group survives a successful step -/
theorem mergeStep_share_mono {pkgs : List LPkg} {st st' : GState} (hu : UniqueNames pkgs)
    (h : Inv pkgs st) {a : LPkg} (ha : a ∈ pkgs) {rep : Text}
    (hs : mergeStep a.name st rep = .ok st') {x y : LPkg} (hx : x ∈ pkgs) (hy : y ∈ pkgs)
    (hxy : Share st x y) : Share st' x y := by
  have hc := mergeStep_case hu h ha rep
  rw [hs] at hc
  cases hc with
  | absent _ => exact hxy
  | noedge _ _ _ _ => exact hxy
  | same _ _ _ _ _ => exact hxy
  | merge b g r hb hbn he hg hr hne =>
    exact mergeInto_share hu h ((closed_grp h hg).append (closed_grp h hr)) hx hy hxy

/-- a successful step for a valid edge `a → b` puts `a` and `b` into one group -/
theorem mergeStep_edge {pkgs : List LPkg} {st st' : GState} (hu : UniqueNames pkgs)
    (h : Inv pkgs st) {a : LPkg} (ha : a ∈ pkgs) {rep : Text}
    (hs : mergeStep a.name st rep = .ok st') {b : LPkg} (hb : b ∈ pkgs)
    (hbn : (parseConstraint rep).name = b.name)
    (he : evalOne (parseConstraint rep) b = some true) : Share st' a b := by
  have hc := mergeStep_case hu h ha rep
  rw [hs] at hc
  cases hc with
  | absent hno => exact absurd hbn.symm (hno b hb)
  | noedge b' hb' hbn' he' =>
    have := eq_of_name hu hb' hb (hbn'.trans hbn); subst this
    rw [he] at he'; cases he'
  | same b' hb' hbn' he' hsh =>
    have := eq_of_name hu hb' hb (hbn'.trans hbn); subst this
    exact hsh
  | merge b' g r hb' hbn' he' hg hr hne =>
    have := eq_of_name hu hb' hb (hbn'.trans hbn); subst this
    exact mergeInto_share_of_mem
      (List.mem_append_left _ ((h.mem_grp_iff hg ha).2 hg))
      (List.mem_append_right _ ((h.mem_grp_iff hr hb').2 hr))

theorem mergeStep_ne_panic {pkgs : List LPkg} {st : GState} (hu : UniqueNames pkgs)
    (h : Inv pkgs st) {a : LPkg} (ha : a ∈ pkgs) (rep : Text) :
    mergeStep a.name st rep ≠ .panic := by
  intro hs
  have hc := mergeStep_case hu h ha rep
  rw [hs] at hc
  cases hc

theorem mergeStep_err_iff {pkgs : List LPkg} {st : GState} (hu : UniqueNames pkgs)
    (h : Inv pkgs st) {a : LPkg} (ha : a ∈ pkgs) (rep : Text) :
    mergeStep a.name st rep = .err ↔
      ∃ b ∈ pkgs, b.name = (parseConstraint rep).name ∧ evalOne (parseConstraint rep) b = none := by
  have hc := mergeStep_case hu h ha rep
  constructor
  · intro hs
    rw [hs] at hc
    cases hc with
    | err b hb hbn he => exact ⟨b, hb, hbn, he⟩
  · rintro ⟨b, hb, hbn, he⟩
    generalize mergeStep a.name st rep = res at hc
    cases hc with
    | absent hno => exact absurd hbn (hno b hb)
    | err _ _ _ _ => rfl
    | noedge b' hb' hbn' he' =>
      have := eq_of_name hu hb' hb (hbn'.trans hbn.symm); subst this
      rw [he] at he'; cases he'
    | same b' hb' hbn' he' hsh =>
      have := eq_of_name hu hb' hb (hbn'.trans hbn.symm); subst this
      rw [he] at he'; cases he'
    | merge b' g r hb' hbn' he' hg hr hne =>
      have := eq_of_name hu hb' hb (hbn'.trans hbn.symm); subst this
      rw [he] at he'; cases he'

/-! ## the inner loop `for _, rep := range replaces` of one package -/

section inner
variable {pkgs : List LPkg} (hu : UniqueNames pkgs) {a : LPkg} (ha : a ∈ pkgs)
include hu ha

theorem inner_step_inv : ∀ (s : GState) (rep : Text) (s' : GState), rep ∈ a.replaces →
    Inv pkgs s → mergeStep a.name s rep = .ok s' → Inv pkgs s' :=
  fun _ _ _ hrep h hs => mergeStep_inv hu h ha hrep hs

theorem inner_inv {s s' : GState} (h : Inv pkgs s)
    (hs : foldRes (mergeStep a.name) s a.replaces = .ok s') : Inv pkgs s' :=
  foldRes_inv (inner_step_inv hu ha) h hs

/-- generalisation to a tail of the loop (any list of members of `a.replaces`) -/
theorem inner_tail_share {l : List Text} (hl : ∀ x ∈ l, x ∈ a.replaces) {s s' : GState}
    (h : Inv pkgs s) (hs : foldRes (mergeStep a.name) s l = .ok s') {x y : LPkg}
    (hx : x ∈ pkgs) (hy : y ∈ pkgs) (hxy : Share s x y) : Inv pkgs s' ∧ Share s' x y := by
  refine foldRes_inv (P := fun s => Inv pkgs s ∧ Share s x y) ?_ ⟨h, hxy⟩ hs
  intro s rep s' hrep ⟨h1, h2⟩ hstep
  exact ⟨mergeStep_inv hu h1 ha (hl rep hrep) hstep, mergeStep_share_mono hu h1 ha hstep hx hy h2⟩

theorem inner_share_mono {s s' : GState} (h : Inv pkgs s)
    (hs : foldRes (mergeStep a.name) s a.replaces = .ok s') {x y : LPkg}
    (hx : x ∈ pkgs) (hy : y ∈ pkgs) (hxy : Share s x y) : Share s' x y :=
  (inner_tail_share hu ha (fun _ h => h) h hs hx hy hxy).2

theorem inner_edge {s s' : GState} (h : Inv pkgs s)
    (hs : foldRes (mergeStep a.name) s a.replaces = .ok s') {b : LPkg}
    (he : replacesEdge pkgs a b = true) : Share s' a b := by
  obtain ⟨rep, hrep, hbn, hb, hev⟩ := replacesEdge_iff.1 he
  obtain ⟨s1, s2, l2, h1, hstep, hl2, hrest⟩ := foldRes_split (inner_step_inv hu ha) h hs hrep
  have h2 := mergeStep_inv hu h1 ha hrep hstep
  exact (inner_tail_share hu ha hl2 h2 hrest ha hb (mergeStep_edge hu h1 ha hstep hb hbn hev)).2

theorem inner_ne_panic {s : GState} (h : Inv pkgs s) :
    foldRes (mergeStep a.name) s a.replaces ≠ .panic :=
  foldRes_ne_panic (inner_step_inv hu ha) (fun _ rep _ h => mergeStep_ne_panic hu h ha rep) h

theorem inner_err {s : GState} (h : Inv pkgs s)
    (hs : foldRes (mergeStep a.name) s a.replaces = .err) : replacesError pkgs = true := by
  obtain ⟨s1, rep, hrep, h1, hstep⟩ := foldRes_err (inner_step_inv hu ha) h hs
  obtain ⟨b, hb, hbn, he⟩ := (mergeStep_err_iff hu h1 ha rep).1 hstep
  exact replacesError_iff.2 ⟨a, ha, rep, hrep, b, hb, hbn, he⟩

/-- a successful inner loop means none of `a`'s replaces entries is unevaluable -/
theorem inner_ok_no_error {s s' : GState} (h : Inv pkgs s)
    (hs : foldRes (mergeStep a.name) s a.replaces = .ok s') {rep : Text} (hrep : rep ∈ a.replaces)
    {b : LPkg} (hb : b ∈ pkgs) (hbn : b.name = (parseConstraint rep).name) :
    evalOne (parseConstraint rep) b ≠ none := by
  intro he
  obtain ⟨s1, _, _, h1, hstep, _, _⟩ := foldRes_split (inner_step_inv hu ha) h hs hrep
  have := (mergeStep_err_iff hu h1 ha rep).2 ⟨b, hb, hbn, he⟩
  rw [this] at hstep; cases hstep

end inner

/-! ## phase 4 -/

/-- body of the outer loop of phase 4 -/
def outerStep (rm : List (Text × List Text)) (s : GState) (k : Text) : Res GState :=
  match aget rm k with
  | none => .ok s
  | some reps => foldRes (mergeStep k) s reps

theorem phase4_eq (o3 : Order) (rm : List (Text × List Text)) (st : GState) :
    phase4 o3 rm st = foldRes (outerStep rm) st (o3 (akeys rm)) := rfl

/-- the outer step is either the identity or the inner loop of a package of the image -/
theorem outerStep_cases {pkgs : List LPkg} {rm : List (Text × List Text)} (hrm : RMOk pkgs rm)
    (s : GState) (k : Text) :
    outerStep rm s k = .ok s ∨
      ∃ a ∈ pkgs, a.name = k ∧ outerStep rm s k = foldRes (mergeStep a.name) s a.replaces := by
  unfold outerStep
  cases hk : aget rm k with
  | none => exact Or.inl rfl
  | some reps =>
    obtain ⟨a, ha, hn, hr⟩ := hrm.sound k reps hk
    subst hn; subst hr
    exact Or.inr ⟨a, ha, rfl, rfl⟩

section phase4
variable {pkgs : List LPkg} (hu : UniqueNames pkgs) {rm : List (Text × List Text)}
  (hrm : RMOk pkgs rm)
include hu hrm

theorem outer_step_inv : ∀ (s : GState) (k : Text) (s' : GState),
    Inv pkgs s → outerStep rm s k = .ok s' → Inv pkgs s' := by
  intro s k s' h hs
  rcases outerStep_cases hrm s k with h1 | ⟨a, ha, _, h1⟩
  · rw [h1] at hs; cases hs; exact h
  · rw [h1] at hs; exact inner_inv hu ha h hs

theorem outer_tail_share {l : List Text} {s s' : GState}
    (h : Inv pkgs s) (hs : foldRes (outerStep rm) s l = .ok s') {x y : LPkg}
    (hx : x ∈ pkgs) (hy : y ∈ pkgs) (hxy : Share s x y) : Inv pkgs s' ∧ Share s' x y := by
  refine foldRes_inv (P := fun s => Inv pkgs s ∧ Share s x y) ?_ ⟨h, hxy⟩ hs
  intro s k s' _ ⟨h1, h2⟩ hstep
  refine ⟨outer_step_inv hu hrm s k s' h1 hstep, ?_⟩
  rcases outerStep_cases hrm s k with e | ⟨a, ha, _, e⟩
  · rw [e] at hstep; cases hstep; exact h2
  · rw [e] at hstep; exact inner_share_mono hu ha h1 hstep hx hy h2

variable {o3 : Order} (ho3 : IsPerm o3) {st st4 : GState} (h : Inv pkgs st)
include ho3 h

omit ho3 in
theorem phase4_inv (hs : phase4 o3 rm st = .ok st4) : Inv pkgs st4 :=
  foldRes_inv (fun s k s' _ => outer_step_inv hu hrm s k s') h hs

omit ho3 in
theorem phase4_share_mono (hs : phase4 o3 rm st = .ok st4) {x y : LPkg}
    (hx : x ∈ pkgs) (hy : y ∈ pkgs) (hxy : Share st x y) : Share st4 x y :=
  (outer_tail_share hu hrm h hs hx hy hxy).2

omit hu h in
/-- every key `a.name` of a package with non-empty replaces is visited -/
theorem phase4_visits {a : LPkg} (ha : a ∈ pkgs) (hne : a.replaces ≠ []) :
    a.name ∈ o3 (akeys rm) ∧ ∀ s, outerStep rm s a.name = foldRes (mergeStep a.name) s a.replaces := by
  have hk := hrm.complete a ha hne
  refine ⟨(ho3 _).mem_iff.2 ((mem_akeys_iff _ _).2 ⟨_, hk⟩), ?_⟩
  intro s; unfold outerStep; rw [hk]

theorem phase4_edge (hs : phase4 o3 rm st = .ok st4) {a b : LPkg} (ha : a ∈ pkgs)
    (he : replacesEdge pkgs a b = true) : Share st4 a b := by
  have hne : a.replaces ≠ [] := by
    intro e; unfold replacesEdge at he; rw [e] at he; simp at he
  have hb : b ∈ pkgs := by
    obtain ⟨_, _, _, hb, _⟩ := replacesEdge_iff.1 he; exact hb
  obtain ⟨hmem, hstep⟩ := phase4_visits hrm ho3 ha hne
  obtain ⟨s1, s2, l2, h1, hst, _, hrest⟩ :=
    foldRes_split (fun s k s' _ => outer_step_inv hu hrm s k s') h hs hmem
  rw [hstep] at hst
  exact (outer_tail_share hu hrm (inner_inv hu ha h1 hst) hrest ha hb
    (inner_edge hu ha h1 hst he)).2

omit ho3 in
theorem phase4_ne_panic' : phase4 o3 rm st ≠ .panic := by
  refine foldRes_ne_panic (fun s k s' _ => outer_step_inv hu hrm s k s') ?_ h
  intro s k _ h1
  show outerStep rm s k ≠ .panic
  rcases outerStep_cases hrm s k with e | ⟨a, ha, _, e⟩
  · rw [e]; intro hh; cases hh
  · rw [e]; exact inner_ne_panic hu ha h1

theorem phase4_err_iff' : phase4 o3 rm st = .err ↔ replacesError pkgs = true := by
  constructor
  · intro hs
    obtain ⟨s, k, _, h1, hstep⟩ :=
      foldRes_err (fun s k s' _ => outer_step_inv hu hrm s k s') h hs
    rcases outerStep_cases hrm s k with e | ⟨a, ha, _, e⟩
    · rw [e] at hstep; cases hstep
    · rw [e] at hstep; exact inner_err hu ha h1 hstep
  · intro herr
    obtain ⟨a, ha, rep, hrep, b, hb, hbn, he⟩ := replacesError_iff.1 herr
    have hne : a.replaces ≠ [] := by intro e; rw [e] at hrep; simp at hrep
    obtain ⟨hmem, hstep⟩ := phase4_visits hrm ho3 ha hne
    cases hs : phase4 o3 rm st with
    | err => rfl
    | panic => exact absurd hs (phase4_ne_panic' hu hrm h)
    | ok st4 =>
      obtain ⟨s1, s2, l2, h1, hst, _, _⟩ :=
        foldRes_split (fun s k s' _ => outer_step_inv hu hrm s k s') h hs hmem
      rw [hstep] at hst
      exact absurd he (inner_ok_no_error hu ha h1 hst hrep hb hbn)

end phase4

/-! ## the live group ids (what `collect` iterates over) -/

/-- the distinct `*group` pointers met by `for v := range maps.Values(byOrigin)` -/
def liveIds (o4 : Order) (st : GState) : List Nat :=
  dedupNat [] ((o4 (akeys st.byOrigin)).filterMap (aget st.byOrigin))

theorem collect_eq (o4 : Order) (st : GState) :
    collect o4 st = (liveIds o4 st).map fun i => mkGrp (st.grp i) := rfl

theorem mem_liveIds {o4 : Order} (ho4 : IsPerm o4) (st : GState) (i : Nat) :
    i ∈ liveIds o4 st ↔ ∃ o, aget st.byOrigin o = some i := by
  unfold liveIds
  rw [mem_dedupNat, List.mem_filterMap]
  constructor
  · rintro ⟨⟨o, _, ho⟩, _⟩; exact ⟨o, ho⟩
  · rintro ⟨o, ho⟩
    exact ⟨⟨o, (ho4 _).mem_iff.2 ((mem_akeys_iff _ _).2 ⟨i, ho⟩), ho⟩, by simp⟩

theorem nodup_liveIds (o4 : Order) (st : GState) : (liveIds o4 st).Nodup := nodup_dedupNat _ _

/-- the set of live ids does not depend on the iteration order -/
theorem liveIds_perm {o4 o4' : Order} (ho4 : IsPerm o4) (ho4' : IsPerm o4') (st : GState) :
    (liveIds o4 st).Perm (liveIds o4' st) := by
  rw [List.perm_ext_iff_of_nodup (nodup_liveIds _ _) (nodup_liveIds _ _)]
  intro i; rw [mem_liveIds ho4, mem_liveIds ho4']

theorem liveIds_ne_nil {pkgs : List LPkg} {st : GState} (h : Inv pkgs st) {o4 : Order}
    (ho4 : IsPerm o4) {i : Nat} (hi : i ∈ liveIds o4 st) : st.grp i ≠ [] := by
  obtain ⟨o, ho⟩ := (mem_liveIds ho4 st i).1 hi
  exact h.ne_nil ho

/-- the live groups partition the package list -/
theorem liveIds_partition {pkgs : List LPkg} {st : GState} (hu : UniqueNames pkgs)
    (h : Inv pkgs st) {o4 : Order} (ho4 : IsPerm o4) :
    ((liveIds o4 st).flatMap st.grp).Perm pkgs := by
  rw [List.perm_ext_iff_of_nodup ?_ (nodup_of_uniqueNames hu)]
  · intro q
    rw [List.mem_flatMap]
    constructor
    · rintro ⟨i, hi, hq⟩
      obtain ⟨o, ho⟩ := (mem_liveIds ho4 st i).1 hi
      exact (h.live o i ho q hq).1
    · intro hq
      obtain ⟨i, hi, hm⟩ := h.mem q hq
      exact ⟨i, (mem_liveIds ho4 st i).2 ⟨_, hi⟩, hm⟩
  · unfold List.Nodup
    rw [List.pairwise_flatMap]
    refine ⟨?_, ?_⟩
    · intro i hi
      obtain ⟨o, ho⟩ := (mem_liveIds ho4 st i).1 hi
      exact h.nodup o i ho
    · refine List.Pairwise.imp_of_mem ?_ (nodup_liveIds o4 st)
      intro i j hi hj hne x hx y hy e
      subst e
      obtain ⟨o, ho⟩ := (mem_liveIds ho4 st i).1 hi
      obtain ⟨o', ho'⟩ := (mem_liveIds ho4 st j).1 hj
      have h1 := (h.live o i ho x hx).2
      have h2 := (h.live o' j ho' x hy).2
      rw [h1] at h2; cases h2; exact hne rfl

/-- members of one live group share it, and sharing means being members of one live group -/
theorem share_iff_mem {pkgs : List LPkg} {st : GState} (h : Inv pkgs st) {o4 : Order}
    (ho4 : IsPerm o4) {a b : LPkg} (ha : a ∈ pkgs) (hb : b ∈ pkgs) :
    Share st a b ↔ ∃ i ∈ liveIds o4 st, a ∈ st.grp i ∧ b ∈ st.grp i := by
  constructor
  · rintro ⟨i, h1, h2⟩
    obtain ⟨_, _, _, ho1, hm1⟩ := h.pkgLive h1
    obtain ⟨ja, hja, hoa, hma⟩ := h.idx ha
    obtain ⟨jb, hjb, hob, hmb⟩ := h.idx hb
    rw [h1] at hja; cases hja
    rw [h2] at hjb; cases hjb
    exact ⟨i, (mem_liveIds ho4 st i).2 ⟨_, hoa⟩, hma, hmb⟩
  · rintro ⟨i, hi, hma, hmb⟩
    obtain ⟨o, ho⟩ := (mem_liveIds ho4 st i).1 hi
    have h1 := (h.live o i ho a hma).2
    have h2 := (h.live o i ho b hmb).2
    exact ⟨i, (h.byPkg a ha).trans h1, (h.byPkg b hb).trans h2⟩

/-- the members of the live group containing `a` are the packages sharing a group with `a` -/
theorem Inv.mem_grp_iff_share {pkgs : List LPkg} {st : GState} (h : Inv pkgs st) {o : Text}
    {i : Nat} (hi : aget st.byOrigin o = some i) {a : LPkg} (ha : a ∈ st.grp i) (q : LPkg) :
    q ∈ st.grp i ↔ q ∈ pkgs ∧ Share st a q := by
  have ha' := h.live o i hi a ha
  constructor
  · intro hq
    have hq' := h.live o i hi q hq
    exact ⟨hq'.1, i, (h.byPkg a ha'.1).trans ha'.2, (h.byPkg q hq'.1).trans hq'.2⟩
  · rintro ⟨hq, k, h1, h2⟩
    rw [h.byPkg a ha'.1, ha'.2] at h1; cases h1
    rw [h.byPkg q hq] at h2
    exact (h.mem_grp_iff hi hq).2 h2

/-! ## deliverables about the state after the merge loop -/

section final
variable {pkgs : List LPkg} {o1 o2 o3 : Order} {st4 : GState}
  (hu : UniqueNames pkgs) (ho1 : IsPerm o1) (ho2 : IsPerm o2) (ho3 : IsPerm o3)
  (hs : phase4 o3 (phase3 o2 (phase2 o1 (phase1 pkgs))) (phase2 o1 (phase1 pkgs)) = .ok st4)

include hu ho1 ho2 in
omit ho3 hs in
theorem rmOk_st2 : RMOk pkgs (phase3 o2 (phase2 o1 (phase1 pkgs))) :=
  rmOk_phase3 hu ho2 (inv_phase2 hu ho1)

include hu ho1 ho2 hs

/-- the partition invariant holds for the state after the merge loop -/
theorem inv_st4 : Inv pkgs st4 :=
  phase4_inv hu (rmOk_st2 hu ho1 ho2) (inv_phase2 hu ho1) hs

/-- D1: the live groups of `st4`, concatenated, are a permutation of the input -/
theorem partition_st4 {o4 : Order} (ho4 : IsPerm o4) :
    ((liveIds o4 st4).flatMap st4.grp).Perm pkgs :=
  liveIds_partition hu (inv_st4 hu ho1 ho2 hs) ho4

/-- D1: no live group is empty -/
theorem ne_nil_st4 {o4 : Order} (ho4 : IsPerm o4) {i : Nat} (hi : i ∈ liveIds o4 st4) :
    st4.grp i ≠ [] :=
  liveIds_ne_nil (inv_st4 hu ho1 ho2 hs) ho4 hi

include ho3

/-- D2: same origin, or a version-checked replaces edge ⇒ same group -/
theorem closed_st4 {a b : LPkg} (ha : a ∈ pkgs) (hb : b ∈ pkgs)
    (hab : a.origin = b.origin ∨ replacesEdge pkgs a b = true) : Share st4 a b := by
  have h4 := inv_st4 hu ho1 ho2 hs
  rcases hab with e | e
  · exact (share_iff h4 ha hb).2 (by rw [e])
  · exact phase4_edge hu (rmOk_st2 hu ho1 ho2) ho3 (inv_phase2 hu ho1) hs ha e

/-- D2, in terms of group membership -/
theorem closed_st4_mem {o4 : Order} (ho4 : IsPerm o4) {a b : LPkg} (ha : a ∈ pkgs) (hb : b ∈ pkgs)
    (hab : a.origin = b.origin ∨ replacesEdge pkgs a b = true) :
    ∃ i ∈ liveIds o4 st4, a ∈ st4.grp i ∧ b ∈ st4.grp i :=
  (share_iff_mem (inv_st4 hu ho1 ho2 hs) ho4 ha hb).1 (closed_st4 hu ho1 ho2 ho3 hs ha hb hab)

/-- D3: two packages of the image share a group iff they are connected by origin / replaces
edges; in particular the partition does not depend on `o1 o2 o3` -/
theorem share_iff_conn_st4 {a b : LPkg} (ha : a ∈ pkgs) (hb : b ∈ pkgs) :
    Share st4 a b ↔ Conn pkgs a b := by
  have h4 := inv_st4 hu ho1 ho2 hs
  constructor
  · rintro ⟨i, h1, h2⟩
    obtain ⟨ja, hja, hoa, hma⟩ := h4.idx ha
    obtain ⟨jb, hjb, hob, hmb⟩ := h4.idx hb
    rw [h1] at hja; cases hja
    rw [h2] at hjb; cases hjb
    exact h4.conn _ _ hoa a hma b hmb
  · intro hc
    clear hb
    induction hc with
    | refl => exact Share.refl h4 ha
    | tail hab hr ih =>
      refine ih.trans ?_
      obtain ⟨hb', hc', hrel⟩ := hr
      rcases hrel with e | e | e
      · exact closed_st4 hu ho1 ho2 ho3 hs hb' hc' (Or.inl e)
      · exact closed_st4 hu ho1 ho2 ho3 hs hb' hc' (Or.inr e)
      · exact (closed_st4 hu ho1 ho2 ho3 hs hc' hb' (Or.inr e)).symm

/-- D3, in terms of group membership -/
theorem mem_iff_conn_st4 {o4 : Order} (ho4 : IsPerm o4) {a b : LPkg} (ha : a ∈ pkgs)
    (hb : b ∈ pkgs) :
    (∃ i ∈ liveIds o4 st4, a ∈ st4.grp i ∧ b ∈ st4.grp i) ↔ Conn pkgs a b :=
  (share_iff_mem (inv_st4 hu ho1 ho2 hs) ho4 ha hb).symm.trans
    (share_iff_conn_st4 hu ho1 ho2 ho3 hs ha hb)

end final

/-- D3, as needed for order independence: every live group of one run is, up to the order of its
members, a live group of any other run -/
theorem live_groups_match {pkgs : List LPkg} {o1 o2 o3 o1' o2' o3' : Order} {st4 st4' : GState}
    (hu : UniqueNames pkgs) (ho1 : IsPerm o1) (ho2 : IsPerm o2) (ho3 : IsPerm o3)
    (ho1' : IsPerm o1') (ho2' : IsPerm o2') (ho3' : IsPerm o3')
    (hs : phase4 o3 (phase3 o2 (phase2 o1 (phase1 pkgs))) (phase2 o1 (phase1 pkgs)) = .ok st4)
    (hs' : phase4 o3' (phase3 o2' (phase2 o1' (phase1 pkgs))) (phase2 o1' (phase1 pkgs)) = .ok st4')
    {o4 o4' : Order} (ho4 : IsPerm o4) (ho4' : IsPerm o4') :
    ∀ i ∈ liveIds o4 st4, ∃ j ∈ liveIds o4' st4', (st4.grp i).Perm (st4'.grp j) := by
  intro i hi
  have h4 := inv_st4 hu ho1 ho2 hs
  have h4' := inv_st4 hu ho1' ho2' hs'
  obtain ⟨o, ho⟩ := (mem_liveIds ho4 st4 i).1 hi
  obtain ⟨a, ham⟩ := List.exists_mem_of_ne_nil _ (h4.ne_nil ho)
  have ha := (h4.live o i ho a ham).1
  obtain ⟨j, _, hjo, hjm⟩ := h4'.idx ha
  refine ⟨j, (mem_liveIds ho4' st4' j).2 ⟨_, hjo⟩, ?_⟩
  rw [List.perm_ext_iff_of_nodup (h4.nodup o i ho) (h4'.nodup _ j hjo)]
  intro q
  rw [h4.mem_grp_iff_share ho ham, h4'.mem_grp_iff_share hjo hjm]
  constructor
  · rintro ⟨hq, hsh⟩
    exact ⟨hq, (share_iff_conn_st4 hu ho1' ho2' ho3' hs' ha hq).2
      ((share_iff_conn_st4 hu ho1 ho2 ho3 hs ha hq).1 hsh)⟩
  · rintro ⟨hq, hsh⟩
    exact ⟨hq, (share_iff_conn_st4 hu ho1 ho2 ho3 hs ha hq).2
      ((share_iff_conn_st4 hu ho1' ho2' ho3' hs' ha hq).1 hsh)⟩

/-- D4: the merge loop never panics -/
theorem phase4_ne_panic {pkgs : List LPkg} {o1 o2 o3 : Order} (hu : UniqueNames pkgs)
    (ho1 : IsPerm o1) (ho2 : IsPerm o2) :
    phase4 o3 (phase3 o2 (phase2 o1 (phase1 pkgs))) (phase2 o1 (phase1 pkgs)) ≠ .panic :=
  phase4_ne_panic' hu (rmOk_st2 hu ho1 ho2) (inv_phase2 hu ho1)

/-- D4: the merge loop fails iff some replaces entry naming a present package cannot be
evaluated -/
theorem phase4_err_iff {pkgs : List LPkg} {o1 o2 o3 : Order} (hu : UniqueNames pkgs)
    (ho1 : IsPerm o1) (ho2 : IsPerm o2) (ho3 : IsPerm o3) :
    phase4 o3 (phase3 o2 (phase2 o1 (phase1 pkgs))) (phase2 o1 (phase1 pkgs)) = .err ↔
      replacesError pkgs = true :=
  phase4_err_iff' hu (rmOk_st2 hu ho1 ho2) ho3 (inv_phase2 hu ho1)

/-- D4: the merge loop succeeds iff no replaces entry naming a present package is unevaluable -/
theorem phase4_ok_iff {pkgs : List LPkg} {o1 o2 o3 : Order} (hu : UniqueNames pkgs)
    (ho1 : IsPerm o1) (ho2 : IsPerm o2) (ho3 : IsPerm o3) :
    (∃ st4, phase4 o3 (phase3 o2 (phase2 o1 (phase1 pkgs))) (phase2 o1 (phase1 pkgs)) = .ok st4) ↔
      replacesError pkgs = false := by
  have h1 := phase4_err_iff (o3 := o3) hu ho1 ho2 ho3
  have h2 := phase4_ne_panic (o3 := o3) hu ho1 ho2
  cases hs : phase4 o3 (phase3 o2 (phase2 o1 (phase1 pkgs))) (phase2 o1 (phase1 pkgs)) with
  | ok st4 =>
    rw [hs] at h1
    constructor
    · intro _
      cases he : replacesError pkgs with
      | false => rfl
      | true => have := h1.2 he; cases this
    · intro _; exact ⟨st4, rfl⟩
  | err =>
    rw [hs] at h1
    have := h1.1 rfl
    constructor
    · rintro ⟨_, h⟩; cases h
    · intro h; rw [h] at this; cases this
  | panic => exact absurd hs h2

end Apko.C10
