import Apko.Proofs.Lemmas.AccountsWalk
import Apko.Proofs.Lemmas.FSCount
/-! Home directories made by earlier iterations of the loop are still there, untouched, at the end:
every step of the loop only *extends* the graph and never changes mode or owner of a node that
existed before it. -/
namespace Apko.Accounts
open Apko Apko.Path Apko.FS Apko.Formats

/-- `fs'` extends `fs` and leaves mode, owner and kind of every old node alone -/
structure EF (fs fs' : FS) : Prop where
  ext : Ext fs fs'
  len : fs.nodes.length ≤ fs'.nodes.length
  frame : ∀ j : Nat, j < fs.nodes.length →
    (fs'.node j).mode = (fs.node j).mode ∧ (fs'.node j).uid = (fs.node j).uid ∧
      (fs'.node j).gid = (fs.node j).gid ∧ (fs'.node j).dir = (fs.node j).dir

theorem EF.refl (fs : FS) : EF fs fs := ⟨Ext.refl fs, Nat.le_refl _, fun _ _ => ⟨rfl, rfl, rfl, rfl⟩⟩

theorem EF.trans {a b c : FS} (h1 : EF a b) (h2 : EF b c) : EF a c := by
  refine ⟨h1.ext.trans h2.ext, Nat.le_trans h1.len h2.len, ?_⟩
  intro j hj
  have f1 := h1.frame j hj
  have f2 := h2.frame j (Nat.lt_of_lt_of_le hj h1.len)
  exact ⟨f2.1.trans f1.1, f2.2.1.trans f1.2.1, f2.2.2.1.trans f1.2.2.1, f2.2.2.2.trans f1.2.2.2⟩

theorem ef_create {fs : FS} (hi : FS.Inv fs) (d : Nat) (b : Name) (nd : Inode)
    (hd : (fs.node d).dir = true) (hfree : fs.lookup d b = none) : EF fs (fs.create d b nd).1 := by
  have hdl := dir_lt fs d hd
  refine ⟨ext_create hi d b nd hd hfree, by rw [length_create]; omega, ?_⟩
  intro j hj
  by_cases hjd : j = d
  · subst hjd; rw [node_create_parent fs j b nd hd]; exact ⟨rfl, rfl, rfl, rfl⟩
  · rw [node_create_other fs d j b nd hjd (by omega)]; exact ⟨rfl, rfl, rfl, rfl⟩

theorem mkdirAllLoop_ef (c : Cfg) (mode : Nat) :
    ∀ (rest : List Name) (fs : FS) (at_ : Pos) (tr : List Name),
      FS.Inv fs → (fs.node at_.ino).dir = true → EF fs (mkdirAllLoop c mode rest fs at_ tr).1 := by
  intro rest
  induction rest with
  | nil => intro fs at_ tr _ _; simpa [mkdirAllLoop] using EF.refl fs
  | cons part rest ih =>
    intro fs at_ tr hi hd
    unfold mkdirAllLoop
    cases hl : fs.lookup at_.ino part with
    | some n =>
      simp only []
      repeat' split
      all_goals (try exact EF.refl fs)
      all_goals (apply ih _ _ _ hi; simp_all)
    | none =>
      have hi1 := hi.create at_.ino part (newDir mode) hd rfl
      have he1 := ef_create hi at_.ino part (newDir mode) hd hl
      simp only []
      repeat' split
      all_goals (try exact he1)
      all_goals (refine EF.trans he1 (ih _ _ _ hi1 ?_); simp_all)

theorem mkdirAll_ef (c : Cfg) (fs : FS) (p : Text) (perm : Nat) (hi : FS.Inv fs) : EF fs (mkdirAll c fs p perm).1 := by
  unfold mkdirAll
  simp only []
  split
  · exact EF.refl fs
  · have := mkdirAllLoop_ef c (modeDir ||| perm) ((parts p).filter (· ≠ dot)) fs { ino := 0 } [] hi hi.root
    split <;> simp_all

/-- a path whose components are those of its `Dir` followed by its `Base` (every cleaned absolute
path but `/`) -/
def Ordinary (p : Text) : Prop :=
  parts p = parts (dir p) ++ [base p] ∧ p ≠ slash ∧ p ≠ dot ∧ dir p ≠ dot

/-- the creating branch of the home loop, with everything later steps need -/
theorem homeStep_created (c : Cfg) (hc : c.posix = false) (fs fs1 : FS) (u : User) (hw : WF fs)
    (hdev : u.home ≠ devNull) (habs : (step c fs (.stat (clean u.home))).2 = .err .notExist)
    (ho : Ordinary (clean u.home)) (h : homeStep c fs u = (fs1, none)) :
    EF fs fs1 ∧ ∃ i, getNode c fs1 (clean u.home) = .ok i ∧ fs.nodes.length ≤ i ∧ i < fs1.nodes.length ∧
      (fs1.node i).dir = true ∧ (fs1.node i).mode = modeDir ||| 0o700 ∧
      (fs1.node i).uid = u.uid ∧ (fs1.node i).gid = u.gid := by
  unfold homeStep at h
  simp only [hdev, if_false, habs] at h
  obtain ⟨fsA, h1, h'⟩ := andThen_ok (liftE_ok h)
  obtain ⟨fsB, h2, h3⟩ := andThen_ok h'
  have e1 : fsA = (mkdirAll c fs (dir (clean u.home)) homeParentPerm).1 := by
    simp only [act, step, Prod.mk.injEq] at h1; exact h1.1.symm
  have hiA : FS.Inv fsA := by rw [e1]; exact mkdirAll_inv c fs _ _ hw.1
  have hbA : DirBit fsA := by rw [e1]; exact mkdirAll_dirBit c fs _ _ hw.1 hw.2
  have efA : EF fs fsA := by rw [e1]; exact mkdirAll_ef c fs _ _ hw.1
  obtain ⟨hres, hnode, hiB, hlenB⟩ := mkdir_then_resolve hc hiA hbA h2 ho.1 ⟨ho.2.1, ho.2.2.1, ho.2.2.2⟩ (by decide)
  obtain ⟨pi, hg, hbit, hfree, hB⟩ := mkdir_ok h2
  have efB : EF fsA fsB := by rw [hB]; exact ef_create hiA pi _ _ (hbA pi hbit) hfree
  obtain ⟨j, hgj, rfl⟩ := chown_ok h3
  rw [hres] at hgj; cases hgj
  have hlA : fs.nodes.length ≤ fsA.nodes.length := efA.len
  have hl2 : fsA.nodes.length < fsB.nodes.length := by omega
  have hsh : ShapeEq fsB (fsB.modify fsA.nodes.length fun n => { n with uid := (u.uid : Int), gid := (u.gid : Int) }) :=
    ShapeEq.modify fsB _ _ (by intro n; rfl) (by intro n; rfl) rfl (by intro n; rfl)
  refine ⟨⟨(efA.trans efB).ext.trans (Ext.of_shape hsh), by simp only [length_modify]; omega, ?_⟩,
    fsA.nodes.length, by rw [getNode_shape hsh]; exact hres, hlA, by simp only [length_modify]; exact hl2, ?_, ?_, ?_, ?_⟩
  · intro j hj
    have := (efA.trans efB).frame j hj
    rw [node_modify]
    have hne : ¬ (j = fsA.nodes.length ∧ fsA.nodes.length < fsB.nodes.length) := by omega
    simp only [hne, if_false]; exact this
  all_goals simp only [node_modify, hl2, and_self, if_true, hnode, newDir, homePerm]

/-- what the loop guarantees for one entry, in terms of the state `fs` its iteration started from
and the state `fs'` at the end of the whole loop -/
def HomeDone (c : Cfg) (fs fs' : FS) (u : User) : Prop :=
  u.home = devNull ∨
  ∃ i, getNode c fs' (clean u.home) = .ok i ∧ (fs'.node i).dir = true ∧
    ((getNode c fs (clean u.home) = .ok i ∧ (fs'.node i).mode = (fs.node i).mode ∧
        (fs'.node i).uid = (fs.node i).uid ∧ (fs'.node i).gid = (fs.node i).gid) ∨
     (fs.nodes.length ≤ i ∧ (getNode c fs (clean u.home)).isOk = false ∧ (fs'.node i).mode = modeDir ||| 0o700 ∧
        (fs'.node i).uid = u.uid ∧ (fs'.node i).gid = u.gid))

/-- all entries, each relative to the state its own iteration started from -/
def HomesDone (c : Cfg) : FS → FS → List User → Prop
  | _, _, [] => True
  | fs, fs', u :: rest => ∃ fs1, homeStep c fs u = (fs1, none) ∧ HomeDone c fs fs' u ∧ HomesDone c fs1 fs' rest

/-- one iteration, any branch: the graph is only extended, and the entry's home is in place -/
theorem homeStep_ok (c : Cfg) (hc : c.posix = false) (fs fs1 : FS) (u : User) (hw : WF fs)
    (ho : u.home = devNull ∨ Ordinary (clean u.home)) (h : homeStep c fs u = (fs1, none)) :
    EF fs fs1 ∧ (u.home = devNull ∨ ∃ i, getNode c fs1 (clean u.home) = .ok i ∧ i < fs1.nodes.length ∧
      (fs1.node i).dir = true ∧
      ((getNode c fs (clean u.home) = .ok i ∧ fs1 = fs) ∨
       (fs.nodes.length ≤ i ∧ (getNode c fs (clean u.home)).isOk = false ∧ (fs1.node i).mode = modeDir ||| 0o700 ∧
          (fs1.node i).uid = u.uid ∧ (fs1.node i).gid = u.gid))) := by
  by_cases hdev : u.home = devNull
  · have : homeStep c fs u = (fs, none) := by simp [homeStep, hdev]
    rw [this] at h; cases h
    exact ⟨EF.refl fs, Or.inl hdev⟩
  · have hord : Ordinary (clean u.home) := ho.resolve_left hdev
    cases hg : getNode c fs (clean u.home) with
    | ok i =>
      have hst : (step c fs (.stat (clean u.home))).2 =
          .ok (.stat (statOf c (fs.node i) (clean u.home) (clean (clean u.home)))) := by simp [step, hg]
      unfold homeStep at h
      simp only [hdev, if_false, hst] at h
      by_cases hd : (fs.node i).dir = true
      · simp only [statOf, hd, if_true, Prod.mk.injEq, and_true] at h
        subst h
        exact ⟨EF.refl fs, Or.inr ⟨i, hg, getNode_live hw.1 c _ i hg, hd, Or.inl ⟨rfl, rfl⟩⟩⟩
      · simp [statOf, hd] at h
    | error e =>
      have hst : (step c fs (.stat (clean u.home))).2 = .err e := by simp [step, hg]
      by_cases hne : e = .notExist
      · subst hne
        obtain ⟨hef, i, h1, h2, h3, h4, h5, h6, h7⟩ := homeStep_created c hc fs fs1 u hw hdev hst hord h
        exact ⟨hef, Or.inr ⟨i, h1, h3, h4, Or.inr ⟨h2, by simp [Except.isOk, Except.toBool], h5, h6, h7⟩⟩⟩
      · unfold homeStep at h
        simp only [hdev, if_false, hst] at h
        cases e <;> simp at hne h

theorem homes_loop (c : Cfg) (hc : c.posix = false) :
    ∀ (us : List User) (fs fs' : FS), WF fs →
      (∀ u ∈ us, u.home = devNull ∨ Ordinary (clean u.home)) →
      seqM (homeStep c) fs us = (fs', none) → EF fs fs' ∧ HomesDone c fs fs' us := by
  intro us
  induction us with
  | nil =>
    intro fs fs' _ _ h
    simp only [seqM, Prod.mk.injEq, and_true] at h
    subst h
    exact ⟨EF.refl fs, trivial⟩
  | cons u rest ih =>
    intro fs fs' hw ho h
    rw [seqM_cons] at h
    obtain ⟨fs1, h1, h2⟩ := andThen_ok h
    have hw1 : WF fs1 := by have := wf_homeStep c fs u hw; rw [h1] at this; exact this
    obtain ⟨ef2, hd2⟩ := ih fs1 fs' hw1 (fun v hv => ho v (List.mem_cons_of_mem _ hv)) h2
    obtain ⟨ef1, hu⟩ := homeStep_ok c hc fs fs1 u hw (ho u List.mem_cons_self) h1
    refine ⟨ef1.trans ef2, fs1, h1, ?_, hd2⟩
    rcases hu with hdev | ⟨i, hg, hl, hdir, hcase⟩
    · exact Or.inl hdev
    · have fr := ef2.frame i hl
      refine Or.inr ⟨i, getNode_ext hc ef2.ext hg, ef2.ext.dir i hdir, ?_⟩
      rcases hcase with ⟨hpre, rfl⟩ | ⟨hnew, habs, hm, hu', hg'⟩
      · exact Or.inl ⟨hpre, fr.1, fr.2.1, fr.2.2.1⟩
      · exact Or.inr ⟨hnew, habs, fr.1.trans hm, fr.2.1.trans hu', fr.2.2.1.trans hg'⟩

/-- replacing content of a node: nothing else changes -/
theorem ef_setNode_data (fs : FS) (a : Ino) (n' : Inode) (hd : n'.dir = (fs.node a).dir)
    (hc : n'.children = (fs.node a).children) (hs : n'.isSymlink = (fs.node a).isSymlink)
    (ht : n'.target = (fs.node a).target) (hm : n'.mode = (fs.node a).mode) (hu : n'.uid = (fs.node a).uid)
    (hg : n'.gid = (fs.node a).gid) : EF fs (fs.setNode a n') := by
  refine ⟨Ext.of_shape (shape_setNode fs a n' hd hc hs ht), by simp [FS.setNode], ?_⟩
  intro j _
  rw [node_setNode]; split
  · rename_i h; rw [h.1]; exact ⟨hm, hu, hg, hd⟩
  · exact ⟨rfl, rfl, rfl, rfl⟩

theorem openFileD_ef (c : Cfg) (flag perm : Nat) :
    ∀ (budget : Nat) (fs : FS) (start : List Ino) (name : Text),
      FS.Inv fs → EF fs (openFileD c flag perm budget fs start name).1 := by
  intro budget
  induction budget with
  | zero =>
    intro fs start name hi
    unfold openFileD
    simp only []
    repeat' split
    all_goals (try exact EF.refl fs)
    all_goals (try exact ef_create hi _ _ _ (by simp_all) (by simp_all))
    all_goals (try exact (ef_create hi _ _ _ (by simp_all) (by simp_all)).trans (ef_setNode_data _ _ _ rfl rfl rfl rfl rfl rfl rfl))
    all_goals (exact ef_setNode_data _ _ _ rfl rfl rfl rfl rfl rfl rfl)
  | succ k ih =>
    intro fs start name hi
    unfold openFileD
    simp only []
    repeat' split
    all_goals (try exact EF.refl fs)
    all_goals (try exact ih _ _ _ hi)
    all_goals (try exact (ef_create hi _ _ _ (by simp_all) (by simp_all)).trans (ih _ _ _ (Inv.create hi _ _ _ (by simp_all) rfl)))
    all_goals (try exact ef_create hi _ _ _ (by simp_all) (by simp_all))
    all_goals (try exact (ef_create hi _ _ _ (by simp_all) (by simp_all)).trans (ef_setNode_data _ _ _ rfl rfl rfl rfl rfl rfl rfl))
    all_goals (exact ef_setNode_data _ _ _ rfl rfl rfl rfl rfl rfl rfl)

theorem openCore_ef (c : Cfg) (fs : FS) (p : Text) (flag perm : Nat) (hi : FS.Inv fs) :
    EF fs (openCore c fs p flag perm).1 := by
  unfold openCore
  have := openFileD_ef c flag perm maxLinks fs [0] p hi
  split
  · rename_i heq; simp only [heq] at this; exact this
  · rename_i fs1 o heq
    simp only [heq] at this
    simp only [newMemFile]
    split
    · exact this.trans (ef_setNode_data _ _ _ rfl rfl rfl rfl rfl rfl rfl)
    · exact this

theorem writeBack_ef (c : Cfg) (fs : FS) (p t : Text) (hi : FS.Inv fs) : EF fs (writeBack c fs p t).1 := by
  simp only [writeBack, act, step]
  have := openCore_ef c fs p flagsWriteFile createPerm hi
  split
  · rename_i heq; simp only [heq] at this; exact this
  · rename_i heq; simp only [heq] at this
    exact this.trans (ef_setNode_data _ _ _ rfl rfl rfl rfl rfl rfl rfl)

theorem HomeDone_mono (c : Cfg) (hc : c.posix = false) (fs f2 f3 : FS) (u : User) (hi2 : FS.Inv f2)
    (he : EF f2 f3) (h : HomeDone c fs f2 u) : HomeDone c fs f3 u := by
  rcases h with hdev | ⟨i, hg, hd, hcase⟩
  · exact Or.inl hdev
  · have hl := getNode_live hi2 c _ i hg
    have fr := he.frame i hl
    refine Or.inr ⟨i, getNode_ext hc he.ext hg, he.ext.dir i hd, ?_⟩
    rcases hcase with ⟨h1, h2, h3, h4⟩ | ⟨h1, h0, h2, h3, h4⟩
    · exact Or.inl ⟨h1, fr.1.trans h2, fr.2.1.trans h3, fr.2.2.1.trans h4⟩
    · exact Or.inr ⟨h1, h0, fr.1.trans h2, fr.2.1.trans h3, fr.2.2.1.trans h4⟩

theorem HomesDone_mono (c : Cfg) (hc : c.posix = false) (f2 f3 : FS) (hi2 : FS.Inv f2) (he : EF f2 f3) :
    ∀ (us : List User) (fs : FS), HomesDone c fs f2 us → HomesDone c fs f3 us := by
  intro us
  induction us with
  | nil => intro fs _; trivial
  | cons u rest ih =>
    intro fs h
    obtain ⟨fs1, h1, h2, h3⟩ := h
    exact ⟨fs1, h1, HomeDone_mono c hc fs f2 f3 u hi2 he h2, ih fs1 h3⟩

/-- every node with an index in `[n, fs.nodes.length)` is a root-owned directory of mode `mode` -/
structure NewDirs (n : Nat) (mode : Nat) (fs : FS) : Prop where
  h : ∀ j : Nat, n ≤ j → j < fs.nodes.length →
    (fs.node j).dir = true ∧ (fs.node j).mode = mode ∧ (fs.node j).uid = 0 ∧ (fs.node j).gid = 0

theorem NewDirs.push {n mode : Nat} {fs fs' : FS} (h1 : NewDirs n mode fs) (he : EF fs fs')
    (h2 : NewDirs fs.nodes.length mode fs') : NewDirs n mode fs' := by
  refine ⟨fun j hn hj => ?_⟩
  by_cases hlt : j < fs.nodes.length
  · have fr := he.frame j hlt
    have := h1.h j hn hlt
    exact ⟨fr.2.2.2.trans this.1, fr.1.trans this.2.1, fr.2.1.trans this.2.2.1, fr.2.2.1.trans this.2.2.2⟩
  · exact h2.h j (by omega) hj

theorem newDirs_create {fs : FS} (d : Nat) (b : Name) (mode : Nat) (hd : (fs.node d).dir = true) :
    NewDirs fs.nodes.length mode (fs.create d b (newDir mode)).1 := by
  refine ⟨fun j hn hj => ?_⟩
  rw [length_create] at hj
  have : j = fs.nodes.length := by omega
  subst this
  rw [node_create_new fs d b _ hd]
  exact ⟨rfl, rfl, rfl, rfl⟩

theorem mkdirAllLoop_new (c : Cfg) (mode : Nat) :
    ∀ (rest : List Name) (fs : FS) (at_ : Pos) (tr : List Name),
      FS.Inv fs → (fs.node at_.ino).dir = true →
      NewDirs fs.nodes.length mode (mkdirAllLoop c mode rest fs at_ tr).1 := by
  intro rest
  induction rest with
  | nil => intro fs at_ tr _ _; exact ⟨fun j h1 h2 => by simp [mkdirAllLoop] at h2; omega⟩
  | cons part rest ih =>
    intro fs at_ tr hi hd
    have hempty : NewDirs fs.nodes.length mode fs := ⟨fun j h1 h2 => by omega⟩
    unfold mkdirAllLoop
    cases hl : fs.lookup at_.ino part with
    | some n =>
      simp only []
      repeat' split
      all_goals (try exact hempty)
      all_goals (apply ih _ _ _ hi; simp_all)
    | none =>
      have hi1 := hi.create at_.ino part (newDir mode) hd rfl
      have hn1 := newDirs_create (fs := fs) at_.ino part mode hd
      simp only []
      repeat' split
      all_goals (try exact hn1)
      all_goals (refine hn1.push (mkdirAllLoop_ef c mode _ _ _ _ hi1 ?_) (ih _ _ _ hi1 ?_) <;> simp_all)

/-- **parents**: the directories `MkdirAll(p, perm)` makes are all root-owned with mode `dir|perm` -/
theorem mkdirAll_new (c : Cfg) (fs : FS) (p : Text) (perm : Nat) (hi : FS.Inv fs) :
    NewDirs fs.nodes.length (modeDir ||| perm) (mkdirAll c fs p perm).1 := by
  have hempty : NewDirs fs.nodes.length (modeDir ||| perm) fs := ⟨fun j h1 h2 => by omega⟩
  unfold mkdirAll
  simp only []
  split
  · exact hempty
  · have := mkdirAllLoop_new c (modeDir ||| perm) ((parts p).filter (· ≠ dot)) fs { ino := 0 } [] hi hi.root
    split <;> simp_all

/-- the rest of one iteration of `MkdirAll`'s loop once the component's node `nn` is known -/
def mkdirAllTail (c : Cfg) (mode : Nat) (rest : List Name) (tr : List Name) (part : Name) (at_ : Pos)
    (fsk : FS) (nn : Ino) : FS × Option Err :=
  let r : Except Err Pos :=
    if (fsk.node nn).isSymlink then
      resolveFrom c fsk at_.stack (linkDest c (joinNames tr) (fsk.node nn).target)
    else .ok { ino := nn, stack := nn :: at_.stack }
  match r with
  | .error e => (fsk, some e)
  | .ok p =>
    if !(fsk.node p.ino).dir then (fsk, some .pathNotDir)
    else mkdirAllLoop c mode rest fsk p (tr ++ [part])

theorem mkdirAllLoop_cons (c : Cfg) (mode : Nat) (part : Name) (rest : List Name) (fs : FS) (at_ : Pos)
    (tr : List Name) :
    mkdirAllLoop c mode (part :: rest) fs at_ tr =
      match fs.lookup at_.ino part with
      | some x => mkdirAllTail c mode rest tr part at_ fs x
      | none => mkdirAllTail c mode rest tr part at_ (fs.create at_.ino part (newDir mode)).1
                  (fs.create at_.ino part (newDir mode)).2 := by
  rw [mkdirAllLoop]
  cases fs.lookup at_.ino part <;> rfl

/-- `MkdirAll`'s loop and the lookup of the same components in the state it leaves walk in lock
step as long as the lookup meets no symbolic link (its traversal counter does not move): the node
the lookup ends at is one the loop verified to be a directory. -/
theorem mkdirAllLoop_lockstep (c : Cfg) (mode : Nat) (r : Option (Text → Nat → Except Err (Ino × Nat)))
    (fs1 : FS) (hr : ∀ f, r = some f → ∀ t k i k', f t k = .ok (i, k') → CountOK k k') :
    ∀ (ps : List Name) (fs : FS) (at_ : Pos) (tr : List Name) (cnt : Nat) (n : Ino),
      FS.Inv fs → (fs.node at_.ino).dir = true →
      mkdirAllLoop c mode ps fs at_ tr = (fs1, none) →
      walkImpl fs1 r ps at_.ino tr cnt = .ok (n, cnt) → (fs1.node n).dir = true := by
  intro ps
  induction ps with
  | nil =>
    intro fs at_ tr cnt n _ hd hm hw
    simp only [mkdirAllLoop, Prod.mk.injEq, and_true] at hm
    simp only [walkImpl, Except.ok.injEq, Prod.mk.injEq, and_true] at hw
    subst hm; subst hw; exact hd
  | cons part rest ih =>
    intro fs at_ tr cnt n hi hd hm hw
    rw [mkdirAllLoop_cons] at hm
    -- the state and node after the lookup-or-create of this component
    obtain ⟨fsk, nn, hm, hik, hlk, hefk⟩ : ∃ fsk nn, mkdirAllTail c mode rest tr part at_ fsk nn = (fs1, none) ∧
        FS.Inv fsk ∧ fsk.lookup at_.ino part = some nn ∧ EF fs fsk := by
      cases hl : fs.lookup at_.ino part with
      | some x => rw [hl] at hm; exact ⟨fs, x, hm, hi, hl, EF.refl fs⟩
      | none =>
        rw [hl] at hm
        exact ⟨(fs.create at_.ino part (newDir mode)).1, (fs.create at_.ino part (newDir mode)).2, hm,
          hi.create _ _ _ hd rfl, lookup_create fs _ _ _ hd, ef_create hi _ _ _ hd hl⟩
    unfold mkdirAllTail at hm
    simp only [] at hm
    have hdk : (fsk.node at_.ino).dir = true := hefk.ext.dir _ hd
    by_cases hsym : (fsk.node nn).isSymlink = true
    · -- the lookup in the final state would traverse this link and move its counter
      exfalso
      simp only [hsym, if_true] at hm
      cases hres : resolveFrom c fsk at_.stack (linkDest c (joinNames tr) (fsk.node nn).target) with
      | error e => simp [hres] at hm
      | ok p =>
        simp only [hres] at hm
        by_cases hpd : (fsk.node p.ino).dir = true
        · simp only [hpd, Bool.not_true, Bool.false_eq_true, if_false] at hm
          have hef1 := mkdirAllLoop_ef c mode rest fsk p (tr ++ [part]) hik hpd
          rw [hm] at hef1
          have hl1 := hef1.ext.look _ _ _ hdk hlk
          have hs1 := (hef1.ext.sym _ _ _ hdk hlk).1
          unfold walkImpl at hw
          simp only [hef1.ext.dir _ hdk, Bool.not_true, Bool.false_eq_true, if_false, hl1, hs1, hsym, if_true] at hw
          by_cases hc' : cnt + 1 > maxLinks
          · simp [hc'] at hw
          · simp only [hc', if_false] at hw
            cases r with
            | none => simp at hw
            | some f =>
              simp only [] at hw
              split at hw
              · cases hw
              · rename_i tn cnt' hf
                have c1 := hr f rfl _ _ _ _ hf
                have c2 := walkImpl_count fs1 (some f) hr _ _ _ _ _ _ hw
                unfold CountOK at c1 c2
                omega
        · simp [hpd] at hm
    · simp only [hsym, Bool.false_eq_true, if_false] at hm
      by_cases hnd : (fsk.node nn).dir = true
      · simp only [hnd, Bool.not_true, Bool.false_eq_true, if_false] at hm
        have hef1 := mkdirAllLoop_ef c mode rest fsk { ino := nn, stack := nn :: at_.stack } (tr ++ [part]) hik hnd
        rw [hm] at hef1
        have hl1 := hef1.ext.look _ _ _ hdk hlk
        have hs1 := (hef1.ext.sym _ _ _ hdk hlk).1
        unfold walkImpl at hw
        simp only [hef1.ext.dir _ hdk, Bool.not_true, Bool.false_eq_true, if_false, hl1, hs1, hsym] at hw
        exact ih fsk { ino := nn, stack := nn :: at_.stack } (tr ++ [part]) cnt n hik hnd hm hw
      · simp [hnd] at hm

theorem shape_chmod (c : Cfg) (fs : FS) (p : Text) (pm : Nat) (hpm : pm.testBit 27 = false) :
    ShapeEq fs (act c fs (.chmod p pm)).1 := by
  simp only [act, step]
  cases hg : getNode c fs p with
  | error e => exact ShapeEq.refl fs
  | ok i =>
    exact ShapeEq.modify fs i (fun n => { n with mode := typeKeep n.mode pm }) (by intro n; rfl) (by intro n; rfl)
      (by simp [Inode.isSymlink, typeKeep_bit27 _ _ hpm]) (by intro n; rfl)

theorem shape_chown (c : Cfg) (fs : FS) (p : Text) (uid gid : Int) :
    ShapeEq fs (act c fs (.chown p uid gid)).1 := by
  simp only [act, step]
  cases hg : getNode c fs p with
  | error e => exact ShapeEq.refl fs
  | ok i =>
    exact ShapeEq.modify fs i (fun n => { n with uid := uid, gid := gid }) (by intro n; rfl) (by intro n; rfl) rfl
      (by intro n; rfl)

/-- `mutatePermissionsDirect` never changes the shape of the graph, whatever its outcome -/
theorem shape_mpd (c : Cfg) (fs : FS) (p : Text) (perms uid gid : Nat) :
    ShapeEq fs (mutatePermissionsDirect c fs p perms uid gid).1 := by
  unfold mutatePermissionsDirect
  have h1 := shape_chmod c fs p (permMode perms) (permMode_bit27 perms)
  generalize act c fs (.chmod p (permMode perms)) = r1 at h1
  rcases r1 with ⟨f1, _ | e⟩
  · exact ShapeEq.trans h1 (shape_chown c f1 p uid gid)
  · exact h1

/-- after a successful `MkdirAll(p, perm)`, a lookup of `p` that meets no symbolic link ends at a
directory -/
theorem mkdirAll_plain_dir (c : Cfg) (fs fsA : FS) (p : Text) (perm : Nat) (hi : FS.Inv fs)
    (h : act c fs (.mkdirAll p perm) = (fsA, none))
    (hnodot : (parts p).filter (· ≠ dot) = parts p)
    (i : Ino) (hplain : getNodeD fsA (maxLinks + 1) p 0 = .ok (i, 0)) : (fsA.node i).dir = true := by
  have hiA : FS.Inv fsA := by have := mkdirAll_inv c fs p perm hi; simp only [act, step, Prod.mk.injEq] at h; rw [h.1] at this; exact this
  by_cases hsd : p = slash ∨ p = dot
  · unfold getNodeD at hplain
    simp only [hsd, if_true, Except.ok.injEq, Prod.mk.injEq, and_true] at hplain
    subst hplain; exact hiA.root
  · have hd : p ≠ dot := fun h => hsd (Or.inr h)
    rw [getNodeD_eq_walk _ _ _ _ hd] at hplain
    simp only [act, step, mkdirAll, hnodot] at h
    by_cases hdd : hasDotDot (parts p) = true
    · simp [hdd, errOf] at h
    · simp only [hdd, Bool.false_eq_true, if_false] at h
      cases hm : mkdirAllLoop c (modeDir ||| perm) (parts p) fs { ino := 0 } [] with
      | mk f e =>
        cases e with
        | some e => simp [hm, errOf] at h
        | none =>
          simp only [hm, errOf, Prod.mk.injEq, and_true] at h
          subst h
          exact mkdirAllLoop_lockstep c _ _ f (by intro g hg; cases hg; exact getNodeD_count f maxLinks)
            (parts p) fs { ino := 0 } [] 0 i hi hi.root hm hplain

/-- the names `ReadDir` lists depend on the shape only -/
theorem readDir_names_shape (c : Cfg) {a b : FS} (h : ShapeEq a b) (p : Text) (ea eb : List StatInfo)
    (ha : (step c a (.readDir p)).2 = .ok (.entries ea)) (hb : (step c b (.readDir p)).2 = .ok (.entries eb)) :
    eb.map (·.name) = ea.map (·.name) := by
  simp only [step, getNode_shape h c p] at ha hb
  cases hg : getNode c a p with
  | error e => simp [hg] at ha
  | ok i =>
    simp only [hg, h.dir i, h.children i] at ha hb
    by_cases hd : (a.node i).dir = true
    · simp only [hd, Bool.not_true, Bool.false_eq_true, if_false, Out.ok.injEq, Val.entries.injEq] at ha hb
      rw [← ha, ← hb]
      simp [statOf]
    · simp [hd] at ha

/-- the fold of `walkDir` over a directory's entries: a successful fold has visited every entry -/
theorem walkFold_children (c : Cfg) (cb : FS → Text → FS × Option Err) (fuel : Nat) (name : Text)
    (hchild : ∀ (f f' : FS) (nm : Text) (d : Bool) (v : List Text),
      walkDir c cb fuel f nm d = (f', none, v) → nm ∈ v) :
    ∀ (l : List StatInfo) (f0 : FS) (v0 : List Text) (f' : FS) (v' : List Text),
      l.foldl (fun (acc : FS × Option Err × List Text) e =>
        match acc with
        | (_, some _, _) => acc
        | (fs', none, vs) =>
          let r := walkDir c cb fuel fs' (join2 name e.name) e.isDir
          (r.1, r.2.1, vs ++ r.2.2)) (f0, none, v0) = (f', none, v') →
      (∀ p ∈ v0, p ∈ v') ∧ ∀ e ∈ l, join2 name e.name ∈ v' := by
  intro l
  induction l with
  | nil =>
    intro f0 v0 f' v' he
    simp only [List.foldl, Prod.mk.injEq, true_and] at he
    obtain ⟨_, rfl⟩ := he
    exact ⟨fun p hp => hp, fun e he => by cases he⟩
  | cons e rest ihl =>
    intro f0 v0 f' v' he
    simp only [List.foldl] at he
    cases hw : walkDir c cb fuel f0 (join2 name e.name) e.isDir with
    | mk f1 r1 =>
      obtain ⟨e1, v1⟩ := r1
      simp only [hw] at he
      cases e1 with
      | some er =>
        exfalso
        have stuck : ∀ (l : List StatInfo) (x : FS) (y : List Text),
            (l.foldl (fun (acc : FS × Option Err × List Text) e =>
              match acc with
              | (_, some _, _) => acc
              | (fs', none, vs) =>
                let r := walkDir c cb fuel fs' (join2 name e.name) e.isDir
                (r.1, r.2.1, vs ++ r.2.2)) (x, some er, y)).2.1 = some er := by
          intro l
          induction l with
          | nil => intro x y; rfl
          | cons _ _ ih2 => intro x y; simp only [List.foldl]; exact ih2 x y
        have := stuck rest f1 (v0 ++ v1)
        rw [he] at this
        cases this
      | none =>
        obtain ⟨h1, h2⟩ := ihl f1 (v0 ++ v1) f' v' he
        have hin := hchild f0 f1 _ _ v1 hw
        refine ⟨fun p hp => h1 p (List.mem_append_left _ hp), ?_⟩
        intro e' he'
        rcases List.mem_cons.mp he' with rfl | hr
        · exact h1 _ (List.mem_append_right _ hin)
        · exact h2 e' hr

/-- **the walk is complete, level by level**: a successful call for a directory visits the
directory itself and every entry `ReadDir` lists for it in the final state -/
theorem walkDir_children (c : Cfg) (cb : FS → Text → FS × Option Err) (hcb : ∀ fs p, ShapeEq fs (cb fs p).1) :
    ∀ (fuel : Nat) (fs fs' : FS) (name : Text) (isDir : Bool) (vs : List Text),
      walkDir c cb fuel fs name isDir = (fs', none, vs) →
      name ∈ vs ∧ (isDir = true → ∀ es, (step c fs' (.readDir name)).2 = .ok (.entries es) →
        ∀ e ∈ es, join2 name e.name ∈ vs) := by
  intro fuel
  induction fuel with
  | zero => intro fs fs' name isDir vs h; simp [walkDir] at h
  | succ fuel ih =>
    intro fs fs' name isDir vs h
    have hsh : ShapeEq fs (walkDir c cb (fuel + 1) fs name isDir).1 :=
      walkDir_keeps c cb (ShapeEq fs) (fun f p hf => ShapeEq.trans hf (hcb f p)) _ fs name isDir (ShapeEq.refl fs)
    unfold walkDir at h
    cases hc : cb fs name with
    | mk fs1 r =>
      cases r with
      | some e => simp [hc] at h
      | none =>
        simp only [hc] at h
        by_cases hd : isDir = true
        · simp only [hd, Bool.not_true, Bool.false_eq_true, if_false] at h
          cases hrd : (step c fs1 (.readDir name)).2 with
          | ok v =>
            cases v with
            | entries es1 =>
              simp only [hrd] at h
              obtain ⟨h1, h2⟩ := walkFold_children c cb fuel name
                (fun f f' nm d v hw => (ih f f' nm d v hw).1) es1 fs1 [name] fs' vs h
              refine ⟨h1 name (by simp), fun _ es hes e he => ?_⟩
              -- same names as at visit time
              have s1 : ShapeEq fs fs1 := by have := hcb fs name; rw [hc] at this; exact this
              have s2 : ShapeEq fs fs' := by rw [show fs' = (walkDir c cb (fuel + 1) fs name isDir).1 from by
                unfold walkDir; simp only [hc, hd, Bool.not_true, Bool.false_eq_true, if_false, hrd, h]] ; exact hsh
              have s12 : ShapeEq fs1 fs' :=
                ⟨fun i => (s2.dir i).trans (s1.dir i).symm, fun i => (s2.children i).trans (s1.children i).symm,
                 fun i => (s2.sym i).trans (s1.sym i).symm, fun i => (s2.target i).trans (s1.target i).symm⟩
              have hn := readDir_names_shape c s12 name es1 es hrd hes
              have : e.name ∈ es1.map (·.name) := by rw [← hn]; exact List.mem_map_of_mem he
              obtain ⟨e1, he1, hne⟩ := List.mem_map.mp this
              rw [← hne]; exact h2 e1 he1
            | _ =>
              simp only [hrd, Prod.mk.injEq, true_and] at h
              obtain ⟨rfl, rfl⟩ := h
              refine ⟨by simp, fun _ es hes => ?_⟩
              rw [hrd] at hes; cases hes
          | err e => simp [hrd] at h
          | nohandle =>
            simp only [hrd, Prod.mk.injEq, true_and] at h
            obtain ⟨rfl, rfl⟩ := h
            refine ⟨by simp, fun _ es hes => ?_⟩
            rw [hrd] at hes; cases hes
        · have hd' : isDir = false := by simpa using hd
          simp only [hd', Bool.not_false, if_true, Prod.mk.injEq, true_and] at h
          obtain ⟨_, rfl⟩ := h
          exact ⟨by simp, fun hcontra => by simp [hd'] at hcontra⟩

end Apko.Accounts
