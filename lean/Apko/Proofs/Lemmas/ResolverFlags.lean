/-
C02 lemmas, part 8: the ghost flags the model can raise are exactly the five listed classes, so the
driver's `classOf` never answers `unlisted` for a run that raised a flag.

Core only.  For all inputs.
-/
import Apko.Driver.Resolver
import Apko.Proofs.Lemmas.ResolverTop

namespace Apko.C02
open Apko Apko.Resolver

/-- the listed classes (`KNOWN_FINDINGS.txt`) -/
def Known (f : String) : Prop := f = "F02a" ∨ f = "F02b" ∨ f = "F02c" ∨ f = "F02d" ∨ f = "F02e"

theorem mem_flag {s : St} {g f : String} (h : f ∈ (s.flag g).flags) : f ∈ s.flags ∨ f = g := by
  unfold St.flag at h
  split at h
  · exact Or.inl h
  · simpa using h

theorem mem_foldl_flag (fl : List String) (s : St) {f : String} (h : f ∈ (fl.foldl St.flag s).flags) :
    f ∈ s.flags ∨ f ∈ fl := by
  induction fl generalizing s with
  | nil => exact Or.inl h
  | cons g gs ih =>
    rcases ih _ h with h1 | h1
    · rcases mem_flag h1 with h2 | h2
      · exact Or.inl h2
      · exact Or.inr (by simp [h2])
    · exact Or.inr (List.mem_cons_of_mem _ h1)

theorem selectedCase_skipF {picked : Pkg} {dep : Text} {f : String}
    (h : selectedCase picked dep = .skipF f) : f = "F02d" := by
  unfold selectedCase at h
  simp only at h
  repeat' split at h
  all_goals first
    | (simp only [Opt.skipF.injEq] at h; exact h.symm)
    | simp at h

theorem depOption_skipF {c : Cfg} {pkg : Pkg} {allowPin : Text} {ds : DepSt} {dep : Text} {f : String}
    (h : depOption c pkg allowPin ds dep = .skipF f) : f = "F02c" ∨ f = "F02d" := by
  rw [depOption_eq] at h
  unfold depOption' at h
  split at h
  · simp at h
  · simp only at h
    split at h
    · split at h
      · simp at h
      · simp only [Opt.skipF.injEq] at h; exact Or.inl h.symm
    · split at h
      · simp at h
      · split at h
        · exact Or.inr (selectedCase_skipF h)
        · unfold candidateCase at h
          simp only at h
          repeat' split at h
          all_goals simp at h

theorem passFold_flags (c : Cfg) (pkg : Pkg) (allowPin : Text) (ds : DepSt) (l : List Text)
    (opts0 : List (Text × List Pkg)) (confs0 : List Text) (fl0 : List String)
    (opts : List (Text × List Pkg)) (confs : List Text) (fl : List String)
    (h : l.foldl (passStep c pkg allowPin ds) (some (opts0, confs0, fl0)) = some (opts, confs, fl)) :
    ∀ f ∈ fl, f ∈ fl0 ∨ Known f := by
  induction l generalizing opts0 confs0 fl0 with
  | nil =>
    simp only [List.foldl_nil, Option.some.injEq, Prod.mk.injEq] at h
    obtain ⟨_, _, rfl⟩ := h
    exact fun f hf => Or.inl hf
  | cons x xs ih =>
    simp only [List.foldl_cons] at h
    cases hx : depOption c pkg allowPin ds x with
    | skip => simp only [passStep, hx] at h; exact ih _ _ _ h
    | skipF g =>
      simp only [passStep, hx] at h
      intro f hf
      rcases ih _ _ _ h f hf with h1 | h1
      · rcases List.mem_append.mp h1 with h2 | h2
        · exact Or.inl h2
        · simp only [List.mem_singleton] at h2
          subst h2
          rcases depOption_skipF hx with h3 | h3
          · exact Or.inr (Or.inr (Or.inr (Or.inl h3)))
          · exact Or.inr (Or.inr (Or.inr (Or.inr (Or.inl h3))))
      · exact Or.inr h1
    | conflict y => simp only [passStep, hx] at h; exact ih _ _ _ h
    | fail =>
      simp only [passStep, hx] at h
      rw [passFold_none] at h
      simp at h
    | options d pkgs => simp only [passStep, hx] at h; exact ih _ _ _ h

def RecFlags (rec : Pkg → List (Text × Nat) → DepSt → Res DepOut) : Prop :=
  ∀ p ps d o, rec p ps d = .ok o → ∀ f ∈ o.ds.st.flags, f ∈ d.st.flags ∨ Known f

theorem depLoop_flags {c : Cfg} {rec : Pkg → List (Text × Nat) → DepSt → Res DepOut} (hrec : RecFlags rec)
    (pkg : Pkg) (allowPin : Text) (parents : List (Text × Nat)) (fuel : Nat) :
    ∀ (constraints : List Text) (acc out : DepOut),
      depLoop c rec pkg allowPin parents fuel constraints acc = .ok out →
      ∀ f ∈ out.ds.st.flags, f ∈ acc.ds.st.flags ∨ Known f := by
  induction fuel with
  | zero => intro _ _ _ h; simp [depLoop] at h
  | succ n ih =>
    intro constraints acc out h
    rcases depLoop_inv h with ⟨_, rfl⟩ | ⟨opts, confs, fl, hpass, hcase⟩
    · exact fun f hf => Or.inl hf
    · have hfl := passFold_flags c pkg allowPin acc.ds constraints [] acc.conflicts [] opts confs fl hpass
      have hfold : ∀ f ∈ (fl.foldl St.flag acc.ds.st).flags, f ∈ acc.ds.st.flags ∨ Known f := by
        intro f hf
        rcases mem_foldl_flag fl _ hf with h1 | h1
        · exact Or.inl h1
        · rcases hfl f h1 with h2 | h2
          · simp at h2
          · exact Or.inr h2
      rcases hcase with ⟨_, rfl⟩ | ⟨lowest, pkgs, best, dq1, sel1, sub, ex, og, _, _, _, _, hsub, hloop⟩
      · exact hfold
      · intro f hf
        rcases ih _ _ _ hloop f hf with h1 | h1
        · rcases hrec _ _ _ _ hsub f h1 with h2 | h2
          · exact hfold f h2
          · exact Or.inr h2
        · exact Or.inr h1

theorem getDeps_flags (c : Cfg) (allowPin : Text) (fuel : Nat) :
    RecFlags (fun p ps d => getDeps c fuel p allowPin ps d) := by
  induction fuel with
  | zero => intro _ _ _ _ h; simp [getDeps] at h
  | succ n ih =>
    intro pkg parents ds out h
    rcases getDeps_inv h with ⟨_, rfl⟩ | ⟨_, dq1, _, hloop⟩
    · intro f hf
      split at hf
      · rcases mem_flag hf with h1 | h1
        · exact Or.inl h1
        · exact Or.inr (Or.inr (Or.inr (Or.inr (Or.inr h1))))
      · exact Or.inl hf
    · exact depLoop_flags ih pkg allowPin parents _ _ _ _ hloop

theorem st2_flags (s : St) (b b2 : Bool) :
    ∀ f ∈ (if b2 then (if b then s.flag "F02a" else s).flag "F02b"
            else (if b then s.flag "F02a" else s)).flags, f ∈ s.flags ∨ Known f := by
  have h1 : ∀ f ∈ (if b then s.flag "F02a" else s).flags, f ∈ s.flags ∨ Known f := by
    intro f hf
    cases b
    · exact Or.inl hf
    · rcases mem_flag hf with h2 | h2
      · exact Or.inl h2
      · exact Or.inr (Or.inl h2)
  intro f hf
  cases b2
  · exact h1 f hf
  · rcases mem_flag hf with h2 | h2
    · exact h1 f h2
    · exact Or.inr (Or.inr (Or.inl h2))

theorem gpwd_flags {c : Cfg} {fuel : Nat} {w : Text} {existing : List (Text × Pkg)} {st : St} {r : WithDeps}
    (h : getPackageWithDependencies c fuel w existing st = .ok r) :
    ∀ f ∈ r.st.flags, f ∈ st.flags ∨ Known f := by
  unfold getPackageWithDependencies at h
  simp only at h
  split at h
  · simp at h
  · split at h
    · simp at h
    · simp at h
    · next out hout =>
      simp only [Res.ok.injEq] at h
      subst h
      simp only
      have h0 := getDeps_flags c _ fuel _ _ _ _ hout
      simp only at h0
      intro f hf
      rcases st2_flags out.ds.st _ _ f hf with h1 | h1
      · exact h0 f h1
      · exact Or.inr h1

theorem go_flags_known (c : Cfg) (ws : List Text) :
    ∀ (depMap : List (Text × Pkg)) (st : St) (inst : List Pkg) (confs : List Text) (r : Resolution),
      resolve.go c ws depMap st inst confs = .ok r → ∀ f ∈ r.flags, f ∈ st.flags ∨ Known f := by
  induction ws with
  | nil =>
    intro _ _ _ _ r h
    simp only [resolve.go, Res.ok.injEq] at h
    subst h
    exact fun f hf => Or.inl hf
  | cons w ws ih =>
    intro depMap st inst confs r h
    simp only [resolve.go] at h
    split at h
    · simp at h
    · simp at h
    · next r1 hg =>
      intro f hf
      rcases ih _ _ _ _ _ h f hf with h1 | h1
      · split at h1
        · rcases mem_flag h1 with h2 | h2
          · exact gpwd_flags hg f h2
          · exact Or.inr (Or.inl h2)
        · exact gpwd_flags hg f h1
      · exact Or.inr h1

/-- T `resolve_flags_known`: every ghost flag of a resolution is one of the five listed classes -/
theorem resolve_flags_known (c : Cfg) (w : List Text) (dq0 : List Nat) (r : Resolution)
    (h : resolve c w dq0 = .ok r) : ∀ f ∈ r.flags, Known f := by
  unfold resolve at h
  split at h
  · simp at h
  · split at h
    · simp at h
    · simp at h
    · intro f hf
      rcases go_flags_known c _ _ _ _ _ r h f hf with h1 | h1
      · simp at h1
      · exact h1

/-- the driver's classifier answers a listed class whenever some (known) flag was raised -/
theorem classOf_listed {flags : List String} (hne : flags ≠ []) (hk : ∀ f ∈ flags, Known f) :
    Driver.Resolver.classOf flags ≠ "unlisted" := by
  unfold Driver.Resolver.classOf
  split
  · next f hf =>
    have := List.mem_of_find?_eq_some hf
    simp only [List.mem_cons, List.not_mem_nil, or_false] at this
    rcases this with rfl | rfl | rfl | rfl | rfl <;> decide
  · next hnone =>
    exfalso
    rw [List.find?_eq_none] at hnone
    cases flags with
    | nil => exact hne rfl
    | cons g gs =>
      have hg := hk g (List.mem_cons_self ..)
      have hc : (g :: gs).contains g = true := by simp
      rcases hg with rfl | rfl | rfl | rfl | rfl
      · exact hnone "F02a" (by simp) hc
      · exact hnone "F02b" (by simp) hc
      · exact hnone "F02c" (by simp) hc
      · exact hnone "F02d" (by simp) hc
      · exact hnone "F02e" (by simp) hc

end Apko.C02
