/-
C16 / C07: on a tree-shaped header list with pairwise distinct names `sortTarHeaders` emits no record
twice.
-/
import Apko.Proofs.Lemmas.FormatsSortComplete

namespace Apko.Formats
open Apko

theorem filterMap_nodup {α β : Type} (f : α → Option β) : ∀ (l : List α), l.Nodup →
    (∀ a ∈ l, ∀ b ∈ l, ∀ x, f a = some x → f b = some x → a = b) → (l.filterMap f).Nodup := by
  intro l
  induction l with
  | nil => intro _ _; simp
  | cons a l ih =>
    intro hnd hinj
    rw [List.nodup_cons] at hnd
    have ih' := ih hnd.2 (fun a' ha' b' hb' x h1 h2 => hinj a' (by simp [ha']) b' (by simp [hb']) x h1 h2)
    cases hfa : f a with
    | none => simpa [List.filterMap_cons, hfa] using ih'
    | some x =>
      simp only [List.filterMap_cons, hfa]
      rw [List.nodup_cons]
      refine ⟨?_, ih'⟩
      intro hx
      obtain ⟨b, hb, hfb⟩ := List.mem_filterMap.mp hx
      have := hinj a (by simp) b (by simp [hb]) x hfa hfb
      exact hnd.1 (this ▸ hb)

theorem slash_prefix_unique (b1 b2 r1 r2 : Text) (h1 : '/' ∉ b1) (h2 : '/' ∉ b2)
    (e : b1 ++ '/' :: r1 = b2 ++ '/' :: r2) : b1 = b2 := by
  rcases List.append_eq_append_iff.mp e with ⟨a', e1, e2⟩ | ⟨c', e1, e2⟩
  · cases a' with
    | nil => simpa using e1.symm
    | cons y a'' =>
      simp only [List.cons_append, List.cons.injEq] at e2
      exact absurd (by rw [e1, ← e2.1]; simp) h2
  · cases c' with
    | nil => simpa using e1
    | cons y c'' =>
      simp only [List.cons_append, List.cons.injEq] at e2
      exact absurd (by rw [e1, ← e2.1]; simp) h1

/-- names on one level: none lies below another, and no path lies below two of them -/
def Sib (S : List Text) : Prop :=
  ∀ c1 ∈ S, ∀ c2 ∈ S, belowB c1 c2 = false ∧ ∀ x, belowB c1 x = true → belowB c2 x = true → c1 = c2

theorem sib_of_common (S : List Text) (pre : Text) (h : ∀ c ∈ S, ∃ b, '/' ∉ b ∧ c = pre ++ b) : Sib S := by
  intro c1 hc1 c2 hc2
  obtain ⟨b1, hb1, rfl⟩ := h c1 hc1
  obtain ⟨b2, hb2, rfl⟩ := h c2 hc2
  constructor
  · cases hb : belowB (pre ++ b1) (pre ++ b2) with
    | false => rfl
    | true =>
      obtain ⟨r, hr⟩ := (belowB_iff _ _).mp hb
      rw [List.append_assoc] at hr
      have := List.append_cancel_left hr
      exact absurd (by rw [this]; simp) hb2
  · intro x hx1 hx2
    obtain ⟨r1, e1⟩ := (belowB_iff _ _).mp hx1
    obtain ⟨r2, e2⟩ := (belowB_iff _ _).mp hx2
    rw [e1, List.append_assoc, List.append_assoc] at e2
    rw [slash_prefix_unique b1 b2 r1 r2 hb1 hb2 (List.append_cancel_left e2)]

theorem sib_children (hs : List FileRec) (ht : TreeP hs) (n : Text) (hn : cleanRel n = true) :
    Sib (childrenOf hs n) := by
  apply sib_of_common _ (n ++ ['/'])
  intro c hc
  obtain ⟨⟨d, hd, hname⟩, hdir⟩ := (mem_childrenOf_iff hs ht n c).mp hc
  have hcc : cleanRel c = true := hname ▸ ht.clean d hd
  rcases cleanRel_cases c hcc with ⟨_, h, _⟩ | ⟨d', b, _, hb, hf, hd', _⟩
  · rw [h] at hdir; exact absurd hdir.symm (cleanRel_ne_dot n hn)
  · exact ⟨b, normalComp_no_slash b hb, by rw [hf, ← hdir, hd']; simp⟩

theorem dirsOf_fst_sublist (hs : List FileRec) : ∀ (l : List Text), ((dirsOf hs l).map (·.1)).Sublist l := by
  intro l
  induction l with
  | nil => simp [dirsOf]
  | cons a l ih =>
    unfold dirsOf at ih ⊢
    rw [List.filterMap_cons]
    split
    · next heq =>
      exact List.Sublist.cons _ ih
    · next p heq =>
      have : p.1 = a := by
        split at heq
        · split at heq
          · simp only [Option.some.injEq] at heq; rw [← heq]
          · exact absurd heq (by simp)
        · exact absurd heq (by simp)
      rw [List.map_cons, this]
      exact List.Sublist.cons_cons _ ih

theorem go_nodup (hs : List FileRec) (fuel : Nat) (children : List Text) (hsib : Sib children) :
    ∀ (dirs : List (Text × FileRec)) (y : List FileRec), (dirs.map (·.1)).Nodup →
      (∀ p ∈ dirs, p.1 ∈ children ∧ p.2.name = p.1 ∧
        ∃ o, sortChildren hs fuel (childrenOf hs p.1) = some o ∧ o.Nodup ∧ ∀ x ∈ o, belowB p.1 x.name = true) →
      sortChildren.go hs fuel dirs = some y →
      y.Nodup ∧ ∀ x ∈ y, ∃ p ∈ dirs, x = p.2 ∨ belowB p.1 x.name = true := by
  intro dirs
  induction dirs with
  | nil =>
    intro y _ _ h
    rw [sortChildren.go.eq_1] at h
    simp only [Option.some.injEq] at h; subst h
    exact ⟨by simp, by simp⟩
  | cons p rest ih =>
    intro y hnd hall h
    obtain ⟨n, d⟩ := p
    rw [sortChildren.go.eq_2] at h
    split at h
    · next sub tl hsub htl =>
      simp only [Option.some.injEq] at h; subst h
      simp only [List.map_cons, List.nodup_cons] at hnd
      obtain ⟨hn_in, hdn, o, ho, hond, hob⟩ := hall (n, d) (by simp)
      simp only at hn_in hdn ho hob
      rw [hsub] at ho
      simp only [Option.some.injEq] at ho; subst ho
      obtain ⟨htl1, htl2⟩ := ih tl hnd.2 (fun q hq => hall q (by simp [hq])) htl
      have hn_not : ∀ q ∈ rest, q.1 ≠ n := by
        intro q hq e
        exact hnd.1 (List.mem_map.mpr ⟨q, hq, e⟩)
      have hq_in : ∀ q ∈ rest, q.1 ∈ children ∧ q.2.name = q.1 := fun q hq =>
        ⟨(hall q (by simp [hq])).1, (hall q (by simp [hq])).2.1⟩
      constructor
      · rw [List.cons_append, List.nodup_cons, List.nodup_append]
        refine ⟨?_, hond, htl1, ?_⟩
        · intro hm
          rcases List.mem_append.mp hm with hm | hm
          · have := hob d hm
            rw [hdn, belowB_irrefl] at this
            exact absurd this (by simp)
          · obtain ⟨q, hq, hor⟩ := htl2 d hm
            rcases hor with e | hb
            · exact hn_not q hq (by rw [← (hq_in q hq).2, ← e, hdn])
            · rw [hdn] at hb
              rw [(hsib q.1 (hq_in q hq).1 n hn_in).1] at hb
              exact absurd hb (by simp)
        · intro a ha b hb e
          subst e
          have h1 := hob a ha
          obtain ⟨q, hq, hor⟩ := htl2 a hb
          rcases hor with e | hb'
          · rw [e, (hq_in q hq).2, (hsib n hn_in q.1 (hq_in q hq).1).1] at h1
            exact absurd h1 (by simp)
          · exact hn_not q hq ((hsib q.1 (hq_in q hq).1 n hn_in).2 a.name hb' h1)
      · intro x hx
        rw [List.cons_append, List.mem_cons, List.mem_append] at hx
        rcases hx with e | hx | hx
        · exact ⟨(n, d), by simp, Or.inl e⟩
        · exact ⟨(n, d), by simp, Or.inr (hob x hx)⟩
        · obtain ⟨q, hq, hor⟩ := htl2 x hx
          exact ⟨q, by simp [hq], hor⟩
    · exact absurd h (by simp)

theorem sortTexts_nodup (l : List Text) (h : l.Nodup) : (sortTexts l).Nodup :=
  (List.mergeSort_perm l textLe).nodup_iff.mpr h

/-- one level emits no record twice -/
theorem level_nodup (hs : List FileRec) (ht : TreeP hs) (fuel : Nat) (children : List Text) (out : List FileRec)
    (hnd : children.Nodup) (hsib : Sib children)
    (hsub : ∀ c ∈ children, ∀ d, lookupHeader hs c = some d → d.isDir = true →
      ∃ o, sortChildren hs fuel (childrenOf hs c) = some o ∧ o.Nodup ∧ ∀ x ∈ o, belowB c x.name = true)
    (h : sortChildren hs (fuel + 1) children = some out) : out.Nodup := by
  rw [sortChildren.eq_2] at h
  change Option.map (fun y => filesOf hs (sortTexts children) ++ y)
    (sortChildren.go hs fuel (dirsOf hs (sortTexts children))) = some out at h
  simp only [Option.map_eq_some_iff] at h
  obtain ⟨y, hy, rfl⟩ := h
  have hsnd := sortTexts_nodup children hnd
  have hdirs : ∀ p ∈ dirsOf hs (sortTexts children), p.1 ∈ children ∧ p.2.name = p.1 ∧
      ∃ o, sortChildren hs fuel (childrenOf hs p.1) = some o ∧ o.Nodup ∧ ∀ x ∈ o, belowB p.1 x.name = true := by
    intro p hp
    rw [mem_dirsOf, mem_sortTexts] at hp
    exact ⟨hp.1, ((lookupHeader_iff hs ht p.1 p.2).mp hp.2.1).2, hsub p.1 hp.1 p.2 hp.2.1 hp.2.2⟩
  obtain ⟨hy1, hy2⟩ := go_nodup hs fuel children hsib _ y
    (List.Nodup.sublist (dirsOf_fst_sublist hs _) hsnd) hdirs hy
  rw [List.nodup_append]
  refine ⟨?_, hy1, ?_⟩
  · unfold filesOf
    apply List.Nodup.sublist List.filter_sublist
    apply filterMap_nodup _ _ hsnd
    intro a _ b _ x h1 h2
    rw [← ((lookupHeader_iff hs ht a x).mp h1).2, ← ((lookupHeader_iff hs ht b x).mp h2).2]
  · intro a ha b hb e
    subst e
    rw [mem_filesOf] at ha
    obtain ⟨had, c, hc, hl⟩ := ha
    rw [mem_sortTexts] at hc
    have hname := ((lookupHeader_iff hs ht c a).mp hl).2
    obtain ⟨p, hp, hor⟩ := hy2 a hb
    obtain ⟨hp1, hp2, _⟩ := hdirs p hp
    rw [mem_dirsOf] at hp
    rcases hor with e | hb'
    · rw [e, hp.2.2] at had; exact absurd had (by simp)
    · rw [hname, (hsib p.1 hp1 c hc).1] at hb'
      exact absurd hb' (by simp)

/-- the names as a list without repetition -/
def namesNodup (hs : List FileRec) : Bool := decide ((hs.map fun h => pathClean h.name).Nodup)

theorem childrenOf_nodup (hs : List FileRec) (h : namesNodup hs = true) (n : Text) : (childrenOf hs n).Nodup := by
  unfold namesNodup at h
  simp only [decide_eq_true_eq] at h
  unfold childrenOf
  exact List.Pairwise.filter _ h

theorem sortChildren_nodup (hs : List FileRec) (ht : TreeP hs) (hn : namesNodup hs = true) :
    ∀ (fuel : Nat) (n : Text), cleanRel n = true → weight hs n < fuel → ∀ out,
      sortChildren hs fuel (childrenOf hs n) = some out → out.Nodup := by
  intro fuel
  induction fuel with
  | zero => intro n _ h; omega
  | succ fuel ih =>
    intro n hnc hw out hout
    apply level_nodup hs ht fuel (childrenOf hs n) out (childrenOf_nodup hs hn n) (sib_children hs ht n hnc) _ hout
    intro c hc d _ _
    obtain ⟨h1, _, h3⟩ := weight_child hs ht n c hnc hc
    obtain ⟨o, ho, hiff⟩ := sortChildren_mem hs ht fuel c h1 (by omega)
    exact ⟨o, ho, ih c h1 (by omega) o ho, fun x hx => ((hiff x).mp hx).2⟩

theorem dedupTexts_nodup : ∀ (l : List Text), (dedupTexts l).Nodup := by
  intro l
  induction l with
  | nil => simp [dedupTexts]
  | cons a l ih =>
    simp only [dedupTexts, List.nodup_cons, List.mem_filter, bne_iff_ne, ne_eq, not_true_eq_false, and_false,
      not_false_eq_true, true_and]
    exact List.Pairwise.filter _ ih

/-- `sortTarHeaders` on a tree with distinct names lists every record at most once -/
theorem sortHeaders_nodup (hs : List FileRec) (ht : TreeP hs) (hn : namesNodup hs = true) (out : List FileRec)
    (h : sortHeaders hs = some out) : out.Nodup := by
  unfold sortHeaders at h
  simp only [] at h
  apply level_nodup hs ht (hs.length + 1) _ out _ _ _ h
  · exact sortTexts_nodup _ (List.Pairwise.filter _ (dedupTexts_nodup _))
  · apply sib_of_common _ []
    intro t ht'
    obtain ⟨⟨y, hy, hyd⟩, htd⟩ := (mem_top hs ht t).mp ht'
    refine ⟨t, ?_, rfl⟩
    by_cases hdot : t = ['.']
    · subst hdot; decide
    · have hne : pathDir y.name ≠ ['.'] := by rw [hyd]; exact hdot
      obtain ⟨p, hp, _, hpn⟩ := ht.parent y hy hne
      rw [← hyd, ← hpn]
      exact (dir_dot_of_no_slash p.name (ht.clean p hp)).mp (by rw [hpn, hyd]; exact htd)
  · intro t _ d hl _
    obtain ⟨hd, hdn⟩ := (lookupHeader_iff hs ht t d).mp hl
    have hc : cleanRel t = true := hdn ▸ ht.clean d hd
    have hw : weight hs t < hs.length + 1 := by have := weight_le hs t; omega
    obtain ⟨o, ho, hiff⟩ := sortChildren_mem hs ht (hs.length + 1) t hc hw
    exact ⟨o, ho, sortChildren_nodup hs ht hn _ t hc hw o ho, fun x hx => ((hiff x).mp hx).2⟩

theorem nodup_of_names (hs : List FileRec) (hn : namesNodup hs = true) : hs.Nodup := by
  unfold namesNodup at hn
  simp only [decide_eq_true_eq] at hn
  unfold List.Nodup at hn ⊢
  rw [List.pairwise_map] at hn
  exact hn.imp (fun h e => h (by rw [e]))

/-- `sortTarHeaders` on a tree with distinct names is a permutation of the `emitted` records -/
theorem sortHeaders_perm (hs : List FileRec) (ht : TreeP hs) (hn : namesNodup hs = true) :
    ∃ out, sortHeaders hs = some out ∧ out.Perm (hs.filter (emitted hs)) := by
  obtain ⟨out, h1, h2⟩ := sortHeaders_mem hs ht
  refine ⟨out, h1, ?_⟩
  rw [List.perm_ext_iff_of_nodup (sortHeaders_nodup hs ht hn out h1)
    (List.Pairwise.filter _ (nodup_of_names hs hn))]
  intro x
  rw [h2 x, List.mem_filter]

end Apko.Formats
