/-
C09, statement-level ties of the lock path (regenerated from the source on every run by extract/lock.go):

* `tie_unifyStmts`                  pkg/build/lock.go `unify`, every loop and branch opened — the statements
                                    Model/Lock.lean `unify` mirrors one by one (parseOrig = the IndexAny/TrimSuffix block,
                                    stepArch / stepPkg = the accumulator loop, hideProvided = the provider loop,
                                    missingEntries = the loop below the error return with `pin := originalPackages.versions[pkg]`
                                    where `.pinned` is meant — dead by `unify_missing_dead` —, entry / archList = the two
                                    Sprintf loops with their `sort.Strings`, missingHere = the last loop);
* `tie_lockImageConfigurationStmts` `LockImageConfiguration`: the two loops that build `resolved` (Model `resolvedOf`), the
                                    call of `unify`, the per-architecture copy of the configuration;
* `tie_lockContentsFillStmts`       the loops of `LockCmd` that fill `lock.Contents` (keyrings, packages field by field with
                                    the three ranges and checksums, build and runtime repositories);
* `tie_lockJsonFields`              every field of pkg/lock's structs with its JSON name — what `lock.json` contains;
* `tie_saveToFileStmts`             `Lock.SaveToFile`.
Any edit of these functions changes a fact and breaks its tie: the model has to be looked at again.
-/
import Apko.Generated.Lock

namespace Apko.C09

theorem tie_unifyStmts :
    Generated.unifyStmts =
      ["if len(originals) == 0",
      "  return map[string][]string{\"index\": {}}, nil, nil",
      "originalPackages := resolved{ packages: make(sets.Set[string], len(originals)), versions: make(map[string]string, len(originals)), pinned: make(map[string]string, len(originals)), }",
      "byArch := map[string][]string{}",
      "for _, orig := range originals",
      "  name := orig",
      "  version := \"\"",
      "  pinned := \"\"",
      "  if idx := strings.IndexAny(orig, \"=<>~\"); idx >= 0",
      "    name = orig[:idx]",
      "    version = orig[idx:]",
      "  if idx := strings.IndexAny(orig, \"@\"); idx >= 0",
      "    pinned = orig[idx:]",
      "  name = strings.TrimSuffix(name, pinned)",
      "  version = strings.TrimSuffix(version, pinned)",
      "  originalPackages.packages.Insert(name)",
      "  originalPackages.versions[name] = version",
      "  originalPackages.pinned[name] = pinned",
      "acc := resolved{ packages: inputs[0].packages.Clone(), versions: maps.Clone(inputs[0].versions), provided: inputs[0].provided, }",
      "for _, next := range inputs[1:]",
      "  if reflect.DeepEqual(acc.versions, next.versions) && reflect.DeepEqual(acc.provided, next.provided)",
      "    continue",
      "  if diff := acc.packages.Difference(next.packages); diff.Len() > 0",
      "    acc.packages.Delete(diff.UnsortedList()...)",
      "  for _, pkg := range acc.packages.UnsortedList()",
      "    if acc.versions[pkg] != next.versions[pkg]",
      "      acc.packages.Delete(pkg)",
      "      delete(acc.versions, pkg)",
      "      delete(acc.provided, pkg)",
      "    if !acc.provided[pkg].Equal(next.provided[pkg])",
      "      acc.provided[pkg] = acc.provided[pkg].Intersection(next.provided[pkg])",
      "missing := originalPackages.packages.Difference(acc.packages)",
      "if missing.Len() > 0",
      "  for _, provider := range acc.provided",
      "    if provider == nil",
      "      continue",
      "    if provider.HasAny(missing.UnsortedList()...)",
      "      missing = missing.Difference(provider)",
      "  if missing.Len() > 0",
      "    m := make(map[string][]string, len(missing))",
      "    for _, pkg := range sets.List(missing)",
      "      s := make(map[string]sets.Set[string], 2)",
      "      for _, in := range inputs",
      "        set, ok := s[in.versions[pkg]]",
      "        if !ok",
      "          set = sets.New[string]()",
      "        set.Insert(in.arch)",
      "        s[in.versions[pkg]] = set",
      "      versionClusters := make([]string, 0, len(s))",
      "      for k, v := range s",
      "        versionClusters = append(versionClusters, fmt.Sprintf(\"%s (%s)\", k, strings.Join(sets.List(v), \", \")))",
      "      sort.Strings(versionClusters)",
      "      m[pkg] = versionClusters",
      "    return nil, nil, <error>",
      "pl := make([]string, 0, len(acc.versions)+missing.Len())",
      "for _, pkg := range sets.List(missing)",
      "  if ver := originalPackages.versions[pkg]; ver != \"\"",
      "    if pin := originalPackages.versions[pkg]; pin != \"\"",
      "      pl = append(pl, fmt.Sprintf(\"%s%s%s\", pkg, ver, pin))",
      "    else",
      "      pl = append(pl, fmt.Sprintf(\"%s%s\", pkg, ver))",
      "  else",
      "    pl = append(pl, pkg)",
      "for _, pkg := range sets.List(acc.packages)",
      "  pkgName := fmt.Sprintf(\"%s=%s\", pkg, acc.versions[pkg])",
      "  if pin := originalPackages.pinned[pkg]; pin != \"\"",
      "    pkgName = fmt.Sprintf(\"%s%s\", pkgName, pin)",
      "  pl = append(pl, pkgName)",
      "sort.Strings(pl)",
      "byArch[\"index\"] = pl",
      "for _, input := range inputs",
      "  pl := make([]string, 0, len(input.packages))",
      "  for _, pkg := range sets.List(input.packages)",
      "    pkgName := fmt.Sprintf(\"%s=%s\", pkg, input.versions[pkg])",
      "    if pin := originalPackages.pinned[pkg]; pin != \"\"",
      "      pkgName = fmt.Sprintf(\"%s%s\", pkgName, pin)",
      "    pl = append(pl, pkgName)",
      "  sort.Strings(pl)",
      "  byArch[input.arch] = pl",
      "missingByArch := make(map[string][]string, len(inputs))",
      "for _, input := range inputs",
      "  missingHere := input.packages.Difference(acc.packages).Difference(missing)",
      "  if missingHere.Len() > 0",
      "    missingByArch[input.arch] = sets.List(missingHere)",
      "if len(missingByArch) > 0",
      "  return byArch, missingByArch, nil",
      "return byArch, nil, nil"] := by rfl

theorem tie_lockImageConfigurationStmts :
    Generated.lockImageConfigurationStmts =
      ["o, input, err := NewOptions(append(opts, WithImageConfiguration(ic))...)",
      "if err != nil",
      "  return nil, nil, err",
      "input.Contents.BuildRepositories = sets.List(sets.New(input.Contents.BuildRepositories...).Insert(o.ExtraBuildRepos...))",
      "input.Contents.RuntimeRepositories = sets.List(sets.New(input.Contents.RuntimeRepositories...).Insert(o.ExtraRuntimeRepos...))",
      "input.Contents.Keyring = sets.List(sets.New(input.Contents.Keyring...).Insert(o.ExtraKeyFiles...))",
      "mc, err := NewMultiArch(ctx, input.Archs, append(opts, WithImageConfiguration(*input))...)",
      "if err != nil",
      "  return nil, nil, err",
      "archs := make([]resolved, 0, len(input.Archs))",
      "ics := make(map[string]*types.ImageConfiguration, len(input.Archs)+1)",
      "toInstalls, err := mc.BuildPackageLists(ctx)",
      "if err != nil",
      "  return nil, nil, err",
      "for arch, pkgs := range toInstalls",
      "  r := resolved{ arch: types.ParseArchitecture(arch.ToAPK()).String(), packages: make(sets.Set[string], len(pkgs)), versions: make(map[string]string, len(pkgs)), provided: make(map[string]sets.Set[string], len(pkgs)), }",
      "  for _, pkg := range pkgs",
      "    r.packages.Insert(pkg.Name)",
      "    r.versions[pkg.Name] = pkg.Version",
      "    for _, prov := range pkg.Provides",
      "      parts := packageNameRegex.FindAllStringSubmatch(prov, -1)",
      "      if len(parts) == 0 || len(parts[0]) < 2",
      "        continue",
      "      ps, ok := r.provided[pkg.Name]",
      "      if !ok",
      "        ps = sets.New[string]()",
      "      ps.Insert(parts[0][1])",
      "      r.provided[pkg.Name] = ps",
      "  archs = append(archs, r)",
      "pls, missing, err := unify(input.Contents.Packages, archs)",
      "if err != nil",
      "  return nil, missing, err",
      "for arch, pl := range pls",
      "  copied := types.ImageConfiguration{}",
      "  if err := input.MergeInto(&copied); err != nil",
      "    return nil, nil, err",
      "  copied.Contents.Packages = pl",
      "  if arch != \"index\"",
      "    copied.Archs = []types.Architecture{types.ParseArchitecture(arch)}",
      "  ics[arch] = &copied",
      "return ics, missing, nil"] := by rfl

theorem tie_lockContentsFillStmts :
    Generated.lockContentsFillStmts =
      ["for _, keyring := range ic.Contents.Keyring",
      "  lock.Contents.Keyrings = append(lock.Contents.Keyrings, pkglock.LockKeyring{ Name: stripURLScheme(keyring), URL: keyring, })",
      "for _, rpkg := range resolvedPkgs",
      "  lockPkg := pkglock.LockPkg{ Name: rpkg.Package.Name, URL: rpkg.Package.URL(), Architecture: rpkg.Package.Arch, Version: rpkg.Package.Version, Control: pkglock.LockPkgRangeAndChecksum{ Range: fmt.Sprintf(\"bytes=%d-%d\", rpkg.SignatureSize, rpkg.SignatureSize+rpkg.ControlSize-1), Checksum: \"sha1-\" + base64.StdEncoding.EncodeToString(rpkg.ControlHash), }, Data: pkglock.LockPkgRangeAndChecksum{ Range: fmt.Sprintf(\"bytes=%d-%d\", rpkg.SignatureSize+rpkg.ControlSize, rpkg.SignatureSize+rpkg.ControlSize+rpkg.DataSize-1), Checksum: \"sha256-\" + base64.StdEncoding.EncodeToString(rpkg.DataHash), }, Checksum: rpkg.Package.ChecksumString(), }",
      "  if rpkg.SignatureSize != 0",
      "    lockPkg.Signature = pkglock.LockPkgRangeAndChecksum{ Range: fmt.Sprintf(\"bytes=0-%d\", rpkg.SignatureSize-1), Checksum: \"sha1-\" + base64.StdEncoding.EncodeToString(rpkg.SignatureHash), }",
      "  lock.Contents.Packages = append(lock.Contents.Packages, lockPkg)",
      "for _, repositoryURI := range ic.Contents.BuildRepositories",
      "  repo := apk.Repository{URI: fmt.Sprintf(\"%s/%s\", repositoryURI, arch.ToAPK())}",
      "  name, err := RemoveLabel(stripURLScheme(repo.URI))",
      "  if err != nil",
      "    return <error>",
      "  url, err := RemoveLabel(repo.IndexURI())",
      "  if err != nil",
      "    return <error>",
      "  lock.Contents.BuildRepositories = append(lock.Contents.BuildRepositories, pkglock.LockRepo{ Name: name, URL: url, Architecture: arch.ToAPK(), })",
      "for _, repositoryURI := range ic.Contents.RuntimeRepositories",
      "  repo := apk.Repository{URI: fmt.Sprintf(\"%s/%s\", repositoryURI, arch.ToAPK())}",
      "  name, err := RemoveLabel(stripURLScheme(repo.URI))",
      "  if err != nil",
      "    return <error>",
      "  url, err := RemoveLabel(repo.IndexURI())",
      "  if err != nil",
      "    return <error>",
      "  lock.Contents.RuntimeRepositories = append(lock.Contents.RuntimeRepositories, pkglock.LockRepo{ Name: name, URL: url, Architecture: arch.ToAPK(), })"] := by rfl

theorem tie_lockJsonFields :
    Generated.lockJsonFields =
      [("Lock.Version string", "json:\"version\""), ("Lock.Config *Config", "json:\"config,omitempty\""), ("Lock.Contents LockContents", "json:\"contents\""), ("Config.Name string", "json:\"name,omitempty\""), ("Config.DeepChecksum string", "json:\"checksum,omitempty\""), ("LockContents.Keyrings []LockKeyring", "json:\"keyring\""), ("LockContents.BuildRepositories []LockRepo", "json:\"build_repositories\""), ("LockContents.RuntimeRepositories []LockRepo", "json:\"repositories\""), ("LockContents.Packages []LockPkg", "json:\"packages\""), ("LockPkg.Name string", "json:\"name\""), ("LockPkg.URL string", "json:\"url\""), ("LockPkg.Version string", "json:\"version\""), ("LockPkg.Architecture string", "json:\"architecture\""), ("LockPkg.Signature LockPkgRangeAndChecksum", "json:\"signature\""), ("LockPkg.Control LockPkgRangeAndChecksum", "json:\"control\""), ("LockPkg.Data LockPkgRangeAndChecksum", "json:\"data\""), ("LockPkg.Checksum string", "json:\"checksum\""), ("LockPkgRangeAndChecksum.Range string", "json:\"range\""), ("LockPkgRangeAndChecksum.Checksum string", "json:\"checksum\""), ("LockRepo.Name string", "json:\"name\""), ("LockRepo.URL string", "json:\"url\""), ("LockRepo.Architecture string", "json:\"architecture\""), ("LockKeyring.Name string", "json:\"name\""), ("LockKeyring.URL string", "json:\"url\"")] := by rfl

theorem tie_saveToFileStmts :
    Generated.saveToFileStmts =
      ["jsonb, err := json.MarshalIndent(lock, \"\", \" \")",
      "if err != nil",
      "  return <error>",
      "jsonb = append(jsonb, '\\n')",
      "return os.WriteFile(lockFile, jsonb, os.ModePerm)"] := by rfl

/-- the mix-up `unify_missing_dead` is about is in the code as regenerated now: below the error return the loop over
`missing` reads `originalPackages.versions[pkg]` a second time where the pin is meant (Model `missingEntries`) -/
theorem unifyStmts_mixup :
    "    if pin := originalPackages.versions[pkg]; pin != \"\"" ∈ Generated.unifyStmts ∧
    "  if pin := originalPackages.pinned[pkg]; pin != \"\"" ∈ Generated.unifyStmts := by
  rw [tie_unifyStmts]
  constructor <;> simp

end Apko.C09
