import Apko.Model.Tar
import Apko.Proofs.Lemmas.TarWalk
/-! Extraction of the emitted entry list gives back the built tree (lemmas for `C06.extract_writeTar`). -/
set_option linter.unusedSimpArgs false
namespace Apko.Tar
open Apko Apko.Path Apko.FS

theorem sortX_nil : sortX [] = [] := rfl

theorem fileData_of_size_zero (b : Backend) (n : Inode) (h : effectiveSize (Cfg.impl b) n = 0) :
    fileData b n = [] := by
  unfold effectiveSize at h
  unfold fileData teLive
  cases hte : n.te with
  | none =>
    simp only [hte] at h
    simp [List.eq_nil_of_length_eq_zero h]
  | some te =>
    simp only [hte] at h
    by_cases hd : n.data.length = 0
    · have hd' := List.eq_nil_of_length_eq_zero hd
      simp [Cfg.impl, hd] at h
      by_cases hb : b = .tarfs <;> simp [hb, hd', h, Cfg.impl]
    · simp [hd] at h

/-- for a supported node the type `tar.FileInfoHeader` derives is the observable type -/
theorem kinds_agree (n : Inode) (hn : nodeOK n = true) :
    fihKind n = obsKind n ∧ (n.isSymlink = true ↔ obsKind n = .symlink) ∧
    (n.mode.testBit 21 = true ↔ obsKind n = .char) ∧ (isRegularMode n.mode = true ↔ obsKind n = .reg) ∧
    (obsKind n = .reg ∨ obsKind n = .dir ∨ obsKind n = .symlink ∨ obsKind n = .char) := by
  unfold nodeOK at hn
  simp only [Bool.and_eq_true] at hn
  obtain ⟨⟨⟨⟨⟨h1, h2⟩, h3⟩, h4⟩, _⟩, _⟩ := hn
  revert h1 h2 h3 h4
  unfold fihKind obsKind isRegularMode Inode.isSymlink
  generalize n.mode.testBit 31 = b31
  generalize n.mode.testBit 27 = b27
  generalize n.mode.testBit 26 = b26
  generalize n.mode.testBit 25 = b25
  generalize n.mode.testBit 24 = b24
  generalize n.mode.testBit 21 = b21
  generalize n.mode.testBit 19 = b19
  generalize n.dir = d
  cases b31 <;> cases b27 <;> cases b26 <;> cases b25 <;> cases b24 <;> cases b21 <;> cases b19 <;> cases d <;> simp


theorem symlink_target (n : Inode) (hn : nodeOK n = true) (hs : n.isSymlink = true) : n.target ≠ [] := by
  unfold nodeOK at hn
  simp only [Bool.and_eq_true] at hn
  obtain ⟨⟨⟨_, h4⟩, _⟩, _⟩ := hn
  simp [hs] at h4
  exact h4.2

theorem entry_attrs (b : Backend) (fs : FS) (us gs : List (Nat × Text)) (p : List Name) (i : Ino)
    (hn : nodeOK (fs.node i) = true) (hl : hlOf b (fs.node i) p = none)
    (hx : (obsKind (fs.node i) = .reg ∨ obsKind (fs.node i) = .dir) ∨ (fs.node i).xattrs = []) :
    attrsOfEntry (header b fs us gs p i) = obsAttrs b (fs.node i) ∧
    (header b fs us gs p i).kind ≠ .link ∧ (header b fs us gs p i).kind ≠ .other := by
  generalize hnn : fs.node i = n at *
  obtain ⟨hk, hsym, hchr, hreg, hsup⟩ := kinds_agree n hn
  have hz := fileData_of_size_zero b n
  have ht := symlink_target n hn
  simp only [header, hnn, hl, attrsOfEntry, obsAttrs, hdrKind, hdrSize, hdrLinkname, hdrDev, hdrXattrs,
    hdrContent, hdrLink, hk, Option.isSome_none]
  rcases hsup with h | h | h | h
  · -- regular file
    have h27 : n.isSymlink = false := by
      cases hh : n.isSymlink with
      | false => rfl
      | true => rw [hsym.mp hh] at h; cases h
    have h21 : n.mode.testBit 21 = false := by
      cases hh : n.mode.testBit 21 with
      | false => rfl
      | true => rw [hchr.mp hh] at h; cases h
    have hr : isRegularMode n.mode = true := hreg.mpr h
    simp only [h, h27, h21, hr]
    by_cases hs : effectiveSize (Cfg.impl b) n = 0
    · simp [hs, hz hs]
    · have : effectiveSize (Cfg.impl b) n > 0 := Nat.pos_of_ne_zero hs
      simp [this]
  · -- directory
    have h27 : n.isSymlink = false := by
      cases hh : n.isSymlink with
      | false => rfl
      | true => rw [hsym.mp hh] at h; cases h
    have h21 : n.mode.testBit 21 = false := by
      cases hh : n.mode.testBit 21 with
      | false => rfl
      | true => rw [hchr.mp hh] at h; cases h
    have hr : isRegularMode n.mode = false := by
      cases hh : isRegularMode n.mode with
      | false => rfl
      | true => rw [hreg.mp hh] at h; cases h
    simp [h, h27, h21, hr]
  · -- symlink
    have h27 : n.isSymlink = true := hsym.mpr h
    have h21 : n.mode.testBit 21 = false := by
      cases hh : n.mode.testBit 21 with
      | false => rfl
      | true => rw [hchr.mp hh] at h; cases h
    have hr : isRegularMode n.mode = false := by
      cases hh : isRegularMode n.mode with
      | false => rfl
      | true => rw [hreg.mp hh] at h; cases h
    have hxa : n.xattrs = [] := by
      rcases hx with (hx | hx) | hx
      · rw [h] at hx; cases hx
      · rw [h] at hx; cases hx
      · exact hx
    simp [h, h27, h21, hr, ht h27, hxa, sortX_nil]
  · -- character device
    have h27 : n.isSymlink = false := by
      cases hh : n.isSymlink with
      | false => rfl
      | true => rw [hsym.mp hh] at h; cases h
    have h21 : n.mode.testBit 21 = true := hchr.mpr h
    have hr : isRegularMode n.mode = false := by
      cases hh : isRegularMode n.mode with
      | false => rfl
      | true => rw [hreg.mp hh] at h; cases h
    have hxa : n.xattrs = [] := by
      rcases hx with (hx | hx) | hx
      · rw [h] at hx; cases hx
      · rw [h] at hx; cases hx
      · exact hx
    simp [h, h27, h21, hr, hxa, sortX_nil]

theorem hl_not_symlink (n : Inode) (hn : nodeOK n = true) (b : Backend) (p : List Name) (l : Text)
    (hl : hlOf b n p = some l) : n.isSymlink = false := by
  obtain ⟨_, hsym, _, _, _⟩ := kinds_agree n hn
  have hne : n.hardlinks ≠ [] := by
    intro h
    unfold hlOf at hl
    rw [h] at hl
    split at hl <;> simp at hl
  unfold nodeOK at hn
  simp only [Bool.and_eq_true, Bool.or_eq_true, decide_eq_true_eq] at hn
  obtain ⟨_, h6⟩ := hn
  cases hh : n.isSymlink with
  | false => rfl
  | true =>
    have hk := hsym.mp hh
    rcases h6 with (h6 | h6) | h6
    · simp [List.isEmpty_iff] at h6; exact absurd h6 hne
    · rw [hk] at h6; cases h6
    · rw [hk] at h6; cases h6

theorem entry_link (b : Backend) (fs : FS) (us gs : List (Nat × Text)) (p : List Name) (i : Ino) (l : Text)
    (hn : nodeOK (fs.node i) = true) (hl : hlOf b (fs.node i) p = some l) :
    (header b fs us gs p i).kind = .link ∧ (header b fs us gs p i).linkname = l := by
  have hs := hl_not_symlink _ hn b p l hl
  simp [header, hl, hdrKind, hdrLinkname, hdrLink, hs]

theorem header_path (b : Backend) (fs : FS) (us gs : List (Nat × Text)) (p : List Name) (i : Ino) :
    (header b fs us gs p i).path = p := rfl

/-! ### the extracted tree as a function of the walk -/

/-- index of the first walk entry that is a name of node `i` -/
def firstIdx (W : List (List Name × Ino)) (i : Ino) : Nat := W.findIdx fun w => decide (w.2 = i)

/-- what extraction makes of node `i` -/
def xnodeOf (b : Backend) (fs : FS) (W : List (List Name × Ino)) (i : Ino) : XNode :=
  { attrs := obsAttrs b (fs.node i), ident := firstIdx W i }

def treeOf (b : Backend) (fs : FS) (W l : List (List Name × Ino)) : Tree :=
  l.map fun w => (w.1, xnodeOf b fs W w.2)

theorem lookup_treeOf_none (b : Backend) (fs : FS) (W : List (List Name × Ino)) (p : List Name) :
    ∀ l : List (List Name × Ino), p ∉ l.map (·.1) → (treeOf b fs W l).lookup p = none := by
  intro l
  induction l with
  | nil => intro _; rfl
  | cons a l ih =>
    intro h
    simp only [List.map_cons, List.mem_cons, not_or] at h
    simp only [treeOf, List.map_cons, List.lookup_cons]
    have : (p == a.1) = false := by simpa using h.1
    rw [this]
    exact ih h.2

theorem lookup_treeOf_mem (b : Backend) (fs : FS) (W : List (List Name × Ino)) (y : List Name × Ino) :
    ∀ l : List (List Name × Ino), (l.map (·.1)).Nodup → y ∈ l →
      (treeOf b fs W l).lookup y.1 = some (xnodeOf b fs W y.2) := by
  intro l
  induction l with
  | nil => intro _ h; simp at h
  | cons a l ih =>
    intro hn hy
    simp only [List.map_cons, List.nodup_cons] at hn
    simp only [treeOf, List.map_cons, List.lookup_cons]
    by_cases hay : y.1 = a.1
    · have : (y.1 == a.1) = true := by simpa using hay
      rw [this]
      rcases List.mem_cons.mp hy with rfl | hy'
      · rfl
      · exfalso
        apply hn.1
        rw [← hay]
        exact List.mem_map_of_mem hy'
    · have : (y.1 == a.1) = false := by simpa using hay
      rw [this]
      rcases List.mem_cons.mp hy with rfl | hy'
      · exact absurd rfl hay
      · exact ih hn.2 hy'

theorem firstIdx_first (W1 W2 : List (List Name × Ino)) (w : List Name × Ino)
    (h : ∀ y ∈ W1, y.2 ≠ w.2) : firstIdx (W1 ++ w :: W2) w.2 = W1.length := by
  unfold firstIdx
  induction W1 with
  | nil => simp [List.findIdx_cons]
  | cons a W1 ih =>
    have ha : a.2 ≠ w.2 := h a (by simp)
    simp only [List.cons_append, List.findIdx_cons, ha, decide_false, cond_false, List.length_cons]
    rw [ih (fun y hy => h y (by simp [hy]))]

theorem firstIdx_inj (W : List (List Name × Ino)) (w1 w2 : List Name × Ino) (h1 : w1 ∈ W) (h2 : w2 ∈ W)
    (h : firstIdx W w1.2 = firstIdx W w2.2) : w1.2 = w2.2 := by
  unfold firstIdx at h
  have l1 : W.findIdx (fun w => decide (w.2 = w1.2)) < W.length :=
    List.findIdx_lt_length_of_exists ⟨w1, h1, by simp⟩
  have l2 : W.findIdx (fun w => decide (w.2 = w2.2)) < W.length :=
    List.findIdx_lt_length_of_exists ⟨w2, h2, by simp⟩
  have e1 := List.findIdx_getElem (xs := W) (p := fun w => decide (w.2 = w1.2)) (w := l1)
  have e2 := List.findIdx_getElem (xs := W) (p := fun w => decide (w.2 = w2.2)) (w := l2)
  simp only [decide_eq_true_eq] at e1 e2
  rw [← e1, ← e2]
  congr 2

/-! ### what the proof needs to know about the walk -/

structure WalkFacts (b : Backend) (fs : FS) (W : List (List Name × Ino)) : Prop where
  nodup : (W.map (·.1)).Nodup
  nonempty : ∀ w ∈ W, w.1 ≠ []
  parents : ∀ l1 w l2, W = l1 ++ w :: l2 →
    w.1.dropLast = [] ∨ ∃ y ∈ l1, y.1 = w.1.dropLast ∧ (fs.node y.2).dir = true
  nodes : ∀ w ∈ W, nodeOK (fs.node w.2) = true
  lat : ∀ l1 w l2, W = l1 ++ w :: l2 → latOK b fs l1 w = true
  lreg : ∀ l1 w l2, W = l1 ++ w :: l2 → lregOK b fs l1 w = true
  xat : ∀ w ∈ W, (obsKind (fs.node w.2) = .reg ∨ obsKind (fs.node w.2) = .dir) ∨ (fs.node w.2).xattrs = []

theorem obsKind_dir (n : Inode) (hn : nodeOK n = true) : obsKind n = .dir ↔ n.dir = true := by
  unfold nodeOK at hn
  simp only [Bool.and_eq_true] at hn
  obtain ⟨⟨⟨⟨⟨h1, _⟩, _⟩, _⟩, _⟩, _⟩ := hn
  have h1 : n.dir = n.mode.testBit 31 := by simpa using h1
  unfold obsKind
  rw [h1]
  cases n.mode.testBit 31 <;> simp
  repeat' split
  all_goals simp

theorem extractStep_walk (b : Backend) (fs : FS) (us gs : List (Nat × Text)) (W W1 W2 : List (List Name × Ino))
    (w : List Name × Ino) (hf : WalkFacts b fs W) (hW : W = W1 ++ w :: W2) :
    extractStep (treeOf b fs W W1) (header b fs us gs w.1 w.2) = .ok (treeOf b fs W (W1 ++ [w])) := by
  have hwW : w ∈ W := by rw [hW]; simp
  have hsub : ∀ y ∈ W1, y ∈ W := by intro y hy; rw [hW]; simp [hy]
  have hnd := hf.nodup
  rw [hW, List.map_append, List.nodup_append] at hnd
  obtain ⟨hnd1, hnd2, hnd3⟩ := hnd
  have hfresh : w.1 ∉ W1.map (·.1) := by
    intro hm
    exact hnd3 _ hm _ (by simp) rfl
  unfold extractStep
  rw [header_path]
  rw [if_neg (hf.nonempty w hwW)]
  rw [lookup_treeOf_none b fs W w.1 W1 hfresh]
  simp only [Option.isSome_none, Bool.false_eq_true, if_false]
  -- the parent
  have hpar : parentOK (treeOf b fs W W1) w.1 = true := by
    unfold parentOK
    rcases hf.parents W1 w W2 hW with h | ⟨y, hy, hyp, hyd⟩
    · simp [h]
    · rw [← hyp, lookup_treeOf_mem b fs W y W1 hnd1 hy]
      have := (obsKind_dir _ (hf.nodes y (hsub y hy))).mpr hyd
      simp [xnodeOf, obsAttrs, this]
  rw [hpar]
  simp only [Bool.not_true, Bool.false_eq_true, if_false]
  have hn := hf.nodes w hwW
  cases hl : hlOf b (fs.node w.2) w.1 with
  | none =>
    obtain ⟨ha, hk1, hk2⟩ := entry_attrs b fs us gs w.1 w.2 hn hl (hf.xat w hwW)
    have hreg := hf.lreg W1 w W2 hW
    simp only [lregOK, hl, Option.isSome_none, Bool.false_or, List.all_eq_true, decide_eq_true_eq] at hreg
    have hid : firstIdx W w.2 = W1.length := by
      rw [hW]; exact firstIdx_first W1 W2 w hreg
    have hres : treeOf b fs W (W1 ++ [w]) =
        treeOf b fs W W1 ++ [(w.1, { attrs := attrsOfEntry (header b fs us gs w.1 w.2), ident := (treeOf b fs W W1).length })] := by
      simp [treeOf, xnodeOf, ha, hid]
    rw [hres]
    cases hk : (header b fs us gs w.1 w.2).kind <;> first | rfl | exact absurd hk hk1 | exact absurd hk hk2
  | some l =>
    obtain ⟨hk, hln⟩ := entry_link b fs us gs w.1 w.2 l hn hl
    have hlat := hf.lat W1 w W2 hW
    simp only [latOK, hl, List.any_eq_true, Bool.and_eq_true, decide_eq_true_eq, Bool.not_eq_true'] at hlat
    obtain ⟨y, hy, ⟨hy1, hy2⟩, hy3⟩ := hlat
    have hlook := lookup_treeOf_mem b fs W y W1 hnd1 hy
    rw [hy1, hy2] at hlook
    have hnd : (xnodeOf b fs W w.2).attrs.kind ≠ .dir := by
      intro hd
      have := (obsKind_dir _ (hf.nodes y (hsub y hy))).mp (by rw [hy2]; simpa [xnodeOf, obsAttrs] using hd)
      rw [hy3] at this
      cases this
    rw [hk]
    simp only [hln, hlook, hnd, if_false]
    simp [treeOf]

theorem extractFrom_walk (b : Backend) (fs : FS) (us gs : List (Nat × Text)) (W : List (List Name × Ino))
    (hf : WalkFacts b fs W) : ∀ (W2 W1 : List (List Name × Ino)), W = W1 ++ W2 →
    extractFrom (treeOf b fs W W1) (W2.map fun w => header b fs us gs w.1 w.2) = .ok (treeOf b fs W W) := by
  intro W2
  induction W2 with
  | nil => intro W1 h; simp [extractFrom, h]
  | cons w W2 ih =>
    intro W1 hW
    simp only [List.map_cons, extractFrom]
    rw [extractStep_walk b fs us gs W W1 W2 w hf hW]
    exact ih (W1 ++ [w]) (by simp [hW])

/-- the extracted tree is the observed tree -/
theorem treeOf_same (b : Backend) (fs : FS) : SameTree (treeOf b fs (walk fs) (walk fs)) (observeTree b fs) := by
  constructor
  · simp [treeOf, observeTree, xnodeOf, List.map_map, Function.comp_def]
  · unfold treeOf observeTree
    rw [List.zip_map']
    intro a ha c hc
    simp only [List.mem_map] at ha hc
    obtain ⟨w1, h1, rfl⟩ := ha
    obtain ⟨w2, h2, rfl⟩ := hc
    simp only [xnodeOf]
    constructor
    · exact firstIdx_inj _ w1 w2 h1 h2
    · intro h; rw [h]

/-- the facts hold for the walk of a well-formed state under the three hypotheses -/
theorem walkFacts_of (b : Backend) (fs : FS) (hwf : WF fs)
    (h1 : linksAfterTargets b fs = true) (h2 : linksRegistered b fs = true) (h3 : xattrsCaptured fs = true) :
    WalkFacts b fs (walk fs) where
  nodup := walk_nodup fs hwf.inv
  nonempty := walk_nonempty fs
  parents := fun l1 w l2 h => walk_parents_first_dir fs l1 l2 w h
  nodes := fun w _ => hwf.nodes w.2
  lat := fun l1 w l2 h => by simpa using scanAll_split (pre := []) h1 h
  lreg := fun l1 w l2 h => by simpa using scanAll_split (pre := []) h2 h
  xat := fun w hw => by
    have := List.all_eq_true.mp h3 w hw
    simp only [Bool.or_eq_true, decide_eq_true_eq, List.isEmpty_iff] at this
    exact this

end Apko.Tar
