/-
C11 — the executable oracle of `Model/Sbom.lean` (what the driver evaluates on every document Go emits)
read as a proposition: `oracle o fs d = none ↔ Describes o fs d`.

Also: `idCollision o = false` (the class predicate of F11a, as the driver computes it) unfolded into
"the generated apk identifiers are distinct from the header's and injective on the installed apks".
-/
import Apko.Proofs.Lemmas.SbomGen

namespace Apko.Sbom
open Apko

/-! ### `eraseDups` and `Nodup` -/

theorem eraseDups_length_le {α} [BEq α] : ∀ (l : List α), l.eraseDups.length ≤ l.length
  | [] => by simp
  | a :: as => by
    rw [List.eraseDups_cons]
    have h1 := eraseDups_length_le (as.filter fun b => !b == a)
    have h2 := List.length_filter_le (fun b => !b == a) as
    simp only [List.length_cons]; omega
termination_by l => l.length
decreasing_by
  have := List.length_filter_le (fun b => !b == a) as
  simp only [List.length_cons]; omega

theorem nodup_of_eraseDups_length {α} [BEq α] [LawfulBEq α] :
    ∀ (l : List α), l.eraseDups.length = l.length → l.Nodup
  | [] => by simp
  | a :: as => by
    intro h
    rw [List.eraseDups_cons] at h
    have h1 := eraseDups_length_le (as.filter fun b => !b == a)
    have h2 := List.length_filter_le (fun b => !b == a) as
    simp only [List.length_cons] at h
    have hf : (as.filter fun b => !b == a).length = as.length := by omega
    have hall := List.length_filter_eq_length_iff.mp hf
    have hfe : as.filter (fun b => !b == a) = as := List.filter_eq_self.mpr hall
    rw [hfe] at h
    refine List.nodup_cons.mpr ⟨?_, nodup_of_eraseDups_length as (by omega)⟩
    intro hm
    have := hall a hm
    simp at this

theorem eraseDups_of_nodup {α} [BEq α] [LawfulBEq α] : ∀ (l : List α), l.Nodup → l.eraseDups = l
  | [], _ => by simp
  | a :: as, h => by
    have hc := List.nodup_cons.mp h
    have hfe : as.filter (fun b => !b == a) = as := List.filter_eq_self.mpr (by
      intro b hb
      have : b ≠ a := fun e => hc.1 (e ▸ hb)
      simpa using this)
    rw [List.eraseDups_cons, hfe, eraseDups_of_nodup as hc.2]

theorem nodup_eraseDups {α} [BEq α] [LawfulBEq α] : ∀ (l : List α), l.eraseDups.Nodup
  | [] => by simp
  | a :: as => by
    rw [List.eraseDups_cons]
    refine List.nodup_cons.mpr ⟨?_, nodup_eraseDups _⟩
    intro hm
    have := (List.mem_filter.mp (List.mem_eraseDups.mp hm)).2
    simp at this
termination_by l => l.length
decreasing_by
  have := List.length_filter_le (fun b => !b == a) as
  simp only [List.length_cons]; omega

theorem inj_of_nodup_map {α β} {f : α → β} {l : List α} (h : (l.map f).Nodup) :
    ∀ a ∈ l, ∀ b ∈ l, f a = f b → a = b := by
  induction l with
  | nil => intro a ha; cases ha
  | cons x xs ih =>
    simp only [List.map_cons, List.nodup_cons, List.mem_map, not_exists, not_and] at h
    intro a ha b hb e
    rcases List.mem_cons.mp ha with ea | ha' <;> rcases List.mem_cons.mp hb with eb | hb'
    · rw [ea, eb]
    · subst ea; exact absurd e.symm (h.1 b hb')
    · subst eb; exact absurd e (h.1 a ha')
    · exact ih h.2 a ha' b hb' e

theorem nodup_of_nodup_map {α β} (f : α → β) {l : List α} (h : (l.map f).Nodup) : l.Nodup := by
  induction l with
  | nil => exact List.nodup_nil
  | cons x xs ih =>
    simp only [List.map_cons, List.nodup_cons, List.mem_map, not_exists, not_and] at h
    exact List.nodup_cons.mpr ⟨fun hm => h.1 x hm rfl, ih h.2⟩

theorem length_le_one_of_all_eq {α} {l : List α} {c : α} (hn : l.Nodup) (h : ∀ x ∈ l, x = c) : l.length ≤ 1 := by
  match l, hn, h with
  | [], _, _ => simp
  | [_], _, _ => simp
  | x :: y :: _, hn, h =>
    have hx := h x (by simp)
    have hy := h y (by simp)
    have := (List.nodup_cons.mp hn).1
    exact absurd (by simp [hx, hy]) this

/-! ### the clauses of the oracle as propositions -/

theorem idsUnique_iff (d : Doc) : idsUnique d = true ↔ d.ids.Nodup := by
  simp only [idsUnique, decide_eq_true_eq]
  exact ⟨nodup_of_eraseDups_length _, fun h => by rw [eraseDups_of_nodup _ h]⟩

theorem idsValid_iff (fs : SbomDir) (d : Doc) : idsValid fs d = true ↔ GoodIds fs d := by
  simp [idsValid, GoodIds, List.all_eq_true]

/-- the image element: the single described element is named by the digest and carries its hex as SHA256 -/
def ImageOk (o : Opts) (d : Doc) : Prop :=
  o.imageDigest.isEmpty = false → ∃ i, d.describes = [i] ∧ ∃ p ∈ d.packages,
    p.id = i ∧ p.name = o.imageDigest ∧
    ("SHA256".toList, trimPrefix "sha256:".toList o.imageDigest) ∈ p.checksums

theorem imageOk_iff (o : Opts) (d : Doc) : imageOk o d = true ↔ ImageOk o d := by
  unfold imageOk ImageOk
  cases he : o.imageDigest.isEmpty
  · simp only [Bool.false_eq_true, if_false, true_implies]
    split
    · next i hd =>
      simp only [hd, List.any_eq_true, Bool.and_eq_true, decide_eq_true_eq, List.contains_eq_mem,
        List.cons.injEq, and_true, exists_eq_left']
      constructor
      · rintro ⟨p, hp, ⟨h1, h2⟩, h3⟩; exact ⟨p, hp, h1, h2, h3⟩
      · rintro ⟨p, hp, h1, h2, h3⟩; exact ⟨p, hp, ⟨h1, h2⟩, h3⟩
    · next hne =>
      constructor
      · intro h; cases h
      · rintro ⟨i, hd, _⟩; exact absurd hd (hne i)
  · simp

/-- every layer has an element named by its digest which (when there is an image element) a described
element CONTAINS -/
def LayersOk (o : Opts) (d : Doc) : Prop :=
  ∀ l ∈ o.layers, ∃ p ∈ d.packages, p.name = l ∧
    (o.imageDigest.isEmpty = true ∨
     ∃ r ∈ d.rels, r.related = p.id ∧ r.type = "CONTAINS".toList ∧ r.element ∈ d.describes)

theorem layersOk_iff (o : Opts) (d : Doc) : layersOk o d = true ↔ LayersOk o d := by
  simp only [layersOk, LayersOk, List.all_eq_true, List.any_eq_true, Bool.and_eq_true, Bool.or_eq_true,
    decide_eq_true_eq, List.contains_eq_mem]
  constructor
  · intro h l hl
    obtain ⟨p, hp, h1, h2⟩ := h l hl
    refine ⟨p, hp, h1, ?_⟩
    rcases h2 with h2 | ⟨r, hr, ⟨h3, h4⟩, h5⟩
    · exact Or.inl h2
    · exact Or.inr ⟨r, hr, h3, h4, h5⟩
  · intro h l hl
    obtain ⟨p, hp, h1, h2⟩ := h l hl
    refine ⟨p, hp, h1, ?_⟩
    rcases h2 with h2 | ⟨r, hr, h3, h4, h5⟩
    · exact Or.inl h2
    · exact Or.inr ⟨r, hr, ⟨h3, h4⟩, h5⟩

/-- the element carries the installed database's name, version and checksum of `a` -/
def Matches (a : Apk) (p : Pkg) : Prop :=
  p.name = a.name ∧ p.version = a.version ∧ ("SHA1".toList, a.checksum) ∈ p.checksums

theorem matchesApk_iff (a : Apk) (p : Pkg) : matchesApk a p = true ↔ Matches a p := by
  simp [matchesApk, Matches, and_assoc]

/-- every installed apk has an element with the database's name, version and checksum, and at most one
such element that is not a verbatim import from an embedded SBOM -/
def ApksOk (o : Opts) (fs : SbomDir) (d : Doc) : Prop :=
  ∀ a ∈ o.apks, (∃ p ∈ d.packages, Matches a p) ∧
    ((d.packages.filter (matchesApk a)).filter (fun p => !(embeddedPkgs fs).contains p)).length ≤ 1

theorem apksOk_iff (o : Opts) (fs : SbomDir) (d : Doc) : apksOk o fs d = true ↔ ApksOk o fs d := by
  simp only [apksOk, ApksOk, List.all_eq_true, Bool.and_eq_true, Bool.not_eq_true', decide_eq_true_eq]
  constructor
  · intro h a ha
    obtain ⟨h1, h2⟩ := h a ha
    refine ⟨?_, h2⟩
    cases hm : d.packages.filter (matchesApk a) with
    | nil => rw [hm] at h1; simp at h1
    | cons p ps =>
      have hp : p ∈ d.packages.filter (matchesApk a) := by rw [hm]; simp
      have := List.mem_filter.mp hp
      exact ⟨p, this.1, (matchesApk_iff a p).mp this.2⟩
  · intro h a ha
    obtain ⟨⟨p, hp, hm⟩, h2⟩ := h a ha
    refine ⟨?_, h2⟩
    have : p ∈ d.packages.filter (matchesApk a) := List.mem_filter.mpr ⟨hp, (matchesApk_iff a p).mpr hm⟩
    cases hl : d.packages.filter (matchesApk a) with
    | nil => rw [hl] at this; cases this
    | cons _ _ => rfl

/-- every element is the image, a layer, the source, an installed apk or an import from an embedded SBOM -/
def NoStray (o : Opts) (fs : SbomDir) (d : Doc) : Prop :=
  ∀ p ∈ d.packages, p.name = o.imageDigest ∨ p.name ∈ o.layers ∨ p.id = sourceId o.vcsUrl ∨
    (∃ a ∈ o.apks, Matches a p) ∨ p ∈ embeddedPkgs fs

theorem noStray_iff (o : Opts) (fs : SbomDir) (d : Doc) :
    (strayElements o fs d).isEmpty = true ↔ NoStray o fs d := by
  unfold strayElements NoStray
  rw [List.isEmpty_iff, List.filter_eq_nil_iff]
  constructor
  · intro h p hp
    have := h p hp
    simp only [Bool.not_eq_true', Bool.not_eq_false, Bool.or_eq_true, decide_eq_true_eq,
      List.contains_eq_mem, List.any_eq_true, matchesApk_iff] at this
    rcases this with (((h | h) | h) | h) | h
    · exact Or.inl h
    · exact Or.inr (Or.inl h)
    · exact Or.inr (Or.inr (Or.inl h))
    · exact Or.inr (Or.inr (Or.inr (Or.inl h)))
    · exact Or.inr (Or.inr (Or.inr (Or.inr h)))
  · intro h p hp
    simp only [Bool.not_eq_true', Bool.not_eq_false, Bool.or_eq_true, decide_eq_true_eq,
      List.contains_eq_mem, List.any_eq_true, matchesApk_iff]
    rcases h p hp with h | h | h | h | h
    · exact Or.inl (Or.inl (Or.inl (Or.inl h)))
    · exact Or.inl (Or.inl (Or.inl (Or.inr h)))
    · exact Or.inl (Or.inl (Or.inr h))
    · exact Or.inl (Or.inr h)
    · exact Or.inr h

/-- **the property C11 on one document**, as a proposition over the build's inputs -/
structure Describes (o : Opts) (fs : SbomDir) (d : Doc) : Prop where
  idsValid : GoodIds fs d
  idsUnique : d.ids.Nodup
  refs : Closed d
  image : ImageOk o d
  layers : LayersOk o d
  apks : ApksOk o fs d
  noStray : NoStray o fs d

theorem oracle_none_bool (o : Opts) (fs : SbomDir) (d : Doc) :
    oracle o fs d = none ↔ (idsValid fs d = true ∧ idsUnique d = true ∧ refsResolve d = true ∧
      imageOk o d = true ∧ layersOk o d = true ∧ apksOk o fs d = true ∧
      (strayElements o fs d).isEmpty = true) := by
  unfold oracle
  cases idsValid fs d <;> cases idsUnique d <;> cases refsResolve d <;> cases imageOk o d <;>
    cases layersOk o d <;> cases apksOk o fs d <;> cases (strayElements o fs d).isEmpty <;> simp

/-- the executable oracle passes exactly when the document satisfies the specification -/
theorem oracle_none_iff (o : Opts) (fs : SbomDir) (d : Doc) : oracle o fs d = none ↔ Describes o fs d := by
  rw [oracle_none_bool, idsValid_iff, idsUnique_iff, refsResolve_iff, imageOk_iff, layersOk_iff, apksOk_iff,
    noStray_iff]
  exact ⟨fun ⟨a, b, c, e, f, g, h⟩ => ⟨a, b, c, e, f, g, h⟩, fun ⟨a, b, c, e, f, g, h⟩ => ⟨a, b, c, e, f, g, h⟩⟩

/-- when the clauses that hold of every model output are out of the way, the oracle's answer is decided by
referential integrity and the apk elements, in this order -/
theorem oracle_two_clauses {o : Opts} {fs : SbomDir} {d : Doc} (h1 : GoodIds fs d) (h2 : d.ids.Nodup)
    (h3 : ImageOk o d) (h4 : LayersOk o d) (h5 : NoStray o fs d) :
    oracle o fs d = if refsResolve d = false then some "dangling-reference"
      else if apksOk o fs d = false then some "apk-element" else none := by
  unfold oracle
  rw [(idsValid_iff fs d).mpr h1, (idsUnique_iff d).mpr h2, (imageOk_iff o d).mpr h3,
    (layersOk_iff o d).mpr h4, (noStray_iff o fs d).mpr h5]
  cases refsResolve d <;> cases apksOk o fs d <;> simp

/-! ### F11a's class predicate unfolded -/

theorem idCollision_go_false (n : Text) (l : List Apk) (seen : List Id) :
    idCollision.go n l seen = false ↔ (∀ a ∈ l, apkId n a ∉ seen) ∧ (l.map (apkId n)).Nodup := by
  induction l generalizing seen with
  | nil => simp [idCollision.go]
  | cons a as ih =>
    simp only [idCollision.go, Bool.or_eq_false_iff, ih, List.contains_eq_mem, decide_eq_false_iff_not,
      List.mem_cons, not_or, List.map_cons, List.nodup_cons, List.mem_map, not_exists, not_and,
      forall_eq_or_imp]
    constructor
    · rintro ⟨h1, h2, h3⟩
      exact ⟨⟨h1, fun b hb => (h2 b hb).2⟩, fun b hb e => (h2 b hb).1 e, h3⟩
    · rintro ⟨⟨h1, h2⟩, h3, h4⟩
      exact ⟨h1, fun b hb => ⟨fun e => h3 b hb e, h2 b hb⟩, h4⟩

/-- `¬F11a` as the driver computes it: no installed apk gets the identifier of a header element, and two
installed apks with the same identifier are the same database entry -/
theorem idCollision_false {o : Opts} :
    idCollision o = false ↔
      (∀ a ∈ o.apks, apkId (nonceOf o.imageDigest) a ∉ (header o).ids) ∧
      (∀ a ∈ o.apks, ∀ b ∈ o.apks, apkId (nonceOf o.imageDigest) a = apkId (nonceOf o.imageDigest) b → a = b) := by
  unfold idCollision
  simp only [idCollision_go_false, List.mem_eraseDups]
  constructor
  · rintro ⟨h1, h2⟩
    exact ⟨h1, fun a ha b hb e =>
      inj_of_nodup_map h2 a (List.mem_eraseDups.mpr ha) b (List.mem_eraseDups.mpr hb) e⟩
  · rintro ⟨h1, h2⟩
    refine ⟨h1, ?_⟩
    have hnd := nodup_eraseDups o.apks
    have hinj : ∀ a ∈ o.apks.eraseDups, ∀ b ∈ o.apks.eraseDups,
        apkId (nonceOf o.imageDigest) a = apkId (nonceOf o.imageDigest) b → a = b :=
      fun a ha b hb e => h2 a (List.mem_eraseDups.mp ha) b (List.mem_eraseDups.mp hb) e
    revert hnd hinj
    generalize o.apks.eraseDups = l
    intro hnd hinj
    induction l with
    | nil => simp
    | cons x xs ih =>
      have hc := List.nodup_cons.mp hnd
      simp only [List.map_cons, List.nodup_cons, List.mem_map, not_exists, not_and]
      refine ⟨?_, ih hc.2 (fun a ha b hb e => hinj a (by simp [ha]) b (by simp [hb]) e)⟩
      intro b hb e
      have := hinj b (by simp [hb]) x (by simp) e
      exact hc.1 (this ▸ hb)

end Apko.Sbom
