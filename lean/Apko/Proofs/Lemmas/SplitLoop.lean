/-
Lemmas about the member loop of `ExpandApk` (Model/ExpandSplit.lean) for C05: one pass (`iter_ok`), the loop
(`loop_ok`), the data branch (`readData_ok`); with one-byte reads and a gzip that recognises a member from its own bytes,
an expansion whose data branch ran wrote / hashed exactly the ranges of the format (`loop_checked`); for ANY read size
the stream files partition the source and the `.tar` is the gunzip of the last one (`loop_inv`).
-/
import Apko.Model.ExpandSplit
namespace Apko.SplitLoop
open Apko Apko.Authentic Apko.ExpandSplit

theorem slowRead_one (rd : Nat → Nat) (left : Nat) : slowRead 1 rd left = 1 := by
  unfold slowRead; omega

theorem pullLoop_one (rd : Nat → Nat) (need avail : Nat) (h : need ≤ avail) :
    ∀ fuel got, got ≤ need → need - got ≤ fuel → pullLoop 1 rd need avail fuel got = need := by
  intro fuel
  induction fuel with
  | zero => intro got h1 h2; simp only [pullLoop]; omega
  | succ fuel ih =>
    intro got h1 h2
    simp only [pullLoop]
    split
    · omega
    · next hn =>
      rw [slowRead_one]
      exact ih (got + 1) (by omega) (by omega)

/-- one-byte reads: whatever the chunks of the source are, exactly the member is pulled -/
theorem pulled_one (rd : Nat → Nat) (n a : Nat) (h : n ≤ a) : pulled 1 rd n a = n :=
  pullLoop_one rd n a h n 0 (Nat.zero_le _) (by omega)

theorem memberAt_bounds (G : Gz) (bs : Bytes) (n : Nat) (d : Bytes) (h : memberAt G bs = some (n, d)) :
    0 < n ∧ n ≤ bs.length := by
  unfold memberAt at h
  split at h
  · split at h
    · next hb => cases h; exact hb
    · cases h
  · cases h

theorem iter_ok (G : Gz) (H : Hashes) (c : Nat) (rd : Nat → Nat) (st st' : St) (b : Bool) (h : iter G H c rd st = .ok (st', b)) :
    ∃ s1, swNext G st = some s1 ∧
      ((s1.src = [] ∧ st' = s1 ∧ b = true) ∨
       (s1.src ≠ [] ∧ ∃ n d, memberAt G s1.src = some (n, d) ∧
          ((s1.reached = true ∧ readData G H s1 = .ok st' ∧ b = true) ∨
           (s1.reached = false ∧ st' = readSlow H c rd s1 n ∧ b = false)))) := by
  unfold iter at h
  split at h
  · cases h
  · next s1 hs =>
    refine ⟨s1, hs, ?_⟩
    split at h
    · next he => cases h; exact Or.inl ⟨he, rfl, rfl⟩
    · next he =>
      refine Or.inr ⟨he, ?_⟩
      split at h
      · cases h
      · next n d hm =>
        refine ⟨n, d, hm, ?_⟩
        split at h
        · next hr =>
          split at h
          · cases h
          · next s2 hd => cases h; exact Or.inl ⟨hr, hd, rfl⟩
        · next hr => cases h; exact Or.inr ⟨by simpa using hr, rfl, rfl⟩

theorem loop_ok (G : Gz) (H : Hashes) (c : Nat) (rd : Nat → Nat) (fuel : Nat) (st st2 : St) (h : loop G H c rd (fuel + 1) st = .ok st2) :
    ∃ st1 b, iter G H c rd st = .ok (st1, b) ∧ ((b = true ∧ st2 = st1) ∨ (b = false ∧ loop G H c rd fuel st1 = .ok st2)) := by
  rw [loop] at h
  split at h
  · cases h
  · next s hi => cases h; exact ⟨_, _, hi, Or.inl ⟨rfl, rfl⟩⟩
  · next s hi => exact ⟨_, _, hi, Or.inr ⟨rfl, h⟩⟩

theorem readData_ok (G : Gz) (H : Hashes) (s s2 : St) (h : readData G H s = .ok s2) :
    ∃ t es, gunzipRest G (s.src.length + 1) s.src = some t ∧ G.untar t = some es ∧ checkSums (libOf G H) es = true ∧
      s2 = { s with src := [], streams := s.streams ++ [s.src], hashes := s.hashes ++ [H.sha256 s.src],
                    tar := some t, checked := true } := by
  unfold readData at h
  split at h
  · cases h
  · next t ht =>
    split at h
    · cases h
    · next es hes =>
      split at h
      · next hcs => cases h; exact ⟨t, es, ht, hes, hcs, rfl⟩
      · cases h

theorem loop_checked (G : Gz) (H : Hashes) (hloc : G.Local) (rd : Nat → Nat) (src : Bytes) (st : St)
    (h : loop G H 1 rd loopFuel { src := src } = .ok st) (hc : st.checked = true) :
    ∃ r t es, ranges G src = some r ∧ r.data ≠ [] ∧
      st.streams = r.sig.toList ++ [r.control, r.data] ∧
      st.hashes = (r.sig.map H.sha1).toList ++ [H.sha1 r.control, H.sha256 r.data] ∧
      gunzipAll G r.data = some t ∧ st.tar = some t ∧ G.untar t = some es ∧ checkSums (libOf G H) es = true := by
  obtain ⟨s1, b1, hi1, hrest1⟩ := loop_ok G H 1 rd 3 _ _ h
  obtain ⟨a1, hn1, hcase1⟩ := iter_ok _ _ _ _ _ _ _ hi1
  have ha1 : a1 = { src := src, created := 1 } := by
    simp [swNext] at hn1; exact hn1.symm
  subst ha1
  rcases hcase1 with ⟨he, hs, hb⟩ | ⟨hne, n0, d0, hm0, hcase1⟩
  · subst hb
    rcases hrest1 with ⟨_, hst⟩ | ⟨hf, _⟩
    · subst hst; subst hs; simp at hc
    · cases hf
  · rcases hcase1 with ⟨hr, _, _⟩ | ⟨_, hs1, hb1⟩
    · simp [St.reached] at hr
    · subst hb1
      rcases hrest1 with ⟨hf, _⟩ | ⟨_, h2⟩
      · cases hf
      · simp only at hne hm0
        obtain ⟨hpos0, hle0⟩ := memberAt_bounds _ _ _ _ hm0
        have hs1' : s1 = { src := src.drop n0, created := 1, first := src.take n0, streams := [src.take n0],
                           hashes := [H.sha1 (src.take n0)] } := by
          rw [hs1]; simp [readSlow, pulled_one rd _ _ hle0]
        subst hs1'
        obtain ⟨s2, b2, hi2, hrest2⟩ := loop_ok G H 1 rd 2 _ _ h2
        obtain ⟨a2, hn2, hcase2⟩ := iter_ok _ _ _ _ _ _ _ hi2
        have hdet : memberAt G (src.take n0) = some (n0, d0) := hloc _ _ _ hm0
        simp only [swNext, detect, hdet] at hn2
        cases hfn : G.firstName d0 with
        | none => simp [hfn] at hn2
        | some nm =>
          simp [hfn] at hn2
          subst hn2
          cases hsg : isSign nm with
          | false =>
            simp only [hsg] at hcase2
            rcases hcase2 with ⟨he, hs, hb⟩ | ⟨hne2, n1, d1, hm1, hcase2⟩
            · subst hb
              rcases hrest2 with ⟨_, hst⟩ | ⟨hf, _⟩
              · subst hst; subst hs; simp at hc
              · cases hf
            · rcases hcase2 with ⟨_, hrd, hb⟩ | ⟨hr, _, _⟩
              · subst hb
                rcases hrest2 with ⟨_, hst⟩ | ⟨hf, _⟩
                · subst hst
                  obtain ⟨t, es, hgz, hut, hcs, hs2⟩ := readData_ok _ _ _ _ hrd
                  simp only at hne2 hgz hs2
                  refine ⟨{ sig := none, control := src.take n0, data := src.drop n0 }, t, es, ?_, hne2, ?_, ?_, ?_, ?_, hut, hcs⟩
                  · simp [ranges, hm0, hfn, hsg]
                  · rw [hs2]; simp
                  · rw [hs2]; simp
                  · show gunzipAll G (List.drop n0 src) = some t
                    unfold gunzipAll; rw [if_neg hne2]; exact hgz
                  · rw [hs2]
                · cases hf
              · simp [St.reached] at hr
          | true =>
            simp only [hsg] at hcase2
            rcases hcase2 with ⟨he, hs, hb⟩ | ⟨hne2, n1, d1, hm1, hcase2⟩
            · subst hb
              rcases hrest2 with ⟨_, hst⟩ | ⟨hf, _⟩
              · subst hst; subst hs; simp at hc
              · cases hf
            · rcases hcase2 with ⟨hr, _, _⟩ | ⟨_, hs2, hb⟩
              · simp [St.reached] at hr
              · subst hb
                rcases hrest2 with ⟨hf, _⟩ | ⟨_, h3⟩
                · cases hf
                · replace hne2 : src.drop n0 ≠ [] := hne2
                  replace hm1 : memberAt G (src.drop n0) = some (n1, d1) := hm1
                  obtain ⟨hpos1, hle1⟩ := memberAt_bounds _ _ _ _ hm1
                  have hs2' : s2 = { src := (src.drop n0).drop n1, created := 2, maxStreams := 3, first := src.take n0,
                                     streams := [src.take n0, (src.drop n0).take n1],
                                     hashes := [H.sha1 (src.take n0), H.sha1 ((src.drop n0).take n1)] } := by
                    have hp : pulled 1 rd n1 (src.length - n0) = n1 := by
                      have := pulled_one rd n1 _ hle1; simpa using this
                    rw [hs2]; simp [readSlow, hp]
                  subst hs2'
                  obtain ⟨s3, b3, hi3, hrest3⟩ := loop_ok G H 1 rd 1 _ _ h3
                  obtain ⟨a3, hn3, hcase3⟩ := iter_ok _ _ _ _ _ _ _ hi3
                  simp [swNext] at hn3
                  subst hn3
                  rcases hcase3 with ⟨he, hs, hb⟩ | ⟨hne3, n2, d2, hm2, hcase3⟩
                  · subst hb
                    rcases hrest3 with ⟨_, hst⟩ | ⟨hf, _⟩
                    · subst hst; subst hs; simp at hc
                    · cases hf
                  · rcases hcase3 with ⟨_, hrd, hb⟩ | ⟨hr, _, _⟩
                    · subst hb
                      rcases hrest3 with ⟨_, hst⟩ | ⟨hf, _⟩
                      · subst hst
                        obtain ⟨t, es, hgz, hut, hcs, hs3⟩ := readData_ok _ _ _ _ hrd
                        have hdd : (src.drop n0).drop n1 = src.drop (n0 + n1) := by simp
                        replace hne3 : src.drop (n0 + n1) ≠ [] := hne3
                        replace hgz : gunzipRest G ((src.drop (n0 + n1)).length + 1) (src.drop (n0 + n1)) = some t := hgz
                        refine ⟨{ sig := some (src.take n0), control := (src.drop n0).take n1, data := (src.drop n0).drop n1 },
                                t, es, ?_, ?_, ?_, ?_, ?_, ?_, hut, hcs⟩
                        · simp [ranges, hm0, hfn, hsg, hm1]
                        · rw [hdd]; exact hne3
                        · rw [hs3]; simp
                        · rw [hs3]; simp
                        · show gunzipAll G ((src.drop n0).drop n1) = some t
                          rw [hdd]; unfold gunzipAll; rw [if_neg hne3]; exact hgz
                        · rw [hs3]
                      · cases hf
                    · simp [St.reached] at hr

theorem swNext_fields (G : Gz) (st s1 : St) (h : swNext G st = some s1) :
    s1.src = st.src ∧ s1.streams = st.streams ∧ s1.hashes = st.hashes ∧ s1.tar = st.tar ∧ s1.checked = st.checked := by
  unfold swNext at h
  split at h
  · cases h
  · cases h; exact ⟨rfl, rfl, rfl, rfl, rfl⟩

/-- what holds when the loop is left, whatever the size of the reads -/
structure Final (G : Gz) (H : Hashes) (src0 : Bytes) (st : St) : Prop where
  drained : st.src = []
  partition : st.streams.flatten = src0
  lengths : st.hashes.length = st.streams.length
  tarGunzip : ∀ t, st.tar = some t → ∃ d, st.streams.getLast? = some d ∧ gunzipAll G d = some t
  unchecked : st.checked = false → st.tar = none
  checked : st.checked = true → ∃ t es, st.tar = some t ∧ G.untar t = some es ∧ checkSums (libOf G H) es = true

theorem loop_inv (G : Gz) (H : Hashes) (c : Nat) (rd : Nat → Nat) (src0 : Bytes) : ∀ (fuel : Nat) (st st2 : St),
    st.streams.flatten ++ st.src = src0 → st.hashes.length = st.streams.length → st.tar = none → st.checked = false →
    loop G H c rd fuel st = .ok st2 → Final G H src0 st2 := by
  intro fuel
  induction fuel with
  | zero => intro st st2 _ _ _ _ h; simp [loop] at h
  | succ fuel ih =>
    intro st st2 hp hl ht hck h
    obtain ⟨st1, b, hi, hrest⟩ := loop_ok G H c rd fuel _ _ h
    obtain ⟨s1, hn, hcase⟩ := iter_ok _ _ _ _ _ _ _ hi
    obtain ⟨f1, f2, f3, f4, f5⟩ := swNext_fields G st s1 hn
    rcases hcase with ⟨he, hs, hb⟩ | ⟨hne, n, d, hm, hcase⟩
    · subst hb
      rcases hrest with ⟨_, hst⟩ | ⟨hf, _⟩
      · subst hst; subst hs
        refine ⟨he, ?_, by rw [f3, f2]; exact hl, ?_, ?_, ?_⟩
        · rw [f2]; rw [← hp, ← f1, he]; simp
        · intro t htt; rw [f4, ht] at htt; cases htt
        · intro _; rw [f4]; exact ht
        · intro hcc; rw [f5, hck] at hcc; cases hcc
      · cases hf
    · rcases hcase with ⟨_, hrd, hb⟩ | ⟨_, hs, hb⟩
      · subst hb
        rcases hrest with ⟨_, hst⟩ | ⟨hf, _⟩
        · subst hst
          obtain ⟨t, es, hgz, hut, hcs, hs2⟩ := readData_ok _ _ _ _ hrd
          subst hs2
          refine ⟨rfl, ?_, ?_, ?_, ?_, ?_⟩
          · simp only [List.flatten_append, List.flatten_cons, List.flatten_nil, List.append_nil]
            rw [f2, f1]; exact hp
          · simp [f3, f2, hl]
          · intro t2 htt
            simp only [Option.some.injEq] at htt
            subst htt
            refine ⟨s1.src, by simp, ?_⟩
            unfold gunzipAll; rw [if_neg hne]; exact hgz
          · intro hcc; simp at hcc
          · intro _; exact ⟨t, es, rfl, hut, hcs⟩
        · cases hf
      · subst hb
        rcases hrest with ⟨hf, _⟩ | ⟨_, hl2⟩
        · cases hf
        · subst hs
          refine ih _ _ ?_ ?_ ?_ ?_ hl2
          · simp only [readSlow, List.flatten_append, List.flatten_cons, List.flatten_nil, List.append_nil,
              List.append_assoc, List.take_append_drop]
            rw [f2, f1]; exact hp
          · simp [readSlow, f3, f2, hl]
          · simp only [readSlow]; rw [f4]; exact ht
          · simp only [readSlow]; rw [f5]; exact hck

end Apko.SplitLoop
