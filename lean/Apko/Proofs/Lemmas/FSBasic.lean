import Apko.Model.FS
/-! Basic facts about the node table of `Model/FS.lean` (used by C17 and the other FS properties). -/
namespace Apko.FS
open Apko Apko.Path

@[simp] theorem node_setNode_same (fs : FS) (i : Nat) (n : Inode) (h : i < fs.nodes.length) :
    (fs.setNode i n).node i = n := by
  simp [FS.node, FS.setNode, List.getD_eq_getElem?_getD, h]

theorem node_setNode_ne (fs : FS) (i j : Nat) (n : Inode) (h : j ≠ i) :
    (fs.setNode i n).node j = fs.node j := by
  simp [FS.node, FS.setNode, List.getD_eq_getElem?_getD, List.getElem?_set_ne (Ne.symm h)]

theorem node_setNode (fs : FS) (i j : Nat) (n : Inode) :
    (fs.setNode i n).node j = if j = i ∧ i < fs.nodes.length then n else fs.node j := by
  by_cases h : j = i
  · subst h
    by_cases hl : j < fs.nodes.length
    · simp [hl]
    · simp [hl, FS.node, FS.setNode, List.getD_eq_getElem?_getD]
  · simp [h, node_setNode_ne]

@[simp] theorem length_setNode (fs : FS) (i : Nat) (n : Inode) :
    (fs.setNode i n).nodes.length = fs.nodes.length := by simp [FS.setNode]

@[simp] theorem length_modify (fs : FS) (i : Nat) (f : Inode → Inode) :
    (fs.modify i f).nodes.length = fs.nodes.length := by simp [FS.modify]

theorem node_modify (fs : FS) (i j : Nat) (f : Inode → Inode) :
    (fs.modify i f).node j = if j = i ∧ i < fs.nodes.length then f (fs.node i) else fs.node j := by
  simp [FS.modify, node_setNode]

@[simp] theorem handles_setNode (fs : FS) (i : Nat) (n : Inode) : (fs.setNode i n).handles = fs.handles := rfl
@[simp] theorem handles_modify (fs : FS) (i : Nat) (f : Inode → Inode) : (fs.modify i f).handles = fs.handles := rfl

theorem node_default_of_ge (fs : FS) (i : Nat) (h : fs.nodes.length ≤ i) : fs.node i = default := by
  simp [FS.node, List.getD_eq_getElem?_getD, List.getElem?_eq_none h]

@[simp] theorem alloc_ino (fs : FS) (n : Inode) : (fs.alloc n).2 = fs.nodes.length := rfl
@[simp] theorem alloc_length (fs : FS) (n : Inode) : (fs.alloc n).1.nodes.length = fs.nodes.length + 1 := by
  simp [FS.alloc]
@[simp] theorem alloc_handles (fs : FS) (n : Inode) : (fs.alloc n).1.handles = fs.handles := rfl

theorem node_alloc (fs : FS) (n : Inode) (j : Nat) :
    (fs.alloc n).1.node j = if j = fs.nodes.length then n else fs.node j := by
  simp only [FS.node, FS.alloc, List.getD_eq_getElem?_getD]
  by_cases h : j = fs.nodes.length
  · subst h; simp
  · simp only [h, if_false]
    by_cases hl : j < fs.nodes.length
    · rw [List.getElem?_append_left hl]
    · have hl' : fs.nodes.length < j := by omega
      rw [List.getElem?_eq_none (by simp; omega), List.getElem?_eq_none (by omega)]

end Apko.FS
