import Apko.Model.CacheGlue
/-!
C19 — lemmas about the branch of `cacheTransport.RoundTrip` that has no validator (`Model/CacheGlue.lean`:
`plainFetch`, `Stores`, `PLegal`): the invariant "every file under a URL's path belongs to a stored class and holds
what the server serves now", kept by every step of every history in which the stored classes are immutable.
-/
namespace Apko.C19.Plain
open Apko.CacheGlue

/-- every file under a URL's own path belongs to a class the branch stores and holds the body served NOW -/
def Fresh (stores : Stores) (s : PSt) : Prop :=
  ∀ u b, s.file u = some b → stores u = true ∧ s.cur u = some b

theorem fresh_empty (stores : Stores) : Fresh stores {} := by
  intro u b h
  simp [PSt.file, List.lookup] at h

/-- with fresh files the branch answers what the build without the cache gets -/
theorem fetch_answer_of_fresh {stores : Stores} {s : PSt} (h : Fresh stores s) (u : Url) :
    (plainFetch stores s u).2 = plainDirect s u := by
  unfold plainFetch plainDirect
  split
  · rename_i b hb
    exact (h u b hb).2.symm
  · split
    · rename_i hc; simp [hc]
    · rename_i b hc; simp [hc]

theorem lookup_cons_self (u : Url) (b : Body) (l : List (Url × Body)) : ((u, b) :: l).lookup u = some b := by
  simp [List.lookup]

theorem lookup_cons_ne {u v : Url} (hne : v ≠ u) (b : Body) (l : List (Url × Body)) :
    ((u, b) :: l).lookup v = l.lookup v := by
  have : (v == u) = false := by simp [hne]
  simp [List.lookup, this]

theorem fetch_keeps_fresh {stores : Stores} {s : PSt} (h : Fresh stores s) (u : Url) :
    Fresh stores (plainFetch stores s u).1 := by
  unfold plainFetch
  split
  · exact h
  · rename_i hf
    split
    · exact h
    · rename_i b hc
      by_cases hs : stores u = true
      · simp only [hs, if_true]
        intro v c hv
        by_cases hvu : v = u
        · subst hvu
          simp only [PSt.file, lookup_cons_self] at hv
          cases hv
          exact ⟨hs, hc⟩
        · simp only [PSt.file, lookup_cons_ne hvu] at hv
          exact h v c hv
      · have : stores u = false := by cases hx : stores u <;> simp_all
        simp only [this]
        exact h

theorem publish_keeps_fresh {stores : Stores} {s : PSt} (h : Fresh stores s) (u : Url) (b : Body)
    (himm : stores u = true → ∀ b0, s.cur u = some b0 → b0 = b) :
    Fresh stores { s with srv := (u, b) :: s.srv } := by
  intro v c hv
  have hv0 : s.file v = some c := hv
  obtain ⟨hs, hc⟩ := h v c hv0
  refine ⟨hs, ?_⟩
  by_cases hvu : v = u
  · subst hvu
    have := himm hs c hc
    subst this
    simp [PSt.cur]
  · simp only [PSt.cur, lookup_cons_ne hvu]
    exact hc

/-- transparency of the branch over a whole history from any fresh state -/
theorem answers_eq_direct (stores : Stores) :
    ∀ (h : List PEv) (s : PSt), Fresh stores s → PLegal stores h s →
      panswers stores h s = pdirect h s := by
  intro h
  induction h with
  | nil => intro s _ _; rfl
  | cons ev rest ih =>
    intro s hf hl
    cases ev with
    | publish u b =>
      simp only [PLegal] at hl
      have hf2 := publish_keeps_fresh hf u b hl.1
      have := ih _ hf2 hl.2
      simpa [panswers, pdirect, pstep] using this
    | get u =>
      simp only [PLegal] at hl
      have hf2 := fetch_keeps_fresh hf u
      have := ih _ hf2 hl
      simp only [panswers, pdirect, pstep]
      rw [fetch_answer_of_fresh hf u, this]
      -- the server state is not changed by a request
      have hsrv : (plainFetch stores s u).1.srv = s.srv := by
        unfold plainFetch
        split
        · rfl
        · split
          · rfl
          · split <;> rfl
      congr 1
      exact pdirect_srv rest _ _ hsrv
where
  pdirect_srv : ∀ (h : List PEv) (s t : PSt), s.srv = t.srv → pdirect h s = pdirect h t := by
    intro h
    induction h with
    | nil => intros; rfl
    | cons ev rest ih =>
      intro s t hst
      cases ev with
      | publish u b =>
        simp only [pdirect]
        exact ih _ _ (by simp [hst])
      | get u =>
        simp only [pdirect, plainDirect, PSt.cur, hst]
        congr 1
        exact ih _ _ hst

/-- nothing is stored: every history is legal -/
theorem legal_of_stores_nothing (stores : Stores) (hn : ∀ u, stores u = false) :
    ∀ (h : List PEv) (s : PSt), PLegal stores h s := by
  intro h
  induction h with
  | nil => intro s; trivial
  | cons ev rest ih =>
    intro s
    cases ev with
    | publish u b => exact ⟨fun hs => by simp [hn u] at hs, ih _⟩
    | get u => exact ih _

/-- nothing is stored: the directory below the URL paths stays as it was -/
theorem real_fetch_state (s : PSt) (u : Url) : (plainFetch storesReal s u).1 = s := by
  unfold plainFetch storesReal
  split
  · rfl
  · split <;> simp

theorem real_run_plain : ∀ (h : List PEv) (s : PSt), (h.foldl (pstep storesReal) s).plain = s.plain := by
  intro h
  induction h with
  | nil => intro s; rfl
  | cons ev rest ih =>
    intro s
    cases ev with
    | publish u b => simpa [pstep] using ih { s with srv := (u, b) :: s.srv }
    | get u => simpa [pstep, real_fetch_state] using ih s

/-- the witness history: a stored URL whose body changes between two requests -/
def rotation (u : Url) (b1 b2 : Body) : List PEv := [.publish u b1, .get u, .publish u b2, .get u]

theorem rotation_answers (stores : Stores) (u : Url) (hs : stores u = true) (b1 b2 : Body) :
    panswers stores (rotation u b1 b2) {} = [some b1, some b1] ∧ pdirect (rotation u b1 b2) {} = [some b1, some b2] := by
  simp [rotation, panswers, pdirect, pstep, plainFetch, plainDirect, PSt.file, PSt.cur, List.lookup, hs]

/-- the requests of one key discovery leave the server alone -/
theorem fetch_srv (stores : Stores) (s : PSt) (u : Url) : (plainFetch stores s u).1.srv = s.srv := by
  unfold plainFetch
  split
  · rfl
  · split
    · rfl
    · split <;> rfl

end Apko.C19.Plain
