/-
C16 helper lemmas: field access, the per-line inverse, folding the lines of one record.
-/
import Apko.Proofs.Lemmas.Formats

namespace Apko.Formats
open Apko

/-! ## get / set -/

theorem get_set_same (q p : Pkg) (f : Field) : get (set q f (get p f)) f = get p f := by
  cases f <;> rfl

theorem set_get_self (q : Pkg) (f : Field) : set q f (get q f) = q := by
  cases f <;> rfl

theorem get_set_ne (q : Pkg) (f g : Field) (v : Val) (h : g ≠ f) : get (set q f v) g = get q g := by
  cases f <;> cases v <;> cases g <;> first | rfl | exact absurd rfl h

theorem pkg_ext (a b : Pkg) (h : ∀ f, get a f = get b f) : a = b := by
  cases a; cases b
  simp only [Pkg.mk.injEq]
  exact ⟨by simpa [get] using h .name, by simpa [get] using h .version, by simpa [get] using h .arch,
    by simpa [get] using h .description, by simpa [get] using h .license, by simpa [get] using h .origin,
    by simpa [get] using h .maintainer, by simpa [get] using h .url, by simpa [get] using h .commit,
    by simpa [get] using h .checksum, by simpa [get] using h .deps, by simpa [get] using h .provides,
    by simpa [get] using h .installIf, by simpa [get] using h .replaces, by simpa [get] using h .size,
    by simpa [get] using h .installedSize, by simpa [get] using h .priority, by simpa [get] using h .buildTime⟩

/-! ## the codec law -/

def Codec.Lawful (c : Codec) : Prop :=
  (∀ b, c.dec (c.enc b) = some b) ∧ (∀ b, lineSafe (c.enc b) = true)

/-! ## formatter / decoder pairs -/

/-- the reader's decoder inverts the writer's formatter on values of this kind -/
def fits : Val → Fmt → Dec → Bool
  | .str _, _, .str => true
  | .list _, .joinSp, .splitRep => true
  | .nat _, _, .uint64 => true
  | .int _, _, .int64 => true
  | .bytes _, _, .q1 => true
  | _, _, _ => false

theorem fits_kind (p q : Pkg) (f : Field) (fm : Fmt) (d : Dec) :
    fits (get p f) fm d = fits (get q f) fm d := by
  cases f <;> cases fm <;> cases d <;> rfl

theorem itemSafe_spec (a : Text) (h : itemSafe a = true) : a ≠ [] ∧ ' ' ∉ a ∧ lineSafe a = true := by
  unfold itemSafe at h
  simp only [Bool.and_eq_true, Bool.not_eq_true', List.all_eq_true] at h
  refine ⟨?_, ?_, ?_⟩
  · intro e; subst e; simp at h
  · intro m; have := h.2 _ m; simp at this
  · unfold lineSafe; rw [List.all_eq_true]; intro c hc
    have := h.2 c hc
    simp at this
    simp [this]

theorem joinWith_ne_nil (sep : Text) (a : Text) (rest : List Text) (h : a ≠ []) :
    joinWith sep (a :: rest) ≠ [] := by
  cases rest with
  | nil => simpa [joinWith] using h
  | cons b r => simp [joinWith, h]

theorem splitRep_join (l : List Text) (h : l.all itemSafe = true) :
    splitRepeatedField (joinWith [' '] l) = l := by
  cases l with
  | nil => simp [splitRepeatedField, joinWith]
  | cons a rest =>
    have hall := List.all_eq_true.mp h
    have ha := itemSafe_spec a (hall a (by simp))
    unfold splitRepeatedField
    rw [if_neg (joinWith_ne_nil _ a rest ha.1)]
    exact splitOnChar_joinWith ' ' (a :: rest) (by simp) (fun x hx => (itemSafe_spec x (hall x hx)).2.1)

theorem decode_fmtVal (c : Codec) (hc : c.Lawful) (v old : Val) (fm : Fmt) (d : Dec)
    (hs : valSafe v = true) (hf : fits v fm d = true) : decode c d old (fmtVal c fm v) = some v := by
  cases v with
  | str t => cases d <;> simp [fits] at hf; simp [decode, fmtVal]
  | list l =>
    cases fm <;> cases d <;> simp [fits] at hf
    simp only [decode, fmtVal, valSafe] at *
    rw [splitRep_join l hs]
  | nat n =>
    cases d <;> simp [fits] at hf
    simp only [valSafe, decide_eq_true_eq] at hs
    cases fm <;> simp [decode, fmtVal, parseUintB_natToDec n hs]
  | int i =>
    cases d <;> simp [fits] at hf
    simp only [valSafe, Bool.and_eq_true, decide_eq_true_eq] at hs
    cases fm <;> simp [decode, fmtVal, parseIntB_intToDec i hs.1 hs.2]
  | bytes b =>
    cases d <;> simp [fits] at hf
    cases fm <;> simp [decode, fmtVal, stripPrefix, hc.1 b]

/-! ## table conditions (decidable; checked on the regenerated tables by `decide`) -/

def condFits (f : Field) : Cond → Bool
  | .always => true
  | .truthy g => g == f && f != .buildTime
  | .timeNonZero => f == .buildTime

def isLetter (c : Char) : Bool := isLower c || isUpper c

/-- the reader's case for the row's tag assigns the row's field with an inverse decoder -/
def rowOK (cs : List Case) (r : Row) : Bool :=
  isLetter r.tag && condFits r.field r.cond &&
  match findCase cs r.tag with
  | some (.field f d) => f == r.field && fits (get {} r.field) r.fmt d
  | _ => false

def fieldsOf (rows : List Row) : List Field := rows.map (·.field)

def tableOK (rows : List Row) (cs : List Case) : Bool :=
  rows.all (rowOK cs) && decide ((fieldsOf rows).Pairwise (· ≠ ·)) && (fieldsOf rows).contains .name

theorem cond_false_default (p : Pkg) (f : Field) (cd : Cond) (hf : condFits f cd = true)
    (he : evalCond p cd = false) : get p f = get {} f := by
  cases cd with
  | always => simp [evalCond] at he
  | truthy g =>
    simp only [condFits, Bool.and_eq_true, beq_iff_eq, bne_iff_ne] at hf
    obtain ⟨rfl, hne⟩ := hf
    cases g <;> simp_all [evalCond, get, truthy]
  | timeNonZero =>
    simp only [condFits, beq_iff_eq] at hf
    subst hf
    simp only [evalCond, zeroTimeUnix, bne_eq_false_iff_eq] at he
    simp [get, he]

/-! ## one line, one record -/

theorem idxStep_row (c : Codec) (hc : c.Lawful) (cs : List Case) (r : Row) (p q : Pkg) (pk : List Pkg)
    (hr : rowOK cs r = true) (hs : valSafe (get p r.field) = true) :
    idxStep c cs ⟨pk, q⟩ (r.tag :: ':' :: fmtVal c r.fmt (get p r.field)) =
      .ok ⟨pk, set q r.field (get p r.field)⟩ := by
  unfold rowOK at hr
  simp only [Bool.and_eq_true] at hr
  obtain ⟨_, hcase⟩ := hr
  cases hfc : findCase cs r.tag with
  | none => simp [hfc] at hcase
  | some a =>
    cases a with
    | field f d =>
      simp only [hfc, Bool.and_eq_true, beq_iff_eq] at hcase
      obtain ⟨rfl, hfit⟩ := hcase
      rw [fits_kind {} p] at hfit
      simp [idxStep, hfc, applyField, decode_fmtVal c hc _ _ _ _ hs hfit, Res.ofOption, Res.bind]
    | dirLine => simp [hfc] at hcase
    | dirPerm a => simp [hfc] at hcase
    | fileLine => simp [hfc] at hcase
    | filePerm a => simp [hfc] at hcase

/-- copy the fields named by the rows from `p` into `q` -/
def copyFields (p : Pkg) : Pkg → List Row → Pkg
  | q, [] => q
  | q, r :: rs => copyFields p (set q r.field (get p r.field)) rs

theorem idxFold_rows (c : Codec) (hc : c.Lawful) (cs : List Case) (p : Pkg) (pk : List Pkg) (rest : List Text) :
    ∀ (rows : List Row) (q : Pkg), (∀ r ∈ rows, rowOK cs r = true) →
      (fieldsOf rows).Pairwise (· ≠ ·) → (∀ r ∈ rows, valSafe (get p r.field) = true) →
      (∀ r ∈ rows, get q r.field = get {} r.field) →
      idxFold c cs ⟨pk, q⟩ (recLines c rows p ++ rest) = idxFold c cs ⟨pk, copyFields p q rows⟩ rest := by
  intro rows
  induction rows with
  | nil => intro q _ _ _ _; simp [recLines, copyFields]
  | cons r rs ih =>
    intro q hok hd hs hq
    have hd' : (fieldsOf rs).Pairwise (· ≠ ·) := (List.pairwise_cons.mp hd).2
    have hne : ∀ r' ∈ rs, r'.field ≠ r.field := by
      intro r' hr' e
      exact (List.pairwise_cons.mp hd).1 r'.field (List.mem_map.mpr ⟨r', hr', rfl⟩) e.symm
    have hrow := hok r (by simp)
    by_cases he : evalCond p r.cond = true
    · have hq' : ∀ r' ∈ rs, get (set q r.field (get p r.field)) r'.field = get {} r'.field := by
        intro r' hr'
        rw [get_set_ne _ _ _ _ (hne r' hr')]
        exact hq r' (by simp [hr'])
      have := ih (set q r.field (get p r.field)) (fun x hx => hok x (by simp [hx])) hd'
        (fun x hx => hs x (by simp [hx])) hq'
      simp only [recLines, List.flatMap_cons, renderRow, he, if_true,
        List.cons_append, idxFold, copyFields] at this ⊢
      rw [idxStep_row c hc cs r p q pk hrow (hs r (by simp))]
      simpa [Res.bind] using this
    · have he' : evalCond p r.cond = false := by simpa using he
      have hcf : condFits r.field r.cond = true := by
        unfold rowOK at hrow; simp only [Bool.and_eq_true] at hrow; exact hrow.1.2
      have hdef := cond_false_default p r.field r.cond hcf he'
      have hsame : set q r.field (get p r.field) = q := by
        rw [hdef, ← hq r (by simp), set_get_self]
      have := ih q (fun x hx => hok x (by simp [hx])) hd' (fun x hx => hs x (by simp [hx]))
        (fun x hx => hq x (by simp [hx]))
      simp only [recLines, List.flatMap_cons, renderRow, he', copyFields, hsame] at this ⊢
      simpa using this

theorem get_copyFields_not_mem (p : Pkg) (f : Field) :
    ∀ (rows : List Row) (q : Pkg), f ∉ fieldsOf rows → get (copyFields p q rows) f = get q f := by
  intro rows
  induction rows with
  | nil => intro q _; rfl
  | cons r rs ih =>
    intro q h
    simp only [fieldsOf, List.map_cons, List.mem_cons, not_or] at h
    simp only [copyFields]
    rw [ih _ h.2, get_set_ne _ _ _ _ h.1]

theorem get_copyFields_mem (p : Pkg) (f : Field) :
    ∀ (rows : List Row) (q : Pkg), (fieldsOf rows).Pairwise (· ≠ ·) → f ∈ fieldsOf rows →
      get (copyFields p q rows) f = get p f := by
  intro rows
  induction rows with
  | nil => intro q _ h; simp [fieldsOf] at h
  | cons r rs ih =>
    intro q hd h
    simp only [copyFields]
    by_cases hf : f = r.field
    · subst hf
      have hnot : r.field ∉ fieldsOf rs := by
        intro m; exact (List.pairwise_cons.mp hd).1 r.field m rfl
      rw [get_copyFields_not_mem p r.field rs _ hnot, get_set_same]
    · have : f ∈ fieldsOf rs := by
        simp only [fieldsOf, List.map_cons, List.mem_cons] at h
        rcases h with h | h
        · exact absurd h hf
        · exact h
      exact ih _ (List.pairwise_cons.mp hd).2 this

end Apko.Formats
