/-
C19 helper: every step of every builder preserves the advertise invariant, unless it is the
`.dat.tar` regeneration write under the final name.
-/
import Apko.Proofs.Lemmas.CacheInv

namespace Apko.C19
open Apko.Cache

theorem step_fs (s : State) (i : Nat) : (s.step i).fs = (stepProc s.fs (s.procs i)).1 := rfl
theorem step_self (s : State) (i : Nat) : (s.step i).procs i = (stepProc s.fs (s.procs i)).2 := by
  simp [State.step]
theorem step_other (s : State) (i j : Nat) (h : j ≠ i) : (s.step i).procs j = s.procs j := by
  simp [State.step, h]

/-- the result of `newest` is one of the candidates -/
theorem newest_mem (fs : FS) (cands : List Name) (n : Name) (h : fs.newest cands = some n) :
    n ∈ cands := by
  unfold FS.newest at h
  have gen : ∀ (l : List Name) (init : Option Name) (n : Name),
      l.foldl (fun best n =>
        match fs.get n with
        | none => best
        | some _ =>
          match best with
          | none => some n
          | some b => if fs.mtime n > fs.mtime b then some n else some b) init = some n →
      n ∈ l ∨ init = some n := by
    intro l
    induction l with
    | nil => intro init n h; exact Or.inr h
    | cons a l ih =>
      intro init n h
      simp only [List.foldl_cons] at h
      rcases ih _ _ h with hm | he
      · exact Or.inl (List.mem_cons_of_mem _ hm)
      · split at he
        · exact Or.inr he
        · split at he
          · cases he; exact Or.inl (List.mem_cons_self ..)
          · split at he
            · cases he; exact Or.inl (List.mem_cons_self ..)
            · exact Or.inr he
  rcases gen cands none n h with hm | he
  · exact hm
  · cases he

/-- T: one step of builder `i` — any builder, any state satisfying the invariant — keeps the
invariant. -/
theorem inv_step (s : State) (i : Nat) (h : Inv s.fs.get s.procs) :
    Inv (s.step i).fs.get (s.step i).procs := by
  have hty := h.typed i
  have hoth := step_other s i
  rw [step_fs]
  generalize hP' : (s.step i).procs = P' at *
  have hself : P' i = (stepProc s.fs (s.procs i)).2 := by rw [← hP']; exact step_self s i
  revert hself hty
  generalize hp : s.procs i = p
  intro hty hself
  obtain ⟨prog, Γ, obs, marks⟩ := p
  have hΓ : (s.procs i).ctx = Γ := by rw [hp]
  have hO : (s.procs i).obs = obs := by rw [hp]
  cases prog with
  | halt b =>
    simp only [stepProc] at hself ⊢
    exact inv_same_fs i h hoth (by rw [hself, hΓ]; intro x c hc; exact hc)
      (by rw [hself, hΓ]; intro x c hc; exact hc) (by rw [hself]; exact hty)
      (by rw [hself]; intro n c b k hm; exact h.obsOk i n c b k (by rw [hO]; exact hm))
  | ifStat n y no =>
    simp only [stepProc] at hself ⊢
    simp only [wt] at hty
    refine inv_same_fs i h hoth (by rw [hself, hΓ]; intro x c hc; exact hc)
      (by rw [hself, hΓ]; intro x c hc; exact hc) ?_
      (by rw [hself]; intro n c b k hm; exact h.obsOk i n c b k (by rw [hO]; exact hm))
    rw [hself]; simp only
    split
    · exact hty.1
    · exact hty.2
  | op o next =>
    simp only [wt] at hty
    obtain ⟨hok, hnext⟩ := hty
    simp only [stepProc] at hself ⊢
    -- a failing operation: the builder stops, nothing else changes
    have abortCase : ∀ (_ : P' i = Proc.abort ⟨.op o next, Γ, obs, marks⟩), Inv s.fs.get P' := by
      intro hs
      exact inv_same_fs i h hoth (by rw [hs, hΓ]; intro x c hc; exact hc)
        (by rw [hs, hΓ]; intro x c hc; exact hc) (by rw [hs]; simp [Proc.abort, wt])
        (by rw [hs]; intro n c b k hm; exact h.obsOk i n c b k (by rw [hO]; exact hm))
    -- an operation that leaves directory, typestate and observations alone
    have sameCase : ∀ (m : Nat) (_ : ctxStep Γ o = Γ)
        (_ : P' i = ⟨next, ctxStep Γ o, obs, m⟩), Inv s.fs.get P' := by
      intro m hc hs
      exact inv_same_fs i h hoth (by rw [hs, hc, hΓ]; intro x c hc; exact hc)
        (by rw [hs, hc, hΓ]; intro x c hc; exact hc) (by rw [hs]; exact hnext)
        (by rw [hs]; intro n c b k hm; exact h.obsOk i n c b k (by rw [hO]; exact hm))
    cases o with
    | mkdir => simp only [stepOp] at hself ⊢; exact sameCase _ rfl hself
    | mark m => simp only [stepOp] at hself ⊢; exact sameCase _ rfl hself
    | unsigned k => simp only [stepOp] at hself ⊢; exact sameCase _ rfl hself
    | create t c =>
      simp only [stepOp] at hself ⊢
      obtain ⟨hun, htmp⟩ := hok
      cases habs : s.fs.get t with
      | none =>
        simp only [habs] at hself ⊢
        have := inv_create (P' := P') i h habs htmp hoth (by rw [hself, hΓ]; rfl)
          (by rw [hself]; exact hnext) (by rw [hself, hO])
        simpa [FS.set] using this
      | some n => simp only [habs] at hself ⊢; exact abortCase hself
    | chunk t =>
      simp only [stepOp] at hself ⊢
      obtain ⟨c0, hc0⟩ := hok
      have hgt := h.ownOpen i t c0 (by rw [hΓ]; exact hc0)
      simp only [hgt] at hself ⊢
      have hsame : (s.fs.set t (some (.file c0 false))).get = s.fs.get := by
        funext x; simp only [FS.set]; split
        · next e => rw [e, hgt]
        · rfl
      rw [hsame]
      exact sameCase _ rfl hself
    | finish t =>
      simp only [stepOp] at hself ⊢
      obtain ⟨c0, hc0⟩ := hok
      have hgt := h.ownOpen i t c0 (by rw [hΓ]; exact hc0)
      simp only [hgt] at hself ⊢
      have := inv_finish (P' := P') i h (t := t) (c := c0) (by rw [hΓ]; exact hc0) hoth
        (by rw [hself, hΓ]; simp [ctxStep, hc0]) (by rw [hself]; exact hnext) (by rw [hself, hO])
      simpa [FS.set] using this
    | symlink t dst =>
      simp only [stepOp] at hself ⊢
      obtain ⟨k, hk, hdst⟩ := hok
      subst hdst
      have hgt := h.ownClosed i t k (by rw [hΓ]; exact hk)
      have htmp := h.ownTmp i t (owns_closed (by rw [hΓ]; exact hk))
      have hadv : ∀ k', Name.adv k' ≠ t := by
        intro k' hk'; rw [← hk'] at htmp; simp [Name.isTmp] at htmp
      cases habs : s.fs.get (.adv k) with
      | none =>
        simp only [habs] at hself ⊢
        refine inv_release (g' := (s.fs.set (.adv k) (some (.link t))).get) i h (t := t) (c := k)
          (by rw [hΓ]; exact hk) hoth (by rw [hself, hΓ]; rfl) (by rw [hself]; exact hnext)
          (by rw [hself, hO]) ⟨?_, ?_⟩ ?_ ?_
        · intro k' c b he
          simp only [FS.set] at he
          split at he
          · cases he
          · exact h.good.advFile k' c b he
        · intro k' t' he
          simp only [FS.set] at he ⊢
          split at he
          · next e =>
            cases he
            simp only [(hadv k).symm, if_false]; cases e; exact hgt
          · have := h.good.advLink k' t' he
            have hne : t' ≠ .adv k := by intro e; rw [e, habs] at this; cases this
            simp only [hne, if_false]; exact this
        · intro x _ hx
          simp only [FS.set]
          have : x ≠ .adv k := by intro e; rw [e] at hx; simp [Name.isTmp] at hx
          simp [this]
        · intro k' t' he
          simp only [FS.set] at he
          split at he
          · cases he; exact Or.inr rfl
          · exact Or.inl he
      | some n =>
        simp only [habs] at hself ⊢
        exact inv_same_fs i h hoth
          (by
            rw [hself, hΓ]; intro x c hc
            simp only [ctxStep] at hc
            by_cases hx : x = t
            · subst hx; rw [upd_same] at hc; cases hc
            · rw [upd_other _ _ hx] at hc; exact hc)
          (by
            rw [hself, hΓ]; intro x c hc
            simp only [ctxStep] at hc
            by_cases hx : x = t
            · subst hx; rw [upd_same] at hc; cases hc
            · rw [upd_other _ _ hx] at hc; exact hc)
          (by rw [hself]; exact hnext)
          (by rw [hself]; intro n c b k hm; exact h.obsOk i n c b k (by rw [hO]; exact hm))
    | remove t =>
      simp only [stepOp] at hself ⊢
      obtain ⟨c0, hc0⟩ := hok
      have htmp := h.ownTmp i t (owns_closed (by rw [hΓ]; exact hc0))
      have hadv : ∀ k', Name.adv k' ≠ t := by
        intro k' hk'; rw [← hk'] at htmp; simp [Name.isTmp] at htmp
      have hnolink : ∀ k' t', s.fs.get (.adv k') = some (.link t') → t' ≠ t := by
        intro k' t' he e; subst e
        exact h.linkFree k' t' i he (owns_closed (by rw [hΓ]; exact hc0))
      refine inv_release (g' := (s.fs.set t none).get) i h (t := t) (c := c0)
        (by rw [hΓ]; exact hc0) hoth (by rw [hself, hΓ]; rfl) (by rw [hself]; exact hnext)
        (by rw [hself, hO]) ⟨?_, ?_⟩ ?_ ?_
      · intro k' c b he
        simp only [FS.set, hadv k', if_false] at he
        exact h.good.advFile k' c b he
      · intro k' t' he
        simp only [FS.set, hadv k', if_false] at he ⊢
        simp only [hnolink k' t' he, if_false]
        exact h.good.advLink k' t' he
      · intro x hx _
        simp [FS.set, hx]
      · intro k' t' he
        simp only [FS.set, hadv k', if_false] at he
        exact Or.inl he
    | regen dst c => exact hok.elim
    | rename t dst =>
      simp only [stepOp] at hself ⊢
      obtain ⟨k, hk, hdst⟩ := hok
      subst hdst
      have hgt := h.ownClosed i t k (by rw [hΓ]; exact hk)
      have htmp := h.ownTmp i t (owns_closed (by rw [hΓ]; exact hk))
      have hadv : ∀ k', Name.adv k' ≠ t := by
        intro k' hk'; rw [← hk'] at htmp; simp [Name.isTmp] at htmp
      have hnolink : ∀ k' t', s.fs.get (.adv k') = some (.link t') → t' ≠ t := by
        intro k' t' he e; subst e
        exact h.linkFree k' t' i he (owns_closed (by rw [hΓ]; exact hk))
      simp only [hgt] at hself ⊢
      refine inv_release (g' := ((s.fs.set (.adv k) (some (.file k true))).set t none).get) i h
        (t := t) (c := k) (by rw [hΓ]; exact hk) hoth (by rw [hself, hΓ]; rfl)
        (by rw [hself]; exact hnext) (by rw [hself, hO]) ⟨?_, ?_⟩ ?_ ?_
      · intro k' c b he
        simp only [FS.set, hadv k', if_false] at he
        split at he
        · next e => cases he; cases e; exact ⟨rfl, rfl⟩
        · exact h.good.advFile k' c b he
      · intro k' t' he
        simp only [FS.set, hadv k', if_false] at he ⊢
        split at he
        · cases he
        · have hold := h.good.advLink k' t' he
          simp only [hnolink k' t' he, if_false]
          split
          · next e =>
            -- an (old-layout) link onto the final name that is being replaced: same content
            rw [e] at hold
            have := (h.good.advFile k k' true hold).1
            rw [this]
          · exact hold
      · intro x hx hxt
        have : x ≠ .adv k := by intro e; rw [e] at hxt; simp [Name.isTmp] at hxt
        simp [FS.set, hx, this]
      · intro k' t' he
        simp only [FS.set, hadv k', if_false] at he
        split at he
        · cases he
        · exact Or.inl he
    | read n checked =>
      simp only [stepOp] at hself ⊢
      cases hres : s.fs.resolve n with
      | none => simp only [hres] at hself ⊢; exact abortCase hself
      | some cb =>
        obtain ⟨c, b⟩ := cb
        simp only [hres] at hself ⊢
        by_cases hc : (checked && !b) = true
        · simp only [hc, if_true] at hself ⊢; exact abortCase hself
        · simp only [hc, Bool.false_eq_true, ↓reduceIte] at hself ⊢
          refine inv_same_fs i h hoth (by rw [hself, hΓ]; intro x c hc; exact hc)
            (by rw [hself, hΓ]; intro x c hc; exact hc) (by rw [hself]; exact hnext) ?_
          rw [hself]; intro n' c' b' k hm hn
          dsimp only at hm
          simp only [List.mem_append, List.mem_singleton, Prod.mk.injEq] at hm
          rcases hm with hm | ⟨rfl, rfl, rfl⟩
          · exact h.obsOk i n' c' b' k (by rw [hO]; exact hm) hn
          · subst hn; rw [resolve_eq] at hres; exact good_resolve h.good hres
    | readNewest cands =>
      simp only [stepOp] at hself ⊢
      cases hnew : s.fs.newest cands with
      | none => simp only [hnew] at hself ⊢; exact abortCase hself
      | some n =>
        simp only [hnew] at hself ⊢
        cases hres : s.fs.resolve n with
        | none => simp only [hres] at hself ⊢; exact abortCase hself
        | some cb =>
          obtain ⟨c, b⟩ := cb
          simp only [hres] at hself ⊢
          by_cases hc : (!b) = true
          · simp only [hc, if_true] at hself ⊢; exact abortCase hself
          · simp only [hc, Bool.false_eq_true, ↓reduceIte] at hself ⊢
            refine inv_same_fs i h hoth (by rw [hself, hΓ]; intro x c hc; exact hc)
              (by rw [hself, hΓ]; intro x c hc; exact hc) (by rw [hself]; exact hnext) ?_
            rw [hself]; intro n' c' b' k hm hn
            dsimp only at hm
            simp only [List.mem_append, List.mem_singleton, Prod.mk.injEq] at hm
            rcases hm with hm | ⟨rfl, rfl, rfl⟩
            · exact h.obsOk i n' c' b' k (by rw [hO]; exact hm) hn
            · subst hn; rw [resolve_eq] at hres; exact good_resolve h.good hres

/-- no step of any well-typed builder removes a final name (a `rename` may replace it — by the same
complete content, see `inv_step`) -/
theorem adv_present_persist (s : State) (i : Nat) (h : Inv s.fs.get s.procs)
    (k : Cid) (hk : s.fs.get (.adv k) ≠ none) : (s.step i).fs.get (.adv k) ≠ none := by
  have hty := h.typed i
  rw [step_fs]
  revert hty
  generalize hp : s.procs i = p
  intro hty
  obtain ⟨prog, Γ, obs, marks⟩ := p
  have hΓ : (s.procs i).ctx = Γ := by rw [hp]
  have tmpne : ∀ t, Owns Γ t → Name.adv k ≠ t := by
    intro t ho e
    have := h.ownTmp i t (by rw [hΓ]; exact ho)
    rw [← e] at this; simp [Name.isTmp] at this
  cases prog with
  | halt b => exact hk
  | ifStat n y no => exact hk
  | op o next =>
    simp only [wt] at hty
    obtain ⟨hok, _⟩ := hty
    simp only [stepProc]
    cases o with
    | mkdir => exact hk
    | mark m => exact hk
    | unsigned k0 => exact hk
    | create t c =>
      simp only [stepOp]
      cases habs : s.fs.get t with
      | none =>
        have : Name.adv k ≠ t := by intro e; rw [e] at hk; exact hk habs
        simp [FS.set, this, hk]
      | some n => exact hk
    | chunk t =>
      simp only [stepOp]
      obtain ⟨c0, hc0⟩ := hok
      have := tmpne t (owns_opened hc0)
      have hgt := h.ownOpen i t c0 (by rw [hΓ]; exact hc0)
      simp [hgt, FS.set, this, hk]
    | finish t =>
      simp only [stepOp]
      obtain ⟨c0, hc0⟩ := hok
      have := tmpne t (owns_opened hc0)
      have hgt := h.ownOpen i t c0 (by rw [hΓ]; exact hc0)
      simp [hgt, FS.set, this, hk]
    | symlink t dst =>
      simp only [stepOp]
      cases habs : s.fs.get dst with
      | none =>
        have : Name.adv k ≠ dst := by intro e; rw [e] at hk; exact hk habs
        simp [FS.set, this, hk]
      | some n => exact hk
    | remove t =>
      simp only [stepOp]
      obtain ⟨c0, hc0⟩ := hok
      have := tmpne t (owns_closed hc0)
      simp [FS.set, this, hk]
    | rename t dst =>
      simp only [stepOp]
      obtain ⟨k0, hk0, hdst⟩ := hok
      have := tmpne t (owns_closed hk0)
      have hgt := h.ownClosed i t k0 (by rw [hΓ]; exact hk0)
      simp only [hgt, FS.set, this, if_false]
      split
      · simp
      · exact hk
    | regen dst c => exact hok.elim
    | read n checked =>
      simp only [stepOp]
      cases s.fs.resolve n with
      | none => exact hk
      | some cb =>
        obtain ⟨c, b⟩ := cb
        by_cases hc : (checked && !b) = true <;> simp [hc, hk]
    | readNewest cands =>
      simp only [stepOp]
      cases s.fs.newest cands with
      | none => exact hk
      | some n =>
        dsimp only
        cases s.fs.resolve n with
        | none => exact hk
        | some cb =>
          obtain ⟨c, b⟩ := cb
          by_cases hc : (!b) = true <;> simp [hc, hk]

end Apko.C19
