/-
C11 — two invariants of `Generate`'s apk loop that hold with package-embedded SBOMs of arbitrary shape and
for every map iteration order:

* provenance (`Prov`): every element of the document is, unchanged, a header element (image, layer, source),
  the apko-generated element of an installed apk, or an element of an embedded SBOM.  No hypothesis.
  It gives the `stray-element` clause of the oracle for every input.

* protection (`Keep`): the image and layer elements themselves (not just their identifiers) stay in the
  document, the image stays the described element and keeps its CONTAINS relationships, and no other
  element carries one of their identifiers — provided nothing else in the input claims their names or
  identifiers (`Unclaimed`).  It gives the `image-digest` and `layer-digest` clauses.  Unlike `Prot` in
  SbomImage.lean it also covers documents without an image digest.
-/
import Apko.Proofs.Lemmas.SbomImage
import Apko.Proofs.Lemmas.SbomOracle

namespace Apko.Sbom
open Apko

/-! ### provenance -/

theorem locate_doc_pkgs {fs : SbomDir} {stems : List Text} {emb : Doc}
    (h : locate fs stems = .ok (some (.doc emb))) : ∀ p ∈ emb.packages, p ∈ embeddedPkgs fs := by
  obtain ⟨s, hs⟩ := locate_mem h
  intro p hp
  simp only [embeddedPkgs, List.mem_flatMap]
  exact ⟨(s, .doc emb), hs, hp⟩

theorem processInternal_prov {fs : SbomDir} {ord : List Id → List Id} {doc d : Doc} {name version : Text}
    (h : processInternal fs ord doc name version = .ok d) :
    ∀ p ∈ d.packages, p ∈ doc.packages ∨ p ∈ embeddedPkgs fs := by
  unfold processInternal at h
  split at h
  · cases h
  · cases h; exact fun p hp => Or.inl hp
  · cases h; exact fun p hp => Or.inl hp
  · cases h; exact fun p hp => Or.inl hp
  · next emb hloc =>
    dsimp only at h
    split at h
    · cases h
    · next doc1 hcp =>
      split at h
      · cases h
      · next lics hl =>
        cases h
        intro p hp
        have hp0 := foldl_replaceRound_packages_sub _ hp
        have hp1 : p ∈ doc1.packages := hp0
        obtain ⟨todo, _, _, _, hpk, _, _, _⟩ := copyElements_spec hcp
        rw [hpk] at hp1
        rcases List.mem_append.mp hp1 with hp | hp
        · exact Or.inl hp
        · exact Or.inr (locate_doc_pkgs hloc p (List.mem_filter.mp hp).1)

/-- every element is a header element, an apko-generated apk element or an embedded element, verbatim -/
def Prov (o : Opts) (fs : SbomDir) (d : Doc) : Prop :=
  ∀ p ∈ d.packages, p ∈ (header o).packages ∨
    (∃ a ∈ o.apks, p = apkPackage (nonceOf o.imageDigest) a) ∨ p ∈ embeddedPkgs fs

theorem addApks_prov {o : Opts} {fs : SbomDir} {ord : List Id → List Id}
    (apks : List Apk) (hsub : ∀ a ∈ apks, a ∈ o.apks) {doc d : Doc} (hp : Prov o fs doc)
    (h : addApks fs ord (nonceOf o.imageDigest) apks doc = .ok d) : Prov o fs d := by
  induction apks generalizing doc with
  | nil => simp only [addApks] at h; cases h; exact hp
  | cons a as ih =>
    simp only [addApks] at h
    split at h
    · cases h
    · next doc' ha =>
      refine ih (fun b hb => hsub b (by simp [hb])) ?_ h
      unfold addApk at ha
      intro p hpm
      rcases processInternal_prov ha p hpm with hpm | hpm
      · rcases List.mem_append.mp hpm with hpm | hpm
        · exact hp p hpm
        · simp only [List.mem_singleton] at hpm
          exact Or.inr (Or.inl ⟨a, hsub a (by simp), hpm⟩)
      · exact Or.inr (Or.inr hpm)

theorem generate_prov {o : Opts} {fs : SbomDir} {ord : List Id → List Id} {d : Doc}
    (h : generate o fs ord = .ok d) : Prov o fs d := by
  unfold generate at h
  split at h
  · cases h
  · split at h
    · cases h
    · next doc ha =>
      cases h
      intro p hp
      exact addApks_prov _ (fun _ h => h) (fun p hp => Or.inl hp) ha p (dedup_mem hp)

/-! ### the header: protected elements, then the source element -/

/-- the image element (when there is an image digest) and the layer elements -/
def protPkgs (o : Opts) : List Pkg :=
  (if o.imageDigest.isEmpty then [] else [imagePackage o.imageDigest]) ++ layerPackages o

def protIds2 (o : Opts) : List Id := (protPkgs o).map (·.id)
def protNames (o : Opts) : List Text := (protPkgs o).map (·.name)

/-- the source element, present when there is an image digest and a VCS url -/
def srcPkgs (o : Opts) : List Pkg :=
  if o.imageDigest.isEmpty || o.vcsUrl.isEmpty then [] else [sourcePackage o.vcsUrl]

theorem header_packages (o : Opts) : (header o).packages = protPkgs o ++ srcPkgs o := by
  unfold header protPkgs srcPkgs
  cases o.imageDigest.isEmpty <;> cases o.vcsUrl.isEmpty <;> simp [addSourcePackage]

theorem header_ids (o : Opts) : (header o).ids = protIds2 o ++ (srcPkgs o).map (·.id) := by
  simp [Doc.ids, header_packages, protIds2]

theorem imageId_mem_prot {o : Opts} (he : o.imageDigest.isEmpty = false) : imageId o.imageDigest ∈ protIds2 o := by
  simp [protIds2, protPkgs, he, imagePackage]

theorem imagePackage_mem_prot {o : Opts} (he : o.imageDigest.isEmpty = false) :
    imagePackage o.imageDigest ∈ protPkgs o := by
  simp [protPkgs, he]

theorem layerPackage_mem_prot {o : Opts} {l : Text} (hl : l ∈ o.layers) :
    layerPackage o.osVersion l ∈ protPkgs o := by
  simp only [protPkgs, layerPackages, List.mem_append, List.mem_map]
  exact Or.inr ⟨l, hl, rfl⟩

theorem layerId_mem_prot {o : Opts} {l : Text} (hl : l ∈ o.layers) : layerId l ∈ protIds2 o :=
  List.mem_map.mpr ⟨_, layerPackage_mem_prot hl, rfl⟩

theorem header_pkg_cases {o : Opts} {p : Pkg} (hp : p ∈ (header o).packages) :
    p.name = o.imageDigest ∨ p.name ∈ o.layers ∨ p.id = sourceId o.vcsUrl := by
  rw [header_packages] at hp
  rcases List.mem_append.mp hp with hp | hp
  · simp only [protPkgs, List.mem_append, layerPackages, List.mem_map] at hp
    rcases hp with hp | ⟨l, hl, rfl⟩
    · split at hp
      · cases hp
      · simp only [List.mem_singleton] at hp; subst hp; exact Or.inl rfl
    · exact Or.inr (Or.inl hl)
  · unfold srcPkgs at hp
    split at hp
    · cases hp
    · simp only [List.mem_singleton] at hp; subst hp; exact Or.inr (Or.inr rfl)

theorem matches_apkPackage (nonce : Text) (a : Apk) : Matches a (apkPackage nonce a) := by
  simp [Matches, apkPackage]

/-- the `stray-element` clause holds of every document the model emits -/
theorem generate_noStray {o : Opts} {fs : SbomDir} {ord : List Id → List Id} {d : Doc}
    (h : generate o fs ord = .ok d) : NoStray o fs d := by
  intro p hp
  rcases generate_prov h p hp with hp | ⟨a, ha, rfl⟩ | hp
  · rcases header_pkg_cases hp with h | h | h
    · exact Or.inl h
    · exact Or.inr (Or.inl h)
    · exact Or.inr (Or.inr (Or.inl h))
  · exact Or.inr (Or.inr (Or.inr (Or.inl ⟨a, ha, matches_apkPackage _ a⟩)))
  · exact Or.inr (Or.inr (Or.inr (Or.inr hp)))

/-! ### protection of the image and layer elements -/

structure Keep (o : Opts) (d : Doc) : Prop where
  desc : o.imageDigest.isEmpty = false → d.describes = [imageId o.imageDigest]
  rels : o.imageDigest.isEmpty = false →
    ∀ l ∈ o.layers, (⟨imageId o.imageDigest, "CONTAINS".toList, layerId l⟩ : Rel) ∈ d.rels
  keep : ∀ p ∈ protPkgs o, p ∈ d.packages
  only : ∀ p ∈ d.packages, p.id ∈ protIds2 o → p ∈ protPkgs o

theorem replaceBody_keep {o : Opts} {d : Doc} {a b : Id} (h : Keep o d) (ha : a ∉ protIds2 o) :
    Keep o (replaceBody d a b) := by
  refine ⟨?_, ?_, ?_, ?_⟩
  · intro he
    have hi : imageId o.imageDigest ≠ a := fun e => ha (e ▸ imageId_mem_prot he)
    show replaceFirst a b d.describes = _
    rw [h.desc he]; simp [replaceFirst, hi]
  · intro he l hl'
    have hi : imageId o.imageDigest ≠ a := fun e => ha (e ▸ imageId_mem_prot he)
    have hl : layerId l ≠ a := fun e => ha (e ▸ layerId_mem_prot hl')
    show _ ∈ d.rels.map (renameRel a b)
    refine List.mem_map.mpr ⟨_, h.rels he l hl', ?_⟩
    simp [renameRel, hi, hl]
  · intro p hp
    have hpa : p.id ≠ a := fun e => ha (e ▸ List.mem_map_of_mem (f := fun x : Pkg => x.id) hp)
    have hk : p ∈ d.packages.filter (fun p => p.id ≠ a) := by simp [h.keep p hp, hpa]
    simp only [replaceBody]
    split
    · exact h.keep p hp
    · exact hk
  · intro p hp
    exact h.only p (replaceBody_packages_sub hp)

theorem replaceRound_keep {o : Opts} {name : Text} {d : Doc} {t : Id} (h : Keep o d)
    (hn : name ∉ protNames o) : Keep o (replaceRound name d t) := by
  unfold replaceRound
  split
  · next q hq =>
    have hqm : q ∈ d.packages := List.mem_of_find?_eq_some hq
    have hqn : q.name = name := by simpa using List.find?_some hq
    have hqa : q.id ∉ protIds2 o := fun hc =>
      hn (hqn ▸ List.mem_map_of_mem (f := fun x : Pkg => x.name) (h.only q hqm hc))
    unfold replacePackage
    split
    · exact h
    · exact replaceBody_keep h hqa
  · exact h

theorem foldl_replaceRound_keep {o : Opts} {name : Text} (l : List Id) {d : Doc} (h : Keep o d)
    (hn : name ∉ protNames o) : Keep o (l.foldl (replaceRound name) d) := by
  induction l generalizing d with
  | nil => exact h
  | cons x xs ih => exact ih (replaceRound_keep h hn)

theorem processInternal_keep {o : Opts} {fs : SbomDir} {ord : List Id → List Id} {doc d : Doc} {name version : Text}
    (h : Keep o doc) (hn : name ∉ protNames o) (hemb : ∀ i ∈ embeddedIds fs, i ∉ protIds2 o)
    (hp : processInternal fs ord doc name version = .ok d) : Keep o d := by
  unfold processInternal at hp
  split at hp
  · cases hp
  · cases hp; exact h
  · cases hp; exact h
  · cases hp; exact h
  · next emb hloc =>
    dsimp only at hp
    split at hp
    · cases hp
    · next doc1 hcp =>
      split at hp
      · cases hp
      · next lics hl =>
        cases hp
        obtain ⟨todo, _, _, _, hpk, hrl, hds, _⟩ := copyElements_spec hcp
        apply foldl_replaceRound_keep _ _ hn
        refine ⟨?_, ?_, ?_, ?_⟩
        · intro he; show doc1.describes = _; rw [hds]; exact h.desc he
        · intro he l hl'; show _ ∈ doc1.rels; rw [hrl]; exact List.mem_append_left _ (h.rels he l hl')
        · intro p hp'
          show p ∈ doc1.packages
          rw [hpk]
          exact List.mem_append_left _ (h.keep p hp')
        · intro p hp' hpi
          have : p ∈ doc1.packages := hp'
          rw [hpk] at this
          rcases List.mem_append.mp this with hp'' | hp''
          · exact h.only p hp'' hpi
          · exact absurd hpi (hemb _ (locate_doc_embedded hloc p (List.mem_filter.mp hp'').1))

theorem append_pkg_keep {o : Opts} {doc : Doc} {p : Pkg} (h : Keep o doc) (hp : p.id ∉ protIds2 o) :
    Keep o { doc with packages := doc.packages ++ [p] } := by
  refine ⟨h.desc, h.rels, fun q hq => List.mem_append_left _ (h.keep q hq), ?_⟩
  intro q hq hqi
  rcases List.mem_append.mp hq with hq | hq
  · exact h.only q hq hqi
  · simp only [List.mem_singleton] at hq
    subst hq
    exact absurd hqi hp

theorem addApks_keep {o : Opts} {fs : SbomDir} {ord : List Id → List Id} {nonce : Text}
    (apks : List Apk) (hname : ∀ a ∈ apks, a.name ∉ protNames o) (hemb : ∀ i ∈ embeddedIds fs, i ∉ protIds2 o)
    (hapk : ∀ a ∈ apks, apkId nonce a ∉ protIds2 o) {doc d : Doc} (h : Keep o doc)
    (hp : addApks fs ord nonce apks doc = .ok d) : Keep o d := by
  induction apks generalizing doc with
  | nil => simp only [addApks] at hp; cases hp; exact h
  | cons a as ih =>
    simp only [addApks] at hp
    split at hp
    · cases hp
    · next doc' ha =>
      refine ih (fun b hb => hname b (by simp [hb])) (fun b hb => hapk b (by simp [hb])) ?_ hp
      unfold addApk at ha
      exact processInternal_keep (append_pkg_keep h (hapk a (by simp))) (hname a (by simp)) hemb ha

/-- header elements with the same identifier are the same element (a layer digest listed twice is allowed;
two digests that sanitise to one identifier, or a source identifier equal to a layer's, are not) -/
def HdrInj (o : Opts) : Prop :=
  ∀ p ∈ (header o).packages, ∀ q ∈ (header o).packages, p.id = q.id → p = q

theorem hdrInj_of_nodup {o : Opts} (hn : (header o).ids.Nodup) : HdrInj o :=
  inj_of_nodup_map (f := fun x : Pkg => x.id) hn

theorem prot_sub_header {o : Opts} {p : Pkg} (hp : p ∈ protPkgs o) : p ∈ (header o).packages := by
  rw [header_packages]; exact List.mem_append_left _ hp

theorem header_keep {o : Opts} (hn : HdrInj o) : Keep o (header o) := by
  refine ⟨?_, ?_, ?_, ?_⟩
  · intro he
    rw [header_image he]
    split <;> rfl
  · intro he l hl
    rw [header_image he]
    split
    · simp only [headerBase, List.mem_map]; exact ⟨l, hl, rfl⟩
    · simp only [addSourcePackage, headerBase, List.mem_append, List.mem_map]; exact Or.inl ⟨l, hl, rfl⟩
  · intro p hp
    exact prot_sub_header hp
  · intro p hp hpi
    obtain ⟨q, hq, hqi⟩ := List.mem_map.mp hpi
    have : q = p := hn q (prot_sub_header hq) p hp hqi
    exact this ▸ hq

/-- from the invariant to the oracle's clauses, through the de-dup pass -/
theorem keep_dedup_find {o : Opts} {doc : Doc} (hn : HdrInj o) (h : Keep o doc) {q : Pkg}
    (hq : q ∈ protPkgs o) : q ∈ dedup doc.packages := by
  have hqi : q.id ∈ (dedup doc.packages).map (·.id) :=
    (dedup_ids _ _).mpr (List.mem_map_of_mem (f := fun x : Pkg => x.id) (h.keep q hq))
  obtain ⟨p, hp, hpi⟩ := List.mem_map.mp hqi
  have hpp : p ∈ protPkgs o := h.only p (dedup_mem hp) (by
    show p.id ∈ protIds2 o
    rw [hpi]; exact List.mem_map_of_mem (f := fun x : Pkg => x.id) hq)
  have : p = q := hn p (prot_sub_header hpp) q (prot_sub_header hq) hpi
  exact this ▸ hp

theorem keep_imageOk {o : Opts} {doc : Doc} (hn : HdrInj o) (h : Keep o doc) :
    ImageOk o { doc with packages := dedup doc.packages } := by
  intro he
  refine ⟨imageId o.imageDigest, h.desc he, imagePackage o.imageDigest,
    keep_dedup_find hn h (imagePackage_mem_prot he), rfl, rfl, ?_⟩
  simp [imagePackage]

theorem keep_layersOk {o : Opts} {doc : Doc} (hn : HdrInj o) (h : Keep o doc) :
    LayersOk o { doc with packages := dedup doc.packages } := by
  intro l hl
  refine ⟨layerPackage o.osVersion l, keep_dedup_find hn h (layerPackage_mem_prot hl), rfl, ?_⟩
  cases he : o.imageDigest.isEmpty
  · right
    refine ⟨_, h.rels he l hl, rfl, rfl, ?_⟩
    show _ ∈ doc.describes
    rw [h.desc he]; simp
  · exact Or.inl rfl

end Apko.Sbom
