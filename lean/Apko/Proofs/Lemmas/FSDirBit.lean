import Apko.Proofs.Lemmas.FSInvStep
/-! `DirBit` (the `ModeDir` bit is only carried by directories — what `Mkdir` relies on when it tests
the bit instead of the `dir` flag) is preserved by every operation whose permission argument carries
no `ModeDir` bit.  Discharges the `DirBit` hypothesis of `inv_step` for every reachable state. -/
namespace Apko.FS
open Apko Apko.Path

def BitOK (n : Inode) : Prop := n.mode.testBit 31 = true → n.dir = true

theorem dirBit_iff (fs : FS) : DirBit fs ↔ ∀ i, BitOK (fs.node i) := Iff.rfl

/-- `DirBit` as a structure (so that tactic scripts fail fast on goals of another shape) -/
structure DB (fs : FS) : Prop where
  bit : ∀ i, BitOK (fs.node i)

theorem DB.toDirBit {fs : FS} (h : DB fs) : DirBit fs := h.bit
theorem DB.of {fs : FS} (h : DirBit fs) : DB fs := ⟨h⟩

theorem BitOK.default : BitOK (default : Inode) := by intro h; exact absurd h (by decide)

theorem DB.empty : DB FS.empty := by
  refine ⟨fun i => ?_⟩
  rcases i with _ | i
  · intro _; rfl
  · rw [node_empty_succ]; exact BitOK.default

theorem DB.of_nodes_eq {fs fs' : FS} (h : fs'.nodes = fs.nodes) (hb : DB fs) : DB fs' := by
  refine ⟨fun i => ?_⟩
  have : fs'.node i = fs.node i := by simp [FS.node, h]
  rw [this]; exact hb.bit i

theorem DB.handles {fs : FS} (hs : List Handle) (hb : DB fs) : DB { fs with handles := hs } :=
  DB.of_nodes_eq (fs := fs) rfl hb

theorem DB.setNode {fs : FS} (hb : DB fs) (i : Nat) (n : Inode) (hn : BitOK n) : DB (fs.setNode i n) := by
  refine ⟨fun j => ?_⟩
  rw [node_setNode]
  split
  · exact hn
  · exact hb.bit j

theorem DB.modify {fs : FS} (hb : DB fs) (i : Nat) (f : Inode → Inode)
    (hf : BitOK (fs.node i) → BitOK (f (fs.node i))) : DB (fs.modify i f) :=
  hb.setNode i _ (hf (hb.bit i))

/-- an update that keeps mode and `dir` flag -/
theorem DB.modify_same {fs : FS} (hb : DB fs) (i : Nat) (f : Inode → Inode)
    (hm : ∀ n, (f n).mode = n.mode) (hd : ∀ n, (f n).dir = n.dir) : DB (fs.modify i f) :=
  hb.modify i f (by intro h; unfold BitOK; rw [hm, hd]; exact h)

/-- replacing a node by one with the same mode and `dir` flag -/
theorem DB.setNode_same {fs : FS} (hb : DB fs) (i : Nat) (n : Inode)
    (hm : n.mode = (fs.node i).mode) (hd : n.dir = (fs.node i).dir) : DB (fs.setNode i n) :=
  hb.setNode i n (by intro h; rw [hm] at h; rw [hd]; exact hb.bit i h)

theorem DB.alloc {fs : FS} (hb : DB fs) (nd : Inode) (hn : BitOK nd) : DB (fs.alloc nd).1 := by
  refine ⟨fun j => ?_⟩
  rw [node_alloc]
  split
  · exact hn
  · exact hb.bit j

theorem DB.link {fs : FS} (hb : DB fs) (d : Nat) (n : Name) (t : Nat) : DB (fs.link d n t) :=
  hb.modify_same d _ (fun _ => rfl) (fun _ => rfl)

theorem DB.unlink {fs : FS} (hb : DB fs) (d : Nat) (n : Name) : DB (fs.unlink d n) :=
  hb.modify_same d _ (fun _ => rfl) (fun _ => rfl)

theorem DB.create {fs : FS} (hb : DB fs) (d : Nat) (n : Name) (nd : Inode) (hn : BitOK nd) :
    DB (fs.create d n nd).1 := by
  unfold FS.create
  exact (hb.alloc nd hn).link d n _

/-- a permission argument without the `ModeDir` bit -/
def noDirBit (perm : Nat) : Prop := perm.testBit 31 = false

theorem bitOK_file (perm : Nat) (hp : noDirBit perm) : BitOK { mode := perm } := by
  intro h; rw [hp] at h; cases h

theorem symlinkMode_bit31 : (modeSymlink + 0o777).testBit 31 = false := by decide

theorem bitOK_symlink (t : Text) (m : Int) : BitOK { mode := modeSymlink + 0o777, target := t, mtime := m } := by
  intro h; simp only [symlinkMode_bit31] at h; cases h

theorem bitOK_newDir (mode : Nat) : BitOK (newDir mode) := fun _ => rfl

theorem mkdirAllLoop_dirBit (c : Cfg) (mode : Nat) :
    ∀ (rest : List Name) (fs : FS) (at_ : Pos) (tr : List Name),
      DB fs → DB (mkdirAllLoop c mode rest fs at_ tr).1 := by
  intro rest
  induction rest with
  | nil => intro fs at_ tr hb; simpa [mkdirAllLoop] using hb
  | cons part rest ih =>
    intro fs at_ tr hb
    unfold mkdirAllLoop
    cases hl : fs.lookup at_.ino part with
    | some n =>
      simp only []
      repeat' split
      all_goals (try exact hb)
      all_goals (exact ih _ _ _ hb)
    | none =>
      have hb1 := hb.create at_.ino part (newDir mode) (bitOK_newDir mode)
      simp only []
      repeat' split
      all_goals (try exact hb1)
      all_goals (exact ih _ _ _ hb1)

theorem mkdirAll_dirBit (c : Cfg) (fs : FS) (p : Text) (perm : Nat) (hb : DB fs) :
    DB (mkdirAll c fs p perm).1 := by
  unfold mkdirAll
  simp only []
  split
  · exact hb
  · have := mkdirAllLoop_dirBit c (modeDir ||| perm) ((parts p).filter (· ≠ dot)) fs { ino := 0 } [] hb
    split <;> simp_all

theorem openFileD_dirBit (c : Cfg) (flag perm : Nat) (hp : noDirBit perm) :
    ∀ (budget : Nat) (fs : FS) (start : List Ino) (name : Text),
      DB fs → DB (openFileD c flag perm budget fs start name).1 := by
  intro budget
  induction budget with
  | zero =>
    intro fs start name hb
    unfold openFileD
    simp only []
    repeat' split
    all_goals (try exact hb)
    all_goals (try exact hb.create _ _ _ (bitOK_file perm hp))
    all_goals (try exact DB.setNode_same (hb.create _ _ _ (bitOK_file perm hp)) _ _ rfl rfl)
    all_goals (exact DB.setNode_same hb _ _ rfl rfl)
  | succ k ih =>
    intro fs start name hb
    unfold openFileD
    simp only []
    repeat' split
    all_goals (try exact hb)
    all_goals (try exact ih _ _ _ hb)
    all_goals (try exact ih _ _ _ (hb.create _ _ _ (bitOK_file perm hp)))
    all_goals (try exact hb.create _ _ _ (bitOK_file perm hp))
    all_goals (try exact DB.setNode_same (hb.create _ _ _ (bitOK_file perm hp)) _ _ rfl rfl)
    all_goals (exact DB.setNode_same hb _ _ rfl rfl)

theorem openCore_dirBit (c : Cfg) (fs : FS) (name : Text) (flag perm : Nat) (hp : noDirBit perm) (hb : DB fs) :
    DB (openCore c fs name flag perm).1 := by
  unfold openCore
  have := openFileD_dirBit c flag perm hp maxLinks fs [0] name hb
  split
  · rename_i heq; simpa [heq] using this
  · rename_i fs1 o heq
    simp only [heq] at this
    simp only [newMemFile]
    split
    · exact DB.setNode_same this _ _ rfl rfl
    · exact this

theorem setXattr_dirBit (c : Cfg) (fs : FS) (p : Text) (a : Name) (d : Text) (hb : DB fs) :
    DB (setXattr c fs p a d).1 := by
  unfold setXattr
  split
  · exact hb
  · simp only []
    apply DB.modify_same hb <;> (intro n; rfl)

theorem setXattrs_dirBit (c : Cfg) (name : Text) :
    ∀ (l : List (Name × Text)) (fs : FS), DB fs → DB (setXattrs c name l fs).1 := by
  intro l
  induction l with
  | nil => intro fs hb; simpa [setXattrs] using hb
  | cons e rest ih =>
    intro fs hb
    obtain ⟨k, v⟩ := e
    unfold setXattrs
    have := setXattr_dirBit c fs name k v hb
    generalize setXattr c fs name k v = r at this
    obtain ⟨fs1, o⟩ := r
    cases o <;> simp only [] <;> first | exact ih _ this | exact this

theorem finishXattrs_dirBit (c : Cfg) (h : Hdr) (fs : FS) (v : Val) (hb : DB fs) : DB (finishXattrs c h fs v).1 := by
  unfold finishXattrs
  have := setXattrs_dirBit c h.name h.xattrs fs hb
  split <;> simp_all

theorem linkOp_dirBit (c : Cfg) (fs : FS) (o n : Text) (hdr : Bool) (hb : DB fs) : DB (linkOp c fs o n hdr).1 := by
  unfold linkOp
  repeat' split
  all_goals (try exact hb)
  all_goals
    simp only []
    apply DB.modify_same (hb.link _ _ _) <;> (intro n; rfl)

/-- the mode of a regular-file or symlink header carries no `ModeDir` bit -/
theorem hdrMode_noDirBit (h : Hdr) (ht : h.typeflag ≠ 53) : noDirBit (hdrMode h) := by
  unfold noDirBit hdrMode
  simp only [Nat.testBit_or, Nat.testBit_and]
  have h1 : (0o777 : Nat).testBit 31 = false := by decide
  have h2 : (if h.mode.testBit 11 then modeSetuid else 0).testBit 31 = false := by split <;> decide
  have h3 : (if h.mode.testBit 10 then modeSetgid else 0).testBit 31 = false := by split <;> decide
  have h4 : (if h.mode.testBit 9 then modeSticky else 0).testBit 31 = false := by split <;> decide
  have h5 : (if h.typeflag = 50 then modeSymlink else if h.typeflag = 53 then modeDir else 0).testBit 31 = false := by
    split
    · decide
    · simp [ht]
  simp [h1, h2, h3, h4, h5]


theorem writeHeaderFile_dirBit (c : Cfg) (fs : FS) (h : Hdr) (sum : Text) (ht : h.typeflag ≠ 53) (hb : DB fs) :
    DB (writeHeaderFile c fs h sum).1 := by
  have hn : ∀ nd : Inode, nd.mode = hdrMode h → BitOK nd := by
    intro nd hnd hm
    have := hdrMode_noDirBit h ht
    unfold noDirBit at this
    rw [hnd, this] at hm; cases hm
  unfold writeHeaderFile
  simp only []
  repeat' split
  all_goals (try exact hb)
  all_goals exact hb.create _ _ _ (hn _ rfl)

theorem whDir_dirBit (c : Cfg) (fs : FS) (h : Hdr) (hb : DB fs) : DB (whDir c fs h).1 := by
  unfold whDir
  have h1 := mkdirAll_dirBit c fs h.name (h.mode &&& 0o777) hb
  generalize mkdirAll c fs h.name (h.mode &&& 0o777) = r at h1
  obtain ⟨fs1, o⟩ := r
  cases o with
  | ok v =>
    simp only []
    split
    · exact h1
    · apply finishXattrs_dirBit
      apply DB.modify_same h1 <;> (intro n; rfl)
  | err e => exact h1
  | nohandle => exact h1

theorem whFile_dirBit (c : Cfg) (fs : FS) (h : Hdr) (ht : h.typeflag ≠ 53) (hb : DB fs) : DB (whFile c fs h).1 := by
  unfold whFile
  split
  · exact hb
  · split
    · exact hb
    · rename_i sum _
      have h1 := writeHeaderFile_dirBit c fs h sum ht hb
      generalize writeHeaderFile c fs h sum = r at h1 ⊢
      obtain ⟨fs1, o⟩ := r
      cases o with
      | error e => exact h1
      | ok b => exact finishXattrs_dirBit c h fs1 _ h1

theorem writeHeaderOp_dirBit (c : Cfg) (fs : FS) (h : Hdr) (hb : DB fs) : DB (writeHeaderOp c fs h).1 := by
  unfold writeHeaderOp
  split
  · exact hb
  · split
    · exact whDir_dirBit c fs h hb
    · rename_i h53
      split
      · exact whFile_dirBit c fs h h53 hb
      · split
        · have h1 := linkOp_dirBit c fs h.linkname h.name true hb
          generalize linkOp c fs h.linkname h.name true = r at h1
          obtain ⟨fs1, o⟩ := r
          cases o <;> exact h1
        · exact hb

/-- permission / mode arguments carry no `ModeDir` bit (true of every call in apko:
`permissionsToFileMode`, `header.FileInfo().Mode().Perm()`, literal modes, `unix.S_IFCHR|perms`);
`Mkdir`/`MkdirAll` may be given anything, what they create is a directory -/
def opModeOK : Op → Prop
  | .openFile _ _ perm => noDirBit perm
  | .writeFile _ _ perm => noDirBit perm
  | .chmod _ perm => noDirBit perm
  | .mknod _ mode _ => noDirBit mode
  | _ => True

theorem modeType_bit31 : modeType.testBit 31 = true := by decide

theorem typeKeep_bit31 (old perm : Nat) (hp : noDirBit perm) : (typeKeep old perm).testBit 31 = old.testBit 31 := by
  unfold noDirBit at hp
  simp [typeKeep, Nat.testBit_or, Nat.testBit_and, hp, modeType_bit31]

theorem db_step (c : Cfg) (fs : FS) (op : Op) (hm : opModeOK op) (hb : DB fs) : DB (step c fs op).1 := by
  cases op with
  | mkdirAll p perm => exact mkdirAll_dirBit c fs p perm hb
  | openFile p flag perm =>
    simp only [step]
    have := openCore_dirBit c fs p flag perm hm hb
    split <;> (rename_i heq; simp only [heq] at this; exact DB.handles _ this)
  | create p =>
    simp only [step]
    have := openCore_dirBit c fs p flagsWriteFile 0o666 (by unfold noDirBit; decide) hb
    split <;> (rename_i heq; simp only [heq] at this; exact DB.handles _ this)
  | readFile p =>
    simp only [step]
    have := openCore_dirBit c fs p 0 0o644 (by unfold noDirBit; decide) hb
    split <;> (rename_i heq; simp only [heq] at this; exact this)
  | writeFile p data perm =>
    simp only [step]
    have := openCore_dirBit c fs p flagsWriteFile perm hm hb
    split
    · rename_i heq; simp only [heq] at this; exact this
    · rename_i heq; simp only [heq] at this; exact DB.setNode_same this _ _ rfl rfl
  | setXattr p a d => exact setXattr_dirBit c fs p a d hb
  | link o n => exact linkOp_dirBit c fs o n false hb
  | writeHeader h => exact writeHeaderOp_dirBit c fs h hb
  | chmod p perm =>
    simp only [step]
    split
    · exact hb
    · simp only []
      apply hb.modify
      intro h0 h1
      rw [typeKeep_bit31 _ _ hm] at h1
      exact h0 h1
  | mknod p mode dev =>
    have hm' : mode.testBit 31 = false := hm
    have hbit : ∀ nd : Inode, nd.mode = (mode ||| modeCharDevice ||| modeDevice) → BitOK nd := by
      intro nd hnd h1
      have : (mode ||| modeCharDevice ||| modeDevice).testBit 31 = false := by
        simp only [Nat.testBit_or, hm']; decide
      rw [hnd, this] at h1; cases h1
    simp only [step]
    repeat' split
    all_goals (try exact hb)
    exact hb.create _ _ _ (hbit _ rfl)
  | _ =>
    simp only [step]
    repeat' split
    all_goals (try exact hb)
    all_goals (try exact DB.handles _ hb)
    all_goals (try exact hb.create _ _ _ (bitOK_newDir _))
    all_goals (try exact hb.create _ _ _ (bitOK_symlink _ _))
    all_goals (try (simp only []; apply DB.modify_same hb <;> (intro n; rfl)))
    all_goals (try exact DB.handles _ (DB.setNode_same hb _ _ rfl rfl))
    all_goals (try exact DB.unlink (DB.modify_same hb _ _ (by intro n; rfl) (by intro n; rfl)) _ _)

/-- **dirbit_step**: the hypothesis `DirBit` of `inv_step` is itself an invariant -/
theorem dirbit_step (c : Cfg) (fs : FS) (op : Op) (hm : opModeOK op) (hb : DirBit fs) : DirBit (step c fs op).1 :=
  (db_step c fs op hm ⟨hb⟩).bit

end Apko.FS
