/-
C16 / F16i: `sortTarHeaders` is not linear in its input.  A directory name recorded twice is appended twice to
its parent's child list and its subtree is emitted once per occurrence; sorting the output again doubles every
level below the duplicate.  The witness is a chain of depth 3 with one duplicated record, evaluated with the
`sortChildren` equations (well-founded recursion does not run under `decide`).
-/
import Apko.Proofs.Lemmas.FormatsSort

namespace Apko.Formats
open Apko

def chA : FileRec := ⟨"a".toList, true, 0o755, 0, 0, []⟩
def chB : FileRec := ⟨"a/b".toList, true, 0o755, 0, 0, []⟩
def chC : FileRec := ⟨"a/b/c".toList, true, 0o755, 0, 0, []⟩
def chF : FileRec := ⟨"a/b/c/f".toList, false, 0o644, 0, 0, []⟩

/-- a chain a ⊃ a/b ⊃ a/b/c ⊃ a/b/c/f in which the record of a/b is listed twice -/
def dupChain : List FileRec := [chA, chB, chB, chC, chF]
/-- what `sortTarHeaders` emits for it: the subtree of a/b twice -/
def dupChain1 : List FileRec := [chA, chB, chC, chF, chB, chC, chF]
/-- … and for that list: every level below a doubles again -/
def dupChain2 : List FileRec :=
  [chA, chB, chC, chF, chF, chC, chF, chF, chB, chC, chF, chF, chC, chF, chF]

/-- evaluates `sortChildren` / `sortChildren.go` level by level -/
macro "sort_eval" : tactic =>
  `(tactic| repeat (first
      | exact sortChildren.go.eq_1 _ _
      | apply go_eval_cons
      | (apply sortChildren_eval <;> first | decide | skip)))

theorem dupChain_sorted : sortHeaders dupChain = some dupChain1 := by
  unfold sortHeaders
  simp only []
  have h1 : (dedupTexts (dupChain.map fun h => pathDir (pathClean h.name))).filter (fun d => pathDir d = ['.'])
      = [".".toList, "a".toList] := by decide
  rw [h1, sortTexts_sorted _ (by decide)]
  apply Eq.trans
  · sort_eval
  · decide

theorem dupChain1_sorted : sortHeaders dupChain1 = some dupChain2 := by
  unfold sortHeaders
  simp only []
  have h1 : (dedupTexts (dupChain1.map fun h => pathDir (pathClean h.name))).filter (fun d => pathDir d = ['.'])
      = [".".toList, "a".toList] := by decide
  rw [h1, sortTexts_sorted _ (by decide)]
  apply Eq.trans
  · sort_eval
  · decide

theorem dupChain_class : dupDirWithChildren dupChain = true ∧ dupDirWithChildren dupChain1 = true := by decide

end Apko.Formats
