/-
Helper lemmas for the end-to-end part of C20 (Apko/Proofs/C20Fetch.lean): the byte path of the cache
transport (`retrieve`, `fetchAndCache`, `fetchOffline`) and histories.
-/
import Apko.Proofs.Lemmas.Fetch

namespace Apko.Fetch
open Apko Apko.Retry

/-- every advertised file of the directory holds a body the server answered with under that very ETag -/
def Sound (served : List (Etag × Text)) (files : List File) : Prop :=
  ∀ f ∈ files, ∀ e, f.name = some e → (e, f.content) ∈ served

/-- the advertised part of a directory -/
def advertisedOf (files : List File) : List File := files.filter File.advertised

theorem Sound.mono {served served' : List (Etag × Text)} {files : List File}
    (h : Sound served files) (hs : ∀ x ∈ served, x ∈ served') : Sound served' files :=
  fun f hf e he => hs _ (h f hf e he)

theorem Sound.append {served : List (Etag × Text)} {files : List File} {f : File}
    (h : Sound served files) (hf : ∀ e, f.name = some e → (e, f.content) ∈ served) :
    Sound served (files ++ [f]) := by
  intro g hg e he
  simp only [List.mem_append, List.mem_singleton] at hg
  rcases hg with hg | rfl
  · exact h g hg e he
  · exact hf e he

theorem entry_spec {c : Cache} {e : Etag} {f : File} (h : c.entry e = some f) :
    f ∈ c.files ∧ f.name = some e := by
  unfold Cache.entry at h
  refine ⟨List.mem_of_find?_eq_some h, ?_⟩
  have := List.find?_some h
  simpa using this

theorem entry_append_new {c : Cache} {e : Etag} {bs : Text} (h : (c.entry e).isSome = false) :
    Cache.entry { c with files := c.files ++ [⟨some e, bs⟩] } e = some ⟨some e, bs⟩ := by
  unfold Cache.entry at h ⊢
  simp only [List.find?_append]
  cases hf : c.files.find? (fun f => f.name == some e) with
  | some f => simp [hf] at h
  | none => simp

theorem cacheHead_files (hasMemo : Bool) (s : Srv) (c : Cache) (script : List XConn) :
    (cacheHead hasMemo s c script).2.1.files = c.files := by
  unfold cacheHead
  split
  · rfl
  · split
    · rfl
    · split <;> rfl

/-- what `retrieve` does to the directory, case by case: nothing; a partial temp file and an error; or a
new entry under the ETag of the GET answer holding everything a cleanly ended 200 body delivered -/
inductive RetrieveCase (cl : Callers) (s : Srv) (c : Cache) (script : List XConn) (sz : Nat → Nat) :
    Option Etag → Cache → Prop
  | same (o : Option Etag) (h : ∀ fin, o = some fin → (c.entry fin).isSome) : RetrieveCase cl s c script sz o c
  | tmp (bs : Text) : RetrieveCase cl s c script sz none { c with files := c.files ++ [⟨none, bs⟩] }
  | stored (x : XConn) (rest : List XConn) (fin : Etag) (body : Option Body) (bs : Text)
      (hscript : script = x :: rest) (hetag : respEtag s x = some fin)
      (hget : doGet s.data s.kind x.conn = some (cl.getStatus, body))
      (hcopy : (drainResp sz body).1 = .ok bs)
      (hnew : (c.entry fin).isSome = false) :
      RetrieveCase cl s c script sz (some fin) { c with files := c.files ++ [⟨some fin, bs⟩] }

theorem retrieve_case (cl : Callers) (s : Srv) (c : Cache) (script : List XConn) (sz : Nat → Nat) :
    RetrieveCase cl s c script sz (retrieve cl s c script sz).1 (retrieve cl s c script sz).2.1 := by
  unfold retrieve
  split
  · exact .same _ (fun _ h => nomatch h)
  · next x rest =>
    split
    · exact .same _ (fun _ h => nomatch h)
    · next code body hget =>
      split
      · exact .same _ (fun _ h => nomatch h)
      · next hcode =>
        have hcode' : code = cl.getStatus := Decidable.of_not_not hcode
        subst hcode'
        split
        · exact .same _ (fun _ h => nomatch h)
        · next fin hetag =>
          simp only
          split
          · next bs hcopy =>
            split
            · next hex => exact .same _ (fun f h => by cases h; exact hex)
            · next hex =>
              exact .stored x rest fin body bs rfl hetag hget hcopy (by simpa using hex)
          · next g hg => exact .tmp _

/-- what a completed copy of a 200 answer holds -/
theorem stored_content {cl : Callers} (hgs : cl.getStatus = httpOK) {s : Srv} {x : XConn} {body : Option Body}
    {bs : Text} {sz : Nat → Nat}
    (hget : doGet s.data s.kind x.conn = some (cl.getStatus, body))
    (hcopy : (drainResp sz body).1 = .ok bs) :
    bs <+: s.data ∧ (x.conn.invisibleEnd s.data s.kind none = false → bs = s.data) := by
  obtain ⟨h1, h2, _⟩ := doGet_drain_spec hget hgs sz
  rw [hcopy] at h1
  exact ⟨h1, h2 bs hcopy⟩

theorem respEtag_served {s : Srv} {x : XConn} {fin : Etag} (h : respEtag s x = some fin) :
    (fin, s.data) ∈ servedNow s := by
  unfold respEtag at h
  unfold servedNow
  split at h
  · cases h
  · rw [h]; simp

theorem advertisedOf_append_tmp (files : List File) (bs : Text) :
    advertisedOf (files ++ [⟨none, bs⟩]) = advertisedOf files := by
  simp [advertisedOf, List.filter_append, File.advertised]

/-! ### `fetchAndCache` -/

/-- the connection that answers the GET of `retrieve`, when `fetchAndCache` gets that far, has no invisible
clean early end — stated of every connection of the script (each relative to a request without Range,
the only kind `retrieveAndSaveFile` sends) -/
def GetEvident (s : Srv) (script : List XConn) : Prop :=
  ∀ x ∈ script, x.conn.invisibleEnd s.data s.kind none = false

theorem headReq_rest (s : Srv) (script : List XConn) : ∀ x ∈ (headReq s script).2, x ∈ script := by
  unfold headReq
  split
  · simp
  · split <;> (intro x hx; simp [hx])

theorem cacheHead_rest (hasMemo : Bool) (s : Srv) (c : Cache) (script : List XConn) :
    ∀ x ∈ (cacheHead hasMemo s c script).2.2.1, x ∈ script := by
  unfold cacheHead
  split
  · intro x hx; exact hx
  · have := headReq_rest s script
    split
    · next h => rw [h] at this; exact this
    · next h => rw [h] at this; exact this

theorem retrieve_sound {cl : Callers} (hgs : cl.getStatus = httpOK) {served : List (Etag × Text)} {s : Srv}
    {c : Cache} {script : List XConn} (sz : Nat → Nat)
    (hs : Sound served c.files) (hnow : ∀ x ∈ servedNow s, x ∈ served) (hev : GetEvident s script) :
    Sound served (retrieve cl s c script sz).2.1.files := by
  have hcase := retrieve_case cl s c script sz
  generalize retrieve cl s c script sz = rv at hcase ⊢
  obtain ⟨ro, c2, rest2, evs2⟩ := rv
  simp only at hcase ⊢
  cases hcase with
  | same o h => exact hs
  | tmp bs => exact hs.append (fun e he => nomatch he)
  | stored x rest fin body bs hscript hetag hget hcopy hnew =>
    apply hs.append
    intro e he
    cases he
    have hx : x ∈ script := by rw [hscript]; simp
    rw [(stored_content hgs hget hcopy).2 (hev x hx)]
    exact hnow _ (respEtag_served hetag)

theorem facEtag_spec (hasMemo : Bool) (s : Srv) (c : Cache) (initial : Option Etag) (script : List XConn) :
    (facEtag hasMemo s c initial script).2.1.files = c.files ∧
    ∀ x ∈ (facEtag hasMemo s c initial script).2.2.1, x ∈ script := by
  unfold facEtag
  cases initial with
  | some e => exact ⟨rfl, fun x hx => hx⟩
  | none =>
    have h1 := cacheHead_files hasMemo s c script
    have h2 := cacheHead_rest hasMemo s c script
    generalize cacheHead hasMemo s c script = ch at h1 h2
    obtain ⟨o, c1, rest, evs⟩ := ch
    cases o <;> exact ⟨h1, h2⟩

theorem facGet_sound {cl : Callers} (hgs : cl.getStatus = httpOK) {served : List (Etag × Text)} {s : Srv}
    {c : Cache} (e : Etag) {script : List XConn} (sz : Nat → Nat)
    (hs : Sound served c.files) (hnow : ∀ x ∈ servedNow s, x ∈ served) (hev : GetEvident s script) :
    Sound served (facGet cl s c e script sz).2.1.files ∧
    ∀ bs, (facGet cl s c e script sz).1 = .served bs → ∃ e, (e, bs) ∈ served := by
  unfold facGet
  split
  · next f hf =>
    refine ⟨hs, fun bs hb => ?_⟩
    cases hb
    obtain ⟨m1, m2⟩ := entry_spec hf
    exact ⟨e, hs f m1 e m2⟩
  · have hs2 := retrieve_sound hgs sz hs hnow hev
    generalize retrieve cl s c script sz = rv at hs2
    obtain ⟨ro, c2, rest2, evs2⟩ := rv
    simp only at hs2
    cases ro with
    | none =>
      refine ⟨hs2, ?_⟩
      intro bs hb; cases hb
    | some fin =>
      simp only
      split
      · next f hf =>
        refine ⟨hs2, fun bs hb => ?_⟩
        cases hb
        obtain ⟨m1, m2⟩ := entry_spec hf
        exact ⟨fin, hs2 f m1 fin m2⟩
      · refine ⟨hs2, ?_⟩
        intro bs hb; cases hb

theorem fetchAndCache_sound {cl : Callers} (hgs : cl.getStatus = httpOK) {served : List (Etag × Text)}
    (hasMemo : Bool) {s : Srv} {c : Cache} (initial : Option Etag) {script : List XConn} (sz : Nat → Nat)
    (hs : Sound served c.files) (hnow : ∀ x ∈ servedNow s, x ∈ served) (hev : GetEvident s script) :
    Sound served (fetchAndCache cl hasMemo s c initial script sz).2.1.files ∧
    ∀ bs, (fetchAndCache cl hasMemo s c initial script sz).1 = .served bs → ∃ e, (e, bs) ∈ served := by
  unfold fetchAndCache
  obtain ⟨hfiles, hrest⟩ := facEtag_spec hasMemo s c initial script
  generalize facEtag hasMemo s c initial script = ph at hfiles hrest
  obtain ⟨o, c1, rest, evs⟩ := ph
  simp only at hfiles hrest
  have hs1 : Sound served c1.files := by rw [hfiles]; exact hs
  match o with
  | none =>
    refine ⟨hs1, ?_⟩
    intro bs hb; cases hb
  | some none =>
    refine ⟨hs1, ?_⟩
    intro bs hb; cases hb
  | some (some e) =>
    have hev1 : GetEvident s rest := fun x hx => hev x (hrest x hx)
    exact facGet_sound hgs e sz hs1 hnow hev1

/-- an error of `facGet` advertises nothing -/
theorem facGet_no_advertise (cl : Callers) (s : Srv) (c : Cache) (e : Etag) (script : List XConn)
    (sz : Nat → Nat) (h : ∀ bs, (facGet cl s c e script sz).1 ≠ .served bs) :
    advertisedOf (facGet cl s c e script sz).2.1.files = advertisedOf c.files := by
  unfold facGet at h ⊢
  split at h
  · next f hf => exact absurd rfl (h f.content)
  · next hnone =>
    have hcase := retrieve_case cl s c script sz
    generalize retrieve cl s c script sz = rv at h hcase ⊢
    obtain ⟨ro, c2, rest2, evs2⟩ := rv
    simp only at h hcase ⊢
    cases hcase with
    | same o hsame =>
      cases ro with
      | none => rfl
      | some fin =>
        simp only
        split <;> rfl
    | tmp bs => exact advertisedOf_append_tmp _ _
    | stored x rest' fin body bs hscript hetag hget hcopy hnew =>
      simp only at h
      rw [entry_append_new hnew] at h
      exact absurd rfl (h bs)

/-- an error of `fetchAndCache` (or a response handed through) advertises nothing -/
theorem fetchAndCache_no_advertise (cl : Callers) (hasMemo : Bool) (s : Srv) (c : Cache)
    (initial : Option Etag) (script : List XConn) (sz : Nat → Nat)
    (h : ∀ bs, (fetchAndCache cl hasMemo s c initial script sz).1 ≠ .served bs) :
    advertisedOf (fetchAndCache cl hasMemo s c initial script sz).2.1.files = advertisedOf c.files := by
  unfold fetchAndCache at h ⊢
  obtain ⟨hfiles, _⟩ := facEtag_spec hasMemo s c initial script
  generalize facEtag hasMemo s c initial script = ph at hfiles h ⊢
  obtain ⟨o, c1, rest, evs⟩ := ph
  simp only at hfiles
  match o with
  | none => simp only; rw [hfiles]
  | some none => simp only; rw [hfiles]
  | some (some e) =>
    simp only at h ⊢
    rw [facGet_no_advertise cl s c1 e rest sz h, hfiles]

/-! ### `fetchOffline` -/

theorem fetchOffline_served {served : List (Etag × Text)} {c : Cache} (hs : Sound served c.files) {bs : Text}
    (h : fetchOffline c = .ok bs) : ∃ e, (e, bs) ∈ served := by
  unfold fetchOffline at h
  split at h
  · next f hf =>
    cases h
    have hm := List.mem_of_getLast? hf
    simp only [List.mem_filter, File.advertised] at hm
    cases hn : f.name with
    | none => simp [hn] at hm
    | some e => exact ⟨e, hs f hm.1 e hn⟩
  · cases h

/-! ### requests of the cache path -/

def headCount : List Ev → Nat
  | [] => 0
  | .head :: es => headCount es + 1
  | _ :: es => headCount es

def getCount : List Ev → Nat
  | [] => 0
  | .get _ :: es => getCount es + 1
  | _ :: es => getCount es

theorem headCount_append (l₁ l₂ : List Ev) : headCount (l₁ ++ l₂) = headCount l₁ + headCount l₂ := by
  induction l₁ with
  | nil => simp [headCount]
  | cons e es ih => cases e <;> simp [headCount, ih] <;> omega

theorem getCount_append (l₁ l₂ : List Ev) : getCount (l₁ ++ l₂) = getCount l₁ + getCount l₂ := by
  induction l₁ with
  | nil => simp [getCount]
  | cons e es ih => cases e <;> simp [getCount, ih] <;> omega

theorem counts_map_body (l : List Res) :
    headCount (l.map Ev.body) = 0 ∧ getCount (l.map Ev.body) = 0 := by
  induction l with
  | nil => exact ⟨rfl, rfl⟩
  | cons a t ih => simpa [headCount, getCount] using ih

theorem cacheHead_evs (hasMemo : Bool) (s : Srv) (c : Cache) (script : List XConn) :
    headCount (cacheHead hasMemo s c script).2.2.2 ≤ 1 ∧ getCount (cacheHead hasMemo s c script).2.2.2 = 0 := by
  unfold cacheHead
  split
  · exact ⟨Nat.zero_le _, rfl⟩
  · split <;> exact ⟨Nat.le_refl _, rfl⟩

theorem retrieve_evs (cl : Callers) (s : Srv) (c : Cache) (script : List XConn) (sz : Nat → Nat) :
    headCount (retrieve cl s c script sz).2.2.2 = 0 ∧ getCount (retrieve cl s c script sz).2.2.2 = 1 := by
  have hb := counts_map_body
  unfold retrieve
  split
  · exact ⟨rfl, rfl⟩
  · split
    · exact ⟨rfl, rfl⟩
    · split
      · exact ⟨rfl, rfl⟩
      · split
        · exact ⟨rfl, rfl⟩
        · simp only
          split
          · split <;> simp [headCount, getCount, hb]
          · simp [headCount, getCount, hb]

theorem facEtag_evs (hasMemo : Bool) (s : Srv) (c : Cache) (initial : Option Etag) (script : List XConn) :
    headCount (facEtag hasMemo s c initial script).2.2.2 ≤ 1 ∧
    getCount (facEtag hasMemo s c initial script).2.2.2 = 0 := by
  unfold facEtag
  cases initial with
  | some e => exact ⟨Nat.zero_le _, rfl⟩
  | none =>
    have h := cacheHead_evs hasMemo s c script
    generalize cacheHead hasMemo s c script = ch at h
    obtain ⟨o, c1, rest, evs⟩ := ch
    cases o <;> exact h

theorem facGet_evs (cl : Callers) (s : Srv) (c : Cache) (e : Etag) (script : List XConn) (sz : Nat → Nat) :
    headCount (facGet cl s c e script sz).2.2.2 = 0 ∧ getCount (facGet cl s c e script sz).2.2.2 ≤ 1 := by
  unfold facGet
  split
  · exact ⟨rfl, Nat.zero_le _⟩
  · have h := retrieve_evs cl s c script sz
    generalize retrieve cl s c script sz = rv at h
    obtain ⟨ro, c2, rest2, evs2⟩ := rv
    simp only at h
    cases ro with
    | none => exact ⟨h.1, Nat.le_of_eq h.2⟩
    | some fin =>
      simp only
      split <;> exact ⟨h.1, Nat.le_of_eq h.2⟩

theorem fetchAndCache_evs (cl : Callers) (hasMemo : Bool) (s : Srv) (c : Cache) (initial : Option Etag)
    (script : List XConn) (sz : Nat → Nat) :
    headCount (fetchAndCache cl hasMemo s c initial script sz).2.2.2 ≤ 1 ∧
    getCount (fetchAndCache cl hasMemo s c initial script sz).2.2.2 ≤ 1 := by
  unfold fetchAndCache
  have h := facEtag_evs hasMemo s c initial script
  generalize facEtag hasMemo s c initial script = ph at h
  obtain ⟨o, c1, rest, evs⟩ := ph
  simp only at h
  match o with
  | none => exact ⟨h.1, by rw [h.2]; exact Nat.zero_le _⟩
  | some none => exact ⟨h.1, by rw [h.2]; exact Nat.zero_le _⟩
  | some (some e) =>
    have hg := facGet_evs cl s c1 e rest sz
    simp only [headCount_append, getCount_append]
    omega

end Apko.Fetch
