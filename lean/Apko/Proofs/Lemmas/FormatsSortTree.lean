/-
C16 / C07 helper lemmas: header lists that form a tree (clean relative names, pairwise distinct,
every non-top-level record has a *directory* record for its parent) — lookups, children, ancestor
chains.  Used to characterise exactly which records `sortTarHeaders` emits.
-/
import Apko.Proofs.Lemmas.FormatsSortTerm

namespace Apko.Formats
open Apko

/-- a header list that is a tree -/
structure TreeP (hs : List FileRec) : Prop where
  clean : ∀ h ∈ hs, cleanRel h.name = true
  distinct : ∀ a ∈ hs, ∀ b ∈ hs, a.name = b.name → a = b
  parent : ∀ h ∈ hs, pathDir h.name ≠ ['.'] → ∃ d ∈ hs, d.isDir = true ∧ d.name = pathDir h.name

/-- decidable form of `TreeP` -/
def treeOK (hs : List FileRec) : Bool :=
  hs.all (fun h => cleanRel h.name) &&
  hs.all (fun a => hs.all fun b => a.name != b.name || a == b) &&
  hs.all (fun h => pathDir h.name == ['.'] || hs.any fun d => d.isDir && d.name == pathDir h.name)

theorem treeOK_spec (hs : List FileRec) (h : treeOK hs = true) : TreeP hs := by
  unfold treeOK at h
  simp only [Bool.and_eq_true, List.all_eq_true, Bool.or_eq_true, bne_iff_ne, beq_iff_eq, List.any_eq_true,
    ne_eq] at h
  obtain ⟨⟨h1, h2⟩, h3⟩ := h
  refine ⟨h1, ?_, ?_⟩
  · intro a ha b hb e
    rcases h2 a ha b hb with h | h
    · exact absurd e h
    · exact h
  · intro x hx hne
    rcases h3 x hx with h | ⟨d, hd, h⟩
    · exact absurd h hne
    · exact ⟨d, hd, h.1, h.2⟩

theorem mem_dedupTexts (a : Text) : ∀ (l : List Text), a ∈ dedupTexts l ↔ a ∈ l := by
  intro l
  induction l with
  | nil => simp [dedupTexts]
  | cons b l ih =>
    simp only [dedupTexts, List.mem_cons, List.mem_filter, ih, bne_iff_ne, ne_eq]
    constructor
    · rintro (h | ⟨h, _⟩)
      · exact Or.inl h
      · exact Or.inr h
    · intro h
      by_cases e : a = b
      · exact Or.inl e
      · rcases h with h | h
        · exact absurd h e
        · exact Or.inr ⟨h, e⟩

theorem lookupHeader_iff (hs : List FileRec) (ht : TreeP hs) (n : Text) (h : FileRec) :
    lookupHeader hs n = some h ↔ h ∈ hs ∧ h.name = n := by
  constructor
  · intro e
    obtain ⟨h1, h2⟩ := lookupHeader_some hs n h e
    rw [pathClean_cleanRel h.name (ht.clean h h1)] at h2
    exact ⟨h1, h2⟩
  · rintro ⟨h1, h2⟩
    cases e : lookupHeader hs n with
    | none =>
      unfold lookupHeader at e
      rw [List.find?_eq_none] at e
      have := e h (by simpa using h1)
      rw [pathClean_cleanRel h.name (ht.clean h h1)] at this
      exact absurd (by simpa using h2) this
    | some x =>
      obtain ⟨x1, x2⟩ := lookupHeader_some hs n x e
      rw [pathClean_cleanRel x.name (ht.clean x x1)] at x2
      rw [ht.distinct x x1 h h1 (by rw [x2, h2])]

theorem mem_childrenOf_iff (hs : List FileRec) (ht : TreeP hs) (n c : Text) :
    c ∈ childrenOf hs n ↔ (∃ h ∈ hs, h.name = c) ∧ pathDir c = n := by
  unfold childrenOf
  simp only [List.mem_filter, List.mem_map, decide_eq_true_eq]
  constructor
  · rintro ⟨⟨h, hh, e⟩, hd⟩
    rw [pathClean_cleanRel h.name (ht.clean h hh)] at e
    exact ⟨⟨h, hh, e⟩, hd⟩
  · rintro ⟨⟨h, hh, e⟩, hd⟩
    exact ⟨⟨h, hh, by rw [pathClean_cleanRel h.name (ht.clean h hh)]; exact e⟩, hd⟩

/-! ## paths: one step up -/

theorem below_has_slash (n x : Text) (h : belowB n x = true) : '/' ∈ x := by
  obtain ⟨r, rfl⟩ := (belowB_iff n x).mp h
  simp

theorem normalComp_no_slash (b : Text) (h : normalComp b = true) : '/' ∉ b :=
  ((normalComp_spec b).1 h).2.1

/-- a clean path below `n` is a child of `n` or its parent is still below `n`; the parent is clean -/
theorem below_step (n x : Text) (hx : cleanRel x = true) (hb : belowB n x = true) :
    cleanRel (pathDir x) = true ∧ (pathDir x).length < x.length ∧ belowB (pathDir x) x = true ∧
    (pathDir x = n ∨ belowB n (pathDir x) = true) := by
  rcases cleanRel_cases x hx with ⟨hn, _, _⟩ | ⟨d, b, hd, hbn, hf, hdir, _⟩
  · exact absurd (below_has_slash n x hb) (normalComp_no_slash x hn)
  · rw [hdir]
    refine ⟨hd, by rw [hf]; simp, (belowB_iff d x).mpr ⟨b, hf⟩, ?_⟩
    obtain ⟨r, hr⟩ := (belowB_iff n x).mp hb
    have hsl := normalComp_no_slash b hbn
    have e : n ++ '/' :: r = d ++ '/' :: b := by rw [← hr, hf]
    rcases List.append_eq_append_iff.mp e with ⟨a', h1, h2⟩ | ⟨c', h1, h2⟩
    · cases a' with
      | nil => left; simpa using h1
      | cons y a'' =>
        simp only [List.cons_append, List.cons.injEq] at h2
        right; rw [belowB_iff]; exact ⟨a'', by rw [h1, h2.1]⟩
    · cases c' with
      | nil => left; simpa using h1.symm
      | cons y c'' =>
        simp only [List.cons_append, List.cons.injEq] at h2
        exact absurd (by rw [h2.2]; simp) hsl

theorem dir_dot_of_no_slash (x : Text) (hx : cleanRel x = true) : pathDir x = ['.'] ↔ '/' ∉ x := by
  rcases cleanRel_cases x hx with ⟨hn, hd, _⟩ | ⟨d, b, hd, _, hf, hdir, _⟩
  · exact ⟨fun _ => normalComp_no_slash x hn, fun _ => hd⟩
  · constructor
    · intro e; rw [hdir] at e; exact absurd e (cleanRel_ne_dot d hd)
    · intro h; exact absurd (by rw [hf]; simp) h

/-! ## ancestor chains in a tree -/

/-- a record below `n` is a child of `n`, or lies below a child of `n` that is a directory record -/
theorem chain_to_child (hs : List FileRec) (ht : TreeP hs) (n : Text) :
    ∀ (k : Nat) (h : FileRec), h.name.length ≤ k → h ∈ hs → belowB n h.name = true →
      ∃ r ∈ hs, pathDir r.name = n ∧ (h = r ∨ (r.isDir = true ∧ belowB r.name h.name = true)) := by
  intro k
  induction k with
  | zero =>
    intro h hk _ hb
    have := below_has_slash n h.name hb
    have : h.name = [] := List.eq_nil_of_length_eq_zero (by omega)
    simp_all
  | succ k ih =>
    intro h hk hm hb
    obtain ⟨hc, hlen, hbd, hor⟩ := below_step n h.name (ht.clean h hm) hb
    rcases hor with e | hb'
    · exact ⟨h, hm, e, Or.inl rfl⟩
    · have hne : pathDir h.name ≠ ['.'] := by
        intro e; rw [e] at hb'
        have := below_has_slash n _ hb'
        simp at this
      obtain ⟨p, hp, hpd, hpn⟩ := ht.parent h hm hne
      obtain ⟨r, hr, hrn, hor⟩ := ih p (by rw [hpn]; omega) hp (by rw [hpn]; exact hb')
      refine ⟨r, hr, hrn, Or.inr ?_⟩
      rcases hor with e | ⟨hrd, hrb⟩
      · subst e; exact ⟨hpd, by rw [hpn]; exact hbd⟩
      · exact ⟨hrd, belowB_trans r.name p.name h.name hrb (by rw [hpn]; exact hbd)⟩

/-- a record that is not top-level lies below a top-level directory record -/
theorem chain_to_top (hs : List FileRec) (ht : TreeP hs) :
    ∀ (k : Nat) (h : FileRec), h.name.length ≤ k → h ∈ hs → pathDir h.name ≠ ['.'] →
      ∃ r ∈ hs, pathDir r.name = ['.'] ∧ r.isDir = true ∧ belowB r.name h.name = true := by
  intro k
  induction k with
  | zero =>
    intro h hk hm _
    have : h.name = [] := List.eq_nil_of_length_eq_zero (by omega)
    have := ht.clean h hm
    simp_all [cleanRel, splitOnChar, normalComp]
  | succ k ih =>
    intro h hk hm hne
    obtain ⟨p, hp, hpd, hpn⟩ := ht.parent h hm hne
    have hcb : belowB p.name h.name = true := child_below h.name p.name (ht.clean h hm) hpn.symm (by rw [hpn]; exact hne)
    have hlen : p.name.length < h.name.length := by
      obtain ⟨r, hr⟩ := (belowB_iff _ _).mp hcb
      rw [hr]; simp
    by_cases e : pathDir p.name = ['.']
    · exact ⟨p, hp, e, hpd, hcb⟩
    · obtain ⟨r, hr, h1, h2, h3⟩ := ih p (by omega) hp e
      exact ⟨r, hr, h1, h2, belowB_trans _ _ _ h3 hcb⟩

end Apko.Formats
