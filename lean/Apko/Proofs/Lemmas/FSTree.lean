import Apko.Proofs.Lemmas.FSInvStep
/-! The tree shape of the node graph (`Tree` in `Model/FS.lean`): every edge is labelled by a valid
path element (**no_dot_edges**), edges to directories lead from older to younger nodes and every
directory has at most one parent edge (**dirs_form_a_tree**).  Preserved by every operation. -/
namespace Apko.FS
open Apko Apko.Path

/-! ### names the code can produce -/

theorem splitOnChar_parts_no_sep (sep : Char) : ∀ (t : Text), ∀ x ∈ splitOnChar sep t, sep ∉ x := by
  intro t
  induction t with
  | nil => intro x hx; simp [splitOnChar] at hx; subst hx; simp
  | cons c cs ih =>
    intro x hx
    simp only [splitOnChar] at hx
    split at hx
    · rcases List.mem_cons.mp hx with rfl | hx
      · simp
      · exact ih x hx
    · rename_i hc
      split at hx
      · rename_i heq
        simp only [List.mem_singleton] at hx
        subst hx
        simpa using fun h => hc h.symm
      · rename_i h t heq
        rcases List.mem_cons.mp hx with rfl | hx
        · have := ih h (by rw [heq]; exact List.mem_cons_self)
          simp only [List.mem_cons, not_or]
          exact ⟨fun h' => hc h'.symm, this⟩
        · exact ih x (by rw [heq]; exact List.mem_cons_of_mem _ hx)

theorem mem_takeWhile_sat {α : Type} (p : α → Bool) (l : List α) (a : α) (h : a ∈ l.takeWhile p) : p a = true := by
  induction l with
  | nil => simp at h
  | cons x xs ih =>
    simp only [List.takeWhile] at h
    split at h
    · rcases List.mem_cons.mp h with rfl | h
      · assumption
      · exact ih h
    · simp at h

theorem parts_ok (p : Text) : ∀ x ∈ parts p, x ≠ [] ∧ '/' ∉ x := by
  intro x hx
  simp only [parts, List.mem_filter, decide_eq_true_eq] at hx
  exact ⟨hx.2, splitOnChar_parts_no_sep '/' p x hx.1⟩

theorem dotName_false {b : Name} (h : dotName b = false) : b ≠ dot ∧ b ≠ dotdot ∧ b ≠ slash := by
  simp only [dotName, Bool.or_eq_false_iff, decide_eq_false_iff_not] at h
  exact ⟨h.1.1, h.1.2, h.2⟩

/-- `filepath.Base` yields a valid path element unless it yields `.`, `..` or `/` -/
theorem base_nameOK (p : Text) (h : dotName (base p) = false) : NameOK (base p) := by
  obtain ⟨h1, h2, h3⟩ := dotName_false h
  by_cases hp : p = []
  · simp [base, hp] at h1
  · generalize hb : ((stripTrailingSlashes p).reverse.takeWhile (· ≠ '/')).reverse = b
    have hbase : base p = if b = [] then slash else b := by
      simp only [base, hp, if_false]; rw [hb]
    rw [hbase] at h1 h2 h3 ⊢
    by_cases hbn : b = []
    · simp [hbn] at h3
    · simp only [hbn, if_false] at h1 h2 ⊢
      refine ⟨hbn, ?_, h1, h2⟩
      intro hm
      rw [← hb] at hm
      have := mem_takeWhile_sat _ _ _ (List.mem_reverse.mp hm)
      simp at this

/-- the components `MkdirAll` loops over -/
theorem mkdirAll_parts_ok (p : Text) (h : hasDotDot ((parts p).filter (· ≠ dot)) = false) :
    ∀ x ∈ (parts p).filter (· ≠ dot), NameOK x := by
  intro x hx
  have hx' := List.mem_filter.mp hx
  obtain ⟨h1, h2⟩ := parts_ok p x hx'.1
  refine ⟨h1, h2, by simpa using hx'.2, ?_⟩
  intro hdd
  have : hasDotDot ((parts p).filter (· ≠ dot)) = true := by
    simp only [hasDotDot, List.any_eq_true, decide_eq_true_eq]
    exact ⟨x, hx, hdd⟩
  rw [h] at this; cases this

/-! ### primitive updates -/

theorem Tree.empty : Tree FS.empty := by
  have h : ∀ i, (FS.empty.node i).children = [] := by
    intro i
    rcases i with _ | i
    · rfl
    · rw [node_empty_succ, default_children]
  refine ⟨?_, ?_, ?_⟩ <;> intro i <;> simp [h]

/-- `Tree` only looks at the directory flags and the entries -/
theorem Tree.of_sub {fs fs' : FS} (hd : ∀ i, (fs'.node i).dir = (fs.node i).dir)
    (hc : ∀ i e, e ∈ (fs'.node i).children → e ∈ (fs.node i).children) (ht : Tree fs) : Tree fs' := by
  refine ⟨?_, ?_, ?_⟩
  · intro i n j h; exact ht.names i n j (hc i _ h)
  · intro i n j h hj; rw [hd] at hj; exact ht.up i n j (hc i _ h) hj
  · intro i1 i2 n1 n2 j h1 h2 hj; rw [hd] at hj; exact ht.once i1 i2 n1 n2 j (hc _ _ h1) (hc _ _ h2) hj

theorem Tree.of_nodes_eq {fs fs' : FS} (h : fs'.nodes = fs.nodes) (ht : Tree fs) : Tree fs' := by
  have hn : ∀ i, fs'.node i = fs.node i := by intro i; simp [FS.node, h]
  exact Tree.of_sub (fun i => by rw [hn]) (fun i e he => by rw [hn] at he; exact he) ht

theorem Tree.setNode_meta {fs : FS} (ht : Tree fs) (i : Nat) (n : Inode)
    (hd : n.dir = (fs.node i).dir) (hc : n.children = (fs.node i).children) : Tree (fs.setNode i n) := by
  have hn : ∀ j, ((fs.setNode i n).node j).dir = (fs.node j).dir ∧
      ((fs.setNode i n).node j).children = (fs.node j).children := by
    intro j
    rw [node_setNode]
    split
    · rename_i h; rw [h.1]; exact ⟨hd, hc⟩
    · exact ⟨rfl, rfl⟩
  exact Tree.of_sub (fun j => (hn j).1) (fun j e he => by rw [(hn j).2] at he; exact he) ht

theorem Tree.modify_meta {fs : FS} (ht : Tree fs) (i : Nat) (f : Inode → Inode)
    (hd : ∀ n, (f n).dir = n.dir) (hc : ∀ n, (f n).children = n.children) : Tree (fs.modify i f) :=
  ht.setNode_meta i _ (hd _) (hc _)

theorem Tree.unlink {fs : FS} (ht : Tree fs) (d : Nat) (n : Name) : Tree (fs.unlink d n) := by
  refine Tree.of_sub ?_ ?_ ht
  · intro j
    simp only [FS.unlink, node_modify]
    split
    · rename_i h; rw [h.1]
    · rfl
  · intro j e he
    simp only [FS.unlink, node_modify] at he
    split at he
    · rename_i h; rw [h.1]; exact (List.mem_filter.mp he).1
    · exact he

/-- entering node `t` into directory `d` under a valid name: fine for a non-directory, and for a
directory that is younger than `d` and has no parent yet -/
theorem Tree.link {fs : FS} (ht : Tree fs) (d : Nat) (n : Name) (t : Nat)
    (hdl : d < fs.nodes.length) (hn : NameOK n)
    (hnew : (fs.node t).dir = true → d < t ∧ ∀ i n', (n', t) ∉ (fs.node i).children) :
    Tree (fs.link d n t) := by
  have hnode : ∀ j, (fs.link d n t).node j =
      if j = d then { fs.node d with children := setChild (fs.node d).children n t } else fs.node j := by
    intro j; simp only [FS.link, node_modify]; by_cases h : j = d <;> simp [h, hdl]
  have hdir : ∀ j, ((fs.link d n t).node j).dir = (fs.node j).dir := by
    intro j; rw [hnode]; split
    · rename_i h; rw [h]
    · rfl
  have hedge : ∀ i e, e ∈ ((fs.link d n t).node i).children →
      e ∈ (fs.node i).children ∨ (i = d ∧ e = (n, t)) := by
    intro i e he
    rw [hnode] at he
    split at he
    · rename_i h
      rcases mem_setChild he with h' | h'
      · left; rw [h]; exact h'
      · right; exact ⟨h, h'⟩
    · left; exact he
  refine ⟨?_, ?_, ?_⟩
  · intro i nm j h
    rcases hedge i _ h with h | ⟨_, h⟩
    · exact ht.names i nm j h
    · cases h; exact hn
  · intro i nm j h hj
    rw [hdir] at hj
    rcases hedge i _ h with h | ⟨hi, h⟩
    · exact ht.up i nm j h hj
    · cases h; rw [hi]; exact (hnew hj).1
  · intro i1 i2 n1 n2 j h1 h2 hj
    rw [hdir] at hj
    rcases hedge i1 _ h1 with h1 | ⟨hi1, h1⟩ <;> rcases hedge i2 _ h2 with h2 | ⟨hi2, h2⟩
    · exact ht.once i1 i2 n1 n2 j h1 h2 hj
    · cases h2; exact absurd h1 ((hnew hj).2 i1 n1)
    · cases h1; exact absurd h2 ((hnew hj).2 i2 n2)
    · cases h1; cases h2; exact ⟨hi1.trans hi2.symm, rfl⟩

theorem Tree.alloc {fs : FS} (hi : Inv fs) (ht : Tree fs) (nd : Inode) (hc : nd.children = []) :
    Tree (fs.alloc nd).1 := by
  have hedge : ∀ i e, e ∈ ((fs.alloc nd).1.node i).children → e ∈ (fs.node i).children := by
    intro i e he
    rw [node_alloc] at he
    split at he
    · simp [hc] at he
    · exact he
  have hdir : ∀ i nm j, (nm, j) ∈ (fs.node i).children → ((fs.alloc nd).1.node j).dir = (fs.node j).dir := by
    intro i nm j h
    have := hi.live i nm j h
    rw [node_alloc]; simp [show j ≠ fs.nodes.length from Nat.ne_of_lt this]
  refine ⟨?_, ?_, ?_⟩
  · intro i nm j h; exact ht.names i nm j (hedge i _ h)
  · intro i nm j h hj
    rw [hdir i nm j (hedge i _ h)] at hj
    exact ht.up i nm j (hedge i _ h) hj
  · intro i1 i2 n1 n2 j h1 h2 hj
    rw [hdir i1 n1 j (hedge i1 _ h1)] at hj
    exact ht.once i1 i2 n1 n2 j (hedge _ _ h1) (hedge _ _ h2) hj

theorem Tree.create {fs : FS} (hi : Inv fs) (ht : Tree fs) (d : Nat) (n : Name) (nd : Inode)
    (hdl : d < fs.nodes.length) (hn : NameOK n) (hc : nd.children = []) : Tree (fs.create d n nd).1 := by
  unfold FS.create
  simp only []
  apply Tree.link (Tree.alloc hi ht nd hc)
  · simp; omega
  · exact hn
  · intro _
    refine ⟨by simpa using hdl, ?_⟩
    intro i nm h
    rw [node_alloc] at h
    split at h
    · simp [hc] at h
    · have := hi.live i nm _ h
      simp at this

/-! ### every operation keeps the tree shape -/

theorem mkdirAllLoop_tree (c : Cfg) (mode : Nat) :
    ∀ (rest : List Name) (fs : FS) (at_ : Pos) (tr : List Name),
      Inv fs → Tree fs → (fs.node at_.ino).dir = true → (∀ x ∈ rest, NameOK x) →
      Tree (mkdirAllLoop c mode rest fs at_ tr).1 := by
  intro rest
  induction rest with
  | nil => intro fs at_ tr _ ht _ _; simpa [mkdirAllLoop] using ht
  | cons part rest ih =>
    intro fs at_ tr hi ht hd hn
    have hn' : ∀ x ∈ rest, NameOK x := fun x hx => hn x (List.mem_cons_of_mem _ hx)
    unfold mkdirAllLoop
    cases hl : fs.lookup at_.ino part with
    | some n =>
      simp only []
      repeat' split
      all_goals (try exact ht)
      all_goals (apply ih _ _ _ hi ht _ hn'; simp_all)
    | none =>
      have hi1 := hi.create at_.ino part (newDir mode) hd rfl
      have ht1 := Tree.create hi ht at_.ino part (newDir mode) (dir_lt _ _ hd) (hn part List.mem_cons_self) rfl
      simp only []
      repeat' split
      all_goals (try exact ht1)
      all_goals (apply ih _ _ _ hi1 ht1 _ hn'; simp_all)

theorem mkdirAll_tree (c : Cfg) (fs : FS) (p : Text) (perm : Nat) (hi : Inv fs) (ht : Tree fs) :
    Tree (mkdirAll c fs p perm).1 := by
  unfold mkdirAll
  simp only []
  split
  · exact ht
  · rename_i hdd
    have := mkdirAllLoop_tree c (modeDir ||| perm) ((parts p).filter (· ≠ dot)) fs { ino := 0 } [] hi ht hi.root
      (mkdirAll_parts_ok p (by simpa using hdd))
    split <;> simp_all

theorem openFileD_tree (c : Cfg) (flag perm : Nat) :
    ∀ (budget : Nat) (fs : FS) (start : List Ino) (name : Text),
      Inv fs → Tree fs → Tree (openFileD c flag perm budget fs start name).1 := by
  intro budget
  induction budget with
  | zero =>
    intro fs start name hi ht
    unfold openFileD
    simp only []
    repeat' split
    all_goals (try exact ht)
    all_goals (try exact Tree.create hi ht _ _ _ (dir_lt _ _ (by simp_all)) (base_nameOK _ (by simp_all)) rfl)
    all_goals (try exact Tree.setNode_meta (Tree.create hi ht _ _ _ (dir_lt _ _ (by simp_all)) (base_nameOK _ (by simp_all)) rfl) _ _ rfl rfl)
    all_goals (exact Tree.setNode_meta ht _ _ rfl rfl)
  | succ k ih =>
    intro fs start name hi ht
    unfold openFileD
    simp only []
    repeat' split
    all_goals (try exact ht)
    all_goals (try exact ih _ _ _ hi ht)
    all_goals (try exact ih _ _ _ (Inv.create hi _ _ _ (by simp_all) rfl) (Tree.create hi ht _ _ _ (dir_lt _ _ (by simp_all)) (base_nameOK _ (by simp_all)) rfl))
    all_goals (try exact Tree.create hi ht _ _ _ (dir_lt _ _ (by simp_all)) (base_nameOK _ (by simp_all)) rfl)
    all_goals (try exact Tree.setNode_meta (Tree.create hi ht _ _ _ (dir_lt _ _ (by simp_all)) (base_nameOK _ (by simp_all)) rfl) _ _ rfl rfl)
    all_goals (exact Tree.setNode_meta ht _ _ rfl rfl)

theorem openCore_tree (c : Cfg) (fs : FS) (name : Text) (flag perm : Nat) (hi : Inv fs) (ht : Tree fs) :
    Tree (openCore c fs name flag perm).1 := by
  unfold openCore
  have := openFileD_tree c flag perm maxLinks fs [0] name hi ht
  split
  · rename_i heq; simpa [heq] using this
  · rename_i fs1 o heq
    simp only [heq] at this
    simp only [newMemFile]
    split
    · exact Tree.setNode_meta this _ _ rfl rfl
    · exact this

theorem setXattr_tree (c : Cfg) (fs : FS) (p : Text) (a : Name) (d : Text) (ht : Tree fs) :
    Tree (setXattr c fs p a d).1 := by
  unfold setXattr
  split
  · exact ht
  · simp only []
    apply Tree.modify_meta ht <;> (intro n; rfl)

theorem setXattrs_tree (c : Cfg) (name : Text) :
    ∀ (l : List (Name × Text)) (fs : FS), Tree fs → Tree (setXattrs c name l fs).1 := by
  intro l
  induction l with
  | nil => intro fs ht; simpa [setXattrs] using ht
  | cons e rest ih =>
    intro fs ht
    obtain ⟨k, v⟩ := e
    unfold setXattrs
    have := setXattr_tree c fs name k v ht
    generalize setXattr c fs name k v = r at this
    obtain ⟨fs1, o⟩ := r
    cases o <;> simp only [] <;> first | exact ih _ this | exact this

theorem finishXattrs_tree (c : Cfg) (h : Hdr) (fs : FS) (v : Val) (ht : Tree fs) : Tree (finishXattrs c h fs v).1 := by
  unfold finishXattrs
  have := setXattrs_tree c h.name h.xattrs fs ht
  split <;> simp_all

theorem parentOf_ok {c : Cfg} {fs : FS} {p : Text} {pi : Ino} {b : Name} (h : parentOf c fs p = .ok (pi, b)) :
    getNode c fs (dir p) = .ok pi ∧ b = base p := by
  unfold parentOf at h
  split at h
  · cases h
  · rename_i heq; cases h; exact ⟨heq, rfl⟩

theorem parentOf_nameOK {c : Cfg} {fs : FS} {p : Text} {pi : Ino} {b : Name} (h : parentOf c fs p = .ok (pi, b))
    (hd : ¬ dotName b = true) : NameOK b := by
  obtain ⟨_, rfl⟩ := parentOf_ok h
  exact base_nameOK _ (by simpa using hd)

theorem linkOp_tree (c : Cfg) (fs : FS) (o n : Text) (hdr : Bool) (ht : Tree fs) : Tree (linkOp c fs o n hdr).1 := by
  unfold linkOp
  repeat' split
  all_goals (try exact ht)
  all_goals
    simp only []
    apply Tree.modify_meta (Tree.link ht _ _ _ (dir_lt _ _ (by simp_all)) (parentOf_nameOK (by assumption) (by assumption)) (by simp_all))
      <;> (intro n; rfl)

theorem writeHeaderFile_tree (c : Cfg) (fs : FS) (h : Hdr) (sum : Text) (hi : Inv fs) (ht : Tree fs) :
    Tree (writeHeaderFile c fs h sum).1 := by
  unfold writeHeaderFile
  simp only []
  repeat' split
  all_goals (try exact ht)
  all_goals (try exact Tree.create hi ht _ _ _ (dir_lt _ _ (by simp_all)) (parentOf_nameOK (by assumption) (by assumption)) rfl)
  -- replacing an entry that exists: its name is already an edge label
  all_goals exact Tree.create hi ht _ _ _ (dir_lt _ _ (by simp_all)) (ht.names _ _ _ (lookup_mem' (by assumption))) rfl

theorem whDir_tree (c : Cfg) (fs : FS) (h : Hdr) (hi : Inv fs) (ht : Tree fs) : Tree (whDir c fs h).1 := by
  unfold whDir
  have h1 := mkdirAll_tree c fs h.name (h.mode &&& 0o777) hi ht
  generalize mkdirAll c fs h.name (h.mode &&& 0o777) = r at h1
  obtain ⟨fs1, o⟩ := r
  cases o with
  | ok v =>
    simp only []
    split
    · exact h1
    · apply finishXattrs_tree
      apply Tree.modify_meta h1 <;> (intro n; rfl)
  | err e => exact h1
  | nohandle => exact h1

theorem whFile_tree (c : Cfg) (fs : FS) (h : Hdr) (hi : Inv fs) (ht : Tree fs) : Tree (whFile c fs h).1 := by
  unfold whFile
  split
  · exact ht
  · split
    · exact ht
    · rename_i sum _
      have h1 := writeHeaderFile_tree c fs h sum hi ht
      generalize writeHeaderFile c fs h sum = r at h1 ⊢
      obtain ⟨fs1, o⟩ := r
      cases o with
      | error e => exact h1
      | ok b => exact finishXattrs_tree c h fs1 _ h1

theorem writeHeaderOp_tree (c : Cfg) (fs : FS) (h : Hdr) (hi : Inv fs) (ht : Tree fs) : Tree (writeHeaderOp c fs h).1 := by
  unfold writeHeaderOp
  split
  · exact ht
  · split
    · exact whDir_tree c fs h hi ht
    · split
      · exact whFile_tree c fs h hi ht
      · split
        · have h1 := linkOp_tree c fs h.linkname h.name true ht
          generalize linkOp c fs h.linkname h.name true = r at h1
          obtain ⟨fs1, o⟩ := r
          cases o <;> exact h1
        · exact ht

theorem handles_irrelevant_tree {fs : FS} (hs : List Handle) (ht : Tree fs) : Tree { fs with handles := hs } :=
  Tree.of_nodes_eq (fs := fs) rfl ht

/-- **tree_step**: every operation (of every backend, Impl or Spec) keeps the graph a tree with
valid edge names -/
theorem tree_step (c : Cfg) (fs : FS) (op : Op) (hi : Inv fs) (ht : Tree fs) : Tree (step c fs op).1 := by
  cases op with
  | mkdirAll p perm => exact mkdirAll_tree c fs p perm hi ht
  | openFile p flag perm =>
    simp only [step]
    have := openCore_tree c fs p flag perm hi ht
    split <;> (rename_i heq; simp only [heq] at this; exact handles_irrelevant_tree _ this)
  | create p =>
    simp only [step]
    have := openCore_tree c fs p flagsWriteFile 0o666 hi ht
    split <;> (rename_i heq; simp only [heq] at this; exact handles_irrelevant_tree _ this)
  | readFile p =>
    simp only [step]
    have := openCore_tree c fs p 0 0o644 hi ht
    split <;> (rename_i heq; simp only [heq] at this; exact this)
  | writeFile p data perm =>
    simp only [step]
    have := openCore_tree c fs p flagsWriteFile perm hi ht
    split
    · rename_i heq; simp only [heq] at this; exact this
    · rename_i heq; simp only [heq] at this; exact Tree.setNode_meta this _ _ rfl rfl
  | setXattr p a d => exact setXattr_tree c fs p a d ht
  | link o n => exact linkOp_tree c fs o n false ht
  | writeHeader h => exact writeHeaderOp_tree c fs h hi ht
  | mkdir p perm =>
    simp only [step]
    repeat' split
    all_goals (try exact ht)
    rename_i heq _ hb _
    exact Tree.create hi ht _ _ _ (getNode_live hi c _ _ (parentOf_ok heq).1)
      (parentOf_nameOK heq (by simp only [dotName]; simp_all)) rfl
  | _ =>
    simp only [step]
    repeat' split
    all_goals (try exact ht)
    all_goals (try exact handles_irrelevant_tree _ ht)
    all_goals (try exact Tree.create hi ht _ _ _ (dir_lt _ _ (by simp_all)) (parentOf_nameOK (by assumption) (by assumption)) rfl)
    all_goals (try (simp only []; apply Tree.modify_meta ht <;> (intro n; rfl)))
    all_goals (try exact handles_irrelevant_tree _ (Tree.setNode_meta ht _ _ rfl rfl))
    all_goals (try exact Tree.unlink (Tree.modify_meta ht _ _ (by intro n; rfl) (by intro n; rfl)) _ _)

end Apko.FS
