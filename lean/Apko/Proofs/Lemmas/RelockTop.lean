/-
C09, success of the re-resolution, top level: `constrain` on the locked world, the first loop of
`GetPackagesWithDependencies` (every entry has exactly its member as candidate; all members end up in `existing`),
`GetPackageWithDependencies` per entry, and `resolve`.
-/
import Apko.Proofs.Lemmas.RelockSucc

namespace Apko.Lock
open Apko Apko.Resolver

/-- `e` is the lock entry of a member whose pin (if it has one) the entry carries -/
def EntryOf (S : List Pkg) (e : Text) : Prop :=
  (∀ x, e ≠ '!' :: x) ∧ ∃ p ∈ S, ∃ pin, parseConstraint e = ⟨p.name, p.version, .eq, pin⟩ ∧ (p.pin = [] ∨ p.pin = pin)

/-- a lock of `S` that keeps the pins: `LockList` of Proofs/C09.lean plus "not F09a" -/
structure PinnedLock (S : List Pkg) (L : List Text) : Prop where
  sound : ∀ e ∈ L, EntryOf S e
  complete : ∀ p ∈ S, ∃ e ∈ L, ∃ pin, parseConstraint e = ⟨p.name, p.version, .eq, pin⟩

def MemberMap (S : List Pkg) (m : List (Text × Pkg)) : Prop := ∀ n p, lookupT m n = some p → p ∈ S ∧ p.name = n

theorem versionMatches_self {p : Pkg} {v : Version} (h : pv p.version = some v) : versionMatches p.version p.version = true := by
  unfold versionMatches
  simp only [h]
  exact satisfies_eq_self v

/-- the member is a candidate for its own lock entry -/
theorem member_candidate {c : Cfg} {S : List Pkg} (ctx : Ctx c S) (sd : Side c S) {dq : List Nat} (hf : Free S dq)
    {p : Pkg} (hp : p ∈ S) {pin : Text} (hpin : p.pin = [] ∨ p.pin = pin) :
    p ∈ filterPackages (c.nm p.name) dq p.version .eq [] pin none := by
  obtain ⟨v, hv⟩ := Option.isSome_iff_exists.mp (sd.pvOk p hp)
  refine mem_filter_intro (mem_nm_of_member ctx hp) (hf p hp) ?_ (Or.inr ⟨v, v, hv, hv, satisfies_eq_self v⟩)
  rcases hpin with h | h
  · exact Or.inl h
  · exact Or.inr (Or.inr (Or.inl h))

theorem candidates_entry {c : Cfg} {S : List Pkg} (ctx : Ctx c S) (sd : Side c S) {dq : List Nat} (hf : Free S dq)
    {e : Text} (he : EntryOf S e) : ∃ l, candidates c e dq = some l := by
  obtain ⟨_, p, hp, pin, hparse, hpin⟩ := he
  unfold candidates
  simp only [hparse, hasName_of_member ctx hp, Bool.not_true, Bool.false_eq_true, ↓reduceIte]
  have := member_candidate ctx sd hf hp hpin
  split
  · next hem => rw [List.isEmpty_iff] at hem; rw [hem] at this; cases this
  · exact ⟨_, rfl⟩

/-- the top-level pick for a lock entry is the member it names -/
theorem resolvePackage_entry {c : Cfg} {S : List Pkg} (ctx : Ctx c S) (sd : Side c S) {dq : List Nat}
    (hl : Locked c S dq) (hf : Free S dq) {e : Text} (he : EntryOf S e) :
    ∃ p ∈ S, resolvePackage c e dq = some p ∧ p.name = (parseConstraint e).name := by
  obtain ⟨l, hcand⟩ := candidates_entry ctx sd hf he
  obtain ⟨_, p, hp, pin, hparse, _⟩ := he
  have hlne : l ≠ [] := by
    unfold candidates at hcand
    simp only at hcand
    split at hcand
    · cases hcand
    · split at hcand
      · cases hcand
      · next hne => simp only [Option.some.injEq] at hcand; rw [← hcand]; simpa using hne
  obtain ⟨b, hb⟩ := minFunc_ne_nil (cmp := comparePackages c.bothBad (parseConstraint e).name (parseConstraint e).pin [] []) hlne
  have hres : resolvePackage c e dq = some b := by
    unfold resolvePackage
    simp only [hcand]
    exact hb
  have hmem := resolvePackage_mem hres
  have hbS : b ∈ S := candidate_member ctx hl ⟨p, hp, by rw [hparse]⟩ hmem
  exact ⟨b, hbS, hres, (candidate_in ctx hmem).2.1⟩

/-! ### the first loop -/

theorem nextPackage_go_some (c : Cfg) (dq : List Nat) :
    ∀ (ps : List Text) (best : Option (Text × Nat)), (∀ p ∈ ps, ∃ l, candidates c p dq = some l) →
      ∃ r, nextPackage.go c dq ps best = some r := by
  intro ps
  induction ps with
  | nil => intro best _; exact ⟨best, rfl⟩
  | cons p ps ih =>
    intro best h
    obtain ⟨l, hl⟩ := h p List.mem_cons_self
    have hr := fun b => ih b (fun x hx => h x (List.mem_cons_of_mem _ hx))
    unfold nextPackage.go
    simp only [hl]
    split
    · exact hr _
    · split
      · exact hr _
      · split
        · exact hr _
        · exact hr _

theorem nextPackage_some (c : Cfg) (dq : List Nat) (ps : List Text)
    (h : ∀ p ∈ ps, ∃ l, candidates c p dq = some l) : ∃ n, nextPackage c ps dq = some n := by
  obtain ⟨r, hr⟩ := nextPackage_go_some c dq ps none h
  unfold nextPackage
  simp only [hr]
  cases r with
  | none => exact ⟨_, rfl⟩
  | some b => obtain ⟨b1, b2⟩ := b; exact ⟨_, rfl⟩

theorem lkp_isSome_setT {α} (m : List (Text × α)) (k k2 : Text) (v : α) (h : (lookupT m k2).isSome = true) :
    (lookupT (setT m k v) k2).isSome = true := by
  rw [lkp_setT]
  split
  · rfl
  · exact h

theorem worldLoop_succ {c : Cfg} {S : List Pkg} (ctx : Ctx c S) (sd : Side c S) :
    ∀ (fuel : Nat) (cs : List Text) (dm : List (Text × Pkg)) (dq : List Nat),
      (∀ e ∈ cs, EntryOf S e) → Locked c S dq → Free S dq → MemberMap S dm →
      ResOK (fun (r : List (Text × Pkg) × List Nat) => r.2 = dq ∧ MemberMap S r.1 ∧
        (∀ n, (lookupT dm n).isSome = true → (lookupT r.1 n).isSome = true) ∧
        ∀ e ∈ cs, (lookupT r.1 (parseConstraint e).name).isSome = true) (worldLoop c fuel cs dm dq) := by
  intro fuel
  induction fuel with
  | zero => intro cs dm dq _ _ _ _; simp [worldLoop, ResOK]
  | succ fuel ih =>
    intro cs dm dq hcs hl hf hmm
    rw [worldLoop]
    split
    · next hem =>
      refine ⟨rfl, hmm, fun n h => h, fun e he => ?_⟩
      rw [List.isEmpty_iff] at hem
      rw [hem] at he
      cases he
    · next hne =>
      obtain ⟨next, hnext⟩ := nextPackage_some c dq cs (fun e he => candidates_entry ctx sd hf (hcs e he))
      have hmem : next ∈ cs := C02.nextPackage_mem hnext (by intro he; apply hne; simp [he])
      obtain ⟨p, hp, hres, hpn⟩ := resolvePackage_entry ctx sd hl hf (hcs next hmem)
      simp only [hnext, hres]
      rw [disqualifyConflicts_noprov c p dq (ctx.noprov p (ctx.sIn p hp))]
      simp only
      have hmm2 : MemberMap S (setT dm p.name p) := by
        intro n q h
        rw [lkp_setT] at h
        split at h
        · next e => simp only [Option.some.injEq] at h; subst h; exact ⟨hp, e.symm⟩
        · exact hmm n q h
      have := ih (cs.filter (· != next)) (setT dm p.name p) dq
        (fun e he => hcs e (List.mem_filter.mp he).1) hl hf hmm2
      revert this
      cases worldLoop c fuel (cs.filter (· != next)) (setT dm p.name p) dq with
      | err => exact fun h => h
      | outOfFuel => exact fun h => h
      | ok r =>
        simp only [ResOK]
        rintro ⟨h1, h2, h3, h4⟩
        refine ⟨h1, h2, fun n hn => h3 n (lkp_isSome_setT _ _ _ _ hn), fun e he => ?_⟩
        by_cases hen : e = next
        · subst hen
          apply h3
          rw [lkp_setT, ← hpn]
          simp
        · exact h4 e (List.mem_filter.mpr ⟨he, by simpa using hen⟩)

/-! ### one world entry, all world entries -/

theorem getPWD_succ {c : Cfg} {S : List Pkg} (ctx : Ctx c S) (sd : Side c S) (fuel : Nat) (w : Text)
    (existing : List (Text × Pkg)) (st : St) (hw : EntryOf S w) (inv : SInv c S ⟨st, existing, []⟩) :
    ResOK (fun r => r.pkg ∈ S ∧ (∀ d ∈ r.deps, d ∈ S) ∧ SInv c S ⟨r.st, existing, []⟩)
      (getPackageWithDependencies c fuel w existing st) := by
  obtain ⟨p, hp, hres, _⟩ := resolvePackage_entry ctx sd inv.locked inv.free hw
  unfold getPackageWithDependencies
  simp only [hres]
  generalize hor : (existing.foldl (fun o e =>
    if !e.2.origin.isEmpty && !o.contains e.2.origin then o ++ [e.2.origin] else o) []) = origins
  have hg := getDeps_succ ctx sd fuel p (parseConstraint w).pin [] ⟨st, existing, origins⟩ hp
    (inv.congr rfl rfl rfl)
  split
  · next heq => rw [heq] at hg; exact hg
  · trivial
  · next out heq =>
    rw [heq] at hg
    refine ⟨hp, ?_, ?_⟩
    · intro d hd
      simp only at hd
      split at hd
      · rw [installIfFixedLoop_id ctx] at hd
        exact hg.deps d (dedupByName_mem _ _ hd)
      · rw [installIfMapLoop_id ctx] at hd
        exact hg.deps d (dedupByName_mem _ _ hd)
    · have hdq : ∀ (b1 b2 : Prop) [Decidable b1] [Decidable b2] (s : St),
          (if b1 then (if b2 then s.flag "F02a" else s).flag "F02b" else if b2 then s.flag "F02a" else s).dq = s.dq := by
        intro b1 b2 _ _ s; split <;> split <;> simp only [flag_dq]
      have hsl : ∀ (b1 b2 : Prop) [Decidable b1] [Decidable b2] (s : St),
          (if b1 then (if b2 then s.flag "F02a" else s).flag "F02b" else if b2 then s.flag "F02a" else s).selected = s.selected := by
        intro b1 b2 _ _ s; split <;> split <;> simp only [flag_selected1]
      refine ⟨?_, ?_, ?_, inv.ex⟩
      · simp only [hdq]; exact hg.inv.locked
      · simp only [hdq]; exact hg.inv.free
      · simp only [hsl]; exact hg.inv.sel

theorem depMap_fold_ex {S : List Pkg} (l : List Pkg) :
    ∀ (m : List (Text × Pkg)), (∀ p ∈ S, lookupT m p.name = some p) →
      ∀ p ∈ S, lookupT (l.foldl (fun m p => if (lookupT m p.name).isSome then m else m ++ [(p.name, p)]) m) p.name = some p := by
  induction l with
  | nil => intro m h; exact h
  | cons x xs ih =>
    intro m h
    simp only [List.foldl_cons]
    apply ih
    split
    · exact h
    · intro p hp
      rw [m_lookupT_append_single, h p hp]

theorem go_succ {c : Cfg} {S : List Pkg} (ctx : Ctx c S) (sd : Side c S) :
    ∀ (ws : List Text) (depMap : List (Text × Pkg)) (st : St) (inst : List Pkg) (confs : List Text),
      (∀ w ∈ ws, EntryOf S w) → SInv c S ⟨st, depMap, []⟩ →
      ResOK (fun _ => True) (resolve.go c ws depMap st inst confs) := by
  intro ws
  induction ws with
  | nil => intro depMap st inst confs _ _; simp [resolve.go, ResOK]
  | cons w ws ih =>
    intro depMap st inst confs hws inv
    simp only [resolve.go]
    have hg := getPWD_succ ctx sd (fuelFor c.u) w depMap st (hws w List.mem_cons_self) inv
    split
    · next heq => rw [heq] at hg; exact hg
    · trivial
    · next r heq =>
      rw [heq] at hg
      obtain ⟨_, _, hinv⟩ := hg
      apply ih _ _ _ _ (fun x hx => hws x (List.mem_cons_of_mem _ hx))
      refine ⟨?_, ?_, ?_, ?_⟩
      · have := hinv.locked; simp only [ite_flag_dq]; exact this
      · have := hinv.free; simp only [ite_flag_dq]; exact this
      · have := hinv.sel
        simp only at this ⊢
        split
        · rw [flag_selected1]; exact this
        · exact this
      · exact depMap_fold_ex _ _ hinv.ex

/-! ### the whole re-resolution -/

theorem entry_conOK {S : List Pkg} (names : ∀ p ∈ S, ∀ q ∈ S, p.name = q.name → p = q)
    (pvOk : ∀ p ∈ S, (pv p.version).isSome = true) {e : Text} (he : EntryOf S e) : ConOK S e := by
  obtain ⟨hnb, p, hp, pin, hparse, _⟩ := he
  obtain ⟨v, hv⟩ := Option.isSome_iff_exists.mp (pvOk p hp)
  right
  refine ⟨hnb, Or.inr ?_⟩
  simp only [hparse]
  refine ⟨v, hv, fun q hq hn => ?_⟩
  have : q = p := names q hq p hp hn
  subst this
  exact ⟨v, hv, satisfies_eq_self v⟩

/-- after `constrain` on a complete lock every non-member carrying a member's name is disqualified
(`constrain_locks` for every entry) -/
theorem locked_of_constrain {c : Cfg} {S : List Pkg} (ctx : Ctx c S) {L : List Text}
    (huniq : ∀ x ∈ c.u.all, ∀ p ∈ S, x.name = p.name → versionMatches x.version p.version = true → x = p)
    (hL : PinnedLock S L) {dq1 : List Nat} (hcon : constrain c L [] = some dq1) : Locked c S dq1 := by
  intro x hx ⟨p, hp, hpn⟩ hxs
  obtain ⟨e, he, pin, hparse⟩ := hL.complete p hp
  have hnm : x ∈ c.nm p.name := by
    unfold Cfg.nm
    rw [nameMap_noprov _ _ _ ctx.noprov]
    exact List.mem_filter.mpr ⟨hx, by simp [hpn]⟩
  have hv : versionMatches x.version p.version = false := by
    cases hvm : versionMatches x.version p.version with
    | false => rfl
    | true => exact absurd (huniq x hx p hp hpn.symm hvm ▸ hp) hxs
  exact constrain_locks c e p.name p.version pin (hL.sound e he).1 hparse (hasName_of_member ctx hp) x hnm hpn.symm hv
    L [] dq1 he hcon

/-- the re-resolution of a pin-keeping lock of `S` does not fail -/
theorem relock_ok {c : Cfg} {S : List Pkg} {L : List Text} (ctx : Ctx c S) (sd : Side c S)
    (huniq : ∀ x ∈ c.u.all, ∀ p ∈ S, x.name = p.name → versionMatches x.version p.version = true → x = p)
    (hL : PinnedLock S L) : ∃ r, resolve c L [] = .ok r := by
  rcases C02.resolve_ok_or_err_total c L [] with h | h
  · exact h
  · exfalso
    obtain ⟨dq1, hcon, hfree⟩ := constrain_free ctx sd L []
      (fun e he => entry_conOK sd.names sd.pvOk (hL.sound e he)) (by intro p _; rfl)
    have hlocked := locked_of_constrain ctx huniq hL hcon
    have hwl := worldLoop_succ ctx sd (L.length + 1) L [] dq1 hL.sound hlocked hfree
      (by intro n p h; simp [lookupT] at h)
    unfold resolve at h
    simp only [hcon] at h
    split at h
    · next heq => rw [heq] at hwl; exact hwl
    · cases h
    · next depMap dq2 heq =>
      rw [heq] at hwl
      obtain ⟨hdq, hmm, _, hcov⟩ := hwl
      simp only at hdq hmm hcov
      subst hdq
      have hex : ∀ p ∈ S, lookupT depMap p.name = some p := by
        intro p hp
        obtain ⟨e, he, pin, hparse⟩ := hL.complete p hp
        have := hcov e he
        rw [hparse] at this
        simp only at this
        cases hq : lookupT depMap p.name with
        | none => rw [hq] at this; cases this
        | some q =>
          obtain ⟨hqs, hqn⟩ := hmm _ _ hq
          rw [sd.names q hqs p hp hqn]
      have hgo := go_succ ctx sd L depMap ⟨dq2, [], []⟩ [] [] hL.sound
        ⟨hlocked, hfree, by intro n p h; simp [lookupT] at h, hex⟩
      rw [h] at hgo
      exact hgo

end Apko.Lock
