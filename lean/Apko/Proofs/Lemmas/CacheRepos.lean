import Apko.Proofs.Lemmas.CacheGlue
/-!
C19 — lemmas about `GetRepositoryIndexes` of an offline build (`Model/CacheGlue.lean`: `offlineIndex`,
`offlineIndexes`, `SkipRule`): which configured repositories contribute an index, for every state of the cache
directory, every list of repositories and every rule.
-/
namespace Apko.C19.Glue
open Apko.CacheGlue

/-- an index an offline build reads for a remote repository is what `fetchOffline` answered, complete -/
theorem offlineIndex_index {cfg : Cfg} {s : St} {u : Url} {b : Body} (h : offlineIndex cfg s u = .index b) :
    fetchOffline cfg s u = some (b, true) ∧ s.dirExists (cfg.dirOf u) = true := by
  unfold offlineIndex at h
  split at h
  · rename_i hd
    split at h
    · rename_i b2 hb
      cases h
      exact ⟨parseRes_some hb, hd⟩
    · cases h
  · cases h

/-- the error that wraps `fs.ErrNotExist` is returned exactly when the entry directory is not there -/
theorem offlineIndex_notExist {cfg : Cfg} {s : St} {u : Url} :
    offlineIndex cfg s u = .notExist ↔ s.dirExists (cfg.dirOf u) = false := by
  unfold offlineIndex
  constructor
  · intro h
    split at h
    · split at h <;> cases h
    · rename_i hd; simpa using hd
  · intro h
    simp [h]

/-- what one repository contributes -/
def repoIdx (cfg : Cfg) (s : St) (remote : Url → Bool) (loc : Url → OffIdx) (u : Url) : OffIdx :=
  if remote u then offlineIndex cfg s u else loc u

theorem offlineIndexes_cons (rule : SkipRule) (cfg : Cfg) (s : St) (remote : Url → Bool) (loc : Url → OffIdx)
    (u : Url) (rest : List Url) :
    offlineIndexes rule cfg s remote loc (u :: rest) =
      offlineCons rule u (remote u) (repoIdx cfg s remote loc u) (offlineIndexes rule cfg s remote loc rest) := rfl

/-- **the repaired rule drops no remote repository**: when the offline build gets its indexes at all, every
configured remote repository contributed the index `fetchOffline` read for it -/
theorem offlineIndexes_every_remote {cfg : Cfg} {s : St} {remote : Url → Bool} {loc : Url → OffIdx} :
    ∀ (repos : List Url) (l : List (Url × Body)),
      offlineIndexes .localNotExist cfg s remote loc repos = some l →
      ∀ u, u ∈ repos → remote u = true → ∃ b, (u, b) ∈ l ∧ offlineIndex cfg s u = .index b := by
  intro repos
  induction repos with
  | nil => intro l _ u hu; cases hu
  | cons v rest ih =>
    intro l h u hu hr
    rw [offlineIndexes_cons] at h
    cases hv : repoIdx cfg s remote loc v with
    | index b =>
      rw [hv] at h
      simp only [offlineCons] at h
      cases hrest : offlineIndexes .localNotExist cfg s remote loc rest with
      | none => rw [hrest] at h; cases h
      | some l2 =>
        rw [hrest] at h
        simp only [Option.map_some, Option.some.injEq] at h
        subst h
        rcases List.mem_cons.mp hu with rfl | hu2
        · refine ⟨b, List.mem_cons_self, ?_⟩
          unfold repoIdx at hv
          rw [hr] at hv
          simpa using hv
        · obtain ⟨b2, hb2, hi⟩ := ih l2 hrest u hu2 hr
          exact ⟨b2, List.mem_cons_of_mem _ hb2, hi⟩
    | notExist =>
      rw [hv] at h
      simp only [offlineCons] at h
      cases hrv : remote v with
      | true => rw [hrv] at h; simp [SkipRule.skips] at h
      | false =>
        rw [hrv] at h
        simp only [SkipRule.skips, if_true] at h
        rcases List.mem_cons.mp hu with rfl | hu2
        · rw [hr] at hrv; cases hrv
        · exact ih l h u hu2 hr
    | failed =>
      rw [hv] at h
      simp only [offlineCons] at h
      cases hrv : remote v <;> (rw [hrv] at h; simp [SkipRule.skips] at h)

/-- … in the configured order, nothing else: over remote repositories only, the repositories of the indexes the
resolver gets are exactly the configured ones -/
theorem offlineIndexes_remote_complete {cfg : Cfg} {s : St} {remote : Url → Bool} {loc : Url → OffIdx} :
    ∀ (repos : List Url) (l : List (Url × Body)), (∀ u, u ∈ repos → remote u = true) →
      offlineIndexes .localNotExist cfg s remote loc repos = some l → l.map (·.1) = repos := by
  intro repos
  induction repos with
  | nil => intro l _ h; rw [offlineIndexes] at h; cases h; rfl
  | cons v rest ih =>
    intro l hall h
    have hrv : remote v = true := hall v List.mem_cons_self
    rw [offlineIndexes_cons] at h
    cases hv : repoIdx cfg s remote loc v with
    | index b =>
      rw [hv] at h
      simp only [offlineCons] at h
      cases hrest : offlineIndexes .localNotExist cfg s remote loc rest with
      | none => rw [hrest] at h; cases h
      | some l2 =>
        rw [hrest] at h
        simp only [Option.map_some, Option.some.injEq] at h
        subst h
        simp [ih l2 (fun u hu => hall u (List.mem_cons_of_mem _ hu)) hrest]
    | notExist => rw [hv, hrv] at h; simp [offlineCons, SkipRule.skips] at h
    | failed => rw [hv, hrv] at h; simp [offlineCons, SkipRule.skips] at h

/-- a LOCAL repository whose index file is not there is skipped as before, under either rule -/
theorem offlineIndexes_local_missing (rule : SkipRule) (cfg : Cfg) (s : St) (remote : Url → Bool) (loc : Url → OffIdx)
    (u : Url) (rest : List Url) (hl : remote u = false) (hm : loc u = .notExist) :
    offlineIndexes rule cfg s remote loc (u :: rest) = offlineIndexes rule cfg s remote loc rest := by
  rw [offlineIndexes_cons]
  have : repoIdx cfg s remote loc u = .notExist := by unfold repoIdx; rw [hl]; simpa using hm
  rw [this, hl]
  cases rule <;> simp [offlineCons, SkipRule.skips]

/-- the two rules differ ONLY where a remote repository has no entry directory: over repositories that were all
cached (or are local) they give the same indexes -/
theorem offlineIndexes_rules_agree {cfg : Cfg} {s : St} {remote : Url → Bool} {loc : Url → OffIdx} :
    ∀ (repos : List Url), (∀ u, u ∈ repos → remote u = true → s.dirExists (cfg.dirOf u) = true) →
      offlineIndexes .anyNotExist cfg s remote loc repos = offlineIndexes .localNotExist cfg s remote loc repos := by
  intro repos
  induction repos with
  | nil => intro _; rfl
  | cons v rest ih =>
    intro hall
    have ih2 := ih (fun u hu => hall u (List.mem_cons_of_mem _ hu))
    rw [offlineIndexes_cons, offlineIndexes_cons, ih2]
    cases hv : repoIdx cfg s remote loc v with
    | index b => rfl
    | failed => simp [offlineCons, SkipRule.skips]
    | notExist =>
      cases hrv : remote v with
      | false => simp [offlineCons, SkipRule.skips]
      | true =>
        exfalso
        have hd := hall v List.mem_cons_self hrv
        unfold repoIdx at hv
        rw [hrv] at hv
        simp only [if_true] at hv
        rw [offlineIndex_notExist, hd] at hv
        cases hv

end Apko.C19.Glue
