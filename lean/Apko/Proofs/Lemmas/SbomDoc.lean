/-
Lemmas about the document operations of the SPDX model (C11): the de-dup pass, `replacePackage`,
`copySBOMElements` (closure), and the invariants carried through `Generate`'s apk loop.
-/
import Apko.Proofs.Lemmas.SbomId

namespace Apko.Sbom
open Apko

/-! ### the de-dup pass -/

theorem dedupLoop_ids (ps : List Pkg) (seen : List Id) (i : Id) :
    i ∈ (dedupLoop ps seen).map (·.id) ↔ (i ∈ ps.map (·.id) ∧ i ∉ seen) := by
  induction ps generalizing seen with
  | nil => simp [dedupLoop]
  | cons p ps ih =>
    simp only [dedupLoop]
    split
    · next h =>
      have hm : p.id ∈ seen := by simpa using h
      rw [ih]
      simp only [List.map_cons, List.mem_cons]
      constructor
      · rintro ⟨h1, h2⟩; exact ⟨Or.inr h1, h2⟩
      · rintro ⟨h1 | h1, h2⟩
        · subst h1; exact absurd hm h2
        · exact ⟨h1, h2⟩
    · next h =>
      have hm : p.id ∉ seen := by simpa using h
      simp only [List.map_cons, List.mem_cons, ih]
      constructor
      · rintro (h1 | ⟨h1, h2⟩)
        · subst h1; exact ⟨Or.inl rfl, hm⟩
        · exact ⟨Or.inr h1, fun h => h2 (Or.inr h)⟩
      · rintro ⟨h1 | h1, h2⟩
        · exact Or.inl h1
        · by_cases e : i = p.id
          · exact Or.inl e
          · exact Or.inr ⟨h1, by rintro (h | h); exact e h; exact h2 h⟩

theorem dedupLoop_nodup (ps : List Pkg) (seen : List Id) : ((dedupLoop ps seen).map (·.id)).Nodup := by
  induction ps generalizing seen with
  | nil => simp [dedupLoop]
  | cons p ps ih =>
    simp only [dedupLoop]
    split
    · exact ih seen
    · simp only [List.map_cons, List.nodup_cons]
      refine ⟨?_, ih _⟩
      intro h
      have := (dedupLoop_ids ps (p.id :: seen) p.id).mp h
      exact this.2 (by simp)

theorem dedupLoop_mem {ps : List Pkg} {seen : List Id} {p : Pkg} (h : p ∈ dedupLoop ps seen) : p ∈ ps := by
  induction ps generalizing seen with
  | nil => simp [dedupLoop] at h
  | cons q ps ih =>
    simp only [dedupLoop] at h
    split at h
    · exact List.mem_cons_of_mem _ (ih h)
    · rcases List.mem_cons.mp h with h | h
      · subst h; simp
      · exact List.mem_cons_of_mem _ (ih h)

theorem dedupLoop_of_nodup {ps : List Pkg} {seen : List Id} (hn : (ps.map (·.id)).Nodup)
    (hd : ∀ p ∈ ps, p.id ∉ seen) : dedupLoop ps seen = ps := by
  induction ps generalizing seen with
  | nil => rfl
  | cons p ps ih =>
    simp only [List.map_cons, List.nodup_cons] at hn
    have hp : p.id ∉ seen := hd p (by simp)
    have hc : seen.contains p.id = false := by simpa using hp
    simp only [dedupLoop, hc, Bool.false_eq_true, if_false]
    congr 1
    apply ih hn.2
    intro q hq
    simp only [List.mem_cons, not_or]
    refine ⟨?_, hd q (by simp [hq])⟩
    intro e
    exact hn.1 (e ▸ List.mem_map_of_mem (f := fun x : Pkg => x.id) hq)

/-- **ids_unique**, core: after the de-dup pass no identifier occurs twice -/
theorem dedup_nodup (ps : List Pkg) : ((dedup ps).map (·.id)).Nodup := dedupLoop_nodup ps []

theorem dedup_ids (ps : List Pkg) (i : Id) : i ∈ (dedup ps).map (·.id) ↔ i ∈ ps.map (·.id) := by
  simp [dedup, dedupLoop_ids]

theorem dedup_mem {ps : List Pkg} {p : Pkg} (h : p ∈ dedup ps) : p ∈ ps := dedupLoop_mem h

theorem dedup_of_nodup {ps : List Pkg} (hn : (ps.map (·.id)).Nodup) : dedup ps = ps :=
  dedupLoop_of_nodup hn (by simp)


/-! ### referential integrity as an invariant -/

/-- every relationship endpoint and every described id is the id of an element of the document -/
def Closed (d : Doc) : Prop :=
  (∀ r ∈ d.rels, r.element ∈ d.ids ∧ r.related ∈ d.ids) ∧ (∀ i ∈ d.describes, i ∈ d.ids)

/-- the invariant of `Generate`'s loop: closed, and at most one described element -/
structure Inv (d : Doc) : Prop where
  closed : Closed d
  one : d.describes.length ≤ 1

theorem refsResolve_iff (d : Doc) : refsResolve d = true ↔ Closed d := by
  simp [refsResolve, Closed, List.all_eq_true]

theorem replaceFirst_length (a b : Id) (l : List Id) : (replaceFirst a b l).length = l.length := by
  induction l with
  | nil => rfl
  | cons x xs ih => simp only [replaceFirst]; split <;> simp [ih]

theorem replaceFirst_mem_le1 {a b i : Id} {l : List Id} (hl : l.length ≤ 1)
    (h : i ∈ replaceFirst a b l) : i = b ∨ (i ∈ l ∧ i ≠ a) := by
  match l, hl with
  | [], _ => simp [replaceFirst] at h
  | [x], _ =>
    simp only [replaceFirst] at h
    split at h
    · simp at h; exact Or.inl h
    · next hx => simp at h; subst h; exact Or.inr ⟨by simp, hx⟩

theorem replaceBody_ids_keep {d : Doc} {a b i : Id} (hi : i ∈ d.ids) (hne : i ≠ a) :
    i ∈ (replaceBody d a b).ids := by
  simp only [Doc.ids, List.mem_map] at hi
  obtain ⟨p, hp, rfl⟩ := hi
  have hk : p ∈ d.packages.filter (fun p => p.id ≠ a) := by simp [hp, hne]
  simp only [replaceBody, Doc.ids]
  split
  · next he => rw [List.isEmpty_iff.mp he] at hk; cases hk
  · exact List.mem_map_of_mem hk

theorem replaceBody_packages_sub {d : Doc} {a b : Id} {p : Pkg} (h : p ∈ (replaceBody d a b).packages) :
    p ∈ d.packages := by
  simp only [replaceBody] at h
  split at h
  · exact h
  · exact (List.mem_filter.mp h).1

theorem replaceBody_inv {d : Doc} {a b : Id} (h : Inv d) (hb : b ∈ d.ids) (hab : a ≠ b) :
    Inv (replaceBody d a b) := by
  have hb' : b ∈ (replaceBody d a b).ids := replaceBody_ids_keep hb (Ne.symm hab)
  refine ⟨⟨?_, ?_⟩, ?_⟩
  · intro r hr
    simp only [replaceBody, List.mem_map] at hr
    obtain ⟨r0, hr0, rfl⟩ := hr
    have h0 := h.closed.1 r0 hr0
    simp only [renameRel]
    constructor
    · split
      · exact hb'
      · next hne => exact replaceBody_ids_keep h0.1 hne
    · split
      · exact hb'
      · next hne => exact replaceBody_ids_keep h0.2 hne
  · intro i hi
    have : i ∈ replaceFirst a b d.describes := hi
    rcases replaceFirst_mem_le1 h.one this with e | ⟨h1, h2⟩
    · exact e ▸ hb'
    · exact replaceBody_ids_keep (h.closed.2 i h1) h2
  · show (replaceFirst a b d.describes).length ≤ 1
    rw [replaceFirst_length]; exact h.one

theorem replacePackage_inv {d : Doc} {a b : Id} (h : Inv d) (hb : b ∈ d.ids) :
    Inv (replacePackage d a b) ∧ b ∈ (replacePackage d a b).ids := by
  unfold replacePackage
  split
  · exact ⟨h, hb⟩
  · next hab => exact ⟨replaceBody_inv h hb hab, replaceBody_ids_keep hb (Ne.symm hab)⟩

theorem replacePackage_packages_sub {d : Doc} {a b : Id} {p : Pkg}
    (h : p ∈ (replacePackage d a b).packages) : p ∈ d.packages := by
  unfold replacePackage at h
  split at h
  · exact h
  · exact replaceBody_packages_sub h

theorem replaceRound_inv {name : Text} {d : Doc} {t : Id} (h : Inv d) (ht : t ∈ d.ids) :
    Inv (replaceRound name d t) ∧ t ∈ (replaceRound name d t).ids := by
  unfold replaceRound
  split
  · exact replacePackage_inv h ht
  · exact ⟨h, ht⟩

theorem replaceRound_packages_sub {name : Text} {d : Doc} {t : Id} {p : Pkg}
    (h : p ∈ (replaceRound name d t).packages) : p ∈ d.packages := by
  unfold replaceRound at h
  split at h
  · exact replacePackage_packages_sub h
  · exact h

theorem foldl_replaceRound_inv {name : Text} {t : Id} (l : List Id) (hl : ∀ x ∈ l, x = t) {d : Doc}
    (h : Inv d) (ht : t ∈ d.ids) : Inv (l.foldl (replaceRound name) d) := by
  induction l generalizing d with
  | nil => exact h
  | cons x xs ih =>
    have hx : x = t := hl x (by simp)
    subst hx
    have := replaceRound_inv (name := name) h ht
    exact ih (fun y hy => hl y (by simp [hy])) this.1 this.2

theorem foldl_replaceRound_packages_sub {name : Text} (l : List Id) {d : Doc} {p : Pkg}
    (h : p ∈ (l.foldl (replaceRound name) d).packages) : p ∈ d.packages := by
  induction l generalizing d with
  | nil => exact h
  | cons x xs ih => exact replaceRound_packages_sub (ih h)

/-! ### copySBOMElements: the closure really is closed -/

def ClosedUnder (rels : List Rel) (t : List Id) : Prop :=
  ∀ r ∈ rels, isFileRef r.related = false → r.element ∈ t → r.related ∈ t

theorem insertNew_eq (t : List Id) (x : Id) : insertNew t x = t ∨ insertNew t x = t ++ [x] := by
  unfold insertNew; split <;> simp

theorem passStep_cases (t : List Id) (r : Rel) :
    passStep t r = t ∨ passStep t r = t ++ [r.related] := by
  unfold passStep
  split
  · exact Or.inl rfl
  · split
    · exact insertNew_eq t r.related
    · exact Or.inl rfl

theorem passStep_len (t : List Id) (r : Rel) : t.length ≤ (passStep t r).length := by
  rcases passStep_cases t r with h | h <;> rw [h] <;> simp

theorem pass_len (rels : List Rel) (t : List Id) : t.length ≤ (pass rels t).length := by
  unfold pass
  induction rels generalizing t with
  | nil => simp
  | cons r rs ih => exact Nat.le_trans (passStep_len t r) (ih _)

theorem pass_sub (rels : List Rel) (t : List Id) : ∀ x ∈ t, x ∈ pass rels t := by
  unfold pass
  induction rels generalizing t with
  | nil => simp
  | cons r rs ih =>
    intro x hx
    apply ih
    rcases passStep_cases t r with h | h <;> rw [h] <;> simp [hx]

theorem passStep_fixed {t : List Id} {r : Rel} (h : (passStep t r).length = t.length) :
    passStep t r = t ∧ (isFileRef r.related = false → r.element ∈ t → r.related ∈ t) := by
  rcases passStep_cases t r with e | e
  · refine ⟨e, ?_⟩
    intro hf he
    unfold passStep at e
    simp only [hf, Bool.false_eq_true, if_false] at e
    have hc : t.contains r.element = true := by simpa using he
    simp only [hc, if_true] at e
    unfold insertNew at e
    split at e
    · next hh => simpa using hh
    · have := congrArg List.length e; simp at this
  · rw [e] at h; simp at h

/-- a sweep that does not grow the set changes nothing, and the set is closed -/
theorem pass_stable {rels : List Rel} {t : List Id} (h : (pass rels t).length = t.length) :
    ClosedUnder rels t := by
  unfold pass at h
  induction rels generalizing t with
  | nil => intro r hr; cases hr
  | cons r rs ih =>
    simp only [List.foldl_cons] at h
    have h1 : (passStep t r).length = t.length := by
      have a := passStep_len t r
      have b := pass_len rs (passStep t r)
      unfold pass at b
      omega
    have hf := passStep_fixed h1
    rw [hf.1] at h
    intro r' hr'
    rcases List.mem_cons.mp hr' with e | e
    · subst e; exact hf.2
    · exact ih h r' e

theorem pass_fixed_eq {rels : List Rel} {t : List Id} (e : (pass rels t).length = t.length) :
    pass rels t = t := by
  unfold pass at e ⊢
  induction rels generalizing t with
  | nil => rfl
  | cons r rs ih2 =>
    simp only [List.foldl_cons] at e ⊢
    have h1 : (passStep t r).length = t.length := by
      have a := passStep_len t r
      have b := pass_len rs (passStep t r)
      unfold pass at b
      omega
    rw [(passStep_fixed h1).1] at e ⊢
    exact ih2 e

theorem closure_spec {rels : List Rel} {fuel prev : Nat} {t t' : List Id}
    (h : closure rels fuel prev t = some t') (hinv : t.length = prev → ClosedUnder rels t) :
    ClosedUnder rels t' ∧ ∀ x ∈ t, x ∈ t' := by
  induction fuel generalizing prev t with
  | zero =>
    simp only [closure] at h
    split at h
    · next e => cases h; exact ⟨hinv e, fun _ hx => hx⟩
    · cases h
  | succ n ih =>
    simp only [closure] at h
    split at h
    · next e => cases h; exact ⟨hinv e, fun _ hx => hx⟩
    · have := ih h (fun e => by rw [pass_fixed_eq e]; exact pass_stable e)
      exact ⟨this.1, fun x hx => this.2 x (pass_sub rels t x hx)⟩

end Apko.Sbom
