/-
C08 — the aliasing obligation over the REGENERATED inventory (`Generated/Alias.lean`, go/types).

* ties: the statement list of `PkgResolver.Clone`, what the two cache getters return and do first
  (lock), every use of the cached value inside the cache types, every reference to a process-wide
  cache variable, the fields of synchronisation type inside the tracked structs;
* `clone_covers_all_fields`, `clone_containers_private`  every field of PkgResolver is mentioned by
  `Clone()` and every map field gets a container of its own;
* `writes_hit_only_deep_copied`  EVERY write site of the inventory is judged harmless
  (`Alias.judge`): it writes a container the clone owns, a fresh object of the same function, a
  value under construction, the cache's own structure under its lock, a sync.Map, an object whose
  type no published value contains — or it is rooted at a parameter and every call site is in the
  table again;
* `clone_writes_are_legal_stores` + `published_immutable_generated`  the lift to the heap model:
  any sequence of stores through the fields the table names, by any number of clones in any
  interleaving, leaves every cell of the published world unchanged
  (`dq_published_immutable_generated` for the disqualification map);
* `shared_objects_never_written`, `shared_objects_have_no_lazy_fields`  the objects every clone and
  every architecture's resolver share (Package, RepositoryPackage, the index wrappers, parsed
  versions) are written only while they are built.
A new write site, a field added without a container of its own, `maps.Clone` replaced by plain
assignment, a getter that returns the cached value itself, a lazily cached field: each of them
breaks one of the theorems below.
-/
import Apko.Proofs.Lemmas.Alias

namespace Apko.C08.AliasTable
open Apko.Alias Apko.Generated

/-- judgement environment over the regenerated tables -/
def E : Env := env aliasCloneStmts aliasReturns
/-- the clone table of `PkgResolver.Clone` as the heap model reads it -/
def tbl : List CloneKind := kinds E.tbl

theorem tie_alias_no_problems : aliasProblems = [] := by decide

theorem tie_clone_shape : aliasCloneShape = "&PkgResolver{…}" := by decide

theorem tie_clone_stmts : aliasCloneStmts = 
    [
      ("indexes", "share", "p.indexes"),
      ("nameMap", "maps.Clone", "maps.Clone(p.nameMap)"),
      ("installIfMap", "maps.Clone", "maps.Clone(p.installIfMap)"),
      ("selected", "fresh", "map[string]*RepositoryPackage{}")] := by decide

theorem tie_get_returns : aliasGetReturns = 
    [
      ("resolverCache.Get", "pr.Clone()"),
      ("resolverCache.Get", "pr.Clone()"),
      ("resolverCache.Get#stmt0", "r.Lock()"),
      ("resolverCache.Get#stmt1", "defer r.Unlock()"),
      ("disqualifyCache.Get", "maps.Clone(dq)"),
      ("disqualifyCache.Get", "maps.Clone(dq)"),
      ("disqualifyCache.Get#stmt0", "r.Lock()"),
      ("disqualifyCache.Get#stmt1", "defer r.Unlock()")] := by decide

theorem tie_published_uses : aliasPublishedUses = 
    [
      ("resolverCache.find", "return r.pr"),
      ("resolverCache.fill", "r.pr = pr"),
      ("resolverCache.fill", "child.fill(indexes[1:], pr)"),
      ("resolverCache.Get", "pr := r.find(indexes)"),
      ("resolverCache.Get", "pr != nil"),
      ("resolverCache.Get", "return pr.Clone()"),
      ("resolverCache.Get", "pr := newPkgResolver(ctx, indexes)"),
      ("resolverCache.Get", "r.fill(indexes, pr)"),
      ("resolverCache.Get", "return pr.Clone()"),
      ("disqualifyCache.find", "return r.dq"),
      ("disqualifyCache.fill", "r.dq = dq"),
      ("disqualifyCache.fill", "child.fill(indexes[1:], dq)"),
      ("disqualifyCache.Get", "dq := r.find(indexes)"),
      ("disqualifyCache.Get", "dq != nil"),
      ("disqualifyCache.Get", "return maps.Clone(dq)"),
      ("disqualifyCache.Get", "dq := disqualifyDifference(ctx, byArch)"),
      ("disqualifyCache.Get", "r.fill(indexes, dq)"),
      ("disqualifyCache.Get", "return maps.Clone(dq)")] := by decide

theorem tie_global_uses : aliasGlobalUses = 
    [
      ("GetRepositoryIndexes", "globalIndexCache.get"),
      ("NewPkgResolver", "globalResolverCache.Get"),
      ("PkgResolver.GetPackagesWithDependencies", "globalDisqualifyCache.Get"),
      ("cachedParseVersion", "parsedVersions.Load"),
      ("cachedParseVersion", "parsedVersions.Store"),
      ("cachedResolvePackageNameVersionPin", "parsedConstraints.Load"),
      ("cachedResolvePackageNameVersionPin", "parsedConstraints.Store")] := by decide

theorem tie_alias_lazy : aliasLazy = 
    [
      ("resolverCache", "Mutex", "sync.Mutex"),
      ("disqualifyCache", "Mutex", "sync.Mutex"),
      ("indexCache", "onces", "sync.Map"),
      ("indexCache", "etagMu", "sync.Mutex"),
      ("indexCache", "Mutex", "sync.Mutex"),
      ("indexCache", "indexes", "sync.Map")] := by decide

/-- the fields of PkgResolver with the kind of their type -/
def resolverFields : List (String × String) :=
  (aliasFields.filter fun r => r.1 = "PkgResolver").map fun r => (r.2.1, r.2.2.1)

theorem tie_resolver_fields : resolverFields =
    [("indexes", "slice"), ("nameMap", "map"), ("installIfMap", "map"), ("selected", "map")] := by decide

/-- every field of the struct is mentioned by `Clone()` (a forgotten field would be nil in every clone) -/
theorem clone_covers_all_fields : ∀ f ∈ resolverFields, E.tbl.any (·.1 = f.1) = true := by decide

/-- every map field gets a container of its own (`maps.Clone` or a new literal) -/
theorem clone_containers_private :
    ∀ f ∈ resolverFields, f.2 = "map" → (deepCopied E.tbl).contains f.1 = true := by decide

theorem deep_copied_fields : deepCopied E.tbl = ["nameMap", "installIfMap", "selected"] := by decide

/-- the getters hand out copies only: every `return` of resolverCache.Get is `pr.Clone()`, of
disqualifyCache.Get `maps.Clone(dq)`, and both take the lock first -/
theorem getters_hand_out_copies :
    (aliasGetReturns.filter (·.1 = "resolverCache.Get")).all (·.2 = "pr.Clone()") = true ∧
    (aliasGetReturns.filter (·.1 = "disqualifyCache.Get")).all (·.2 = "maps.Clone(dq)") = true ∧
    !(aliasGetReturns.filter (·.1 = "resolverCache.Get")).isEmpty ∧
    !(aliasGetReturns.filter (·.1 = "disqualifyCache.Get")).isEmpty ∧
    aliasGetReturns.contains ("resolverCache.Get#stmt0", "r.Lock()") = true ∧
    aliasGetReturns.contains ("resolverCache.Get#stmt1", "defer r.Unlock()") = true ∧
    aliasGetReturns.contains ("disqualifyCache.Get#stmt0", "r.Lock()") = true ∧
    aliasGetReturns.contains ("disqualifyCache.Get#stmt1", "defer r.Unlock()") = true := by decide

/-- the cache variables are reached through their getters only -/
theorem caches_reached_through_getters :
    ∀ u ∈ aliasGlobalUses, (u.2 = "globalResolverCache.Get" ∨ u.2 = "globalDisqualifyCache.Get" ∨
      u.2 = "globalIndexCache.get" ∨ u.2 = "parsedVersions.Load" ∨ u.2 = "parsedVersions.Store" ∨
      u.2 = "parsedConstraints.Load" ∨ u.2 = "parsedConstraints.Store") := by decide

/-- T: every write site of the regenerated inventory is harmless for published values -/
theorem writes_hit_only_deep_copied : ∀ w ∈ aliasWrites, (judge E w).ok = true := by
  have h : aliasWrites.all (fun w => (judge E w).ok) = true := by decide
  exact fun w hw => List.all_eq_true.mp h w hw

/-- the fields written through a clone are exactly … -/
theorem clone_fields_written : cloneFieldsWritten E aliasWrites = ["selected"] := by decide

/-- … fields whose container the clone owns: each is a legal store of the heap model -/
theorem clone_writes_are_legal_stores :
    ∀ f ∈ cloneFieldsWritten E aliasWrites, ∃ i, fieldIndex E.tbl f = some i ∧ (kindAt tbl i).isPrivate = true := by
  decide

/-- actions the code can produce: every store goes through a field some write site of the table names -/
def FromTable (acts : List Action) : Prop :=
  ∀ a ∈ acts, match a with
    | .clone => True
    | .store _ i _ _ => ∃ f ∈ cloneFieldsWritten E aliasWrites, fieldIndex E.tbl f = some i

theorem fromTable_legal {acts : List Action} (h : FromTable acts) : ∀ a ∈ acts, a.legal tbl = true := by
  intro a ha
  have := h a ha
  cases a with
  | clone => rfl
  | store j i k v =>
    obtain ⟨f, hf, hi⟩ := this
    obtain ⟨i', hi', hp⟩ := clone_writes_are_legal_stores f hf
    rw [hi] at hi'
    cases hi'
    exact hp

/-- T (lift): for every published heap, every prototype, every number of clones and every
interleaving of the stores the regenerated write sites can make, no cell reachable from the published
value changes: the published resolver is immutable after publication. -/
theorem published_immutable_generated (ph : Nat → Key → PVal) (p : Nat) (acts : List Action)
    (h : FromTable acts) (n : Nat) (k : Key) :
    (run tbl (.pub p) acts (init ph)).heap (.pub n) k = (ph n k).toVal :=
  published_immutable tbl ph (.pub p) acts (fromTable_legal h) n k

/-- T (lift): and what each clone sees in its own containers is a function of the published heap and
of its own stores, whatever the other clones do and however the stores interleave -/
theorem clone_view_generated (ph : Nat → Key → PVal) (p : Nat) (pre post : List Action)
    (h1 : FromTable pre) (h2 : FromTable post) :
    let s := run tbl (.pub p) pre (init ph)
    view (run tbl (.pub p) (.clone :: post) s) s.nclones =
      applyOwn (initialView tbl ph p) (ownStores s.nclones post) :=
  clone_view_schedule_independent tbl ph p pre post (fromTable_legal h1) (fromTable_legal h2)

/-- the disqualification map: `Get` returns `maps.Clone(dq)` — a one-field "struct" copied shallowly -/
def dqTbl : List CloneKind :=
  if (aliasGetReturns.filter (·.1 = "disqualifyCache.Get")).all (·.2 = "maps.Clone(dq)") then [.shallow] else [.share]

/-- every write through what `disqualifyCache.Get` returned goes to the top-level map -/
theorem dq_writes_top_level :
    ∀ w ∈ aliasWrites, w.originKind = "call" → w.originArg = "disqualifyCache.Get" → judge E w = .cloneTop := by
  have h : aliasWrites.all (fun w => !(w.originKind = "call" && w.originArg = "disqualifyCache.Get") || judge E w = .cloneTop) = true := by
    decide
  intro w hw h1 h2
  have := List.all_eq_true.mp h w hw
  simpa [h1, h2] using this

theorem dq_published_immutable_generated (ph : Nat → Key → PVal) (p : Nat) (acts : List Action)
    (h : ∀ a ∈ acts, match a with | .clone => True | .store _ i _ _ => i = 0) (n : Nat) (k : Key) :
    (run dqTbl (.pub p) acts (init ph)).heap (.pub n) k = (ph n k).toVal := by
  apply published_immutable
  intro a ha
  have := h a ha
  cases a with
  | clone => rfl
  | store j i k v =>
    subst this
    show (kindAt dqTbl 0).isPrivate = true
    decide

/-- T: objects shared by all clones (packages, index wrappers, parsed versions) are written only
while they are built: every site whose written object has such a type is a construction site or a
fresh local of the same function -/
theorem shared_objects_never_written :
    ∀ w ∈ aliasWrites, sharedStructs.contains w.obj = true →
      (judge E w = .construction ∨ judge E w = .privateFresh) := by
  have h : aliasWrites.all (fun w => !sharedStructs.contains w.obj || (judge E w = .construction || judge E w = .privateFresh)) = true := by
    decide
  intro w hw h1
  have := List.all_eq_true.mp h w hw
  simp only [h1, Bool.not_true, Bool.false_or, Bool.or_eq_true, decide_eq_true_eq] at this
  exact this

/-- T: no lazily filled field — sync.Once / sync.Mutex / sync.Map / atomic fields occur in the cache
types only, never in an object reachable from a published resolver -/
theorem shared_objects_have_no_lazy_fields : ∀ r ∈ aliasLazy, cacheTypes.contains r.1 = true := by decide

/-- no method of a shared object type writes through its receiver -/
theorem shared_object_methods_read_only :
    ∀ w ∈ aliasWrites, w.root = "recv" → sharedStructs.contains w.recv = false := by
  have h : aliasWrites.all (fun w => !(w.root = "recv") || !sharedStructs.contains w.recv) = true := by decide
  intro w hw h1
  have := List.all_eq_true.mp h w hw
  simpa [h1] using this

/-- the judgement is not vacuous: it rejects the three classic mistakes -/
theorem judge_rejects_alias_sort :
    (judge E ⟨"PkgResolver.ResolvePackage", "PkgResolver", "call:PkgResolver.sortPackages#0", "recv", "p", "", "",
      ["nameMap", "[]"], "[]", "[]*repositoryPackage"⟩).ok = false ∧
    (judge { E with tbl := [("indexes", .share), ("nameMap", .shallow), ("installIfMap", .shallow), ("selected", .share)] }
      ⟨"PkgResolver.pick", "PkgResolver", "map-store", "recv", "p", "", "", ["selected"], "[]", "map[string]*RepositoryPackage"⟩).ok = false ∧
    (judge E ⟨"RepositoryPackage.URL", "RepositoryPackage", "assign", "recv", "rp", "", "", [], ".url", "RepositoryPackage"⟩).ok = false := by
  decide

end Apko.C08.AliasTable
