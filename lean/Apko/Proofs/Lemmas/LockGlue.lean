/-
C09, the plumbing between `apko lock`, the lock file and `apko build --lockfile` (Model/LockGlue.lean).

* ties: the Lockfile branch of `buildImage` statement by statement (the error check directly behind
  `InstallPackages`, in the block that declares the `err` it assigns), the readers of `ignoreSignatures`, the fields
  `LockCmd` / `NewAPKResolved` copy, `installablePackagesForArch`;
* `expandPkg_option_free`: under the cache invariant `StOK` (every disk entry / memo entry was made from the file that
  is at its URL now) the expansion of a package does not depend on the package cache, on the memo, on
  ignore-signatures or on the transport — it is `fetchVerify` of the file;
* `lockFile_option_free_partial`, `lockFile_sound`: hence the lock file is the same under every option, and every entry is the
  `specEntry` of the file at its URL (ranges tile the file in member order, checksums are the members');
* `buildFromLock_option_free`, `buildFromLock_fails_or_exact`, `buildFromLock_fails_of_broken`: a build from a lock
  fails, or its installed database lists exactly the lock's entries of that architecture, in order, under the locked
  checksums; it fails whenever a locked package of that architecture cannot be fetched and verified.

Correspondence obligations (harness/lock_glue.go): one `l.lockfile` step per option variant (the driver runs
`lockFile` in the state of that variant), one `l.lockbuild` step per fault; the byte identity of the lock files and
of the images across the variants is checked on Go's outputs.
-/
import Apko.Model.LockGlue
import Apko.Generated.LockGlue

namespace Apko.C09.Glue
open Apko Apko.Lock Apko.LockGlue

/-! ## ties -/

/-- the Lockfile branch of `buildImage`: `lock.FromFile` → config checksum → `installablePackagesForArch` →
`InstallPackages` → `if err != nil { return }`, each error check in the block whose `err` was just assigned;
`buildFromLock` is this list. -/
theorem tie_lockBranch :
    Generated.lockBranchStmts =
      ["lock, err := lock.FromFile(bc.o.Lockfile)",
       "if err != nil { return }",
       "if lock.Config == nil { … } else if bc.o.ImageConfigChecksum != \"\" && bc.o.ImageConfigChecksum != lock.Config.DeepChecksum { return }",
       "allPkgs, err := installablePackagesForArch(lock, bc.Arch())",
       "if err != nil { return }",
       "pkgs, err = bc.apk.InstallPackages(ctx, &bc.o.SourceDateEpoch, allPkgs)",
       "if err != nil { return }"] ∧
    Generated.unlockedBranchStmts =
      ["pkgs, err = bc.apk.FixateWorld(ctx, &bc.o.SourceDateEpoch)", "if err != nil { return }"] := by
  constructor <;> rfl

/-- computed by the extractor on the syntax tree: every assignment to `err` in either branch is directly followed by
`if err != nil { … return }` in the same block (a check hoisted behind the if/else would read the function-level `err`,
which `lock, err := lock.FromFile(…)` shadows inside the branch) -/
theorem tie_lockBranchErrChecked : Generated.lockBranchErrChecked = true := by decide

/-- `ignoreSignatures` is read by the index path only: nothing that fetches, expands, caches or reconstructs a package
looks at it (`expandPkg` carries `Opts.ignoreSignatures` and never reads it) -/
theorem tie_ignoreSignaturesReaders :
    Generated.ignoreSignaturesReaders =
      ["apk/implementation.go:APK.ResolveWorld", "apk/implementation.go:New", "apk/index.go:WithIgnoreSignatures",
       "apk/index.go:shouldCheckSignatureForIndex", "apk/options.go:WithIgnoreIndexSignatures",
       "apk/repo.go:APK.GetRepositoryIndexes"] := by rfl

theorem tie_lockPkgFields :
    Generated.lockPkgFields =
      [("Name", "rpkg.Package.Name"), ("URL", "rpkg.Package.URL()"), ("Architecture", "rpkg.Package.Arch"),
       ("Version", "rpkg.Package.Version"),
       ("Control.Checksum", "\"sha1-\" + base64.StdEncoding.EncodeToString(rpkg.ControlHash)"),
       ("Data.Checksum", "\"sha256-\" + base64.StdEncoding.EncodeToString(rpkg.DataHash)"),
       ("Checksum", "rpkg.Package.ChecksumString()"),
       ("Signature.Checksum", "\"sha1-\" + base64.StdEncoding.EncodeToString(rpkg.SignatureHash)")] := by rfl

theorem tie_apkResolvedHashes :
    Generated.apkResolvedHashes =
      [("Package", "pkg"), ("ControlHash", "expanded.ControlHash"), ("SignatureHash", "expanded.SignatureHash"),
       ("DataHash", "expanded.PackageHash")] := by rfl

theorem tie_installableStmts :
    Generated.installableStmts =
      ["pkgs := make([]apk.InstallablePackage, 0, len(l.Contents.Packages))",
       "for _, p := range l.Contents.Packages",
       "  if p.Architecture != arch.ToAPK() { continue }",
       "  if p.Checksum == \"\" { return }",
       "  pkgs = append(pkgs, installablePackage{name: p.Name, url: p.URL, checksum: p.Checksum})",
       "return pkgs, nil"] := by rfl

/-! ## the expansion of a package does not depend on the options -/

/-- the hit reconstruction of what `cachePackage` wrote is the fresh expansion (the signature section included) -/
theorem expandCached_diskEntryOf (s : Sections) : expandCached (diskEntryOf s) = expandFresh s := by
  unfold expandCached diskEntryOf expandFresh
  by_cases h : s.sig = 0 <;> simp [h]

/-- the cache invariant: every disk entry and every memo entry was made from the file that is at its URL (C19 keeps
it on disk; the memo is filled by `expandPackage` itself) -/
def StOK (st : St) (repo : Repo) : Prop :=
  (∀ u e, (u, e) ∈ st.disk → ∃ s, repo u = some s ∧ e = diskEntryOf s) ∧
  (∀ u c x, (u, c, x) ∈ st.memo → ∃ s, repo u = some s ∧ s.q1 = c ∧ x = expandFresh s)

theorem StOK_empty (repo : Repo) : StOK St.empty repo := by
  constructor <;> intro _ _ <;> simp [St.empty]

theorem fetchVerify_of {repo : Repo} {p : PkgRef} {s : Sections} (hr : repo p.url = some s) (hq : s.q1 = p.checksum) :
    fetchVerify repo p = some (expandFresh s) := by
  unfold fetchVerify
  simp [hr, hq]

/-- T `expandPkg_option_free` -/
theorem expandPkg_option_free (o : Opts) (st : St) (repo : Repo) (h : StOK st repo) (p : PkgRef) :
    expandPkg o st repo p = fetchVerify repo p := by
  unfold expandPkg
  cases o.cache with
  | off => rfl
  | on =>
    simp only
    cases hm : memoHit st p with
    | some x =>
      simp only
      unfold memoHit at hm
      cases hf : st.memo.find? (fun e => e.1 = p.url && e.2.1 = p.checksum) with
      | none => simp [hf] at hm
      | some e =>
        simp only [hf, Option.map_some, Option.some.injEq] at hm
        have hp := List.find?_some hf
        have hmem := List.mem_of_find?_eq_some hf
        simp only [Bool.and_eq_true, decide_eq_true_eq] at hp
        obtain ⟨u, c, x'⟩ := e
        obtain ⟨s, hr, hq, hx⟩ := h.2 u c x' hmem
        simp only at hp hm
        rw [← hm, hx]
        exact (fetchVerify_of (hp.1 ▸ hr) (hq.trans hp.2)).symm
    | none =>
      simp only
      cases hd : diskHit st p with
      | none => rfl
      | some e =>
        simp only
        unfold diskHit at hd
        cases hf : st.disk.find? (fun e => e.1 = p.url && e.2.ctlName = p.checksum) with
        | none => simp [hf] at hd
        | some ue =>
          simp only [hf, Option.map_some, Option.some.injEq] at hd
          have hp := List.find?_some hf
          have hmem := List.mem_of_find?_eq_some hf
          simp only [Bool.and_eq_true, decide_eq_true_eq] at hp
          obtain ⟨u, e'⟩ := ue
          obtain ⟨s, hr, he⟩ := h.1 u e' hmem
          simp only at hp hd
          subst hd
          have hq : s.q1 = p.checksum := by
            have := hp.2
            rw [he] at this
            simpa [diskEntryOf] using this
          rw [he, expandCached_diskEntryOf]
          exact (fetchVerify_of (hp.1 ▸ hr) hq).symm

/-! ## the lock file -/

theorem lockArch_option_free (o o' : Opts) (st st' : St) (repo : Repo) (h : StOK st repo) (h' : StOK st' repo)
    (ps : List PkgRef) : lockArch o st repo ps = lockArch o' st' repo ps := by
  induction ps with
  | nil => rfl
  | cons p rest ih =>
    simp only [lockArch, expandPkg_option_free o st repo h p, expandPkg_option_free o' st' repo h' p, ih]

/-- T `lockFile_option_free_partial`: the lock file of a resolution against a repository is the same whatever the package
cache mode, the state of the cache (cold, warm in this process, warm from another process), ignore-signatures and the
transport are — it equals the lock file of a run without package cache. -/
theorem lockFile_option_free_partial (o : Opts) (st : St) (repo : Repo) (h : StOK st repo) (archs : List (List PkgRef)) :
    lockFile o st repo archs = lockFile ⟨.off, false, false⟩ St.empty repo archs := by
  induction archs with
  | nil => rfl
  | cons a rest ih =>
    simp only [lockFile, ih, lockArch_option_free o ⟨.off, false, false⟩ st St.empty repo h (StOK_empty repo) a]

inductive All2 {α β : Type} (R : α → β → Prop) : List α → List β → Prop
  | nil : All2 R [] []
  | cons {a b as bs} : R a b → All2 R as bs → All2 R (a :: as) (b :: bs)

/-- the entry written for a verified fresh expansion is the entry the property demands -/
theorem lockPkg_meets_spec (p : PkgRef) (s : Sections) (hq : s.q1 = p.checksum) :
    lockPkg p (expandFresh s) = specEntry p s := by
  cases s with
  | mk sig ctl dat sigSum ctlSum datSum q1 name version arch =>
    simp only at hq
    simp only [lockPkg, specEntry, expandFresh, Generated.signatureFirst, Generated.signatureLast,
      Generated.controlFirst, Generated.controlLast, Generated.dataFirst, Generated.dataLast, hq]
    by_cases h : sig = 0
    · subst h; simp
    · simp [h]

/-- T `lockFile_sound`: every entry of an emitted lock is `specEntry` of its package and of the file that is at the
recorded URL, whose control checksum is the recorded one. -/
theorem lockArch_sound (o : Opts) (st : St) (repo : Repo) (h : StOK st repo) :
    ∀ (ps : List PkgRef) (l : List LockEntry), lockArch o st repo ps = some l →
      All2 (fun p e => ∃ s, repo p.url = some s ∧ s.q1 = p.checksum ∧ e = specEntry p s) ps l := by
  intro ps
  induction ps with
  | nil =>
    intro l hl
    simp only [lockArch, Option.some.injEq] at hl
    subst hl
    exact .nil
  | cons p rest ih =>
    intro l hl
    simp only [lockArch, expandPkg_option_free o st repo h p] at hl
    cases hf : fetchVerify repo p with
    | none => simp [hf] at hl
    | some x =>
      cases hr : lockArch o st repo rest with
      | none => simp [hf, hr] at hl
      | some l' =>
        simp only [hf, hr, Option.some.injEq] at hl
        subst hl
        refine .cons ?_ (ih l' hr)
        unfold fetchVerify at hf
        cases hs : repo p.url with
        | none => simp [hs] at hf
        | some s =>
          simp only [hs] at hf
          split at hf
          · next hq =>
            simp only [Option.some.injEq] at hf
            subst hf
            exact ⟨s, rfl, hq, lockPkg_meets_spec p s hq⟩
          · simp at hf

/-- what `specEntry` says, spelled out: the signature range is recorded iff the file has a signature member, the three
ranges are `[0,sig)`, `[sig,sig+ctl)`, `[sig+ctl,sig+ctl+dat)` and the Q1 checksum is the control member's -/
theorem specEntry_ranges (p : PkgRef) (s : Sections) :
    ((specEntry p s).sigRange = [] ↔ s.sig = 0) ∧
    (specEntry p s).ctlRange = rangeText s.sig ((s.sig : Int) + s.ctl - 1) ∧
    (specEntry p s).datRange = rangeText ((s.sig : Int) + s.ctl) ((s.sig : Int) + s.ctl + s.dat - 1) ∧
    (specEntry p s).checksum = s.q1 ∧ (specEntry p s).url = p.url := by
  refine ⟨?_, rfl, rfl, rfl, rfl⟩
  unfold specEntry
  by_cases h : s.sig = 0
  · simp [h]
  · simp [h, rangeText]

/-! ## building from a lock -/

theorem installSeq_congr (o o' : Opts) (st st' : St) (repo : Repo)
    (h : ∀ p, expandPkg o st repo p = expandPkg o' st' repo p) :
    ∀ (l : List PkgRef) (db : List Installed), installSeq o st repo l db = installSeq o' st' repo l db := by
  intro l
  induction l with
  | nil => intro db; rfl
  | cons p rest ih =>
    intro db
    simp only [installSeq, h p]
    cases expandPkg o' st' repo p with
    | none => rfl
    | some x =>
      simp only
      split
      · exact ih db
      · exact ih _

/-- T `buildFromLock_option_free`: the installed database of a build from a lock (names, versions, checksums *and*
the S: sizes) does not depend on the package cache, its state, ignore-signatures or the transport. -/
theorem buildFromLock_option_free (o : Opts) (st : St) (repo : Repo) (h : StOK st repo) (lock : List LockEntry)
    (arch : Text) :
    buildFromLock o st repo lock arch = buildFromLock ⟨.off, false, false⟩ St.empty repo lock arch := by
  have he : ∀ p, expandPkg o st repo p = expandPkg ⟨.off, false, false⟩ St.empty repo p := fun p => by
    rw [expandPkg_option_free o st repo h p, expandPkg_option_free _ St.empty repo (StOK_empty repo) p]
  unfold buildFromLock installPackages expandAll
  simp only [he, installSeq_congr o _ st St.empty repo he]

/-- the installer goroutine appends exactly one record per listed package, under the listed checksum -/
theorem installSeq_exact (o : Opts) (st : St) (repo : Repo) (h : StOK st repo) :
    ∀ (l : List PkgRef) (db db' : List Installed),
      installSeq o st repo l db = some db' →
      (l.map (·.name)).Nodup → (∀ p ∈ l, ∀ i ∈ db, i.name ≠ p.name) →
      (∀ p ∈ l, ∀ s, repo p.url = some s → s.name = p.name) →
      ∃ added, db' = db ++ added ∧ added.map (·.checksum) = l.map (·.checksum) ∧ added.map (·.name) = l.map (·.name) ∧
        All2 (fun p i => ∃ s, repo p.url = some s ∧ i = installedOf (expandFresh s)) l added := by
  intro l
  induction l with
  | nil =>
    intro db db' hi _ _ _
    simp only [installSeq, Option.some.injEq] at hi
    exact ⟨[], by simp [hi], rfl, rfl, .nil⟩
  | cons p rest ih =>
    intro db db' hi hnd hfresh hname
    simp only [installSeq, expandPkg_option_free o st repo h p] at hi
    cases hf : fetchVerify repo p with
    | none => simp [hf] at hi
    | some x =>
      simp only [hf] at hi
      have hnot : db.any (fun i => i.name = p.name) = false := by
        simp only [List.any_eq_false, decide_eq_true_eq]
        intro i hi'
        exact hfresh p (List.mem_cons_self ..) i hi'
      simp only [hnot, Bool.false_eq_true, ↓reduceIte] at hi
      -- what was fetched
      unfold fetchVerify at hf
      cases hs : repo p.url with
      | none => simp [hs] at hf
      | some s =>
        simp only [hs] at hf
        split at hf
        · next hq =>
          simp only [Option.some.injEq] at hf
          subst hf
          have hn : s.name = p.name := hname p (List.mem_cons_self ..) s hs
          simp only [List.map_cons, List.nodup_cons] at hnd
          have hfresh' : ∀ q ∈ rest, ∀ i ∈ db ++ [installedOf (expandFresh s)], i.name ≠ q.name := by
            intro q hq' i hi'
            simp only [List.mem_append, List.mem_singleton] at hi'
            cases hi' with
            | inl hdb => exact hfresh q (List.mem_cons_of_mem _ hq') i hdb
            | inr heq =>
              subst heq
              intro hc
              apply hnd.1
              simp only [installedOf, expandFresh] at hc
              rw [← hn, hc]
              exact List.mem_map_of_mem hq'
          obtain ⟨added, hdb, hck, hnm, hall⟩ := ih _ db' hi hnd.2 hfresh'
            (fun q hq' => hname q (List.mem_cons_of_mem _ hq'))
          refine ⟨installedOf (expandFresh s) :: added, ?_, ?_, ?_, .cons ⟨s, hs, rfl⟩ hall⟩
          · simp [hdb]
          · simp [hck, installedOf, expandFresh, hq]
          · simp [hnm, installedOf, expandFresh, hn]
        · simp at hf

/-- the lock names each package of an architecture once (as `apko lock` emits it: one resolution per architecture) -/
def NamesOnce (lock : List LockEntry) (arch : Text) : Prop :=
  ((lock.filter (·.arch = arch)).map (·.name)).Nodup

/-- the control section of the file at a locked URL names the package the lock names (the index entry the lock was
made from and the .PKGINFO agree — both are covered by the checksum the build verifies) -/
def NamesAgree (repo : Repo) (lock : List LockEntry) : Prop :=
  ∀ e ∈ lock, ∀ s, repo e.url = some s → s.name = e.name

/-- T `buildFromLock_fails_or_exact`: a build from a lock fails, or the installed database holds exactly one record per
package the lock lists for that architecture, in the lock's order, under the locked names and checksums. -/
theorem buildFromLock_fails_or_exact (o : Opts) (st : St) (repo : Repo) (h : StOK st repo) (lock : List LockEntry)
    (arch : Text) (hn : NamesOnce lock arch) (ha : NamesAgree repo lock) (db : List Installed)
    (hb : buildFromLock o st repo lock arch = some db) :
    db.map (·.checksum) = (lock.filter (·.arch = arch)).map (·.checksum) ∧
    db.map (·.name) = (lock.filter (·.arch = arch)).map (·.name) := by
  unfold buildFromLock at hb
  simp only at hb
  split at hb
  · simp at hb
  · cases hip : installPackages o st repo ((lock.filter (·.arch = arch)).map refOfEntry) with
    | none => simp [hip] at hb
    | some db0 =>
      simp only [hip, Option.some.injEq] at hb
      subst hb
      unfold installPackages at hip
      split at hip
      · obtain ⟨added, hdb, hck, hnm, _⟩ := installSeq_exact o st repo h _ [] db0 hip
          (by simpa [NamesOnce, refOfEntry, List.map_map, Function.comp_def] using hn)
          (by intro _ _ i hi'; simp at hi')
          (by
            intro p hp s hs'
            simp only [List.mem_map] at hp
            obtain ⟨e, he, rfl⟩ := hp
            exact ha e (List.mem_filter.mp he).1 s hs')
        simp only [List.nil_append] at hdb
        subst hdb
        simp only [List.map_map, refOfEntry, Function.comp_def] at hck hnm
        exact ⟨hck, hnm⟩
      · simp at hip

/-- T `buildFromLock_fails_of_broken`: if one package the lock lists for the architecture cannot be fetched, or its
control section no longer has the locked checksum, the build fails — whatever the position of the package in the lock
and whatever was installed before it. -/
theorem buildFromLock_fails_of_broken (o : Opts) (st : St) (repo : Repo) (h : StOK st repo) (lock : List LockEntry)
    (arch : Text) (e : LockEntry) (he : e ∈ lock) (harch : e.arch = arch)
    (hbroken : fetchVerify repo (refOfEntry e) = none) :
    buildFromLock o st repo lock arch = none := by
  unfold buildFromLock installPackages
  simp only
  split
  · rfl
  · have : expandAll o st repo ((lock.filter (·.arch = arch)).map refOfEntry) = false := by
      unfold expandAll
      simp only [List.all_eq_false, List.mem_map, Bool.not_eq_true]
      refine ⟨refOfEntry e, ⟨e, ?_, rfl⟩, ?_⟩
      · exact List.mem_filter.mpr ⟨he, by simp [harch]⟩
      · rw [expandPkg_option_free o st repo h, hbroken]
        rfl
    simp [this]

/-! ### the hypotheses are satisfiable by a non-trivial value -/

def sA : Sections :=
  { sig := 141, ctl := 253, dat := 318, sigSum := "sha1-S".toList, ctlSum := "sha1-C".toList,
    datSum := "sha256-D".toList, q1 := "Q1C".toList, name := "a".toList, version := "1.0-r0".toList,
    arch := "x86_64".toList }
def pA : PkgRef := ⟨"a".toList, "1.0-r0".toList, "x86_64".toList, "/r/x86_64/a-1.0-r0.apk".toList, "Q1C".toList⟩
def repoA : Repo := fun u => if u = pA.url then some sA else none
def stWarm : St := ⟨[(pA.url, diskEntryOf sA)], [(pA.url, pA.checksum, expandFresh sA)]⟩

theorem stWarm_ok : StOK stWarm repoA := by
  constructor
  · intro u e hm
    simp only [stWarm, List.mem_singleton, Prod.mk.injEq] at hm
    exact ⟨sA, by simp [repoA, hm.1], hm.2⟩
  · intro u c x hm
    simp only [stWarm, List.mem_singleton, Prod.mk.injEq] at hm
    exact ⟨sA, by simp [repoA, hm.1], by rw [hm.2.1]; decide, hm.2.2⟩

/-- a signed package locked from a warm cache with ignore-signatures: signature `bytes=0-140`, control `bytes=141-393`,
data `bytes=394-711` -/
example : (lockFile ⟨.on, true, false⟩ stWarm repoA [[pA]]).map (·.map fun e => (e.sigRange, e.ctlRange, e.datRange)) =
    some [("bytes=0-140".toList, "bytes=141-393".toList, "bytes=394-711".toList)] := by decide

/-! ### F09k: without the cache invariant the lock depends on the state of the package cache -/

/-- the full statement: whatever state a run finds, its lock is the lock of a run without package cache -/
def LockOptionFree : Prop :=
  ∀ (o : Opts) (st : St) (repo : Repo) (archs : List (List PkgRef)),
    lockFile o st repo archs = lockFile ⟨.off, false, false⟩ St.empty repo archs

/-- the package of `sA` published again under the same URL, same control and data sections, no signature section -/
def sAunsigned : Sections := { sA with sig := 0, sigSum := [] }
def repoB : Repo := fun u => if u = pA.url then some sAunsigned else none
/-- the cache another process filled while the package was still signed -/
def stStale : St := ⟨[(pA.url, diskEntryOf sA)], []⟩

/-- the run with the package cache records the signature section the cache holds (`bytes=0-140`, control from 141), the
run without one describes the file that is there (no signature entry, control from 0); the driver's class predicate
`staleSignature` names the situation -/
theorem F09k_witness :
    (lockFile ⟨.on, false, false⟩ stStale repoB [[pA]]).map (·.map fun e => (e.sigRange, e.ctlRange)) =
      some [("bytes=0-140".toList, "bytes=141-393".toList)] ∧
    (lockFile ⟨.off, false, false⟩ St.empty repoB [[pA]]).map (·.map fun e => (e.sigRange, e.ctlRange)) =
      some [([], "bytes=0-252".toList)] ∧
    staleSignature ⟨.on, false, false⟩ stStale repoB [pA] = true := by decide

theorem stStale_not_ok : ¬ StOK stStale repoB := by
  intro h
  obtain ⟨s, hr, he⟩ := h.1 pA.url (diskEntryOf sA) (by simp [stStale])
  have hs : s = sAunsigned := by
    simp only [repoB, ↓reduceIte, Option.some.injEq] at hr
    exact hr.symm
  subst hs
  have : (diskEntryOf sA).sigFile = (diskEntryOf sAunsigned).sigFile := by rw [← he]
  revert this
  decide

theorem not_LockOptionFree : ¬ LockOptionFree := by
  intro h
  have h1 := h ⟨.on, false, false⟩ stStale repoB [[pA]]
  have h2 := F09k_witness
  rw [h1] at h2
  have := h2.1.symm.trans h2.2.1
  revert this
  decide

end Apko.C09.Glue
