import Apko.Proofs.Lemmas.FSShape
/-! # Hard links share content (reference file system)

Two names of one inode — each given as "its parent directory resolves and holds the inode under the base name" —
read what was last written through either: `WriteFile` through one name, `ReadFile` / `Stat` through the other. -/
namespace Apko.FS
open Apko Apko.Path

theorem writeAt_nil_zero (data : Text) : writeAt [] 0 data = data := by
  unfold writeAt
  by_cases h : data = []
  · simp [h]
  · have : 0 + data.length > ([] : Text).length := by
      have := List.length_pos_iff.mpr h
      simp; omega
    simp [h, zeros]

/-- opening a name whose parent resolves and holds, under the base name, a plain file (not a directory, not a
link, not package-backed) yields that very inode and changes nothing -/
theorem openFileD_existing (c : Cfg) (flag perm budget : Nat) (fs : FS) (name : Text) (pp : Pos) (i : Ino)
    (hr : resolveFrom c fs [0] (dir name) = .ok pp) (hd : (fs.node pp.ino).dir = true)
    (hl : fs.lookup pp.ino (base name) = some i) (hnd : (fs.node i).dir = false)
    (hns : (fs.node i).isSymlink = false) (hte : (fs.node i).te = none) :
    openFileD c flag perm budget fs [0] name = (fs, .ok { ino := i, rc := false, name := name, start := [0] }) := by
  unfold openFileD
  simp [hr, hd, hl, hnd, hns, hte, teLive]

/-- a content update of a plain file keeps the shape of the graph -/
theorem shape_setData (fs : FS) (i : Nat) (f : Inode → Inode)
    (hd : ∀ n, (f n).dir = n.dir) (hc : ∀ n, (f n).children = n.children)
    (hm : ∀ n, (f n).mode = n.mode) (ht : ∀ n, (f n).target = n.target) :
    ShapeEq fs (fs.setNode i (f (fs.node i))) :=
  ShapeEq.modify fs i f hd hc (by simp [Inode.isSymlink, hm]) ht

theorem oTrunc_flagsWriteFile : oTrunc flagsWriteFile = true := by decide
theorem oAppend_flagsWriteFile : oAppend flagsWriteFile = false := by decide

/-- `WriteFile(p, data)` on an existing plain file: the inode's data becomes `data`, nothing else changes -/
theorem writeFile_existing (c : Cfg) (fs : FS) (p : Text) (pp : Pos) (i : Ino) (data : Text) (perm : Nat)
    (hlive : i < fs.nodes.length)
    (hr : resolveFrom c fs [0] (dir p) = .ok pp) (hd : (fs.node pp.ino).dir = true)
    (hl : fs.lookup pp.ino (base p) = some i) (hnd : (fs.node i).dir = false)
    (hns : (fs.node i).isSymlink = false) (hte : (fs.node i).te = none) :
    step c fs (.writeFile p data perm) =
      (fs.setNode i { fs.node i with data := data, mat := true }, .ok .unit) := by
  simp only [step, openCore, openFileD_existing c _ _ _ fs p pp i hr hd hl hnd hns hte, newMemFile,
    oTrunc_flagsWriteFile, oAppend_flagsWriteFile, if_true]
  simp [FS.setNode, hlive, writeAt_nil_zero, FS.node, List.getD_eq_getElem?_getD]

/-- `ReadFile(q)` of an existing plain file returns the inode's data -/
theorem readFile_existing (c : Cfg) (fs : FS) (q : Text) (pq : Pos) (i : Ino)
    (hr : resolveFrom c fs [0] (dir q) = .ok pq) (hd : (fs.node pq.ino).dir = true)
    (hl : fs.lookup pq.ino (base q) = some i) (hnd : (fs.node i).dir = false)
    (hns : (fs.node i).isSymlink = false) (hte : (fs.node i).te = none) :
    step c fs (.readFile q) = (fs, .ok (.bytes (fs.node i).data false)) := by
  have h0 : oTrunc 0 = false := by decide
  have h1 : oAppend 0 = false := by decide
  simp [step, openCore, openFileD_existing c _ _ _ fs q pq i hr hd hl hnd hns hte, newMemFile, h0, h1, handleData]

/-- **write through one name, read through the other** -/
theorem write_read_shared (c : Cfg) (fs : FS) (p q : Text) (pp pq : Pos) (i : Ino) (data : Text) (perm : Nat)
    (hlive : i < fs.nodes.length)
    (hp : resolveFrom c fs [0] (dir p) = .ok pp) (hpd : (fs.node pp.ino).dir = true)
    (hpl : fs.lookup pp.ino (base p) = some i)
    (hq : resolveFrom c fs [0] (dir q) = .ok pq) (hqd : (fs.node pq.ino).dir = true)
    (hql : fs.lookup pq.ino (base q) = some i)
    (hnd : (fs.node i).dir = false) (hns : (fs.node i).isSymlink = false) (hte : (fs.node i).te = none) :
    (step c fs (.writeFile p data perm)).2 = .ok .unit ∧
    (step c (step c fs (.writeFile p data perm)).1 (.readFile q)).2 = .ok (.bytes data false) := by
  rw [writeFile_existing c fs p pp i data perm hlive hp hpd hpl hnd hns hte]
  refine ⟨rfl, ?_⟩
  have hsh : ShapeEq fs (fs.setNode i { fs.node i with data := data, mat := true }) :=
    shape_setData fs i (fun n => { n with data := data, mat := true }) (fun _ => rfl) (fun _ => rfl) (fun _ => rfl) (fun _ => rfl)
  have hni : (fs.setNode i { fs.node i with data := data, mat := true }).node i = { fs.node i with data := data, mat := true } :=
    node_setNode_same fs i _ hlive
  have hq2 := (resolveFrom_shape hsh c [0] (dir q)).trans hq
  have hqd2 : ((fs.setNode i { fs.node i with data := data, mat := true }).node pq.ino).dir = true := by
    rw [hsh.dir]; exact hqd
  have hql2 : (fs.setNode i { fs.node i with data := data, mat := true }).lookup pq.ino (base q) = some i := by
    simp only [FS.lookup, hsh.children]; exact hql
  rw [readFile_existing c _ q pq i hq2 hqd2 hql2 (by rw [hni]; exact hnd) (by rw [hsh.sym]; exact hns) (by rw [hni]; exact hte)]
  simp [hni]

/-- … and `Stat` through the other name reports the new size -/
theorem write_stat_shared (c : Cfg) (fs : FS) (p q : Text) (pp : Pos) (i : Ino) (data : Text) (perm : Nat)
    (hlive : i < fs.nodes.length)
    (hp : resolveFrom c fs [0] (dir p) = .ok pp) (hpd : (fs.node pp.ino).dir = true)
    (hpl : fs.lookup pp.ino (base p) = some i) (hq : getNode c fs q = .ok i)
    (hnd : (fs.node i).dir = false) (hns : (fs.node i).isSymlink = false) (hte : (fs.node i).te = none) :
    ∃ s, (step c (step c fs (.writeFile p data perm)).1 (.stat q)).2 = .ok (.stat s) ∧ s.size = data.length := by
  rw [writeFile_existing c fs p pp i data perm hlive hp hpd hpl hnd hns hte]
  have hsh : ShapeEq fs (fs.setNode i { fs.node i with data := data, mat := true }) :=
    shape_setData fs i (fun n => { n with data := data, mat := true }) (fun _ => rfl) (fun _ => rfl) (fun _ => rfl) (fun _ => rfl)
  have hni : (fs.setNode i { fs.node i with data := data, mat := true }).node i = { fs.node i with data := data, mat := true } :=
    node_setNode_same fs i _ hlive
  have hq2 := (getNode_shape hsh c q).trans hq
  refine ⟨_, by simp only [step, hq2]; rfl, ?_⟩
  rw [hni]
  simp [statOf, effectiveSize, hte]

end Apko.FS
