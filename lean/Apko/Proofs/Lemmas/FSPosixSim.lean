import Apko.Proofs.Lemmas.FSPosixRel
/-! Impl resolution against POSIX resolution, part 3: the simulation for **arbitrary (relative and
absolute) dot-free link targets**.

Impl looks a relative target up as `traversed ++ parts target` from the root.  Walking `traversed` again
reaches the directory that holds the link (`Sync`: the lookup is deterministic, `walkL_mono`) — but the
links among `traversed` are counted again and the nesting budget is one smaller.  Hence Impl's counter is
never below the Spec's, and the only way the two answers differ is that Impl runs out of budget first
(`getL_sim`, `getNode_upto_loop`): **Impl = Spec, or Impl = `ELOOP`**. -/
namespace Apko.FS
open Apko Apko.Path

theorem walkL_append (fs : FS) (recur : Option (List Name → Nat → Except Err (Ino × Nat))) :
    ∀ (ps qs : List Name) (node : Ino) (tr : List Name) (cnt : Nat),
      walkL fs recur (ps ++ qs) node tr cnt =
        match walkL fs recur ps node tr cnt with
        | .error e => .error e
        | .ok (n', cnt') => walkL fs recur qs n' (tr ++ ps) cnt' := by
  intro ps
  induction ps with
  | nil => intro qs node tr cnt; simp [walkL]
  | cons part rest ih =>
    intro qs node tr cnt
    simp only [List.cons_append]
    by_cases hd : (fs.node node).dir = true
    · cases hl : fs.lookup node part with
      | none => rw [walkL_none hd hl, walkL_none hd hl]
      | some child =>
        by_cases hs : (fs.node child).isSymlink = true
        · rw [walkL_link hd hl hs, walkL_link hd hl hs]
          by_cases hc : cnt + 1 > maxLinks
          · simp [hc]
          · simp only [hc, if_false]
            cases recur with
            | none => rfl
            | some r =>
              simp only []
              cases r (linkList tr (fs.node child).target) (cnt + 1) with
              | error e => rfl
              | ok v =>
                obtain ⟨tn, cnt'⟩ := v
                simp only []
                rw [ih]; simp [List.append_assoc]
        · have hs' : (fs.node child).isSymlink = false := by simpa using hs
          rw [walkL_plain hd hl hs', walkL_plain hd hl hs', ih]; simp [List.append_assoc]
    · have hd' : (fs.node node).dir = false := by simpa using hd
      rw [walkL_notdir hd', walkL_notdir hd']

/-- the answer is `ELOOP`, or `node` with a counter not below `c` -/
def LoopOr (r : Except Err (Ino × Nat)) (node : Ino) (c : Nat) : Prop :=
  r = .error .loop ∨ ∃ c', c ≤ c' ∧ r = .ok (node, c')

/-- **the lookup is deterministic up to the budget**: a lookup that succeeded, repeated with another nesting
budget and another value of the counter, reaches the same node or runs out of budget -/
theorem walkL_mono_aux {fs : FS} (d1 : Nat)
    (ih : ∀ e, d1 = e + 1 → ∀ (ps : List Name) (c1 : Nat) (n : Ino) (c1' : Nat), getL fs e ps c1 = .ok (n, c1') →
      ∀ d2 c2, LoopOr (getL fs d2 ps c2) n c2) :
    ∀ (ps : List Name) (node : Ino) (trav : List Name) (c1 : Nat) (n : Ino) (c1' : Nat),
      walkL fs (recL fs d1) ps node trav c1 = .ok (n, c1') →
      ∀ d2 c2, LoopOr (walkL fs (recL fs d2) ps node trav c2) n c2 := by
  intro ps
  induction ps with
  | nil =>
    intro node trav c1 n c1' h d2 c2
    simp only [walkL, Except.ok.injEq, Prod.mk.injEq] at h
    exact Or.inr ⟨c2, Nat.le_refl _, by simp [walkL, h.1]⟩
  | cons part rest ihp =>
    intro node trav c1 n c1' h d2 c2
    by_cases hd : (fs.node node).dir = true
    · cases hl : fs.lookup node part with
      | none => rw [walkL_none hd hl] at h; cases h
      | some child =>
        by_cases hs : (fs.node child).isSymlink = true
        · rw [walkL_link hd hl hs] at h ⊢
          by_cases hc1 : c1 + 1 > maxLinks
          · simp [hc1] at h
          · simp only [hc1, if_false] at h
            cases d1 with
            | zero => simp [recL] at h
            | succ e =>
              simp only [recL] at h
              cases hr : getL fs e (linkList trav (fs.node child).target) (c1 + 1) with
              | error err => simp [hr] at h
              | ok v =>
                obtain ⟨tn, c1''⟩ := v
                simp only [hr] at h
                by_cases hc2 : c2 + 1 > maxLinks
                · exact Or.inl (by simp [hc2])
                · simp only [hc2, if_false]
                  cases d2 with
                  | zero => exact Or.inl (by simp [recL])
                  | succ e2 =>
                    have hsub := ih e rfl _ _ _ _ hr e2 (c2 + 1)
                    rcases hsub with hloop | ⟨c', hle, hok⟩
                    · exact Or.inl (by simp [recL, hloop])
                    · have := ihp tn (trav ++ [part]) c1'' n c1' h (e2 + 1) c'
                      rcases this with hl2 | ⟨c'', hle2, hok2⟩
                      · exact Or.inl (by simp only [recL, hok]; exact hl2)
                      · exact Or.inr ⟨c'', by omega, by simp only [recL, hok]; exact hok2⟩
        · have hs' : (fs.node child).isSymlink = false := by simpa using hs
          rw [walkL_plain hd hl hs'] at h ⊢
          exact ihp _ _ _ _ _ h d2 c2
    · have hd' : (fs.node node).dir = false := by simpa using hd
      rw [walkL_notdir hd'] at h; cases h

theorem getL_mono {fs : FS} : ∀ (d1 : Nat) (ps : List Name) (c1 : Nat) (n : Ino) (c1' : Nat),
    getL fs d1 ps c1 = .ok (n, c1') → ∀ d2 c2, LoopOr (getL fs d2 ps c2) n c2 := by
  intro d1
  induction d1 with
  | zero =>
    intro ps c1 n c1' h d2 c2
    rw [getL_eq] at h ⊢
    exact walkL_mono_aux 0 (fun e he => by omega) _ _ _ _ _ _ h d2 c2
  | succ d ih =>
    intro ps c1 n c1' h d2 c2
    rw [getL_eq] at h ⊢
    exact walkL_mono_aux (d + 1) (fun e he => by cases he; exact ih) _ _ _ _ _ _ h d2 c2

/-! ### the traversed prefix leads to the current node -/

/-- looking the traversed prefix up again (with any budget, from any counter) reaches `node`, or runs out
of budget -/
def Sync (fs : FS) (trav : List Name) (node : Ino) : Prop := ∀ d c, LoopOr (getL fs d trav c) node c

theorem Sync.nil (fs : FS) : Sync fs [] 0 := by
  intro d c
  exact Or.inr ⟨c, Nat.le_refl _, by rw [getL_eq]; simp [walkL]⟩

theorem Sync.plain {fs : FS} {trav : List Name} {node child : Ino} {part : Name} (h : Sync fs trav node)
    (hd : (fs.node node).dir = true) (hl : fs.lookup node part = some child)
    (hs : (fs.node child).isSymlink = false) : Sync fs (trav ++ [part]) child := by
  intro d c
  rw [getL_eq, walkL_append]
  have := h d c
  rw [getL_eq] at this
  rcases this with hloop | ⟨c', hle, hok⟩
  · exact Or.inl (by rw [hloop])
  · refine Or.inr ⟨c', hle, ?_⟩
    rw [hok]
    simp only [List.nil_append]
    rw [walkL_plain hd hl hs]; simp [walkL]

theorem Sync.link {fs : FS} {trav : List Name} {node child tn : Ino} {part : Name} {e c0 c0' : Nat}
    (h : Sync fs trav node) (hd : (fs.node node).dir = true) (hl : fs.lookup node part = some child)
    (hs : (fs.node child).isSymlink = true)
    (hget : getL fs e (linkList trav (fs.node child).target) c0 = .ok (tn, c0')) :
    Sync fs (trav ++ [part]) tn := by
  intro d c
  rw [getL_eq, walkL_append]
  have := h d c
  rw [getL_eq] at this
  rcases this with hloop | ⟨c', hle, hok⟩
  · exact Or.inl (by rw [hloop])
  · rw [hok]
    simp only [List.nil_append]
    rw [walkL_link hd hl hs]
    by_cases hc : c' + 1 > maxLinks
    · exact Or.inl (by simp [hc])
    · simp only [hc, if_false]
      cases d with
      | zero => exact Or.inl (by simp [recL])
      | succ d =>
        rcases getL_mono _ _ _ _ _ hget d (c' + 1) with hl2 | ⟨c'', hle2, hok2⟩
        · exact Or.inl (by simp [recL, hl2])
        · exact Or.inr ⟨c'', by omega, by simp [recL, hok2, walkL]⟩

/-! ### step equations of the POSIX walk on ordinary names -/

theorem walkPosix_notdir {fs : FS} {recur} {part : Name} {rest : List Name} {st : List Ino} {cnt : Nat}
    (hd : (fs.node (st.headD 0)).dir = false) : walkPosix fs recur (part :: rest) st cnt = .error .notExist := by
  simp only [walkPosix, hd, Bool.not_false, if_true]

theorem walkPosix_none {fs : FS} {recur} {part : Name} {rest : List Name} {st : List Ino} {cnt : Nat}
    (hp : part ≠ dot ∧ part ≠ dotdot)
    (hd : (fs.node (st.headD 0)).dir = true) (hl : fs.lookup (st.headD 0) part = none) :
    walkPosix fs recur (part :: rest) st cnt = .error .notExist := by
  simp only [walkPosix, hd, hl, hp.1, hp.2, Bool.not_true, Bool.false_eq_true, if_false]

theorem walkPosix_plain {fs : FS} {recur} {part : Name} {rest : List Name} {st : List Ino} {child : Ino}
    {cnt : Nat} (hp : part ≠ dot ∧ part ≠ dotdot)
    (hd : (fs.node (st.headD 0)).dir = true) (hl : fs.lookup (st.headD 0) part = some child)
    (hs : (fs.node child).isSymlink = false) :
    walkPosix fs recur (part :: rest) st cnt = walkPosix fs recur rest (child :: st) cnt := by
  simp only [walkPosix, hd, hl, hs, hp.1, hp.2, Bool.not_true, Bool.false_eq_true, if_false]

theorem walkPosix_link {fs : FS} {recur} {part : Name} {rest : List Name} {st : List Ino} {child : Ino}
    {cnt : Nat} (hp : part ≠ dot ∧ part ≠ dotdot)
    (hd : (fs.node (st.headD 0)).dir = true) (hl : fs.lookup (st.headD 0) part = some child)
    (hs : (fs.node child).isSymlink = true) :
    walkPosix fs recur (part :: rest) st cnt =
      if cnt + 1 > maxLinks then .error .loop else
      match recur with
      | none => .error .loop
      | some r =>
        match r (if isAbs (fs.node child).target then [0] else st) (parts (fs.node child).target) (cnt + 1) with
        | .error e => .error e
        | .ok (st', cnt') => walkPosix fs recur rest st' cnt' := by
  simp only [walkPosix, hd, hl, hs, hp.1, hp.2, Bool.not_true, Bool.false_eq_true, if_false, if_true]
  rfl

/-! ### the simulation -/

/-- Impl's answer against the Spec's: `ELOOP`, or the same error, or the same node with a counter that is
not below the Spec's -/
def Upto : Except Err (Ino × Nat) → Except Err (List Ino × Nat) → Prop
  | .error e, .error e' => e = .loop ∨ e = e'
  | .error e, .ok _ => e = .loop
  | .ok r, .ok r' => r'.1.headD 0 = r.1 ∧ r'.2 ≤ r.2
  | .ok _, .error _ => False

theorem Upto.loop (x : Except Err (List Ino × Nat)) : Upto (.error .loop) x := by
  cases x <;> simp [Upto]

theorem walk_sim_aux {fs : FS} (hnd : ∀ i : Nat, NoDots (parts (fs.node i).target)) (d : Nat)
    (ih : ∀ e, d = e + 1 → ∀ (ps : List Name) (node : Ino) (trav : List Name) (st : List Ino) (ci cs : Nat),
      NoDots ps → st.headD 0 = node → cs ≤ ci → Sync fs trav node →
      Upto (walkL fs (recL fs e) ps node trav ci) (walkPosix fs (recS fs e) ps st cs)) :
    ∀ (ps : List Name) (node : Ino) (trav : List Name) (st : List Ino) (ci cs : Nat),
      NoDots ps → st.headD 0 = node → cs ≤ ci → Sync fs trav node →
      Upto (walkL fs (recL fs d) ps node trav ci) (walkPosix fs (recS fs d) ps st cs) := by
  intro ps
  induction ps with
  | nil =>
    intro node trav st ci cs _ hst hle _
    simp only [walkL, walkPosix, Upto]
    exact ⟨hst, hle⟩
  | cons part rest ihp =>
    intro node trav st ci cs hps hst hle hsync
    subst hst
    have hp := hps part List.mem_cons_self
    by_cases hd : (fs.node (st.headD 0)).dir = true
    · cases hl : fs.lookup (st.headD 0) part with
      | none => rw [walkL_none hd hl, walkPosix_none hp hd hl]; exact Or.inr rfl
      | some child =>
        by_cases hs : (fs.node child).isSymlink = true
        · rw [walkL_link hd hl hs, walkPosix_link hp hd hl hs]
          by_cases hci : ci + 1 > maxLinks
          · simp only [hci, if_true]; exact Upto.loop _
          · have hcs : ¬ cs + 1 > maxLinks := by omega
            simp only [hci, hcs, if_false]
            cases d with
            | zero => exact Upto.loop _
            | succ e =>
              simp only [recL, recS]
              -- the nested lookups
              have key : Upto (getL fs e (linkList trav (fs.node child).target) (ci + 1))
                  (resolvePosixD fs e (if isAbs (fs.node child).target then [0] else st)
                    (parts (fs.node child).target) (cs + 1)) := by
                rw [getL_eq, resolvePosixD_eq]
                unfold linkList
                by_cases ha : isAbs (fs.node child).target = true
                · simp only [ha, if_true]
                  exact ih e rfl _ 0 [] [0] _ _ (hnd child) rfl (by omega) (Sync.nil fs)
                · simp only [ha, Bool.false_eq_true, if_false]
                  rw [walkL_append]
                  have := hsync e (ci + 1)
                  rw [getL_eq] at this
                  rcases this with hloop | ⟨c', hle', hok⟩
                  · rw [hloop]; exact Upto.loop _
                  · rw [hok]
                    simp only [List.nil_append]
                    exact ih e rfl _ _ trav st _ _ (hnd child) rfl (by omega) hsync
              revert key
              cases hgi : getL fs e (linkList trav (fs.node child).target) (ci + 1) with
              | error ei =>
                cases resolvePosixD fs e (if isAbs (fs.node child).target then [0] else st)
                    (parts (fs.node child).target) (cs + 1) with
                | error es => intro key; exact key
                | ok r' =>
                  intro key
                  simp only [Upto] at key
                  subst key
                  exact Upto.loop _
              | ok r =>
                cases resolvePosixD fs e (if isAbs (fs.node child).target then [0] else st)
                    (parts (fs.node child).target) (cs + 1) with
                | error es => intro key; exact absurd key (by simp [Upto])
                | ok r' =>
                  intro key
                  obtain ⟨tn, c1⟩ := r
                  obtain ⟨st', c1'⟩ := r'
                  simp only [Upto] at key
                  exact ihp tn (trav ++ [part]) st' c1 c1' hps.tail key.1 key.2 (hsync.link hd hl hs hgi)
        · have hs' : (fs.node child).isSymlink = false := by simpa using hs
          rw [walkL_plain hd hl hs', walkPosix_plain hp hd hl hs']
          exact ihp child (trav ++ [part]) (child :: st) ci cs hps.tail (by simp) hle (hsync.plain hd hl hs')
    · have hd' : (fs.node (st.headD 0)).dir = false := by simpa using hd
      rw [walkL_notdir hd', walkPosix_notdir hd']; exact Or.inr rfl

theorem walk_sim {fs : FS} (hnd : ∀ i : Nat, NoDots (parts (fs.node i).target)) :
    ∀ (d : Nat) (ps : List Name) (node : Ino) (trav : List Name) (st : List Ino) (ci cs : Nat),
      NoDots ps → st.headD 0 = node → cs ≤ ci → Sync fs trav node →
      Upto (walkL fs (recL fs d) ps node trav ci) (walkPosix fs (recS fs d) ps st cs) := by
  intro d
  induction d with
  | zero => exact walk_sim_aux hnd 0 (fun e he => by omega)
  | succ d ih => exact walk_sim_aux hnd (d + 1) (fun e he => by cases he; exact ih)

/-- **Impl against the Spec, relative targets included** -/
theorem getL_sim {fs : FS} (hnd : ∀ i : Nat, NoDots (parts (fs.node i).target)) (d : Nat) (ps : List Name)
    (cnt : Nat) (hps : NoDots ps) : Upto (getL fs d ps cnt) (resolvePosixD fs d [0] ps cnt) := by
  rw [getL_eq, resolvePosixD_eq]
  exact walk_sim hnd d ps 0 [] [0] cnt cnt hps rfl (Nat.le_refl _) (Sync.nil fs)

/-- **Impl = Spec or Impl = `ELOOP`**, on dot-free paths in states with dot-free link targets -/
theorem getNode_upto_loop {ci cs : Cfg} (hi : ci.posix = false) (hs : cs.posix = true) {fs : FS}
    (hnd : ∀ i : Nat, NoDots (parts (fs.node i).target)) (p : Text) (hp : NoDots (parts p)) :
    getNode ci fs p = getNode cs fs p ∨ getNode ci fs p = .error .loop := by
  have h := getL_sim hnd (maxLinks + 1) (parts p) 0 hp
  rw [← getNodeD_eq_getL hnd _ p 0 hp] at h
  simp only [getNode, resolveFrom, hi, hs, Bool.false_eq_true, if_false, if_true, ite_self]
  revert h
  cases getNodeD fs (maxLinks + 1) p 0 with
  | error e =>
    cases resolvePosixD fs (maxLinks + 1) [0] (parts p) 0 with
    | error e' =>
      intro h; simp only [Upto] at h
      rcases h with h | h
      · exact Or.inr (by rw [h]; rfl)
      · exact Or.inl (by rw [h])
    | ok r' => intro h; simp only [Upto] at h; exact Or.inr (by rw [h]; rfl)
  | ok r =>
    cases resolvePosixD fs (maxLinks + 1) [0] (parts p) 0 with
    | error e' => intro h; exact absurd h (by simp [Upto])
    | ok r' =>
      intro h
      simp only [Upto] at h
      exact Or.inl (by simpa [Except.map] using h.1.symm)

end Apko.FS
