import Apko.Proofs.Lemmas.TarWFReach
/-! The guard `opTarOK` is forced: for every conjunct, the node the operation makes (or, for `Chmod`, one of
two nodes it may be applied to) is not `nodeOK` when the conjunct fails. -/
namespace Apko.Tar
open Apko Apko.Path Apko.FS

/-- `OpenFile(O_CREATE)` / `WriteFile`: the new node is `nodeOK` iff the permission argument has no type bit —
or is, of all things, a complete character-device mode (the one case where `opTarOK` asks for more than the
invariant needs) -/
theorem nodeOK_newFile_iff (perm : Nat) :
    nodeOK { mode := perm } = true ↔
      noTypeBits perm = true ∨
      (perm.testBit 31 = false ∧ perm.testBit 27 = false ∧ perm.testBit 26 = true ∧ perm.testBit 21 = true) := by
  rw [nodeOK_plain _ rfl rfl]
  unfold noTypeBits obsKind isRegularMode Inode.isSymlink
  simp only []
  generalize perm.testBit 31 = b31
  generalize perm.testBit 27 = b27
  generalize perm.testBit 26 = b26
  generalize perm.testBit 25 = b25
  generalize perm.testBit 24 = b24
  generalize perm.testBit 21 = b21
  generalize perm.testBit 19 = b19
  cases b31 <;> cases b27 <;> cases b26 <;> cases b25 <;> cases b24 <;> cases b21 <;> cases b19 <;> simp

/-- `Mknod`: the new node is `nodeOK` iff the mode argument carries neither bit 31 nor bit 27 -/
theorem nodeOK_newDev_iff (mode ma mi : Nat) (mt : Int) :
    nodeOK { mode := mode ||| modeCharDevice ||| modeDevice, major := ma, minor := mi, mtime := mt } = true ↔
      mode.testBit 31 = false ∧ mode.testBit 27 = false := by
  constructor
  · intro h
    rw [nodeOK_plain _ rfl rfl] at h
    have b31 : (mode ||| modeCharDevice ||| modeDevice).testBit 31 = mode.testBit 31 := by
      simp only [Nat.testBit_or]
      simp [show modeCharDevice.testBit 31 = false by decide, show modeDevice.testBit 31 = false by decide]
    have b27 : (mode ||| modeCharDevice ||| modeDevice).testBit 27 = mode.testBit 27 := by
      simp only [Nat.testBit_or]
      simp [show modeCharDevice.testBit 27 = false by decide, show modeDevice.testBit 27 = false by decide]
    have b21 : (mode ||| modeCharDevice ||| modeDevice).testBit 21 = true := by
      simp only [Nat.testBit_or]; simp [show modeCharDevice.testBit 21 = true by decide]
    revert h
    unfold obsKind Inode.isSymlink
    simp only [b31, b27, b21]
    generalize mode.testBit 31 = c31
    generalize mode.testBit 27 = c27
    cases c31 <;> cases c27 <;> simp
  · rintro ⟨h1, h2⟩; exact nodeOK_newDev mode ma mi mt h1 h2

/-- `tarfs.writeHeader`: the node entered for a `'0'` / `'2'` header is `nodeOK` iff `hdrTarOK` -/
theorem nodeOK_hdrNode_iff (h : Hdr) (sum : Text) (hty : h.typeflag = 48 ∨ h.typeflag = 50) :
    nodeOK { mode := hdrMode h, mtime := h.mtime, target := h.linkname,
             te := some { content := h.content, size := h.size, checksum := sum, pkgName := h.pkgName,
                          pkgOrigin := h.pkgOrigin, pkgReplaces := h.pkgReplaces } } = true ↔
      hdrTarOK h = true := by
  constructor
  · intro hn
    have b31 := hdrMode_testBit_hi h 31 (by omega)
    have b27 := hdrMode_testBit_hi h 27 (by omega)
    unfold nodeOK at hn
    simp only [Bool.and_eq_true] at hn
    obtain ⟨⟨⟨_, h4⟩, h5⟩, _⟩ := hn
    have hsz : h.size = h.content.length := by simpa using h5
    unfold hdrTarOK
    rcases hty with ht | ht
    · simp [ht, hsz]
    · have e : (if h.typeflag = 50 then modeSymlink else if h.typeflag = 53 then modeDir else 0) = modeSymlink := by
        simp [ht]
      have s27 : (hdrMode h).testBit 27 = true := by rw [b27, e]; decide
      simp only [Inode.isSymlink, s27, Bool.not_true, Bool.false_or, Bool.and_eq_true, decide_eq_true_eq] at h4
      simp [ht, hsz, h4.2]
  · intro hg
    obtain ⟨hlink, hsz⟩ := hdrTarOK_spec h hg
    exact nodeOK_hdrNode h _ hty hlink (hsz hty)

theorem typeKeep_testBit_or (old perm k : Nat) (hk : modeType.testBit k = true) :
    (typeKeep old perm).testBit k = (perm.testBit k || old.testBit k) := by
  simp [typeKeep, Nat.testBit_or, Nat.testBit_and, hk]

/-- `Chmod`: a permission argument with any type bit breaks `nodeOK` of the root directory or of a plain
regular file — so no weaker guard that does not look at the state will do -/
theorem chmod_guard_exact (perm : Nat) (h : noTypeBits perm = false) :
    nodeOK { rootInode with mode := typeKeep rootInode.mode perm } = false ∨
    nodeOK { (default : Inode) with mode := typeKeep (default : Inode).mode perm } = false := by
  have r : ∀ k, modeType.testBit k = true →
      (typeKeep rootInode.mode perm).testBit k = (perm.testBit k || rootInode.mode.testBit k) :=
    fun k hk => typeKeep_testBit_or _ _ k hk
  have d : ∀ k, modeType.testBit k = true →
      (typeKeep (default : Inode).mode perm).testBit k = (perm.testBit k || (default : Inode).mode.testBit k) :=
    fun k hk => typeKeep_testBit_or _ _ k hk
  rw [nodeOK_plain _ rfl rfl, nodeOK_plain _ rfl rfl]
  revert h
  unfold noTypeBits obsKind isRegularMode Inode.isSymlink
  simp only [r 31 (by decide), r 27 (by decide), r 26 (by decide), r 25 (by decide), r 24 (by decide),
    r 21 (by decide), r 19 (by decide), d 31 (by decide), d 27 (by decide), d 26 (by decide), d 25 (by decide),
    d 24 (by decide), d 21 (by decide), d 19 (by decide),
    show rootInode.mode.testBit 31 = true by decide, show rootInode.mode.testBit 27 = false by decide,
    show rootInode.mode.testBit 26 = false by decide, show rootInode.mode.testBit 25 = false by decide,
    show rootInode.mode.testBit 24 = false by decide, show rootInode.mode.testBit 21 = false by decide,
    show rootInode.mode.testBit 19 = false by decide,
    show (default : Inode).mode.testBit 31 = false by decide, show (default : Inode).mode.testBit 27 = false by decide,
    show (default : Inode).mode.testBit 26 = false by decide, show (default : Inode).mode.testBit 25 = false by decide,
    show (default : Inode).mode.testBit 24 = false by decide, show (default : Inode).mode.testBit 21 = false by decide,
    show (default : Inode).mode.testBit 19 = false by decide,
    show rootInode.dir = true by rfl, show (default : Inode).dir = false by rfl,
    show rootInode.target = [] by rfl, show (default : Inode).target = [] by rfl]
  generalize perm.testBit 31 = b31
  generalize perm.testBit 27 = b27
  generalize perm.testBit 26 = b26
  generalize perm.testBit 25 = b25
  generalize perm.testBit 24 = b24
  generalize perm.testBit 21 = b21
  generalize perm.testBit 19 = b19
  cases b31 <;> cases b27 <;> cases b26 <;> cases b25 <;> cases b24 <;> cases b21 <;> cases b19 <;> simp

end Apko.Tar
