/-
Lemmas about `stringToIdentifier` (C11).  Everything about which bytes are left alone is proved over
`Generated.sbomValidIdBytes`, the table recomputed from spdx.go's regex literal on every run.
-/
import Apko.Model.Sbom

namespace Apko.Sbom
open Apko

/-- the regenerated table only contains bytes of the SPDX identifier alphabet … -/
theorem table_sound : ∀ n ∈ Generated.sbomValidIdBytes, idChar (Char.ofNat n) = true ∧ n < 256 := by
  decide

/-- the 75 bytes of `[a-zA-Z0-9.-]`, written out -/
def alphabetBytes : List Nat :=
  [45, 46] ++ (List.range 10).map (· + 48) ++ (List.range 26).map (· + 65) ++ (List.range 26).map (· + 97)

/-- … and all of them: the table is exactly `[a-zA-Z0-9.-]` -/
theorem table_has_alphabet : ∀ n ∈ alphabetBytes, n ∈ Generated.sbomValidIdBytes := by decide

theorem ofNat_toNat (c : Char) : Char.ofNat c.toNat = c := Char.ofNat_toNat c

theorem idChar_mem_alphabet {c : Char} (h : idChar c = true) : c.toNat ∈ alphabetBytes := by
  simp only [idChar, isAlnum, isDigit, isLower, isUpper, Bool.or_eq_true, Bool.and_eq_true,
    decide_eq_true_eq] at h
  have hle : ∀ {a b : Char}, a ≤ b → a.toNat ≤ b.toNat := fun h => h
  simp only [alphabetBytes, List.mem_append, List.mem_map, List.mem_range, List.mem_cons,
    List.not_mem_nil, or_false]
  rcases h with ((((h | h) | h) | h) | h)
  · have h1 := hle h.1; have h2 := hle h.2; simp at h1 h2
    left; left; right; exact ⟨c.toNat - 48, by omega, by omega⟩
  · have h1 := hle h.1; have h2 := hle h.2; simp at h1 h2
    right; exact ⟨c.toNat - 97, by omega, by omega⟩
  · have h1 := hle h.1; have h2 := hle h.2; simp at h1 h2
    left; right; exact ⟨c.toNat - 65, by omega, by omega⟩
  · subst h; left; left; left; right; decide
  · subst h; left; left; left; left; decide

theorem tableValid_idChar {c : Char} (h : tableValid c = true) : idChar c = true := by
  unfold tableValid at h
  have hm : c.toNat ∈ Generated.sbomValidIdBytes := by simpa using h
  have := (table_sound _ hm).1
  rwa [ofNat_toNat] at this

theorem idChar_tableValid {c : Char} (h : idChar c = true) : tableValid c = true := by
  unfold tableValid
  have := table_has_alphabet _ (idChar_mem_alphabet h)
  simpa using this

theorem tableValid_iff (c : Char) : tableValid c = idChar c := by
  cases h : idChar c
  · cases h' : tableValid c
    · rfl
    · rw [tableValid_idChar h'] at h; cases h
  · exact idChar_tableValid h

theorem isDigit_idChar {c : Char} (h : c.isDigit = true) : idChar c = true := by
  simp only [Char.isDigit, Bool.and_eq_true, decide_eq_true_eq] at h
  simp only [idChar, isAlnum, isDigit, Bool.or_eq_true, Bool.and_eq_true, decide_eq_true_eq]
  left; left; left; left
  exact ⟨h.1, h.2⟩

theorem escapeByte_idChar (c : Char) : ∀ x ∈ escapeByte c, idChar x = true := by
  intro x hx
  simp only [escapeByte, List.mem_cons] at hx
  rcases hx with h | h
  · subst h; decide
  · exact isDigit_idChar (Nat.isDigit_of_mem_toDigits (by decide) (by decide) h)

theorem idByte_idChar (c : Char) : ∀ x ∈ idByte c, idChar x = true := by
  intro x hx
  have key : ∀ c' : Char, x ∈ (if tableValid c' = true then [c'] else escapeByte c') → idChar x = true := by
    intro c' h
    split at h
    · next hv =>
      simp only [List.mem_singleton] at h
      subst h
      exact tableValid_idChar hv
    · exact escapeByte_idChar _ x h
  exact key _ hx

/-- **id_alphabet** — every character of `stringToIdentifier s` is in `[a-zA-Z0-9.-]`, for every `s` -/
theorem sti_alphabet (s : Text) : ∀ x ∈ stringToIdentifier s, idChar x = true := by
  induction s with
  | nil => simp [stringToIdentifier]
  | cons c cs ih =>
    intro x hx
    simp only [stringToIdentifier, List.mem_append] at hx
    rcases hx with h | h
    · exact idByte_idChar c x h
    · exact ih x h

theorem sti_append (a b : Text) :
    stringToIdentifier (a ++ b) = stringToIdentifier a ++ stringToIdentifier b := by
  induction a with
  | nil => simp [stringToIdentifier]
  | cons c cs ih => simp [stringToIdentifier, ih]

theorem sti_cons (c : Char) (s : Text) : stringToIdentifier (c :: s) = idByte c ++ stringToIdentifier s := rfl

theorem colon_not_idChar : idChar ':' = false := by decide

theorem idByte_of_idChar {c : Char} (h : idChar c = true) : idByte c = [c] := by
  have hc : c ≠ ':' := by
    intro e; subst e; rw [colon_not_idChar] at h; cases h
  simp [idByte, hc, idChar_tableValid h]

/-- the sanitiser is the identity on strings over the identifier alphabet -/
theorem sti_of_all_idChar {s : Text} (h : ∀ x ∈ s, idChar x = true) : stringToIdentifier s = s := by
  induction s with
  | nil => rfl
  | cons c cs ih =>
    rw [sti_cons, idByte_of_idChar (h c (by simp)), ih (fun x hx => h x (by simp [hx]))]
    rfl

/-- **id_idempotent** -/
theorem sti_idempotent (s : Text) : stringToIdentifier (stringToIdentifier s) = stringToIdentifier s :=
  sti_of_all_idChar (sti_alphabet s)

theorem pfx_idChar : ∀ x ∈ pfx, idChar x = true := by decide

theorem sti_pfx : stringToIdentifier pfx = pfx := sti_of_all_idChar pfx_idChar

theorem sti_pfx_append (s : Text) : stringToIdentifier (pfx ++ s) = pfx ++ stringToIdentifier s := by
  rw [sti_append, sti_pfx]

theorem pfx_eq : pfx = "SPDXRef-".toList ++ "Package-".toList := by decide

theorem stripPrefix_self_append (p r : Text) : stripPrefix p (p ++ r) = some r :=
  stripPrefix_eq_some.mpr rfl

theorem package_idChar : ∀ x ∈ "Package-".toList, idChar x = true := by decide

/-- a string `SPDXRef-Package-` ++ (identifier characters) is a syntactically valid SPDX id -/
theorem validSpdxId_pfx {s : Text} (h : ∀ x ∈ s, idChar x = true) : validSpdxId (pfx ++ s) = true := by
  unfold validSpdxId
  rw [pfx_eq, List.append_assoc, stripPrefix_self_append]
  simp only [Bool.and_eq_true, Bool.not_eq_true', List.all_eq_true, List.mem_append]
  refine ⟨by simp, ?_⟩
  intro x hx
  rcases hx with hx | hx
  · exact package_idChar x hx
  · exact h x hx

end Apko.Sbom
