/-
Helper lemmas for C16: split/join, decimal printing and parsing, the line scanner.
-/
import Apko.Model.Formats

namespace Apko.Formats
open Apko

/-! ## strings.Split ∘ strings.Join -/

theorem splitOnChar_append_sep (sep : Char) (a rest : Text) (h : sep ∉ a) :
    splitOnChar sep (a ++ sep :: rest) = a :: splitOnChar sep rest := by
  induction a with
  | nil => simp [splitOnChar]
  | cons c a ih =>
    have hc : c ≠ sep := fun e => h (by simp [e])
    have ha : sep ∉ a := fun m => h (by simp [m])
    simp [splitOnChar, hc, ih ha]

theorem splitOnChar_no_sep (sep : Char) (a : Text) (h : sep ∉ a) : splitOnChar sep a = [a] := by
  induction a with
  | nil => simp [splitOnChar]
  | cons c a ih =>
    have hc : c ≠ sep := fun e => h (by simp [e])
    have ha : sep ∉ a := fun m => h (by simp [m])
    simp [splitOnChar, hc, ih ha]

theorem splitOnChar_joinWith (sep : Char) (l : List Text) (hne : l ≠ []) (h : ∀ a ∈ l, sep ∉ a) :
    splitOnChar sep (joinWith [sep] l) = l := by
  induction l with
  | nil => exact absurd rfl hne
  | cons a l ih =>
    cases l with
    | nil => simpa [joinWith] using splitOnChar_no_sep sep a (h a (by simp))
    | cons b rest =>
      have h1 : sep ∉ a := h a (by simp)
      have h2 : ∀ x ∈ b :: rest, sep ∉ x := fun x hx => h x (by simp [hx])
      have := ih (by simp) h2
      simp only [joinWith, List.append_assoc, List.singleton_append]
      rw [splitOnChar_append_sep sep a _ h1, this]

/-! ## %d and strconv -/

def valLsd : List Nat → Nat
  | [] => 0
  | d :: ds => d + 10 * valLsd ds

theorem valLsd_lsd : ∀ (fuel n : Nat), n < fuel → valLsd (lsd fuel n) = n := by
  intro fuel
  induction fuel with
  | zero => intro n h; omega
  | succ f ih =>
    intro n h
    simp only [lsd]
    by_cases h0 : n / 10 = 0
    · simp [h0, valLsd]; omega
    · simp only [h0, if_false, valLsd]
      rw [ih (n / 10) (by omega)]; omega

theorem lsd_lt : ∀ (fuel n : Nat), ∀ d ∈ lsd fuel n, d < 10 := by
  intro fuel
  induction fuel with
  | zero => intro n d h; simp [lsd] at h
  | succ f ih =>
    intro n d h
    simp only [lsd, List.mem_cons] at h
    rcases h with h | h
    · omega
    · by_cases h0 : n / 10 = 0
      · simp [h0] at h
      · simp only [h0, if_false] at h; exact ih _ d h

theorem lsd_ne_nil (f n : Nat) : lsd (f + 1) n ≠ [] := by simp [lsd]

theorem digitChar_toNat : ∀ (d : Nat), d < 10 → (digitChar d).toNat = 48 + d
  | 0, _ => rfl | 1, _ => rfl | 2, _ => rfl | 3, _ => rfl | 4, _ => rfl
  | 5, _ => rfl | 6, _ => rfl | 7, _ => rfl | 8, _ => rfl | 9, _ => rfl
  | n + 10, h => absurd h (by omega)

theorem isDigitB_digitChar (d : Nat) (h : d < 10) : isDigitB 10 (digitChar d) = true := by
  simp [isDigitB, digitChar_toNat d h]; omega

theorem digitsToNatB_rev (ds : List Nat) (h : ∀ d ∈ ds, d < 10) :
    digitsToNatB 10 (ds.reverse.map digitChar) = valLsd ds := by
  unfold digitsToNatB
  rw [List.foldl_map, List.foldl_reverse]
  induction ds with
  | nil => rfl
  | cons d ds ih =>
    have hd := digitChar_toNat d (h d (by simp))
    have := ih (fun x hx => h x (by simp [hx]))
    simp only [List.foldr_cons, valLsd, this, hd]; omega

theorem natToDec_ne_nil (n : Nat) : natToDec n ≠ [] := by
  simp [natToDec, lsd_ne_nil]

theorem natToDec_digits (n : Nat) : ∀ c ∈ natToDec n, isDigitB 10 c = true := by
  intro c hc
  simp only [natToDec, List.mem_map, List.mem_reverse] at hc
  obtain ⟨d, hd, rfl⟩ := hc
  exact isDigitB_digitChar d (lsd_lt _ _ d hd)

theorem digitsToNatB_natToDec (n : Nat) : digitsToNatB 10 (natToDec n) = n := by
  unfold natToDec
  rw [digitsToNatB_rev _ (lsd_lt _ _), valLsd_lsd _ _ (by omega)]

theorem parseUintB_natToDec (n : Nat) (h : n < 2 ^ 64) : parseUintB 10 (natToDec n) = some n := by
  unfold parseUintB
  have h1 := natToDec_ne_nil n
  have h2 : (natToDec n).all (isDigitB 10) = true := List.all_eq_true.mpr (natToDec_digits n)
  simp [h1, h2, digitsToNatB_natToDec, h]

theorem natToDec_cons (n : Nat) : ∃ c r, natToDec n = c :: r ∧ isDigitB 10 c = true := by
  cases hn : natToDec n with
  | nil => exact absurd hn (natToDec_ne_nil n)
  | cons c r => exact ⟨c, r, rfl, natToDec_digits n c (by simp [hn])⟩

theorem parseIntB_of_digit (c : Char) (r : Text) (h : isDigitB 10 c = true) :
    parseIntB 10 (c :: r) =
      (parseUintB 10 (c :: r)).bind fun n => if n < 2 ^ 63 then some (Int.ofNat n) else none := by
  unfold parseIntB
  split
  · next heq => injection heq with h1 _; subst h1; exact absurd h (by decide)
  · next heq => injection heq with h1 _; subst h1; exact absurd h (by decide)
  · rfl

theorem parseIntB_intToDec (i : Int) (h1 : -(2 ^ 63) ≤ i) (h2 : i < 2 ^ 63) :
    parseIntB 10 (intToDec i) = some i := by
  unfold intToDec
  by_cases hneg : i < 0
  · simp only [hneg, if_true]
    have hn : (-i).toNat ≤ 2 ^ 63 := by omega
    simp only [parseIntB]
    rw [parseUintB_natToDec _ (by omega)]
    simp only [Option.bind_some, hn, if_true]
    congr 1
    have : Int.ofNat (-i).toNat = -i := Int.toNat_of_nonneg (by omega)
    omega
  · simp only [hneg, if_false]
    obtain ⟨c, r, hcr, hc⟩ := natToDec_cons i.toNat
    have hn : i.toNat < 2 ^ 63 := by omega
    rw [hcr, parseIntB_of_digit c r hc, ← hcr, parseUintB_natToDec _ (by omega)]
    simp only [Option.bind_some, hn, if_true]
    congr 1
    exact Int.toNat_of_nonneg (by omega)

/-! ## the line scanner -/

theorem rawLinesAux_line (acc l rest : Text) (h : '\n' ∉ l) :
    rawLinesAux acc (l ++ '\n' :: rest) = (acc.reverse ++ l) :: rawLinesAux [] rest := by
  induction l generalizing acc with
  | nil => simp [rawLinesAux]
  | cons c l ih =>
    have hc : c ≠ '\n' := fun e => h (by simp [e])
    have hl : '\n' ∉ l := fun m => h (by simp [m])
    simp [rawLinesAux, hc, ih (c :: acc) hl]

theorem rawLines_unlines (ls : List Text) (h : ∀ l ∈ ls, '\n' ∉ l) : rawLines (unlines ls) = ls := by
  induction ls with
  | nil => simp [rawLines, unlines, rawLinesAux]
  | cons l ls ih =>
    have := ih (fun x hx => h x (by simp [hx]))
    simp only [rawLines, unlines, List.flatMap_cons, List.append_assoc, List.singleton_append] at *
    rw [rawLinesAux_line [] l _ (h l (by simp))]
    simp [this]

theorem dropCR_id (l : Text) (h : '\r' ∉ l) : dropCR l = l := by
  unfold dropCR
  split
  · next r heq =>
    exfalso; apply h
    have : '\r' ∈ l.reverse := by rw [heq]; simp
    simpa using this
  · rfl

theorem lineSafe_iff (t : Text) : lineSafe t = true ↔ '\n' ∉ t ∧ '\r' ∉ t := by
  unfold lineSafe
  rw [List.all_eq_true]
  constructor
  · intro h
    constructor
    · intro m; have := h _ m; simp at this
    · intro m; have := h _ m; simp at this
  · intro ⟨h1, h2⟩ c hc
    have a : c ≠ '\n' := fun e => h1 (e ▸ hc)
    have b : c ≠ '\r' := fun e => h2 (e ▸ hc)
    simp [a, b]

theorem takeWhile_all {α : Type} (p : α → Bool) (l : List α) (h : ∀ a ∈ l, p a = true) : l.takeWhile p = l := by
  induction l with
  | nil => rfl
  | cons a l ih => simp [List.takeWhile, h a (by simp), ih (fun x hx => h x (by simp [hx]))]

theorem map_id_of {α : Type} (f : α → α) (l : List α) (h : ∀ a ∈ l, f a = a) : l.map f = l := by
  induction l with
  | nil => rfl
  | cons a l ih => simp [h a (by simp), ih (fun x hx => h x (by simp [hx]))]

/-- the scanner returns exactly the written lines when they are line-safe and fit the buffer -/
theorem scanLines_unlines (max : Nat) (ls : List Text) (hs : ∀ l ∈ ls, lineSafe l = true)
    (hf : linesFit max ls = true) : scanLines max (unlines ls) = (ls, false) := by
  have hn : ∀ l ∈ ls, '\n' ∉ l := fun l hl => ((lineSafe_iff l).mp (hs l hl)).1
  have hr : ∀ l ∈ ls, '\r' ∉ l := fun l hl => ((lineSafe_iff l).mp (hs l hl)).2
  unfold scanLines
  rw [rawLines_unlines ls hn]
  have hfit : ∀ l ∈ ls, (decide (l.length < max)) = true := by
    intro l hl; exact (List.all_eq_true.mp hf) l hl
  simp only [takeWhile_all _ ls hfit, map_id_of dropCR ls (fun l hl => dropCR_id l (hr l hl))]
  simp

end Apko.Formats
