/-
C05, round 2 — helper lemmas about the lazy installer (`writeEntry` / `installNodes` / `install`) and the lazy tar FS
(`tarLookup` / `tarOpen`) of `Apko/Model/Authentic.lean`.
-/
import Apko.Model.Authentic

namespace Apko.C05
open Apko Apko.Authentic

/-! ### element-wise relation of two lists (requests of an operation ↔ their outcomes) -/

inductive Pointwise {α β : Type} (R : α → β → Prop) : List α → List β → Prop
  | nil : Pointwise R [] []
  | cons {a b as bs} : R a b → Pointwise R as bs → Pointwise R (a :: as) (b :: bs)

/-- what `Pointwise` says: same length, and the i-th elements are related for every i -/
theorem Pointwise.spec {α β : Type} {R : α → β → Prop} {l : List α} {l' : List β} (h : Pointwise R l l') :
    l.length = l'.length ∧ ∀ (i : Nat) a b, l[i]? = some a → l'[i]? = some b → R a b := by
  induction h with
  | nil => exact ⟨rfl, by intro i a b h; simp at h⟩
  | cons hab _ ih =>
    refine ⟨by simp [ih.1], ?_⟩
    intro i a b ha hb
    cases i with
    | zero =>
      simp only [List.getElem?_cons_zero, Option.some.injEq] at ha hb
      subst ha; subst hb; exact hab
    | succ j =>
      simp only [List.getElem?_cons_succ] at ha hb
      exact ih.2 j a b ha hb

/-! ### nodes -/

theorem findNode_mem (n : Text) (ns : List Node) (nd : Node) (h : findNode n ns = some nd) : nd ∈ ns := by
  induction ns with
  | nil => simp [findNode] at h
  | cons a r ih =>
    simp only [findNode] at h
    split at h
    · cases h; exact List.mem_cons_self
    · exact List.mem_cons_of_mem _ (ih h)

theorem findNode_filter_ne (n m : Text) (ns : List Node) (h : n ≠ m) :
    findNode n (ns.filter (fun x => x.name ≠ m)) = findNode n ns := by
  induction ns with
  | nil => rfl
  | cons a r ih =>
    by_cases ha : a.name = m
    · have : (a :: r).filter (fun x => x.name ≠ m) = r.filter (fun x => x.name ≠ m) := by simp [List.filter, ha]
      rw [this, ih]
      simp only [findNode]
      rw [if_neg]
      rw [ha]; exact fun x => h x.symm
    · have : (a :: r).filter (fun x => x.name ≠ m) = a :: r.filter (fun x => x.name ≠ m) := by simp [List.filter, ha]
      rw [this]
      simp only [findNode]
      rw [ih]

/-- `place` only touches the name of the node it places -/
theorem findNode_place_other (ns : List Node) (nd : Node) (n : Text) (h : n ≠ nd.name) :
    findNode n (place ns nd) = findNode n ns := by
  have h' : ¬ nd.name = n := fun x => h x.symm
  unfold place
  split
  · simp only [findNode, if_neg h']
  · split
    · rfl
    · simp only [findNode, if_neg h']
      exact findNode_filter_ne n nd.name ns h

/-- `WriteHeader` of an entry only touches the node of that entry's name -/
theorem findNode_writeEntry_other (ns ns1 : List Node) (x : Entry) (n : Text) (h : writeEntry ns x = some ns1)
    (hn : n ≠ x.name) : findNode n ns1 = findNode n ns := by
  have hn' : ¬ x.name = n := fun e => hn e.symm
  unfold writeEntry at h
  split at h
  · split at h
    · split at h
      · cases h; rfl
      · cases h
    · cases h; rfl
  · cases h; exact findNode_place_other ns _ n hn
  · split at h
    · split at h
      · cases h; rfl
      · cases h; exact findNode_place_other ns _ n hn
    · cases h; exact findNode_place_other ns _ n hn
  · split at h
    · split at h
      · cases h
      · cases h
        simp only [findNode, if_neg hn']
    · cases h
  · cases h

/-- a node that holds file content was created from a regular entry `e` of the data section that carries a record;
it reads by that entry's name, `own` is that entry's body and `sum` its record; NO entry processed after `e` has
that name; and the name is (still) the name of a file node -/
def NodeInv (done : List Entry) (ns : List Node) (nd : Node) : Prop :=
  nd.isLink = false →
    ∃ pre e post, done = pre ++ e :: post ∧ e.kind = .reg ∧ e.name = nd.teName ∧ e.body = nd.own ∧
      e.recorded = .sum nd.sum ∧ (∀ x ∈ post, x.name ≠ nd.teName) ∧
      ∃ ex, findNode nd.teName ns = some ex ∧ ex.isLink = false

/-- two non-directory entries at different positions of a data section with distinct non-directory names -/
theorem names_sep (pre post rest : List Entry) (e x : Entry)
    (hn : namesNodup (pre ++ e :: post ++ x :: rest) = true) (he : e.kind ≠ .dir) (hx : x.kind ≠ .dir) :
    e.name ≠ x.name := by
  simp only [namesNodup, decide_eq_true_eq] at hn
  have he' : decide (e.kind ≠ .dir) = true := by simpa using he
  have hx' : decide (x.kind ≠ .dir) = true := by simpa using hx
  simp only [List.append_assoc, List.cons_append, List.filter_append, List.filter_cons, he', hx', if_true,
    List.map_append, List.map_cons] at hn
  have h2 := (List.nodup_append.1 hn).2.1
  have h3 := (List.nodup_cons.1 h2).1
  intro heq
  apply h3
  rw [heq]
  simp

/-- one `WriteHeader`: the invariant moves from the entries processed so far to those plus the new one -/
theorem writeEntry_inv (done rest : List Entry) (x : Entry) (ns ns1 : List Node)
    (hn : namesNodup (done ++ x :: rest) = true)
    (hinv : ∀ nd ∈ ns, NodeInv done ns nd) (h : writeEntry ns x = some ns1) :
    ∀ nd ∈ ns1, NodeInv (done ++ [x]) ns1 nd := by
  -- the new entry does not take the name any existing file node reads by
  have hfresh : ∀ nd ∈ ns, nd.isLink = false → x.name ≠ nd.teName := by
    intro nd hnd hl heq
    obtain ⟨pre, e, post, hd, hk, hname, _, _, _, ex, hex, hexl⟩ := hinv nd hnd hl
    by_cases hxd : x.kind = .dir
    · -- a directory over the name of a file node: `WriteHeader` fails
      unfold writeEntry at h
      rw [hxd] at h
      simp only at h
      rw [heq, hex] at h
      simp [hexl] at h
    · -- a second non-directory entry of that name: excluded by `namesNodup`
      rw [hd] at hn
      have := names_sep pre post rest e x (by simpa [List.append_assoc] using hn) (by rw [hk]; decide) hxd
      exact this (by rw [hname, heq])
  -- an old node keeps its invariant
  have hold : ∀ nd ∈ ns, nd ∈ ns1 → NodeInv (done ++ [x]) ns1 nd := by
    intro nd hnd _ hl
    obtain ⟨pre, e, post, hd, hk, hname, hbody, hrec, hpost, ex, hex, hexl⟩ := hinv nd hnd hl
    have hne := hfresh nd hnd hl
    refine ⟨pre, e, post ++ [x], by rw [hd]; simp, hk, hname, hbody, hrec, ?_, ex, ?_, hexl⟩
    · intro y hy
      rcases List.mem_append.1 hy with hy | hy
      · exact hpost y hy
      · rw [List.mem_singleton.1 hy]; exact hne
    · rw [findNode_writeEntry_other ns ns1 x nd.teName h (fun e => hne e.symm)]; exact hex
  -- a regular entry that was placed: the invariant of its node
  have hnewReg : ∀ d, x.kind = .reg → x.recorded = .sum d → ∀ (tl : List Node),
      NodeInv (done ++ [x]) ({ name := x.name, teName := x.name, sum := d, own := x.body, isLink := false, link := [] } :: tl)
        { name := x.name, teName := x.name, sum := d, own := x.body, isLink := false, link := [] } := by
    intro d hk hr tl _
    refine ⟨done, x, [], rfl, hk, rfl, rfl, hr, ?_, ?_⟩
    · intro y hy; cases hy
    · exact ⟨{ name := x.name, teName := x.name, sum := d, own := x.body, isLink := false, link := [] },
        by simp [findNode], rfl⟩
  have hplace : ∀ (nd0 : Node), (nd0.isLink = false → ∀ tl, NodeInv (done ++ [x]) (nd0 :: tl) nd0) →
      place ns nd0 = ns1 → ∀ nd ∈ ns1, NodeInv (done ++ [x]) ns1 nd := by
    intro nd0 hnd0 hres nd hmem
    unfold place at hres
    cases hf : findNode nd0.name ns with
    | none =>
      rw [hf] at hres
      simp only at hres
      subst hres
      rcases List.mem_cons.1 hmem with rfl | hm
      · intro hl; exact hnd0 hl ns hl
      · exact hold nd hm hmem
    | some ex =>
      rw [hf] at hres
      simp only at hres
      by_cases hs : ex.sum = nd0.sum
      · rw [if_pos hs] at hres; subst hres; exact hold nd hmem hmem
      · rw [if_neg hs] at hres
        subst hres
        rcases List.mem_cons.1 hmem with rfl | hm
        · intro hl; exact hnd0 hl _ hl
        · exact hold nd (List.mem_filter.1 hm).1 hmem
  intro nd hmem
  have h0 := h
  unfold writeEntry at h
  split at h
  · -- directory
    split at h
    · split at h
      · cases h; exact hold nd hmem hmem
      · cases h
    · cases h; exact hold nd hmem hmem
  · -- regular file with a record
    next hk hr =>
    simp only [Option.some.injEq] at h
    exact hplace _ (fun _ tl => hnewReg _ hk hr tl) h nd hmem
  · -- symlink with a record: a link node needs nothing
    have hlink : ∀ (nd0 : Node), nd0.isLink = true → nd0.isLink = false → ∀ tl, NodeInv (done ++ [x]) (nd0 :: tl) nd0 := by
      intro nd0 h1 h2; rw [h1] at h2; cases h2
    split at h
    · split at h
      · cases h; exact hold nd hmem hmem
      · simp only [Option.some.injEq] at h; exact hplace _ (hlink _ rfl) h nd hmem
    · simp only [Option.some.injEq] at h; exact hplace _ (hlink _ rfl) h nd hmem
  · -- hard link: a second name for an existing file node
    split at h
    · next t ht hnone =>
      split at h
      · cases h
      · next htl =>
        cases h
        rcases List.mem_cons.1 hmem with rfl | hmem'
        · have htl' : t.isLink = false := by simpa using htl
          have htm := findNode_mem _ _ _ ht
          intro _
          obtain ⟨pre, e, post, hd, hk, hname, hbody, hrec, hpost, ex, hex, hexl⟩ := hinv t htm htl'
          have hne := hfresh t htm htl'
          refine ⟨pre, e, post ++ [x], by rw [hd]; simp, hk, hname, hbody, hrec, ?_, ex, ?_, hexl⟩
          · intro y hy
            rcases List.mem_append.1 hy with hy | hy
            · exact hpost y hy
            · rw [List.mem_singleton.1 hy]; exact hne
          · show findNode t.teName ({ t with name := x.name, alias := true } :: ns) = some ex
            simp only [findNode, if_neg hne]
            exact hex
        · exact hold nd hmem' hmem
    · cases h
  · cases h

theorem writeEntry_writable (ns ns' : List Node) (e : Entry) (h : writeEntry ns e = some ns') : writable e = true := by
  unfold writeEntry at h
  unfold writable
  cases hk : e.kind <;> cases hr : e.recorded <;> simp [hk, hr] at h ⊢

theorem installNodes_writable (l : List Entry) (ns ns' : List Node) (h : installNodes ns l = some ns') :
    l.all writable = true := by
  induction l generalizing ns with
  | nil => rfl
  | cons e r ih =>
    simp only [installNodes] at h
    split at h
    · cases h
    · next ns1 hw =>
      simp only [List.all_cons, Bool.and_eq_true]
      exact ⟨writeEntry_writable ns ns1 e hw, ih ns1 h⟩

theorem installNodes_inv (es : List Entry) (hn : namesNodup es = true) (l done : List Entry) (ns ns' : List Node)
    (hes : es = done ++ l) (hinv : ∀ nd ∈ ns, NodeInv done ns nd) (h : installNodes ns l = some ns') :
    ∀ nd ∈ ns', NodeInv es ns' nd := by
  induction l generalizing done ns with
  | nil =>
    simp only [installNodes] at h
    cases h
    rw [hes, List.append_nil]
    exact hinv
  | cons x r ih =>
    simp only [installNodes] at h
    split at h
    · cases h
    · next ns1 hw =>
      have h1 := writeEntry_inv done r x ns ns1 (by rw [← hes]; exact hn) hinv hw
      exact ih (done ++ [x]) ns1 (by rw [hes]; simp) h1 h

/-- whatever `rejectDup` is: the old necessary condition (`installFiles`: every installable entry is representable
and recorded) holds -/
theorem install_writable (rd : Bool) (es : List Entry) (ns : List Node) (h : install rd es = some ns) :
    installFiles es = true := by
  unfold install at h
  split at h
  · cases h
  · exact installNodes_writable (installable es) [] ns h

/-- the repaired installer: non-directory names are distinct and every node satisfies the invariant for the WHOLE
data section -/
theorem install_spec (es : List Entry) (ns : List Node) (h : install true es = some ns) :
    namesNodup es = true ∧ ∀ nd ∈ ns, NodeInv es ns nd := by
  unfold install at h
  split at h
  · cases h
  · next hc =>
    have hn : namesNodup es = true := by
      cases hnn : namesNodup es with
      | true => rfl
      | false => simp [hnn] at hc
    refine ⟨hn, ?_⟩
    have hes : es = es.takeWhile hidden ++ installable es := by
      unfold installable; exact (List.takeWhile_append_dropWhile (p := hidden) (l := es)).symm
    exact installNodes_inv es hn (installable es) (es.takeWhile hidden) [] ns hes (by intro nd hnd; cases hnd) h

/-! ### the lazy tar FS -/

/-- an entry after which nothing has its name is what the index holds for that name -/
theorem tarLookup_last (pre post : List Entry) (e : Entry) (hpost : ∀ x ∈ post, x.name ≠ e.name) :
    tarLookup (pre ++ e :: post) e.name = some e := by
  unfold tarLookup
  rw [List.reverse_append, List.reverse_cons, List.append_assoc, List.find?_append]
  have : post.reverse.find? (fun x => x.name = e.name) = none := by
    rw [List.find?_eq_none]
    intro x hx
    simpa using hpost x (List.mem_reverse.1 hx)
  rw [this]
  simp

/-- … and the by-name read of a regular one yields that very entry's body -/
theorem tarOpen_last (pre post : List Entry) (e : Entry) (hpost : ∀ x ∈ post, x.name ≠ e.name) (hk : e.kind = .reg)
    (fuel : Nat) : tarOpen (pre ++ e :: post) (fuel + 1) e.name = some e.body := by
  simp only [tarOpen, tarLookup_last pre post e hpost, hk]

end Apko.C05
