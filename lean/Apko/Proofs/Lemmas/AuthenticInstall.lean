/-
C05, round 2 — helper lemmas about the lazy installer (`writeEntry` / `installNodes` / `install`) and the lazy tar FS
(`tarLookup` / `tarOpen`) of `Apko/Model/Authentic.lean`.
-/
import Apko.Model.Authentic

namespace Apko.C05
open Apko Apko.Authentic

/-! ### element-wise relation of two lists (requests of an operation ↔ their outcomes) -/

inductive Pointwise {α β : Type} (R : α → β → Prop) : List α → List β → Prop
  | nil : Pointwise R [] []
  | cons {a b as bs} : R a b → Pointwise R as bs → Pointwise R (a :: as) (b :: bs)

/-- what `Pointwise` says: same length, and the i-th elements are related for every i -/
theorem Pointwise.spec {α β : Type} {R : α → β → Prop} {l : List α} {l' : List β} (h : Pointwise R l l') :
    l.length = l'.length ∧ ∀ (i : Nat) a b, l[i]? = some a → l'[i]? = some b → R a b := by
  induction h with
  | nil => exact ⟨rfl, by intro i a b h; simp at h⟩
  | cons hab _ ih =>
    refine ⟨by simp [ih.1], ?_⟩
    intro i a b ha hb
    cases i with
    | zero =>
      simp only [List.getElem?_cons_zero, Option.some.injEq] at ha hb
      subst ha; subst hb; exact hab
    | succ j =>
      simp only [List.getElem?_cons_succ] at ha hb
      exact ih.2 j a b ha hb

/-! ### nodes -/

theorem mem_place (ns : List Node) (nd x : Node) (h : x ∈ place ns nd) : x = nd ∨ x ∈ ns := by
  unfold place at h
  split at h
  · rcases List.mem_cons.1 h with h | h
    · exact Or.inl h
    · exact Or.inr h
  · split at h
    · exact Or.inr h
    · rcases List.mem_cons.1 h with h | h
      · exact Or.inl h
      · exact Or.inr (List.mem_filter.1 h).1

theorem findNode_mem (n : Text) (ns : List Node) (nd : Node) (h : findNode n ns = some nd) : nd ∈ ns := by
  induction ns with
  | nil => simp [findNode] at h
  | cons a r ih =>
    simp only [findNode] at h
    split at h
    · cases h; exact List.mem_cons_self
    · exact List.mem_cons_of_mem _ (ih h)

/-- a node that holds file content was created from a regular entry of the data section that carries a record;
it reads by that entry's name, `own` is that entry's body and `sum` its record -/
def NodeOk (es : List Entry) (nd : Node) : Prop :=
  nd.isLink = false →
    ∃ e ∈ es, e.kind = .reg ∧ e.name = nd.teName ∧ e.body = nd.own ∧ e.recorded = .sum nd.sum

theorem writeEntry_nodeOk (es : List Entry) (ns ns' : List Node) (e : Entry) (he : e ∈ es)
    (hinv : ∀ nd ∈ ns, NodeOk es nd) (h : writeEntry ns e = some ns') : ∀ nd ∈ ns', NodeOk es nd := by
  unfold writeEntry at h
  split at h
  · -- directory
    cases h; exact hinv
  · -- regular file with a record
    next hk hr =>
    cases h
    intro nd hnd
    rcases mem_place _ _ _ hnd with rfl | hnd
    · intro _; exact ⟨e, he, hk, rfl, rfl, hr⟩
    · exact hinv nd hnd
  · -- symlink with a record
    next hk hr =>
    have hnew : ∀ d, NodeOk es { name := e.name, teName := e.name, sum := d, own := e.body, isLink := true, link := e.link } := by
      intro d hl; cases hl
    split at h
    · split at h
      · cases h; exact hinv
      · cases h
        intro nd hnd
        rcases mem_place _ _ _ hnd with rfl | hnd
        · exact hnew _
        · exact hinv nd hnd
    · cases h
      intro nd hnd
      rcases mem_place _ _ _ hnd with rfl | hnd
      · exact hnew _
      · exact hinv nd hnd
  · -- hard link: a second name for an existing file node
    split at h
    · next t ht _ =>
      split at h
      · cases h
      · cases h
        intro nd hnd
        rcases List.mem_cons.1 hnd with rfl | hnd
        · have := hinv t (findNode_mem _ _ _ ht)
          intro hl
          exact this hl
        · exact hinv nd hnd
    · cases h
  · cases h

theorem writeEntry_writable (ns ns' : List Node) (e : Entry) (h : writeEntry ns e = some ns') : writable e = true := by
  unfold writeEntry at h
  unfold writable
  cases hk : e.kind <;> cases hr : e.recorded <;> simp [hk, hr] at h ⊢

theorem installNodes_spec (es : List Entry) (l : List Entry) (ns ns' : List Node) (hl : ∀ e ∈ l, e ∈ es)
    (hinv : ∀ nd ∈ ns, NodeOk es nd) (h : installNodes ns l = some ns') :
    (∀ nd ∈ ns', NodeOk es nd) ∧ l.all writable = true := by
  induction l generalizing ns with
  | nil => simp only [installNodes] at h; cases h; exact ⟨hinv, rfl⟩
  | cons e r ih =>
    simp only [installNodes] at h
    split at h
    · cases h
    · next ns1 hw =>
      have h1 := writeEntry_nodeOk es ns ns1 e (hl e List.mem_cons_self) hinv hw
      obtain ⟨h2, h3⟩ := ih ns1 (fun x hx => hl x (List.mem_cons_of_mem _ hx)) h1 h
      refine ⟨h2, ?_⟩
      simp only [List.all_cons, Bool.and_eq_true]
      exact ⟨writeEntry_writable ns ns1 e hw, h3⟩

/-- whatever `rejectDup` is: the nodes come from regular entries with a record, and the old necessary condition
(`installFiles`: every installable entry is representable and recorded) holds -/
theorem install_spec (rd : Bool) (es : List Entry) (ns : List Node) (h : install rd es = some ns) :
    (∀ nd ∈ ns, NodeOk es nd) ∧ installFiles es = true ∧ (rd = true → namesNodup es = true) := by
  unfold install at h
  split at h
  · cases h
  · next hc =>
    have hsub : ∀ e ∈ installable es, e ∈ es := fun e he => (List.dropWhile_suffix hidden).subset he
    obtain ⟨h1, h2⟩ := installNodes_spec es (installable es) [] ns hsub (by intro nd hnd; cases hnd) h
    refine ⟨h1, h2, ?_⟩
    intro hrd
    subst hrd
    cases hn : namesNodup es with
    | true => rfl
    | false => simp [hn] at hc

/-! ### the lazy tar FS -/

theorem find_reverse_of_nodup (es : List Entry) (e : Entry) (hn : (es.map (·.name)).Nodup) (he : e ∈ es) :
    es.reverse.find? (fun x => x.name = e.name) = some e := by
  induction es with
  | nil => cases he
  | cons a r ih =>
    simp only [List.map_cons, List.nodup_cons] at hn
    rw [List.reverse_cons, List.find?_append]
    rcases List.mem_cons.1 he with rfl | her
    · -- `e` is the head: nothing in the tail has its name
      have : r.reverse.find? (fun x => x.name = e.name) = none := by
        rw [List.find?_eq_none]
        intro x hx hxe
        have hxr : x ∈ r := List.mem_reverse.1 hx
        exact hn.1 (List.mem_map.2 ⟨x, hxr, by simpa using hxe⟩)
      rw [this]
      simp [List.find?]
    · rw [ih hn.2 her]; rfl

theorem tarLookup_of_nodup (es : List Entry) (e : Entry) (hn : namesNodup es = true) (he : e ∈ es) :
    tarLookup es e.name = some e := by
  unfold tarLookup
  exact find_reverse_of_nodup es e (by simpa [namesNodup] using hn) he

/-- with distinct names the by-name read of a regular entry yields that very entry's body -/
theorem tarOpen_of_nodup (es : List Entry) (e : Entry) (hn : namesNodup es = true) (he : e ∈ es) (hk : e.kind = .reg)
    (fuel : Nat) : tarOpen es (fuel + 1) e.name = some e.body := by
  simp only [tarOpen, tarLookup_of_nodup es e hn he, hk]

end Apko.C05
