import Apko.Model.FS
/-! Loop detection: a successful lookup follows at most `maxLinks` links in total. -/
namespace Apko.FS
open Apko Apko.Path

/-- what a counted lookup guarantees about its traversal counter -/
def CountOK (cnt c' : Nat) : Prop := cnt ≤ c' ∧ (c' ≤ maxLinks ∨ c' = cnt)

theorem walkImpl_count (fs : FS) (recur : Option (Text → Nat → Except Err (Ino × Nat)))
    (hr : ∀ f, recur = some f → ∀ t c i c', f t c = .ok (i, c') → CountOK c c') :
    ∀ (ps : List Name) (node : Ino) (tr : List Name) (cnt : Nat) (i : Ino) (c' : Nat),
      walkImpl fs recur ps node tr cnt = .ok (i, c') → CountOK cnt c' := by
  intro ps
  induction ps with
  | nil =>
    intro node tr cnt i c' h
    simp [walkImpl] at h
    exact ⟨by omega, Or.inr h.2.symm⟩
  | cons part rest ih =>
    intro node tr cnt i c' h
    unfold walkImpl at h
    simp only [] at h
    repeat' split at h
    all_goals (try (cases h; done))
    · have h1 := hr _ rfl _ _ _ _ (by assumption)
      have h2 := ih _ _ _ _ _ h
      unfold CountOK at *
      omega
    · exact ih _ _ _ _ _ h

theorem getNodeD_count (fs : FS) :
    ∀ (d : Nat) (path : Text) (cnt : Nat) (i : Ino) (c' : Nat),
      getNodeD fs d path cnt = .ok (i, c') → CountOK cnt c' := by
  intro d
  induction d with
  | zero =>
    intro path cnt i c' h
    unfold getNodeD at h
    split at h
    · simp at h; exact ⟨by omega, Or.inr h.2.symm⟩
    · exact walkImpl_count fs none (by intro f hf; cases hf) _ _ _ _ _ _ h
  | succ d ih =>
    intro path cnt i c' h
    unfold getNodeD at h
    split at h
    · simp at h; exact ⟨by omega, Or.inr h.2.symm⟩
    · exact walkImpl_count fs _ (by intro f hf; cases hf; exact ih) _ _ _ _ _ _ h

end Apko.FS
