/-
Helper lemmas for C09 (Proofs/C09.lean): `sort.Strings` as `mergeSort`, association-list maps, and the
accumulator invariant of `unify`'s loop over the architectures.
-/
import Apko.Model.Lock

namespace Apko.Lock
open Apko Apko.Resolver

/-! ### sort.Strings -/

def leT (a b : Text) : Bool := !decide (b < a)

theorem leT_trans (a b c : Text) (h1 : leT a b = true) (h2 : leT b c = true) : leT a c = true := by
  simp only [leT, Bool.not_eq_true', decide_eq_false_iff_not] at *
  exact List.le_trans (l₁ := a) (l₂ := b) (l₃ := c) h1 h2

theorem leT_total (a b : Text) : (leT a b || leT b a) = true := by
  have := List.le_total a b
  simp only [leT, Bool.or_eq_true, Bool.not_eq_true', decide_eq_false_iff_not]
  exact this

theorem leT_antisymm (a b : Text) (h1 : leT a b = true) (h2 : leT b a = true) : a = b := by
  simp only [leT, Bool.not_eq_true', decide_eq_false_iff_not] at *
  exact List.le_antisymm (as := a) (bs := b) h1 h2

theorem sortS_def (l : List Text) : sortS l = l.mergeSort leT := rfl

theorem sortS_perm (l : List Text) : (sortS l).Perm l := List.mergeSort_perm l _

theorem mem_sortS {a : Text} {l : List Text} : a ∈ sortS l ↔ a ∈ l := (sortS_perm l).mem_iff

theorem sortS_pairwise (l : List Text) : (sortS l).Pairwise (fun a b => leT a b = true) :=
  List.pairwise_mergeSort leT_trans leT_total l

/-- the output of `sort.Strings` is ascending (byte-wise `≤`) -/
theorem sortS_sorted (l : List Text) : (sortS l).Pairwise (fun a b => a ≤ b) :=
  (sortS_pairwise l).imp (fun {a b} h => by
    have h' : ¬ b < a := by simpa only [leT, Bool.not_eq_true', decide_eq_false_iff_not] using h
    exact h')

/-- sorting forgets the order of its input -/
theorem sortS_congr {l₁ l₂ : List Text} (h : l₁.Perm l₂) : sortS l₁ = sortS l₂ :=
  List.Perm.eq_of_pairwise (le := fun a b => leT a b = true)
    (fun a b _ _ => leT_antisymm a b) (sortS_pairwise l₁) (sortS_pairwise l₂)
    ((sortS_perm l₁).trans (h.trans (sortS_perm l₂).symm))

/-! ### maps -/

theorem lookupT_mdel_ne {α} (m : SMap α) {k n : Text} (h : n ≠ k) : lookupT (mdel m k) n = lookupT m n := by
  induction m with
  | nil => rfl
  | cons e m ih =>
    unfold lookupT mdel at ih ⊢
    by_cases he : e.1 = k
    · have hn : ¬ e.1 = n := fun h' => h (h' ▸ he)
      have hb : (e.1 != k) = false := by simp [he]
      rw [List.filter_cons, if_neg (by simp [hb]), List.find?_cons, ih]
      simp [hn]
    · have hb : (e.1 != k) = true := by simp [he]
      rw [List.filter_cons, if_pos hb, List.find?_cons, List.find?_cons]
      by_cases hn : e.1 = n
      · simp [hn]
      · simp only [hn, decide_false]
        exact ih

theorem mget_mdel_ne (m : SMap Text) {k n : Text} (h : n ≠ k) : mget (mdel m k) n = mget m n := by
  simp [mget, lookupT_mdel_ne m h]

theorem mem_keys_mdel {α} (m : SMap α) (k n : Text) : n ∈ keys (mdel m k) ↔ n ∈ keys m ∧ n ≠ k := by
  simp only [keys, mdel, List.mem_map, List.mem_filter, bne_iff_ne, ne_eq]
  constructor
  · rintro ⟨e, ⟨he, hk⟩, rfl⟩; exact ⟨⟨e, he, rfl⟩, hk⟩
  · rintro ⟨⟨e, he, rfl⟩, hk⟩; exact ⟨e, ⟨he, hk⟩, rfl⟩

theorem subset_mem {a b : List Text} (h : subset a b = true) {x : Text} (hx : x ∈ a) : x ∈ b := by
  simp only [subset, List.all_eq_true] at h
  simpa using h x hx

theorem mem_inter {a b : List Text} {x : Text} : x ∈ inter a b ↔ x ∈ a ∧ x ∈ b := by
  simp [inter, List.mem_filter]

theorem mem_diff {a b : List Text} {x : Text} : x ∈ diff a b ↔ x ∈ a ∧ x ∉ b := by
  simp [diff, List.mem_filter]

/-! ### the accumulator loop -/

/-- `packages` is exactly the key set of `versions` (as `LockImageConfiguration` builds them) -/
def WF (a : RArch) : Prop := ∀ n, n ∈ a.packages ↔ n ∈ keys a.versions

theorem stepPkg_packages (next : RArch) (acc : Acc) (pkg n : Text) :
    n ∈ (stepPkg next acc pkg).packages ↔
      n ∈ acc.packages ∧ (n = pkg → mget acc.versions pkg = mget next.versions pkg) := by
  unfold stepPkg
  by_cases hc : mget acc.versions pkg = mget next.versions pkg
  · simp only [hc, bne_self_eq_false, Bool.false_eq_true, ↓reduceIte]
    split <;> simp
  · have hc' : (mget acc.versions pkg != mget next.versions pkg) = true := by simpa using hc
    simp only [hc', ↓reduceIte]
    split <;> simp [List.mem_filter, hc]

theorem stepPkg_versions (next : RArch) (acc : Acc) (pkg n : Text)
    (h : n ∈ (stepPkg next acc pkg).packages) :
    mget (stepPkg next acc pkg).versions n = mget acc.versions n ∧
    (n ∈ keys acc.versions → n ∈ keys (stepPkg next acc pkg).versions) := by
  have hp := (stepPkg_packages next acc pkg n).mp h
  unfold stepPkg
  by_cases hc : mget acc.versions pkg = mget next.versions pkg
  · simp only [hc, bne_self_eq_false, Bool.false_eq_true, ↓reduceIte]
    split <;> simp
  · have hc' : (mget acc.versions pkg != mget next.versions pkg) = true := by simpa using hc
    have hne : n ≠ pkg := fun e => hc (hp.2 e)
    simp only [hc', ↓reduceIte]
    split <;> simp [mget_mdel_ne _ hne, mem_keys_mdel, hne]

theorem foldPkg_spec (next : RArch) : ∀ (L : List Text) (acc : Acc),
    (∀ n, n ∈ (L.foldl (stepPkg next) acc).packages ↔
      n ∈ acc.packages ∧ (n ∈ L → mget acc.versions n = mget next.versions n)) ∧
    (∀ n, n ∈ (L.foldl (stepPkg next) acc).packages →
      mget (L.foldl (stepPkg next) acc).versions n = mget acc.versions n ∧
      (n ∈ keys acc.versions → n ∈ keys (L.foldl (stepPkg next) acc).versions)) := by
  intro L
  induction L with
  | nil => intro acc; simp
  | cons pkg L ih =>
    intro acc
    obtain ⟨ih1, ih2⟩ := ih (stepPkg next acc pkg)
    simp only [List.foldl_cons]
    have key : ∀ n, n ∈ (L.foldl (stepPkg next) (stepPkg next acc pkg)).packages →
        n ∈ (stepPkg next acc pkg).packages := fun n h => ((ih1 n).mp h).1
    refine ⟨fun n => ?_, fun n h => ?_⟩
    · rw [ih1 n, stepPkg_packages]
      constructor
      · rintro ⟨⟨ha, hp⟩, hl⟩
        have hin : n ∈ (stepPkg next acc pkg).packages := (stepPkg_packages next acc pkg n).mpr ⟨ha, hp⟩
        refine ⟨ha, fun hm => ?_⟩
        rcases List.mem_cons.mp hm with rfl | hm
        · exact hp rfl
        · rw [← (stepPkg_versions next acc pkg n hin).1]; exact hl hm
      · rintro ⟨ha, hl⟩
        have hp : n = pkg → mget acc.versions pkg = mget next.versions pkg := fun e => by
          subst e; exact hl List.mem_cons_self
        have hin : n ∈ (stepPkg next acc pkg).packages := (stepPkg_packages next acc pkg n).mpr ⟨ha, hp⟩
        refine ⟨⟨ha, hp⟩, fun hm => ?_⟩
        rw [(stepPkg_versions next acc pkg n hin).1]; exact hl (List.mem_cons_of_mem _ hm)
    · have hin := key n h
      obtain ⟨v1, k1⟩ := ih2 n h
      obtain ⟨v2, k2⟩ := stepPkg_versions next acc pkg n hin
      exact ⟨v1.trans v2, fun hk => k1 (k2 hk)⟩

/-- one architecture: a package survives iff the next architecture has it at the accumulated version -/
theorem stepArch_spec (acc : Acc) (next : RArch) (hwf : WF next)
    (hk : ∀ n, n ∈ acc.packages → n ∈ keys acc.versions) :
    (∀ n, n ∈ (stepArch acc next).packages ↔
      n ∈ acc.packages ∧ n ∈ next.packages ∧ mget next.versions n = mget acc.versions n) ∧
    (∀ n, n ∈ (stepArch acc next).packages →
      mget (stepArch acc next).versions n = mget acc.versions n ∧ n ∈ keys (stepArch acc next).versions) := by
  unfold stepArch
  split
  · next hsc =>
    -- the DeepEqual shortcut: nothing to remove
    simp only [Bool.and_eq_true, mapEq] at hsc
    obtain ⟨⟨hse, hall⟩, _⟩ := hsc
    simp only [setEq, Bool.and_eq_true] at hse
    refine ⟨fun n => ⟨fun h => ?_, fun h => h.1⟩, fun n h => ⟨rfl, hk n h⟩⟩
    have h1 := hk n h
    have h2 : n ∈ keys next.versions := subset_mem hse.1 h1
    have h3 := List.all_eq_true.mp hall n h1
    exact ⟨h, (hwf n).mpr h2, by simpa using (of_decide_eq_true h3).symm⟩
  · obtain ⟨s1, s2⟩ := foldPkg_spec next (inter acc.packages next.packages)
      { acc with packages := inter acc.packages next.packages }
    refine ⟨fun n => ?_, fun n h => ?_⟩
    · rw [s1 n]
      simp only [mem_inter]
      constructor
      · rintro ⟨⟨ha, hn⟩, hv⟩; exact ⟨ha, hn, (hv ⟨ha, hn⟩).symm⟩
      · rintro ⟨ha, hn, hv⟩; exact ⟨⟨ha, hn⟩, fun _ => hv.symm⟩
    · obtain ⟨v, k⟩ := s2 n h
      have hin : n ∈ acc.packages := (mem_inter.mp ((s1 n).mp h).1).1
      exact ⟨v, k (hk n hin)⟩

/-- all architectures: the accumulated set is what every later architecture agrees on -/
theorem foldArch_spec : ∀ (rest : List RArch) (acc : Acc),
    (∀ a ∈ rest, WF a) → (∀ n, n ∈ acc.packages → n ∈ keys acc.versions) →
    (∀ n, n ∈ (rest.foldl stepArch acc).packages ↔
      n ∈ acc.packages ∧ ∀ a ∈ rest, n ∈ a.packages ∧ mget a.versions n = mget acc.versions n) ∧
    (∀ n, n ∈ (rest.foldl stepArch acc).packages →
      mget (rest.foldl stepArch acc).versions n = mget acc.versions n) := by
  intro rest
  induction rest with
  | nil => intro acc _ _; simp
  | cons next rest ih =>
    intro acc hwf hk
    obtain ⟨a1, a2⟩ := stepArch_spec acc next (hwf next List.mem_cons_self) hk
    obtain ⟨i1, i2⟩ := ih (stepArch acc next) (fun a ha => hwf a (List.mem_cons_of_mem _ ha))
      (fun n h => (a2 n h).2)
    simp only [List.foldl_cons]
    refine ⟨fun n => ?_, fun n h => ?_⟩
    · rw [i1 n, a1 n]
      constructor
      · rintro ⟨⟨ha, hn, hv⟩, hr⟩
        have hin : n ∈ (stepArch acc next).packages := (a1 n).mpr ⟨ha, hn, hv⟩
        refine ⟨ha, fun a hm => ?_⟩
        rcases List.mem_cons.mp hm with rfl | hm
        · exact ⟨hn, hv⟩
        · obtain ⟨p, v⟩ := hr a hm
          exact ⟨p, v.trans (a2 n hin).1⟩
      · rintro ⟨ha, hall⟩
        obtain ⟨hn, hv⟩ := hall next List.mem_cons_self
        have hin : n ∈ (stepArch acc next).packages := (a1 n).mpr ⟨ha, hn, hv⟩
        refine ⟨⟨ha, hn, hv⟩, fun a hm => ?_⟩
        obtain ⟨p, v⟩ := hall a (List.mem_cons_of_mem _ hm)
        exact ⟨p, v.trans (a2 n hin).1.symm⟩
    · have hin : n ∈ (stepArch acc next).packages := ((i1 n).mp h).1
      exact (i2 n h).trans (a2 n hin).1

/-- T: the accumulator after the loop holds exactly the packages every architecture resolved to the same
version, with that version -/
theorem accOf_spec (first : RArch) (rest : List RArch) (hwf : ∀ a ∈ first :: rest, WF a) :
    (∀ n, n ∈ (accOf first rest).packages ↔
      ∀ a ∈ first :: rest, n ∈ a.packages ∧ mget a.versions n = mget first.versions n) ∧
    (∀ n, n ∈ (accOf first rest).packages → mget (accOf first rest).versions n = mget first.versions n) := by
  obtain ⟨s1, s2⟩ := foldArch_spec rest ⟨first.packages, first.versions, first.provided⟩
    (fun a ha => hwf a (List.mem_cons_of_mem _ ha))
    (fun n h => (hwf first List.mem_cons_self n).mp h)
  refine ⟨fun n => ?_, s2⟩
  unfold accOf
  rw [s1 n]
  constructor
  · rintro ⟨h1, h2⟩ a ha
    rcases List.mem_cons.mp ha with rfl | ha
    · exact ⟨h1, rfl⟩
    · exact h2 a ha
  · intro h
    exact ⟨(h first List.mem_cons_self).1, fun a ha => h a (List.mem_cons_of_mem _ ha)⟩

/-! ### the provided-name filter does not depend on the map order -/

theorem hideProvided_eq (provided : SMap (List Text)) (missing : List Text) :
    hideProvided provided missing = missing.filter (fun x => !provided.any (fun e => e.2.contains x)) := by
  unfold hideProvided
  induction provided generalizing missing with
  | nil =>
    simp only [List.foldl_nil, List.any_nil, Bool.not_false]
    exact (List.filter_eq_self.mpr (fun _ _ => rfl)).symm
  | cons e ps ih =>
    simp only [List.foldl_cons, List.any_cons]
    have step : (if e.2.any (missing.contains ·) then diff missing e.2 else missing) = diff missing e.2 := by
      split
      · rfl
      · next h =>
        simp only [List.any_eq_true, not_exists, not_and, Bool.not_eq_true] at h
        unfold diff
        symm
        rw [List.filter_eq_self]
        intro x hx
        simp only [Bool.not_eq_true', ← Bool.not_eq_true, List.contains_iff_mem]
        intro hxe
        have := h x hxe
        simp [hx] at this
    rw [step, ih]
    unfold diff
    rw [List.filter_filter]
    congr 1
    funext x
    simp [Bool.and_comm]

end Apko.Lock
