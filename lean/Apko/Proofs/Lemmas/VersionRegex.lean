/-
C03 — the regex literals themselves.

A small regular-expression syntax `Re` with the textbook denotation `Re.M : Re → Text → Prop`
(whole-string match) and a printer `Re.print`.  For the three expressions of version.go we give
the syntax tree, prove by evaluation that it prints to the literal regenerated from /repo
(`Generated.versionRegex`, `packageNameRegex`, `endsWithReleaseStr`; the alternatives of the
suffix groups are taken from the non-empty keys of the regenerated switch tables, so the tie
also says "the switch maps exactly the tokens the expression admits, in its order"), and prove
that its denotation is the grammar the recogniser was proved against:

    versionRe.M s      ↔ ∃ r, Grammar s r            (hence ↔ recognise s ≠ none)
    pkgRe.M s          ↔ ∃ n o v p, PkgMatch s n o v p
    (∃ p x, v = p ++ x ∧ releaseRe.M x) ↔ endsWithRelease v

What stays trusted: that Go's `regexp` gives the printed syntax this denotation (RE2 syntax for
classes, `+ * ? |`, groups, `\.`, `\d`, anchors), and leftmost-first submatch priority
(`matchPackageName_iff`).
-/
import Apko.Proofs.Lemmas.VersionGrammarComplete
import Apko.Proofs.Lemmas.VersionConstraintIff

namespace Apko.VersionGrammar
open Apko

/-! ## syntax, denotation, printer -/

inductive ClsItem
  | ch (c : Char)
  | range (a b : Char)

def ClsItem.test : ClsItem → Char → Bool
  | .ch c, x => decide (x = c)
  | .range a b, x => decide (a ≤ x) && decide (x ≤ b)

/-- `[items]` / `[^items]` -/
structure Cls where
  neg : Bool
  items : List ClsItem

def Cls.test (c : Cls) (x : Char) : Bool := (c.items.any (·.test x)) != c.neg

inductive Re
  | lit (s : Text)
  | cls (c : Cls)
  | digit                 -- `\d`
  | cat (a b : Re)
  | alt (a b : Re)
  | star (a : Re)
  | plus (a : Re)
  | opt (a : Re)
  | group (a : Re)        -- capturing parentheses

/-- whole-string match -/
def Re.M : Re → Text → Prop
  | .lit s, x => x = s
  | .cls c, x => ∃ ch, x = [ch] ∧ c.test ch = true
  | .digit, x => ∃ ch, x = [ch] ∧ isDigit ch = true
  | .cat a b, x => ∃ y z, x = y ++ z ∧ a.M y ∧ b.M z
  | .alt a b, x => a.M x ∨ b.M x
  | .star a, x => ∃ l : List Text, x = l.flatten ∧ ∀ y ∈ l, a.M y
  | .plus a, x => ∃ l : List Text, l ≠ [] ∧ x = l.flatten ∧ ∀ y ∈ l, a.M y
  | .opt a, x => x = [] ∨ a.M x
  | .group a, x => a.M x

def escChar (c : Char) : Text :=
  if c ∈ ['.', '+', '*', '?', '(', ')', '|', '[', ']', '{', '}', '^', '$', '\\'] then ['\\', c] else [c]

def ClsItem.print : ClsItem → Text
  | .ch c => [c]
  | .range a b => [a, '-', b]

def Cls.print (c : Cls) : Text :=
  '[' :: ((if c.neg then ['^'] else []) ++ (c.items.flatMap ClsItem.print ++ [']']))

def Re.print : Re → Text
  | .lit s => s.flatMap escChar
  | .cls c => c.print
  | .digit => ['\\', 'd']
  | .cat a b => a.print ++ b.print
  | .alt a b => a.print ++ '|' :: b.print
  | .star a => a.print ++ ['*']
  | .plus a => a.print ++ ['+']
  | .opt a => a.print ++ ['?']
  | .group a => '(' :: (a.print ++ [')'])

/-! ## the three expressions -/

def digitC : Cls := ⟨false, [.range '0' '9']⟩
def lowerC : Cls := ⟨false, [.range 'a' 'z']⟩

def altOfList : List String → Re
  | [] => .cls ⟨false, []⟩
  | [k] => .lit k.toList
  | k :: k' :: ks => .alt (.lit k.toList) (altOfList (k' :: ks))

/-- the non-empty keys of a switch table, in order -/
def keysOf (tbl : List (String × Nat)) : List String := (tbl.map (·.1)).filter (· ≠ "")

def suffixRe (tbl : List (String × Nat)) : Re :=
  .opt (.group (.cat (.group (altOfList (keysOf tbl))) (.group (.star (.cls digitC)))))

def dotsRe : Re := .group (.star (.group (.cat (.lit ['.']) (.plus (.cls digitC)))))
def revRe : Re := .opt (.group (.cat (.group (.lit ['-', 'r'])) (.group (.plus (.cls digitC)))))

def numRe : Re := .group (.plus (.cls digitC))
def letterRe : Re := .group (.opt (.cls lowerC))

def versionRe : Re :=
  .cat numRe <|
  .cat dotsRe <|
  .cat letterRe <|
  .cat (suffixRe Generated.preSwitch) <|
  .cat (suffixRe Generated.postSwitch) revRe

def nameC : Cls := ⟨true, [.ch '@', .ch '=', .ch '>', .ch '<', .ch '~']⟩
def opC : Cls := ⟨false, [.ch '=', .ch '>', .ch '<', .ch '~']⟩
def notAtC : Cls := ⟨true, [.ch '@']⟩
def alnumC : Cls := ⟨false, [.range 'a' 'z', .range 'A' 'Z', .range '0' '9']⟩

def pkgRe : Re :=
  .cat (.group (.plus (.cls nameC))) <|
  .cat (.opt (.group (.cat (.group (.plus (.cls opC))) (.group (.plus (.cls notAtC)))))) <|
  .opt (.group (.cat (.lit ['@']) (.group (.plus (.cls alnumC)))))

def releaseRe : Re := .cat (.lit ['-', 'r']) (.plus .digit)

/-- the syntax trees print to the literals regenerated from version.go (and the suffix
alternatives are the non-empty switch keys, in order) -/
theorem tie_versionRe_print :
    String.ofList ('^' :: (versionRe.print ++ ['$'])) = Generated.versionRegex := by decide
theorem tie_pkgRe_print :
    String.ofList ('^' :: (pkgRe.print ++ ['$'])) = Generated.packageNameRegex := by decide
theorem tie_releaseRe_print :
    String.ofList (releaseRe.print ++ ['$']) = Generated.endsWithReleaseStr := by decide

/-! ## one-character expressions under `*` and `+` -/

/-- `a` matches exactly the one-character strings whose character satisfies `p` -/
def OneChar (a : Re) (p : Char → Bool) : Prop := ∀ x, a.M x ↔ ∃ ch, x = [ch] ∧ p ch = true

theorem oneChar_cls (c : Cls) : OneChar (.cls c) c.test := fun _ => Iff.rfl
theorem oneChar_digit : OneChar .digit isDigit := fun _ => Iff.rfl

theorem flatten_singletons (x : Text) : (x.map fun c => [c]).flatten = x := by
  induction x with
  | nil => rfl
  | cons c cs ih => simp [ih]

theorem star_oneChar {a : Re} {p : Char → Bool} (h : OneChar a p) (x : Text) :
    (Re.star a).M x ↔ x.all p = true := by
  simp only [Re.M]
  constructor
  · rintro ⟨l, rfl, hl⟩
    induction l with
    | nil => rfl
    | cons y ys ih =>
      obtain ⟨ch, rfl, hp⟩ := (h y).mp (hl y (by simp))
      simp only [List.flatten_cons, List.cons_append, List.nil_append, List.all_cons, hp,
        Bool.true_and]
      exact ih (fun z hz => hl z (by simp [hz]))
  · intro hx
    refine ⟨x.map fun c => [c], (flatten_singletons x).symm, ?_⟩
    intro y hy
    obtain ⟨c, hc, rfl⟩ := List.mem_map.mp hy
    exact (h _).mpr ⟨c, rfl, List.all_eq_true.mp hx c hc⟩

theorem plus_oneChar {a : Re} {p : Char → Bool} (h : OneChar a p) (x : Text) :
    (Re.plus a).M x ↔ x ≠ [] ∧ x.all p = true := by
  constructor
  · rintro ⟨l, hne, rfl, hl⟩
    refine ⟨?_, (star_oneChar h _).mp ⟨l, rfl, hl⟩⟩
    obtain ⟨y, ys, rfl⟩ := List.exists_cons_of_ne_nil hne
    obtain ⟨ch, rfl, _⟩ := (h y).mp (hl y (by simp))
    simp
  · rintro ⟨hne, hx⟩
    obtain ⟨l, hl, hall⟩ := (star_oneChar h x).mpr hx
    exact ⟨l, by intro e; subst e; exact hne (by simpa using hl), hl, hall⟩

theorem digitC_test (c : Char) : digitC.test c = isDigit c := by
  simp [digitC, Cls.test, ClsItem.test, isDigit]
theorem lowerC_test (c : Char) : lowerC.test c = isLower c := by
  simp [lowerC, Cls.test, ClsItem.test, isLower]

theorem oneChar_digitC : OneChar (.cls digitC) isDigit := by
  intro x; simp only [Re.M, digitC_test]

theorem plus_digits (x : Text) : (Re.plus (.cls digitC)).M x ↔ IsNum x :=
  plus_oneChar oneChar_digitC x
theorem star_digits (x : Text) : (Re.star (.cls digitC)).M x ↔ IsDigits x :=
  star_oneChar oneChar_digitC x

/-! ## the groups of the version expression -/

theorem dotsRe_M (x : Text) : dotsRe.M x ↔ ∃ more, (∀ d ∈ more, IsNum d) ∧ x = dotted more := by
  simp only [dotsRe, Re.M]
  constructor
  · rintro ⟨l, rfl, hl⟩
    induction l with
    | nil => exact ⟨[], by simp, rfl⟩
    | cons y ys ih =>
      obtain ⟨more, hm, he⟩ := ih (fun z hz => hl z (by simp [hz]))
      obtain ⟨a, d, rfl, rfl, hd⟩ := hl y (by simp)
      refine ⟨d :: more, ?_, ?_⟩
      · intro d' hd'
        simp only [List.mem_cons] at hd'
        rcases hd' with rfl | hd'
        · exact (plus_digits _).mp hd
        · exact hm d' hd'
      · simp only [List.flatten_cons, he, dotted, List.cons_append, List.nil_append]
  · rintro ⟨more, hm, rfl⟩
    refine ⟨more.map ('.' :: ·), ?_, ?_⟩
    · induction more with
      | nil => rfl
      | cons d ds ih =>
        simp only [dotted, List.map_cons, List.flatten_cons, List.cons_append]
        rw [ih (fun d' hd' => hm d' (by simp [hd']))]
    · intro y hy
      obtain ⟨d, hd, rfl⟩ := List.mem_map.mp hy
      exact ⟨['.'], d, rfl, rfl, (plus_digits d).mpr (hm d hd)⟩

theorem numRe_M (x : Text) : numRe.M x ↔ IsNum x := plus_digits x

theorem letterRe_M (x : Text) : letterRe.M x ↔ ∃ l, LetterG x l := by
  simp only [letterRe, Re.M, lowerC_test]
  constructor
  · rintro (rfl | ⟨c, rfl, hc⟩)
    · exact ⟨0, .none⟩
    · exact ⟨_, .some c hc⟩
  · rintro ⟨l, h⟩
    cases h with
    | none => exact .inl rfl
    | some c hc => exact .inr ⟨c, rfl, hc⟩

theorem altOfList_M : ∀ (ks : List String) (y : Text),
    (altOfList ks).M y ↔ ∃ k ∈ ks, y = k.toList
  | [], y => by simp [altOfList, Re.M, Cls.test]
  | [k], y => by simp [altOfList, Re.M]
  | k :: k' :: ks, y => by
    simp only [altOfList, Re.M, altOfList_M (k' :: ks) y]
    constructor
    · rintro (h | ⟨k2, hk2, h⟩)
      · exact ⟨k, by simp, h⟩
      · exact ⟨k2, by simp only [List.mem_cons] at hk2 ⊢; exact .inr hk2, h⟩
    · rintro ⟨k2, hk2, h⟩
      simp only [List.mem_cons] at hk2
      rcases hk2 with rfl | hk2
      · exact .inl h
      · exact .inr ⟨k2, by simp only [List.mem_cons]; exact hk2, h⟩

theorem mem_keysOf {tbl : List (String × Nat)} {k : String} :
    k ∈ keysOf tbl ↔ k ≠ "" ∧ ∃ v, (k, v) ∈ tbl := by
  simp only [keysOf, List.mem_filter, List.mem_map, decide_eq_true_eq]
  constructor
  · rintro ⟨⟨p, hp, rfl⟩, hne⟩; exact ⟨hne, p.2, hp⟩
  · rintro ⟨hne, v, hv⟩; exact ⟨⟨(k, v), hv, rfl⟩, hne⟩

theorem suffixRe_M (tbl : List (String × Nat)) (nv : Nat) (x : Text) :
    (suffixRe tbl).M x ↔ ∃ v d, SuffixG tbl nv x v d := by
  simp only [suffixRe, Re.M]
  constructor
  · rintro (rfl | ⟨y, z, rfl, hy, hz⟩)
    · exact ⟨nv, [], .none⟩
    · obtain ⟨k, hk, rfl⟩ := (altOfList_M _ _).mp hy
      obtain ⟨hne, v, hv⟩ := mem_keysOf.mp hk
      exact ⟨v, z, .some k v z hv hne ((star_digits z).mp hz)⟩
  · rintro ⟨v, d, h⟩
    cases h with
    | none => exact .inl rfl
    | some tok _ _ hm hne hd =>
      exact .inr ⟨tok.toList, d, rfl, (altOfList_M _ _).mpr ⟨tok, mem_keysOf.mpr ⟨hne, v, hm⟩, rfl⟩,
        (star_digits d).mpr hd⟩

theorem revRe_M (x : Text) : revRe.M x ↔ ∃ d, RevG x d := by
  simp only [revRe, Re.M]
  constructor
  · rintro (rfl | ⟨y, z, rfl, rfl, hz⟩)
    · exact ⟨[], .none⟩
    · exact ⟨z, .some z ((plus_digits z).mp hz)⟩
  · rintro ⟨d, h⟩
    cases h with
    | none => exact .inl rfl
    | some _ hd => exact .inr ⟨['-', 'r'], d, rfl, rfl, (plus_digits d).mpr hd⟩

/-- the denotation of the version expression is the grammar -/
theorem versionRe_M (s : Text) : versionRe.M s ↔ ∃ r, Grammar s r := by
  unfold versionRe
  simp only [Re.M.eq_4, numRe_M, dotsRe_M, letterRe_M,
    suffixRe_M Generated.preSwitch Generated.preNone,
    suffixRe_M Generated.postSwitch Generated.postNone, revRe_M]
  constructor
  · rintro ⟨d1, x1, rfl, hd1, x2, y2, rfl, ⟨more, hm, rfl⟩, tl, y3, rfl, ⟨l, hl⟩, tp, y4, rfl,
      ⟨vp, dp, hp⟩, tq, tr, rfl, ⟨vq, dq, hq⟩, ⟨dr, hr⟩⟩
    refine ⟨⟨d1 :: more, l, vp, dp, vq, dq, dr⟩, d1, more, tl, tp, tq, tr, rfl, ?_, hl, hp, hq, hr, rfl⟩
    intro d hd
    simp only [List.mem_cons] at hd
    rcases hd with rfl | hd
    · exact hd1
    · exact hm d hd
  · rintro ⟨r, d1, more, tl, tp, tq, tr, _, hnum, hl, hp, hq, hr, rfl⟩
    exact ⟨d1, _, rfl, hnum d1 (by simp), dotted more, _, rfl,
      ⟨more, fun d hd => hnum d (by simp [hd]), rfl⟩, tl, _, rfl, ⟨_, hl⟩, tp, _, rfl, ⟨_, _, hp⟩,
      tq, tr, rfl, ⟨_, _, hq⟩, ⟨_, hr⟩⟩

/-- T: a string is accepted as a version iff it matches the expression in version.go -/
theorem recognise_iff_regex (s : Text) : (recognise s).isSome = true ↔ versionRe.M s := by
  rw [versionRe_M, Option.isSome_iff_exists]
  exact ⟨fun ⟨r, h⟩ => ⟨r, recognise_sound h⟩, fun ⟨r, h⟩ => ⟨r, recognise_complete h⟩⟩

/-! ## the constraint expression and the release expression -/

theorem nameC_test (c : Char) : nameC.test c = isNameChar c := by
  simp only [nameC, Cls.test, ClsItem.test, isNameChar, List.any_cons, List.any_nil, Bool.or_false,
    Bool.or_assoc]
  cases (decide (c = '@') || (decide (c = '=') || (decide (c = '>') || (decide (c = '<') || decide (c = '~'))))) <;> rfl
theorem opC_test (c : Char) : opC.test c = isOpChar c := by
  simp [opC, Cls.test, ClsItem.test, isOpChar, Bool.or_assoc]
theorem notAtC_test (c : Char) : notAtC.test c = (c != '@') := by
  simp only [notAtC, Cls.test, ClsItem.test, List.any_cons, List.any_nil, Bool.or_false]
  by_cases h : c = '@' <;> simp [h]
theorem alnumC_test (c : Char) : alnumC.test c = isAlnum c := by
  simp only [alnumC, Cls.test, ClsItem.test, isAlnum, isDigit, isLower, isUpper, List.any_cons,
    List.any_nil, Bool.or_false]
  cases (decide ('a' ≤ c) && decide (c ≤ 'z')) <;> cases (decide ('A' ≤ c) && decide (c ≤ 'Z')) <;>
    cases (decide ('0' ≤ c) && decide (c ≤ '9')) <;> rfl

theorem oneChar_of_test {c : Cls} {p : Char → Bool} (h : ∀ x, c.test x = p x) :
    OneChar (.cls c) p := by
  intro x; simp only [Re.M, h]

theorem pkgRe_M (s : Text) : pkgRe.M s ↔ ∃ n o v p, PkgMatch s n o v p := by
  unfold pkgRe
  simp only [Re.M.eq_4, Re.M.eq_8, Re.M.eq_9, Re.M.eq_1,
    plus_oneChar (oneChar_of_test nameC_test), plus_oneChar (oneChar_of_test opC_test),
    plus_oneChar (oneChar_of_test notAtC_test), plus_oneChar (oneChar_of_test alnumC_test)]
  constructor
  · rintro ⟨n, x1, rfl, hn, ov, pp, rfl, hov, hpp⟩
    have hp : ∃ p, PinG pp p := by
      rcases hpp with rfl | ⟨a, p, rfl, rfl, hp⟩
      · exact ⟨[], .none⟩
      · exact ⟨p, .some p hp⟩
    obtain ⟨p, hp⟩ := hp
    rcases hov with rfl | ⟨o, v, rfl, ho, hv⟩
    · exact ⟨n, [], [], p, pp, rfl, hn, hp, .inl ⟨rfl, rfl⟩⟩
    · exact ⟨n, o, v, p, pp, by simp, hn, hp, .inr ⟨ho, hv.1, hv.2⟩⟩
  · rintro ⟨n, o, v, p, pp, rfl, hn, hp, hov⟩
    refine ⟨n, _, rfl, hn, o ++ v, pp, by simp, ?_, ?_⟩
    · rcases hov with ⟨rfl, rfl⟩ | ⟨ho, hv1, hv2⟩
      · exact .inl rfl
      · exact .inr ⟨o, v, rfl, ho, hv1, hv2⟩
    · cases hp with
      | none => exact .inl rfl
      | some _ hpin => exact .inr ⟨['@'], p, rfl, rfl, hpin⟩

/-- the constraint parser fails exactly when the expression in version.go does not match -/
theorem matchPackageName_isSome_iff_regex (s : Text) :
    (matchPackageName s).isSome = true ↔ pkgRe.M s := by
  rw [pkgRe_M]
  constructor
  · intro h
    by_cases hn : ∃ n o v p, PkgMatch s n o v p
    · exact hn
    · rw [(matchPackageName_none_iff s).mpr hn] at h; cases h
  · intro h
    cases hm : matchPackageName s with
    | some _ => rfl
    | none => exact absurd h ((matchPackageName_none_iff s).mp hm)

/-- `-r\\d+$` finds a match in `v` iff `endsWithRelease v` -/
theorem endsWithRelease_iff_regex (v : Text) :
    endsWithRelease v = true ↔ ∃ p x, v = p ++ x ∧ releaseRe.M x := by
  rw [endsWithRelease_iff]
  unfold releaseRe
  simp only [Re.M.eq_4, Re.M.eq_1, plus_oneChar oneChar_digit]
  constructor
  · rintro ⟨p, d, rfl, hd⟩; exact ⟨p, _, rfl, ['-', 'r'], d, rfl, rfl, hd⟩
  · rintro ⟨p, x, rfl, y, d, rfl, rfl, hd⟩; exact ⟨p, d, rfl, hd⟩

end Apko.VersionGrammar
