import Apko.Proofs.Lemmas.FSResolve
/-! Path resolution only looks at the *shape* of the graph (directory flags, entries, link bits and
targets): metadata and content updates do not change what a path resolves to. -/
namespace Apko.FS
open Apko Apko.Path

structure ShapeEq (fs fs' : FS) : Prop where
  dir : ∀ i : Nat, (fs'.node i).dir = (fs.node i).dir
  children : ∀ i : Nat, (fs'.node i).children = (fs.node i).children
  sym : ∀ i : Nat, (fs'.node i).isSymlink = (fs.node i).isSymlink
  target : ∀ i : Nat, (fs'.node i).target = (fs.node i).target

theorem walkImpl_shape {fs fs' : FS} (h : ShapeEq fs fs') (recur : Option (Text → Nat → Except Err (Ino × Nat))) :
    ∀ (ps : List Name) (node : Ino) (tr : List Name) (cnt : Nat),
      walkImpl fs' recur ps node tr cnt = walkImpl fs recur ps node tr cnt := by
  intro ps
  induction ps with
  | nil => intros; simp [walkImpl]
  | cons part rest ih =>
    intro node tr cnt
    unfold walkImpl
    simp only [FS.lookup, h.dir, h.children, h.sym, h.target, ih]

theorem getNodeD_shape {fs fs' : FS} (h : ShapeEq fs fs') : ∀ d, getNodeD fs' d = getNodeD fs d := by
  intro d
  induction d with
  | zero => funext path cnt; simp only [getNodeD, walkImpl_shape h]
  | succ d ih => funext path cnt; simp only [getNodeD, ih, walkImpl_shape h]

theorem walkPosix_shape {fs fs' : FS} (h : ShapeEq fs fs')
    (recur : Option (List Ino → List Name → Nat → Except Err (List Ino × Nat))) :
    ∀ (ps : List Name) (st : List Ino) (cnt : Nat),
      walkPosix fs' recur ps st cnt = walkPosix fs recur ps st cnt := by
  intro ps
  induction ps with
  | nil => intros; simp [walkPosix]
  | cons part rest ih =>
    intro st cnt
    unfold walkPosix
    simp only [FS.lookup, h.dir, h.children, h.sym, h.target, ih]

theorem resolvePosixD_shape {fs fs' : FS} (h : ShapeEq fs fs') : ∀ d, resolvePosixD fs' d = resolvePosixD fs d := by
  intro d
  induction d with
  | zero => funext st ps cnt; simp only [resolvePosixD, walkPosix_shape h]
  | succ d ih => funext st ps cnt; simp only [resolvePosixD, ih, walkPosix_shape h]

theorem resolveFrom_shape {fs fs' : FS} (h : ShapeEq fs fs') (c : Cfg) (start : List Ino) (path : Text) :
    resolveFrom c fs' start path = resolveFrom c fs start path := by
  simp only [resolveFrom, getNodeD_shape h, resolvePosixD_shape h]

theorem getNode_shape {fs fs' : FS} (h : ShapeEq fs fs') (c : Cfg) (path : Text) :
    getNode c fs' path = getNode c fs path := by
  simp only [getNode, resolveFrom_shape h]

/-- an update of one node that keeps its shape -/
theorem ShapeEq.modify (fs : FS) (i : Nat) (f : Inode → Inode)
    (hd : ∀ n, (f n).dir = n.dir) (hc : ∀ n, (f n).children = n.children)
    (hs : (f (fs.node i)).isSymlink = (fs.node i).isSymlink) (ht : ∀ n, (f n).target = n.target) :
    ShapeEq fs (fs.modify i f) := by
  refine ⟨?_, ?_, ?_, ?_⟩ <;> intro j <;> rw [node_modify] <;> split
  · rename_i h; rw [h.1]; exact hd _
  · rfl
  · rename_i h; rw [h.1]; exact hc _
  · rfl
  · rename_i h; rw [h.1]; exact hs
  · rfl
  · rename_i h; rw [h.1]; exact ht _
  · rfl

theorem modeType_bit27 : modeType.testBit 27 = true := by decide

theorem typeKeep_bit27 (old perm : Nat) (hp : perm.testBit 27 = false) :
    (typeKeep old perm).testBit 27 = old.testBit 27 := by
  simp [typeKeep, Nat.testBit_or, Nat.testBit_and, hp, modeType_bit27]

theorem lookup_setAssoc (l : List (Name × Text)) (k : Name) (v : Text) : (setAssoc l k v).lookup k = some v := by
  unfold setAssoc
  split
  · rename_i h
    induction l with
    | nil => simp at h
    | cons e rest ih =>
      obtain ⟨k', v'⟩ := e
      by_cases hk : k' = k
      · subst hk; simp [List.lookup]
      · have hk' : (k == k') = false := by simpa using fun h => hk h.symm
        have : rest.any (fun x => decide (x.1 = k)) = true := by simpa [hk] using h
        simp only [List.map_cons, hk, if_false, List.lookup, hk']
        exact ih this
  · rename_i h
    induction l with
    | nil => simp [List.lookup]
    | cons e rest ih =>
      obtain ⟨k', v'⟩ := e
      have hk : ¬ k' = k := by intro hk; apply h; simp [hk]
      have hk' : (k == k') = false := by simpa using fun h => hk h.symm
      have : ¬ rest.any (fun x => decide (x.1 = k)) = true := by intro hr; apply h; simp [hr]
      simp only [List.cons_append, List.lookup, hk']
      exact ih this

end Apko.FS
