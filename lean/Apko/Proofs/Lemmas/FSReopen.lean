import Apko.Proofs.Lemmas.FSShape
/-! A second `DirFS` over the same directory (`reopenFS`, `Model/FS.lean`): the rebuilt overlay has the shape of
the directory's content, so every path resolves as before; what a listing, `Readlink`, `Stat` answer follows. -/
namespace Apko.FS
open Apko Apko.Path

theorem reopenNode_dir (r : Bool) (n : Inode) : (reopenNode r n).dir = n.dir := by
  unfold reopenNode; split <;> rfl
theorem reopenNode_children (r : Bool) (n : Inode) : (reopenNode r n).children = n.children := by
  unfold reopenNode; split <;> rfl
theorem reopenNode_target (r : Bool) (n : Inode) : (reopenNode r n).target = n.target := by
  unfold reopenNode; split <;> rfl
theorem reopenNode_data (r : Bool) (n : Inode) : (reopenNode r n).data = n.data := by
  unfold reopenNode; split <;> rfl
theorem reopenNode_te (r : Bool) (n : Inode) : (reopenNode r n).te = n.te := by
  unfold reopenNode; split <;> rfl
theorem reopenNode_mat (r : Bool) (n : Inode) : (reopenNode r n).mat = n.mat := by
  unfold reopenNode; split <;> rfl
theorem reopenNode_hardlinks (r : Bool) (n : Inode) : (reopenNode r n).hardlinks = n.hardlinks := by
  unfold reopenNode; split <;> rfl

theorem node_reopenFS (fs : FS) (i : Nat) :
    (reopenFS fs).node i = if i < fs.nodes.length then reopenNode (i == 0) (fs.node i) else default := by
  obtain ⟨nodes, handles⟩ := fs
  cases nodes with
  | nil => simp [FS.node, reopenFS]
  | cons r rest =>
    cases i with
    | zero => simp [FS.node, reopenFS]
    | succ k =>
      simp only [FS.node, reopenFS, List.getD_eq_getElem?_getD, List.getElem?_cons_succ, List.getElem?_map,
        List.length_cons, Nat.add_lt_add_iff_right]
      by_cases h : k < rest.length
      · simp [h]
      · simp [h]

theorem node_reopenFS_lt (fs : FS) (i : Nat) (h : i < fs.nodes.length) :
    (reopenFS fs).node i = reopenNode (i == 0) (fs.node i) := by rw [node_reopenFS, if_pos h]

theorem node_reopenFS_ge (fs : FS) (i : Nat) (h : fs.nodes.length ≤ i) :
    (reopenFS fs).node i = fs.node i := by
  rw [node_reopenFS, if_neg (Nat.not_lt.mpr h), node_default_of_ge fs i h]

theorem reopenNode_isSymlink (r : Bool) (n : Inode) : (reopenNode r n).isSymlink = n.isSymlink := by
  unfold reopenNode
  split
  · rfl
  · rename_i h
    have h27 : n.mode.testBit 27 = false := by simpa [Inode.isSymlink] using h
    have hk : (0o777 : Nat).testBit 27 = false := by decide
    have hd : modeDir.testBit 27 = false := by decide
    have hr : (modeDir + 0o755).testBit 27 = false := by decide
    simp only [Inode.isSymlink]
    split
    · rw [hr, h27]
    · split
      · rw [Nat.testBit_or, Nat.testBit_and, hd, hk, h27]; rfl
      · rw [Nat.testBit_and, hk, h27]; rfl

/-- field by field: what the rebuilt overlay keeps of every node -/
theorem reopenFS_dir (fs : FS) (j : Nat) : ((reopenFS fs).node j).dir = (fs.node j).dir := by
  by_cases h : j < fs.nodes.length
  · rw [node_reopenFS_lt fs j h, reopenNode_dir]
  · rw [node_reopenFS_ge fs j (Nat.le_of_not_lt h)]
theorem reopenFS_children (fs : FS) (j : Nat) : ((reopenFS fs).node j).children = (fs.node j).children := by
  by_cases h : j < fs.nodes.length
  · rw [node_reopenFS_lt fs j h, reopenNode_children]
  · rw [node_reopenFS_ge fs j (Nat.le_of_not_lt h)]
theorem reopenFS_target (fs : FS) (j : Nat) : ((reopenFS fs).node j).target = (fs.node j).target := by
  by_cases h : j < fs.nodes.length
  · rw [node_reopenFS_lt fs j h, reopenNode_target]
  · rw [node_reopenFS_ge fs j (Nat.le_of_not_lt h)]
theorem reopenFS_isSymlink (fs : FS) (j : Nat) : ((reopenFS fs).node j).isSymlink = (fs.node j).isSymlink := by
  by_cases h : j < fs.nodes.length
  · rw [node_reopenFS_lt fs j h, reopenNode_isSymlink]
  · rw [node_reopenFS_ge fs j (Nat.le_of_not_lt h)]
theorem reopenFS_data (fs : FS) (j : Nat) : ((reopenFS fs).node j).data = (fs.node j).data := by
  by_cases h : j < fs.nodes.length
  · rw [node_reopenFS_lt fs j h, reopenNode_data]
  · rw [node_reopenFS_ge fs j (Nat.le_of_not_lt h)]
theorem reopenFS_hardlinks (fs : FS) (j : Nat) : ((reopenFS fs).node j).hardlinks = (fs.node j).hardlinks := by
  by_cases h : j < fs.nodes.length
  · rw [node_reopenFS_lt fs j h, reopenNode_hardlinks]
  · rw [node_reopenFS_ge fs j (Nat.le_of_not_lt h)]
theorem reopenFS_size (c : Cfg) (fs : FS) (j : Nat) :
    effectiveSize c ((reopenFS fs).node j) = effectiveSize c (fs.node j) := by
  by_cases h : j < fs.nodes.length
  · rw [node_reopenFS_lt fs j h]; simp only [effectiveSize, reopenNode_te, reopenNode_data, reopenNode_mat]
  · rw [node_reopenFS_ge fs j (Nat.le_of_not_lt h)]

/-- the rebuilt overlay has the shape of the directory's content -/
theorem reopenFS_shape (fs : FS) : ShapeEq fs (reopenFS fs) :=
  ⟨reopenFS_dir fs, reopenFS_children fs, reopenFS_isSymlink fs, reopenFS_target fs⟩

/-- every path resolves to the node it resolved to (or fails as it failed) -/
theorem reopenFS_getNode (c : Cfg) (fs : FS) (p : Text) : getNode c (reopenFS fs) p = getNode c fs p :=
  getNode_shape (reopenFS_shape fs) c p

/-- name, size, kind and (tarfs) hard-link record of a `FileInfo`: what survives a re-open -/
def statShape (s : StatInfo) : Text × Nat × Bool × Option Text := (s.name, s.size, s.isDir, s.hardlink)

theorem statShape_reopen (c : Cfg) (fs : FS) (j : Nat) (name key : Text) :
    statShape (statOf c ((reopenFS fs).node j) name key) = statShape (statOf c (fs.node j) name key) := by
  simp only [statShape, statOf, reopenFS_size, reopenFS_dir, reopenFS_hardlinks]

end Apko.FS
