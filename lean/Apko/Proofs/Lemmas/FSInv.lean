import Apko.Proofs.Lemmas.FSAtomic
/-! Preservation of the structural invariant `Inv` by the primitive updates and by path resolution. -/
namespace Apko.FS
open Apko Apko.Path

theorem Inv.of_nodes_eq {fs fs' : FS} (h : fs'.nodes = fs.nodes) (hi : Inv fs) : Inv fs' := by
  have hn : ∀ i, fs'.node i = fs.node i := by intro i; simp [FS.node, h]
  exact ⟨by rw [hn]; exact hi.root, by intro i; rw [hn]; exact hi.names i,
    by intro i n j; rw [hn, h]; exact hi.live i n j, by intro i; rw [hn]; exact hi.files i⟩

theorem default_children : (default : Inode).children = [] := rfl

theorem node_empty_succ (i : Nat) : FS.empty.node (i + 1) = default := by
  simp [FS.node, FS.empty]

theorem Inv.empty : Inv FS.empty := by
  refine ⟨by decide, ?_, ?_, ?_⟩
  · intro i
    rcases i with _ | i
    · decide
    · rw [node_empty_succ, default_children]; simp
  · intro i n j h
    rcases i with _ | i
    · simp [FS.node, FS.empty, rootInode] at h
    · rw [node_empty_succ, default_children] at h; cases h
  · intro i _
    rcases i with _ | i
    · simp [FS.node, FS.empty, rootInode]
    · rw [node_empty_succ, default_children]

/-- replacing a node by one with the same `dir` flag and entries -/
theorem Inv.setNode_meta {fs : FS} (hi : Inv fs) (i : Nat) (n : Inode)
    (hd : n.dir = (fs.node i).dir) (hc : n.children = (fs.node i).children) : Inv (fs.setNode i n) := by
  have hn : ∀ j, ((fs.setNode i n).node j).dir = (fs.node j).dir ∧
      ((fs.setNode i n).node j).children = (fs.node j).children := by
    intro j
    rw [node_setNode]
    split
    · rename_i h; rw [h.1]; exact ⟨hd, hc⟩
    · exact ⟨rfl, rfl⟩
  refine ⟨by rw [(hn 0).1]; exact hi.root, by intro j; rw [(hn j).2]; exact hi.names j, ?_, ?_⟩
  · intro j nm k; rw [(hn j).2, length_setNode]; exact hi.live j nm k
  · intro j; rw [(hn j).1, (hn j).2]; exact hi.files j

theorem Inv.modify_meta {fs : FS} (hi : Inv fs) (i : Nat) (f : Inode → Inode)
    (hd : ∀ n, (f n).dir = n.dir) (hc : ∀ n, (f n).children = n.children) : Inv (fs.modify i f) :=
  hi.setNode_meta i _ (hd _) (hc _)

theorem setChild_names (cs : List (Name × Ino)) (n : Name) (i : Ino)
    (h : (cs.map (·.1)).Nodup) : ((setChild cs n i).map (·.1)).Nodup := by
  unfold setChild
  rw [List.map_append, List.nodup_append]
  refine ⟨?_, by simp, ?_⟩
  · exact List.Nodup.sublist (List.Sublist.map _ List.filter_sublist) h
  · intro a ha b hb
    simp only [List.map_cons, List.map_nil, List.mem_singleton] at hb
    subst hb
    simp only [List.mem_map, List.mem_filter] at ha
    obtain ⟨e, ⟨_, he⟩, rfl⟩ := ha
    simpa using he

theorem mem_setChild {cs : List (Name × Ino)} {n : Name} {i : Ino} {e : Name × Ino}
    (h : e ∈ setChild cs n i) : e ∈ cs ∨ e = (n, i) := by
  unfold setChild at h
  simp only [List.mem_append, List.mem_filter, List.mem_singleton] at h
  rcases h with h | h
  · exact Or.inl h.1
  · exact Or.inr h

theorem Inv.link {fs : FS} (hi : Inv fs) (d : Nat) (n : Name) (t : Nat)
    (hd : (fs.node d).dir = true) (ht : t < fs.nodes.length) : Inv (fs.link d n t) := by
  have hdl := dir_lt fs d hd
  have hn : ∀ j, (fs.link d n t).node j =
      if j = d then { fs.node d with children := setChild (fs.node d).children n t } else fs.node j := by
    intro j; simp only [FS.link, node_modify]; by_cases h : j = d <;> simp [h, hdl]
  refine ⟨?_, ?_, ?_, ?_⟩
  · rw [hn]; split
    · rename_i h; simpa [← h] using hi.root
    · exact hi.root
  · intro j; rw [hn]; split
    · exact setChild_names _ _ _ (hi.names d)
    · exact hi.names j
  · intro j nm k h
    rw [hn] at h
    simp only [FS.link, length_modify]
    split at h
    · rcases mem_setChild h with h | h
      · exact hi.live d nm k h
      · cases h; exact ht
    · exact hi.live j nm k h
  · intro j; rw [hn]; split
    · rename_i h; simp [hd]
    · exact hi.files j

theorem Inv.alloc {fs : FS} (hi : Inv fs) (nd : Inode) (hc : nd.children = []) : Inv (fs.alloc nd).1 := by
  have h0 : 0 < fs.nodes.length := dir_lt fs 0 hi.root
  refine ⟨?_, ?_, ?_, ?_⟩
  · rw [node_alloc]; simp [show (0 : Nat) ≠ fs.nodes.length by omega]; exact hi.root
  · intro j; rw [node_alloc]; split
    · simp [hc]
    · exact hi.names j
  · intro j nm k h
    rw [node_alloc] at h
    rw [alloc_length]
    split at h
    · simp [hc] at h
    · have := hi.live j nm k h; omega
  · intro j; rw [node_alloc]; split
    · intro _; exact hc
    · exact hi.files j

theorem Inv.create {fs : FS} (hi : Inv fs) (d : Nat) (n : Name) (nd : Inode)
    (hd : (fs.node d).dir = true) (hc : nd.children = []) : Inv (fs.create d n nd).1 := by
  have hdl := dir_lt fs d hd
  unfold FS.create
  simp only []
  apply Inv.link (hi.alloc nd hc)
  · rw [node_alloc]; simp [show d ≠ fs.nodes.length by omega, hd]
  · simp

theorem Inv.unlink {fs : FS} (hi : Inv fs) (d : Nat) (n : Name) : Inv (fs.unlink d n) := by
  have hn : ∀ j, ((fs.unlink d n).node j).dir = (fs.node j).dir ∧
      (((fs.unlink d n).node j).children = (fs.node j).children ∨
       ((fs.unlink d n).node j).children = (fs.node j).children.filter (fun e => e.1 ≠ n)) := by
    intro j
    simp only [FS.unlink, node_modify]
    split
    · rename_i h; rw [h.1]; exact ⟨rfl, Or.inr rfl⟩
    · exact ⟨rfl, Or.inl rfl⟩
  refine ⟨by rw [(hn 0).1]; exact hi.root, ?_, ?_, ?_⟩
  · intro j
    rcases (hn j).2 with h | h <;> rw [h]
    · exact hi.names j
    · exact List.Nodup.sublist (List.Sublist.map _ List.filter_sublist) (hi.names j)
  · intro j nm k hm
    simp only [FS.unlink, length_modify]
    rcases (hn j).2 with h | h <;> rw [h] at hm
    · exact hi.live j nm k hm
    · exact hi.live j nm k (List.mem_filter.mp hm).1
  · intro j hj
    rw [(hn j).1] at hj
    rcases (hn j).2 with h | h <;> rw [h]
    · exact hi.files j hj
    · simp [hi.files j hj]

end Apko.FS
