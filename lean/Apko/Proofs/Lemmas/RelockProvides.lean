/-
C09, the fixpoint in universes WITH provides: the property-level theorems (lemmas in RelockProv.lean,
RelockProvLoop.lean, RelockProvTop.lean), decidable forms of the hypotheses for concrete values, a non-trivial
example, witnesses that the hypotheses named after finding classes are needed, and the bridge from the driver's
classifier.
-/
import Apko.Proofs.C09
import Apko.Proofs.Lemmas.RelockProvTop

namespace Apko.C09
open Apko Apko.Resolver Apko.Lock
open Apko.LockP (PCtx PSide PinsIn StrongLock EntryP)
open Apko.C02 (Carries)

/-- T `relock_exact_provides_partial`: in a universe WITH provides (virtual names, versioned provides, several
providers of one name, non-member providers that compete for a virtual; no install_if), for any number of packages,
versions, indexes (pinned or not) and dependency shapes, the re-resolution of a lock `L` of a closed set `S` SUCCEEDS
and returns EXACTLY `S`, when
* `ctx`      `S` is a closed set of universe packages (C02 `Valid`; `sat` looks at provides),
* `sd.names`, `sd.ids`, `sd.pvOk` (not F09e), `sd.depPv` (not F09l), `huniq` (not F09d) as in `relock_succeeds_partial`,
* `hL`       every member has its entry and every entry carries the pin of every pinned member (not F09a, in the
             form of the driver's `pinLost`),
* `sd.hb`    whatever provides a member's name is a non-member of that name                     (not F09b),
* `sd.hh`    a dependency with a version text names nothing a member provides with a version    (not F09h),
* `sd.noConf` no `!x` dependency of a member names something a member carries                   (not F09f),
* `sd.hv`    two different members provide one name only without versions                       (not F09o),
* `sd.hself`, `sd.hd`  no member provides its own name, or a name again after a versioned provide (not F09m),
* `sd.order` the provider order of `nameMap` knows every member's name (true for `ownNames`, the driver's order).
Proof: the invariant of `relock_succeeds_partial`, with "the pick is a member" now from `compare_prefers_existing` /
`minFunc_prefers` (every member is in `existing` with its version; a non-member carrying a member's name is
disqualified), `disqualifyConflicts` of a member never hits a member (`hb`, `hv`), `pick` never finds a provided
name taken (`hb`, `hv`, `hd`). -/
theorem relock_exact_provides_partial (c : Cfg) (S : List Pkg) (L : List Text) (ctx : PCtx c S) (sd : PSide c S)
    (huniq : ∀ x ∈ c.u.all, ∀ p ∈ S, x.name = p.name → versionMatches x.version p.version = true → x = p)
    (hL : StrongLock S L) : ∃ r', resolve c L [] = .ok r' ∧ sameMembers r'.install S :=
  LockP.relock_exact ctx sd huniq hL

/-! ### decidable forms for concrete values -/

instance (p : Pkg) (n : Text) : Decidable (Carries p n) := by unfold Carries; infer_instance

def PSideB1 (c : Cfg) (S : List Pkg) : Prop :=
  C02.IdsDistinct c.u ∧ hypNames S ∧ hypPv S ∧ hypDepPv S ∧ (∀ q ∈ S, q.name ∈ c.order)
def hypNoConfName (S : List Pkg) : Prop :=
  ∀ p ∈ S, ∀ d ∈ p.deps, isConflict d = true → ∀ q ∈ S, Carries q (parseConstraint (d.drop 1)).name →
    acceptsOne [] (parseConstraint (d.drop 1)).version (parseConstraint (d.drop 1)).dep []
      (parseConstraint (d.drop 1)).pin none q = false
def hypB (c : Cfg) (S : List Pkg) : Prop :=
  ∀ x ∈ c.u.all, ∀ pr ∈ x.provides, ∀ p ∈ S, provName pr = p.name → x.name = p.name
def hypSelf (S : List Pkg) : Prop := ∀ m ∈ S, ∀ pr ∈ m.provides, provName pr ≠ m.name
def hypD (S : List Pkg) : Prop :=
  ∀ m ∈ S, m.provides.Pairwise (fun a b => (parseConstraint a).version ≠ [] → provName a ≠ provName b)
def hypV (S : List Pkg) : Prop :=
  ∀ m1 ∈ S, ∀ m2 ∈ S, m1 ≠ m2 → ∀ pr1 ∈ m1.provides, ∀ pr2 ∈ m2.provides, provName pr1 = provName pr2 →
    (parseConstraint pr1).version = [] ∧ (parseConstraint pr2).version = []
instance (S : List Pkg) : Decidable (hypSelf S) := by unfold hypSelf; infer_instance
instance (S : List Pkg) : Decidable (hypD S) := by unfold hypD; infer_instance
instance (S : List Pkg) : Decidable (hypV S) := by unfold hypV; infer_instance
def hypH (S : List Pkg) : Prop :=
  ∀ p ∈ S, ∀ d ∈ p.deps, isConflict d = false → (parseConstraint d).version ≠ [] →
    ∀ q ∈ S, ∀ pr ∈ q.provides, provName pr = (parseConstraint d).name → (parseConstraint pr).version = []
instance (S : List Pkg) : Decidable (hypNoConfName S) := by unfold hypNoConfName; infer_instance
instance (c : Cfg) (S : List Pkg) : Decidable (hypB c S) := by unfold hypB; infer_instance
instance (S : List Pkg) : Decidable (hypH S) := by unfold hypH; infer_instance
def PSideB2 (c : Cfg) (S : List Pkg) : Prop := hypNoConfName S ∧ hypB c S ∧ hypH S
def PSideB3 (S : List Pkg) : Prop := hypSelf S ∧ hypV S ∧ hypD S

instance (c : Cfg) (S : List Pkg) : Decidable (PSideB1 c S) := by unfold PSideB1; infer_instance
instance (c : Cfg) (S : List Pkg) : Decidable (PSideB2 c S) := by unfold PSideB2; infer_instance
instance (S : List Pkg) : Decidable (PSideB3 S) := by unfold PSideB3; infer_instance

theorem pside_of {c : Cfg} {S : List Pkg} (h1 : PSideB1 c S) (h2 : PSideB2 c S) (h3 : PSideB3 S) : PSide c S :=
  ⟨h1.1, h1.2.1, h1.2.2.1, h1.2.2.2.1, h1.2.2.2.2, h2.1, h2.2.1, h3.1, h2.2.2, h3.2.1, h3.2.2⟩

def PCtxB (c : Cfg) (S : List Pkg) : Prop :=
  (∀ q ∈ c.u.all, q.installIf = []) ∧ (∀ p ∈ S, p ∈ c.u.all) ∧
  (∀ p ∈ S, ∀ d ∈ p.deps, isConflict d = false → ∃ q ∈ S, sat q d = true)
instance (c : Cfg) (S : List Pkg) : Decidable (PCtxB c S) := by unfold PCtxB; infer_instance
theorem pctx_of {c : Cfg} {S : List Pkg} (h : PCtxB c S) : PCtx c S := ⟨h.1, h.2.1, h.2.2⟩

def strongEntryB (S : List Pkg) (e : Text) : Bool :=
  e.head? != some '!' &&
  (S.any fun p => decide (parseConstraint e = ⟨p.name, p.version, .eq, (parseConstraint e).pin⟩)) &&
  S.all fun p => p.pin.isEmpty || decide (p.pin = (parseConstraint e).pin)
def strongLockB (S : List Pkg) (L : List Text) : Bool :=
  L.all (strongEntryB S) && S.all fun p => L.any fun e =>
    decide (parseConstraint e = ⟨p.name, p.version, .eq, (parseConstraint e).pin⟩)

theorem strongLock_of {S : List Pkg} {L : List Text} (h : strongLockB S L = true) : StrongLock S L := by
  simp only [strongLockB, Bool.and_eq_true, List.all_eq_true, List.any_eq_true, decide_eq_true_eq] at h
  constructor
  · intro e he
    have := h.1 e he
    simp only [strongEntryB, Bool.and_eq_true, bne_iff_ne, ne_eq, List.any_eq_true, decide_eq_true_eq,
      List.all_eq_true, Bool.or_eq_true, List.isEmpty_iff] at this
    obtain ⟨⟨hb, p, hp, hparse⟩, hpins⟩ := this
    exact ⟨head_ne_bang_of hb, ⟨p, hp, _, hparse⟩, hpins⟩
  · intro p hp
    obtain ⟨e, he, hparse⟩ := h.2 p hp
    exact ⟨e, he, _, hparse⟩

/-! ### a non-trivial value satisfies the hypotheses -/

def pv9 (id : Nat) (n v : String) (d p : List String) : Pkg :=
  { id := id, name := n.toList, version := v.toList, origin := [], repo := "r-".toList, pin := [],
    priority := 0, deps := d.map String.toList, provides := p.map String.toList, installIf := [] }

def vA := pv9 0 "a" "1.0-r0" ["v0"] []
def vP := pv9 1 "p" "1.0-r0" ["v1"] ["v0"]
def vQ := pv9 2 "q" "2.0-r0" [] ["v1=1.0"]
def vY := pv9 4 "y" "9.0-r0" [] ["v1=0.5"]
def vR := pv9 3 "r" "1.0-r0" [] ["v0"]
def cfgV : Cfg := mkCfg [⟨[], "r-".toList, [vA, vP, vQ, vY, vR]⟩]
def SV : List Pkg := [vR, vQ, vP, vA]
def lockV : List Text := ["a=1.0-r0".toList, "p=1.0-r0".toList, "q=2.0-r0".toList, "r=1.0-r0".toList]

set_option maxRecDepth 100000 in
/-- non-vacuity of `relock_exact_provides_partial`: `[r, a, p]` resolves to {r, q, p, a} — the virtual `v0` is provided
by two members (p and r, unversioned), p needs the virtual `v1`, which q provides with a version and for which the
non-member y competes; all hypotheses hold and the lock re-resolves to the same set -/
example : installOf (resolve cfgV ["r".toList, "a".toList, "p".toList] []) = some SV ∧
    PCtx cfgV SV ∧ PSide cfgV SV ∧ hypUniq cfgV SV ∧ StrongLock SV lockV ∧
    (installOf (resolve cfgV lockV [])).map (·.map (·.id)) = some [2, 1, 0, 3] :=
  ⟨by decide, pctx_of (by decide), pside_of (by decide) (by decide) (by decide), by decide, strongLock_of (by decide), by decide⟩

/-! ### the hypotheses named after finding classes are needed -/

def b9e := pv9 0 "e" "1.0" ["a<2"] ["virt"]
def b9a := pv9 1 "a" "2" [] []
def b9f := pv9 2 "f" "3" [] ["a=1"]
def cfg9b : Cfg := mkCfg [⟨[], "r-".toList, [b9e, b9a, b9f]⟩]
def lock9b : List Text := ["a=2".toList, "e=1.0".toList, "f=3".toList]

set_option maxRecDepth 100000 in
/-- `hb` (not F09b) is needed: f provides `a=1` next to the real a-2 (e needs `a<2`); `[a, virt]` resolves to the valid
set {a, f, e}; in the lock `constrain(a=2)` disqualifies f, so `f=3` has no candidate.  Every other hypothesis holds except `hh`, which the same provide breaks (the dependency
`a<2` names what f provides with a version; the driver's classifier answers F09b first). -/
theorem F09b_needed :
    installOf (resolve cfg9b ["a".toList, "virt".toList] []) = some [b9a, b9f, b9e] ∧
    validB cfg9b.u ["a".toList, "virt".toList] [b9a, b9f, b9e] = true ∧
    relockClass cfg9b.u ["a".toList, "virt".toList] [b9a, b9f, b9e] = "F09b" ∧
    PCtx cfg9b [b9a, b9f, b9e] ∧ hypUniq cfg9b [b9a, b9f, b9e] ∧ StrongLock [b9a, b9f, b9e] lock9b ∧
    PSideB1 cfg9b [b9a, b9f, b9e] ∧ hypNoConfName [b9a, b9f, b9e] ∧ PSideB3 [b9a, b9f, b9e] ∧
    ¬ hypB cfg9b [b9a, b9f, b9e] ∧
    installOf (resolve cfg9b lock9b []) = none :=
  ⟨by decide, by decide, by decide, pctx_of (by decide), by decide, strongLock_of (by decide), by decide, by decide,
    by decide, by decide, by decide⟩

def h9z := pv9 0 "z" "1" ["v<2"] []
def h9m := pv9 1 "m" "3" ["c"] ["v=1"]
def h9c := pv9 2 "c" "1" [] []
def cfg9h : Cfg := mkCfg [⟨[], "r-".toList, [h9z, h9m, h9c]⟩]
def lock9h : List Text := ["c=1".toList, "m=3".toList, "z=1".toList]

set_option maxRecDepth 100000 in
/-- `hh` (not F09h) is needed: z needs `v<2`, m-3 provides `v=1`; `[z]` resolves to the valid set {c, m, z}; in the
lock's order m is selected first and the `selected` shortcut then tests m's own version 3 against `<2` -/
theorem F09h_needed :
    installOf (resolve cfg9h ["z".toList] []) = some [h9c, h9m, h9z] ∧
    validB cfg9h.u ["z".toList] [h9c, h9m, h9z] = true ∧
    relockClass cfg9h.u ["z".toList] [h9c, h9m, h9z] = "F09h" ∧
    PCtx cfg9h [h9c, h9m, h9z] ∧ hypUniq cfg9h [h9c, h9m, h9z] ∧ StrongLock [h9c, h9m, h9z] lock9h ∧
    PSideB1 cfg9h [h9c, h9m, h9z] ∧ hypNoConfName [h9c, h9m, h9z] ∧ hypB cfg9h [h9c, h9m, h9z] ∧ PSideB3 [h9c, h9m, h9z] ∧
    ¬ hypH [h9c, h9m, h9z] ∧
    installOf (resolve cfg9h lock9h []) = none :=
  ⟨by decide, by decide, by decide, pctx_of (by decide), by decide, strongLock_of (by decide), by decide, by decide,
    by decide, by decide, by decide, by decide⟩

def m9a := pv9 0 "a" "1" ["b"] ["a=1"]
def m9b := pv9 1 "b" "1" ["c"] []
def m9c := pv9 2 "c" "1" [] []
def cfg9m : Cfg := mkCfg [⟨[], "r-".toList, [m9a, m9b, m9c]⟩]
def lock9m : List Text := ["a=1".toList, "b=1".toList, "c=1".toList]

set_option maxRecDepth 100000 in
/-- `hself` (not F09m) is needed: a provides its own name.  `[b, a]` resolves to the valid set {c, b, a}: b is visited
first and selected, a's dependency on b takes the `selected` shortcut, `pick(a)` never runs.  In the lock's order a comes
first, its dependency needs a candidate search, `pick(a)` runs and finds the name `a` taken — by a itself. -/
theorem F09m_self_needed :
    installOf (resolve cfg9m ["b".toList, "a".toList] []) = some [m9c, m9b, m9a] ∧
    validB cfg9m.u ["b".toList, "a".toList] [m9c, m9b, m9a] = true ∧
    relockClass cfg9m.u ["b".toList, "a".toList] [m9c, m9b, m9a] = "F09m" ∧
    PCtx cfg9m [m9c, m9b, m9a] ∧ hypUniq cfg9m [m9c, m9b, m9a] ∧ StrongLock [m9c, m9b, m9a] lock9m ∧
    PSideB1 cfg9m [m9c, m9b, m9a] ∧ PSideB2 cfg9m [m9c, m9b, m9a] ∧ hypV [m9c, m9b, m9a] ∧ hypD [m9c, m9b, m9a] ∧
    ¬ hypSelf [m9c, m9b, m9a] ∧ installOf (resolve cfg9m lock9m []) = none :=
  ⟨by decide, by decide, by decide, pctx_of (by decide), by decide, strongLock_of (by decide), by decide, by decide,
    by decide, by decide, by decide, by decide⟩

def t9a := pv9 0 "a" "1" ["b"] ["v=1", "v=2"]
def cfg9t : Cfg := mkCfg [⟨[], "r-".toList, [t9a, m9b, m9c]⟩]

set_option maxRecDepth 100000 in
/-- `hd` (not F09m) is needed: a provides `v=1` and `v=2`; same orders as above, `pick(a)` finds `v` taken by a itself -/
theorem F09m_twice_needed :
    installOf (resolve cfg9t ["b".toList, "a".toList] []) = some [m9c, m9b, t9a] ∧
    validB cfg9t.u ["b".toList, "a".toList] [m9c, m9b, t9a] = true ∧
    relockClass cfg9t.u ["b".toList, "a".toList] [m9c, m9b, t9a] = "F09m" ∧
    PCtx cfg9t [m9c, m9b, t9a] ∧ hypUniq cfg9t [m9c, m9b, t9a] ∧ StrongLock [m9c, m9b, t9a] lock9m ∧
    PSideB1 cfg9t [m9c, m9b, t9a] ∧ PSideB2 cfg9t [m9c, m9b, t9a] ∧ hypV [m9c, m9b, t9a] ∧ hypSelf [m9c, m9b, t9a] ∧
    ¬ hypD [m9c, m9b, t9a] ∧ installOf (resolve cfg9t lock9m []) = none :=
  ⟨by decide, by decide, by decide, pctx_of (by decide), by decide, strongLock_of (by decide), by decide, by decide,
    by decide, by decide, by decide, by decide⟩

def n9a := pv9 0 "a" "1" ["!v>=2"] []
def n9m := pv9 1 "m" "3" [] ["v=1"]
def cfg9n : Cfg := mkCfg [⟨[], "r-".toList, [n9a, n9m]⟩]
def lock9n : List Text := ["a=1".toList, "m=3".toList]

set_option maxRecDepth 100000 in
/-- `noConf` in its loose form (not F09n) is needed: a says `!v>=2`, m-3 provides `v=1`.  No member satisfies `v>=2`
(`conflictViolated` is false, the original is valid), but `disqualifyProviders` tests m's OWN version 3 against `>=2`
for the provided name and disqualifies m.  `[m, a]` resolves (m is picked before a's conflict is applied); in the lock's
order a comes first and `m=3` has no candidate left. -/
theorem F09n_needed :
    installOf (resolve cfg9n ["m".toList, "a".toList] []) = some [n9m, n9a] ∧
    validB cfg9n.u ["m".toList, "a".toList] [n9m, n9a] = true ∧
    conflictViolated ["m".toList, "a".toList] [n9m, n9a] = false ∧
    relockClass cfg9n.u ["m".toList, "a".toList] [n9m, n9a] = "F09n" ∧
    PCtx cfg9n [n9m, n9a] ∧ hypUniq cfg9n [n9m, n9a] ∧ StrongLock [n9m, n9a] lock9n ∧
    PSideB1 cfg9n [n9m, n9a] ∧ hypB cfg9n [n9m, n9a] ∧ hypH [n9m, n9a] ∧ PSideB3 [n9m, n9a] ∧
    ¬ hypNoConfName [n9m, n9a] ∧ installOf (resolve cfg9n lock9n []) = none :=
  ⟨by decide, by decide, by decide, by decide, pctx_of (by decide), by decide, strongLock_of (by decide), by decide,
    by decide, by decide, by decide, by decide, by decide⟩

def o9z := pv9 0 "z" "1" ["!a>=2", "!b>=2"] []
def o9a2 := pv9 1 "a" "2" [] []
def o9a1 := pv9 2 "a" "1" [] ["v=1"]
def o9b2 := pv9 3 "b" "2" [] []
def o9b1 := pv9 4 "b" "1" [] ["v=1"]
def cfg9o : Cfg := mkCfg [⟨[], "r-".toList, [o9z, o9a2, o9a1, o9b2, o9b1]⟩]
def lock9o : List Text := ["a=1".toList, "b=1".toList, "z=1".toList]

set_option maxRecDepth 100000 in
/-- `hv` (not F09o) is needed: a-1 and b-1 both provide `v=1`.  `[z, a, b]`: the first loop picks a-2 and b-2; z's
conflicts `!a>=2`, `!b>=2` then disqualify them, and the second loop re-picks a-1 and b-1 — without
`disqualifyConflicts`, so neither disqualifies the other.  The resolution {z, a-1, b-1} is valid.  In its lock the first
loop picks a-1, which disqualifies b-1: `b=1` has no candidate.  Every other hypothesis holds. -/
theorem F09o_needed :
    installOf (resolve cfg9o ["z".toList, "a".toList, "b".toList] []) = some [o9z, o9a1, o9b1] ∧
    validB cfg9o.u ["z".toList, "a".toList, "b".toList] [o9z, o9a1, o9b1] = true ∧
    relockClass cfg9o.u ["z".toList, "a".toList, "b".toList] [o9z, o9a1, o9b1] = "F09o" ∧
    PCtx cfg9o [o9z, o9a1, o9b1] ∧ hypUniq cfg9o [o9z, o9a1, o9b1] ∧ StrongLock [o9z, o9a1, o9b1] lock9o ∧
    PSideB1 cfg9o [o9z, o9a1, o9b1] ∧ PSideB2 cfg9o [o9z, o9a1, o9b1] ∧ hypSelf [o9z, o9a1, o9b1] ∧ hypD [o9z, o9a1, o9b1] ∧
    ¬ hypV [o9z, o9a1, o9b1] ∧ installOf (resolve cfg9o lock9o []) = none :=
  ⟨by decide, by decide, by decide, pctx_of (by decide), by decide, strongLock_of (by decide), by decide, by decide,
    by decide, by decide, by decide, by decide⟩

theorem provTwice_false : ∀ (l : List Text), provTwice l = false →
    l.Pairwise (fun a b => (parseConstraint a).version ≠ [] → provName a ≠ provName b) := by
  intro l
  induction l with
  | nil => intro _; exact List.Pairwise.nil
  | cons a rest ih =>
    intro h
    simp only [provTwice, Bool.or_eq_false_iff, Bool.and_eq_false_iff, Bool.not_eq_false', List.isEmpty_iff,
      List.any_eq_false, decide_eq_true_eq] at h
    refine List.Pairwise.cons ?_ (ih h.2)
    intro b hb hv he
    rcases h.1 with h1 | h1
    · exact hv h1
    · exact h1 b hb he.symm

/-- a dependency with a real operator that some package satisfies has a version text that parses -/
theorem sat_dep_parses {q : Pkg} {d : Text} (hsat : sat q d = true) (hany : (parseConstraint d).dep ≠ .any)
    (hve : (parseConstraint d).version ≠ []) : ∃ v, pv (parseConstraint d).version = some v := by
  unfold sat at hsat
  simp only [Bool.or_eq_true, Bool.and_eq_true, decide_eq_true_eq, List.any_eq_true, List.isEmpty_iff] at hsat
  rcases hsat with ⟨_, h2⟩ | ⟨pr, _, _, h2⟩
  · rcases h2 with (h2 | h2) | h2
    · exact absurd h2 hve
    · exact absurd h2 hany
    · split at h2
      · next a r ha hr => exact ⟨r, hr⟩
      · cases h2
  · rcases h2 with (h2 | h2) | h2
    · exact absurd h2 hve
    · exact absurd h2 hany
    · obtain ⟨_, h3⟩ := h2
      rcases h3 with (h3 | h3) | h3
      · exact absurd h3 hve
      · exact absurd h3 hany
      · split at h3
        · next a r ha hr => exact ⟨r, hr⟩
        · cases h3

/-! ### the bridge from the driver's classifier, with provides -/

/-- T `relock_unlisted_exact_provides_partial` (towards `RelockClassesComplete`): for every successful resolution `r` in
ANY universe with distinct ids — provides included — whose class is `unlisted` (no pin lost, valid original without
violated conflict, parsable versions, nobody provides a member's name, no versioned dependency on a provided name,
no install_if, unique (name, version), no junk version text), the lock `unify` emits re-resolves to exactly
`r.install`, PROVIDED `horder` (the provider order knows the members; true for the driver's `ownNames` and for Go's
map).  The class list this theorem is stated for includes F09l, F09m (a member provides its own name, or a name twice),
F09n (a `!x` dependency reaches a member through the loose candidate filter of `disqualifyProviders`) and F09o (two
members provide one name, one of them with a version): all four were found as unprovable cases of this theorem and
replayed on the real code. -/
theorem relock_unlisted_exact_provides_partial (c : Cfg) (w : List Text) (dq0 : List Nat) (r : Resolution)
    (hres : resolve c w dq0 = .ok r) (hids : C02.IdsDistinct c.u)
    (hread : EntriesReadBack w r.install) (horder : ∀ q ∈ r.install, q.name ∈ c.order)
    (hcls : relockClass c.u w r.install = "unlisted") :
    ∃ r', resolve c (lockOf w r.install) [] = .ok r' ∧ sameMembers r'.install r.install := by
  unfold relockClass at hcls
  split at hcls; · exact absurd hcls (by decide)
  next hpin =>
  split at hcls; · exact absurd hcls (by decide)
  next hinv =>
  split at hcls; · exact absurd hcls (by decide)
  next hpv =>
  split at hcls; · exact absurd hcls (by decide)
  next hplock =>
  split at hcls; · exact absurd hcls (by decide)
  next hvdep =>
  split at hcls; · exact absurd hcls (by decide)
  next hiif =>
  split at hcls; · exact absurd hcls (by decide)
  next hdup =>
  split at hcls; · exact absurd hcls (by decide)
  next hjunk =>
  split at hcls; · exact absurd hcls (by decide)
  next hselfc =>
  split at hcls; · exact absurd hcls (by decide)
  next hhits =>
  split at hcls; · exact absurd hcls (by decide)
  next htwo =>
  have hv : hypV r.install := by
    intro m1 hm1 m2 hm2 hne pr1 hpr1 pr2 hpr2 hn
    apply Classical.byContradiction
    intro hnot
    apply htwo
    unfold twoMembersProvideVersioned
    rw [List.any_eq_true]; refine ⟨m1, hm1, ?_⟩
    rw [List.any_eq_true]; refine ⟨m2, hm2, ?_⟩
    rw [Bool.and_eq_true]; refine ⟨by simpa using hne, ?_⟩
    rw [List.any_eq_true]; refine ⟨pr1, hpr1, ?_⟩
    rw [List.any_eq_true]; refine ⟨pr2, hpr2, ?_⟩
    simp only [Bool.and_eq_true, decide_eq_true_eq, Bool.not_eq_true', Bool.and_eq_false_iff, List.isEmpty_eq_false_iff]
    refine ⟨hn, ?_⟩
    by_cases h1 : (parseConstraint pr1).version = []
    · by_cases h2 : (parseConstraint pr2).version = []
      · exact absurd ⟨h1, h2⟩ hnot
      · exact Or.inr h2
    · exact Or.inl h1
  simp only [invalidOriginal, Bool.or_eq_true, Bool.not_eq_true', not_or, Bool.not_eq_true] at hinv
  obtain ⟨hvalid, _⟩ := hinv
  have hvalid2 : validB c.u w r.install = true := by
    cases hvb : validB c.u w r.install with
    | true => rfl
    | false => rw [hvb] at hvalid; exact absurd rfl hvalid
  have hself : hypSelf r.install := by
    intro m hm pr hpr hn
    apply hselfc
    unfold selfConflictingProvides
    rw [List.any_eq_true]; refine ⟨m, hm, ?_⟩
    simp only [Bool.or_eq_true, List.any_eq_true, decide_eq_true_eq]
    exact Or.inl ⟨pr, hpr, hn⟩
  have hd : hypD r.install := by
    intro m hm
    apply provTwice_false
    cases hpt : provTwice m.provides with
    | false => rfl
    | true =>
      exfalso
      apply hselfc
      unfold selfConflictingProvides
      rw [List.any_eq_true]; refine ⟨m, hm, ?_⟩
      simp [hpt]
  have hnoconf : hypNoConfName r.install := by
    intro p hp d hd2 hc q hq hcar
    unfold isConflict at hc
    split at hc
    · next x =>
      cases hacc : acceptsOne [] (parseConstraint (List.drop 1 ('!' :: x))).version
          (parseConstraint (List.drop 1 ('!' :: x))).dep [] (parseConstraint (List.drop 1 ('!' :: x))).pin none q with
      | false => rfl
      | true =>
        exfalso
        apply hhits
        unfold conflictHitsMember
        rw [List.any_eq_true]; refine ⟨p, hp, ?_⟩
        rw [List.any_eq_true]; refine ⟨_, hd2, ?_⟩
        simp only
        rw [List.any_eq_true]; refine ⟨q, hq, ?_⟩
        simp only [List.drop_succ_cons, List.drop_zero] at hacc hcar
        simp only [Bool.and_eq_true, Bool.or_eq_true, decide_eq_true_eq, List.any_eq_true, hacc, and_true]
        exact hcar
    · cases hc
  obtain ⟨_, hclosed, hpw, _⟩ := (C02.validB_iff c.u w r.install).mp hvalid2
  have hsub := C02.resolve_subset c w dq0 r hres
  have hnames := names_of_pairwise hpw
  have ctx : PCtx c r.install := by
    refine ⟨?_, hsub, hclosed⟩
    intro q hq
    simp only [hasInstallIf, List.any_eq_true, not_exists, not_and, Bool.not_eq_true', Bool.not_eq_false,
      List.isEmpty_iff] at hiif
    exact hiif q hq
  have hb : hypB c r.install := by
    intro x hx pr hpr p hp hn
    have hxn : x.name = p.name := by
      apply Classical.byContradiction
      intro hne
      apply hplock
      unfold providesLockedName
      rw [List.any_eq_true]; refine ⟨x, hx, ?_⟩
      rw [List.any_eq_true]; refine ⟨pr, hpr, ?_⟩
      rw [List.any_eq_true]; refine ⟨p, hp, ?_⟩
      simp only [Bool.and_eq_true, decide_eq_true_eq, bne_iff_ne, ne_eq]
      exact ⟨hn.symm, fun e => hne e.symm⟩
    exact hxn
  have hh : hypH r.install := by
    intro p hp d hd hnc hve q hq pr hpr hn
    apply Classical.byContradiction
    intro hvne
    apply hvdep
    unfold versionedDepOnProvided
    simp only [Bool.or_eq_true]
    right
    rw [List.any_eq_true]; refine ⟨p, hp, ?_⟩
    rw [List.any_eq_true]; refine ⟨d, hd, ?_⟩
    simp only [hnc, Bool.not_false, Bool.true_and, Bool.and_eq_true, Bool.not_eq_true', List.any_eq_true,
      bne_iff_ne, ne_eq, decide_eq_true_eq]
    refine ⟨by simpa using hve, q, hq, ?_, pr, hpr, hn, by simpa using hvne⟩
    intro hqn
    exact hself q hq pr hpr (hn.trans hqn.symm)
  have hdep : hypDepPv r.install := by
    intro p hp d hd hnc
    by_cases hve : (parseConstraint d).version = []
    · exact Or.inl hve
    · right
      by_cases hany : (parseConstraint d).dep = .any
      · cases hpv2 : pv (parseConstraint d).version with
        | some v => rfl
        | none =>
          exfalso
          apply hjunk
          unfold anyOpJunkVersion
          rw [List.any_eq_true]; refine ⟨p, hp, ?_⟩
          rw [List.any_eq_true]; refine ⟨d, hd, ?_⟩
          simp [hnc, hany, hpv2, hve]
      · obtain ⟨q, _, hsat⟩ := hclosed p hp d hd hnc
        obtain ⟨v, hv⟩ := sat_dep_parses hsat hany hve
        rw [hv]; rfl
  have sd : PSide c r.install := by
    refine pside_of ⟨hids, hnames, ?_, hdep, horder⟩ ⟨hnoconf, hb, hh⟩ ⟨hself, hv, hd⟩
    intro p hp
    simp only [unparsableVersion, List.any_eq_true, not_exists, not_and, Bool.not_eq_true] at hpv
    have := hpv p hp
    cases h : pv p.version with
    | none => rw [h] at this; cases this
    | some v => rfl
  have huniq : hypUniq c r.install := by
    intro x hx p hp hn hvm
    simp only [dupNameVersion, List.any_eq_true, not_exists, not_and, Bool.and_eq_true, bne_iff_ne, ne_eq,
      decide_eq_true_eq, Bool.or_eq_true] at hdup
    have hidq : x.id = p.id := by
      apply Classical.byContradiction
      intro hne
      have hd := hdup p hp x hx
      unfold versionMatches at hvm
      split at hvm
      · next a b ha hb2 =>
        simp only [ha, hb2] at hd
        exact hd ⟨hne, hn⟩ (Or.inr (by simpa [Dep.satisfies] using hvm))
      · cases hvm
    exact C02.eq_of_id_eq hids hx (hsub p hp) hidq
  have hL : StrongLock r.install (lockOf w r.install) := by
    constructor
    · intro e he
      obtain ⟨q, hq, rfl⟩ := (mem_lockOf w r.install hpw e).mp he
      refine ⟨(hread q hq).1, ⟨q, hq, _, (hread q hq).2⟩, ?_⟩
      rw [(hread q hq).2]
      intro p hp
      simp only [pinLost, List.any_eq_true, not_exists, not_and, Bool.and_eq_true, Bool.not_eq_true', bne_iff_ne,
        ne_eq, Decidable.not_not] at hpin
      by_cases hpe : p.pin = []
      · exact Or.inl hpe
      · right
        have h1 : p.pin.isEmpty = false := by simpa using hpe
        exact (hpin p hp h1 q hq).symm
    · intro p hp
      exact ⟨_, (mem_lockOf w r.install hpw _).mpr ⟨p, hp, rfl⟩, _, (hread p hp).2⟩
  exact relock_exact_provides_partial c r.install _ ctx sd huniq hL

set_option maxRecDepth 100000 in
/-- non-vacuity of `relock_unlisted_exact_provides_partial`: its hypotheses hold for the resolution `SV` of `[r, a, p]`
in `cfgV` (two members provide `v0`, a versioned provide, a non-member competitor) -/
example : installOf (resolve cfgV ["r".toList, "a".toList, "p".toList] []) = some SV ∧ C02.IdsDistinct cfgV.u ∧
    EntriesReadBack ["r".toList, "a".toList, "p".toList] SV ∧ (∀ q ∈ SV, q.name ∈ cfgV.order) ∧ hypV SV ∧
    relockClass cfgV.u ["r".toList, "a".toList, "p".toList] SV = "unlisted" := by
  refine ⟨by decide, by decide, ?_, by decide, by decide, by decide⟩
  intro p hp
  simp only [SV, List.mem_cons, List.not_mem_nil, or_false] at hp
  rcases hp with rfl | rfl | rfl | rfl <;> exact ⟨head_ne_bang_of (by decide), by decide⟩

/-! ### the provider order of the driver -/

theorem mem_insertName (x y : Text) : ∀ (l : List Text), y ∈ insertName x l ↔ y = x ∨ y ∈ l := by
  intro l
  induction l with
  | nil => simp [insertName]
  | cons z zs ih =>
    unfold insertName
    split
    · simp
    · split
      · next h => subst h; simp
      · simp only [List.mem_cons, ih]
        constructor
        · rintro (h | h | h)
          · exact Or.inr (Or.inl h)
          · exact Or.inl h
          · exact Or.inr (Or.inr h)
        · rintro (h | h | h)
          · exact Or.inr (Or.inl h)
          · exact Or.inl h
          · exact Or.inr (Or.inr h)

theorem mem_sortNames (y : Text) : ∀ (l : List Text), y ∈ sortNames l ↔ y ∈ l := by
  intro l
  induction l with
  | nil => simp [sortNames]
  | cons x xs ih =>
    have : sortNames (x :: xs) = insertName x (sortNames xs) := rfl
    rw [this, mem_insertName, ih]
    simp

/-- the driver's provider order (`cfgOf`: `ownNames`) knows every package of the universe -/
theorem ownNames_knows (u : Universe) (p : Pkg) (hp : p ∈ u.all) : p.name ∈ ownNames u := by
  unfold ownNames
  rw [mem_sortNames]
  exact List.mem_map.mpr ⟨p, hp, rfl⟩

/-- T `relock_unlisted_exact_provides_driver_partial`: `relock_unlisted_exact_provides_partial` for the configuration the
driver evaluates (`order = ownNames`): the only hypotheses left besides `unlisted` are distinct ids and the read-back of
the lock entries (characters) -/
theorem relock_unlisted_exact_provides_driver_partial (c : Cfg) (w : List Text) (dq0 : List Nat) (r : Resolution)
    (hc : c.order = ownNames c.u) (hres : resolve c w dq0 = .ok r) (hids : C02.IdsDistinct c.u)
    (hread : EntriesReadBack w r.install)
    (hcls : relockClass c.u w r.install = "unlisted") :
    ∃ r', resolve c (lockOf w r.install) [] = .ok r' ∧ sameMembers r'.install r.install :=
  relock_unlisted_exact_provides_partial c w dq0 r hres hids hread
    (fun q hq => by rw [hc]; exact ownNames_knows c.u q (C02.resolve_subset c w dq0 r hres q hq)) hcls

/-- T `relock_classes_complete`: `RelockClassesComplete` (Proofs/C09.lean) HOLDS — for every universe with distinct ids
(provides, virtual names, pinned repositories, install_if: any), every world, every initial disqualification set and
every provider order that knows the packages: if the resolution succeeds and the driver's classifier answers `unlisted`,
the lock `unify` emits for it re-resolves, to exactly the same set.  So on the model a failing round trip outside the
finding classes F09a–F09o is impossible; with Go = Impl (the correspondence of every run) a failing round trip of the
real code outside the classes is reported as a violation, never absorbed.  (install_if universes are all in class F09c.) -/
theorem relock_classes_complete : RelockClassesComplete := by
  intro c w dq0 r hres hids horder hread hcls
  exact relock_unlisted_exact_provides_partial c w dq0 r hres hids hread
    (fun q hq => horder q (C02.resolve_subset c w dq0 r hres q hq)) hcls

end Apko.C09
