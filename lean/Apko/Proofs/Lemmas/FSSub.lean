import Apko.Proofs.Lemmas.AccountsExt
/-! `SubFS` (`pkg/apk/fs/sub.go`): a view that rewrites every path argument with `filepath.Join(Root, ·)`
and hands the call to the base file system (`subOp`).  What must hold for the view to be "the base
under a prefix": *every* path argument of *every* method is rewritten (before the repair of F17i
`Symlink` and `Link` were not), so that what is created through the view is found through the view. -/
namespace Apko.FS
open Apko Apko.Path Apko.Accounts

/-- the arguments of an operation that are paths of the file system the call is made on (a symlink's
target is text stored in the link, not a path that is looked up; handle operations carry no path) -/
def Op.paths : Op → List Text
  | .mkdir p _ | .mkdirAll p _ | .openFile p _ _ | .create p | .readFile p | .writeFile p _ _ | .readDir p
  | .stat p | .lstat p | .remove p | .chmod p _ | .chown p _ _ | .chtimes p _ | .readlink p | .mknod p _ _
  | .readnod p | .setXattr p _ _ | .getXattr p _ | .removeXattr p _ | .listXattrs p => [p]
  | .symlink _ p => [p]
  | .link o p => [o, p]
  | .writeHeader h => [h.name]
  | _ => []

/-- the methods a `SubFS` has (`WriteHeader` belongs to `tarfs` only) -/
def Op.isFullFS : Op → Bool
  | .writeHeader _ => false
  | _ => true

/-- **subfs_refines** (rewriting): a call through the view is the same call on the base with every
path argument joined to the view's root, and nothing else changed -/
theorem subOp_paths (r : Text) (op : Op) (h : op.isFullFS = true) :
    (subOp r op).paths = op.paths.map (join2 r) := by
  cases op <;> first | rfl | (simp [Op.isFullFS] at h)

/-- the state machine of a view with root `r`: runs on the state of the base -/
def stepSub (c : Cfg) (r : Text) (fs : FS) (op : Op) : FS × Out := step c fs (subOp r op)

def runSub (c : Cfg) (r : Text) : FS → List Op → FS × List Out
  | fs, [] => (fs, [])
  | fs, op :: ops =>
    let (fs1, o) := stepSub c r fs op
    let (fs2, os) := runSub c r fs1 ops
    (fs2, o :: os)

/-- **subfs_refines** (simulation): a sequence of calls through the view produces exactly the results
and the base state of the rewritten sequence run on the base — the view has no state of its own -/
theorem subfs_refines (c : Cfg) (r : Text) : ∀ (ops : List Op) (fs : FS),
    runSub c r fs ops = run c fs (ops.map (subOp r)) := by
  intro ops
  induction ops with
  | nil => intro fs; rfl
  | cons op rest ih => intro fs; simp only [runSub, stepSub, List.map_cons, run, ih]

/-- the view preserves the invariants of the base (it only issues base operations) -/
theorem stepSub_inv (c : Cfg) (r : Text) (fs : FS) (op : Op) (hi : Inv fs) (hb : DirBit fs) :
    Inv (stepSub c r fs op).1 := inv_step c fs (subOp r op) hi hb

/-- after a successful `Symlink(t, q)`, `Readlink(q)` returns `t` (Impl resolution) -/
theorem symlink_then_readlink (c : Cfg) (hc : c.posix = false) (fs : FS) (hi : Inv fs) (t q : Text)
    (hok : (step c fs (.symlink t q)).2 = .ok .unit) :
    (step c (step c fs (.symlink t q)).1 (.readlink q)).2 = .ok (.text t) := by
  simp only [step, parentOf] at hok
  cases hg : getNode c fs (dir q) with
  | error e => simp [hg] at hok
  | ok pi =>
    simp only [hg] at hok
    cases hd : (fs.node pi).dir with
    | false => simp [hd] at hok
    | true =>
      simp only [hd, Bool.not_true, Bool.false_eq_true, if_false] at hok
      cases hdn : dotName (base q) with
      | true => simp [hdn] at hok
      | false =>
        simp only [hdn, Bool.false_eq_true, if_false] at hok
        cases hl : fs.lookup pi (base q) with
        | some x => simp [hl] at hok
        | none =>
          have hs : step c fs (.symlink t q) =
              ((fs.create pi (base q) { mode := modeSymlink + 0o777, target := t, mtime := (fs.node pi).mtime }).1,
               .ok .unit) := by
            simp [step, parentOf, hg, hd, hdn, hl]
          rw [hs]
          have hext := ext_create hi pi (base q)
            { mode := modeSymlink + 0o777, target := t, mtime := (fs.node pi).mtime } hd hl
          have hg' := getNode_ext hc hext hg
          have hlk := lookup_create fs pi (base q)
            { mode := modeSymlink + 0o777, target := t, mtime := (fs.node pi).mtime } hd
          have hnode := node_create_new fs pi (base q)
            { mode := modeSymlink + 0o777, target := t, mtime := (fs.node pi).mtime } hd
          have hsym : Inode.isSymlink { mode := modeSymlink + 0o777, target := t, mtime := (fs.node pi).mtime } = true := by
            show (modeSymlink + 0o777).testBit 27 = true; decide
          simp only [step, readlinkOp, parentOf, hg', hlk, hnode, hsym]
          rfl

/-- the property F17i violated: a link made through a view is read back through the view -/
theorem sub_symlink_then_readlink (c : Cfg) (hc : c.posix = false) (r : Text) (fs : FS) (hi : Inv fs) (t p : Text)
    (hok : (stepSub c r fs (.symlink t p)).2 = .ok .unit) :
    (stepSub c r (stepSub c r fs (.symlink t p)).1 (.readlink p)).2 = .ok (.text t) :=
  symlink_then_readlink c hc fs hi t (join2 r p) hok

end Apko.FS
