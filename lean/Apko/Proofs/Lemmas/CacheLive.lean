/-
C19 helper: a builder running alone (`exec`) from any good directory, with fresh temp names,
finishes successfully — the recovery builds after any crash.
-/
import Apko.Proofs.Lemmas.CacheStep

set_option linter.unusedSimpArgs false

namespace Apko.C19
open Apko.Cache

def updG (g : Name → Option Node) (x : Name) (v : Option Node) : Name → Option Node :=
  fun y => if y = x then v else g y

theorem set_get_eq (fs : FS) (x : Name) (v : Option Node) : (fs.set x v).get = updG fs.get x v := rfl

/-- the builder finishes successfully from every file system whose directory is `g` -/
def SG (g : Name → Option Node) (prog : Prog) : Prop :=
  ∀ (fs : FS) (Γ : Ctx) (obs : List Obs), fs.get = g → (exec fs Γ obs prog).2.2.2 = true

def NoLinkTo (g : Name → Option Node) (t : Name) : Prop := ∀ k, g (.adv k) ≠ some (.link t)

theorem SG_halt (g : Name → Option Node) : SG g (.halt true) := by
  intro fs Γ obs _; rfl

theorem SG_mkdir {g : Name → Option Node} {next : Prog} (h : SG g next) : SG g (.op .mkdir next) := by
  intro fs Γ obs hfs; simp only [exec, stepOp]; exact h fs _ _ hfs

theorem SG_mark {g : Name → Option Node} {next : Prog} (m : Nat) (h : SG g next) :
    SG g (.op (.mark m) next) := by
  intro fs Γ obs hfs; simp only [exec, stepOp]; exact h fs _ _ hfs

theorem SG_create {g : Name → Option Node} {next : Prog} {t : Name} {c : Cid} (ht : g t = none)
    (h : SG (updG g t (some (.file c false))) next) : SG g (.op (.create t c) next) := by
  intro fs Γ obs hfs
  subst hfs
  simp only [exec, stepOp, ht]
  exact h _ _ _ (set_get_eq ..)

theorem SG_chunk {g : Name → Option Node} {next : Prog} {t : Name} {c : Cid} {b : Bool}
    (ht : g t = some (.file c b)) (h : SG (updG g t (some (.file c false))) next) :
    SG g (.op (.chunk t) next) := by
  intro fs Γ obs hfs
  subst hfs
  simp only [exec, stepOp, ht]
  exact h _ _ _ (set_get_eq ..)

theorem SG_finish {g : Name → Option Node} {next : Prog} {t : Name} {c : Cid} {b : Bool}
    (ht : g t = some (.file c b)) (h : SG (updG g t (some (.file c true))) next) :
    SG g (.op (.finish t) next) := by
  intro fs Γ obs hfs
  subst hfs
  simp only [exec, stepOp, ht]
  exact h _ _ _ (set_get_eq ..)

theorem updG_self {g : Name → Option Node} {t : Name} {v : Option Node} (h : g t = v) :
    updG g t v = g := by
  funext y; unfold updG; split
  · next e => rw [e, h]
  · rfl

theorem SG_chunks {g : Name → Option Node} {rest : Prog} {t : Name} {c : Cid} (n : Nat)
    (ht : g t = some (.file c false)) (h : SG g rest) : SG g (chunks n t rest) := by
  induction n with
  | zero => exact h
  | succ n ih =>
    refine SG_chunk ht ?_
    rw [updG_self ht]; exact ih

theorem SG_read {g : Name → Option Node} {next : Prog} {n : Name} {checked : Bool} {c : Cid}
    (hr : resolveG g n = some (c, true)) (h : SG g next) : SG g (.op (.read n checked) next) := by
  intro fs Γ obs hfs
  subst hfs
  simp only [exec, stepOp, resolve_eq, hr]
  simp
  exact h _ _ _ rfl

theorem SG_ifStat {g : Name → Option Node} {y no : Prog} {n : Name}
    (hy : (resolveG g n).isSome = true → SG g y) (hn : resolveG g n = none → SG g no) :
    SG g (.ifStat n y no) := by
  intro fs Γ obs hfs
  subst hfs
  simp only [exec]
  have hst : fs.stat n = (resolveG fs.get n).isSome := rfl
  by_cases h : fs.stat n = true
  · rw [if_pos h]; exact hy (by rw [← hst]; exact h) _ _ _ rfl
  · rw [if_neg h]
    have : resolveG fs.get n = none := by
      cases hr : resolveG fs.get n with
      | none => rfl
      | some v => rw [hst, hr] at h; simp at h
    exact hn this _ _ _ rfl

theorem SG_symlink_new {g : Name → Option Node} {next : Prog} {t dst : Name} (hd : g dst = none)
    (h : SG (updG g dst (some (.link t))) next) : SG g (.op (.symlink t dst) next) := by
  intro fs Γ obs hfs
  subst hfs
  simp only [exec, stepOp, hd]
  exact h _ _ _ (set_get_eq ..)

theorem SG_remove {g : Name → Option Node} {next : Prog} {t : Name}
    (h : SG (updG g t none) next) : SG g (.op (.remove t) next) := by
  intro fs Γ obs hfs
  subst hfs
  simp only [exec, stepOp]
  exact h _ _ _ (set_get_eq ..)

theorem SG_rename {g : Name → Option Node} {next : Prog} {t dst : Name} {nd : Node}
    (ht : g t = some nd) (h : SG (updG (updG g dst (some nd)) t none) next) :
    SG g (.op (.rename t dst) next) := by
  intro fs Γ obs hfs
  subst hfs
  simp only [exec, stepOp, ht]
  exact h _ _ _ rfl

theorem present_resolves {g : Name → Option Node} (hg : GoodFS g) {k : Cid}
    (hk : g (.adv k) ≠ none) : resolveG g (.adv k) = some (k, true) := by
  unfold resolveG
  cases hn : g (.adv k) with
  | none => exact absurd hn hk
  | some n =>
    cases n with
    | file c b => have := hg.advFile k c b hn; simp [this.1, this.2]
    | link t => simp [hg.advLink k t hn]

theorem absent_of_unresolved {g : Name → Option Node} (hg : GoodFS g) {k : Cid}
    (h : resolveG g (.adv k) = none) : g (.adv k) = none := by
  cases hn : g (.adv k) with
  | none => rfl
  | some n =>
    have := present_resolves hg (k := k) (by rw [hn]; simp)
    rw [this] at h; cases h

theorem present_of_resolved {g : Name → Option Node} {k : Cid}
    (h : (resolveG g (.adv k)).isSome = true) : g (.adv k) ≠ none := by
  intro hn; unfold resolveG at h; rw [hn] at h; simp at h

theorem adv_ne_tmp {t : Name} (ht : t.isTmp = true) (k : Cid) : Name.adv k ≠ t := by
  intro e; rw [← e] at ht; simp [Name.isTmp] at ht

/-- only temp names that were absent change: the directory stays good -/
theorem good_of_fresh_changes {g g' : Name → Option Node} (hg : GoodFS g)
    (hadv : ∀ k, g' (.adv k) = g (.adv k)) (hkeep : ∀ x, g x ≠ none → g' x = g x) : GoodFS g' := by
  refine ⟨?_, ?_⟩
  · intro k c b he; rw [hadv] at he; exact hg.advFile k c b he
  · intro k t he; rw [hadv] at he
    have := hg.advLink k t he
    rw [hkeep t (by rw [this]; simp)]; exact this

theorem nolink_of_fresh {g g' : Name → Option Node} (hg : GoodFS g) {t : Name} (ht : g t = none)
    (hadv : ∀ k, g' (.adv k) = g (.adv k)) : NoLinkTo g' t := by
  intro k he; rw [hadv] at he
  have := hg.advLink k t he
  rw [ht] at this; cases this

/-- `AdvertiseCachedFile` run alone: afterwards the final name is present in a good directory, other
temps are untouched, present final names stay present -/
theorem SG_advertise {g : Name → Option Node} {t : Name} {k : Cid} {rest : Prog} (hg : GoodFS g)
    (ht : g t = some (.file k true)) (htmp : t.isTmp = true) (hnl : NoLinkTo g t)
    (hrest : ∀ g', GoodFS g' → g' (.adv k) ≠ none →
      (∀ x, x.isTmp = true → x ≠ t → g' x = g x) →
      (∀ k', g (.adv k') ≠ none → g' (.adv k') ≠ none) →
      (∀ x, x.isTmp = true → x ≠ t → NoLinkTo g x → NoLinkTo g' x) →
      SG g' rest) : SG g (advertise t k rest) := by
  have hat := adv_ne_tmp htmp
  unfold advertise
  refine SG_ifStat ?_ ?_
  · intro hres
    have hpres := present_of_resolved hres
    refine SG_remove (hrest _ ⟨?_, ?_⟩ ?_ ?_ ?_ ?_)
    · intro k' c b he; simp only [updG, hat k', if_false] at he; exact hg.advFile k' c b he
    · intro k' t' he
      simp only [updG, hat k', if_false] at he
      have hne : t' ≠ t := by intro e; subst e; exact hnl k' he
      simp only [updG, hne, if_false]; exact hg.advLink k' t' he
    · simp only [updG, hat k, if_false]; exact hpres
    · intro x _ hx; simp [updG, hx]
    · intro k' hk'; simp only [updG, hat k', if_false]; exact hk'
    · intro x _ _ hnx k' he; simp only [updG, hat k', if_false] at he; exact hnx k' he
  · intro hres
    have habs := absent_of_unresolved hg hres
    refine SG_symlink_new habs (hrest _ ⟨?_, ?_⟩ ?_ ?_ ?_ ?_)
    · intro k' c b he
      simp only [updG] at he
      split at he
      · cases he
      · exact hg.advFile k' c b he
    · intro k' t' he
      simp only [updG] at he ⊢
      split at he
      · next e =>
        cases he; cases e
        simp only [(hat k).symm, if_false]; exact ht
      · have := hg.advLink k' t' he
        have hne : t' ≠ .adv k := by intro e; rw [e, habs] at this; cases this
        simp only [hne, if_false]; exact this
    · simp [updG]
    · intro x hx _
      have : x ≠ .adv k := fun e => (adv_ne_tmp hx k) e.symm
      simp [updG, this]
    · intro k' hk'
      simp only [updG]; split
      · simp
      · exact hk'
    · intro x _ hxt hnx k' he
      simp only [updG] at he
      split at he
      · cases he; exact hxt rfl
      · exact hnx k' he

/-- `PackageData` + `installPackage`'s reads, alone, with control and data advertised -/
theorem SG_pkgData {g : Name → Option Node} {t4 : Name} {k1 k2 k3 : Cid} (n : Nat) (hg : GoodFS g)
    (h1 : g (.adv k1) ≠ none) (h2 : g (.adv k2) ≠ none) (h4 : g t4 = none) (htmp : t4.isTmp = true) :
    SG g (pkgData t4 k2 k3 n (pkgUse k1)) := by
  have hat := adv_ne_tmp htmp
  unfold pkgData pkgUse
  refine SG_ifStat ?_ ?_
  · intro hres
    refine SG_read (present_resolves hg (present_of_resolved hres)) ?_
    exact SG_read (present_resolves hg h1) (SG_halt _)
  · intro hres
    have habs := absent_of_unresolved hg hres
    have hk13 : k1 ≠ k3 := by intro e; rw [e] at h1; exact h1 habs
    refine SG_read (present_resolves hg h2) (SG_mark _ (SG_create h4 (SG_mark _ ?_)))
    refine SG_chunks n (c := k3) (by simp [updG]) (SG_finish (c := k3) (b := false) (by simp [updG]) ?_)
    refine SG_rename (nd := .file k3 true) (by simp [updG]) (SG_mark _ ?_)
    refine SG_read (c := k3) ?_ (SG_read (c := k1) ?_ (SG_halt _))
    · simp [resolveG, updG, hat k3]
    · -- the control section is still reachable: its entry and its target are untouched
      have hne : Name.adv k1 ≠ Name.adv k3 := by intro e; cases e; exact hk13 rfl
      have hold := present_resolves hg h1
      unfold resolveG at hold ⊢
      simp only [updG, hat k1, hne, if_false]
      cases hn : g (.adv k1) with
      | none => exact absurd hn h1
      | some nd =>
        cases nd with
        | file c b => rw [hn] at hold; exact hold
        | link t' =>
          rw [hn] at hold
          have ht' := hg.advLink k1 t' hn
          have ne4 : t' ≠ t4 := by intro e; rw [e, h4] at ht'; cases ht'
          have ne3 : t' ≠ .adv k3 := by intro e; rw [e, habs] at ht'; cases ht'
          simp only [ne4, ne3, if_false]; exact hold

theorem SG_unsigned {g : Name → Option Node} {next : Prog} (k : Cid) (h : SG g next) :
    SG g (.op (.unsigned k) next) := by
  intro fs Γ obs hfs; simp only [exec, stepOp]; exact h fs _ _ hfs

/-- `cachedPackage`'s signature look-up never stops a builder (whatever it finds) -/
theorem SG_sigProbe {g : Name → Option Node} {rest : Prog} (sg : Option (Name × Cid)) (hg : GoodFS g)
    (h : SG g rest) : SG g (sigProbe sg rest) := by
  cases sg with
  | none => exact h
  | some p =>
    obtain ⟨t0, k0⟩ := p
    unfold sigProbe
    refine SG_ifStat ?_ (fun _ => SG_unsigned _ h)
    intro hres
    exact SG_read (present_resolves hg (present_of_resolved hres)) h

/-- the temp of the signature section, when there is one, is `P`-good -/
def SgAll (sg : Option (Name × Cid)) (P : Name → Cid → Prop) : Prop :=
  match sg with
  | none => True
  | some (t0, k0) => P t0 k0

/-- what `cachePackage` starts from: the directory after `ExpandApk` -/
structure Expanded (g : Name → Option Node) (sg : Option (Name × Cid)) (t1 t2 t3 t4 : Name)
    (k1 k2 k3 : Cid) : Prop where
  good : GoodFS g
  e1 : g t1 = some (.file k1 true)
  e2 : g t2 = some (.file k2 true)
  e3 : g t3 = some (.file k3 true)
  e4 : g t4 = none
  n1 : NoLinkTo g t1
  n2 : NoLinkTo g t2
  n3 : NoLinkTo g t3
  e0 : SgAll sg (fun t0 k0 => g t0 = some (.file k0 true) ∧ NoLinkTo g t0)

/-- `cachePackage` alone (advertises in the code's order), then `PackageData` and the build's reads -/
theorem SG_cacheTail {g : Name → Option Node} {sg : Option (Name × Cid)} {t1 t2 t3 t4 : Name}
    {k1 k2 k3 : Cid} (n : Nat) (hx : Expanded g sg t1 t2 t3 t4 k1 k2 k3)
    (m1 : t1.isTmp = true) (m2 : t2.isTmp = true) (m3 : t3.isTmp = true) (m4 : t4.isTmp = true)
    (h12 : t1 ≠ t2) (h13 : t1 ≠ t3) (h23 : t2 ≠ t3) (h14 : t1 ≠ t4) (h24 : t2 ≠ t4) (h34 : t3 ≠ t4)
    (hs : SgAll sg (fun t0 _ => t0.isTmp = true ∧ t0 ≠ t1 ∧ t0 ≠ t2 ∧ t0 ≠ t3 ∧ t0 ≠ t4)) :
    SG g (cacheTail (pkgData t4 k2 k3 n) sg t1 t2 t3 k1 k2 k3) := by
  have h21 := h12.symm
  have h31 := h13.symm
  have h32 := h23.symm
  have h41 := h14.symm
  have h42 := h24.symm
  have h43 := h34.symm
  unfold cacheTail
  refine SG_mark _ (SG_advertise hx.good hx.e1 m1 hx.n1 ?_)
  intro g7 good7 p71 keep7 pres7 nl7
  refine SG_mark _ ?_
  -- the rest after the optional signature advertise, from any directory that kept what matters
  have hrest : ∀ g7', GoodFS g7' → g7' (.adv k1) ≠ none →
      g7' t2 = some (.file k2 true) → g7' t3 = some (.file k3 true) → g7' t4 = none →
      NoLinkTo g7' t2 → NoLinkTo g7' t3 →
      SG g7' (advertise t2 k2 <| .op (.mark 7) <| advertise t3 k3 <| .op (.mark 8) <|
        pkgData t4 k2 k3 n (pkgUse k1)) := by
    intro g7' good7' p1 e2' e3' e4' n2' n3'
    refine SG_advertise good7' e2' m2 n2' ?_
    intro g8 good8 p82 keep8 pres8 nl8
    refine SG_mark _ (SG_advertise good8 (by rw [keep8 t3 m3 h32]; exact e3') m3 (nl8 t3 m3 h32 n3') ?_)
    intro g9 good9 p93 keep9 pres9 nl9
    refine SG_mark _ (SG_pkgData n good9 (pres9 k1 (pres8 k1 p1)) (pres9 k2 p82) ?_ m4)
    rw [keep9 t4 m4 h43, keep8 t4 m4 h42]; exact e4'
  cases sg with
  | none =>
    simp only [advSig]
    exact hrest g7 good7 p71 (by rw [keep7 t2 m2 h21]; exact hx.e2) (by rw [keep7 t3 m3 h31]; exact hx.e3)
      (by rw [keep7 t4 m4 h41]; exact hx.e4) (nl7 t2 m2 h21 hx.n2) (nl7 t3 m3 h31 hx.n3)
  | some p =>
    obtain ⟨t0, k0⟩ := p
    obtain ⟨m0, h01, h02, h03, h04⟩ := hs
    obtain ⟨e0, n0⟩ := hx.e0
    simp only [advSig]
    refine SG_advertise good7 (by rw [keep7 t0 m0 h01]; exact e0) m0 (nl7 t0 m0 h01 n0) ?_
    intro g7' good7' p70 keep7' pres7' nl7'
    refine SG_mark _ (hrest g7' good7' (pres7' k1 p71) ?_ ?_ ?_ ?_ ?_)
    · rw [keep7' t2 m2 h02.symm, keep7 t2 m2 h21]; exact hx.e2
    · rw [keep7' t3 m3 h03.symm, keep7 t3 m3 h31]; exact hx.e3
    · rw [keep7' t4 m4 h04.symm, keep7 t4 m4 h41]; exact hx.e4
    · exact nl7' t2 m2 h02.symm (nl7 t2 m2 h21 hx.n2)
    · exact nl7' t3 m3 h03.symm (nl7 t3 m3 h31 hx.n3)

/-- `ExpandApk` alone, with fresh temp names, leaves an `Expanded` directory -/
theorem SG_pkgExpand {g : Name → Option Node} {sg : Option (Name × Cid)} {t1 t2 t3 t4 : Name}
    {k1 k2 k3 : Cid} {tail : Prog} (n : Nat) (hg : GoodFS g)
    (f1 : g t1 = none) (f2 : g t2 = none) (f3 : g t3 = none) (f4 : g t4 = none)
    (m1 : t1.isTmp = true) (m2 : t2.isTmp = true) (m3 : t3.isTmp = true)
    (h12 : t1 ≠ t2) (h13 : t1 ≠ t3) (h23 : t2 ≠ t3) (h14 : t1 ≠ t4) (h24 : t2 ≠ t4) (h34 : t3 ≠ t4)
    (hs : SgAll sg (fun t0 _ => g t0 = none ∧ t0.isTmp = true ∧ t0 ≠ t1 ∧ t0 ≠ t2 ∧ t0 ≠ t3 ∧ t0 ≠ t4))
    (htail : ∀ g6, Expanded g6 sg t1 t2 t3 t4 k1 k2 k3 → SG g6 tail) :
    SG g (pkgExpand sg t1 t2 t3 k1 k2 k3 n tail) := by
  have h21 := h12.symm
  have h31 := h13.symm
  have h32 := h23.symm
  have h41 := h14.symm
  have h42 := h24.symm
  have h43 := h34.symm
  have a1 := adv_ne_tmp m1
  have a2 := adv_ne_tmp m2
  have a3 := adv_ne_tmp m3
  unfold pkgExpand
  refine SG_mkdir (SG_mkdir (SG_mark _ ?_))
  cases sg with
  | none =>
    simp only [expandHead]
    refine SG_create f1 (SG_mark _ ?_)
    refine SG_chunks n (c := k1) (by simp [updG]) (SG_finish (c := k1) (b := false) (by simp [updG]) ?_)
    refine SG_read (c := k1) (by simp [resolveG, updG]) ?_
    refine SG_create (by simp [updG, h21, f2]) (SG_mark _ ?_)
    refine SG_create (by simp [updG, h31, h32, f3]) (SG_mark _ ?_)
    refine SG_chunks n (c := k2) (by simp [updG, h23, h21]) ?_
    refine SG_chunks n (c := k3) (by simp [updG]) ?_
    refine SG_finish (c := k3) (b := false) (by simp [updG]) ?_
    refine SG_finish (c := k2) (b := false) (by simp [updG, h23, h21]) (SG_mark _ ?_)
    refine SG_read (c := k1) (by simp [resolveG, updG, h12, h13]) ?_
    refine SG_read (c := k3) (by simp [resolveG, updG, h32, h31]) ?_
    generalize hg6 : updG (updG (updG (updG (updG (updG g t1 (some (.file k1 false))) t1 (some (.file k1 true)))
      t2 (some (.file k2 false))) t3 (some (.file k3 false))) t3 (some (.file k3 true)))
      t2 (some (.file k2 true)) = g6
    have eadv : ∀ k, g6 (.adv k) = g (.adv k) := by
      intro k; rw [← hg6]; simp [updG, a1 k, a2 k, a3 k]
    have ekeep : ∀ x, g x ≠ none → g6 x = g x := by
      intro x hx
      have x1 : x ≠ t1 := by intro e; rw [e] at hx; exact hx f1
      have x2 : x ≠ t2 := by intro e; rw [e] at hx; exact hx f2
      have x3 : x ≠ t3 := by intro e; rw [e] at hx; exact hx f3
      rw [← hg6]; simp [updG, x1, x2, x3]
    refine htail g6 ⟨good_of_fresh_changes hg eadv ekeep, ?_, ?_, ?_, ?_,
      nolink_of_fresh hg f1 eadv, nolink_of_fresh hg f2 eadv, nolink_of_fresh hg f3 eadv, trivial⟩
    · rw [← hg6]; simp [updG, h12, h13]
    · rw [← hg6]; simp [updG]
    · rw [← hg6]; simp [updG, h32]
    · rw [← hg6]; simp [updG, h41, h42, h43, f4]
  | some p =>
    obtain ⟨t0, k0⟩ := p
    obtain ⟨f0, m0, h01, h02, h03, h04⟩ := hs
    have h10 := h01.symm
    have h20 := h02.symm
    have h30 := h03.symm
    have h40 := h04.symm
    have a0 := adv_ne_tmp m0
    simp only [expandHead]
    refine SG_create f0 (SG_mark _ ?_)
    refine SG_chunks n (c := k0) (by simp [updG]) (SG_finish (c := k0) (b := false) (by simp [updG]) ?_)
    refine SG_read (c := k0) (by simp [resolveG, updG]) ?_
    refine SG_create (by simp [updG, h10, f1]) (SG_mark _ ?_)
    refine SG_chunks n (c := k1) (by simp [updG]) (SG_finish (c := k1) (b := false) (by simp [updG]) ?_)
    refine SG_create (by simp [updG, h21, h20, f2]) (SG_mark _ ?_)
    refine SG_create (by simp [updG, h31, h32, h30, f3]) (SG_mark _ ?_)
    refine SG_chunks n (c := k2) (by simp [updG, h23, h21]) ?_
    refine SG_chunks n (c := k3) (by simp [updG]) ?_
    refine SG_finish (c := k3) (b := false) (by simp [updG]) ?_
    refine SG_finish (c := k2) (b := false) (by simp [updG, h23, h21]) (SG_mark _ ?_)
    refine SG_read (c := k1) (by simp [resolveG, updG, h12, h13]) ?_
    refine SG_read (c := k3) (by simp [resolveG, updG, h32, h31]) ?_
    generalize hg6 : updG (updG (updG (updG (updG (updG (updG (updG g t0 (some (.file k0 false)))
      t0 (some (.file k0 true))) t1 (some (.file k1 false))) t1 (some (.file k1 true)))
      t2 (some (.file k2 false))) t3 (some (.file k3 false))) t3 (some (.file k3 true)))
      t2 (some (.file k2 true)) = g6
    have eadv : ∀ k, g6 (.adv k) = g (.adv k) := by
      intro k; rw [← hg6]; simp [updG, a0 k, a1 k, a2 k, a3 k]
    have ekeep : ∀ x, g x ≠ none → g6 x = g x := by
      intro x hx
      have x0 : x ≠ t0 := by intro e; rw [e] at hx; exact hx f0
      have x1 : x ≠ t1 := by intro e; rw [e] at hx; exact hx f1
      have x2 : x ≠ t2 := by intro e; rw [e] at hx; exact hx f2
      have x3 : x ≠ t3 := by intro e; rw [e] at hx; exact hx f3
      rw [← hg6]; simp [updG, x0, x1, x2, x3]
    refine htail g6 ⟨good_of_fresh_changes hg eadv ekeep, ?_, ?_, ?_, ?_,
      nolink_of_fresh hg f1 eadv, nolink_of_fresh hg f2 eadv, nolink_of_fresh hg f3 eadv,
      ⟨?_, nolink_of_fresh hg f0 eadv⟩⟩
    · rw [← hg6]; simp [updG, h12, h13]
    · rw [← hg6]; simp [updG]
    · rw [← hg6]; simp [updG, h32]
    · rw [← hg6]; simp [updG, h40, h41, h42, h43, f4]
    · rw [← hg6]; simp [updG, h01, h02, h03]

/-- the miss path alone, with fresh temp names -/
theorem SG_pkgMiss {g : Name → Option Node} {sg : Option (Name × Cid)} {t1 t2 t3 t4 : Name}
    {k1 k2 k3 : Cid} (n : Nat) (hg : GoodFS g)
    (f1 : g t1 = none) (f2 : g t2 = none) (f3 : g t3 = none) (f4 : g t4 = none)
    (m1 : t1.isTmp = true) (m2 : t2.isTmp = true) (m3 : t3.isTmp = true) (m4 : t4.isTmp = true)
    (h12 : t1 ≠ t2) (h13 : t1 ≠ t3) (h23 : t2 ≠ t3) (h14 : t1 ≠ t4) (h24 : t2 ≠ t4) (h34 : t3 ≠ t4)
    (hs : SgAll sg (fun t0 _ => g t0 = none ∧ t0.isTmp = true ∧ t0 ≠ t1 ∧ t0 ≠ t2 ∧ t0 ≠ t3 ∧ t0 ≠ t4)) :
    SG g (pkgMiss sg t1 t2 t3 t4 k1 k2 k3 n) := by
  unfold pkgMiss pkgMissWith
  refine SG_pkgExpand n hg f1 f2 f3 f4 m1 m2 m3 h12 h13 h23 h14 h24 h34 hs ?_
  intro g6 hx
  refine SG_cacheTail n hx m1 m2 m3 m4 h12 h13 h23 h14 h24 h34 ?_
  cases sg with
  | none => trivial
  | some p => exact ⟨hs.2.1, hs.2.2.1, hs.2.2.2.1, hs.2.2.2.2.1, hs.2.2.2.2.2⟩

end Apko.C19
