/-
C03 — `ResolvePackageNameVersionPin` (`parseConstraint`) on well-shaped inputs: the four groups
of `^([^@=><~]+)(([=><~]+)([^@]+))?(@([a-zA-Z0-9]+))?$` come back as written, with the exact side
conditions the greedy groups force, and the `so:` rewriting rule.
-/
import Apko.Proofs.Lemmas.VersionGrammar

namespace Apko.VersionGrammar
open Apko

/-! ## the shapes of the four groups -/

/-- `[^@=><~]+` -/
def NameText (n : Text) : Prop := n ≠ [] ∧ n.all isNameChar = true
/-- `[=><~]+` -/
def OpsText (o : Text) : Prop := o ≠ [] ∧ o.all isOpChar = true
/-- `[^@]+`, not starting with an operator character (the operator run is greedy and would
take it) -/
def VerText (v : Text) : Prop :=
  v ≠ [] ∧ v.all (fun c => c != '@') = true ∧ StartsNot isOpChar v
/-- `[a-zA-Z0-9]+` -/
def PinText (p : Text) : Prop := p ≠ [] ∧ p.all isAlnum = true

instance (n : Text) : Decidable (NameText n) := by unfold NameText; infer_instance
instance (n : Text) : Decidable (OpsText n) := by unfold OpsText; infer_instance
instance (n : Text) : Decidable (PinText n) := by unfold PinText; infer_instance
instance (n : Text) : Decidable (VerText n) := by unfold VerText; infer_instance

/-- `(@([a-zA-Z0-9]+))?` : text and recorded pin -/
inductive PinG : Text → Text → Prop
  | none : PinG [] []
  | some (p : Text) : PinText p → PinG ('@' :: p) p

theorem pinSuffix_of {pp p : Text} (h : PinG pp p) : pinSuffix pp = some p := by
  cases h with
  | none => rfl
  | some _ hp =>
    obtain ⟨h1, h2⟩ := hp
    cases p with
    | nil => exact absurd rfl h1
    | cons c cs => simp only [pinSuffix]; simp [h2]

theorem PinG.startsNot {pp p : Text} (h : PinG pp p) {q : Char → Bool} (hq : q '@' = false) :
    StartsNot q pp := by
  cases h with
  | none => exact startsNot_nil _
  | some _ _ => exact startsNot_cons hq

theorem opChar_not_name {c : Char} (h : isOpChar c = true) : isNameChar c = false := by
  simp only [isOpChar, Bool.or_eq_true, decide_eq_true_eq] at h
  simp only [isNameChar, Bool.not_eq_false', Bool.or_eq_true, decide_eq_true_eq]
  rcases h with ((h | h) | h) | h <;> simp [h]

theorem opChar_not_at {c : Char} (h : isOpChar c = true) : c ≠ '@' := by
  intro e; subst e; revert h; decide

/-! ## `matchPackageName` on well-shaped inputs -/

/-- no version group: `name` or `name@pin` -/
theorem matchPackageName_bare {name pp p : Text} (hn : NameText name) (hp : PinG pp p) :
    matchPackageName (name ++ pp) = some (name, [], [], p) := by
  have hsp : spanP isNameChar (name ++ pp) = (name, pp) :=
    spanP_append hn.2 (hp.startsNot (by decide))
  unfold matchPackageName
  simp only [hsp]
  obtain ⟨c, cs, rfl⟩ := List.exists_cons_of_ne_nil hn.1
  cases hp with
  | none => simp
  | some _ hpin => simp [pinSuffix_of (PinG.some p hpin)]

/-- the full shape: `name ops ver` or `name ops ver @pin` -/
theorem matchPackageName_full {name ops ver pp p : Text} (hn : NameText name) (ho : OpsText ops)
    (hv : VerText ver) (hp : PinG pp p) :
    matchPackageName (name ++ (ops ++ (ver ++ pp))) = some (name, ops, ver, p) := by
  obtain ⟨o, os, rfl⟩ := List.exists_cons_of_ne_nil ho.1
  have ho1 : isOpChar o = true := by
    have := ho.2; simp only [List.all_cons, Bool.and_eq_true] at this; exact this.1
  have hsp : spanP isNameChar (name ++ (o :: os ++ (ver ++ pp))) = (name, o :: os ++ (ver ++ pp)) :=
    spanP_append hn.2 (startsNot_cons (opChar_not_name ho1))
  have hvs : StartsNot isOpChar (ver ++ pp) := by
    obtain ⟨v, vs, rfl⟩ := List.exists_cons_of_ne_nil hv.1
    exact startsNot_cons (hv.2.2 v (by simp))
  have hsp2 : spanP isOpChar (o :: os ++ (ver ++ pp)) = (o :: os, ver ++ pp) :=
    spanP_append ho.2 hvs
  have hsp3 : spanP (fun c => c != '@') (ver ++ pp) = (ver, pp) :=
    spanP_append hv.2.1 (hp.startsNot (by decide))
  have hat : o ≠ '@' := opChar_not_at ho1
  unfold matchPackageName
  simp only [hsp]
  obtain ⟨c, cs, rfl⟩ := List.exists_cons_of_ne_nil hn.1
  obtain ⟨v, vs, rfl⟩ := List.exists_cons_of_ne_nil hv.1
  simp only [List.isEmpty_cons, Bool.false_eq_true, if_false]
  split
  · rename_i h; simp at h
  · rename_i h; simp only [List.cons_append, List.cons.injEq] at h; exact absurd h.1 hat
  · simp only [hsp2, hsp3, List.isEmpty_cons, Bool.not_false, if_true, pinSuffix_of hp]

/-- the give-back case: an operator run of length ≥ 2 with nothing after it (but a pin) yields
its last character as the version (`[^@]+` accepts operator characters) -/
theorem matchPackageName_giveback {name ops pp p : Text} {o : Char} (hn : NameText name)
    (ho : OpsText ops) (ho1 : isOpChar o = true) (hp : PinG pp p) :
    matchPackageName (name ++ (ops ++ (o :: pp))) = some (name, ops, [o], p) := by
  have hall : (ops ++ [o]).all isOpChar = true := by simp [ho.2, ho1]
  obtain ⟨a, as, hcons⟩ := List.exists_cons_of_ne_nil (l := ops ++ [o]) (by simp)
  have ha : isOpChar a = true := by
    rw [hcons] at hall; simp only [List.all_cons, Bool.and_eq_true] at hall; exact hall.1
  have e : ops ++ (o :: pp) = (ops ++ [o]) ++ pp := by simp
  have hsp : spanP isNameChar (name ++ ((ops ++ [o]) ++ pp)) = (name, (ops ++ [o]) ++ pp) := by
    apply spanP_append hn.2
    rw [hcons]; exact startsNot_cons (opChar_not_name ha)
  have hsp2 : spanP isOpChar ((ops ++ [o]) ++ pp) = (ops ++ [o], pp) :=
    spanP_append hall (hp.startsNot (by decide))
  have hsp3 : spanP (fun c => c != '@') pp = ([], pp) := by
    simpa using spanP_append (p := fun c => c != '@') (d := []) (r := pp) rfl
      (hp.startsNot (by decide))
  unfold matchPackageName
  rw [e]
  simp only [hsp]
  obtain ⟨c, cs, rfl⟩ := List.exists_cons_of_ne_nil hn.1
  simp only [List.isEmpty_cons, Bool.false_eq_true, if_false]
  split
  · rename_i h; rw [hcons] at h; simp at h
  · rename_i h; rw [hcons] at h
    simp only [List.cons_append, List.cons.injEq] at h
    exact absurd h.1 (opChar_not_at ha)
  · simp only [hsp2, hsp3, List.isEmpty_nil, Bool.not_true, Bool.false_eq_true, if_false,
      List.reverse_append, List.reverse_cons, List.reverse_nil, List.nil_append, List.cons_append,
      List.reverse_reverse, pinSuffix_of hp]
    obtain ⟨b, bs, rfl⟩ := List.exists_cons_of_ne_nil ho.1
    simp

/-! ## operators -/

/-- every key of the regenerated operator switch is an operator run and is mapped to its own
constant (keys are distinct) -/
theorem opSwitch_keys : Generated.opSwitch.all (fun p =>
    decide (OpsText p.1.toList) && (opOf p.1.toList == (Dep.ofName p.2).getD .any)) = true := by
  decide

theorem opOf_key {op nm : String} (h : (op, nm) ∈ Generated.opSwitch) :
    OpsText op.toList ∧ opOf op.toList = (Dep.ofName nm).getD .any := by
  have := List.all_eq_true.mp opSwitch_keys (op, nm) h
  simpa using this

/-! ## `so:` rewriting -/

theorem cut_append {sep : Char} {a b : Text} (h : sep ∉ a) :
    cut sep (a ++ sep :: b) = some (a, b) := by
  induction a with
  | nil => simp [cut]
  | cons c cs ih =>
    simp only [List.mem_cons, not_or] at h
    have hc : ¬ c = sep := fun e => h.1 e.symm
    simp [cut, hc, ih h.2]

theorem cut_none {sep : Char} {a : Text} (h : sep ∉ a) : cut sep a = none := by
  induction a with
  | nil => rfl
  | cons c cs ih =>
    simp only [List.mem_cons, not_or] at h
    have hc : ¬ c = sep := fun e => h.1 e.symm
    simp [cut, hc, ih h.2]

/-- `-r\d+$` -/
theorem endsWithRelease_iff (v : Text) :
    endsWithRelease v = true ↔ ∃ p d, v = p ++ '-' :: 'r' :: d ∧ IsNum d := by
  unfold endsWithRelease
  constructor
  · intro h
    have hs := spanDigits_spec v.reverse
    generalize spanDigits v.reverse = sd at hs h
    obtain ⟨ds, rest⟩ := sd
    simp only [Bool.and_eq_true, Bool.not_eq_true', List.isEmpty_eq_false_iff] at hs h
    obtain ⟨h1, h2⟩ := h
    split at h2
    · rename_i rest'
      refine ⟨rest'.reverse, ds.reverse, ?_, ?_, ?_⟩
      · have := congrArg List.reverse hs.1
        rw [List.reverse_reverse] at this
        rw [this]; simp
      · simpa using h1
      · have := hs.2.1; unfold IsDigits at this ⊢; simpa using this
    · simp at h2
  · rintro ⟨p, d, rfl, hd1, hd2⟩
    have hsp : spanDigits (p ++ '-' :: 'r' :: d).reverse = (d.reverse, 'r' :: '-' :: p.reverse) := by
      have : (p ++ '-' :: 'r' :: d).reverse = d.reverse ++ 'r' :: '-' :: p.reverse := by simp
      rw [this]
      exact spanDigits_append (by unfold IsDigits at hd2 ⊢; simpa using hd2)
        (startsNot_cons (by decide))
    simp only [hsp]
    simp [hd1]

/-- a pinned remainder never ends in `-rN` (the pin is alphanumeric and preceded by `@`), so a
pinned `so:` constraint with `=` is always rewritten — the code applies `-r\d+$` to the text
after `=` including `@pin` -/
theorem endsWithRelease_pinned (v : Text) {pin : Text} (hp : PinText pin) :
    endsWithRelease (v ++ '@' :: pin) = false := by
  cases h : endsWithRelease (v ++ '@' :: pin) with
  | false => rfl
  | true =>
    exfalso
    obtain ⟨p, d, he, hd1, hd2⟩ := (endsWithRelease_iff _).mp h
    -- compare the two decompositions from the right
    have hr := congrArg List.reverse he
    simp only [List.reverse_append, List.reverse_cons, List.append_assoc, List.cons_append,
      List.nil_append] at hr
    -- pin.reverse ++ '@' :: v.reverse = d.reverse ++ 'r' :: '-' :: p.reverse
    have key : ∀ (a b : Text) (x y : Text), a.all isAlnum = true → IsDigits b →
        a ++ '@' :: x = b ++ 'r' :: '-' :: y → False := by
      intro a
      induction a with
      | nil =>
        intro b x y _ hb e
        cases b with
        | nil => simp at e
        | cons c cs =>
          simp only [List.nil_append, List.cons_append, List.cons.injEq] at e
          simp only [IsDigits, List.all_cons, Bool.and_eq_true] at hb
          rw [← e.1] at hb; exact absurd hb.1 (by decide)
      | cons c cs ih =>
        intro b x y ha hb e
        simp only [List.all_cons, Bool.and_eq_true] at ha
        cases b with
        | nil =>
          simp only [List.cons_append, List.nil_append, List.cons.injEq] at e
          cases cs with
          | nil =>
            simp only [List.nil_append, List.cons.injEq] at e
            exact absurd e.2.1 (by decide)
          | cons c' cs' =>
            simp only [List.cons_append, List.cons.injEq] at e
            have := ha.2; simp only [List.all_cons, Bool.and_eq_true] at this
            rw [e.2.1] at this; exact absurd this.1 (by decide)
        | cons b bs =>
          simp only [List.cons_append, List.cons.injEq] at e
          simp only [IsDigits, List.all_cons, Bool.and_eq_true] at hb
          exact ih bs x y ha.2 hb.2 e.2
    exact key pin.reverse d.reverse v.reverse p.reverse (by simpa using hp.2)
      (by unfold IsDigits at hd2 ⊢; simpa using hd2) (by simpa using hr)

theorem soRewrite_noSo {s : Text} (h : stripPrefix "so:".toList s = none) : soRewrite s = s := by
  unfold soRewrite; rw [h]

theorem soRewrite_noEq {s : Text} (h : '=' ∉ s) : soRewrite s = s := by
  unfold soRewrite; rw [cut_none h]; split <;> rfl

/-- the rule: a `so:` string is cut at its first `=`; unless the remainder ends in `-rN`,
`0.` is prepended to it -/
theorem soRewrite_so {a v : Text} (hso : ∃ t, a = "so:".toList ++ t) (ha : '=' ∉ a) :
    soRewrite (a ++ '=' :: v) =
      if endsWithRelease v then a ++ '=' :: v else a ++ ("=0.".toList ++ v) := by
  obtain ⟨t, rfl⟩ := hso
  unfold soRewrite
  have : stripPrefix "so:".toList ("so:".toList ++ t ++ '=' :: v) = some (t ++ '=' :: v) :=
    stripPrefix_eq_some.mpr (by simp)
  rw [this, cut_append ha]
  by_cases h : endsWithRelease v = true <;> simp [h]

/-- a name that does not start with `so:` keeps the whole string away from the rewriting -/
theorem stripPrefix_so_name {name rest : Text} (hn : NameText name)
    (hso : stripPrefix "so:".toList name = none) (hr : StartsNot isNameChar rest) :
    stripPrefix "so:".toList (name ++ rest) = none := by
  have ho : isNameChar 'o' = true := by decide
  have hc : isNameChar ':' = true := by decide
  have hrest : ∀ c, isNameChar c = true → ∀ x, rest ≠ c :: x := by
    intro c hc x e; have := hr c (by simp [e]); simp [hc] at this
  cases h : stripPrefix "so:".toList (name ++ rest) with
  | none => rfl
  | some r =>
    exfalso
    have e := stripPrefix_eq_some.mp h
    change name ++ rest = 's' :: 'o' :: ':' :: r at e
    match name, hn, hso, e with
    | [], hn, _, _ => exact hn.1 rfl
    | [a], _, _, e =>
      simp only [List.cons_append, List.nil_append, List.cons.injEq] at e
      exact hrest 'o' ho _ e.2
    | [a, b], _, _, e =>
      simp only [List.cons_append, List.nil_append, List.cons.injEq] at e
      exact hrest ':' hc _ e.2.2
    | a :: b :: c :: x, _, hso, e =>
      simp only [List.cons_append, List.cons.injEq] at e
      obtain ⟨rfl, rfl, rfl, _⟩ := e
      have : stripPrefix "so:".toList ('s' :: 'o' :: ':' :: x) = some x :=
        stripPrefix_eq_some.mpr rfl
      rw [this] at hso; cases hso

/-! ## `parseConstraint` -/

theorem parseConstraint_of_match {s s' name ops ver pin : Text} (hs : soRewrite s = s')
    (hm : matchPackageName s' = some (name, ops, ver, pin)) :
    parseConstraint s = ⟨name, ver, if ops.isEmpty then .any else opOf ops, pin⟩ := by
  unfold parseConstraint
  simp only [hs, hm]

theorem name_no_eq {name : Text} (hn : NameText name) : '=' ∉ name := by
  intro h
  have := List.all_eq_true.mp hn.2 '=' h
  revert this; decide

theorem ops_startsNot_name {ops x : Text} (ho : OpsText ops) : StartsNot isNameChar (ops ++ x) := by
  obtain ⟨o, os, rfl⟩ := List.exists_cons_of_ne_nil ho.1
  have := ho.2; simp only [List.all_cons, Bool.and_eq_true] at this
  exact startsNot_cons (opChar_not_name this.1)

/-- T `constraint_split`: for a name that does not start with `so:`, `name ops ver [@pin]` comes
back as its four parts, for every operator run (unknown runs map to `any` through `opOf`). -/
theorem constraint_split {name ops ver pp pin : Text} (hn : NameText name)
    (hso : stripPrefix "so:".toList name = none) (ho : OpsText ops) (hv : VerText ver)
    (hp : PinG pp pin) :
    parseConstraint (name ++ (ops ++ (ver ++ pp))) = ⟨name, ver, opOf ops, pin⟩ := by
  have hm := matchPackageName_full hn ho hv hp
  have hs := soRewrite_noSo (stripPrefix_so_name hn hso (ops_startsNot_name (x := ver ++ pp) ho))
  rw [parseConstraint_of_match hs hm]
  obtain ⟨o, os, rfl⟩ := List.exists_cons_of_ne_nil ho.1
  simp

/-- without a version: `name` or `name@pin` (no `=` occurs, so `so:` names are included) -/
theorem constraint_split_bare {name pp pin : Text} (hn : NameText name) (hp : PinG pp pin) :
    parseConstraint (name ++ pp) = ⟨name, [], .any, pin⟩ := by
  have hm := matchPackageName_bare hn hp
  have hne : '=' ∉ name ++ pp := by
    intro h
    rcases List.mem_append.mp h with h | h
    · exact name_no_eq hn h
    · cases hp with
      | none => simp at h
      | some _ hpin =>
        simp only [List.mem_cons] at h
        rcases h with h | h
        · exact absurd h (by decide)
        · have := List.all_eq_true.mp hpin.2 '=' h; revert this; decide
  rw [parseConstraint_of_match (soRewrite_noEq hne) hm]; rfl

/-- `constraint_split` for any string the `so:` rewriting leaves alone -/
theorem constraint_split_of_fixed {name ops ver pp pin : Text} (hn : NameText name)
    (ho : OpsText ops) (hv : VerText ver) (hp : PinG pp pin)
    (hs : soRewrite (name ++ (ops ++ (ver ++ pp))) = name ++ (ops ++ (ver ++ pp))) :
    parseConstraint (name ++ (ops ++ (ver ++ pp))) = ⟨name, ver, opOf ops, pin⟩ := by
  have hm := matchPackageName_full hn ho hv hp
  rw [parseConstraint_of_match hs hm]
  obtain ⟨o, os, rfl⟩ := List.exists_cons_of_ne_nil ho.1
  simp

/-- the `so:` rule, general form: the string is cut at the first `=` of the operator run
(`=`, `>=`, `<=`, …); unless what follows (up to the end, pin included) ends in `-rN`, the
version read is `0.` followed by everything between that `=` and the pin. -/
theorem constraint_so {name o1 rest pp pin : Text} (hn : NameText name)
    (hso : ∃ t, name = "so:".toList ++ t) (ho1 : o1.all isOpChar = true) (hne : '=' ∉ o1)
    (hrest : rest.all (fun c => c != '@') = true) (hp : PinG pp pin)
    (hrel : endsWithRelease (rest ++ pp) = false) :
    parseConstraint (name ++ (o1 ++ '=' :: (rest ++ pp))) =
      ⟨name, "0.".toList ++ rest, opOf (o1 ++ ['=']), pin⟩ := by
  obtain ⟨t, ht⟩ := hso
  have ha : '=' ∉ name ++ o1 := by
    intro h; rcases List.mem_append.mp h with h | h
    · exact name_no_eq hn h
    · exact hne h
  have hs : soRewrite (name ++ (o1 ++ '=' :: (rest ++ pp))) =
      name ++ ((o1 ++ ['=']) ++ (("0.".toList ++ rest) ++ pp)) := by
    have := soRewrite_so (a := name ++ o1) (v := rest ++ pp) ⟨t ++ o1, by rw [ht]; simp⟩ ha
    rw [hrel] at this
    simp only [List.append_assoc] at this
    rw [this]
    simp [List.append_assoc]
  have hops : OpsText (o1 ++ ['=']) := ⟨by simp, by simp [ho1]; decide⟩
  have hver : VerText ("0.".toList ++ rest) := by
    refine ⟨by simp, ?_, ?_⟩
    · simp only [List.all_append, hrest, Bool.and_true]; decide
    · exact startsNot_cons (by decide)
  have hm := matchPackageName_full hn hops hver hp
  rw [parseConstraint_of_match hs hm]
  simp

/-- the `so:` rule when the remainder ends in `-rN` (necessarily unpinned): nothing is rewritten -/
theorem constraint_so_release {name o1 o2 ver : Text} (hn : NameText name)
    (ho1 : o1.all isOpChar = true) (hne : '=' ∉ o1) (ho2 : o2.all isOpChar = true)
    (hv : VerText ver) (hrel : endsWithRelease (o2 ++ ver) = true) :
    parseConstraint (name ++ ((o1 ++ '=' :: o2) ++ ver)) = ⟨name, ver, opOf (o1 ++ '=' :: o2), []⟩ := by
  have hops : OpsText (o1 ++ '=' :: o2) := ⟨by simp, by simp [ho1, ho2]; decide⟩
  have key := constraint_split_of_fixed (pp := []) hn hops hv PinG.none
  simp only [List.append_nil] at key
  apply key
  by_cases hso : ∃ t, name = "so:".toList ++ t
  · have ha : '=' ∉ name ++ o1 := by
      intro h; rcases List.mem_append.mp h with h | h
      · exact name_no_eq hn h
      · exact hne h
    obtain ⟨t, ht⟩ := hso
    have := soRewrite_so (a := name ++ o1) (v := o2 ++ ver) ⟨t ++ o1, by rw [ht]; simp⟩ ha
    rw [hrel] at this
    simp only [List.append_assoc, List.cons_append, if_true] at this ⊢
    exact this
  · apply soRewrite_noSo
    cases h : stripPrefix "so:".toList (name ++ ((o1 ++ '=' :: o2) ++ ver)) with
    | none => rfl
    | some r =>
      exfalso
      have hno : stripPrefix "so:".toList name = none := by
        cases h' : stripPrefix "so:".toList name with
        | none => rfl
        | some t => exact absurd ⟨t, stripPrefix_eq_some.mp h'⟩ hso
      have := stripPrefix_so_name hn hno (ops_startsNot_name (x := ver) hops)
      rw [this] at h; cases h

end Apko.VersionGrammar
