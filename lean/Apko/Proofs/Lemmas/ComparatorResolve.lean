/-
Lifting to whole resolutions, part 3: `getPackageWithDependencies` and `resolve`.
-/
import Apko.Proofs.Lemmas.ComparatorDeps

namespace Apko.Cmp
open Apko Apko.Resolver

theorem installIfStep_cfg {c₁ c₂ : Cfg} (hu : c₁.u = c₂.u) : installIfStep c₁ = installIfStep c₂ := by
  funext deps dep; unfold installIfStep; rw [hu]

theorem installIfFixedLoop_cfg {c₁ c₂ : Cfg} (hu : c₁.u = c₂.u) (fuel i : Nat) (deps : List Pkg) :
    installIfFixedLoop c₁ fuel i deps = installIfFixedLoop c₂ fuel i deps := by
  induction fuel generalizing i deps with
  | zero => rfl
  | succ fuel ih =>
    unfold installIfFixedLoop
    cases deps[i]? with
    | none => rfl
    | some d => simp only [installIfStep_cfg hu, ih]

theorem installIfMapLoop_cfg {c₁ c₂ : Cfg} (hc : CfgRel c₁ c₂) (deps : List Pkg) :
    installIfMapLoop c₁ deps = installIfMapLoop c₂ deps := by
  unfold installIfMapLoop; rw [hc.ao, installIfStep_cfg hc.u]

theorem StRel.ite_flag {s₁ s₂ : St} (h : StRel s₁ s₂) (b : Prop) [Decidable b] (f : String) :
    StRel (if b then s₁.flag f else s₁) (if b then s₂.flag f else s₂) := by
  split
  · exact h.flag f
  · exact h

def WithDepsRel (a b : WithDeps) : Prop :=
  a.pkg = b.pkg ∧ a.deps = b.deps ∧ a.conflicts = b.conflicts ∧ StRel a.st b.st

theorem getPackageWithDependencies_rel {c₁ c₂ : Cfg} (hc : CfgRel c₁ c₂) (fuel : Nat) (pkgName : Text)
    (existing : List (Text × Pkg)) {st₁ st₂ : St} (hst : StRel st₁ st₂) :
    ResRel WithDepsRel (getPackageWithDependencies c₁ fuel pkgName existing st₁)
      (getPackageWithDependencies c₂ fuel pkgName existing st₂) := by
  unfold getPackageWithDependencies
  simp only []
  rw [resolvePackage_rel hc pkgName hst.1]
  cases resolvePackage c₂ pkgName st₂.dq with
  | none => exact .err
  | some pkg =>
    simp only []
    generalize List.foldl _ ([] : List Text) existing = og
    have hg := getDeps_rel hc fuel pkg (parseConstraint pkgName).pin []
      (ds₁ := ⟨st₁, existing, og⟩) (ds₂ := ⟨st₂, existing, og⟩) ⟨hst, rfl, rfl⟩
    generalize getDeps c₁ fuel pkg _ [] _ = r₁ at hg
    generalize getDeps c₂ fuel pkg _ [] _ = r₂ at hg
    cases hg with
    | err => exact .err
    | outOfFuel => exact .outOfFuel
    | ok ho =>
      obtain ⟨hd, hcf, hs, _, _⟩ := ho
      simp only [hd, hc.iif, hc.u, installIfFixedLoop_cfg hc.u, installIfMapLoop_cfg hc]
      apply ResRel.ok
      refine ⟨rfl, rfl, hcf, ?_⟩
      exact (hs.ite_flag _ _).ite_flag _ _

theorem resolve_go_rel {c₁ c₂ : Cfg} (hc : CfgRel c₁ c₂) (ws : List Text) (depMap : List (Text × Pkg))
    {st₁ st₂ : St} (hst : StRel st₁ st₂) (inst : List Pkg) (confs : List Text) :
    resolve.go c₁ ws depMap st₁ inst confs = resolve.go c₂ ws depMap st₂ inst confs := by
  induction ws generalizing depMap st₁ st₂ inst confs with
  | nil => unfold resolve.go; rw [hst.2.2]
  | cons w ws ih =>
    unfold resolve.go
    rw [hc.u]
    have hg := getPackageWithDependencies_rel hc (fuelFor c₂.u) w depMap hst
    generalize getPackageWithDependencies c₁ _ w depMap st₁ = r₁ at hg
    generalize getPackageWithDependencies c₂ _ w depMap st₂ = r₂ at hg
    cases hg with
    | err => rfl
    | outOfFuel => rfl
    | ok hr =>
      obtain ⟨hp, hd, hcf, hs⟩ := hr
      simp only [hp, hd, hcf]
      apply ih
      split
      · exact hs.flag _
      · exact hs

theorem resolve_rel {c₁ c₂ : Cfg} (hc : CfgRel c₁ c₂) (world : List Text) (dq₀ : List Nat) :
    resolve c₁ world dq₀ = resolve c₂ world dq₀ := by
  unfold resolve
  have hcn := constrain_rel hc world (DqEq.refl dq₀)
  generalize constrain c₁ world dq₀ = r₁ at hcn
  generalize constrain c₂ world dq₀ = r₂ at hcn
  match r₁, r₂, hcn with
  | none, none, _ => rfl
  | some _, none, h => exact False.elim h
  | none, some _, h => exact False.elim h
  | some e₁, some e₂, h =>
    simp only []
    have hw := worldLoop_rel hc (world.length + 1) world [] h
    generalize worldLoop c₁ _ world [] e₁ = w₁ at hw
    generalize worldLoop c₂ _ world [] e₂ = w₂ at hw
    cases hw with
    | err => rfl
    | outOfFuel => rfl
    | ok hr =>
      rename_i a b
      obtain ⟨m₁, f₁⟩ := a
      obtain ⟨m₂, f₂⟩ := b
      obtain ⟨hm, hf⟩ := hr
      simp only at hm hf
      subst hm
      exact resolve_go_rel hc world m₁ (st₁ := ⟨f₁, [], []⟩) (st₂ := ⟨f₂, [], []⟩) ⟨hf, rfl, rfl⟩ [] []

/-- T `resolve_order_irrelevant`: with the repaired comparator, a whole resolution
(`GetPackagesWithDependencies`: result list, conflicts, ghost flags, or the error / fuel outcome) is
the same for any two map iteration orders that are permutations of each other. -/
theorem resolve_order_irrelevant (c : Cfg) (hb : c.bothBad = .eq) (o₁ o₂ : List Text) (hp : o₁.Perm o₂)
    (world : List Text) (dq₀ : List Nat) :
    resolve { c with order := o₁ } world dq₀ = resolve { c with order := o₂ } world dq₀ :=
  resolve_rel (c₁ := { c with order := o₁ }) (c₂ := { c with order := o₂ })
    ⟨rfl, hp, hb, hb, rfl, rfl⟩ world dq₀

end Apko.Cmp
