/-
Lemmas for the schedule independence of `GetRepositoryIndexes` (Model/IndexOrder.lean): after every goroutine has
finished, slot `j` holds what goroutine `j` fetched — whatever the order of the completion events, and however
often one of them is replayed.
-/
import Apko.Model.IndexOrder

namespace Apko.IndexOrder
open Apko

variable {α : Type}

theorem length_complete (fetch : Nat → Option α) (s : List (Option α)) (i : Nat) :
    (complete fetch s i).length = s.length := by
  unfold complete; split <;> simp

theorem length_foldl_complete (fetch : Nat → Option α) (sched : List Nat) (s : List (Option α)) :
    (sched.foldl (complete fetch) s).length = s.length := by
  induction sched generalizing s with
  | nil => rfl
  | cons i rest ih => simp only [List.foldl_cons]; rw [ih, length_complete]

/-- what slot `j` holds once goroutine `j` has stored: its own result, or — nothing fetched — what was there -/
def stored (fetch : Nat → Option α) (s : List (Option α)) (j : Nat) : Option (Option α) :=
  match fetch j with
  | some x => some (some x)
  | none => s[j]?

theorem getElem?_complete (fetch : Nat → Option α) (s : List (Option α)) (i j : Nat) :
    (complete fetch s i)[j]? = if i = j ∧ j < s.length then stored fetch s j else s[j]? := by
  unfold complete stored
  by_cases hij : i = j
  · subst hij
    cases hf : fetch i with
    | none => simp
    | some x =>
      by_cases hl : i < s.length
      · simp [hl]
      · simp [hl]
  · cases hf : fetch i with
    | none => simp [hij]
    | some x => simp [hij, List.getElem?_set_ne hij]

theorem stored_complete (fetch : Nat → Option α) (s : List (Option α)) (i j : Nat) (_hj : j < s.length) :
    stored fetch (complete fetch s i) j = stored fetch s j := by
  unfold stored
  cases hf : fetch j with
  | some x => rfl
  | none =>
    show (complete fetch s i)[j]? = s[j]?
    rw [getElem?_complete]
    by_cases h : i = j ∧ j < s.length
    · rw [if_pos h]; unfold stored; rw [hf]
    · rw [if_neg h]

/-- slot `j` after ANY sequence of completion events -/
theorem getElem?_foldl_complete (fetch : Nat → Option α) (sched : List Nat) (s : List (Option α)) (j : Nat) :
    (sched.foldl (complete fetch) s)[j]? =
      if j ∈ sched ∧ j < s.length then stored fetch s j else s[j]? := by
  induction sched generalizing s with
  | nil => simp
  | cons i rest ih =>
    simp only [List.foldl_cons]
    rw [ih, length_complete, getElem?_complete]
    by_cases hl : j < s.length
    · by_cases hr : j ∈ rest
      · have : j ∈ i :: rest := List.mem_cons_of_mem _ hr
        rw [if_pos ⟨hr, hl⟩, if_pos ⟨this, hl⟩, stored_complete fetch s i j hl]
      · rw [if_neg (fun h => hr h.1)]
        by_cases hij : i = j
        · subst hij
          rw [if_pos ⟨rfl, hl⟩, if_pos ⟨List.mem_cons_self, hl⟩]
        · rw [if_neg (fun h => hij h.1), if_neg]
          intro h
          rcases List.mem_cons.mp h.1 with h1 | h1
          · exact hij h1.symm
          · exact hr h1
    · rw [if_neg (fun h => hl h.2), if_neg (fun h => hl h.2), if_neg (fun h => hl h.2)]

/-- once every goroutine has finished the slots are the fetch results by POSITION -/
theorem slots_final (n : Nat) (fetch : Nat → Option α) (sched : List Nat) (h : IsSchedule n sched) :
    sched.foldl (complete fetch) (initSlots n) = (List.range n).map fetch := by
  apply List.ext_getElem?
  intro j
  rw [getElem?_foldl_complete]
  unfold initSlots stored
  by_cases hj : j < n
  · rw [if_pos ⟨h.1 j hj, by simpa using hj⟩]
    cases hf : fetch j with
    | some x => simp [hj, hf]
    | none => simp [hj, hf]
  · rw [if_neg (fun hh => hj (by simpa using hh.2))]
    simp [hj]

theorem compact_map (fetch : Nat → Option α) (l : List Nat) : compact (l.map fetch) = l.filterMap fetch := by
  unfold compact
  rw [List.filterMap_map]
  rfl

/-- `range l.length` indexes `l`: position-wise lookup followed by `f` is `filterMap f` -/
theorem filterMap_range_getElem? {β γ : Type} (l : List β) (f : β → Option γ) :
    (List.range l.length).filterMap (fun i => l[i]?.bind f) = l.filterMap f := by
  induction l with
  | nil => rfl
  | cons a as ih =>
    rw [List.length_cons, List.range_succ_eq_map, List.filterMap_cons, List.filterMap_map]
    have h0 : ((a :: as)[0]?).bind f = f a := rfl
    rw [h0]
    have hs : ((fun i => ((a :: as)[i]?).bind f) ∘ Nat.succ) = fun i => (as[i]?).bind f := by
      funext i; simp
    rw [hs, ih, List.filterMap_cons]

/-- the identity schedule (also what `GOMAXPROCS=1` tends to give) -/
theorem isSchedule_range (n : Nat) : IsSchedule n (List.range n) :=
  ⟨fun _ hi => List.mem_range.mpr hi, fun _ hi => List.mem_range.mp hi⟩

theorem isSchedule_of_perm (n : Nat) (sched : List Nat) (hp : sched.Perm (List.range n)) : IsSchedule n sched :=
  ⟨fun _ hi => hp.symm.subset (List.mem_range.mpr hi), fun _ hi => List.mem_range.mp (hp.subset hi)⟩

/-! ## audited reads of the scratch directory (pkg/build, pkg/baseimg) -/

/-- every statement that reads `Options.TempDir()` or `BaseImage.APKIndexPath()`, with where the value goes.
None of them stores it in the image configuration (`bc.ic`, serialised into /etc/apko.json), in the file system of
the image, or in an emitted artifact: it names LOCATIONS of intermediate files only, and the one line it adds to
/etc/apk/repositories during the resolution is dropped by `postBuildSetApk` (C10's end-to-end oracle and the
scratch-path oracle of corr:repro look at the emitted layers). -/
def auditedScratchUses : List (String × String) :=
  [ -- a LOCAL list handed to SetRepositories for the resolution; overwritten by postBuildSetApk (`resolveRepos`)
    ("pkg/build/apk.go:Context.initializeApk", "buildRepos = append(buildRepos, bc.baseimg.APKIndexPath())"),
    -- location of the layer tarball being written
    ("pkg/build/build.go:Context.ImageLayoutToLayer", "outfile, err = os.Create(filepath.Join(bc.o.TempDir(), bc.o.TarballFileName()))"),
    -- where baseimg.New materialises the index of the base image
    ("pkg/build/build.go:New", "baseImg, err := baseimg.New(imgPath, apkindexPath, bc.Arch(), bc.o.TempDir())"),
    -- an option of the apk client (which index is exempt from signature verification), not of the configuration
    ("pkg/build/build.go:New", "apkOpts = append(apkOpts, apk.WithNoSignatureIndexes(bc.baseimg.APKIndexPath()))"),
    -- location of the intermediate index.json
    ("pkg/build/build_implementation.go:WriteIndex", "outfile := filepath.Join(o.TempDir(), \"index.json\")"),
    -- location of the layer files
    ("pkg/build/layers.go:Context.buildLayers", "return splitLayers(ctx, bc.fs, groups, bc.o.TempDir())"),
    -- location of the SBOM files before they are copied out
    ("pkg/build/sbom.go:newSBOM", "sopt.OutputDir = o.TempDir()"),
    -- the file the index archive is written to
    ("pkg/baseimg/base_image.go:New", "err = baseImg.createAPKIndexArchive(baseImg.APKIndexPath())") ]

end Apko.IndexOrder
