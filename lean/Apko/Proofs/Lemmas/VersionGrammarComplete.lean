/-
C03 — completeness of the version recogniser: every word of `Grammar` is accepted with exactly
the recorded pieces, i.e. the greedy choices of `recognise` are forced:

* digit spans are maximal because whatever follows a number in a grammar word is `.`, a letter,
  `_`, `-` or the end;
* a lowercase byte after the numbers can only be the letter group (tokens start with `_`);
* among the tokens of one switch table no two agree on a common prefix (`tokensDiverge`), and
  no pre-token is a prefix of a post-token followed by digits / `-r…` / the end
  (`_pre` against `_p`: `clash`), so skipping the pre group is forced when it is absent.

All table facts are decided over `Generated.preSwitch` / `Generated.postSwitch` themselves.
-/
import Apko.Proofs.Lemmas.VersionGrammar

namespace Apko.VersionGrammar
open Apko

/-! ## token tables: the facts that make the token choice deterministic -/

/-- the two texts differ at a position where both are defined -/
def diverge : Text → Text → Bool
  | a :: t, b :: u => if a = b then diverge t u else true
  | _, _ => false

theorem diverge_stripPrefix {t u : Text} (h : diverge t u = true) (x : Text) :
    stripPrefix t (u ++ x) = none := by
  induction t generalizing u with
  | nil => simp [diverge] at h
  | cons a t ih =>
    cases u with
    | nil => simp [diverge] at h
    | cons b u =>
      simp only [diverge] at h
      simp only [List.cons_append, stripPrefix]
      by_cases hab : a = b
      · simp only [hab, if_true] at h ⊢; exact ih h
      · simp [hab]

/-- `t` is not a prefix of `u ++ x` for any `x` that is empty or starts with a digit or `-` -/
def clash : Text → Text → Bool
  | [], _ => false
  | a :: _, [] => !(isDigit a || a == '-')
  | a :: t, b :: u => if a = b then clash t u else true

/-- what can follow a suffix token: digits, `-r…`, or the end -/
def EndsTok (x : Text) : Prop := ∀ c, x.head? = some c → isDigit c = true ∨ c = '-'

theorem clash_stripPrefix {t u x : Text} (h : clash t u = true) (hx : EndsTok x) :
    stripPrefix t (u ++ x) = none := by
  induction t generalizing u with
  | nil => simp [clash] at h
  | cons a t ih =>
    cases u with
    | nil =>
      simp only [clash, Bool.not_eq_true', Bool.or_eq_false_iff, beq_eq_false_iff_ne] at h
      cases x with
      | nil => simp [stripPrefix]
      | cons c cs =>
        simp only [List.nil_append, stripPrefix]
        have hc := hx c (by simp)
        by_cases hac : a = c
        · subst hac; rcases hc with hc | hc
          · simp [hc] at h
          · exact absurd hc h.2
        · simp [hac]
    | cons b u =>
      simp only [clash] at h
      simp only [List.cons_append, stripPrefix]
      by_cases hab : a = b
      · simp only [hab, if_true] at h ⊢; exact ih h
      · simp [hab]

/-- the non-empty tokens of one table pairwise differ inside their common length -/
def tokensDiverge : List (String × Nat) → Bool
  | [] => true
  | p :: rest =>
    rest.all (fun q => p.1 == "" || q.1 == "" || diverge p.1.toList q.1.toList) && tokensDiverge rest

theorem pre_tokensDiverge : tokensDiverge Generated.preSwitch = true := by decide
theorem post_tokensDiverge : tokensDiverge Generated.postSwitch = true := by decide

/-- no pre-token can be read where a post-token (or nothing) stands -/
theorem pre_post_clash : Generated.preSwitch.all (fun p => p.1 == "" ||
    (clash p.1.toList [] &&
      Generated.postSwitch.all (fun q => q.1 == "" || clash p.1.toList q.1.toList))) = true := by
  decide

/-- no post-token can be read where `-r…` or the end stands -/
theorem post_clash_nil :
    Generated.postSwitch.all (fun q => q.1 == "" || clash q.1.toList []) = true := by decide

/-- separator bytes: what a suffix group can start with -/
def sepHead (c : Char) : Bool := !isDigit c && !isLower c && c != '.'

theorem tokens_sepHead : (Generated.preSwitch ++ Generated.postSwitch).all
    (fun p => p.1.toList.head?.all sepHead) = true := by decide

/-! ## matchToken on grammar words -/

theorem matchToken_hit {tbl : List (String × Nat)} (hd : tokensDiverge tbl = true)
    {tok : String} {val : Nat} (hm : (tok, val) ∈ tbl) (hne : tok ≠ "") (x : Text) :
    matchToken tbl (tok.toList ++ x) = some (val, x) := by
  induction tbl with
  | nil => simp at hm
  | cons p rest ih =>
    obtain ⟨tok0, val0⟩ := p
    simp only [tokensDiverge, Bool.and_eq_true, List.all_eq_true] at hd
    simp only [matchToken]
    by_cases h0 : tok0 = ""
    · simp only [h0, if_true]
      have : (tok, val) ∈ rest := by
        simp only [List.mem_cons, Prod.mk.injEq] at hm
        rcases hm with ⟨h1, _⟩ | hm
        · exact absurd (h1.trans h0) hne
        · exact hm
      exact ih hd.2 this
    · simp only [h0, if_false]
      simp only [List.mem_cons, Prod.mk.injEq] at hm
      rcases hm with ⟨h1, h2⟩ | hm
      · subst h1; subst h2
        have : stripPrefix tok.toList (tok.toList ++ x) = some x := stripPrefix_eq_some.mpr rfl
        simp [this]
      · have hq := hd.1 (tok, val) hm
        simp only [Bool.or_eq_true, beq_iff_eq] at hq
        have hdv : diverge tok0.toList tok.toList = true := by
          rcases hq with (hq | hq) | hq
          · exact absurd hq h0
          · exact absurd hq hne
          · exact hq
        rw [diverge_stripPrefix hdv x]
        exact ih hd.2 hm

theorem matchToken_miss {tbl : List (String × Nat)} {y : Text}
    (h : ∀ p ∈ tbl, p.1 ≠ "" → stripPrefix p.1.toList y = none) : matchToken tbl y = none := by
  induction tbl with
  | nil => rfl
  | cons p rest ih =>
    obtain ⟨tok0, val0⟩ := p
    simp only [matchToken]
    by_cases h0 : tok0 = ""
    · simp only [h0, if_true]
      exact ih (fun p hp => h p (by simp [hp]))
    · simp only [h0, if_false]
      rw [h (tok0, val0) (by simp) h0]
      exact ih (fun p hp => h p (by simp [hp]))

/-! ## what the parts of a grammar word start with -/

def SepStart (x : Text) : Prop := ∀ c, x.head? = some c → sepHead c = true

/-- what can follow the numeric components -/
def DotStop (x : Text) : Prop := ∀ c, x.head? = some c → isDigit c = false ∧ c ≠ '.'

theorem sepStart_nil : SepStart [] := by intro c h; simp at h

theorem SepStart.notDigit {x : Text} (h : SepStart x) : StartsNot isDigit x := by
  intro c hc; have := h c hc; simp only [sepHead, Bool.and_eq_true, Bool.not_eq_true'] at this
  exact this.1.1

theorem SepStart.notLower {x : Text} (h : SepStart x) : StartsNot isLower x := by
  intro c hc; have := h c hc; simp only [sepHead, Bool.and_eq_true, Bool.not_eq_true'] at this
  exact this.1.2

theorem SepStart.dotStop {x : Text} (h : SepStart x) : DotStop x := by
  intro c hc; have := h c hc
  simp only [sepHead, Bool.and_eq_true, Bool.not_eq_true', bne_iff_ne, ne_eq] at this
  exact ⟨this.1.1, this.2⟩

theorem tok_sepStart {tbl : List (String × Nat)} {tok : String} {val : Nat}
    (ht : tbl.all (fun p => p.1.toList.head?.all sepHead) = true)
    (hm : (tok, val) ∈ tbl) (hne : tok ≠ "") (y : Text) : SepStart (tok.toList ++ y) := by
  have h := List.all_eq_true.mp ht (tok, val) hm
  cases hl : tok.toList with
  | nil => exact absurd (String.toList_eq_nil_iff.mp hl) hne
  | cons a as =>
    simp only [hl, List.head?_cons, Option.all_some] at h
    intro c hc
    simp only [List.cons_append, List.head?_cons, Option.some.injEq] at hc
    subst hc; exact h

theorem pre_sepHead : Generated.preSwitch.all (fun p => p.1.toList.head?.all sepHead) = true := by
  have := tokens_sepHead; rw [List.all_append, Bool.and_eq_true] at this; exact this.1
theorem post_sepHead : Generated.postSwitch.all (fun p => p.1.toList.head?.all sepHead) = true := by
  have := tokens_sepHead; rw [List.all_append, Bool.and_eq_true] at this; exact this.2

theorem SuffixG.sepStart {tbl : List (String × Nat)} {nv : Nat} {t : Text} {v : Nat} {d y : Text}
    (ht : tbl.all (fun p => p.1.toList.head?.all sepHead) = true)
    (h : SuffixG tbl nv t v d) (hy : SepStart y) : SepStart (t ++ y) := by
  cases h with
  | none => exact hy
  | some tok val d hm hne hd =>
    rw [List.append_assoc]; exact tok_sepStart ht hm hne _

theorem RevG.sepStart {t d : Text} (h : RevG t d) : SepStart t := by
  cases h with
  | none => exact sepStart_nil
  | some d hd =>
    intro c hc; simp only [List.head?_cons, Option.some.injEq] at hc; subst hc; decide

theorem isLower_not_digit {c : Char} (h : isLower c = true) : isDigit c = false ∧ c ≠ '.' := by
  simp only [isLower, Bool.and_eq_true, decide_eq_true_eq] at h
  have h1 : (97 : Nat) ≤ c.toNat := by
    have := h.1; rw [Char.le_def] at this; exact UInt32.le_iff_toNat_le.mp this
  refine ⟨?_, ?_⟩
  · simp only [isDigit, Bool.and_eq_false_iff, decide_eq_false_iff_not]
    right; intro h9
    have : c.toNat ≤ 57 := by rw [Char.le_def] at h9; exact UInt32.le_iff_toNat_le.mp h9
    omega
  · intro e; subst e; revert h1; decide

theorem LetterG.dotStop {tl : Text} {l : Nat} {y : Text} (h : LetterG tl l) (hy : SepStart y) :
    DotStop (tl ++ y) := by
  cases h with
  | none => exact hy.dotStop
  | some c hc =>
    intro c' hc'; simp only [List.cons_append, List.head?_cons, Option.some.injEq] at hc'
    subst hc'; exact isLower_not_digit hc

theorem dotted_append_notDigit {more : List Text} {y : Text} (hy : DotStop y) :
    StartsNot isDigit (dotted more ++ y) := by
  cases more with
  | nil => intro c hc; exact (hy c hc).1
  | cons d ds =>
    intro c hc; simp only [dotted, List.cons_append, List.head?_cons, Option.some.injEq] at hc
    subst hc; decide

/-! ## the stages on grammar words -/

theorem parseDotNums_stop : ∀ (n : Nat) {y : Text}, DotStop y → parseDotNums n y = ([], y) := by
  intro n y hy
  cases n with
  | zero => rfl
  | succ n =>
    unfold parseDotNums
    split
    · rename_i h; cases h
    · rename_i fuel c cs h
      exact absurd rfl (hy '.' (by simp)).2
    · rfl

theorem parseDotNums_complete : ∀ (more : List Text) (n : Nat) (y : Text),
    (∀ d ∈ more, IsNum d) → DotStop y → (dotted more ++ y).length ≤ n →
    parseDotNums n (dotted more ++ y) = (more, y) := by
  intro more
  induction more with
  | nil => intro n y _ hy _; exact parseDotNums_stop n hy
  | cons d ds ih =>
    intro n y hm hy hl
    have hd := hm d (by simp)
    cases hdd : d with
    | nil => exact absurd hdd hd.1
    | cons c cs =>
      cases n with
      | zero => simp [dotted] at hl
      | succ n =>
        have hc : isDigit c = true := by
          have := hd.2; rw [hdd] at this
          simp only [IsDigits, List.all_cons, Bool.and_eq_true] at this; exact this.1
        have hsp : spanDigits (c :: (cs ++ (dotted ds ++ y))) = (c :: cs, dotted ds ++ y) := by
          have := spanDigits_append (d := c :: cs) (r := dotted ds ++ y) (by rw [← hdd]; exact hd.2)
            (dotted_append_notDigit hy)
          simpa using this
        have hlen : (dotted ds ++ y).length ≤ n := by
          simp only [dotted, List.cons_append, List.length_cons, List.length_append] at hl ⊢
          omega
        have hi := ih n y (fun d' hd' => hm d' (by simp [hd'])) hy hlen
        simp only [dotted, List.cons_append, List.append_assoc, parseDotNums, hc, if_true, hsp, hi]

theorem recLetter_complete {tl : Text} {l : Nat} {y : Text} (h : LetterG tl l) (hy : SepStart y) :
    recLetter (tl ++ y) = (l, y) := by
  cases h with
  | none =>
    unfold recLetter
    cases y with
    | nil => rfl
    | cons c cs => simp [hy.notLower c (by simp)]
  | some c hc => simp [recLetter, hc]

theorem recSuffix_hit {tbl : List (String × Nat)} (nv : Nat) (hd : tokensDiverge tbl = true)
    {tok : String} {val : Nat} (hm : (tok, val) ∈ tbl) (hne : tok ≠ "") {d y : Text}
    (hdd : IsDigits d) (hy : StartsNot isDigit y) :
    recSuffix tbl nv (tok.toList ++ d ++ y) = (val, d, y) := by
  unfold recSuffix
  rw [List.append_assoc, matchToken_hit hd hm hne]
  simp [spanDigits_append hdd hy]

theorem recSuffix_miss {tbl : List (String × Nat)} (nv : Nat) {y : Text}
    (h : ∀ p ∈ tbl, p.1 ≠ "" → stripPrefix p.1.toList y = none) :
    recSuffix tbl nv y = (nv, [], y) := by
  unfold recSuffix; rw [matchToken_miss h]

theorem RevG.endsTok {t d : Text} (h : RevG t d) : EndsTok t := by
  cases h with
  | none => intro c hc; simp at hc
  | some d hd => intro c hc; simp only [List.head?_cons, Option.some.injEq] at hc; exact .inr hc.symm

theorem digits_endsTok {d y : Text} (hd : IsDigits d) (hy : EndsTok y) : EndsTok (d ++ y) := by
  cases d with
  | nil => exact hy
  | cons c cs =>
    intro c' hc'; simp only [List.cons_append, List.head?_cons, Option.some.injEq] at hc'
    subst hc'
    simp only [IsDigits, List.all_cons, Bool.and_eq_true] at hd; exact .inl hd.1

theorem recSuffix_post_complete {tq tr : Text} {v : Nat} {d rv : Text}
    (hq : SuffixG Generated.postSwitch Generated.postNone tq v d) (hr : RevG tr rv) :
    recSuffix Generated.postSwitch Generated.postNone (tq ++ tr) = (v, d, tr) := by
  cases hq with
  | none =>
    refine recSuffix_miss _ (fun p hp hne => ?_)
    have := List.all_eq_true.mp post_clash_nil p hp
    simp only [Bool.or_eq_true, beq_iff_eq] at this
    rcases this with h | h
    · exact absurd h hne
    · simpa using clash_stripPrefix (u := []) h hr.endsTok
  | some tok val d hm hne hd =>
    exact recSuffix_hit _ post_tokensDiverge hm hne hd hr.sepStart.notDigit

theorem recSuffix_pre_complete {tp tq tr : Text} {v : Nat} {d : Text} {vq : Nat} {dq rv : Text}
    (hp : SuffixG Generated.preSwitch Generated.preNone tp v d)
    (hq : SuffixG Generated.postSwitch Generated.postNone tq vq dq) (hr : RevG tr rv) :
    recSuffix Generated.preSwitch Generated.preNone (tp ++ (tq ++ tr)) = (v, d, tq ++ tr) := by
  cases hp with
  | none =>
    refine recSuffix_miss _ (fun p hp hne => ?_)
    have := List.all_eq_true.mp pre_post_clash p hp
    simp only [Bool.or_eq_true, beq_iff_eq, Bool.and_eq_true, List.all_eq_true] at this
    rcases this with h | ⟨h0, h⟩
    · exact absurd h hne
    · cases hq with
      | none => simpa using clash_stripPrefix (u := []) h0 hr.endsTok
      | some tokq _ _ hmq hneq hdq =>
        have hc := h (tokq, vq) hmq
        rcases hc with hc | hc
        · exact absurd hc hneq
        · rw [List.append_assoc]
          exact clash_stripPrefix (u := tokq.toList) (x := dq ++ tr) hc
            (digits_endsTok hdq hr.endsTok)
  | some tok val d hm hne hd =>
    exact recSuffix_hit _ pre_tokensDiverge hm hne hd
      (SuffixG.sepStart post_sepHead hq hr.sepStart).notDigit

theorem recRev_complete {tr rv : Text} (h : RevG tr rv) : recRev tr = some rv := by
  cases h with
  | none => rfl
  | some _ hd =>
    have hsp : spanDigits rv = (rv, []) := by
      simpa using spanDigits_append (d := rv) (r := []) hd.2 (startsNot_nil _)
    unfold recRev
    simp only [hsp]
    cases rv with
    | nil => exact absurd rfl hd.1
    | cons c cs => simp

/-! ## completeness and the characterisation -/

theorem recognise_complete {s : Text} {r : RawVersion} (h : Grammar s r) : recognise s = some r := by
  obtain ⟨d1, more, tl, tp, tq, tr, hn, hnum, hl, hp, hq, hr, rfl⟩ := h
  have hd1 := hnum d1 (by simp)
  have s5 : SepStart tr := hr.sepStart
  have s4 : SepStart (tq ++ tr) := SuffixG.sepStart post_sepHead hq s5
  have s3 : SepStart (tp ++ (tq ++ tr)) := SuffixG.sepStart pre_sepHead hp s4
  have s2 : DotStop (tl ++ (tp ++ (tq ++ tr))) := hl.dotStop s3
  have e1 : spanDigits (d1 ++ (dotted more ++ (tl ++ (tp ++ (tq ++ tr))))) =
      (d1, dotted more ++ (tl ++ (tp ++ (tq ++ tr)))) :=
    spanDigits_append hd1.2 (dotted_append_notDigit s2)
  have e2 := parseDotNums_complete more
    (d1 ++ (dotted more ++ (tl ++ (tp ++ (tq ++ tr))))).length (tl ++ (tp ++ (tq ++ tr)))
    (fun d hd => hnum d (by simp [hd])) s2 (by simp only [List.length_append]; omega)
  have e3 := recLetter_complete hl s3
  have e4 := recSuffix_pre_complete hp hq hr
  have e5 := recSuffix_post_complete hq hr
  have e6 := recRev_complete hr
  rw [recognise_eq]
  simp only [e1, e2, e3, e4, e5, e6]
  have : d1.isEmpty = false := by
    cases d1 with
    | nil => exact absurd rfl hd1.1
    | cons c cs => rfl
  simp only [this, Bool.false_eq_true, if_false, Option.map_some]
  cases r
  simp only at hn
  subst hn
  rfl

/-- T `parse_iff_grammar` (raw form): the recogniser accepts exactly the words of the grammar,
with exactly the recorded pieces -/
theorem recognise_iff_grammar (s : Text) (r : RawVersion) : recognise s = some r ↔ Grammar s r :=
  ⟨recognise_sound, recognise_complete⟩

/-- the grammar is unambiguous: a string has at most one parse (`_pre` / `_p`, digit runs and
the letter included) -/
theorem grammar_functional {s : Text} {r r' : RawVersion} (h : Grammar s r) (h' : Grammar s r') :
    r = r' := by
  have := (recognise_complete h).symm.trans (recognise_complete h')
  simpa using this

end Apko.VersionGrammar
