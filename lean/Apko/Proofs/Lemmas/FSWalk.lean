import Apko.Proofs.Lemmas.FSTree
/-! **no_directory_cycles**: in a tree-shaped graph the fuel of `walkFrom` is never exhausted — the
walk is the same for every fuel from `nodes.length - d` on — hence `walk` lists the children of the
root and, with every directory it lists, that directory's children (completeness).  Without `Tree` both
fail: in a directory that contains itself the Go walk never returns and the model's is cut by the fuel. -/
namespace Apko.FS
open Apko Apko.Path

theorem flatMap_congr' {α β : Type} (l : List α) (f g : α → List β) (h : ∀ a ∈ l, f a = g a) :
    l.flatMap f = l.flatMap g := by
  induction l with
  | nil => rfl
  | cons x xs ih =>
    simp only [List.flatMap_cons]
    rw [h x List.mem_cons_self, ih (fun a ha => h a (List.mem_cons_of_mem _ ha))]

theorem mem_readdir {fs : FS} {d : Nat} {e : Name × Nat} : e ∈ readdir fs d ↔ e ∈ (fs.node d).children := by
  simp [readdir, sortNames, List.mem_mergeSort]

/-- a listed child that is a directory is younger than its parent and live -/
theorem child_dir_bounds {fs : FS} (hi : Inv fs) (ht : Tree fs) {d : Nat} {e : Name × Nat}
    (he : e ∈ readdir fs d) (hd : (fs.node e.2).dir = true) : d < e.2 ∧ e.2 < fs.nodes.length := by
  have hm : (e.1, e.2) ∈ (fs.node d).children := mem_readdir.mp he
  exact ⟨ht.up d e.1 e.2 hm hd, hi.live d e.1 e.2 hm⟩

/-- **no fuel tricks**: any two fuels that cover the distance from `d` to the youngest node give
the same walk -/
theorem walkFrom_fuel {fs : FS} (hi : Inv fs) (ht : Tree fs) :
    ∀ (f1 f2 : Nat) (pre : List Name) (d : Nat), d < fs.nodes.length →
      fs.nodes.length - d ≤ f1 → fs.nodes.length - d ≤ f2 → walkFrom fs f1 pre d = walkFrom fs f2 pre d := by
  intro f1
  induction f1 with
  | zero => intro f2 pre d hd h1 _; omega
  | succ a ih =>
    intro f2 pre d hd h1 h2
    cases f2 with
    | zero => omega
    | succ b =>
      simp only [walkFrom]
      apply flatMap_congr'
      intro e he
      congr 1
      split
      · rename_i hdir
        obtain ⟨hlt, hlive⟩ := child_dir_bounds hi ht he hdir
        exact ih b _ _ hlive (by omega) (by omega)
      · rfl

/-- the walk does not depend on the fuel it is given beyond the number of nodes -/
theorem walk_fuel_irrelevant {fs : FS} (hi : Inv fs) (ht : Tree fs) (k : Nat) :
    walkFrom fs (fs.nodes.length + k) [] 0 = walk fs := by
  have h0 : 0 < fs.nodes.length := dir_lt fs 0 hi.root
  exact walkFrom_fuel hi ht _ _ [] 0 h0 (by omega) (by omega)

/-- with enough fuel, the walk below `d` lists `d`'s children and is closed under "children of a
listed directory" -/
theorem walkFrom_closed {fs : FS} (hi : Inv fs) (ht : Tree fs) :
    ∀ (f : Nat) (pre : List Name) (d : Nat), d < fs.nodes.length → fs.nodes.length - d ≤ f →
      (∀ e ∈ readdir fs d, (pre ++ [e.1], e.2) ∈ walkFrom fs f pre d) ∧
      ∀ q j, (q, j) ∈ walkFrom fs f pre d → (fs.node j).dir = true →
        ∀ e ∈ readdir fs j, (q ++ [e.1], e.2) ∈ walkFrom fs f pre d := by
  intro f
  induction f with
  | zero => intro pre d hd h; omega
  | succ a ih =>
    intro pre d hd hf
    constructor
    · intro e he
      simp only [walkFrom, List.mem_flatMap]
      exact ⟨e, he, List.mem_cons_self⟩
    · intro q j hq hj e he
      simp only [walkFrom, List.mem_flatMap] at hq ⊢
      obtain ⟨e0, he0, hq⟩ := hq
      refine ⟨e0, he0, ?_⟩
      rcases List.mem_cons.mp hq with hq | hq
      · -- `j` is the child `e0` itself: its children are the first level of the nested walk
        cases hq
        obtain ⟨hlt, hlive⟩ := child_dir_bounds hi ht he0 hj
        simp only [hj, if_true]
        exact List.mem_cons_of_mem _ ((ih (pre ++ [e0.1]) e0.2 hlive (by omega)).1 e he)
      · split at hq
        · rename_i hdir
          obtain ⟨hlt, hlive⟩ := child_dir_bounds hi ht he0 hdir
          simp only [hdir, if_true]
          exact List.mem_cons_of_mem _ ((ih (pre ++ [e0.1]) e0.2 hlive (by omega)).2 q j hq hj e he)
        · simp at hq

/-- **walk_complete**: the walk lists the children of the root and, with every directory it lists,
the children of that directory — every entry reachable through directories is visited -/
theorem walk_complete {fs : FS} (hi : Inv fs) (ht : Tree fs) :
    (∀ e ∈ readdir fs 0, ([e.1], e.2) ∈ walk fs) ∧
    ∀ q j, (q, j) ∈ walk fs → (fs.node j).dir = true → ∀ e ∈ readdir fs j, (q ++ [e.1], e.2) ∈ walk fs := by
  have h0 : 0 < fs.nodes.length := dir_lt fs 0 hi.root
  have := walkFrom_closed hi ht fs.nodes.length [] 0 h0 (by omega)
  exact ⟨fun e he => by simpa [walk] using this.1 e he, this.2⟩

/-- a directory that contains itself: the structural invariant `Inv` holds, `Tree` does not, and the
walk is not complete (the fuel cuts what the Go walk would list forever) -/
def selfLoop : FS := { nodes := [{ rootInode with children := [(['a'], 0)] }] }

theorem selfLoop_inv : Inv selfLoop := by
  have hn : ∀ i, selfLoop.node (i + 1) = default := by intro i; simp [FS.node, selfLoop]
  refine ⟨by decide, ?_, ?_, ?_⟩
  · intro i
    rcases i with _ | i
    · decide
    · rw [hn, default_children]; simp
  · intro i n j h
    rcases i with _ | i
    · simp [FS.node, selfLoop, rootInode] at h; simp [h.2, selfLoop]
    · rw [hn, default_children] at h; cases h
  · intro i h
    rcases i with _ | i
    · simp [FS.node, selfLoop, rootInode] at h
    · rw [hn, default_children]

theorem selfLoop_not_tree : ¬ Tree selfLoop := by
  intro h
  have := h.up 0 ['a'] 0 (by simp [FS.node, selfLoop]) (by decide)
  omega

theorem selfLoop_walk : walk selfLoop = [([['a']], 0)] := by
  simp [walk, walkFrom, readdir, sortNames, selfLoop, FS.node, rootInode]

/-- without `Tree` completeness fails -/
theorem walk_complete_needs_tree :
    ¬ (∀ q j, (q, j) ∈ walk selfLoop → (selfLoop.node j).dir = true →
        ∀ e ∈ readdir selfLoop j, (q ++ [e.1], e.2) ∈ walk selfLoop) := by
  intro h
  have := h [['a']] 0 (by rw [selfLoop_walk]; simp) (by decide) (['a'], 0)
    (by simp [readdir, sortNames, selfLoop, FS.node, rootInode])
  rw [selfLoop_walk] at this
  simp at this

end Apko.FS
