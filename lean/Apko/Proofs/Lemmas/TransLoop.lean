/-
Generic facts about `Trans.forRange` (the translator's rendering of a Go `for … range` loop with
loop-carried variables, `break`, `continue` and `return`; Model/TransPrelude.lean), used by the equality
theorems in Proofs/Trans*.lean.
-/
import Apko.Model.TransPrelude

namespace Apko.TransLoop
open Apko Apko.Trans

/-- a body that never leaves the loop is a `foldl` -/
theorem forRange_next {α ρ σ : Type} (f : σ → α → Loop ρ σ) (g : σ → α → σ)
    (h : ∀ s x, f s x = .next (g s x)) (l : List α) (s : σ) :
    forRange l s f = .inr (l.foldl g s) := by
  induction l generalizing s with
  | nil => rfl
  | cons x xs ih => simp [forRange, h, ih]

/-- an accumulator that appends the elements passing a test is `filter` -/
theorem foldl_append_filter {α : Type} (keep : α → Bool) (l : List α) (s : List α) :
    l.foldl (fun s x => if keep x then s ++ [x] else s) s = s ++ l.filter keep := by
  induction l generalizing s with
  | nil => simp
  | cons x xs ih => by_cases hk : keep x <;> simp [hk, ih]

/-- a body that either goes on unchanged or returns one fixed value -/
theorem forRange_next_or_ret {α ρ σ : Type} (f : σ → α → Loop ρ σ) (r : ρ)
    (h : ∀ s x, f s x = .next s ∨ f s x = .ret r) (l : List α) (s : σ) :
    forRange l s f = .inr s ∨ forRange l s f = .inl r := by
  induction l generalizing s with
  | nil => exact Or.inl rfl
  | cons x xs ih =>
    rcases h s x with hx | hx
    · simpa [forRange, hx] using ih s
    · exact Or.inr (by simp [forRange, hx])

/-- a body that leaves the loop by `break` at the first hit, having updated the observed part `π` of the
state once, and otherwise leaves `π` alone: the loop ends with `π` updated iff some element is a hit -/
theorem forRange_brk_any {α ρ σ β : Type} (π : σ → β) (hit : α → Bool) (upd : β → β)
    (f : σ → α → Loop ρ σ)
    (h : ∀ s x, (hit x = false ∧ ∃ s', f s x = .next s' ∧ π s' = π s) ∨
                (hit x = true ∧ ∃ s', f s x = .brk s' ∧ π s' = upd (π s)))
    (l : List α) (s : σ) :
    ∃ s', forRange l s f = .inr s' ∧ π s' = if l.any hit then upd (π s) else π s := by
  induction l generalizing s with
  | nil => exact ⟨s, rfl, by simp⟩
  | cons x xs ih =>
    rcases h s x with ⟨hx, s', hs, hp⟩ | ⟨hx, s', hs, hp⟩
    · obtain ⟨s'', h1, h2⟩ := ih s'
      exact ⟨s'', by simp [forRange, hs, h1], by simp [hx, h2, hp]⟩
    · exact ⟨s', by simp [forRange, hs], by simp [hx, hp]⟩

theorem forRange_next_or_ret_inl {α ρ σ : Type} (f : σ → α → Loop ρ σ) (r : ρ)
    (h : ∀ s x, f s x = .next s ∨ f s x = .ret r) (l : List α) (s : σ) (q : ρ)
    (hq : forRange l s f = .inl q) : q = r := by
  rcases forRange_next_or_ret f r h l s with h1 | h1 <;> rw [h1] at hq <;> cases hq
  rfl

theorem forRange_next_or_ret_inr {α ρ σ : Type} (f : σ → α → Loop ρ σ) (r : ρ)
    (h : ∀ s x, f s x = .next s ∨ f s x = .ret r) (l : List α) (s t : σ)
    (ht : forRange l s f = .inr t) : t = s := by
  rcases forRange_next_or_ret f r h l s with h1 | h1 <;> rw [h1] at ht <;> cases ht
  rfl

theorem forRange_brk_any_inr {α ρ σ β : Type} (π : σ → β) (hit : α → Bool) (upd : β → β)
    (f : σ → α → Loop ρ σ)
    (h : ∀ s x, (hit x = false ∧ ∃ s', f s x = .next s' ∧ π s' = π s) ∨
                (hit x = true ∧ ∃ s', f s x = .brk s' ∧ π s' = upd (π s)))
    (l : List α) (s t : σ) (ht : forRange l s f = .inr t) :
    π t = if l.any hit then upd (π s) else π s := by
  obtain ⟨s', h1, h2⟩ := forRange_brk_any π hit upd f h l s
  rw [h1] at ht
  cases ht
  exact h2

theorem forRange_brk_any_not_inl {α ρ σ β : Type} (π : σ → β) (hit : α → Bool) (upd : β → β)
    (f : σ → α → Loop ρ σ)
    (h : ∀ s x, (hit x = false ∧ ∃ s', f s x = .next s' ∧ π s' = π s) ∨
                (hit x = true ∧ ∃ s', f s x = .brk s' ∧ π s' = upd (π s)))
    (l : List α) (s : σ) (r : ρ) : forRange l s f ≠ .inl r := by
  obtain ⟨s', h1, _⟩ := forRange_brk_any π hit upd f h l s
  rw [h1]
  exact fun e => by cases e

end Apko.TransLoop
