import Apko.Proofs.Lemmas.FSResolve
/-! Every operation preserves the structural invariant. -/
namespace Apko.FS
open Apko Apko.Path

theorem mkdirAllLoop_inv (c : Cfg) (mode : Nat) :
    ∀ (rest : List Name) (fs : FS) (at_ : Pos) (tr : List Name),
      Inv fs → (fs.node at_.ino).dir = true → Inv (mkdirAllLoop c mode rest fs at_ tr).1 := by
  intro rest
  induction rest with
  | nil => intro fs at_ tr hi _; simpa [mkdirAllLoop] using hi
  | cons part rest ih =>
    intro fs at_ tr hi hd
    unfold mkdirAllLoop
    cases hl : fs.lookup at_.ino part with
    | some n =>
      simp only []
      repeat' split
      all_goals (try exact hi)
      all_goals (apply ih _ _ _ hi; simp_all)
    | none =>
      have hi1 := hi.create at_.ino part (newDir mode) hd rfl
      simp only []
      repeat' split
      all_goals (try exact hi1)
      all_goals (apply ih _ _ _ hi1; simp_all)

theorem mkdirAll_inv (c : Cfg) (fs : FS) (p : Text) (perm : Nat) (hi : Inv fs) : Inv (mkdirAll c fs p perm).1 := by
  unfold mkdirAll
  simp only []
  split
  · exact hi
  · have := mkdirAllLoop_inv c (modeDir ||| perm) ((parts p).filter (· ≠ dot)) fs { ino := 0 } [] hi hi.root
    split <;> simp_all

theorem openFileD_inv (c : Cfg) (flag perm : Nat) :
    ∀ (budget : Nat) (fs : FS) (start : List Ino) (name : Text),
      Inv fs → Inv (openFileD c flag perm budget fs start name).1 := by
  intro budget
  induction budget with
  | zero =>
    intro fs start name hi
    unfold openFileD
    simp only []
    repeat' split
    all_goals (try exact hi)
    all_goals (try exact Inv.create hi _ _ _ (by simp_all) rfl)
    all_goals (try exact Inv.setNode_meta (Inv.create hi _ _ _ (by simp_all) rfl) _ _ rfl rfl)
    all_goals (exact Inv.setNode_meta hi _ _ rfl rfl)
  | succ k ih =>
    intro fs start name hi
    unfold openFileD
    simp only []
    repeat' split
    all_goals (try exact hi)
    all_goals (try exact ih _ _ _ hi)
    all_goals (try exact ih _ _ _ (Inv.create hi _ _ _ (by simp_all) rfl))
    all_goals (try exact Inv.create hi _ _ _ (by simp_all) rfl)
    all_goals (try exact Inv.setNode_meta (Inv.create hi _ _ _ (by simp_all) rfl) _ _ rfl rfl)
    all_goals (exact Inv.setNode_meta hi _ _ rfl rfl)

theorem openCore_inv (c : Cfg) (fs : FS) (name : Text) (flag perm : Nat) (hi : Inv fs) :
    Inv (openCore c fs name flag perm).1 := by
  unfold openCore
  have := openFileD_inv c flag perm maxLinks fs [0] name hi
  split
  · rename_i heq; simpa [heq] using this
  · rename_i fs1 o heq
    simp only [heq] at this
    simp only [newMemFile]
    split
    · exact Inv.setNode_meta this _ _ rfl rfl
    · exact this

theorem setXattr_inv (c : Cfg) (fs : FS) (p : Text) (a : Name) (d : Text) (hi : Inv fs) :
    Inv (setXattr c fs p a d).1 := by
  unfold setXattr
  split
  · exact hi
  · simp only []
    apply Inv.modify_meta hi <;> (intro n; rfl)

theorem setXattrs_inv (c : Cfg) (name : Text) :
    ∀ (l : List (Name × Text)) (fs : FS), Inv fs → Inv (setXattrs c name l fs).1 := by
  intro l
  induction l with
  | nil => intro fs hi; simpa [setXattrs] using hi
  | cons e rest ih =>
    intro fs hi
    obtain ⟨k, v⟩ := e
    unfold setXattrs
    have := setXattr_inv c fs name k v hi
    generalize setXattr c fs name k v = r at this
    obtain ⟨fs1, o⟩ := r
    cases o <;> simp only [] <;> first | exact ih _ this | exact this

theorem finishXattrs_inv (c : Cfg) (h : Hdr) (fs : FS) (v : Val) (hi : Inv fs) : Inv (finishXattrs c h fs v).1 := by
  unfold finishXattrs
  have := setXattrs_inv c h.name h.xattrs fs hi
  split <;> simp_all

theorem linkOp_inv (c : Cfg) (fs : FS) (o n : Text) (hdr : Bool) (hi : Inv fs) : Inv (linkOp c fs o n hdr).1 := by
  unfold linkOp
  repeat' split
  all_goals (try exact hi)
  all_goals
    simp only []
    apply Inv.modify_meta (Inv.link hi _ _ _ (by simp_all) (getNode_live hi c _ _ (by assumption)))
      <;> (intro n; rfl)

theorem writeHeaderFile_inv (c : Cfg) (fs : FS) (h : Hdr) (sum : Text) (hi : Inv fs) :
    Inv (writeHeaderFile c fs h sum).1 := by
  unfold writeHeaderFile
  simp only []
  repeat' split
  all_goals (try exact hi)
  all_goals (exact Inv.create hi _ _ _ (by simp_all) rfl)

theorem whDir_inv (c : Cfg) (fs : FS) (h : Hdr) (hi : Inv fs) : Inv (whDir c fs h).1 := by
  unfold whDir
  have h1 := mkdirAll_inv c fs h.name (h.mode &&& 0o777) hi
  generalize mkdirAll c fs h.name (h.mode &&& 0o777) = r at h1
  obtain ⟨fs1, o⟩ := r
  cases o with
  | ok v =>
    simp only []
    split
    · exact h1
    · apply finishXattrs_inv
      apply Inv.modify_meta h1 <;> (intro n; rfl)
  | err e => exact h1
  | nohandle => exact h1

theorem whFile_inv (c : Cfg) (fs : FS) (h : Hdr) (hi : Inv fs) : Inv (whFile c fs h).1 := by
  unfold whFile
  split
  · exact hi
  · split
    · exact hi
    · rename_i sum _
      have h1 := writeHeaderFile_inv c fs h sum hi
      generalize writeHeaderFile c fs h sum = r at h1 ⊢
      obtain ⟨fs1, o⟩ := r
      cases o with
      | error e => exact h1
      | ok b => exact finishXattrs_inv c h fs1 _ h1

theorem writeHeaderOp_inv (c : Cfg) (fs : FS) (h : Hdr) (hi : Inv fs) : Inv (writeHeaderOp c fs h).1 := by
  unfold writeHeaderOp
  split
  · exact hi
  · split
    · exact whDir_inv c fs h hi
    · split
      · exact whFile_inv c fs h hi
      · split
        · have h1 := linkOp_inv c fs h.linkname h.name true hi
          generalize linkOp c fs h.linkname h.name true = r at h1
          obtain ⟨fs1, o⟩ := r
          cases o <;> exact h1
        · exact hi

/-- the `ModeDir` bit is only carried by directories (true as long as no caller passes type bits
as permissions; `Mkdir` tests this bit where every other method tests the `dir` flag) -/
def DirBit (fs : FS) : Prop := ∀ i : Nat, (fs.node i).mode.testBit 31 = true → (fs.node i).dir = true

theorem handles_irrelevant {fs : FS} (hs : List Handle) (hi : Inv fs) : Inv { fs with handles := hs } :=
  Inv.of_nodes_eq (fs := fs) rfl hi

/-- **inv_step**: every operation (of every backend, Impl or Spec) preserves the invariant -/
theorem inv_step (c : Cfg) (fs : FS) (op : Op) (hi : Inv fs) (hb : DirBit fs) : Inv (step c fs op).1 := by
  cases op with
  | mkdirAll p perm => exact mkdirAll_inv c fs p perm hi
  | openFile p flag perm =>
    simp only [step]
    have := openCore_inv c fs p flag perm hi
    split <;> (rename_i heq; simp only [heq] at this; exact handles_irrelevant _ this)
  | create p =>
    simp only [step]
    have := openCore_inv c fs p flagsWriteFile 0o666 hi
    split <;> (rename_i heq; simp only [heq] at this; exact handles_irrelevant _ this)
  | readFile p =>
    simp only [step]
    have := openCore_inv c fs p 0 0o644 hi
    split <;> (rename_i heq; simp only [heq] at this; exact this)
  | writeFile p data perm =>
    simp only [step]
    have := openCore_inv c fs p flagsWriteFile perm hi
    split
    · rename_i heq; simp only [heq] at this; exact this
    · rename_i heq; simp only [heq] at this; exact Inv.setNode_meta this _ _ rfl rfl
  | setXattr p a d => exact setXattr_inv c fs p a d hi
  | link o n => exact linkOp_inv c fs o n false hi
  | writeHeader h => exact writeHeaderOp_inv c fs h hi
  | mkdir p perm =>
    simp only [step]
    repeat' split
    all_goals (try exact hi)
    exact Inv.create hi _ _ _ (hb _ (by simp_all)) rfl
  | _ =>
    simp only [step]
    repeat' split
    all_goals (try exact hi)
    all_goals (try exact handles_irrelevant _ hi)
    all_goals (try exact Inv.create hi _ _ _ (by simp_all) rfl)
    all_goals (try (simp only []; apply Inv.modify_meta hi <;> (intro n; rfl)))
    all_goals (try exact handles_irrelevant _ (Inv.setNode_meta hi _ _ rfl rfl))
    all_goals (try exact Inv.unlink (Inv.modify_meta hi _ _ (by intro n; rfl) (by intro n; rfl)) _ _)

end Apko.FS
