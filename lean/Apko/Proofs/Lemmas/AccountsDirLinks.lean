import Apko.Proofs.Lemmas.AccountsSubtree
/-! C13 (c): after a successful `MkdirAll(p)` every successful lookup of `p` ends at a directory — also
when the path runs through symbolic links.  `MkdirAll`'s loop resolves a link it meets with a fresh
lookup of the link's destination; the lookup of `p` afterwards resolves the same destination with
its own (smaller) budgets.  Both are deterministic: whenever two budgeted lookups of one path succeed
they end at the same node (`getNodeD_det`), and lookups are stable under the extensions the loop
makes afterwards (`getNodeD_ext`). -/
namespace Apko.Accounts
open Apko Apko.Path Apko.FS Apko.Formats

/-- two recursors agree on the node whenever both succeed -/
def RecAgree (r r' : Option (Text → Nat → Except Err (Ino × Nat))) : Prop :=
  ∀ f f', r = some f → r' = some f' → ∀ t k k' i j c1 c2, f t k = .ok (i, c1) → f' t k' = .ok (j, c2) → i = j

theorem walkImpl_det (fs : FS) (r r' : Option (Text → Nat → Except Err (Ino × Nat))) (hr : RecAgree r r') :
    ∀ (ps : List Name) (node : Ino) (tr : List Name) (cnt cnt' : Nat) (i j : Ino) (c1 c2 : Nat),
      walkImpl fs r ps node tr cnt = .ok (i, c1) → walkImpl fs r' ps node tr cnt' = .ok (j, c2) → i = j := by
  intro ps
  induction ps with
  | nil =>
    intro node tr cnt cnt' i j c1 c2 h1 h2
    simp only [walkImpl, Except.ok.injEq, Prod.mk.injEq] at h1 h2
    rw [← h1.1, ← h2.1]
  | cons part rest ih =>
    intro node tr cnt cnt' i j c1 c2 h1 h2
    unfold walkImpl at h1 h2
    by_cases hd : (fs.node node).dir = true
    · simp only [hd, Bool.not_true, Bool.false_eq_true, if_false] at h1 h2
      cases hl : fs.lookup node part with
      | none => simp [hl] at h1
      | some child =>
        simp only [hl] at h1 h2
        by_cases hsym : (fs.node child).isSymlink = true
        · simp only [hsym, if_true] at h1 h2
          by_cases hc1 : cnt + 1 > maxLinks
          · simp [hc1] at h1
          by_cases hc2 : cnt' + 1 > maxLinks
          · simp [hc2] at h2
          simp only [hc1, hc2, if_false] at h1 h2
          cases r with
          | none => simp at h1
          | some f =>
            cases r' with
            | none => simp at h2
            | some f' =>
              simp only [] at h1 h2
              split at h1
              · cases h1
              · rename_i tn ca hf
                split at h2
                · cases h2
                · rename_i tn' cb hf'
                  have : tn = tn' := hr f f' rfl rfl _ _ _ _ _ _ _ hf hf'
                  subst this
                  exact ih _ _ _ _ _ _ _ _ h1 h2
        · simp only [hsym, Bool.false_eq_true, if_false] at h1 h2
          exact ih _ _ _ _ _ _ _ _ h1 h2
    · simp [hd] at h1

/-- **lookups are deterministic in their budgets**: two successful lookups of one path end at the
same node, whatever nesting budget and traversal counter they started with -/
theorem getNodeD_det (fs : FS) : ∀ (d d' : Nat) (p : Text) (k k' : Nat) (i j : Ino) (c1 c2 : Nat),
    getNodeD fs d p k = .ok (i, c1) → getNodeD fs d' p k' = .ok (j, c2) → i = j := by
  intro d
  induction d with
  | zero =>
    intro d' p k k' i j c1 c2 h1 h2
    cases d' with
    | zero =>
      unfold getNodeD at h1 h2
      split at h1
      · rename_i hp; simp only [hp, if_true, Except.ok.injEq, Prod.mk.injEq] at h1 h2; rw [← h1.1, ← h2.1]
      · rename_i hp; simp only [hp, if_false] at h2
        exact walkImpl_det fs none none (by intro f f' hf; cases hf) _ _ _ _ _ _ _ _ _ h1 h2
    | succ d' =>
      unfold getNodeD at h1 h2
      split at h1
      · rename_i hp; simp only [hp, if_true, Except.ok.injEq, Prod.mk.injEq] at h1 h2; rw [← h1.1, ← h2.1]
      · rename_i hp; simp only [hp, if_false] at h2
        exact walkImpl_det fs none _ (by intro f f' hf; cases hf) _ _ _ _ _ _ _ _ _ h1 h2
  | succ d ih =>
    intro d' p k k' i j c1 c2 h1 h2
    cases d' with
    | zero =>
      unfold getNodeD at h1 h2
      split at h1
      · rename_i hp; simp only [hp, if_true, Except.ok.injEq, Prod.mk.injEq] at h1 h2; rw [← h1.1, ← h2.1]
      · rename_i hp; simp only [hp, if_false] at h2
        exact walkImpl_det fs _ none (by intro f f' _ hf; cases hf) _ _ _ _ _ _ _ _ _ h1 h2
    | succ d' =>
      unfold getNodeD at h1 h2
      split at h1
      · rename_i hp; simp only [hp, if_true, Except.ok.injEq, Prod.mk.injEq] at h1 h2; rw [← h1.1, ← h2.1]
      · rename_i hp; simp only [hp, if_false] at h2
        refine walkImpl_det fs _ _ ?_ _ _ _ _ _ _ _ _ _ h1 h2
        intro f f' hf hf' t a b x y u v hx hy
        cases hf; cases hf'
        exact ih d' t a b x y u v hx hy

/-- `MkdirAll`'s loop and any successful lookup of the same components in the state it leaves end at
the same kind of node: a directory.  Links are allowed: the loop resolved the link's destination in
the state `fsk` it had then, the lookup resolves it in the final state `fs1 ⊇ fsk`. -/
theorem mkdirAllLoop_lockstep_links (c : Cfg) (hc : c.posix = false) (mode : Nat)
    (r : Option (Text → Nat → Except Err (Ino × Nat))) (fs1 : FS)
    (hr : ∀ f, r = some f → ∀ t k i k', f t k = .ok (i, k') →
      ∀ j k'', getNodeD fs1 (maxLinks + 1) t 0 = .ok (j, k'') → i = j) :
    ∀ (ps : List Name) (fs : FS) (at_ : Pos) (tr : List Name) (cnt : Nat) (n : Ino) (cnt' : Nat),
      FS.Inv fs → (fs.node at_.ino).dir = true →
      mkdirAllLoop c mode ps fs at_ tr = (fs1, none) →
      walkImpl fs1 r ps at_.ino tr cnt = .ok (n, cnt') → (fs1.node n).dir = true := by
  intro ps
  induction ps with
  | nil =>
    intro fs at_ tr cnt n cnt' _ hd hm hw
    simp only [mkdirAllLoop, Prod.mk.injEq, and_true] at hm
    simp only [walkImpl, Except.ok.injEq, Prod.mk.injEq] at hw
    subst hm; rw [← hw.1]; exact hd
  | cons part rest ih =>
    intro fs at_ tr cnt n cnt' hi hd hm hw
    rw [mkdirAllLoop_cons] at hm
    obtain ⟨fsk, nn, hm, hik, hlk, hefk⟩ : ∃ fsk nn, mkdirAllTail c mode rest tr part at_ fsk nn = (fs1, none) ∧
        FS.Inv fsk ∧ fsk.lookup at_.ino part = some nn ∧ EF fs fsk := by
      cases hl : fs.lookup at_.ino part with
      | some x => rw [hl] at hm; exact ⟨fs, x, hm, hi, hl, EF.refl fs⟩
      | none =>
        rw [hl] at hm
        exact ⟨(fs.create at_.ino part (newDir mode)).1, (fs.create at_.ino part (newDir mode)).2, hm,
          hi.create _ _ _ hd rfl, lookup_create fs _ _ _ hd, ef_create hi _ _ _ hd hl⟩
    unfold mkdirAllTail at hm
    simp only [] at hm
    have hdk : (fsk.node at_.ino).dir = true := hefk.ext.dir _ hd
    by_cases hsym : (fsk.node nn).isSymlink = true
    · simp only [hsym, if_true] at hm
      cases hres : resolveFrom c fsk at_.stack (linkDest c (joinNames tr) (fsk.node nn).target) with
      | error e => simp [hres] at hm
      | ok p =>
        simp only [hres] at hm
        by_cases hpd : (fsk.node p.ino).dir = true
        · simp only [hpd, Bool.not_true, Bool.false_eq_true, if_false] at hm
          have hef1 := mkdirAllLoop_ef c mode rest fsk p (tr ++ [part]) hik hpd
          rw [hm] at hef1
          have hl1 := hef1.ext.look _ _ _ hdk hlk
          have hs1 := hef1.ext.sym _ _ _ hdk hlk
          -- what the loop resolved, seen in the final state
          have hdest : ∃ k'', getNodeD fs1 (maxLinks + 1) (linkDest c (joinNames tr) (fsk.node nn).target) 0 = .ok (p.ino, k'') := by
            simp only [resolveFrom, hc, Bool.false_eq_true, if_false] at hres
            cases hgd : getNodeD fsk (maxLinks + 1) (linkDest c (joinNames tr) (fsk.node nn).target) 0 with
            | error e => simp [hgd] at hres
            | ok v =>
              obtain ⟨x, k''⟩ := v
              simp only [hgd, Except.ok.injEq] at hres
              refine ⟨k'', ?_⟩
              rw [getNodeD_ext hef1.ext _ _ _ _ hgd, ← hres]
          obtain ⟨k'', hdest⟩ := hdest
          unfold walkImpl at hw
          simp only [hef1.ext.dir _ hdk, Bool.not_true, Bool.false_eq_true, if_false, hl1, hs1.1, hsym, if_true,
            hs1.2.1] at hw
          by_cases hc' : cnt + 1 > maxLinks
          · simp [hc'] at hw
          · simp only [hc', if_false] at hw
            cases r with
            | none => simp at hw
            | some f =>
              simp only [] at hw
              split at hw
              · cases hw
              · rename_i tn cntx hf
                have hdst : (if isAbs (fsk.node nn).target then (fsk.node nn).target
                    else join2 (joinNames tr) (fsk.node nn).target) = linkDest c (joinNames tr) (fsk.node nn).target := by
                  simp [linkDest, hc]
                rw [hdst] at hf
                have : tn = p.ino := hr f rfl _ _ _ _ hf _ _ hdest
                subst this
                exact ih fsk p (tr ++ [part]) _ n cnt' hik hpd hm hw
        · simp [hpd] at hm
    · simp only [hsym, Bool.false_eq_true, if_false] at hm
      by_cases hnd : (fsk.node nn).dir = true
      · simp only [hnd, Bool.not_true, Bool.false_eq_true, if_false] at hm
        have hef1 := mkdirAllLoop_ef c mode rest fsk { ino := nn, stack := nn :: at_.stack } (tr ++ [part]) hik hnd
        rw [hm] at hef1
        have hl1 := hef1.ext.look _ _ _ hdk hlk
        have hs1 := (hef1.ext.sym _ _ _ hdk hlk).1
        unfold walkImpl at hw
        simp only [hef1.ext.dir _ hdk, Bool.not_true, Bool.false_eq_true, if_false, hl1, hs1, hsym] at hw
        exact ih fsk { ino := nn, stack := nn :: at_.stack } (tr ++ [part]) cnt n cnt' hik hnd hm hw
      · simp [hnd] at hm

/-- **after a successful `MkdirAll(p, perm)` every successful lookup of `p` ends at a directory** (the
final state is tree-shaped: no entry is called `.`) -/
theorem mkdirAll_resolves_dir (c : Cfg) (hc : c.posix = false) (fs fsA : FS) (p : Text) (perm : Nat) (hi : FS.Inv fs)
    (htA : FS.Tree fsA) (h : act c fs (.mkdirAll p perm) = (fsA, none))
    (i : Ino) (hg : getNode c fsA p = .ok i) : (fsA.node i).dir = true := by
  simp only [getNode, resolveFrom, hc, Bool.false_eq_true, if_false] at hg
  cases hgd : getNodeD fsA (maxLinks + 1) p 0 with
  | error e => simp [hgd, Except.map] at hg
  | ok v =>
    obtain ⟨i', cnt'⟩ := v
    have : i' = i := by simpa [hgd, Except.map] using hg
    subst this
    obtain ⟨hw, _⟩ := getNodeD_eparts htA maxLinks p 0 _ hgd
    simp only [act, step, Prod.mk.injEq] at h
    unfold mkdirAll at h
    unfold eparts at hw
    generalize (parts p).filter (· ≠ dot) = ps at h hw
    simp only [] at h
    by_cases hdd : hasDotDot ps = true
    · simp [hdd, errOf] at h
    · simp only [hdd, Bool.false_eq_true, if_false] at h
      cases hm : mkdirAllLoop c (modeDir ||| perm) ps fs { ino := 0 } [] with
      | mk f e =>
        cases e with
        | some e => simp [hm, errOf] at h
        | none =>
          simp only [hm, errOf, and_true] at h
          subst h
          exact mkdirAllLoop_lockstep_links c hc _ _ f
            (by intro g hg t k x k' hx j k'' hj; cases hg; exact getNodeD_det f _ _ t _ _ _ _ _ _ hx hj)
            _ fs { ino := 0 } [] 0 i' cnt' hi hi.root hm hw

end Apko.Accounts
