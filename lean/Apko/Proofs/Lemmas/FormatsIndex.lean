/-
C16 helper lemmas: rendered lines are line-safe; the whole-file fold of the index reader.
-/
import Apko.Proofs.Lemmas.FormatsFold

namespace Apko.Formats
open Apko

theorem lineSafe_of_all (t : Text) (h : ∀ c ∈ t, c ≠ '\n' ∧ c ≠ '\r') : lineSafe t = true := by
  unfold lineSafe; rw [List.all_eq_true]; intro c hc; simp [h c hc]

theorem lineSafe_mem (t : Text) (h : lineSafe t = true) : ∀ c ∈ t, c ≠ '\n' ∧ c ≠ '\r' := by
  intro c hc
  have := (lineSafe_iff t).mp h
  exact ⟨fun e => this.1 (e ▸ hc), fun e => this.2 (e ▸ hc)⟩

theorem mem_joinWith (sep : Text) (c : Char) : ∀ (l : List Text), c ∈ joinWith sep l → c ∈ sep ∨ ∃ a ∈ l, c ∈ a
  | [], h => by simp [joinWith] at h
  | [a], h => by simp only [joinWith] at h; exact Or.inr ⟨a, by simp, h⟩
  | a :: b :: rest, h => by
    simp only [joinWith, List.mem_append] at h
    rcases h with (h | h) | h
    · exact Or.inr ⟨a, by simp, h⟩
    · exact Or.inl h
    · rcases mem_joinWith sep c (b :: rest) h with h | ⟨x, hx, hc⟩
      · exact Or.inl h
      · exact Or.inr ⟨x, by simp [hx], hc⟩

theorem digit_safe (c : Char) (h : isDigitB 10 c = true) : c ≠ '\n' ∧ c ≠ '\r' := by
  constructor <;> (intro e; subst e; exact absurd h (by decide))

theorem letter_safe (c : Char) (h : isLetter c = true) : c ≠ '\n' ∧ c ≠ '\r' := by
  constructor <;> (intro e; subst e; exact absurd h (by decide))

theorem joined_safe (l : List Text) (h : l.all itemSafe = true) : ∀ c ∈ joinWith [' '] l, c ≠ '\n' ∧ c ≠ '\r' := by
  intro c hc
  rcases mem_joinWith _ c l hc with h1 | ⟨a, ha, hca⟩
  · simp only [List.mem_singleton] at h1; subst h1; exact ⟨by decide, by decide⟩
  · exact lineSafe_mem a (itemSafe_spec a (List.all_eq_true.mp h a ha)).2.2 c hca

theorem fmtVal_safe (c : Codec) (hc : c.Lawful) (fm : Fmt) (v : Val) (hs : valSafe v = true) :
    lineSafe (fmtVal c fm v) = true := by
  apply lineSafe_of_all
  intro ch hch
  cases v with
  | str t => cases fm <;> exact lineSafe_mem t hs ch hch
  | list l =>
    cases fm with
    | plain =>
      simp only [fmtVal, goList, List.mem_cons, List.mem_append] at hch
      rcases hch with h | h | h
      · subst h; exact ⟨by decide, by decide⟩
      · exact joined_safe l hs ch h
      · rcases h with h | h
        · subst h; exact ⟨by decide, by decide⟩
        · simp at h
    | joinSp => exact joined_safe l hs ch hch
  | nat n => cases fm <;> exact digit_safe ch (natToDec_digits n ch hch)
  | int i =>
    have : ch ∈ intToDec i := by cases fm <;> exact hch
    unfold intToDec at this
    split at this
    · simp only [List.mem_cons] at this
      rcases this with h | h
      · subst h; exact ⟨by decide, by decide⟩
      · exact digit_safe ch (natToDec_digits _ ch h)
    · exact digit_safe ch (natToDec_digits _ ch this)
  | bytes b =>
    have : ch ∈ ('Q' :: '1' :: c.enc b : Text) := by cases fm <;> exact hch
    simp only [List.mem_cons] at this
    rcases this with h | h | h
    · subst h; exact ⟨by decide, by decide⟩
    · subst h; exact ⟨by decide, by decide⟩
    · exact lineSafe_mem _ (hc.2 b) ch h

/-- every field of the record is free of the format's separators and in range -/
def fieldsSafe (p : Pkg) : Bool := allFields.all fun f => valSafe (get p f)

theorem fieldsSafe_get (p : Pkg) (h : fieldsSafe p = true) (f : Field) : valSafe (get p f) = true := by
  have := List.all_eq_true.mp h f (by cases f <;> simp [allFields])
  exact this

theorem recLines_safe (c : Codec) (hc : c.Lawful) (cs : List Case) (rows : List Row) (p : Pkg)
    (hok : ∀ r ∈ rows, rowOK cs r = true) (hs : fieldsSafe p = true) :
    ∀ l ∈ recLines c rows p, lineSafe l = true := by
  intro l hl
  simp only [recLines, List.mem_flatMap] at hl
  obtain ⟨r, hr, hl⟩ := hl
  unfold renderRow at hl
  split at hl
  · simp only [List.mem_singleton] at hl
    subst hl
    have hrow := hok r hr
    unfold rowOK at hrow
    simp only [Bool.and_eq_true] at hrow
    apply lineSafe_of_all
    intro ch hch
    simp only [List.mem_cons] at hch
    rcases hch with h | h | h
    · subst h; exact letter_safe _ hrow.1.1
    · subst h; exact ⟨by decide, by decide⟩
    · exact lineSafe_mem _ (fmtVal_safe c hc r.fmt _ (fieldsSafe_get p hs r.field)) ch h
  · simp at hl

/-! ## the whole file -/

def allLines (c : Codec) (rows : List Row) (ps : List Pkg) : List Text :=
  ps.flatMap fun p => recLines c rows p ++ [[]]

theorem unlines_append (a b : List Text) : unlines (a ++ b) = unlines a ++ unlines b := by
  simp [unlines]

theorem renderIndex_eq (c : Codec) (rows : List Row) (ps : List Pkg) (h : ∀ p ∈ ps, p.name ≠ []) :
    renderIndex c rows ps = unlines (allLines c rows ps) := by
  induction ps with
  | nil => simp [renderIndex, allLines, unlines]
  | cons p ps ih =>
    have := ih (fun x hx => h x (by simp [hx]))
    simp only [renderIndex, allLines, List.flatMap_cons, recText] at this ⊢
    rw [this, if_neg (h p (by simp)), unlines_append (recLines c rows p ++ [[]])]

theorem idxFold_all (c : Codec) (hc : c.Lawful) (cs : List Case) (rows : List Row)
    (hok : tableOK rows cs = true) :
    ∀ (ps : List Pkg) (pk : List Pkg), (∀ p ∈ ps, p.name ≠ [] ∧ fieldsSafe p = true) →
      idxFold c cs ⟨pk, {}⟩ (allLines c rows ps) = .ok ⟨pk ++ ps.map (fun p => copyFields p {} rows), {}⟩ := by
  unfold tableOK at hok
  simp only [Bool.and_eq_true, decide_eq_true_eq, List.all_eq_true, List.contains_iff_mem] at hok
  obtain ⟨⟨hrows, hdist⟩, hname⟩ := hok
  intro ps
  induction ps with
  | nil => intro pk _; simp [allLines, idxFold]
  | cons p ps ih =>
    intro pk h
    have hp := h p (by simp)
    have h1 := idxFold_rows c hc cs p pk ([] :: allLines c rows ps) rows {} hrows hdist
      (fun r _ => fieldsSafe_get p hp.2 r.field) (fun _ _ => rfl)
    have hn : get (copyFields p {} rows) .name = get p .name := get_copyFields_mem p .name rows {} hdist hname
    have hn' : (copyFields p {} rows).name ≠ [] := by
      simp only [get, Val.str.injEq] at hn; rw [hn]; exact hp.1
    have h2 := ih (pk ++ [copyFields p {} rows]) (fun x hx => h x (by simp [hx]))
    simp only [allLines, List.flatMap_cons, List.append_assoc, List.singleton_append] at h1 h2 ⊢
    rw [h1]
    simp only [idxFold, idxStep, Res.bind, flushPkg, if_neg hn']
    rw [h2]; simp

/-- reading what was written gives, per package, the fields the rows carry -/
theorem parseIndex_render (c : Codec) (hc : c.Lawful) (cs : List Case) (rows : List Row)
    (hok : tableOK rows cs = true) (ps : List Pkg)
    (hwf : ∀ p ∈ ps, p.name ≠ [] ∧ fieldsSafe p = true ∧ linesFit indexTokenMax (recLines c rows p) = true) :
    parseIndex c cs (renderIndex c rows ps) = .ok (ps.map fun p => copyFields p {} rows) := by
  have hrows : ∀ r ∈ rows, rowOK cs r = true := by
    unfold tableOK at hok
    simp only [Bool.and_eq_true, List.all_eq_true] at hok
    exact hok.1.1
  have hsafe : ∀ l ∈ allLines c rows ps, lineSafe l = true := by
    intro l hl
    simp only [allLines, List.mem_flatMap, List.mem_append, List.mem_singleton] at hl
    obtain ⟨p, hp, hl | hl⟩ := hl
    · exact recLines_safe c hc cs rows p hrows (hwf p hp).2.1 l hl
    · subst hl; rfl
  have hfit : linesFit indexTokenMax (allLines c rows ps) = true := by
    unfold linesFit
    rw [List.all_eq_true]
    intro l hl
    simp only [allLines, List.mem_flatMap, List.mem_append, List.mem_singleton] at hl
    obtain ⟨p, hp, hl | hl⟩ := hl
    · exact List.all_eq_true.mp (hwf p hp).2.2 l hl
    · subst hl; decide
  unfold parseIndex
  rw [renderIndex_eq c rows ps (fun p hp => (hwf p hp).1), scanLines_unlines _ _ hsafe hfit]
  simp only []
  rw [idxFold_all c hc cs rows hok ps [] (fun p hp => ⟨(hwf p hp).1, (hwf p hp).2.1⟩)]
  simp [Res.bind]

end Apko.Formats
