/-
C02 lemmas, part 3: `depOption`, one pass of the dependency loop, and inversion ("what must have
happened") lemmas for a successful `depLoop` / `getDeps` step.

Core only.  Everything is stated for all inputs.
-/
import Apko.Proofs.Lemmas.ResolverState

namespace Apko.C02
open Apko Apko.Resolver

/-! ## `depOption`, restated with named pieces (`depOption_eq` is `rfl`) -/

def selfOk (pkg : Pkg) (con : Constraint) : Bool :=
  pkg.name = con.name &&
  (match pv pkg.version with
   | none => false
   | some act =>
     if con.dep = .any then true
     else match pv con.version with
       | none => false
       | some req => con.dep.satisfies act req)

/-- the dependency's name is already in `selected` -/
def selectedCase (picked : Pkg) (dep : Text) : Opt :=
  let con := parseConstraint dep
  if con.version.isEmpty then .skip else
  match pv picked.version, pv con.version with
  | some act, some req =>
    match depOption.scan con.name req picked.provides with
    | none => .fail
    | some true => if sat picked dep then .skip else .skipF "F02d"
    | some false =>
      if con.dep.satisfies act req then (if sat picked dep then .skip else .skipF "F02d") else .fail
  | _, _ => .fail

def candidateCase (c : Cfg) (allowPin : Text) (ds : DepSt) (dep : Text) : Opt :=
  let con := parseConstraint dep
  if !hasName c.u con.name then .fail else
  let pkgs := filterPackages (c.nm con.name) ds.st.dq con.version con.dep allowPin []
    (lookupT ds.existing con.name)
  if pkgs.isEmpty then .fail else .options dep pkgs

def depOption' (c : Cfg) (pkg : Pkg) (allowPin : Text) (ds : DepSt) (dep : Text) : Opt :=
  match dep with
  | '!' :: x => .conflict x
  | _ =>
    let con := parseConstraint dep
    let myProvides (k : Text) : Bool := pkg.provides.any fun pr => pr = k || provName pr = k
    if myProvides con.name || myProvides dep then (if sat pkg dep then .skip else .skipF "F02c") else
    if selfOk pkg con then .skip else
    match lookupT ds.st.selected con.name with
    | some picked => selectedCase picked dep
    | none => candidateCase c allowPin ds dep

theorem depOption_eq (c : Cfg) (pkg : Pkg) (allowPin : Text) (ds : DepSt) (dep : Text) :
    depOption c pkg allowPin ds dep = depOption' c pkg allowPin ds dep := rfl

/-- the self-dependency shortcut is sound: the package satisfies the dependency by its own name -/
theorem sat_of_selfOk {pkg : Pkg} {dep : Text} (h : selfOk pkg (parseConstraint dep) = true) :
    sat pkg dep = true := by
  unfold selfOk at h
  simp only [Bool.and_eq_true, decide_eq_true_eq] at h
  obtain ⟨hn, hv⟩ := h
  unfold sat
  simp only [Bool.or_eq_true, Bool.and_eq_true, decide_eq_true_eq]
  left
  refine ⟨hn, ?_⟩
  split at hv
  · simp at hv
  · next act hact =>
    split at hv
    · next hany => simp [hany]
    · split at hv
      · simp at hv
      · next req hreq => simp [hact, hreq, hv]

theorem selectedCase_skip {picked : Pkg} {dep : Text} (h : selectedCase picked dep = .skip) :
    (parseConstraint dep).version = [] ∨ sat picked dep = true := by
  unfold selectedCase at h
  simp only at h
  split at h
  · next he => exact Or.inl (by simpa using he)
  · split at h
    · split at h
      · simp at h
      · split at h
        · next hs => exact Or.inr hs
        · simp at h
      · split at h
        · split at h
          · next hs => exact Or.inr hs
          · simp at h
        · simp at h
    · simp at h

theorem selectedCase_not_options {picked : Pkg} {dep d : Text} {pkgs : List Pkg} :
    selectedCase picked dep ≠ .options d pkgs := by
  unfold selectedCase
  simp only
  intro h
  repeat' split at h
  all_goals simp at h

theorem selectedCase_not_conflict {picked : Pkg} {dep x : Text} :
    selectedCase picked dep ≠ .conflict x := by
  unfold selectedCase
  simp only
  intro h
  repeat' split at h
  all_goals simp at h

/-- T `depOption_skip`: a dependency is dropped without a flag only when the package itself satisfies it,
or its name is in `selected` and either it has no version or the selected package satisfies it -/
theorem depOption_skip {c : Cfg} {pkg : Pkg} {allowPin : Text} {ds : DepSt} {dep : Text}
    (h : depOption c pkg allowPin ds dep = .skip) :
    sat pkg dep = true ∨ ∃ picked, lookupT ds.st.selected (parseConstraint dep).name = some picked ∧
      ((parseConstraint dep).version = [] ∨ sat picked dep = true) := by
  rw [depOption_eq] at h
  unfold depOption' at h
  split at h
  · simp at h
  · simp only at h
    split at h
    · split at h
      · next hs => exact Or.inl hs
      · simp at h
    · split at h
      · next hs => exact Or.inl (sat_of_selfOk hs)
      · split at h
        · next picked hp => exact Or.inr ⟨picked, hp, selectedCase_skip h⟩
        · unfold candidateCase at h
          simp only at h
          repeat' split at h
          all_goals simp at h

/-- T `depOption_options`: the options offered for a dependency are the candidate filter over
`nameMap[name]` under the current `dq` -/
theorem depOption_options {c : Cfg} {pkg : Pkg} {allowPin : Text} {ds : DepSt} {dep d : Text}
    {pkgs : List Pkg} (h : depOption c pkg allowPin ds dep = .options d pkgs) :
    d = dep ∧ isConflict dep = false ∧
    pkgs = filterPackages (c.nm (parseConstraint dep).name) ds.st.dq (parseConstraint dep).version
      (parseConstraint dep).dep allowPin [] (lookupT ds.existing (parseConstraint dep).name) := by
  rw [depOption_eq] at h
  unfold depOption' at h
  split at h
  · simp at h
  · next hnc =>
    have hnc' : isConflict dep = false := by
      unfold isConflict
      split
      · next x => exact absurd rfl (hnc x)
      · rfl
    simp only at h
    split at h
    · split at h <;> simp at h
    · split at h
      · simp at h
      · split at h
        · exact absurd h selectedCase_not_options
        · unfold candidateCase at h
          simp only at h
          split at h
          · simp at h
          · split at h
            · simp at h
            · simp only [Opt.options.injEq] at h
              exact ⟨h.1.symm, hnc', h.2.symm⟩

theorem depOption_conflict {c : Cfg} {pkg : Pkg} {allowPin : Text} {ds : DepSt} {dep x : Text}
    (h : depOption c pkg allowPin ds dep = .conflict x) : isConflict dep = true := by
  rw [depOption_eq] at h
  unfold depOption' at h
  split at h
  · rfl
  · simp only at h
    split at h
    · split at h <;> simp at h
    · split at h
      · simp at h
      · split at h
        · exact absurd h selectedCase_not_conflict
        · unfold candidateCase at h
          simp only at h
          repeat' split at h
          all_goals simp at h

/-! ## one pass over the constraints -/

abbrev PassSt := List (Text × List Pkg) × List Text × List String

def passStep (c : Cfg) (pkg : Pkg) (allowPin : Text) (ds : DepSt) (s : Option PassSt) (dep : Text) :
    Option PassSt :=
  match s with
  | none => none
  | some (opts, confs, fl) =>
    match depOption c pkg allowPin ds dep with
    | .skip => some (opts, confs, fl)
    | .skipF f => some (opts, confs, fl ++ [f])
    | .conflict x => some (opts, confs ++ [x], fl)
    | .fail => none
    | .options d pkgs => some (setT opts d pkgs, confs, fl)

theorem passFold_none (c : Cfg) (pkg : Pkg) (allowPin : Text) (ds : DepSt) (l : List Text) :
    l.foldl (passStep c pkg allowPin ds) none = none := by
  induction l with
  | nil => rfl
  | cons x xs ih => simpa [passStep] using ih

/-- what a successful pass that raised no flag tells about every constraint it looked at:
* every option it recorded is `depOption`'s answer for a constraint of the list (or was there before);
* every constraint was skipped soundly, is a `!conflict`, or has its options recorded under its own key. -/
theorem passFold_spec (c : Cfg) (pkg : Pkg) (allowPin : Text) (ds : DepSt) (l : List Text)
    (opts0 : List (Text × List Pkg)) (confs0 : List Text) (fl0 : List String)
    (opts : List (Text × List Pkg)) (confs : List Text) (fl : List String)
    (h : l.foldl (passStep c pkg allowPin ds) (some (opts0, confs0, fl0)) = some (opts, confs, fl)) :
    (fl = [] → fl0 = []) ∧
    (∀ e ∈ opts, e ∈ opts0 ∨ (e.1 ∈ l ∧ depOption c pkg allowPin ds e.1 = .options e.1 e.2)) ∧
    (∀ k ∈ opts0.map (·.1), k ∈ opts.map (·.1)) ∧
    (fl = [] → ∀ d ∈ l, depOption c pkg allowPin ds d = .skip ∨ isConflict d = true ∨
      (d ∈ opts.map (·.1))) := by
  induction l generalizing opts0 confs0 fl0 with
  | nil =>
    simp only [List.foldl_nil, Option.some.injEq, Prod.mk.injEq] at h
    obtain ⟨rfl, rfl, rfl⟩ := h
    exact ⟨fun h => h, fun e he => Or.inl he, fun k hk => hk, by simp⟩
  | cons x xs ih =>
    simp only [List.foldl_cons] at h
    cases hx : depOption c pkg allowPin ds x with
    | skip =>
      simp only [passStep, hx] at h
      obtain ⟨h1, h2, h3, h4⟩ := ih _ _ _ h
      refine ⟨h1, ?_, h3, ?_⟩
      · intro e he
        rcases h2 e he with h | h
        · exact Or.inl h
        · exact Or.inr ⟨List.mem_cons_of_mem _ h.1, h.2⟩
      · intro hfl d hd
        rcases List.mem_cons.mp hd with rfl | hd
        · exact Or.inl hx
        · exact h4 hfl d hd
    | skipF f =>
      simp only [passStep, hx] at h
      obtain ⟨h1, _, _, _⟩ := ih _ _ _ h
      have hne : fl ≠ [] := fun he => by simpa using h1 he
      refine ⟨fun he => absurd he hne, ?_, ?_, fun he => absurd he hne⟩
      · intro e he
        obtain ⟨_, h2, _, _⟩ := ih _ _ _ h
        rcases h2 e he with h | h
        · exact Or.inl h
        · exact Or.inr ⟨List.mem_cons_of_mem _ h.1, h.2⟩
      · exact (ih _ _ _ h).2.2.1
    | conflict y =>
      simp only [passStep, hx] at h
      obtain ⟨h1, h2, h3, h4⟩ := ih _ _ _ h
      refine ⟨h1, ?_, h3, ?_⟩
      · intro e he
        rcases h2 e he with h | h
        · exact Or.inl h
        · exact Or.inr ⟨List.mem_cons_of_mem _ h.1, h.2⟩
      · intro hfl d hd
        rcases List.mem_cons.mp hd with rfl | hd
        · exact Or.inr (Or.inl (depOption_conflict hx))
        · exact h4 hfl d hd
    | fail =>
      simp only [passStep, hx] at h
      have := passFold_none c pkg allowPin ds xs
      rw [this] at h
      simp at h
    | options d pkgs =>
      simp only [passStep, hx] at h
      obtain ⟨h1, h2, h3, h4⟩ := ih _ _ _ h
      have hd := (depOption_options hx).1
      subst hd
      refine ⟨h1, ?_, ?_, ?_⟩
      · intro e he
        rcases h2 e he with h | h
        · rcases mem_setT h with h | h
          · exact Or.inl h
          · subst h
            exact Or.inr ⟨List.mem_cons_self .., hx⟩
        · exact Or.inr ⟨List.mem_cons_of_mem _ h.1, h.2⟩
      · intro k hk
        exact h3 k ((key_mem_setT opts0 d pkgs k).mpr (Or.inl hk))
      · intro hfl d' hd'
        rcases List.mem_cons.mp hd' with rfl | hd'
        · exact Or.inr (Or.inr (h3 _ ((key_mem_setT opts0 d' pkgs d').mpr (Or.inr rfl))))
        · exact h4 hfl d' hd'

/-! ## inversion of one successful `depLoop` / `getDeps` step -/

/-- what a successful `depLoop` step must have done -/
theorem depLoop_inv {c : Cfg} {rec : Pkg → List (Text × Nat) → DepSt → Res DepOut} {pkg : Pkg}
    {allowPin : Text} {parents : List (Text × Nat)} {fuel : Nat} {constraints : List Text}
    {acc out : DepOut}
    (h : depLoop c rec pkg allowPin parents (fuel + 1) constraints acc = .ok out) :
    (constraints = [] ∧ out = acc) ∨
    ∃ opts confs fl,
      constraints.foldl (passStep c pkg allowPin acc.ds) (some ([], acc.conflicts, [])) =
        some (opts, confs, fl) ∧
      ((lowestOption opts = none ∧
          out = ⟨acc.deps, confs, { acc.ds with st := fl.foldl St.flag acc.ds.st }⟩) ∨
       ∃ lowest pkgs best dq1 sel1 sub ex og,
        lowestOption opts = some (lowest, pkgs) ∧ best ∈ pkgs ∧
        disqualifyConflicts c best acc.ds.st.dq = some dq1 ∧
        pick pkg acc.ds.st.selected = some sel1 ∧
        rec best (parents ++ [(pkg.name, pkg.id)])
          ⟨⟨dq1, sel1, (fl.foldl St.flag acc.ds.st).flags⟩, acc.ds.existing, acc.ds.origins⟩ = .ok sub ∧
        depLoop c rec pkg allowPin parents fuel ((opts.map (·.1)).filter (· != lowest))
          ⟨acc.deps ++ sub.deps ++ [best], confs ++ sub.conflicts, ⟨sub.ds.st, ex, og⟩⟩ = .ok out) := by
  unfold depLoop at h
  split at h
  · next he =>
    left
    simp only [Res.ok.injEq] at h
    exact ⟨by simpa using he, h.symm⟩
  · right
    simp only at h
    split at h
    · simp at h
    · next opts confs fl hpass =>
      refine ⟨opts, confs, fl, hpass, ?_⟩
      split at h
      · next hlow =>
        left
        simp only [Res.ok.injEq] at h
        exact ⟨hlow, h.symm⟩
      · next lowest pkgs hlow =>
        right
        split at h
        · simp at h
        · next best hbest =>
          split at h
          · simp at h
          · next dq1 hdq =>
            split at h
            · simp at h
            · next sel1 hsel =>
              split at h
              · simp at h
              · simp at h
              · next sub hsub =>
                rw [foldl_flag_dq] at hdq
                rw [foldl_flag_selected] at hsel
                exact ⟨lowest, pkgs, best, dq1, sel1, sub, _, _, hlow, mem_of_minFunc hbest, hdq, hsel,
                  hsub, h⟩

/-- what a successful `getDeps` call must have done -/
theorem getDeps_inv {c : Cfg} {fuel : Nat} {pkg : Pkg} {allowPin : Text} {parents : List (Text × Nat)}
    {ds : DepSt} {out : DepOut} (h : getDeps c (fuel + 1) pkg allowPin parents ds = .ok out) :
    (parents.any (·.1 = pkg.name) = true ∧
      out = ⟨[], [], if parents.any (fun a => a.1 = pkg.name && a.2 != pkg.id)
                     then { ds with st := ds.st.flag "F02e" } else ds⟩) ∨
    (parents.any (·.1 = pkg.name) = false ∧ ∃ dq1, constrain c pkg.deps ds.st.dq = some dq1 ∧
      depLoop c (fun p ps d => getDeps c fuel p allowPin ps d) pkg allowPin parents (pkg.deps.length + 1)
        pkg.deps ⟨[], [], { ds with st := { ds.st with dq := dq1 } }⟩ = .ok out) := by
  unfold getDeps at h
  split at h
  · next hc =>
    left
    simp only [Res.ok.injEq] at h
    exact ⟨hc, h.symm⟩
  · next hc =>
    right
    refine ⟨by rw [Bool.not_eq_true] at hc; exact hc, ?_⟩
    split at h
    · simp at h
    · next dq1 hdq => exact ⟨dq1, hdq, h⟩

end Apko.C02
