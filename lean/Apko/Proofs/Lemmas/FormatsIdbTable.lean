/-
C16: the facts about the installed db that need an evaluation of the regenerated tables
(`Generated.idbPkgLines`, `Generated.idbSwitch`) — kept in a module of their own because each
evaluation of the `switch` table costs seconds of kernel time.
-/
import Apko.Proofs.Lemmas.FormatsIdbSample
import Apko.Proofs.Lemmas.FormatsCodec

namespace Apko.Formats
open Apko

set_option maxRecDepth 1000000 in
/-- over the regenerated tables (one evaluation of both tables): the lines of `PackageToInstalled` are
the `i:` line (printed with `%s` of a `[]string`, read with `splitRepeatedField`) plus rows that satisfy
`tableOK` with the cases of `ParseInstalled`, every field of the record has a line; `F:` `M:` `R:` `a:`
are the file cases (the parsed permissions reach `pkg.Files`), `Z:` has no case -/
theorem idb_tables_ok : (idbTableOK idbRows idbCases && fileCasesOK idbCases) = true := by decide

theorem idb_tables_ok_pkg : idbTableOK idbRows idbCases = true := by
  have := idb_tables_ok; simp only [Bool.and_eq_true] at this; exact this.1

theorem idb_tables_ok_files : fileCasesOK idbCases = true := by
  have := idb_tables_ok; simp only [Bool.and_eq_true] at this; exact this.2

/-- `parseInstalled_render` for the tables of the code -/
theorem parseInstalled_idb (c : Codec) (hc : c.Lawful) (g : Bool) (ips : List IPkg) (t : Text)
    (hr : renderInstalledAll c idbRows ips = .ok t) (hwf : ∀ ip ∈ ips, WFIPkg ip = true)
    (hfit : linesFit defaultTokenMax (rawLines t) = true) :
    parseInstalled c idbCases g t = .ok (ips.map readBack) :=
  parseInstalled_render c hc idbCases g idbRows idb_tables_ok_pkg idb_tables_ok_files ips t hr hwf hfit

/-! ## the smallest package: what re-reading and re-writing does to it -/

def minimalIPkg : IPkg := ⟨{ name := ['a'] }, []⟩

theorem render_noFiles (c : Codec) (p : Pkg) :
    renderInstalledAll c idbRows [⟨p, []⟩] = .ok (unlines (recLines c idbRows p ++ [[]])) := by
  simp [renderInstalledAll, renderInstalled, sortHeaders_nil, filesLines, Res.bind]

/-- the text written for `minimalIPkg` -/
def minimalText : Text := unlines (recLines escCodec idbRows minimalIPkg.pkg ++ [[]])

set_option maxRecDepth 1000000 in
theorem minimal_facts :
    renderInstalledAll escCodec idbRows [minimalIPkg] = .ok minimalText ∧
    linesFit defaultTokenMax (rawLines minimalText) = true ∧
    readBack minimalIPkg ≠ ⟨minimalIPkg.pkg, (sortHeaders minimalIPkg.files).getD []⟩ ∧
    renderInstalledAll escCodec idbRows [readBack minimalIPkg] ≠ .ok minimalText := by
  refine ⟨render_noFiles escCodec _, by decide, ?_, ?_⟩
  · simp only [readBack, minimalIPkg, sortHeaders_nil, Option.getD_some]; decide
  · simp only [readBack, minimalIPkg, sortHeaders_nil, Option.getD_some, List.map_nil, render_noFiles]; decide

/-! ## the sample package renders and fits -/

def sampleFileLines : List Text := match filesLines escCodec sampleFiles with | .ok fl => fl | _ => []
theorem sampleFileLines_ok : filesLines escCodec sampleFiles = .ok sampleFileLines := by decide

set_option maxRecDepth 100000 in
theorem sampleIPkg_renders :
    ∃ t, renderInstalled escCodec idbRows sampleIPkg = .ok t ∧ linesFit defaultTokenMax (rawLines t) = true := by
  unfold renderInstalled
  rw [show sampleIPkg.files = sampleFiles from rfl, sampleFiles_sorted]
  simp only [sampleFileLines_ok, Res.bind]
  exact ⟨_, rfl, by decide⟩

end Apko.Formats
