import Apko.Proofs.Lemmas.Accounts
/-! Path resolution is monotone under *extension* of the node graph: adding a new entry (under a
name that was free) or a new node never changes what an already resolvable path resolves to.
(Impl resolution, `posix = false`: what `tarfs` does.) -/
namespace Apko.Accounts
open Apko Apko.Path Apko.FS Apko.Formats

/-- `fs'` extends `fs`: directories stay directories, entries stay, and the nodes entries point to
keep their link bit and target -/
structure Ext (fs fs' : FS) : Prop where
  dir : ∀ i : Nat, (fs.node i).dir = true → (fs'.node i).dir = true
  look : ∀ (d : Nat) (n : Name) (j : Ino), (fs.node d).dir = true → fs.lookup d n = some j → fs'.lookup d n = some j
  sym : ∀ (d : Nat) (n : Name) (j : Ino), (fs.node d).dir = true → fs.lookup d n = some j →
    (fs'.node j).isSymlink = (fs.node j).isSymlink ∧ (fs'.node j).target = (fs.node j).target ∧
      (fs'.node j).dir = (fs.node j).dir

/-- a recursor of the extended graph agrees with the one of the original wherever that succeeds -/
def RecExt : Option (Text → Nat → Except Err (Ino × Nat)) → Option (Text → Nat → Except Err (Ino × Nat)) → Prop
  | none, _ => True
  | some f, some g => ∀ t c r, f t c = .ok r → g t c = .ok r
  | some _, none => False

theorem walkImpl_ext {fs fs' : FS} (he : Ext fs fs') (r r' : Option (Text → Nat → Except Err (Ino × Nat)))
    (hr : RecExt r r') :
    ∀ (ps : List Name) (node : Ino) (tr : List Name) (cnt : Nat) (res : Ino × Nat),
      walkImpl fs r ps node tr cnt = .ok res → walkImpl fs' r' ps node tr cnt = .ok res := by
  intro ps
  induction ps with
  | nil => intro node tr cnt res h; simpa [walkImpl] using h
  | cons part rest ih =>
    intro node tr cnt res h
    unfold walkImpl at h ⊢
    simp only [] at h ⊢
    by_cases hd : (fs.node node).dir = true
    · have hd' := he.dir node hd
      simp only [hd, hd', Bool.not_true, Bool.false_eq_true, if_false] at h ⊢
      cases hl : fs.lookup node part with
      | none => simp [hl] at h
      | some child =>
        have hl' := he.look node part child hd hl
        have hs := he.sym node part child hd hl
        simp only [hl, hl', hs.1, hs.2.1] at h ⊢
        by_cases hsym : (fs.node child).isSymlink = true
        · simp only [hsym, if_true] at h ⊢
          by_cases hc : cnt + 1 > maxLinks
          · simp [hc] at h
          · simp only [hc, if_false] at h ⊢
            cases r with
            | none => simp at h
            | some f =>
              cases r' with
              | none => exact absurd hr (by simp [RecExt])
              | some g =>
                simp only [] at h ⊢
                cases hf : f (if isAbs (fs.node child).target then (fs.node child).target
                    else join2 (joinNames tr) (fs.node child).target) (cnt + 1) with
                | error e => simp [hf] at h
                | ok v =>
                  obtain ⟨tn, cnt'⟩ := v
                  have hg := hr _ _ _ hf
                  simp only [hf, hg] at h ⊢
                  exact ih _ _ _ _ h
        · simp only [hsym, Bool.false_eq_true, if_false] at h ⊢
          exact ih _ _ _ _ h
    · simp [hd] at h

theorem getNodeD_ext {fs fs' : FS} (he : Ext fs fs') :
    ∀ (d : Nat) (p : Text) (cnt : Nat) (res : Ino × Nat),
      getNodeD fs d p cnt = .ok res → getNodeD fs' d p cnt = .ok res := by
  intro d
  induction d with
  | zero =>
    intro p cnt res h
    unfold getNodeD at h ⊢
    split
    · rename_i hp; simpa [hp] using h
    · rename_i hp; simp only [hp, if_false] at h
      exact walkImpl_ext he none none trivial _ _ _ _ _ h
  | succ d ih =>
    intro p cnt res h
    unfold getNodeD at h ⊢
    split
    · rename_i hp; simpa [hp] using h
    · rename_i hp; simp only [hp, if_false] at h
      exact walkImpl_ext he _ _ (by intro t c r hr; exact ih t c r hr) _ _ _ _ _ h

/-- **resolution is stable under extension** (Impl resolution) -/
theorem getNode_ext {c : Cfg} (hc : c.posix = false) {fs fs' : FS} (he : Ext fs fs') {p : Text} {i : Ino}
    (h : getNode c fs p = .ok i) : getNode c fs' p = .ok i := by
  simp only [getNode, resolveFrom, hc, Bool.false_eq_true, if_false] at h ⊢
  cases hg : getNodeD fs (maxLinks + 1) p 0 with
  | error e => simp [hg, Except.map] at h
  | ok v =>
    rw [getNodeD_ext he _ _ _ _ hg]
    simpa [hg] using h



theorem lookup_setChild_ne (cs : List (Name × Ino)) (n b : Name) (t : Ino) (h : n ≠ b) :
    (setChild cs b t).lookup n = cs.lookup n := by
  unfold setChild
  induction cs with
  | nil =>
    have : (n == b) = false := by simpa using h
    simp [List.lookup, this]
  | cons e rest ih =>
    obtain ⟨k, v⟩ := e
    by_cases hk : k = b
    · subst hk
      have : (n == k) = false := by simpa using h
      simpa [List.filter, List.lookup, this] using ih
    · by_cases hn : n = k
      · subst hn
        simp [List.filter, hk, List.lookup]
      · have : (n == k) = false := by simpa using hn
        simpa [List.filter, hk, List.lookup, this] using ih

theorem lookup_setChild_self (cs : List (Name × Ino)) (n : Name) (t : Ino) : (setChild cs n t).lookup n = some t := by
  unfold setChild
  induction cs with
  | nil => simp [List.lookup]
  | cons e rest ih =>
    by_cases he : e.1 = n
    · simpa [List.filter, he] using ih
    · have : (n == e.1) = false := by simpa using fun h => he h.symm
      simp only [List.filter, he, ne_eq, not_false_eq_true, decide_true, List.cons_append, List.lookup, this]
      simpa using ih

/-- entering a fresh node under a free name extends the graph -/
theorem ext_create {fs : FS} (hi : FS.Inv fs) (d : Nat) (b : Name) (nd : Inode)
    (hd : (fs.node d).dir = true) (hfree : fs.lookup d b = none) : Ext fs (fs.create d b nd).1 := by
  have hdl := dir_lt fs d hd
  have node_old : ∀ j, j < fs.nodes.length → j ≠ d → (fs.create d b nd).1.node j = fs.node j :=
    fun j hj hjd => node_create_other fs d j b nd hjd (by omega)
  refine ⟨?_, ?_, ?_⟩
  · intro i hdi
    have hil := dir_lt fs i hdi
    by_cases hid : i = d
    · subst hid; rw [node_create_parent fs i b nd hd]; exact hdi
    · rw [node_old i hil hid]; exact hdi
  · intro e n j hde hl
    have hel := dir_lt fs e hde
    by_cases hed : e = d
    · subst hed
      simp only [FS.lookup] at hl hfree ⊢
      rw [node_create_parent fs e b nd hd]
      simp only []
      have hnb : n ≠ b := by intro h; subst h; rw [hfree] at hl; cases hl
      rw [lookup_setChild_ne _ _ _ _ hnb]; exact hl
    · simp only [FS.lookup] at hl ⊢
      rw [node_old e hel hed]; exact hl
  · intro e n j _ hl
    have hjl := lookup_live hi hl
    by_cases hjd : j = d
    · subst hjd; rw [node_create_parent fs j b nd hd]; exact ⟨rfl, rfl, rfl⟩
    · rw [node_old j hjl hjd]; exact ⟨rfl, rfl, rfl⟩

/-- what the new name resolves to afterwards -/
theorem lookup_create (fs : FS) (d : Nat) (b : Name) (nd : Inode) (hd : (fs.node d).dir = true) :
    (fs.create d b nd).1.lookup d b = some fs.nodes.length := by
  simp only [FS.lookup]
  rw [node_create_parent fs d b nd hd]
  exact lookup_setChild_self _ _ _



/-- a successful `Symlink(target, name)` -/
theorem symlink_ok {c : Cfg} {fs fs' : FS} {t p : Text} (h : act c fs (.symlink t p) = (fs', none)) :
    ∃ pi, getNode c fs (dir p) = .ok pi ∧ (fs.node pi).dir = true ∧ fs.lookup pi (base p) = none ∧
      fs' = (fs.create pi (base p) { mode := modeSymlink + 0o777, target := t, mtime := (fs.node pi).mtime }).1 := by
  simp only [act, step, parentOf] at h
  cases hg : getNode c fs (dir p) with
  | error e => simp [hg, errOf] at h
  | ok pi =>
    simp only [hg] at h
    by_cases hd : (fs.node pi).dir = true
    · simp only [hd, Bool.not_true, Bool.false_eq_true, if_false] at h
      cases hdn : dotName (base p) with
      | true => simp [hdn, errOf] at h
      | false =>
      simp only [hdn, Bool.false_eq_true, if_false] at h
      cases hl : fs.lookup pi (base p) with
      | some x => simp [hl, errOf] at h
      | none =>
        simp only [hl, Option.isSome_none, Bool.false_eq_true, if_false, Prod.mk.injEq] at h
        exact ⟨pi, rfl, hd, hl, h.1.symm⟩
    · simp [hd, errOf] at h

theorem entryOf_shape {c : Cfg} {fs fs' : FS} (h : ShapeEq fs fs') (p : Text) : entryOf c fs' p = entryOf c fs p := by
  simp only [entryOf, parentOf, getNode_shape h c (dir p)]
  cases getNode c fs (dir p) with
  | error e => rfl
  | ok pi => simp [FS.lookup, h.children pi]

/-- the entry a successful `mutateSymLink` leaves at the path -/
theorem mutateSymLink_post {c : Cfg} (hc : c.posix = false) {fs fs' : FS} (hi : FS.Inv fs) {m : Mutation}
    (h : mutateSymLink c fs m = (fs', none)) :
    ∃ k, entryOf c fs' m.path = some k ∧ (fs'.node k).isSymlink = true ∧ (fs'.node k).target = m.source ∧
      (fs'.node k).uid = 0 ∧ (fs'.node k).gid = 0 := by
  unfold mutateSymLink at h
  obtain ⟨fs0, h0, h1⟩ := andThen_ok h
  have hi0 : FS.Inv fs0 := by have := inv_ensureParent c fs m.path hi; rw [h0] at this; exact this
  obtain ⟨pi, hg, hd, hfree, rfl⟩ := symlink_ok h1
  have hext := ext_create hi0 pi (base m.path)
    { mode := modeSymlink + 0o777, target := m.source, mtime := (fs0.node pi).mtime } hd hfree
  refine ⟨fs0.nodes.length, ?_, ?_, ?_, ?_, ?_⟩
  · simp only [entryOf, parentOf, getNode_ext hc hext hg]
    exact lookup_create fs0 pi _ _ hd
  all_goals rw [node_create_new fs0 pi _ _ hd]
  · show (modeSymlink + 0o777).testBit 27 = true; decide
  all_goals rfl

set_option linter.unusedSimpArgs false


/-- the loop body of `mutatePaths` for the four kinds that are followed by `mutatePermissions` -/
theorem mutateOne_symlink (c : Cfg) (fs : FS) (m : Mutation) (h : m.type = tSymlink) :
    mutateOne c fs m = liftE (andThen (mutateSymLink c fs m) fun fs1 => mutatePermissions c fs1 m) := by
  simp [mutateOne, mutatorOf, h, tSymlink, tDirectory, tEmptyFile, tHardlink, tPermissions]

theorem mutateOne_hardlink (c : Cfg) (fs : FS) (m : Mutation) (h : m.type = tHardlink) :
    mutateOne c fs m = liftE (andThen (mutateHardLink c fs m) fun fs1 => mutatePermissions c fs1 m) := by
  simp [mutateOne, mutatorOf, h, tSymlink, tDirectory, tEmptyFile, tHardlink, tPermissions]

theorem mutateOne_emptyFile (c : Cfg) (fs : FS) (m : Mutation) (h : m.type = tEmptyFile) :
    mutateOne c fs m = liftE (andThen (mutateEmptyFile c fs m) fun fs1 => mutatePermissions c fs1 m) := by
  simp [mutateOne, mutatorOf, h, tSymlink, tDirectory, tEmptyFile, tHardlink, tPermissions]

theorem mutateOne_directory (c : Cfg) (fs : FS) (m : Mutation) (h : m.type = tDirectory) :
    mutateOne c fs m =
      liftE (andThen ((mutateDirectory c fs m).1, (mutateDirectory c fs m).2.1) fun fs1 => mutatePermissions c fs1 m) := by
  simp [mutateOne, mutatorOf, h, tSymlink, tDirectory, tEmptyFile, tHardlink, tPermissions]

theorem mutateOne_permissions (c : Cfg) (fs : FS) (m : Mutation) (h : m.type = tPermissions) :
    mutateOne c fs m = liftE (mutatePermissions c fs m) := by
  simp only [mutateOne, mutatorOf, h]
  simp [tSymlink, tDirectory, tEmptyFile, tHardlink, tPermissions, andThen]
  rcases mutatePermissions c fs m with ⟨fs1, _ | e⟩ <;> rfl

theorem mutateOne_unknown (c : Cfg) (fs : FS) (m : Mutation)
    (h : m.type ∉ [tDirectory, tEmptyFile, tHardlink, tSymlink, tPermissions]) :
    mutateOne c fs m = (fs, some .badType) := by
  simp only [List.mem_cons, List.mem_nil_iff, or_false, not_or] at h
  simp [mutateOne, mutatorOf, h]



/-! ### `DirBit` (mode bit 31 only on directories) is kept by creation -/

theorem dirBit_create {fs : FS} (hb : DirBit fs) (d : Nat) (n : Name) (nd : Inode)
    (hd : (fs.node d).dir = true) (hn : nd.mode.testBit 31 = true → nd.dir = true) :
    DirBit (fs.create d n nd).1 := by
  have hdl := dir_lt fs d hd
  intro i hm
  by_cases h1 : i = fs.nodes.length
  · subst h1; rw [node_create_new fs d n nd hd] at hm ⊢; exact hn hm
  · by_cases h2 : i = d
    · subst h2; rw [node_create_parent fs i n nd hd] at hm ⊢; exact hb i hm
    · rw [node_create_other fs d i n nd h2 h1] at hm ⊢; exact hb i hm

theorem mkdirAllLoop_dirBit (c : Cfg) (mode : Nat) :
    ∀ (rest : List Name) (fs : FS) (at_ : Pos) (tr : List Name),
      DirBit fs → (fs.node at_.ino).dir = true → DirBit (mkdirAllLoop c mode rest fs at_ tr).1 := by
  intro rest
  induction rest with
  | nil => intro fs at_ tr hb _; simpa [mkdirAllLoop] using hb
  | cons part rest ih =>
    intro fs at_ tr hb hd
    unfold mkdirAllLoop
    cases hl : fs.lookup at_.ino part with
    | some n =>
      simp only []
      repeat' split
      all_goals (try exact hb)
      all_goals (apply ih _ _ _ hb; simp_all)
    | none =>
      have hb1 := dirBit_create hb at_.ino part (newDir mode) hd (by intro _; rfl)
      simp only []
      repeat' split
      all_goals (try exact hb1)
      all_goals (apply ih _ _ _ hb1; simp_all)

theorem mkdirAll_dirBit (c : Cfg) (fs : FS) (p : Text) (perm : Nat) (hi : FS.Inv fs) (hb : DirBit fs) :
    DirBit (mkdirAll c fs p perm).1 := by
  unfold mkdirAll
  simp only []
  split
  · exact hb
  · have := mkdirAllLoop_dirBit c (modeDir ||| perm) ((parts p).filter (· ≠ dot)) fs { ino := 0 } [] hb hi.root
    split <;> simp_all

/-- a successful `Mkdir(path, perm)` -/
theorem mkdir_ok {c : Cfg} {fs fs' : FS} {p : Text} {perm : Nat} (h : act c fs (.mkdir p perm) = (fs', none)) :
    ∃ pi, getNode c fs (dir p) = .ok pi ∧ (fs.node pi).mode.testBit 31 = true ∧ fs.lookup pi (base p) = none ∧
      fs' = (fs.create pi (base p) (newDir (modeDir ||| perm))).1 := by
  simp only [act, step, parentOf] at h
  cases hg : getNode c fs (dir p) with
  | error e => simp [hg, errOf] at h
  | ok pi =>
    simp only [hg] at h
    by_cases hd : (fs.node pi).mode.testBit 31 = true
    · simp only [hd, Bool.not_true, Bool.false_eq_true, if_false] at h
      by_cases hb : base p = dot ∨ base p = dotdot ∨ base p = slash
      · simp [hb, errOf] at h
      · simp only [hb, if_false] at h
        cases hl : fs.lookup pi (base p) with
        | some x => simp [hl, errOf] at h
        | none =>
          simp only [hl, Option.isSome_none, Bool.false_eq_true, if_false, Prod.mk.injEq] at h
          exact ⟨pi, rfl, hd, hl, h.1.symm⟩
    · simp [hd, errOf] at h



theorem walkImpl_append (fs : FS) (r : Option (Text → Nat → Except Err (Ino × Nat))) :
    ∀ (ps qs : List Name) (node : Ino) (tr : List Name) (cnt : Nat) (n : Ino) (c' : Nat),
      walkImpl fs r ps node tr cnt = .ok (n, c') →
      walkImpl fs r (ps ++ qs) node tr cnt = walkImpl fs r qs n (tr ++ ps) c' := by
  intro ps
  induction ps with
  | nil =>
    intro qs node tr cnt n c' h
    simp only [walkImpl, Except.ok.injEq, Prod.mk.injEq] at h
    obtain ⟨rfl, rfl⟩ := h
    simp
  | cons part rest ih =>
    intro qs node tr cnt n c' h
    rw [List.cons_append]
    unfold walkImpl at h
    conv => lhs; unfold walkImpl
    simp only [] at h ⊢
    by_cases hd : (fs.node node).dir = true
    · simp only [hd, Bool.not_true, Bool.false_eq_true, if_false] at h ⊢
      cases hl : fs.lookup node part with
      | none => simp [hl] at h
      | some child =>
        simp only [hl] at h ⊢
        by_cases hsym : (fs.node child).isSymlink = true
        · simp only [hsym, if_true] at h ⊢
          by_cases hc : cnt + 1 > maxLinks
          · simp [hc] at h
          · simp only [hc, if_false] at h ⊢
            cases r with
            | none => simp at h
            | some f =>
              simp only [] at h ⊢
              cases hf : f (if isAbs (fs.node child).target then (fs.node child).target
                  else join2 (joinNames tr) (fs.node child).target) (cnt + 1) with
              | error e => simp [hf] at h
              | ok v =>
                obtain ⟨tn, cnt'⟩ := v
                simp only [hf] at h ⊢
                rw [ih qs tn (tr ++ [part]) cnt' n c' h]
                simp
        · simp only [hsym, Bool.false_eq_true, if_false] at h ⊢
          rw [ih qs child (tr ++ [part]) cnt n c' h]
          simp
    · simp [hd] at h

theorem parts_slash : parts slash = [] := by decide

/-- the lookup of a path is the component walk from the root (also for `/`, whose component list is
empty; not for `.`, which the code special-cases although its component list is `["."]`) -/
theorem getNodeD_eq_walk (fs : FS) (d : Nat) (p : Text) (cnt : Nat) (hp : p ≠ dot) :
    getNodeD fs (d + 1) p cnt = walkImpl fs (some (getNodeD fs d)) (parts p) 0 [] cnt := by
  unfold getNodeD
  by_cases hs : p = slash
  · subst hs; simp [parts_slash, walkImpl]
  · simp [hs, hp]



/-- after `Mkdir(p, perm)` succeeded, `p` resolves to the directory that was just made (for paths
whose component list is that of their `Dir` followed by their `Base`: every cleaned absolute path) -/
theorem mkdir_then_resolve {c : Cfg} (hc : c.posix = false) {fs fs' : FS} (hi : FS.Inv fs) (hb : DirBit fs)
    {p : Text} {perm : Nat} (h : act c fs (.mkdir p perm) = (fs', none))
    (hsplit : parts p = parts (dir p) ++ [base p]) (hp : p ≠ slash ∧ p ≠ dot ∧ dir p ≠ dot)
    (hperm : (modeDir ||| perm).testBit 27 = false) :
    getNode c fs' p = .ok fs.nodes.length ∧ fs'.node fs.nodes.length = newDir (modeDir ||| perm) ∧
      FS.Inv fs' ∧ fs'.nodes.length = fs.nodes.length + 1 := by
  obtain ⟨pi, hg, hbit, hfree, rfl⟩ := mkdir_ok h
  have hd : (fs.node pi).dir = true := hb pi hbit
  have hext := ext_create hi pi (base p) (newDir (modeDir ||| perm)) hd hfree
  have hg' := getNode_ext hc hext hg
  have hnew := node_create_new fs pi (base p) (newDir (modeDir ||| perm)) hd
  refine ⟨?_, hnew, hi.create pi _ _ hd rfl, by simp [FS.create, FS.alloc, FS.link]⟩
  -- unfold both lookups into component walks
  simp only [getNode, resolveFrom, hc, Bool.false_eq_true, if_false] at hg' ⊢
  rw [getNodeD_eq_walk _ _ _ _ hp.2.2] at hg'
  have hpd : p ≠ dot := hp.2.1
  rw [getNodeD_eq_walk _ _ _ _ hpd, hsplit]
  cases hw : walkImpl (fs.create pi (base p) (newDir (modeDir ||| perm))).1
      (some (getNodeD (fs.create pi (base p) (newDir (modeDir ||| perm))).1 maxLinks)) (parts (dir p)) 0 [] 0 with
  | error e => simp [hw, Except.map] at hg'
  | ok v =>
    obtain ⟨n, c'⟩ := v
    have hn : n = pi := by simpa [hw, Except.map] using hg'
    subst hn
    rw [walkImpl_append _ _ _ _ _ _ _ _ _ hw]
    unfold walkImpl
    simp only [hext.dir n hd, Bool.not_true, Bool.false_eq_true, if_false, lookup_create fs n _ _ hd]
    have hns : ((fs.create n (base p) (newDir (modeDir ||| perm))).1.node fs.nodes.length).isSymlink = false := by
      rw [hnew]; exact hperm
    simp [hns, walkImpl, Except.map]



theorem length_create (fs : FS) (d : Nat) (n : Name) (nd : Inode) :
    (fs.create d n nd).1.nodes.length = fs.nodes.length + 1 := by
  simp [FS.create, FS.alloc, FS.link]

theorem mkdirAllLoop_length (c : Cfg) (mode : Nat) :
    ∀ (rest : List Name) (fs : FS) (at_ : Pos) (tr : List Name),
      fs.nodes.length ≤ (mkdirAllLoop c mode rest fs at_ tr).1.nodes.length := by
  intro rest
  induction rest with
  | nil => intro fs at_ tr; simp [mkdirAllLoop]
  | cons part rest ih =>
    intro fs at_ tr
    unfold mkdirAllLoop
    cases hl : fs.lookup at_.ino part with
    | some n =>
      simp only []
      repeat' split
      all_goals (try exact Nat.le_refl _)
      all_goals (exact ih _ _ _)
    | none =>
      have h1 := length_create fs at_.ino part (newDir mode)
      simp only []
      repeat' split
      all_goals (try (simp only []; omega))
      all_goals (refine Nat.le_trans (m := (fs.create at_.ino part (newDir mode)).1.nodes.length) (by omega) (ih _ _ _))

theorem mkdirAll_length (c : Cfg) (fs : FS) (p : Text) (perm : Nat) :
    fs.nodes.length ≤ (mkdirAll c fs p perm).1.nodes.length := by
  unfold mkdirAll
  simp only []
  split
  · exact Nat.le_refl _
  · have := mkdirAllLoop_length c (modeDir ||| perm) ((parts p).filter (· ≠ dot)) fs { ino := 0 } []
    split <;> simp_all

end Apko.Accounts
