import Apko.Model.Conflict
/-! helper lemmas for C07: membership forms of the `any` loops, the flat tree as a map -/
namespace Apko.C07
open Apko Apko.Conflict Apko.Path

theorem any_name_eq (l : List Text) (n : Text) : l.any (fun r => decide (n = r)) = true ↔ n ∈ l := by
  induction l with
  | nil => simp
  | cons a t ih =>
    simp only [List.any_cons, Bool.or_eq_true, decide_eq_true_eq, List.mem_cons, ih]

theorem contains_iff (l : List Text) (n : Text) : l.contains n = true ↔ n ∈ l := by
  simp

/-! ### the flat tree -/

theorem lookupT_setT_self (t : Tree) (p : PathK) (n : Node) : lookupT (setT t p n) p = some n := by
  simp [lookupT, setT]

theorem lookup_filter_ne (t : Tree) (p q : PathK) (h : q ≠ p) :
    (t.filter (fun e => e.1 ≠ p)).lookup q = t.lookup q := by
  induction t with
  | nil => rfl
  | cons a t ih =>
    obtain ⟨k, v⟩ := a
    by_cases hk : k = p
    · subst hk
      have : (q == k) = false := by simpa using h
      simp only [List.filter, ne_eq, not_true_eq_false, decide_false, List.lookup, this]
      exact ih
    · by_cases hq : q = k
      · subst hq
        simp [List.filter, List.lookup, hk]
      · have : (q == k) = false := by simpa using hq
        simp only [List.filter, ne_eq, hk, not_false_eq_true, decide_true, List.lookup, this]
        exact ih

theorem lookupT_setT_ne (t : Tree) (p q : PathK) (n : Node) (h : q ≠ p) :
    lookupT (setT t p n) q = lookupT t q := by
  have : (q == p) = false := by simpa using h
  unfold lookupT setT
  rw [List.lookup_cons, this]
  exact lookup_filter_ne t p q h

theorem lookupT_removeT_ne (t : Tree) (p q : PathK) (h : q ≠ p) :
    lookupT (removeT t p) q = lookupT t q := lookup_filter_ne t p q h

end Apko.C07
