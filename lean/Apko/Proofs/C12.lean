/-
C12 — Emitted OCI artifacts are well-formed and mirror the configuration.

Everything here is about the definitions the driver executes (`Apko.Model.Oci`) and about the facts
`Apko/Generated/Oci.lean` regenerated from /repo on every run: the append-offset expression of
BuildIndex, the environment defaults and constants of BuildImageFromLayers, the architecture tables.
-/
import Apko.Model.Oci
import Apko.Proofs.Lemmas.OciTar
import Apko.Proofs.Lemmas.OciList

namespace Apko.C12
open Apko Apko.Oci

/-! ## ties: generated facts the model spells out -/

theorem tie_env_default_keys : Generated.envDefaults.map (·.1) = ["PATH", "SSL_CERT_FILE"] := by decide
theorem tie_annotation_keys : Generated.annotationKeys.map String.toList = [keySource, keyRevision, keyCreated] := by decide
theorem tie_shell_prefix : shellPrefix = ["/bin/sh".toList, "-c".toList] := by decide
theorem tie_author_os : Generated.cfgAuthor = "github.com/chainguard-dev/apko" ∧ Generated.cfgOS = "linux" := by decide
theorem tie_arch_plain : Generated.parseArchMiddle =
    ["if s == \".\" || s == \"..\" || strings.Contains(s, \"/\") { s = strings.NewReplacer(\"/\", \"%2F\", \".\", \"%2E\").Replace(s) }"] := by decide
theorem tie_arch_defaults : Generated.parseArchDefault = "return Architecture(s)" ∧
    Generated.toAPKDefault = "return string(a)" ∧ Generated.toOCIDefault = "plat.Architecture = string(a)" ∧
    Generated.toOCIInit = "plat := v1.Platform{OS: \"linux\"}" := by decide

/-! ## append offset (over the generated expression) -/

/-- `r` is the least multiple of 512 that is ≥ `x` -/
def IsLeastBoundary (x r : Nat) : Prop := r % 512 = 0 ∧ x ≤ r ∧ ∀ m, m % 512 = 0 → x ≤ m → r ≤ m

theorem nextBoundary_least (x : Nat) : IsLeastBoundary x (Spec.nextBoundary x) := by
  unfold IsLeastBoundary Spec.nextBoundary
  refine ⟨by omega, by omega, ?_⟩
  intro m hm hx; omega

theorem least_boundary_unique {x r r' : Nat} (h : IsLeastBoundary x r) (h' : IsLeastBoundary x r') : r = r' := by
  have a := h.2.2 r' h'.1 h'.2.1
  have b := h'.2.2 r h.1 h.2.1
  omega

/-- the generated expression equals the round-up, for every position and size -/
theorem newOffset_eq (pos size : Nat) : Impl.newOffset pos size = Spec.nextBoundary (pos + size) := by
  unfold Impl.newOffset Generated.newOffset Spec.nextBoundary
  have h : Int.tmod ((pos : Int) + (size : Int)) 512 = ((pos : Int) + (size : Int)) % 512 :=
    Int.tmod_eq_emod_of_nonneg (by omega)
  simp only [h]
  split <;> omega

/-- T append_offset: `newOffset pos size` is the least multiple of 512 that is ≥ pos + size -/
theorem append_offset (pos size : Nat) : IsLeastBoundary (pos + size) (Impl.newOffset pos size) := by
  rw [newOffset_eq]; exact nextBoundary_least _

/-- F12a (repaired): the expression of the pinned tree skipped a block on a boundary -/
theorem pinnedOffset_not_least : ¬ IsLeastBoundary (512 + 512) (pinnedOffset 512 512) := by
  intro h
  have := h.2.2 1024 (by decide) (by decide)
  simp [pinnedOffset] at this

theorem pinnedOffset_ok_off_boundary (pos size : Nat) (h : (pos + size) % 512 ≠ 0) :
    pinnedOffset pos size = Spec.nextBoundary (pos + size) := by
  unfold pinnedOffset Spec.nextBoundary; omega

/-! ## the bundle can be read to its end -/

/-- with an offset that is the least boundary, BuildIndex's file is the image entries followed by
the appended entries and a trailer -/
theorem bundle_layout (offset : Nat → Nat → Nat)
    (hoff : ∀ p s, IsLeastBoundary (p + s) (offset p s))
    (imgs appended : List Entry) (hne : imgs ≠ []) :
    bundle offset imgs appended = some (encAll (imgs ++ appended) ++ trailer) := by
  unfold bundle
  simp only [readWithPos_written]
  have hlast := lastPosSize_positions 0 imgs hne
  have hoffv : offset (lastPosSize (positions 0 imgs)).1 (lastPosSize (positions 0 imgs)).2
      = 512 * blocksOf imgs := by
    have := least_boundary_unique (hoff (lastPosSize (positions 0 imgs)).1 (lastPosSize (positions 0 imgs)).2)
      (nextBoundary_least _)
    rw [this, hlast]; simp
  rw [hoffv]
  have h0 : 512 * blocksOf imgs % 512 = 0 := by omega
  have hk : 512 * blocksOf imgs / 512 = (encAll imgs).length := by rw [length_encAll]; omega
  rw [if_pos h0, hk, overwriteAt_end _ _ _ (by simp [trailer])]
  have happ : ∀ a b : List Entry, encAll (a ++ b) = encAll a ++ encAll b := by
    intro a b; induction a with
    | nil => rfl
    | cons e a ih => simp [encAll, ih]
  simp [happ]

/-- T bundle_readable: a standard reader sees the image entries, every appended manifest and
index.json, then EOF -/
theorem bundle_readable (imgs appended : List Entry) (hne : imgs ≠ []) :
    ∃ bs, Impl.bundle imgs appended = some bs ∧ readArchive bs = some (imgs ++ appended) := by
  refine ⟨_, bundle_layout Impl.newOffset append_offset imgs appended hne, readArchive_written _⟩

/-- the single-image tarball (`v1tar.WriteToFile`: entries, then `Close`) and any other archive a
tar writer closes is read to its end, entry for entry, whatever the number and sizes of the entries -/
theorem image_tarball_readable (entries : List Entry) : readArchive (encAll entries ++ trailer) = some entries :=
  readArchive_written entries

theorem impl_bundle_eq_spec (imgs appended : List Entry) : Impl.bundle imgs appended = Spec.bundle imgs appended := by
  unfold Impl.bundle Spec.bundle
  have : Impl.newOffset = fun p s => Spec.nextBoundary (p + s) := by
    funext p s; exact newOffset_eq p s
  rw [this]

/-- F12a witness: with the pinned expression and a 512-byte manifest.json the reader fails -/
theorem pinned_bundle_unreadable :
    (bundle pinnedOffset [⟨"manifest.json".toList, 512⟩] [⟨"index.json".toList, 10⟩]).bind readArchive = none := by
  decide

/-- the hypotheses of `bundle_readable` are satisfiable and the statement is not vacuous -/
example : (Impl.bundle [⟨"cfg".toList, 700⟩, ⟨"manifest.json".toList, 1024⟩] [⟨"m".toList, 1⟩, ⟨"index.json".toList, 513⟩]).bind readArchive
    = some [⟨"cfg".toList, 700⟩, ⟨"manifest.json".toList, 1024⟩, ⟨"m".toList, 1⟩, ⟨"index.json".toList, 513⟩] := by
  rw [impl_bundle_eq_spec]; decide

/-! ## platform tables (over the generated ParseArchitecture / ToAPK / ToOCIPlatform tables) -/

/-- T platform_table: on AllArchs the architecture strings are distinct and canonical, ToAPK
round-trips through ParseArchitecture and is injective, and the OCI platforms are pairwise distinct -/
theorem platform_table :
    allArchs.Nodup ∧
    (∀ a ∈ allArchs, parseArch a = a) ∧
    (∀ a ∈ allArchs, parseArch (toAPK a) = a) ∧
    (∀ a ∈ allArchs, ∀ b ∈ allArchs, toAPK a = toAPK b → a = b) ∧
    (∀ a ∈ allArchs, ∀ b ∈ allArchs, toOCIPlatform a = toOCIPlatform b → a = b) := by decide

/-- AllArchs is the list of supported architectures the specification names -/
theorem tie_allArchs : allArchs = Spec.knownArchs := by decide

theorem parse_table_facts :
    (∀ p ∈ parseArchTable, Spec.canonArch p.1 = p.2) ∧ (∀ k ∈ keysOf Spec.aliases, k ∈ keysOf parseArchTable) := by decide

/-- a supported architecture is named in ParseArchitecture's switch or is one plain path element -/
theorem known_plain_facts : ∀ a ∈ Spec.knownArchs, a ∈ keysOf parseArchTable ∨ plainArch a = a := by decide

/-- ParseArchitecture is the specification's alias resolution, for every string -/
theorem parseArch_spec (s : Text) : parseArch s = Spec.canonArch s := by
  by_cases h : s ∈ keysOf parseArchTable
  · obtain ⟨v, hv⟩ := lookupT_isSome h
    have := parse_table_facts.1 _ (lookupT_mem hv)
    simp only [parseArch, hv, Option.getD_some]; exact this.symm
  · have h' : s ∉ keysOf Spec.aliases := fun hk => h (parse_table_facts.2 s hk)
    simp only [parseArch, Spec.canonArch, lookupT_none h, lookupT_none h', Option.getD_none]
    split
    · next hk =>
      rcases known_plain_facts s hk with e | e
      · exact absurd e h
      · exact e
    · rfl

theorem apk_table_facts :
    (∀ p ∈ toAPKTable, lookupT p.1 Spec.apkNames = some p.2) ∧ (∀ k ∈ keysOf Spec.apkNames, k ∈ keysOf toAPKTable) := by decide

/-- ToAPK is the alias table read backwards, for every string -/
theorem toAPK_spec (s : Text) : toAPK s = Spec.toAPK s := by
  unfold toAPK Spec.toAPK
  rw [parseArch_spec]
  by_cases h : Spec.canonArch s ∈ keysOf toAPKTable
  · obtain ⟨v, hv⟩ := lookupT_isSome h
    have := apk_table_facts.1 _ (lookupT_mem hv)
    simp only at this
    rw [hv, this]
  · have h' : Spec.canonArch s ∉ keysOf Spec.apkNames := fun hk => h (apk_table_facts.2 _ hk)
    rw [lookupT_none h, lookupT_none h']

theorem oci_table_facts :
    (∀ p ∈ toOCITable, p.1 ∈ Spec.knownArchs ∧ splitSlash p.1 = some (p.2.arch, p.2.variant)) ∧
    (∀ a ∈ Spec.knownArchs, a ∈ keysOf toOCITable ∨ splitSlash a = none) := by decide

/-- T platform_spec: ToOCIPlatform yields, for every string, the platform the specification
expects (`architecture/variant` of a supported architecture split at the slash) -/
theorem platform_spec (s : Text) : toOCIPlatform s = Spec.platformOf s := by
  unfold toOCIPlatform Spec.platformOf
  rw [parseArch_spec]
  by_cases h : Spec.canonArch s ∈ keysOf toOCITable
  · obtain ⟨v, hv⟩ := lookupT_isSome h
    obtain ⟨h1, h2⟩ := oci_table_facts.1 _ (lookupT_mem hv)
    simp only [hv, Option.getD_some]
    simp only at h1 h2
    rw [if_pos h1, h2]
  · simp only [lookupT_none h, Option.getD_none]
    split
    · next hk =>
      rcases oci_table_facts.2 _ hk with h' | h'
      · exact absurd h' h
      · rw [h']
    · rfl

/-- every apk-style spelling ParseArchitecture knows maps to a member of AllArchs, and parsing is idempotent -/
theorem parseArch_table_closed :
    (∀ p ∈ parseArchTable, p.2 ∈ allArchs) ∧ (∀ p ∈ parseArchTable, parseArch (parseArch p.1) = parseArch p.1) := by decide

/-- the bundle tag suffixes of BuildIndex: dash-free and pairwise distinct on AllArchs -/
theorem suffix_table :
    (∀ a ∈ allArchs, '-' ∉ Impl.archSuffix (toOCIPlatform a)) ∧
    (∀ a ∈ allArchs, ∀ b ∈ allArchs,
      Impl.archSuffix (toOCIPlatform a) = Impl.archSuffix (toOCIPlatform b) → a = b) := by decide

theorem tie_tag_loop : Generated.tagLoopStmts = [
    "arch := m.Platform.Architecture",
    "if m.Platform.Variant != \"\"",
    "arch += \"/\" + m.Platform.Variant",
    "ref, err = name.NewTag(fmt.Sprintf(\"%s-%s\", ref.Name(), strings.ReplaceAll(arch, \"/\", \"_\")))",
    "tagsToImages[ref] = img"] := by decide

/-- F12b (repaired): the suffix of the pinned tree (architecture only) collides on the two arm variants,
both of which are in AllArchs -/
theorem pinned_suffix_collides :
    "arm/v6".toList ∈ allArchs ∧ "arm/v7".toList ∈ allArchs ∧
    pinnedArchSuffix (toOCIPlatform "arm/v6".toList) = pinnedArchSuffix (toOCIPlatform "arm/v7".toList) := by decide

/-! ## the index: one entry per architecture -/

/-- T index_one_entry_per_arch: for any set of requested architectures (the Go map `imgs`, in any
iteration order) the index has exactly one manifest per architecture carrying that architecture's
platform, in the order of the architecture strings -/
theorem index_one_entry_per_arch (imgs : List (Text × Nat)) :
    Spec.IndexOk imgs (Impl.indexEntries imgs) ∧
    ∃ sorted : List (Text × Nat), sorted.Perm imgs ∧ (keysOf sorted).Pairwise (· ≤ ·) ∧
      Impl.indexEntries imgs = sorted.map fun p => (p.2, toOCIPlatform p.1) := by
  refine ⟨⟨by simp [Impl.indexEntries], ?_⟩, imgs.mergeSort leKey, List.mergeSort_perm _ _, sortKey_sorted imgs, rfl⟩
  intro p hp
  simp only [Impl.indexEntries, List.mem_map]
  exact ⟨p, List.mem_mergeSort.mpr hp, by rw [platform_spec]⟩

/-- the result does not depend on the iteration order of the map -/
theorem index_order_independent {imgs imgs' : List (Text × Nat)} (h : imgs.Perm imgs')
    (hnd : (keysOf imgs).Nodup) : Impl.indexEntries imgs = Impl.indexEntries imgs' := by
  simp only [Impl.indexEntries, sortKey_perm_eq h hnd]

/-- on (any subset of) AllArchs the platforms of the index are pairwise distinct -/
theorem index_platforms_distinct (imgs : List (Text × Nat)) (hsub : ∀ p ∈ imgs, p.1 ∈ allArchs)
    (hnd : (keysOf imgs).Nodup) : ((Impl.indexEntries imgs).map (·.2)).Nodup := by
  have hperm := List.mergeSort_perm imgs leKey
  have hnd' : (keysOf (imgs.mergeSort leKey)).Nodup := (hperm.map _).nodup_iff.mpr hnd
  have : (Impl.indexEntries imgs).map (·.2) = (keysOf (imgs.mergeSort leKey)).map toOCIPlatform := by
    simp [Impl.indexEntries, keysOf, List.map_map, Function.comp_def]
  rw [this]
  apply nodup_map_of_inj_on _ _ _ hnd'
  intro a ha b hb hab
  have hmem : ∀ x ∈ keysOf (imgs.mergeSort leKey), x ∈ allArchs := by
    intro x hx
    simp only [keysOf, List.mem_map] at hx
    obtain ⟨p, hp, rfl⟩ := hx
    exact hsub p (List.mem_mergeSort.mp hp)
  exact platform_table.2.2.2.2 a (hmem a ha) b (hmem b hb) hab

/-! ## the bundle holds every image the index lists -/

/-- with at least one tag, dash-free suffixes and no two different images sharing a suffix, every
manifest's image is written by MultiWrite -/
theorem bundle_complete_of_injective (suffix : Platform → Text) (tags : List Text)
    (ms : List (Platform × Nat)) (htags : tags ≠ [])
    (hdash : ∀ m ∈ ms, '-' ∉ suffix m.1)
    (hinj : ∀ m ∈ ms, ∀ m' ∈ ms, suffix m.1 = suffix m'.1 → m.2 = m'.2) :
    Spec.BundleComplete ms (bundledImages suffix tags ms) := by
  intro m hm
  obtain ⟨t, tags', rfl⟩ := List.exists_cons_of_ne_nil htags
  have hfun : ∀ a ∈ tagPairs suffix (t :: tags') ms, ∀ b ∈ tagPairs suffix (t :: tags') ms, a.1 = b.1 → a.2 = b.2 := by
    intro a ha b hb hab
    simp only [tagPairs, List.mem_flatMap, List.mem_map] at ha hb
    obtain ⟨ma, hma, ta, _, rfl⟩ := ha
    obtain ⟨mb, hmb, tb, _, rfl⟩ := hb
    exact hinj ma hma mb hmb (dash_suffix_inj (hdash ma hma) (hdash mb hmb) hab)
  have hmem : (t ++ '-' :: suffix m.1, m.2) ∈ tagPairs suffix (t :: tags') ms := by
    simp only [tagPairs, List.mem_flatMap, List.mem_map]
    exact ⟨m, hm, t, List.mem_cons_self, rfl⟩
  have := mem_foldl_setKV_of_functional _ [] hfun _ hmem
  simp only [bundledImages, tagsToImages, List.mem_map]
  exact ⟨_, this, rfl⟩

/-- T bundle_complete: for every subset of AllArchs (distinct image per architecture) and every
non-empty tag list, the bundle BuildIndex writes holds the image of every manifest of the index -/
theorem bundle_complete (imgs : List (Text × Nat)) (hsub : ∀ p ∈ imgs, p.1 ∈ allArchs)
    (hnd : (keysOf imgs).Nodup) (tags : List Text) (htags : tags ≠ []) :
    Spec.BundleComplete ((Impl.indexEntries imgs).map fun e => (e.2, e.1))
      (bundledImages Impl.archSuffix tags ((Impl.indexEntries imgs).map fun e => (e.2, e.1))) := by
  have hms : ∀ m ∈ (Impl.indexEntries imgs).map (fun e => (e.2, e.1)),
      ∃ p ∈ imgs, m = (toOCIPlatform p.1, p.2) := by
    intro m hm
    simp only [Impl.indexEntries, List.map_map, List.mem_map, Function.comp_def] at hm
    obtain ⟨p, hp, rfl⟩ := hm
    exact ⟨p, List.mem_mergeSort.mp hp, rfl⟩
  apply bundle_complete_of_injective _ _ _ htags
  · intro m hm
    obtain ⟨p, hp, rfl⟩ := hms m hm
    exact suffix_table.1 p.1 (hsub p hp)
  · intro m hm m' hm' hs
    obtain ⟨p, hp, rfl⟩ := hms m hm
    obtain ⟨p', hp', rfl⟩ := hms m' hm'
    have := suffix_table.2 p.1 (hsub p hp) p'.1 (hsub p' hp') hs
    have e := eq_of_key_eq hnd hp hp' this
    rw [e]

/-- the hypotheses of `bundle_complete` hold for the configuration that failed on the pinned tree -/
example := bundle_complete [("amd64".toList, 0), ("arm/v6".toList, 1), ("arm/v7".toList, 2)]
  (by decide) (by decide) ["img:latest".toList, "img:v1".toList] (by decide)

/-- T bundle_end_to_end: for every subset of AllArchs, every non-empty tag list, every iteration
order `written` of the tag map's images, whatever the images' configs and layers (shared layers are
written once), every size of manifest.json and every appended manifest list: BuildIndex's file is
readable to its end, and what the reader sees holds the config and every layer of each image the
index lists, and every appended entry (the manifests and index.json) -/
theorem bundle_end_to_end (imgOf : Nat → Img) (imgs : List (Text × Nat))
    (hsub : ∀ p ∈ imgs, p.1 ∈ allArchs) (hnd : (keysOf imgs).Nodup) (tags : List Text) (htags : tags ≠ [])
    (written : List Nat)
    (hw : ∀ i, i ∈ written ↔
      i ∈ bundledImages Impl.archSuffix tags ((Impl.indexEntries imgs).map fun e => (e.2, e.1)))
    (msize : Nat) (appended : List Entry) :
    ∃ bs es, Impl.bundle (multiWrite (written.map imgOf) msize) appended = some bs ∧
      readArchive bs = some es ∧
      (∀ m ∈ (Impl.indexEntries imgs).map (fun e => (e.2, e.1)), Spec.HoldsImage (es.map (·.name)) (imgOf m.2)) ∧
      (∀ a ∈ appended, a ∈ es) := by
  have hne : multiWrite (written.map imgOf) msize ≠ [] := by simp [multiWrite]
  obtain ⟨bs, hb, hr⟩ := bundle_readable (multiWrite (written.map imgOf) msize) appended hne
  refine ⟨bs, _, hb, hr, ?_, fun a ha => List.mem_append_right _ ha⟩
  intro m hm
  have hin : m.2 ∈ written := (hw m.2).mpr (bundle_complete imgs hsub hnd tags htags m hm)
  have := multiWrite_holds (written.map imgOf) msize (imgOf m.2) (List.mem_map.mpr ⟨_, hin, rfl⟩)
  refine ⟨?_, ?_⟩
  · simp only [List.map_append, List.mem_append]; exact Or.inl this.1
  · intro l hl; simp only [List.map_append, List.mem_append]; exact Or.inl (this.2 l hl)

/-- F12b witness: with the pinned suffix the bundle for {amd64, arm/v6, arm/v7} misses an image -/
theorem pinned_bundle_incomplete :
    ¬ Spec.BundleComplete
      [(toOCIPlatform "amd64".toList, 0), (toOCIPlatform "arm/v6".toList, 1), (toOCIPlatform "arm/v7".toList, 2)]
      (bundledImages pinnedArchSuffix ["img:latest".toList]
        [(toOCIPlatform "amd64".toList, 0), (toOCIPlatform "arm/v6".toList, 1), (toOCIPlatform "arm/v7".toList, 2)]) := by
  decide

/-! ## the image config mirrors the configuration -/

/-- T env_defaults: `Env` is sorted, holds every declared pair, holds the PATH / SSL_CERT_FILE
default (generated constants) exactly when that key is not declared, and nothing else -/
theorem env_defaults (env : List (Text × Text)) : Spec.EnvOk env (Impl.envList env) := by
  have hmiss : ∀ d, d ∈ missingDefaults env ↔ d ∈ envDefaults ∧ d.1 ∉ keysOf env := by
    intro d; simp [missingDefaults, List.mem_filter]
  refine ⟨sortText_sorted _, ?_, ?_, ?_, ?_⟩
  · intro kv hkv
    exact mem_sortText.mpr (List.mem_map.mpr ⟨kv, List.mem_append_left _ hkv, rfl⟩)
  · intro d hd hk
    exact mem_sortText.mpr (List.mem_map.mpr ⟨d, List.mem_append_right _ ((hmiss d).mpr ⟨hd, hk⟩), rfl⟩)
  · intro s hs
    obtain ⟨kv, hkv, rfl⟩ := List.mem_map.mp (mem_sortText.mp hs)
    rcases List.mem_append.mp hkv with h | h
    · exact Or.inl (List.mem_map.mpr ⟨kv, h, rfl⟩)
    · exact Or.inr ⟨kv, ((hmiss kv).mp h).1, ((hmiss kv).mp h).2, rfl⟩
  · simp [Impl.envList, sortText, missingDefaults]

/-- the iteration order of the environment map does not matter -/
theorem env_order_independent {env env' : List (Text × Text)} (h : env.Perm env') :
    Impl.envList env = Impl.envList env' := by
  have hk : missingDefaults env = missingDefaults env' := by
    unfold missingDefaults
    apply List.filter_congr
    intro d _
    have : (keysOf env).contains d.1 = (keysOf env').contains d.1 := by
      apply Bool.eq_iff_iff.mpr
      rw [List.contains_iff_mem, List.contains_iff_mem]
      exact (h.map (·.1)).mem_iff
    rw [this]
  unfold Impl.envList
  rw [hk]
  exact sortText_perm_eq ((h.append_right _).map _)

theorem volumes_mapping (vs : List Text) : Spec.VolumesOk vs (Impl.volumes vs) := by
  refine ⟨sortText_sorted _, ?_, ?_, ?_⟩
  · exact (sortText_perm _).nodup_iff.mpr (nodup_dedup vs)
  · intro v hv; exact mem_dedup.mp (mem_sortText.mp hv)
  · intro v hv; exact mem_sortText.mpr (mem_dedup.mpr hv)

theorem label_keys_distinct : keySource ≠ keyRevision ∧ keySource ≠ keyCreated ∧ keyRevision ≠ keyCreated := by decide

theorem mem_annotationMap (ic : ImageCfg) (created : Text) (kv : Text × Text) :
    kv ∈ Impl.annotationMap ic created ↔ Spec.expectedLabel ic created kv := by
  obtain ⟨h1, h2, h3⟩ := label_keys_distinct
  unfold Impl.annotationMap Spec.expectedLabel
  cases cutAt '@' ic.vcsUrl with
  | none =>
    simp only [mem_setKV]
  | some uh =>
    simp only [mem_setKV]
    constructor
    · rintro (h | ⟨(h | ⟨(h | ⟨h, h5⟩), h6⟩), h7⟩)
      · exact Or.inl h
      · exact Or.inr (Or.inr (Or.inl h))
      · exact Or.inr (Or.inl h)
      · exact Or.inr (Or.inr (Or.inr ⟨h, h7, h5, h6⟩))
    · rintro (h | h | h | ⟨h, h7, h5, h6⟩)
      · exact Or.inl h
      · exact Or.inr ⟨Or.inr ⟨Or.inl h, by rw [h]; exact h1⟩, by rw [h]; exact h2⟩
      · exact Or.inr ⟨Or.inl h, by rw [h]; exact h3⟩
      · exact Or.inr ⟨Or.inr ⟨Or.inr ⟨h, h5⟩, h6⟩, h7⟩

/-- labels = declared annotations, overridden by the vcs source / revision (when vcs-url has an `@`)
and the creation time; encoded with sorted, distinct keys -/
theorem labels_mapping (ic : ImageCfg) (created : Text) (hnd : (keysOf ic.annotations).Nodup) :
    Spec.LabelsOk ic created (Impl.labels ic created) := by
  have hperm := List.mergeSort_perm (Impl.annotationMap ic created) leKey
  have hmem : ∀ kv, kv ∈ Impl.labels ic created ↔ Spec.expectedLabel ic created kv := by
    intro kv; rw [← mem_annotationMap]; exact List.mem_mergeSort
  refine ⟨sortKey_sorted _, ?_, fun kv h => (hmem kv).mp h, ?_, ?_, fun kv _ h => (hmem kv).mpr h⟩
  · apply ((hperm.map _).nodup_iff (l₂ := keysOf (Impl.annotationMap ic created))).mpr
    unfold Impl.annotationMap
    cases cutAt '@' ic.vcsUrl with
    | none => exact keys_setKV_nodup hnd _ _
    | some uh => exact keys_setKV_nodup (keys_setKV_nodup (keys_setKV_nodup hnd _ _) _ _) _ _
  · exact (hmem _).mpr (Or.inl rfl)
  · unfold Spec.VcsLabelsOk
    split
    · next uh hc =>
      refine ⟨(hmem _).mpr ?_, (hmem _).mpr ?_⟩
      · unfold Spec.expectedLabel; rw [hc]; exact Or.inr (Or.inl rfl)
      · unfold Spec.expectedLabel; rw [hc]; exact Or.inr (Or.inr (Or.inl rfl))
    · trivial

/-- T config_mapping: whenever BuildImageFromLayers succeeds, its config has the declared entrypoint
(shell fragment → `/bin/sh -c <fragment>`, else the shlex tokens of the command), cmd, working
directory, stop signal, user, volumes, environment, labels, author, os, creation time and the
platform of the architecture — for every `shlex` -/
theorem config_mapping (shlex : Text → Option (List Text)) (ic : ImageCfg) (created arch : Text)
    (o : OciConfig) (hnd : (keysOf ic.annotations).Nodup)
    (h : Impl.buildConfig shlex ic created arch = some o) : Spec.ConfigOk shlex ic created arch o := by
  unfold Impl.buildConfig at h
  split at h
  · next ep cmd hep hcmd =>
    simp only [Option.some.injEq] at h
    subst h
    refine ⟨⟨?_, ?_⟩, env_defaults _, volumes_mapping _, labels_mapping ic created hnd, ?_⟩
    · unfold Impl.entrypoint at hep
      split
      · next hs => rw [if_pos hs] at hep; simp only [Option.some.injEq] at hep; rw [← hep, tie_shell_prefix]; rfl
      · next hs =>
        rw [if_neg hs] at hep
        split
        · next hc => rw [if_pos hc] at hep; exact hep
        · next hc => rw [if_neg hc] at hep; simp only [Option.some.injEq] at hep; exact hep.symm
    · unfold Impl.cmd at hcmd
      split
      · next hc => rw [if_pos hc] at hcmd; exact hcmd
      · next hc => rw [if_neg hc] at hcmd; simp only [Option.some.injEq] at hcmd; exact hcmd.symm
    · have := tie_author_os
      refine ⟨rfl, rfl, rfl, ?_, ?_, rfl, ?_, ?_⟩
      · show Generated.cfgAuthor.toList = _; rw [this.1]
      · show Generated.cfgOS.toList = _; rw [this.2]
      · show (toOCIPlatform arch).arch = _; rw [platform_spec]
      · show (toOCIPlatform arch).variant = _; rw [platform_spec]
  · cases h

/-- the build fails only when shlex rejects a string it is given -/
theorem buildConfig_none_iff (shlex : Text → Option (List Text)) (ic : ImageCfg) (created arch : Text) :
    Impl.buildConfig shlex ic created arch = none ↔
      (ic.epShell = [] ∧ ic.epCmd ≠ [] ∧ shlex ic.epCmd = none) ∨ (ic.cmd ≠ [] ∧ shlex ic.cmd = none) := by
  unfold Impl.buildConfig Impl.entrypoint Impl.cmd
  by_cases h1 : ic.epShell = [] <;> by_cases h2 : ic.epCmd = [] <;> by_cases h3 : ic.cmd = [] <;>
    simp [h1, h2, h3] <;> (try cases shlex ic.epCmd <;> simp) <;> (try cases shlex ic.cmd <;> simp)

/-- the oracle the driver executes is the specification -/
theorem configVerdict_pass_iff (shlex : Text → Option (List Text)) (ic : ImageCfg) (created arch : Text)
    (o : OciConfig) : Spec.configVerdict shlex ic created arch o = "pass" ↔ Spec.ConfigOk shlex ic created arch o := by
  unfold Spec.configVerdict Spec.ConfigOk
  by_cases a : Spec.EntrypointOk shlex ic o <;> by_cases b : Spec.EnvOk ic.env o.env <;>
    by_cases c : Spec.VolumesOk ic.volumes o.volumes <;> by_cases d : Spec.LabelsOk ic created o.labels <;>
    by_cases e : Spec.ScalarsOk ic created arch o <;> simp [a, b, c, d, e]

/-- the specification is satisfiable by a non-trivial configuration (and the model computes it) -/
example : Spec.configVerdict (fun s => some [s])
    { epCmd := "/usr/bin/app".toList, env := [("A".toList, "1".toList)], vcsUrl := "https://x@abc".toList,
      annotations := [("k".toList, "v".toList)], volumes := ["/data".toList] }
    "1970-01-01T00:00:00Z".toList "arm/v7".toList
    { entrypoint := ["/usr/bin/app".toList], cmd := [], workingDir := [], stopSignal := [], user := [],
      volumes := ["/data".toList],
      env := ["A=1".toList, "PATH=/usr/local/sbin:/usr/local/bin:/usr/bin:/usr/sbin:/sbin:/bin".toList,
              "SSL_CERT_FILE=/etc/ssl/certs/ca-certificates.crt".toList],
      labels := [("k".toList, "v".toList), (keyCreated, "1970-01-01T00:00:00Z".toList),
                 (keyRevision, "abc".toList), (keySource, "https://x".toList)],
      author := "github.com/chainguard-dev/apko".toList, os := "linux".toList,
      created := "1970-01-01T00:00:00Z".toList, architecture := "arm".toList, variant := "v7".toList } = "pass" := by
  decide

end Apko.C12
