/-
C04, end-to-end layer — tables through which the result of one index read reaches another read (the memo of parsed
indexes, the per-key `sync.Once` that coalesces concurrent downloads, any table of requests in flight).

* `share_sound`: if equal keys imply equal verification modes (`ModeAware`), then whatever order the readers arrive in
  and whatever bytes each of them would have downloaded, every index a reader gets back as accepted — parsed by itself
  or taken from the table — is acceptable under ITS OWN keys and options;
* `share_mode_blind_unsound`: conversely ANY key function that gives a non-verifying and a verifying read the same key
  hands the verifying reader an index no configured key signed (for all such key functions, with a witness
  interpretation of gzip/tar/RSA);
* the keys of the code (`codeKey`, `codeUm`) are mode aware; the index URL alone (with or without the ETag) is not;
* over the regenerated uses of `indexCache`'s fields: every use is under `key` / `prevKey` / `um` (or is a lock), and the
  definitions of these three mention `mode` (`sharedUses_keyed_by_mode`); `tie_cacheFields`: the fields there are.
-/
import Apko.Model.IndexSigGlue
import Apko.Generated.IndexSigGlue
import Apko.Proofs.C04Glue

namespace Apko.C04Share
open Apko Apko.IndexSig Apko.IndexSig.Glue Apko.C04Glue

/-- equal keys ⇒ equal verification mode -/
def ModeAware {κ : Type} (kf : ReadCtx → κ) : Prop := ∀ a b, kf a = kf b → a.mode = b.mode

/-- every accepted index in the table is justified under the mode of every read that can hit it -/
def ShareInv {κ : Type} (C : Crypto) (R : Codec) (s : Share κ) : Prop :=
  ∀ e ∈ s.ents, ∀ idx, e.2 = .ok idx → ∀ c, s.kf c = e.1 → JustMode C R c.mode idx

/-- an accepted result is acceptable under the reader's own keys and options -/
def ReadJust (C : Crypto) (R : Codec) (c : ReadCtx) (r : Res) : Prop :=
  ∀ idx, r = .ok idx → ∃ archive, Spec.Acceptable C R c.keys c.opts c.url c.arch archive (.ok idx)

theorem share_find_mem {κ : Type} [DecidableEq κ] {s : Share κ} {c : ReadCtx} {r : Res} (h : s.find c = some r) :
    (s.kf c, r) ∈ s.ents := by
  unfold Share.find at h
  split at h
  · next e he =>
    have hm := List.mem_of_find?_eq_some he
    have hk := List.find?_some he
    simp only [beq_iff_eq] at hk
    simp only [Option.some.injEq] at h
    rw [← hk, ← h]
    exact hm
  · cases h

theorem sharedRead_inv {κ : Type} [DecidableEq κ] (C : Crypto) (R : Codec) (s : Share κ) (c : ReadCtx) (b : Bytes)
    (hk : ModeAware s.kf) (hs : ShareInv C R s) :
    ReadJust C R c (sharedRead C R s c b).1 ∧ ShareInv C R (sharedRead C R s c b).2 ∧ (sharedRead C R s c b).2.kf = s.kf := by
  unfold sharedRead
  split
  · next r hf =>
    refine ⟨?_, hs, rfl⟩
    intro idx hr
    have hm := share_find_mem hf
    have := hs _ hm idx hr c rfl
    exact (justMode_iff C R c.keys c.opts c.url c.arch idx).mp this
  · refine ⟨?_, ?_, rfl⟩
    · intro idx hr
      exact (justMode_iff C R c.keys c.opts c.url c.arch idx).mp (parse_justMode C R _ _ _ _ b idx hr)
    · intro e he idx hr c2 hc2
      simp only [Share.put, List.mem_cons] at he
      rcases he with rfl | he
      · have hmode : c2.mode = c.mode := hk c2 c hc2
        rw [hmode]
        exact parse_justMode C R _ _ _ _ b idx hr
      · exact hs e he idx hr c2 hc2

/-- **sharing under a mode-aware key is sound**: for every arrival order of the readers (any list), every table
content satisfying the invariant (in particular the empty table), every interpretation of gzip/tar/hash/RSA -/
theorem share_sound {κ : Type} [DecidableEq κ] (C : Crypto) (R : Codec) (reads : List (ReadCtx × Bytes)) (s : Share κ)
    (hk : ModeAware s.kf) (hs : ShareInv C R s) :
    ∀ x ∈ (sharedReads C R s reads).1, ReadJust C R x.1 x.2 := by
  induction reads generalizing s with
  | nil => intro x hx; cases hx
  | cons cb rest ih =>
    obtain ⟨c, b⟩ := cb
    obtain ⟨h1, h2, h3⟩ := sharedRead_inv C R s c b hk hs
    intro x hx
    simp only [sharedReads, List.mem_cons] at hx
    rcases hx with rfl | hx
    · exact h1
    · exact ih (sharedRead C R s c b).2 (by rw [h3]; exact hk) h2 x hx

theorem shareInv_empty {κ : Type} (C : Crypto) (R : Codec) (kf : ReadCtx → κ) : ShareInv C R ⟨kf, []⟩ := by
  intro e he; cases he

/-- the keys of the code carry the mode -/
theorem codeKey_modeAware : ModeAware codeKey := by
  intro a b h
  simp only [codeKey, memoKey, implKeying, MemoKey.mk.injEq, Option.some.injEq] at h
  exact h.2.2

theorem codeUm_modeAware : ModeAware codeUm := by
  intro a b h
  simp only [codeUm, Prod.mk.injEq] at h
  exact h.2

/-- the code's tables, end to end: any number of readers, any arrival order -/
theorem code_share_sound (C : Crypto) (R : Codec) (reads : List (ReadCtx × Bytes)) :
    ∀ x ∈ (sharedReads C R ⟨codeKey, []⟩ reads).1, ReadJust C R x.1 x.2 :=
  share_sound C R reads ⟨codeKey, []⟩ codeKey_modeAware (shareInv_empty C R codeKey)

namespace Witness
def crypto : Crypto := ⟨id, id, fun _ _ _ _ => false⟩
def idx0 : Index := ⟨[['p']], [], []⟩
def codec : Codec := ⟨fun _ => none, fun _ => some idx0⟩
def keys : Keys := [("k.rsa.pub".toList, ['K'])]
def url : Text := indexURL "https://h/r".toList "x86_64".toList
def lenient : ReadCtx := ⟨keys, ⟨true, []⟩, url, "x86_64".toList, []⟩
def strict : ReadCtx := ⟨keys, ⟨false, []⟩, url, "x86_64".toList, []⟩
end Witness

/-- **a key that does not carry the mode is unsound** — for ANY key function `kf` (any table: memo, once, requests in
flight) under which some non-verifying read `a` and some verifying read `b` collide: `b`, arriving after `a`, is
handed an index that nothing justifies under `b`'s keys and options -/
theorem share_mode_blind_unsound {κ : Type} [DecidableEq κ] (kf : ReadCtx → κ) (a b : ReadCtx) (hab : kf a = kf b)
    (ha : checkOn a.opts a.url a.arch = false) (hb : checkOn b.opts b.url b.arch = true) :
    ∃ (C : Crypto) (R : Codec) (bytes : Bytes) (idx : Index),
      (sharedReads C R ⟨kf, []⟩ [(a, bytes), (b, bytes)]).1 = [(a, .ok idx), (b, .ok idx)] ∧ ¬ ReadJust C R b (.ok idx) := by
  refine ⟨Witness.crypto, Witness.codec, [], Witness.idx0, ?_, ?_⟩
  · have hpa : parseIndex Witness.crypto Witness.codec a.keys a.opts a.url a.arch [] = .ok Witness.idx0 := by
      simp [parseIndex, parseIndexWith, ha, Witness.codec]
    simp [sharedReads, sharedRead, Share.find, Share.put, hpa, hab]
  · intro h
    obtain ⟨archive, hacc⟩ := h Witness.idx0 rfl
    rcases hacc with ⟨hx, _⟩ | ⟨_, f, hf, _⟩
    · have := (C04.check_skipped_iff b.opts b.url b.arch).mpr hx
      rw [hb] at this; cases this
    · cases hf

/-- the full statement for a URL-only key is false … -/
theorem urlKey_not_modeAware : ¬ ModeAware urlKey := by
  intro h
  have := h Witness.lenient Witness.strict rfl
  revert this
  decide

theorem urlTokKey_not_modeAware : ¬ ModeAware urlTokKey := by
  intro h
  have := h Witness.lenient Witness.strict rfl
  revert this
  decide

/-- … and a table keyed by the index URL alone (a request-coalescing table keyed by `u`, the memo before F04b) hands a
verifying reader what a non-verifying reader parsed -/
theorem urlKey_share_unsound :
    ∃ (C : Crypto) (R : Codec) (bytes : Bytes) (idx : Index),
      (sharedReads C R ⟨urlKey, []⟩ [(Witness.lenient, bytes), (Witness.strict, bytes)]).1 =
        [(Witness.lenient, .ok idx), (Witness.strict, .ok idx)] ∧ ¬ ReadJust C R Witness.strict (.ok idx) :=
  share_mode_blind_unsound urlKey Witness.lenient Witness.strict rfl (by decide) (by decide)

/-- the hypotheses of `share_sound` are satisfiable with two readers of different modes sharing one table: the
strict reader parses for itself (and refuses) -/
example : (sharedReads Witness.crypto Witness.codec ⟨codeKey, []⟩ [(Witness.lenient, []), (Witness.strict, [])]).1 =
    [(Witness.lenient, .ok Witness.idx0), (Witness.strict, .rej .gzip)] := by decide

/-! ## transparency: under one server state sharing is only an optimisation -/

/-- the verdict of `parseRepositoryIndex` depends on keys / options / URL / architecture only through the mode -/
theorem parseIndex_mode (C : Crypto) (R : Codec) (a b : ReadCtx) (h : a.mode = b.mode) (bytes : Bytes) :
    parseIndex C R a.keys a.opts a.url a.arch bytes = parseIndex C R b.keys b.opts b.url b.arch bytes := by
  unfold ReadCtx.mode modeOf at h
  unfold parseIndex parseIndexWith
  cases ha : checkOn a.opts a.url a.arch <;> cases hb : checkOn b.opts b.url b.arch <;> simp [ha, hb] at h ⊢
  rw [h]

/-- equal keys ⇒ equal mode and equal index URL -/
def UrlModeAware {κ : Type} (kf : ReadCtx → κ) : Prop := ∀ a b, kf a = kf b → a.mode = b.mode ∧ a.url = b.url

/-- every entry is what each reader that can hit it would have computed itself from the server's bytes -/
def Transparent {κ : Type} (C : Crypto) (R : Codec) (body : Text → Bytes) (s : Share κ) : Prop :=
  ∀ e ∈ s.ents, ∀ c, s.kf c = e.1 → e.2 = parseIndex C R c.keys c.opts c.url c.arch (body c.url)

theorem sharedRead_transparent {κ : Type} [DecidableEq κ] (C : Crypto) (R : Codec) (body : Text → Bytes) (s : Share κ) (c : ReadCtx)
    (hk : UrlModeAware s.kf) (hs : Transparent C R body s) :
    (sharedRead C R s c (body c.url)).1 = parseIndex C R c.keys c.opts c.url c.arch (body c.url) ∧
    Transparent C R body (sharedRead C R s c (body c.url)).2 ∧ (sharedRead C R s c (body c.url)).2.kf = s.kf := by
  unfold sharedRead
  split
  · next r hf => exact ⟨hs _ (share_find_mem hf) c rfl, hs, rfl⟩
  · refine ⟨rfl, ?_, rfl⟩
    intro e he c2 hc2
    simp only [Share.put, List.mem_cons] at he
    rcases he with rfl | he
    · obtain ⟨hm, hu⟩ := hk c2 c hc2
      simp only
      rw [hu]
      exact (parseIndex_mode C R c2 c hm (body c.url)).symm ▸ (by rw [← hu])
    · exact hs e he c2 hc2

/-- **under one server state a mode-aware table is transparent**: whatever the arrival order, every reader gets exactly
what it would have computed alone -/
theorem share_transparent {κ : Type} [DecidableEq κ] (C : Crypto) (R : Codec) (body : Text → Bytes) (cs : List ReadCtx) (s : Share κ)
    (hk : UrlModeAware s.kf) (hs : Transparent C R body s) :
    (sharedReads C R s (cs.map fun c => (c, body c.url))).1 =
      cs.map fun c => (c, parseIndex C R c.keys c.opts c.url c.arch (body c.url)) := by
  induction cs generalizing s with
  | nil => rfl
  | cons c rest ih =>
    obtain ⟨h1, h2, h3⟩ := sharedRead_transparent C R body s c hk hs
    simp only [List.map_cons, sharedReads]
    rw [h1, ih (sharedRead C R s c (body c.url)).2 (by rw [h3]; exact hk) h2]


theorem codeKey_urlModeAware : UrlModeAware codeKey := by
  intro a b h
  simp only [codeKey, memoKey, implKeying, MemoKey.mk.injEq, Option.some.injEq] at h
  exact ⟨h.2.2, h.1⟩

theorem transparent_empty {κ : Type} (C : Crypto) (R : Codec) (body : Text → Bytes) (kf : ReadCtx → κ) :
    Transparent C R body ⟨kf, []⟩ := by
  intro e he; cases he

/-- the code's table under one server state: the result list of any arrival order is the readers' own verdicts, so
two arrival orders give every reader the same result (this is what lets the sequential model `runAll` stand for a
concurrent run of the harness) -/
theorem code_share_transparent (C : Crypto) (R : Codec) (body : Text → Bytes) (cs : List ReadCtx) :
    (sharedReads C R ⟨codeKey, []⟩ (cs.map fun c => (c, body c.url))).1 =
      cs.map fun c => (c, parseIndex C R c.keys c.opts c.url c.arch (body c.url)) :=
  share_transparent C R body cs ⟨codeKey, []⟩ codeKey_urlModeAware (transparent_empty C R body codeKey)

/-- … whereas a table keyed by the URL alone is not transparent: the strict reader's answer depends on who came first -/
theorem urlKey_order_dependent :
    (sharedReads Witness.crypto Witness.codec ⟨urlKey, []⟩ [(Witness.lenient, []), (Witness.strict, [])]).1 =
      [(Witness.lenient, .ok Witness.idx0), (Witness.strict, .ok Witness.idx0)] ∧
    (sharedReads Witness.crypto Witness.codec ⟨urlKey, []⟩ [(Witness.strict, []), (Witness.lenient, [])]).1 =
      [(Witness.strict, .rej .gzip), (Witness.lenient, .rej .gzip)] := by decide

/-! ## the tables of the code as it is now -/

/-- the fields of `indexCache`: two tables keyed by `key` (`onces`, `indexes`), two keyed by `um` (`urlToEtag`,
`modtimes`), two locks.  A new field is a new way for a result to travel between reads. -/
theorem tie_cacheFields : Generated.glue_cacheFields =
    [("onces", "sync.Map"), ("urlToEtag", "map[string]string"), ("etagMu", "sync.Mutex"), ("", "sync.Mutex"),
     ("modtimes", "map[string]time.Time"), ("indexes", "sync.Map")] := by
  rfl

/-- the variables whose definition mentions `mode` -/
def modeKeyVars : List String := ["key", "prevKey", "um"]

def lockUses : List String := ["get: i.etagMu.Lock", "get: i.etagMu.Unlock", "get: i.Lock", "get: i.Unlock"]

/-- a use of a field / method of the cache is fine when it is a lock, or keyed by one of the mode-carrying variables -/
def useKeyedByMode (u : String × String) : Bool :=
  (u.2 == "" && lockUses.contains u.1) || modeKeyVars.contains u.2

/-- **every table of the index cache that reads consult is keyed by the verification mode**: over the regenerated
uses of the receiver's fields and methods in `get` / `store` / `load` / `forget` (whatever they are called), each one
is a lock or is used under `key` / `prevKey` / `um`, and each of these three is defined with `mode` in it, `mode` itself
being `indexVerificationMode(u, arch, keys, opts)` (`tie_modeStmts`) -/
theorem sharedUses_keyed_by_mode :
    Generated.glue_sharedUses.all useKeyedByMode = true ∧
    modeKeyVars.all (fun v => Generated.glue_keyVarIdents.contains (v, "mode")) = true ∧
    (Generated.glue_keyVarIdents.filter (fun d => d.1 == "mode")).map (·.2) =
      ["indexVerificationMode", "u", "arch", "keys", "opts"] := by
  refine ⟨by decide, by decide, by decide⟩

/-- the key set of `APK.GetRepositoryIndexes`: one directory of the root file system is listed, the keys directory
`etc/apk/keys`, and the files read are the entries of that listing -/
theorem tie_apkRootReads : Generated.glue_apkRootReads =
    ["a.fs.Open(archFilePath)", "a.fs.ReadDir(keysDirPath)", "range dir",
     "fullPath := filepath.Join(keysDirPath, d.Name())", "a.fs.ReadFile(fullPath)"] ∧
    Generated.glue_keysDirPath = "etc/apk/keys" := by
  refine ⟨by rfl, by rfl⟩

/-! ## the key set comes from the keys directory of the root and from nowhere else -/

theorem tie_keysDirPath : Generated.glue_keysDirPath.toList = keysDirPath := by decide

theorem keysOfRoot_mem (root : List RootFile) (n : Text) (pem : Bytes) :
    (n, pem) ∈ keysOfRoot root ↔ ∃ f ∈ root, f.dir = keysDirPath ∧ f.name = n ∧ f.body = pem := by
  unfold keysOfRoot
  simp only [List.mem_map, List.mem_filter, beq_iff_eq, Prod.mk.injEq]
  constructor
  · rintro ⟨f, ⟨hf, hd⟩, hn, hb⟩; exact ⟨f, hf, hd, hn, hb⟩
  · rintro ⟨f, hf, hd, hn, hb⟩; exact ⟨f, ⟨hf, hd⟩, hn, hb⟩

/-- whatever else the root file system holds (package content, a base root, what an earlier installation left) does
not change the key set -/
theorem keysOfRoot_ignores_elsewhere (root extra : List RootFile) (h : ∀ f ∈ extra, f.dir ≠ keysDirPath) :
    keysOfRoot (root ++ extra) = keysOfRoot root ∧ keysOfRoot (extra ++ root) = keysOfRoot root := by
  have he : extra.filter (fun f => f.dir == keysDirPath) = [] := by
    apply List.filter_eq_nil_iff.mpr
    intro f hf
    simpa using h f hf
  unfold keysOfRoot
  simp [List.filter_append, he]

/-- **an index signed only by keys that are somewhere in the root but not in its keys directory is rejected** (full
strength: any root, any place outside `etc/apk/keys`, any interpretation of gzip/tar/RSA) -/
theorem root_key_elsewhere_rejected (C : Crypto) (R : Codec) (root : List RootFile) (o : Opts) (url arch : Text)
    (archive : Bytes) (hc : checkOn o url arch = true)
    (hsig : ∀ f, R.readFirst archive = some f → ∀ e ∈ f.entries, ∀ a key,
      Spec.sigEntry e.name = some (a, key) → ∀ x ∈ root, x.name = key → x.dir ≠ keysDirPath) :
    ∃ r, parseIndex C R (keysOfRoot root) o url arch archive = .rej r := by
  apply C04.unknown_key_rejected .verifiedBytes C R (keysOfRoot root) o url arch archive hc
  intro f hf e he a key hs pem hmem
  obtain ⟨x, hx, hd, hn, _⟩ := (keysOfRoot_mem root key pem).mp hmem
  exact hsig f hf e he a key hs x hx hn hd

/-- non-trivial instance: a root with one configured key and the signing key under `usr/share/apk/keys/x86_64` -/
example : keysOfRoot [⟨keysDirPath, "a.rsa.pub".toList, ['A']⟩, ⟨"usr/share/apk/keys/x86_64".toList, "b.rsa.pub".toList, ['B']⟩,
    ⟨"etc/apk/keys/x86_64".toList, "b.rsa.pub".toList, ['B']⟩] = [("a.rsa.pub".toList, ['A'])] := by decide

end Apko.C04Share
