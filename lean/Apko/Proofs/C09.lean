/-
C09 — Locking is a fixpoint of resolution.

Models: `Apko/Model/Lock.lean` (pkg/build/lock.go `unify`, the `resolved` values of `LockImageConfiguration`,
`lockOf`), `Apko/Model/Resolver.lean` (the resolver, shared with C02/C14), and the byte-range expressions of
`LockCmd` regenerated from the source on every run (`Apko/Generated/Lock.lean`).

Proved for ALL inputs (no size bound):
* `ranges_partition`, `ranges_cover`   signature / control / data ranges are contiguous, disjoint, cover
                                       `[0, total)` and have the recorded sizes (over the generated expressions);
* `unify_index_common`                 `s ∈ index ↔ s = n=v(@pin)` with every architecture resolving `n` to `v`;
* `unify_arch_exact`                   every per-architecture list is that architecture's resolution, sorted;
* `unify_missing_dead`                 the loop over `missing` below the error return (with its
                                       `versions`/`pinned` mix-up) only ever sees the empty set;
* `hideProvided_order_free`            the provided-name filter does not depend on the map order;
* `unify_perm_invariant_partial`       two successful runs on permuted architecture lists give the same maps;
  `unify_perm_invariant_common`        and no order fails when every requested name is locked by name;
  `F09g_witness` / `not_UnifyPermInvariant`  the full statement is FALSE: the error outcome depends on the order;
* `unify_meets_spec`                   the model's output passes `specCheck`, the oracle the driver runs on Go's output;
* `unify_ok_of_mustLock`               no "unable to lock" error when every request is locked by name or provided on
                                       every architecture by a locked package (oracle clause `mustLock`);
* `resolvedOf_wf`, `lockOf_lockList`   the `resolved` values of `LockImageConfiguration` are well-formed; the
                                       per-architecture lock lists one `name=version(@pin)` entry per member;
* `installable_exact`                  building from a lock installs exactly the listed packages of the architecture;
* relock (second half of the file; lemmas in Proofs/Lemmas/Relock.lean and RelockInv.lean):
  `constrain_locks`              after `constrain` every package *named* like a lock entry but of another version is
                                 disqualified; `constrain_sub` the disqualified set only grows;
  `compare_prefers_existing`, `minFunc_prefers`   "already chosen with this version" is tested first and wins;
  `depLoop_inv`, `getDeps_inv`, `go_inv`          every pick anywhere in the dependency resolution is a member;
  `relock_fixpoint_partial`      universes without provides / install_if, closed set with unique (name, version):
                                 every successful re-resolution of a lock returns exactly the locked set;
  `F09a_witness`, `not_RelockFixpoint`            the full statement is FALSE (pin lost in the lock);
  `relock_succeeds_partial`      same territory: the re-resolution SUCCEEDS when the lock keeps the pins (not F09a),
                                 versions parse (not F09e), (name, version) is unique (not F09d), no `!x` dependency is
                                 violated (not F09f) and dependency version texts parse (not F09l) — lemmas in
                                 Proofs/Lemmas/RelockSucc.lean / RelockTop.lean (invariant: members free, selected and
                                 existing member-valued; no step answers `.err`; `C02.resolve_total` for the fuel);
  `relock_exact_partial`         succeeds AND returns exactly the locked set;
  `F09a_needed`, `F09d_needed`, `F09e_needed`, `F09f_conflict_needed`, `depAnyJunk_witness`
                                 every side condition is needed: all other hypotheses hold and the round trip fails;
  `relock_unlisted_exact_partial`  completeness of the driver's classes: in universes without provides a resolution
                                 whose class is `unlisted` round-trips exactly (this proof found class F09l);
  `not_RelockSucceeds`           the full success statement is FALSE.
  With provides (Proofs/Lemmas/RelockProvides.lean, lemmas in RelockProv.lean / RelockProvLoop.lean / RelockProvTop.lean):
  `relock_exact_provides_partial`  virtual names, versioned provides, several providers, competing non-members: the
                                 lock re-resolves to exactly the locked set under the negated classes F09a–F09n and
                                 "two members provide one name only without versions";
  `relock_unlisted_exact_provides_partial`  the same from `relockClass = unlisted` (classes F09m, F09n, F09o found here);
  `relock_classes_complete`      `RelockClassesComplete` holds: on the model every failing round trip is in a listed class;
  `F09b_needed`, `F09h_needed`, `F09m_self_needed`, `F09m_twice_needed`, `F09n_needed`, `F09o_needed`   witnesses.
  Outside every fixpoint theorem: install_if (class F09c covers every universe that has one); the multi-architecture
  disqualification of the original run (`dq0`) is covered (any `dq0`), the re-resolution is the single-architecture one.
-/
import Apko.Proofs.Lemmas.Lock
import Apko.Proofs.Lemmas.RelockInv
import Apko.Proofs.Lemmas.RelockTop
import Apko.Generated.Lock
import Apko.Generated.Version

namespace Apko.C09
open Apko Apko.Resolver Apko.Lock

/-! ## ties to the source -/

theorem tie_lockPackageNameRegex : Generated.lockPackageNameRegex = Generated.packageNameRegex := by decide
theorem tie_unifyIndexAny : Generated.unifyIndexAny = ["orig|=<>~", "orig|@"] := by decide
theorem tie_unifyTrimSuffix : Generated.unifyTrimSuffix =
    ["strings.TrimSuffix(name, pinned)", "strings.TrimSuffix(version, pinned)"] := by decide
theorem tie_unifyByArch : Generated.unifyByArchAssignments = ["\"index\" <- pl", "input.arch <- pl"] := by decide
theorem tie_unifySortCalls : Generated.unifySortStringsCalls = 3 := by decide
theorem tie_rangeFormats : (Generated.signatureRangeFormat, Generated.controlRangeFormat, Generated.dataRangeFormat) =
    ("bytes=0-%d", "bytes=%d-%d", "bytes=%d-%d") := by decide
theorem tie_signatureCond : Generated.signatureCond = "rpkg.SignatureSize != 0" := by decide
theorem tie_apkResolvedSizes : Generated.apkResolvedSizes =
    [("ControlSize", "int(expanded.ControlSize)"), ("SignatureSize", "int(expanded.SignatureSize)"),
     ("DataSize", "int(expanded.PackageSize)")] := by decide

/-! ## byte ranges (over the expressions extracted from `LockCmd`) -/

/-- T `ranges_partition`: with `sig` signature bytes (0 = unsigned), `ctl` control bytes and `dat` data bytes the
recorded ranges are `[0,sig)`, `[sig,sig+ctl)`, `[sig+ctl,sig+ctl+dat)`: contiguous, of the recorded sizes, ending
at the end of the file. -/
theorem ranges_partition (sig ctl dat : Int) :
    Generated.signatureFirst sig ctl dat = 0 ∧
    Generated.signatureLast sig ctl dat + 1 = Generated.controlFirst sig ctl dat ∧
    Generated.signatureLast sig ctl dat - Generated.signatureFirst sig ctl dat + 1 = sig ∧
    Generated.controlLast sig ctl dat + 1 = Generated.dataFirst sig ctl dat ∧
    Generated.controlLast sig ctl dat - Generated.controlFirst sig ctl dat + 1 = ctl ∧
    Generated.dataLast sig ctl dat - Generated.dataFirst sig ctl dat + 1 = dat ∧
    Generated.dataLast sig ctl dat + 1 = sig + ctl + dat := by
  unfold Generated.signatureFirst Generated.signatureLast Generated.controlFirst
    Generated.controlLast Generated.dataFirst Generated.dataLast
  refine ⟨rfl, ?_, ?_, ?_, ?_, ?_, ?_⟩ <;> omega

def inRange (first last b : Int) : Prop := first ≤ b ∧ b ≤ last

/-- T `ranges_cover`: every byte of the file lies in exactly one recorded range (the signature range is only
recorded when `sig ≠ 0`; for `sig = 0` it is empty anyway). -/
theorem ranges_cover (sig ctl dat b : Int) (hs : 0 ≤ sig) (hc : 0 ≤ ctl) (hd : 0 ≤ dat)
    (h0 : 0 ≤ b) (hb : b < sig + ctl + dat) :
    let S := inRange (Generated.signatureFirst sig ctl dat) (Generated.signatureLast sig ctl dat) b
    let C := inRange (Generated.controlFirst sig ctl dat) (Generated.controlLast sig ctl dat) b
    let D := inRange (Generated.dataFirst sig ctl dat) (Generated.dataLast sig ctl dat) b
    (S ∨ C ∨ D) ∧ ¬(S ∧ C) ∧ ¬(S ∧ D) ∧ ¬(C ∧ D) ∧ (S → sig ≠ 0) := by
  unfold inRange Generated.signatureFirst Generated.signatureLast Generated.controlFirst
    Generated.controlLast Generated.dataFirst Generated.dataLast
  omega

/-! ## `installablePackagesForArch` -/

/-- T `installable_exact` (`lock_install_exact` of the design): building from a lock hands the installer exactly
the listed packages of that architecture, in file order, each with its recorded checksum. -/
theorem installable_exact (pkgs : List LockPkg) (arch : Text) (l : List LockPkg)
    (h : installableForArch pkgs arch = some l) :
    l = pkgs.filter (·.arch = arch) ∧ ∀ p ∈ l, p.checksum ≠ [] := by
  unfold installableForArch at h
  simp only at h
  split at h
  · simp at h
  · next hn =>
    simp only [Option.some.injEq] at h
    refine ⟨h.symm, fun p hp => ?_⟩
    simp only [List.any_eq_true, not_exists, not_and, Bool.not_eq_true] at hn
    have := hn p (h ▸ hp)
    intro he
    simp [he] at this

/-! ## unify: shape of a successful run -/

/-- the map assembled for the architectures: later entries overwrite earlier ones -/
def foldSet (g : RArch → Option (List Text)) (inputs : List RArch) (m0 : SMap (List Text)) : SMap (List Text) :=
  inputs.foldl (fun m a => match g a with | some v => setT m a.arch v | none => m) m0

theorem find_map_set {α} (m : SMap α) (k k' : Text) (v : α) :
    (m.map fun e => if e.1 = k then (k, v) else e).find? (fun e => e.1 = k') =
      if k' = k then (if m.any (fun e => e.1 = k) then some (k, v) else none)
      else m.find? (fun e => e.1 = k') := by
  induction m with
  | nil => simp
  | cons e m ih =>
    rw [List.map_cons, List.find?_cons, List.find?_cons, List.any_cons]
    by_cases he : e.1 = k
    · by_cases hk : k' = k
      · subst hk; simp [he]
      · have h1 : ¬ k = k' := fun h => hk h.symm
        have h2 : ¬ e.1 = k' := fun h => hk (h.symm.trans he)
        simp only [he, ↓reduceIte, h1, decide_false, h2] at ih ⊢
        simpa [hk] using ih
    · by_cases hk : k' = k
      · subst hk
        simp only [he, ↓reduceIte, decide_false, Bool.false_or] at ih ⊢
        simpa using ih
      · simp only [he, ↓reduceIte, hk] at ih ⊢
        by_cases h2 : e.1 = k'
        · simp [h2]
        · simp only [h2, decide_false]; exact ih

theorem lookupT_map_set {α} (m : SMap α) (k k' : Text) (v : α) :
    lookupT (m.map fun e => if e.1 = k then (k, v) else e) k' =
      if k' = k then (if m.any (fun e => e.1 = k) then some v else none) else lookupT m k' := by
  unfold lookupT
  rw [find_map_set]
  split
  · split <;> rfl
  · rfl

theorem lookupT_append_single {α} (m : SMap α) (k k' : Text) (v : α) :
    lookupT (m ++ [(k, v)]) k' =
      match lookupT m k' with
      | some x => some x
      | none => if k = k' then some v else none := by
  induction m with
  | nil => simp [lookupT, List.find?_cons]; split <;> simp_all
  | cons e m ih =>
    unfold lookupT at ih ⊢
    simp only [List.cons_append, List.find?_cons]
    by_cases he : e.1 = k'
    · simp [he]
    · simp only [he, decide_false]
      exact ih

theorem lookupT_none_of_not_any {α} (m : SMap α) (k : Text) (h : m.any (fun e => e.1 = k) = false) :
    lookupT m k = none := by
  unfold lookupT
  rw [Option.map_eq_none_iff, List.find?_eq_none]
  intro x hx
  have := List.any_eq_false.mp h x hx
  exact this

theorem lookupT_setT {α} (m : SMap α) (k k' : Text) (v : α) :
    lookupT (setT m k v) k' = if k' = k then some v else lookupT m k' := by
  unfold setT
  split
  · next h => rw [lookupT_map_set]; simp [h]
  · next h =>
    rw [lookupT_append_single]
    by_cases hk : k' = k
    · subst hk
      have := lookupT_none_of_not_any m k' (by simp only [Bool.not_eq_true] at h; exact h)
      simp [this]
    · have : ¬ k = k' := fun h => hk h.symm
      simp only [this, ↓reduceIte, hk]
      cases lookupT m k' <;> rfl

theorem foldSet_not (g : RArch → Option (List Text)) (inputs : List RArch) (m0 : SMap (List Text)) (k : Text)
    (h : ∀ a ∈ inputs, a.arch ≠ k) : lookupT (foldSet g inputs m0) k = lookupT m0 k := by
  unfold foldSet
  induction inputs generalizing m0 with
  | nil => rfl
  | cons a rest ih =>
    simp only [List.foldl_cons]
    rw [ih _ (fun b hb => h b (List.mem_cons_of_mem _ hb))]
    cases g a with
    | none => rfl
    | some v =>
      simp only
      rw [lookupT_setT]
      have : ¬ k = a.arch := fun e => h a List.mem_cons_self e.symm
      simp [this]

theorem foldSet_mem (g : RArch → Option (List Text)) (inputs : List RArch) (m0 : SMap (List Text)) (a : RArch)
    (hd : inputs.Pairwise (fun x y => x.arch ≠ y.arch)) (ha : a ∈ inputs) :
    lookupT (foldSet g inputs m0) a.arch = match g a with | some v => some v | none => lookupT m0 a.arch := by
  induction inputs generalizing m0 with
  | nil => cases ha
  | cons b rest ih =>
    obtain ⟨hb, hrest⟩ := List.pairwise_cons.mp hd
    rcases List.mem_cons.mp ha with rfl | ha'
    · have : foldSet g (a :: rest) m0 = foldSet g rest (match g a with | some v => setT m0 a.arch v | none => m0) := by
        simp [foldSet]
      rw [this, foldSet_not g rest _ a.arch (fun c hc => (hb c hc).symm)]
      cases g a with
      | none => rfl
      | some v => simp [lookupT_setT]
    · have : foldSet g (b :: rest) m0 = foldSet g rest (match g b with | some v => setT m0 b.arch v | none => m0) := by
        simp [foldSet]
      rw [this, ih _ hrest ha']
      cases hga : g a with
      | some v => rfl
      | none =>
        simp only
        cases g b with
        | none => rfl
        | some v =>
          simp only
          rw [lookupT_setT]
          have : ¬ a.arch = b.arch := fun e => hb a ha' e.symm
          simp [this]

/-- the per-architecture "missing here" list -/
def missingHere (acc : Acc) (a : RArch) : Option (List Text) :=
  let mh := diff (diff a.packages acc.packages) []
  if mh.isEmpty then none else some (sortS mh)

/-- what a successful run returns, in terms of the accumulator -/
theorem unify_ok_form (originals : List Text) (first : RArch) (rest : List RArch) (hne : originals ≠ [])
    (byArch mba : SMap (List Text)) (h : unify originals (first :: rest) = .ok byArch mba) :
    let acc := accOf first rest
    missingOf originals acc = [] ∧
    byArch = foldSet (fun a => some (archList (origPinned originals) a)) (first :: rest)
      [(indexKey, sortS (acc.packages.map (entry (origPinned originals) acc.versions)))] ∧
    mba = foldSet (missingHere acc) (first :: rest) [] := by
  unfold unify at h
  have he : originals.isEmpty = false := by
    cases originals with
    | nil => exact absurd rfl hne
    | cons _ _ => rfl
  simp only [he, Bool.false_eq_true, ↓reduceIte] at h
  split at h
  · simp at h
  · next hm =>
    simp only [Bool.not_eq_true, Bool.not_eq_false', List.isEmpty_iff] at hm
    simp only [UR.ok.injEq] at h
    refine ⟨hm, ?_, ?_⟩
    · rw [← h.1, hm]
      simp [foldSet, missingEntries]
    · rw [← h.2, hm]
      simp only [foldSet, missingHere]
      congr 1
      funext m a
      split <;> simp_all

/-! ## unify: the theorems -/

/-- T `unify_missing_dead`: whenever `unify` gets past its error return, `missing` is empty — so the loop that
follows (which reads `originalPackages.versions` where it means `.pinned`) contributes nothing, and replacing it by
any other function of the empty set leaves the result unchanged. -/
theorem unify_missing_dead (originals : List Text) (first : RArch) (rest : List RArch)
    (byArch mba : SMap (List Text)) (hne : originals ≠ [])
    (h : unify originals (first :: rest) = .ok byArch mba) :
    missingOf originals (accOf first rest) = [] ∧
    missingEntries (origVersions originals) (missingOf originals (accOf first rest)) = [] := by
  have := (unify_ok_form originals first rest hne byArch mba h).1
  exact ⟨this, by rw [this]; rfl⟩

/-- T `hideProvided_order_free`: the loop `for _, provider := range acc.provided` (a Go map) computes
`missing ∖ ⋃ provided` whatever the iteration order -/
theorem hideProvided_order_free (p₁ p₂ : SMap (List Text)) (hp : p₁.Perm p₂) (missing : List Text) :
    hideProvided p₁ missing = hideProvided p₂ missing := by
  rw [hideProvided_eq, hideProvided_eq]
  apply List.filter_congr
  intro x _
  congr 1
  exact Bool.eq_iff_iff.mpr (by simp only [List.any_eq_true]; exact ⟨fun ⟨e, he, h⟩ => ⟨e, hp.mem_iff.mp he, h⟩, fun ⟨e, he, h⟩ => ⟨e, hp.mem_iff.mpr he, h⟩⟩)

/-- T `unify_index_common`: the shared ("index") list is sorted and contains exactly the entries
`name=version(@pin)` of the packages that *every* architecture resolved to that version. -/
theorem unify_index_common (originals : List Text) (first : RArch) (rest : List RArch) (hne : originals ≠ [])
    (hwf : ∀ a ∈ first :: rest, WF a) (hidx : ∀ a ∈ first :: rest, a.arch ≠ indexKey)
    (byArch mba : SMap (List Text)) (h : unify originals (first :: rest) = .ok byArch mba) :
    ∃ pl, lookupT byArch indexKey = some pl ∧ pl.Pairwise (· ≤ ·) ∧
      ∀ s, s ∈ pl ↔ ∃ n v, s = n ++ ['='] ++ v ++ mget (origPinned originals) n ∧
        ∀ a ∈ first :: rest, n ∈ a.packages ∧ mget a.versions n = v := by
  obtain ⟨_, hb, _⟩ := unify_ok_form originals first rest hne byArch mba h
  obtain ⟨s1, s2⟩ := accOf_spec first rest hwf
  refine ⟨sortS ((accOf first rest).packages.map (entry (origPinned originals) (accOf first rest).versions)),
    ?_, sortS_sorted _, fun s => ?_⟩
  · rw [hb, foldSet_not _ _ _ _ hidx]
    simp [lookupT]
  · rw [mem_sortS, List.mem_map]
    constructor
    · rintro ⟨n, hn, rfl⟩
      refine ⟨n, mget first.versions n, ?_, fun a ha => (s1 n).mp hn a ha⟩
      simp [entry, s2 n hn]
    · rintro ⟨n, v, rfl, hall⟩
      have hv : v = mget first.versions n := (hall first List.mem_cons_self).2.symm
      have hn : n ∈ (accOf first rest).packages := (s1 n).mpr (fun a ha => ⟨(hall a ha).1, (hall a ha).2.trans hv⟩)
      exact ⟨n, hn, by simp [entry, s2 n hn, hv]⟩

/-- T `unify_arch_exact`: every per-architecture list is exactly that architecture's own resolution —
`name=version(@pin)` for each of its packages — sorted. -/
theorem unify_arch_exact (originals : List Text) (first : RArch) (rest : List RArch) (hne : originals ≠ [])
    (hd : (first :: rest).Pairwise (fun x y => x.arch ≠ y.arch))
    (byArch mba : SMap (List Text)) (h : unify originals (first :: rest) = .ok byArch mba)
    (a : RArch) (ha : a ∈ first :: rest) :
    ∃ pl, lookupT byArch a.arch = some pl ∧ pl.Pairwise (· ≤ ·) ∧
      ∀ s, s ∈ pl ↔ ∃ n ∈ a.packages, s = n ++ ['='] ++ mget a.versions n ++ mget (origPinned originals) n := by
  obtain ⟨_, hb, _⟩ := unify_ok_form originals first rest hne byArch mba h
  refine ⟨archList (origPinned originals) a, ?_, sortS_sorted _, fun s => ?_⟩
  · rw [hb, foldSet_mem _ _ _ a hd ha]
  · simp only [archList, mem_sortS, List.mem_map, entry]
    constructor
    · rintro ⟨n, hn, rfl⟩; exact ⟨n, hn, rfl⟩
    · rintro ⟨n, hn, rfl⟩; exact ⟨n, hn, rfl⟩

/-! ### independence of the architecture order -/

theorem stepPkg_sublist (next : RArch) (acc : Acc) (pkg : Text) :
    (stepPkg next acc pkg).packages.Sublist acc.packages := by
  unfold stepPkg
  by_cases hc : mget acc.versions pkg = mget next.versions pkg
  · simp only [hc, bne_self_eq_false, Bool.false_eq_true, ↓reduceIte]
    split <;> exact List.Sublist.refl _
  · have hc' : (mget acc.versions pkg != mget next.versions pkg) = true := by simpa using hc
    simp only [hc', ↓reduceIte]
    split <;> exact List.filter_sublist

theorem foldPkg_sublist (next : RArch) (L : List Text) (acc : Acc) :
    (L.foldl (stepPkg next) acc).packages.Sublist acc.packages := by
  induction L generalizing acc with
  | nil => exact List.Sublist.refl _
  | cons p L ih => exact (ih _).trans (stepPkg_sublist next acc p)

theorem stepArch_sublist (acc : Acc) (next : RArch) : (stepArch acc next).packages.Sublist acc.packages := by
  unfold stepArch
  split
  · exact List.Sublist.refl _
  · exact (foldPkg_sublist next _ _).trans (by simp [inter, List.filter_sublist])

theorem accOf_sublist (first : RArch) (rest : List RArch) : (accOf first rest).packages.Sublist first.packages := by
  unfold accOf
  suffices ∀ acc : Acc, (rest.foldl stepArch acc).packages.Sublist acc.packages from this _
  induction rest with
  | nil => intro acc; exact List.Sublist.refl _
  | cons a rest ih => intro acc; exact (ih _).trans (stepArch_sublist acc a)

/-! ### Impl meets the Spec the driver evaluates on every Go output -/

def IsFilt (l' l : List Text) : Prop := ∃ q : Text → Bool, l' = l.filter q

theorem IsFilt.refl (l : List Text) : IsFilt l l :=
  ⟨fun _ => true, (List.filter_eq_self.mpr (fun _ _ => rfl)).symm⟩

theorem IsFilt.filter {l' l : List Text} (h : IsFilt l' l) (q : Text → Bool) : IsFilt (l'.filter q) l := by
  obtain ⟨q0, rfl⟩ := h
  exact ⟨fun x => q0 x && q x, by rw [List.filter_filter]; congr 1; funext x; exact Bool.and_comm _ _⟩

theorem stepPkg_filt (next : RArch) (acc : Acc) (pkg : Text) (l : List Text) (h : IsFilt acc.packages l) :
    IsFilt (stepPkg next acc pkg).packages l := by
  unfold stepPkg
  by_cases hc : mget acc.versions pkg = mget next.versions pkg
  · simp only [hc, bne_self_eq_false, Bool.false_eq_true, ↓reduceIte]
    split <;> exact h
  · have hc' : (mget acc.versions pkg != mget next.versions pkg) = true := by simpa using hc
    simp only [hc', ↓reduceIte]
    split <;> exact h.filter _

theorem foldPkg_filt (next : RArch) (L : List Text) (acc : Acc) (l : List Text) (h : IsFilt acc.packages l) :
    IsFilt (L.foldl (stepPkg next) acc).packages l := by
  induction L generalizing acc with
  | nil => exact h
  | cons p L ih => exact ih _ (stepPkg_filt next acc p l h)

theorem stepArch_filt (acc : Acc) (next : RArch) (l : List Text) (h : IsFilt acc.packages l) :
    IsFilt (stepArch acc next).packages l := by
  unfold stepArch
  split
  · exact h
  · exact foldPkg_filt next _ _ l (by simpa [inter] using h.filter _)

theorem accOf_filt (first : RArch) (rest : List RArch) : IsFilt (accOf first rest).packages first.packages := by
  unfold accOf
  suffices ∀ acc : Acc, IsFilt acc.packages first.packages → IsFilt (rest.foldl stepArch acc).packages first.packages from
    this _ (IsFilt.refl _)
  induction rest with
  | nil => intro acc h; exact h
  | cons a rest ih => intro acc h; exact ih _ (stepArch_filt acc a _ h)

/-- the accumulated package list is, as a list, the `common` list of the Spec -/
theorem accOf_eq_common (first : RArch) (rest : List RArch) (hwf : ∀ a ∈ first :: rest, WF a) :
    (accOf first rest).packages = common (first :: rest) := by
  obtain ⟨q, hq⟩ := accOf_filt first rest
  obtain ⟨s1, _⟩ := accOf_spec first rest hwf
  rw [hq]
  unfold common
  apply List.filter_congr
  intro n hn
  have h1 : q n = true ↔ n ∈ (accOf first rest).packages := by
    rw [hq, List.mem_filter]; exact ⟨fun h => ⟨hn, h⟩, fun h => h.2⟩
  apply Bool.eq_iff_iff.mpr
  rw [h1, s1 n]
  simp only [List.all_eq_true, Bool.and_eq_true, List.contains_iff_mem, decide_eq_true_eq]

/-- T `unify_meets_spec`: on every successful run the model's output passes `specCheck`, the decidable oracle the
driver evaluates on every Go output (shared list = sorted common set, every per-architecture list exact) -/
theorem unify_meets_spec (originals : List Text) (first : RArch) (rest : List RArch)
    (hwf : ∀ a ∈ first :: rest, WF a) (hidx : ∀ a ∈ first :: rest, a.arch ≠ indexKey)
    (hd : (first :: rest).Pairwise (fun x y => x.arch ≠ y.arch))
    (byArch mba : SMap (List Text)) (h : unify originals (first :: rest) = .ok byArch mba) :
    specCheck originals (first :: rest) byArch = none := by
  unfold specCheck
  split
  · rfl
  · next hne =>
    have hne' : originals ≠ [] := by intro e; rw [e] at hne; exact hne rfl
    obtain ⟨_, hb, _⟩ := unify_ok_form originals first rest hne' byArch mba h
    obtain ⟨_, s2⟩ := accOf_spec first rest hwf
    have hidxv : lookupT byArch indexKey = some (specIndex originals (first :: rest)) := by
      rw [hb, foldSet_not _ _ _ _ hidx]
      simp only [lookupT, List.find?_cons, decide_true, Option.map_some, specIndex]
      congr 2
      rw [← accOf_eq_common first rest hwf]
      apply List.map_congr_left
      intro n hn
      simp [entry, s2 n hn]
    have harch : (first :: rest).find? (fun a => lookupT byArch a.arch != some (archList (origPinned originals) a)) = none := by
      rw [List.find?_eq_none]
      intro a ha
      rw [hb, foldSet_mem _ _ _ a hd ha]
      simp
    simp [hidxv, harch]

/-! ### a lock must be produced when every request is locked by name or provided everywhere by a locked package -/

theorem sget_setT (m : SMap (List Text)) (k k' : Text) (v : List Text) :
    sget (setT m k v) k' = if k' = k then v else sget m k' := by
  unfold sget
  rw [lookupT_setT]
  split <;> rfl

theorem sget_mdel_ne (m : SMap (List Text)) {k n : Text} (h : n ≠ k) : sget (mdel m k) n = sget m n := by
  simp [sget, lookupT_mdel_ne m h]

/-- what the provided-sets of a surviving package still contain after one `stepPkg` -/
theorem stepPkg_provided (next : RArch) (acc : Acc) (pkg p n : Text)
    (hp : p ∈ (stepPkg next acc pkg).packages) (h1 : n ∈ sget acc.provided p) (h2 : n ∈ sget next.provided p) :
    n ∈ sget (stepPkg next acc pkg).provided p := by
  have hpk := (stepPkg_packages next acc pkg p).mp hp
  unfold stepPkg
  by_cases hc : mget acc.versions pkg = mget next.versions pkg
  · simp only [hc, bne_self_eq_false, Bool.false_eq_true, ↓reduceIte]
    split
    · simp only [sget_setT]
      split
      · next e => subst e; exact mem_inter.mpr ⟨h1, h2⟩
      · exact h1
    · exact h1
  · have hc' : (mget acc.versions pkg != mget next.versions pkg) = true := by simpa using hc
    have hne : p ≠ pkg := fun e => hc (hpk.2 e)
    simp only [hc', ↓reduceIte]
    split
    · simp only [sget_setT, hne, ↓reduceIte]
      rw [sget_mdel_ne _ hne]; exact h1
    · simp only
      rw [sget_mdel_ne _ hne]; exact h1

theorem foldPkg_provided (next : RArch) : ∀ (L : List Text) (acc : Acc) (p n : Text),
    p ∈ (L.foldl (stepPkg next) acc).packages → n ∈ sget acc.provided p → n ∈ sget next.provided p →
    n ∈ sget (L.foldl (stepPkg next) acc).provided p := by
  intro L
  induction L with
  | nil => intro acc p n _ h1 _; exact h1
  | cons pkg L ih =>
    intro acc p n hp h1 h2
    simp only [List.foldl_cons] at hp ⊢
    have hp' : p ∈ (stepPkg next acc pkg).packages := (foldPkg_sublist next L _).subset hp
    exact ih _ p n hp (stepPkg_provided next acc pkg p n hp' h1 h2) h2

theorem stepArch_provided (acc : Acc) (next : RArch) (p n : Text)
    (hp : p ∈ (stepArch acc next).packages) (h1 : n ∈ sget acc.provided p) (h2 : n ∈ sget next.provided p) :
    n ∈ sget (stepArch acc next).provided p := by
  unfold stepArch at hp ⊢
  split
  · exact h1
  · next hns =>
    simp only [hns, Bool.false_eq_true, ↓reduceIte] at hp
    exact foldPkg_provided next _ _ p n hp h1 h2

theorem foldArch_provided : ∀ (rest : List RArch) (acc : Acc) (p n : Text),
    p ∈ (rest.foldl stepArch acc).packages → n ∈ sget acc.provided p → (∀ a ∈ rest, n ∈ sget a.provided p) →
    n ∈ sget (rest.foldl stepArch acc).provided p := by
  intro rest
  induction rest with
  | nil => intro acc p n _ h1 _; exact h1
  | cons a rest ih =>
    intro acc p n hp h1 h2
    simp only [List.foldl_cons] at hp ⊢
    have hsub : ∀ (r : List RArch) (ac : Acc), (r.foldl stepArch ac).packages.Sublist ac.packages := by
      intro r
      induction r with
      | nil => intro ac; exact List.Sublist.refl _
      | cons x xs ihx => intro ac; exact (ihx _).trans (stepArch_sublist ac x)
    have hp' : p ∈ (stepArch acc a).packages := (hsub rest _).subset hp
    exact ih _ p n hp (stepArch_provided acc a p n hp' h1 (h2 a List.mem_cons_self))
      (fun b hb => h2 b (List.mem_cons_of_mem _ hb))

/-- T `unify_ok_of_mustLock`: `unify` returns a lock — not the "unable to lock packages to a consistent version"
error — whenever every requested name is locked under its own name or is provided, on every architecture, by a
package that is (the Spec clause `mustLock`, evaluated by the driver whenever Go reports an error) -/
theorem unify_ok_of_mustLock (originals : List Text) (first : RArch) (rest : List RArch)
    (hwf : ∀ a ∈ first :: rest, WF a) (hm : mustLock originals (first :: rest) = true) :
    ∃ b m, unify originals (first :: rest) = .ok b m := by
  unfold unify
  split
  · exact ⟨_, _, rfl⟩
  · have hmiss : missingOf originals (accOf first rest) = [] := by
      unfold missingOf
      simp only
      split
      · next he => exact List.isEmpty_iff.mp he
      · rw [hideProvided_eq, List.filter_eq_nil_iff]
        intro n hn
        obtain ⟨hno, hnacc⟩ := mem_diff.mp hn
        simp only [mustLock, List.all_eq_true, Bool.or_eq_true, List.any_eq_true, List.contains_iff_mem] at hm
        rw [← accOf_eq_common first rest hwf] at hm
        rcases hm n hno with h | ⟨p, hp, hall⟩
        · exact absurd h hnacc
        · have hin : n ∈ sget (accOf first rest).provided p :=
            foldArch_provided rest ⟨first.packages, first.versions, first.provided⟩ p n hp
              (hall first List.mem_cons_self) (fun a ha => hall a (List.mem_cons_of_mem _ ha))
          -- the set read by `sget` is an entry of the association list
          have : ∃ e ∈ (accOf first rest).provided, e.2.contains n = true := by
            unfold sget lookupT at hin
            cases hf : List.find? (fun e => decide (e.1 = p)) (accOf first rest).provided with
            | none => rw [hf] at hin; simp at hin
            | some e =>
              rw [hf] at hin
              exact ⟨e, List.mem_of_find?_eq_some hf, by simpa using hin⟩
          simp only [Bool.not_eq_true', Bool.not_eq_false, List.any_eq_true]
          exact this
    simp only [hmiss, List.isEmpty_nil, Bool.not_true, Bool.false_eq_true, ↓reduceIte]
    exact ⟨_, _, rfl⟩

/-- the full statement: the outcome of `unify` does not depend on the order of the architectures (the order of
`inputs` is the iteration order of a Go map in `LockImageConfiguration`).  FALSE today, see `F09g_witness`. -/
def sameUR : UR → UR → Prop
  | .err, .err => True
  | .ok b m, .ok b' m' => (∀ k, lookupT b k = lookupT b' k) ∧ (∀ k, lookupT m k = lookupT m' k)
  | _, _ => False

def UnifyPermInvariant : Prop :=
  ∀ (originals : List Text) (inputs inputs' : List RArch), inputs.Perm inputs' →
    (∀ a ∈ inputs, WF a) → (∀ a ∈ inputs, a.packages.Nodup) →
    inputs.Pairwise (fun x y => x.arch ≠ y.arch) →
    sameUR (unify originals inputs) (unify originals inputs')

/-- T `unify_perm_invariant_partial` (also used by C01): whenever both orders get past the error return, the
results agree on every key — the shared list, every per-architecture list, every missing-by-architecture list. -/
theorem unify_perm_invariant_partial (originals : List Text) (inputs inputs' : List RArch)
    (hp : inputs.Perm inputs') (hwf : ∀ a ∈ inputs, WF a) (hnd : ∀ a ∈ inputs, a.packages.Nodup)
    (hd : inputs.Pairwise (fun x y => x.arch ≠ y.arch))
    (b m b' m' : SMap (List Text))
    (h : unify originals inputs = .ok b m) (h' : unify originals inputs' = .ok b' m') :
    (∀ k, lookupT b k = lookupT b' k) ∧ (∀ k, lookupT m k = lookupT m' k) := by
  by_cases hne : originals = []
  · subst hne
    simp only [unify, List.isEmpty_nil, ↓reduceIte, UR.ok.injEq] at h h'
    rw [← h.1, ← h.2, ← h'.1, ← h'.2]
    exact ⟨fun _ => rfl, fun _ => rfl⟩
  · cases inputs with
    | nil =>
      have : inputs' = [] := List.Perm.eq_nil (hp.symm)
      subst this
      rw [h] at h'
      simp only [UR.ok.injEq] at h'
      rw [h'.1, h'.2]
      exact ⟨fun _ => rfl, fun _ => rfl⟩
    | cons first rest =>
      cases inputs' with
      | nil => exact absurd (List.Perm.eq_nil hp) (by simp)
      | cons first' rest' =>
        have hwf' : ∀ a ∈ first' :: rest', WF a := fun a ha => hwf a (hp.mem_iff.mpr ha)
        have hd' : (first' :: rest').Pairwise (fun x y => x.arch ≠ y.arch) :=
          hd.perm hp (fun h e => h e.symm)
        obtain ⟨_, hb, hm⟩ := unify_ok_form originals first rest hne b m h
        obtain ⟨_, hb', hm'⟩ := unify_ok_form originals first' rest' hne b' m' h'
        obtain ⟨s1, s2⟩ := accOf_spec first rest hwf
        obtain ⟨t1, t2⟩ := accOf_spec first' rest' hwf'
        have hf' : first' ∈ first :: rest := hp.mem_iff.mpr List.mem_cons_self
        have hf : first ∈ first' :: rest' := hp.mem_iff.mp List.mem_cons_self
        -- the two accumulators hold the same packages …
        have hmem : ∀ n, n ∈ (accOf first rest).packages ↔ n ∈ (accOf first' rest').packages := by
          intro n
          rw [s1 n, t1 n]
          constructor
          · intro hall a ha
            have ha' := hp.mem_iff.mpr ha
            exact ⟨(hall a ha').1, (hall a ha').2.trans (hall first' hf').2.symm⟩
          · intro hall a ha
            have ha' := hp.mem_iff.mp ha
            exact ⟨(hall a ha').1, (hall a ha').2.trans (hall first hf).2.symm⟩
        -- … with the same versions
        have hver : ∀ n, n ∈ (accOf first rest).packages →
            mget (accOf first' rest').versions n = mget (accOf first rest).versions n := by
          intro n hn
          rw [s2 n hn, t2 n ((hmem n).mp hn)]
          exact (((s1 n).mp hn) first' hf').2
        have hperm : (accOf first rest).packages.Perm (accOf first' rest').packages :=
          (List.perm_ext_iff_of_nodup
            ((accOf_sublist first rest).nodup (hnd first List.mem_cons_self))
            ((accOf_sublist first' rest').nodup (hnd first' hf'))).mpr hmem
        have hpl : sortS ((accOf first rest).packages.map (entry (origPinned originals) (accOf first rest).versions)) =
            sortS ((accOf first' rest').packages.map (entry (origPinned originals) (accOf first' rest').versions)) := by
          apply sortS_congr
          have e1 : (accOf first' rest').packages.map (entry (origPinned originals) (accOf first' rest').versions) =
              (accOf first' rest').packages.map (entry (origPinned originals) (accOf first rest).versions) := by
            apply List.map_congr_left
            intro n hn
            simp [entry, hver n ((hmem n).mpr hn)]
          rw [e1]
          exact hperm.map _
        have hmh : ∀ a, missingHere (accOf first rest) a = missingHere (accOf first' rest') a := by
          intro a
          have : diff a.packages (accOf first rest).packages = diff a.packages (accOf first' rest').packages := by
            unfold diff
            apply List.filter_congr
            intro x _
            congr 1
            exact Bool.eq_iff_iff.mpr (by simp only [List.contains_iff_mem]; exact hmem x)
          simp only [missingHere, this]
        constructor
        · intro k
          rw [hb, hb']
          by_cases hk : ∃ a ∈ first :: rest, a.arch = k
          · obtain ⟨a, ha, rfl⟩ := hk
            rw [foldSet_mem _ _ _ a hd ha, foldSet_mem _ _ _ a hd' (hp.mem_iff.mp ha)]
          · have hk1 : ∀ a ∈ first :: rest, a.arch ≠ k := fun a ha e => hk ⟨a, ha, e⟩
            have hk2 : ∀ a ∈ first' :: rest', a.arch ≠ k := fun a ha => hk1 a (hp.mem_iff.mpr ha)
            rw [foldSet_not _ _ _ k hk1, foldSet_not _ _ _ k hk2, hpl]
        · intro k
          rw [hm, hm']
          by_cases hk : ∃ a ∈ first :: rest, a.arch = k
          · obtain ⟨a, ha, rfl⟩ := hk
            rw [foldSet_mem _ _ _ a hd ha, foldSet_mem _ _ _ a hd' (hp.mem_iff.mp ha), hmh a]
          · have hk1 : ∀ a ∈ first :: rest, a.arch ≠ k := fun a ha e => hk ⟨a, ha, e⟩
            have hk2 : ∀ a ∈ first' :: rest', a.arch ≠ k := fun a ha => hk1 a (hp.mem_iff.mpr ha)
            rw [foldSet_not _ _ _ k hk1, foldSet_not _ _ _ k hk2]

/-- when every requested name was resolved *under its own name* to one version everywhere, no order of the
architectures makes `unify` fail (the provided-name filter, the only order-sensitive part, is never consulted) -/
theorem unify_ok_of_common (originals : List Text) (first : RArch) (rest : List RArch)
    (hwf : ∀ a ∈ first :: rest, WF a)
    (hall : ∀ n ∈ origNames originals, ∀ a ∈ first :: rest, n ∈ a.packages ∧ mget a.versions n = mget first.versions n) :
    ∃ b m, unify originals (first :: rest) = .ok b m := by
  unfold unify
  split
  · exact ⟨_, _, rfl⟩
  · have hm : missingOf originals (accOf first rest) = [] := by
      unfold missingOf
      have : diff (origNames originals) (accOf first rest).packages = [] := by
        unfold diff
        rw [List.filter_eq_nil_iff]
        intro n hn
        have := ((accOf_spec first rest hwf).1 n).mpr (hall n hn)
        simp [this]
      simp [this]
    simp only [hm, List.isEmpty_nil, Bool.not_true, Bool.false_eq_true, ↓reduceIte]
    exact ⟨_, _, rfl⟩

/-- T `unify_perm_invariant_common`: the full order-independence, for requests that are locked by name -/
theorem unify_perm_invariant_common (originals : List Text) (inputs inputs' : List RArch)
    (hp : inputs.Perm inputs') (hwf : ∀ a ∈ inputs, WF a) (hnd : ∀ a ∈ inputs, a.packages.Nodup)
    (hd : inputs.Pairwise (fun x y => x.arch ≠ y.arch))
    (hall : ∀ n ∈ origNames originals, ∀ a ∈ inputs, ∀ a' ∈ inputs, n ∈ a.packages ∧ mget a.versions n = mget a'.versions n) :
    sameUR (unify originals inputs) (unify originals inputs') := by
  cases inputs with
  | nil =>
    have : inputs' = [] := List.Perm.eq_nil (hp.symm)
    subst this
    cases hu : unify originals [] <;> simp [sameUR]
  | cons first rest =>
    cases inputs' with
    | nil => exact absurd (List.Perm.eq_nil hp) (by simp)
    | cons first' rest' =>
      have hf' : first' ∈ first :: rest := hp.mem_iff.mpr List.mem_cons_self
      obtain ⟨b, m, h⟩ := unify_ok_of_common originals first rest hwf
        (fun n hn a ha => hall n hn a ha first List.mem_cons_self)
      obtain ⟨b', m', h'⟩ := unify_ok_of_common originals first' rest'
        (fun a ha => hwf a (hp.mem_iff.mpr ha))
        (fun n hn a ha => hall n hn a (hp.mem_iff.mpr ha) first' hf')
      rw [h, h']
      exact unify_perm_invariant_partial originals _ _ hp hwf hnd hd b m b' m' h h'

/-! ### F09g: the error outcome depends on the order -/

def mkArch (arch : String) (pkgs : List (String × String × List String)) : RArch :=
  { arch := arch.toList, packages := pkgs.map (·.1.toList),
    versions := pkgs.map (fun p => (p.1.toList, p.2.1.toList)),
    provided := pkgs.map (fun p => (p.1.toList, p.2.2.map String.toList)) }

theorem mkArch_wf (arch : String) (pkgs : List (String × String × List String)) : WF (mkArch arch pkgs) := by
  intro n
  simp [mkArch, keys, List.map_map]

def gA := mkArch "x86_64" [("p", "1", ["virt"])]
def gB := mkArch "aarch64" [("p", "2", ["virt"])]
def gC := mkArch "riscv64" [("q", "1", ["virt"])]

def isOk : UR → Bool
  | .ok _ _ => true
  | .err => false

/-- F09g: `virt` is provided by p-1 / p-2 / q on three architectures.  In the order [A, B, C] the version mismatch
deletes `acc.provided[p]` and `virt` is reported missing (error); in the order [A, C, B] `p` is first removed by the
set difference — which leaves its `provided` entry behind — and the stale entry hides `virt`: a lock is returned. -/
theorem F09g_witness :
    isOk (unify ["virt".toList] [gA, gB, gC]) = false ∧ isOk (unify ["virt".toList] [gA, gC, gB]) = true := by
  decide

theorem not_UnifyPermInvariant : ¬ UnifyPermInvariant := by
  intro h
  have hw := F09g_witness
  have hperm : [gA, gB, gC].Perm [gA, gC, gB] := (List.Perm.swap gC gB []).cons gA
  have := h ["virt".toList] [gA, gB, gC] [gA, gC, gB] hperm
    (fun a ha => by
      simp only [List.mem_cons, List.not_mem_nil, or_false] at ha
      rcases ha with rfl | rfl | rfl <;> exact mkArch_wf _ _)
    (by decide) (by decide)
  cases h1 : unify ["virt".toList] [gA, gB, gC] with
  | ok b m => rw [h1] at hw; simp [isOk] at hw
  | err =>
    cases h2 : unify ["virt".toList] [gA, gC, gB] with
    | err => rw [h2] at hw; simp [isOk] at hw
    | ok b m => rw [h1, h2] at this; exact this

/-! ## relock: re-resolving the lock -/

def sameMembers (a b : List Pkg) : Prop := ∀ p, p ∈ a ↔ p ∈ b

/-- the full statement: the per-architecture lock of a resolution re-resolves, alone, to the same package set.
FALSE on the pinned tree (`F09a_witness`, and the other classes listed in KNOWN_FINDINGS.txt). -/
def RelockFixpoint : Prop :=
  ∀ (c : Cfg) (w : List Text) (r : Resolution), resolve c w [] = .ok r →
    ∃ r', resolve c (lockOf w r.install) [] = .ok r' ∧ sameMembers r'.install r.install

/-- `L` is a lock of `S`: one entry `name=version(@pin)` per member, read back by the constraint parser as
(name, `=`, version) -/
structure LockList (S : List Pkg) (L : List Text) : Prop where
  sound : ∀ e ∈ L, (∀ x, e ≠ '!' :: x) ∧ ∃ p ∈ S, ∃ pin, parseConstraint e = ⟨p.name, p.version, .eq, pin⟩
  complete : ∀ p ∈ S, ∃ e ∈ L, ∃ pin, parseConstraint e = ⟨p.name, p.version, .eq, pin⟩

/-- T `relock_fixpoint_partial`: in a universe without `provides` and without `install_if`, for a set `S` of
universe packages with distinct names whose dependencies are satisfied inside `S` (C02's closure) and whose
(name, version) is unique in the universe, every *successful* re-resolution of a lock of `S` returns exactly `S` —
for any number of packages, versions, indexes (pinned or not), dependency shapes and any order of the lock.
The hypotheses are the negations of the finding classes: no provides ⊇ ¬F09b ∧ ¬F09h, no install_if = ¬F09c,
uniqueness = ¬F09d ∧ ¬F09e (an unparsable version matches nothing), closure = ¬F09f; that the re-resolution
succeeds at all is NOT proved here (F09a is a failure of exactly that). -/
theorem relock_fixpoint_partial (c : Cfg) (S : List Pkg) (L : List Text) (ctx : Ctx c S)
    (hnames : ∀ p ∈ S, ∀ q ∈ S, p.name = q.name → p = q)
    (huniq : ∀ x ∈ c.u.all, ∀ p ∈ S, x.name = p.name → versionMatches x.version p.version = true → x = p)
    (hL : LockList S L) (r' : Resolution) (h : resolve c L [] = .ok r') : sameMembers r'.install S := by
  unfold resolve at h
  split at h
  · cases h
  · next dq1 hcon =>
    have hlocked : Locked c S dq1 := by
      intro x hx ⟨p, hp, hpn⟩ hxs
      obtain ⟨e, he, pin, hparse⟩ := hL.complete p hp
      have hname : hasName c.u p.name = true := by
        unfold hasName
        exact List.any_eq_true.mpr ⟨p, ctx.sIn p hp, by simp⟩
      have hnm : x ∈ c.nm p.name := by
        unfold Cfg.nm
        rw [nameMap_noprov _ _ _ ctx.noprov]
        exact List.mem_filter.mpr ⟨hx, by simp [hpn]⟩
      have hv : versionMatches x.version p.version = false := by
        cases hvm : versionMatches x.version p.version with
        | false => rfl
        | true => exact absurd (huniq x hx p hp hpn.symm hvm ▸ hp) hxs
      exact constrain_locks c e p.name p.version pin (hL.sound e he).1 hparse hname x hnm hpn.symm hv L [] dq1 he hcon
    split at h
    · cases h
    · cases h
    · next depMap dq2 hwl =>
      have hdq : dq2 = dq1 := worldLoop_dq ctx _ _ _ _ _ _ hwl
      have hws : ∀ w ∈ L, NamesMember S w := by
        intro w hw
        obtain ⟨_, p, hp, pin, hparse⟩ := hL.sound w hw
        exact ⟨p, hp, by rw [hparse]⟩
      obtain ⟨a1, _, a3⟩ := go_inv ctx L depMap ⟨dq2, [], []⟩ [] [] r' hws (by intro x hx; cases hx)
        (by rw [hdq]; exact hlocked) h
      intro p
      constructor
      · exact a1 p
      · intro hp
        obtain ⟨e, he, pin, hparse⟩ := hL.complete p hp
        obtain ⟨y, hy, hyn⟩ := a3 e he
        rw [hparse] at hyn
        have : y = p := hnames y (a1 y hy) p hp hyn
        exact this ▸ hy

/-! ### the lock produced by `unify` for one architecture is such a `LockList` -/

/-- the two loop bodies of `LockImageConfiguration` (see `resolvedOf`) -/
def pstep (name : Text) (r2 : RArch) (prov : Text) : RArch :=
  match matchPackageName prov with
  | none => r2
  | some (n, _) =>
    let ps := sget r2.provided name
    { r2 with provided := setT r2.provided name (if ps.contains n then ps else ps ++ [n]) }

def rstep (r : RArch) (p : Pkg) : RArch :=
  p.provides.foldl (pstep p.name) { r with
    packages := if r.packages.contains p.name then r.packages else r.packages ++ [p.name],
    versions := setT r.versions p.name p.version }

theorem resolvedOf_eq (arch : Text) (pkgs : List Pkg) : resolvedOf arch pkgs = pkgs.foldl rstep ⟨arch, [], [], []⟩ := rfl

theorem pfold_fields (name : Text) (provs : List Text) (r1 : RArch) :
    (provs.foldl (pstep name) r1).packages = r1.packages ∧ (provs.foldl (pstep name) r1).versions = r1.versions := by
  induction provs generalizing r1 with
  | nil => exact ⟨rfl, rfl⟩
  | cons pr ps ih =>
    simp only [List.foldl_cons]
    obtain ⟨h1, h2⟩ := ih (pstep name r1 pr)
    rw [h1, h2]
    unfold pstep
    split <;> exact ⟨rfl, rfl⟩

theorem rstep_fields (r : RArch) (p : Pkg) :
    (rstep r p).packages = (if r.packages.contains p.name then r.packages else r.packages ++ [p.name]) ∧
    (rstep r p).versions = setT r.versions p.name p.version := by
  unfold rstep
  exact pfold_fields _ _ _

theorem mem_keys_setT {α} (m : SMap α) (k n : Text) (v : α) : n ∈ keys (setT m k v) ↔ n = k ∨ n ∈ keys m := by
  unfold setT keys
  split
  · next hany =>
    obtain ⟨e0, he0, hk⟩ := List.any_eq_true.mp hany
    have hk' : e0.1 = k := by simpa using hk
    simp only [List.map_map, List.mem_map, Function.comp]
    constructor
    · rintro ⟨e, he, rfl⟩
      split
      · exact Or.inl rfl
      · exact Or.inr ⟨e, he, rfl⟩
    · rintro (rfl | ⟨e, he, rfl⟩)
      · exact ⟨e0, he0, by simp [hk']⟩
      · by_cases hek : e.1 = k
        · exact ⟨e, he, by simp [hek]⟩
        · exact ⟨e, he, by simp [hek]⟩
  · simp only [List.map_append, List.map_cons, List.map_nil, List.mem_append, List.mem_singleton]
    constructor
    · rintro (h | h)
      · exact Or.inr h
      · exact Or.inl h
    · rintro (h | h)
      · exact Or.inr h
      · exact Or.inl h

theorem rfold_spec : ∀ (pkgs : List Pkg) (r : RArch),
    (∀ n, n ∈ (pkgs.foldl rstep r).packages ↔ n ∈ r.packages ∨ ∃ p ∈ pkgs, p.name = n) ∧
    (∀ n, n ∈ keys (pkgs.foldl rstep r).versions ↔ n ∈ keys r.versions ∨ ∃ p ∈ pkgs, p.name = n) ∧
    (∀ k, (∀ x ∈ pkgs, x.name ≠ k) → mget (pkgs.foldl rstep r).versions k = mget r.versions k) := by
  intro pkgs
  induction pkgs with
  | nil => intro r; simp
  | cons q qs ih =>
    intro r
    obtain ⟨i1, i2, i3⟩ := ih (rstep r q)
    obtain ⟨f1, f2⟩ := rstep_fields r q
    simp only [List.foldl_cons]
    refine ⟨fun n => ?_, fun n => ?_, fun k hk => ?_⟩
    · rw [i1 n, f1]
      constructor
      · rintro (h | ⟨p, hp, rfl⟩)
        · split at h
          · exact Or.inl h
          · rcases List.mem_append.mp h with h | h
            · exact Or.inl h
            · exact Or.inr ⟨q, List.mem_cons_self, (List.mem_singleton.mp h).symm⟩
        · exact Or.inr ⟨p, List.mem_cons_of_mem _ hp, rfl⟩
      · rintro (h | ⟨p, hp, rfl⟩)
        · left
          split
          · exact h
          · exact List.mem_append_left _ h
        · rcases List.mem_cons.mp hp with rfl | hp'
          · left
            split
            · next hc => exact List.contains_iff_mem.mp hc
            · exact List.mem_append_right _ (List.mem_singleton.mpr rfl)
          · exact Or.inr ⟨p, hp', rfl⟩
    · rw [i2 n, f2, mem_keys_setT]
      constructor
      · rintro ((rfl | h) | ⟨p, hp, rfl⟩)
        · exact Or.inr ⟨q, List.mem_cons_self, rfl⟩
        · exact Or.inl h
        · exact Or.inr ⟨p, List.mem_cons_of_mem _ hp, rfl⟩
      · rintro (h | ⟨p, hp, rfl⟩)
        · exact Or.inl (Or.inr h)
        · rcases List.mem_cons.mp hp with rfl | hp'
          · exact Or.inl (Or.inl rfl)
          · exact Or.inr ⟨p, hp', rfl⟩
    · rw [i3 k (fun x hx => hk x (List.mem_cons_of_mem _ hx)), f2]
      have : ¬ k = q.name := fun e => hk q List.mem_cons_self e.symm
      simp [mget, lookupT_setT, this]

/-- `LockImageConfiguration`'s `resolved` values satisfy the well-formedness the unify theorems assume -/
theorem resolvedOf_wf (arch : Text) (pkgs : List Pkg) : WF (resolvedOf arch pkgs) := by
  intro n
  rw [resolvedOf_eq]
  obtain ⟨s1, s2, _⟩ := rfold_spec pkgs ⟨arch, [], [], []⟩
  rw [s1 n, s2 n]
  simp [keys]

theorem resolvedOf_version (arch : Text) : ∀ (pkgs : List Pkg) (r : RArch),
    pkgs.Pairwise (fun a b => a.name ≠ b.name) → ∀ p ∈ pkgs, mget (pkgs.foldl rstep r).versions p.name = p.version := by
  intro pkgs
  induction pkgs with
  | nil => intro r _ p hp; cases hp
  | cons q qs ih =>
    intro r hd p hp
    obtain ⟨hq, hqs⟩ := List.pairwise_cons.mp hd
    simp only [List.foldl_cons]
    rcases List.mem_cons.mp hp with rfl | hp'
    · rw [(rfold_spec qs (rstep r p)).2.2 p.name (fun x hx e => hq x hx e.symm), (rstep_fields r p).2]
      simp [mget, lookupT_setT]
    · exact ih _ hqs p hp'

/-- the per-architecture lock of a set with distinct names is a `LockList`, provided every entry reads back as
(name, `=`, version) — true for apk package names and versions, which contain none of `@ = < > ~ !` -/
theorem lockOf_lockList (w : List Text) (S : List Pkg) (hd : S.Pairwise (fun a b => a.name ≠ b.name))
    (hentry : ∀ p ∈ S, (∀ x, p.name ++ ['='] ++ p.version ++ mget (origPinned w) p.name ≠ '!' :: x) ∧
      ∃ pin, parseConstraint (p.name ++ ['='] ++ p.version ++ mget (origPinned w) p.name) = ⟨p.name, p.version, .eq, pin⟩) :
    LockList S (lockOf w S) := by
  have hmem : ∀ e, e ∈ lockOf w S ↔ ∃ p ∈ S, e = p.name ++ ['='] ++ p.version ++ mget (origPinned w) p.name := by
    intro e
    unfold lockOf archList
    rw [mem_sortS, List.mem_map, resolvedOf_eq]
    obtain ⟨s1, _, _⟩ := rfold_spec S ⟨[], [], [], []⟩
    constructor
    · rintro ⟨n, hn, rfl⟩
      rcases (s1 n).mp hn with h | ⟨p, hp, rfl⟩
      · cases h
      · exact ⟨p, hp, by simp [entry, resolvedOf_version [] S _ hd p hp]⟩
    · rintro ⟨p, hp, rfl⟩
      exact ⟨p.name, (s1 p.name).mpr (Or.inr ⟨p, hp, rfl⟩), by simp [entry, resolvedOf_version [] S _ hd p hp]⟩
  constructor
  · intro e he
    obtain ⟨p, hp, rfl⟩ := (hmem e).mp he
    exact ⟨(hentry p hp).1, p, hp, (hentry p hp).2⟩
  · intro p hp
    exact ⟨_, (hmem _).mpr ⟨p, hp, rfl⟩, (hentry p hp).2⟩

/-- `relock_fixpoint_partial` for the lock `unify` actually emits for the architecture -/
theorem relock_fixpoint_partial_lockOf (c : Cfg) (w : List Text) (S : List Pkg) (ctx : Ctx c S)
    (hd : S.Pairwise (fun a b => a.name ≠ b.name))
    (huniq : ∀ x ∈ c.u.all, ∀ p ∈ S, x.name = p.name → versionMatches x.version p.version = true → x = p)
    (hentry : ∀ p ∈ S, (∀ x, p.name ++ ['='] ++ p.version ++ mget (origPinned w) p.name ≠ '!' :: x) ∧
      ∃ pin, parseConstraint (p.name ++ ['='] ++ p.version ++ mget (origPinned w) p.name) = ⟨p.name, p.version, .eq, pin⟩)
    (r' : Resolution) (h : resolve c (lockOf w S) [] = .ok r') : sameMembers r'.install S := by
  refine relock_fixpoint_partial c S _ ctx ?_ huniq (lockOf_lockList w S hd hentry) r' h
  intro p hp q hq hn
  by_cases hpq : p = q
  · exact hpq
  · exfalso
    have key : ∀ (l : List Pkg), l.Pairwise (fun a b => a.name ≠ b.name) → p ∈ l → q ∈ l → False := by
      intro l
      induction l with
      | nil => intro _ h1 _; cases h1
      | cons x xs ih =>
        intro hpw h1 h2
        obtain ⟨hx, hxs⟩ := List.pairwise_cons.mp hpw
        rcases List.mem_cons.mp h1 with rfl | h1'
        · rcases List.mem_cons.mp h2 with rfl | h2'
          · exact hpq rfl
          · exact hx q h2' hn
        · rcases List.mem_cons.mp h2 with rfl | h2'
          · exact hx p h1' hn.symm
          · exact ih hxs h1' h2'
    exact key S hd hp hq

/-! ### the re-resolution succeeds (lemmas in Proofs/Lemmas/RelockSucc.lean and RelockTop.lean) -/

theorem head_ne_bang_of {e : Text} (h : ¬ e.head? = some '!') : ∀ x, e ≠ '!' :: x := by
  intro x hx; rw [hx] at h; exact h rfl

/-- the success half of the full statement: the lock of every resolution re-resolves.  FALSE on the pinned tree
(`not_RelockSucceeds`; one witness per side condition of `relock_succeeds_partial` below). -/
def RelockSucceeds : Prop :=
  ∀ (c : Cfg) (w : List Text) (r : Resolution), resolve c w [] = .ok r → ∃ r', resolve c (lockOf w r.install) [] = .ok r'

theorem lockList_of_pinned {S : List Pkg} {L : List Text} (h : PinnedLock S L) : LockList S L :=
  ⟨fun e he => ⟨(h.sound e he).1, by
      obtain ⟨_, p, hp, pin, hparse, _⟩ := h.sound e he
      exact ⟨p, hp, pin, hparse⟩⟩, h.complete⟩

/-- T `relock_succeeds_partial`: in a universe without `provides` / `install_if` (the territory of
`relock_fixpoint_partial`), the re-resolution of a lock `L` of a set `S` SUCCEEDS when
* `ctx`    `S` is a closed set of universe packages (C02 `Valid`: every dependency of a member is satisfied by a member),
* `sd.names` one member per name (C02 `Valid`),  `sd.ids` package ids are distinct (model well-formedness),
* `huniq`  (name, version) of a member is unique across the repositories          — not F09d,
* `sd.pvOk` every member's version parses                                          — not F09e,
* `hL`     every member has its entry `name=version(@pin)` and the entry of a member that comes from a pinned
           repository carries that pin                                             — not F09a,
* `sd.noConf` no `!x` dependency of a member is violated by a member               — not F09f (conflict clause),
* `sd.depPv`  the version text of every dependency parses (restricts only operator runs that are no operator,
           `b==x`; needed: `depAnyJunk_witness`).
For any number of packages, versions, indexes (pinned or not), dependency shapes and any order of the lock.
Proof: `constrain` leaves every member free and disqualifies every other package of a locked name; the first loop
puts every member into `existing`; in `getPackageDependencies` no dependency of a member fails (the member that
satisfied it is selected, or is a candidate — a pinned one through `existing`), `pick` never conflicts; never out of
fuel by `C02.resolve_total`. -/
theorem relock_succeeds_partial (c : Cfg) (S : List Pkg) (L : List Text) (ctx : Ctx c S) (sd : Side c S)
    (huniq : ∀ x ∈ c.u.all, ∀ p ∈ S, x.name = p.name → versionMatches x.version p.version = true → x = p)
    (hL : PinnedLock S L) : ∃ r', resolve c L [] = .ok r' :=
  relock_ok ctx sd huniq hL

/-- T `relock_exact_partial`: under the same hypotheses the lock is a fixpoint — the re-resolution succeeds AND
returns exactly the locked set (`relock_succeeds_partial` + `relock_fixpoint_partial`). -/
theorem relock_exact_partial (c : Cfg) (S : List Pkg) (L : List Text) (ctx : Ctx c S) (sd : Side c S)
    (huniq : ∀ x ∈ c.u.all, ∀ p ∈ S, x.name = p.name → versionMatches x.version p.version = true → x = p)
    (hL : PinnedLock S L) : ∃ r', resolve c L [] = .ok r' ∧ sameMembers r'.install S := by
  obtain ⟨r', h⟩ := relock_succeeds_partial c S L ctx sd huniq hL
  exact ⟨r', h, relock_fixpoint_partial c S L ctx sd.names huniq (lockList_of_pinned hL) r' h⟩

/-! ### F09a: the full statement is false -/

def pk (id : Nat) (n v pin : String) (d : List String) : Pkg :=
  { id := id, name := n.toList, version := v.toList, origin := [], repo := ("r-" ++ pin).toList, pin := pin.toList,
    priority := 0, deps := d.map String.toList, provides := [], installIf := [] }

def app1 := pk 0 "app" "1" "" []
def app2 := pk 1 "app" "2" "edge" ["lib"]
def lib2 := pk 2 "lib" "2" "edge" []
def uF : Universe := [⟨[], "r-".toList, [app1]⟩, ⟨"edge".toList, "r-edge".toList, [app2, lib2]⟩]
def cfgF : Cfg := { u := uF, order := ownNames uF, bothBad := .eq, installIfFixed := true, addedOrder := id }
def wF : List Text := ["app@edge".toList]
def lockF : List Text := ["app=2@edge".toList, "lib=2".toList]

def installOf : Res Resolution → Option (List Pkg)
  | .ok r => some r.install
  | _ => none

set_option maxRecDepth 100000 in
/-- `packages: [app@edge]` resolves to {lib-2, app-2}, both from the `@edge` repository … -/
theorem F09a_orig : installOf (resolve cfgF wF []) = some [lib2, app2] := by decide

theorem sortS_eq_of {l l' : List Text} (hp : l'.Perm l) (hs : l'.Pairwise (fun a b => leT a b = true)) :
    sortS l = l' :=
  List.Perm.eq_of_pairwise (le := fun a b => leT a b = true) (fun a b _ _ => leT_antisymm a b)
    (sortS_pairwise l) hs ((sortS_perm l).trans hp.symm)

/-- … its lock is `[app=2@edge, lib=2]`: the dependency lost the pin (class `pinLost`) … -/
theorem F09a_lock : lockOf wF [lib2, app2] = lockF ∧ pinLost wF [lib2, app2] = true := by
  constructor
  · unfold lockOf archList
    apply sortS_eq_of
    · exact List.Perm.swap _ _ []
    · decide
  · decide

set_option maxRecDepth 100000 in
/-- … and the lock does not re-resolve (`lib=2` has no candidate outside the pinned repository) -/
theorem F09a_relock : installOf (resolve cfgF lockF []) = none := by decide

/-- F09a, assembled -/
theorem F09a_witness :
    installOf (resolve cfgF wF []) = some [lib2, app2] ∧ lockOf wF [lib2, app2] = lockF ∧
    installOf (resolve cfgF lockF []) = none := ⟨F09a_orig, F09a_lock.1, F09a_relock⟩

theorem not_RelockFixpoint : ¬ RelockFixpoint := by
  intro h
  have ho := F09a_orig
  cases hr : resolve cfgF wF [] with
  | ok r =>
    rw [hr] at ho
    simp only [installOf, Option.some.injEq] at ho
    obtain ⟨r', hr', _⟩ := h cfgF wF r hr
    rw [ho, F09a_lock.1] at hr'
    have := F09a_relock
    rw [hr'] at this
    cases this
  | err => rw [hr] at ho; cases ho
  | outOfFuel => rw [hr] at ho; cases ho

theorem not_RelockSucceeds : ¬ RelockSucceeds := by
  intro h
  have ho := F09a_orig
  cases hr : resolve cfgF wF [] with
  | ok r =>
    rw [hr] at ho
    simp only [installOf, Option.some.injEq] at ho
    obtain ⟨r', hr'⟩ := h cfgF wF r hr
    rw [ho, F09a_lock.1] at hr'
    have := F09a_relock
    rw [hr'] at this
    cases this
  | err => rw [hr] at ho; cases ho
  | outOfFuel => rw [hr] at ho; cases ho

/-! ### every side condition of `relock_succeeds_partial` is needed: one kernel-checked witness each

Each witness is a universe without provides / install_if, a world whose resolution `S` is valid, and the lock `unify`
emits for it, such that ALL hypotheses of `relock_succeeds_partial` hold except the one named — and the lock does
not re-resolve (F09d: re-resolves to another set). -/

def hypNames (S : List Pkg) : Prop := ∀ p ∈ S, ∀ q ∈ S, p.name = q.name → p = q
def hypPv (S : List Pkg) : Prop := ∀ p ∈ S, (pv p.version).isSome = true
def hypDepPv (S : List Pkg) : Prop := ∀ p ∈ S, ∀ d ∈ p.deps, isConflict d = false →
  (parseConstraint d).version = [] ∨ (pv (parseConstraint d).version).isSome = true
def hypNoConf (S : List Pkg) : Prop := ∀ p ∈ S, ∀ d ∈ p.deps, isConflict d = true → ∀ q ∈ S, sat q (d.drop 1) = false
def hypUniq (c : Cfg) (S : List Pkg) : Prop :=
  ∀ x ∈ c.u.all, ∀ p ∈ S, x.name = p.name → versionMatches x.version p.version = true → x = p
instance (S : List Pkg) : Decidable (hypNames S) := by unfold hypNames; infer_instance
instance (S : List Pkg) : Decidable (hypPv S) := by unfold hypPv; infer_instance
instance (S : List Pkg) : Decidable (hypDepPv S) := by unfold hypDepPv; infer_instance
instance (S : List Pkg) : Decidable (hypNoConf S) := by unfold hypNoConf; infer_instance
instance (c : Cfg) (S : List Pkg) : Decidable (hypUniq c S) := by unfold hypUniq; infer_instance

theorem side_of (c : Cfg) (S : List Pkg) (h1 : C02.IdsDistinct c.u) (h2 : hypNames S) (h3 : hypPv S) (h4 : hypDepPv S)
    (h5 : hypNoConf S) : Side c S := ⟨h1, h2, h3, h4, h5⟩

/-- decidable form of `LockList` (`needPin = false`) / `PinnedLock` (`needPin = true`) for concrete locks -/
def entryB (S : List Pkg) (needPin : Bool) (e : Text) : Bool :=
  e.head? != some '!' && S.any fun p =>
    decide (parseConstraint e = ⟨p.name, p.version, .eq, (parseConstraint e).pin⟩) &&
      (!needPin || p.pin.isEmpty || decide (p.pin = (parseConstraint e).pin))
def lockB (S : List Pkg) (L : List Text) (needPin : Bool) : Bool :=
  L.all (entryB S needPin) && S.all fun p => L.any fun e =>
    decide (parseConstraint e = ⟨p.name, p.version, .eq, (parseConstraint e).pin⟩)

theorem pinnedLock_of_lockB {S : List Pkg} {L : List Text} (h : lockB S L true = true) : PinnedLock S L := by
  simp only [lockB, Bool.and_eq_true, List.all_eq_true, List.any_eq_true, decide_eq_true_eq] at h
  constructor
  · intro e he
    have := h.1 e he
    simp only [entryB, Bool.and_eq_true, bne_iff_ne, ne_eq, List.any_eq_true, decide_eq_true_eq, Bool.not_true,
      Bool.false_or, Bool.or_eq_true, List.isEmpty_iff] at this
    obtain ⟨hb, p, hp, hparse, hpin⟩ := this
    exact ⟨head_ne_bang_of hb, p, hp, _, hparse, hpin⟩
  · intro p hp
    obtain ⟨e, he, hparse⟩ := h.2 p hp
    exact ⟨e, he, _, hparse⟩

theorem lockList_of_lockB {S : List Pkg} {L : List Text} (h : lockB S L false = true) : LockList S L := by
  simp only [lockB, Bool.and_eq_true, List.all_eq_true, List.any_eq_true, decide_eq_true_eq] at h
  constructor
  · intro e he
    have := h.1 e he
    simp only [entryB, Bool.and_eq_true, bne_iff_ne, ne_eq, List.any_eq_true, decide_eq_true_eq, Bool.not_false,
      Bool.true_or, and_true] at this
    obtain ⟨hb, p, hp, hparse⟩ := this
    exact ⟨head_ne_bang_of hb, p, hp, _, hparse⟩
  · intro p hp
    obtain ⟨e, he, hparse⟩ := h.2 p hp
    exact ⟨e, he, _, hparse⟩

def mkCfg (u : Universe) : Cfg := { u := u, order := ownNames u, bothBad := .eq, installIfFixed := true, addedOrder := id }

set_option maxRecDepth 100000 in
/-- pins (not F09a) are needed: for the F09a universe everything else holds, `lockF` is a `LockList` of the
resolution, but the dependency's entry lost the pin and the lock does not re-resolve -/
theorem F09a_needed :
    Ctx cfgF [lib2, app2] ∧ Side cfgF [lib2, app2] ∧ hypUniq cfgF [lib2, app2] ∧ LockList [lib2, app2] lockF ∧
    ¬ PinnedLock [lib2, app2] lockF ∧ installOf (resolve cfgF lockF []) = none := by
  refine ⟨⟨by decide, by decide, by decide, by decide⟩, side_of _ _ (by decide) (by decide) (by decide) (by decide) (by decide),
    by decide, lockList_of_lockB (by decide), ?_, F09a_relock⟩
  intro h
  obtain ⟨_, p, hp, pin, hparse, hpin⟩ := h.sound "lib=2".toList (by decide)
  simp only [List.mem_cons, List.not_mem_nil, or_false] at hp
  have hp2 : parseConstraint "lib=2".toList = ⟨"lib".toList, "2".toList, .eq, []⟩ := by decide
  rw [hp2] at hparse
  rcases hp with rfl | rfl
  · injection hparse with _ _ _ h4
    subst h4
    revert hpin; decide
  · injection hparse with h1 _ _ _
    revert h1; decide

def e9b := pk 0 "b" "abc" "" []
def cfg9e : Cfg := mkCfg [⟨[], "r-".toList, [e9b]⟩]

set_option maxRecDepth 100000 in
/-- parsable versions (not F09e) are needed: `[b]` resolves to b-abc, whose lock `b=abc` no resolver run accepts -/
theorem F09e_needed :
    installOf (resolve cfg9e ["b".toList] []) = some [e9b] ∧ lockOf ["b".toList] [e9b] = ["b=abc".toList] ∧
    Ctx cfg9e [e9b] ∧ C02.IdsDistinct cfg9e.u ∧ hypNames [e9b] ∧ ¬ hypPv [e9b] ∧ hypDepPv [e9b] ∧ hypNoConf [e9b] ∧
    hypUniq cfg9e [e9b] ∧ PinnedLock [e9b] ["b=abc".toList] ∧
    installOf (resolve cfg9e ["b=abc".toList] []) = none := by
  refine ⟨by decide, ?_, ⟨by decide, by decide, by decide, by decide⟩, by decide, by decide, by decide, by decide,
    by decide, by decide, pinnedLock_of_lockB (by decide), by decide⟩
  unfold lockOf archList
  apply sortS_eq_of
  · exact List.Perm.refl _
  · decide

def d9a : Pkg := { pk 0 "a" "1" "" ["b"] with origin := "o".toList }
def d9b1 : Pkg := { pk 1 "b" "1" "" [] with origin := "x".toList }
def d9b2 : Pkg := { pk 2 "b" "1" "" [] with origin := "o".toList, repo := "r2".toList }
def cfg9d : Cfg := mkCfg [⟨[], "r-".toList, [d9a, d9b1]⟩, ⟨[], "r2".toList, [d9b2]⟩]

set_option maxRecDepth 100000 in
/-- unique (name, version) (not F09d) is needed — for the fixpoint, not for success: b-1 exists in two repositories;
`[a]` takes the copy of a's origin, the lock `[a=1, b=1]` re-resolves to the other copy -/
theorem F09d_needed :
    installOf (resolve cfg9d ["a".toList] []) = some [d9b2, d9a] ∧
    lockOf ["a".toList] [d9b2, d9a] = ["a=1".toList, "b=1".toList] ∧
    Ctx cfg9d [d9b2, d9a] ∧ Side cfg9d [d9b2, d9a] ∧ ¬ hypUniq cfg9d [d9b2, d9a] ∧
    PinnedLock [d9b2, d9a] ["a=1".toList, "b=1".toList] ∧
    installOf (resolve cfg9d ["a=1".toList, "b=1".toList] []) = some [d9b1, d9a] := by
  refine ⟨by decide, ?_, ⟨by decide, by decide, by decide, by decide⟩,
    side_of _ _ (by decide) (by decide) (by decide) (by decide) (by decide), by decide,
    pinnedLock_of_lockB (by decide), by decide⟩
  unfold lockOf archList
  apply sortS_eq_of
  · exact List.Perm.swap _ _ []
  · decide

def c9a := pk 0 "a" "1" "" ["!b"]
def c9b := pk 1 "b" "1" "" []
def cfg9c : Cfg := mkCfg [⟨[], "r-".toList, [c9a, c9b]⟩]

set_option maxRecDepth 100000 in
/-- no violated conflict (not F09f) is needed: `[b, a]` resolves to {b, a} although a says `!b` (the resolver applies
a conflict only to later picks; C02's `Valid` does not look at conflicts); in the lock's order the conflict strikes -/
theorem F09f_conflict_needed :
    installOf (resolve cfg9c ["b".toList, "a".toList] []) = some [c9b, c9a] ∧
    lockOf ["b".toList, "a".toList] [c9b, c9a] = ["a=1".toList, "b=1".toList] ∧
    Ctx cfg9c [c9b, c9a] ∧ C02.IdsDistinct cfg9c.u ∧ hypNames [c9b, c9a] ∧ hypPv [c9b, c9a] ∧ hypDepPv [c9b, c9a] ∧
    ¬ hypNoConf [c9b, c9a] ∧ hypUniq cfg9c [c9b, c9a] ∧ PinnedLock [c9b, c9a] ["a=1".toList, "b=1".toList] ∧
    installOf (resolve cfg9c ["a=1".toList, "b=1".toList] []) = none := by
  refine ⟨by decide, ?_, ⟨by decide, by decide, by decide, by decide⟩, by decide, by decide, by decide, by decide,
    by decide, by decide, pinnedLock_of_lockB (by decide), by decide⟩
  unfold lockOf archList
  apply sortS_eq_of
  · exact List.Perm.swap _ _ []
  · decide

def j9z := pk 0 "z" "1" "" ["b==junk"]
def j9b := pk 1 "b" "1" "" ["c"]
def j9c := pk 2 "c" "1" "" []
def cfg9j : Cfg := mkCfg [⟨[], "r-".toList, [j9z, j9b, j9c]⟩]
def lock9j : List Text := ["b=1".toList, "c=1".toList, "z=1".toList]

set_option maxRecDepth 100000 in
/-- parsable dependency versions are needed; none of the classes F09a–F09h applies — this is class F09l, found by the
completeness proof `relock_unlisted_exact_partial` and replayed on the real code (findings/F09l.json):
`==` is no operator, so `b==junk` reads as "b, any version" with the version text `junk` kept.  `[z]` resolves to the
valid set {c, b, z}: when z's dependency is examined b is not selected yet and the candidate filter ignores the text.
In the lock's order b is visited first and selected (it has a dependency of its own); z's dependency then takes the
`selected` shortcut of `getPackageDependencies`, which parses the version text — error. -/
theorem depAnyJunk_witness :
    installOf (resolve cfg9j ["z".toList] []) = some [j9c, j9b, j9z] ∧ validB cfg9j.u ["z".toList] [j9c, j9b, j9z] = true ∧
    relockClass cfg9j.u ["z".toList] [j9c, j9b, j9z] = "F09l" ∧
    Ctx cfg9j [j9c, j9b, j9z] ∧ C02.IdsDistinct cfg9j.u ∧ hypNames [j9c, j9b, j9z] ∧ hypPv [j9c, j9b, j9z] ∧
    ¬ hypDepPv [j9c, j9b, j9z] ∧ hypNoConf [j9c, j9b, j9z] ∧ hypUniq cfg9j [j9c, j9b, j9z] ∧
    PinnedLock [j9c, j9b, j9z] lock9j ∧ installOf (resolve cfg9j lock9j []) = none := by
  refine ⟨by decide, by decide, by decide, ⟨by decide, by decide, by decide, by decide⟩, by decide, by decide, by decide,
    by decide, by decide, by decide, pinnedLock_of_lockB (by decide), by decide⟩

/-! ### completeness of the driver's finding classes on the proved territory

`relockClass` (Model/Lock.lean) is what the driver answers for a failing round trip; `unlisted` makes the check
report a VIOLATION.  On the model, in universes without provides, a round trip whose class is `unlisted` cannot fail.
(Proving this is what turned up class F09l, `depAnyJunk_witness`: the classes F09a–F09h were not complete.) -/

/-- every lock entry reads back as (name, `=`, version, the pin `lockEntryPin` computes) — a fact about characters:
apk names and versions contain none of `@ = < > ~` and do not start with `!` -/
def EntriesReadBack (w : List Text) (S : List Pkg) : Prop :=
  ∀ p ∈ S, (∀ x, p.name ++ ['='] ++ p.version ++ mget (origPinned w) p.name ≠ '!' :: x) ∧
    parseConstraint (p.name ++ ['='] ++ p.version ++ mget (origPinned w) p.name) =
      ⟨p.name, p.version, .eq, lockEntryPin w p.name⟩

theorem mem_lockOf (w : List Text) (S : List Pkg) (hd : S.Pairwise (fun a b => a.name ≠ b.name)) (e : Text) :
    e ∈ lockOf w S ↔ ∃ p ∈ S, e = p.name ++ ['='] ++ p.version ++ mget (origPinned w) p.name := by
  unfold lockOf archList
  rw [mem_sortS, List.mem_map, resolvedOf_eq]
  obtain ⟨s1, _, _⟩ := rfold_spec S ⟨[], [], [], []⟩
  constructor
  · rintro ⟨n, hn, rfl⟩
    rcases (s1 n).mp hn with h | ⟨p, hp, rfl⟩
    · cases h
    · exact ⟨p, hp, by simp [entry, resolvedOf_version [] S _ hd p hp]⟩
  · rintro ⟨p, hp, rfl⟩
    exact ⟨p.name, (s1 p.name).mpr (Or.inr ⟨p, hp, rfl⟩), by simp [entry, resolvedOf_version [] S _ hd p hp]⟩

theorem names_of_pairwise {S : List Pkg} (hd : S.Pairwise (fun a b => a.name ≠ b.name)) : hypNames S := by
  intro p hp q hq hn
  induction S with
  | nil => cases hp
  | cons x xs ih =>
    obtain ⟨hx, hxs⟩ := List.pairwise_cons.mp hd
    rcases List.mem_cons.mp hp with rfl | h1
    · rcases List.mem_cons.mp hq with rfl | h2
      · rfl
      · exact absurd hn (hx q h2)
    · rcases List.mem_cons.mp hq with rfl | h2
      · exact absurd hn.symm (hx p h1)
      · exact ih hxs h1 h2

/-- the statement aimed at, for ALL universes (provides and virtual names included): the driver's classifier is
complete — a resolution whose class is `unlisted` round-trips exactly.  (`horder`: the provider order of `nameMap`
knows every package, as Go's map does and as the driver's `ownNames` does; `EntriesReadBack`: a fact about characters.)
PROVED: `relock_classes_complete` in Lemmas/RelockProvides.lean — after the proof attempts had found four holes in the
class list, F09l, F09m, F09n and F09o, each replayed on the real code and now listed.  Below: the part without
provides (`relock_unlisted_exact_partial`), which does not need `horder`. -/
def RelockClassesComplete : Prop :=
  ∀ (c : Cfg) (w : List Text) (dq0 : List Nat) (r : Resolution), resolve c w dq0 = .ok r → C02.IdsDistinct c.u →
    (∀ p ∈ c.u.all, p.name ∈ c.order) →
    EntriesReadBack w r.install → relockClass c.u w r.install = "unlisted" →
    ∃ r', resolve c (lockOf w r.install) [] = .ok r' ∧ sameMembers r'.install r.install

/-- T `relock_unlisted_exact_partial` (completeness of F09a–F09h on the no-provides territory): for every successful
resolution `r` of any world in a universe without provides whose ids are distinct, if the driver's classifier says
`unlisted` — no pin lost, valid original without violated conflict, parsable versions, no install_if, unique
(name, version), no `any`-operator dependency with unparsable version text (F09l) — then the lock `unify` emits for it re-resolves, to exactly
`r.install`.  So on this territory a failing round trip outside the listed classes is impossible on the model; with
Go = Impl (the correspondence) any such failure of the real code is reported as a violation. -/
theorem relock_unlisted_exact_partial (c : Cfg) (w : List Text) (dq0 : List Nat) (r : Resolution)
    (hres : resolve c w dq0 = .ok r) (hnoprov : ∀ q ∈ c.u.all, q.provides = []) (hids : C02.IdsDistinct c.u)
    (hread : EntriesReadBack w r.install)
    (hcls : relockClass c.u w r.install = "unlisted") :
    ∃ r', resolve c (lockOf w r.install) [] = .ok r' ∧ sameMembers r'.install r.install := by
  unfold relockClass at hcls
  split at hcls; · exact absurd hcls (by decide)
  next hpin =>
  split at hcls; · exact absurd hcls (by decide)
  next hinv =>
  split at hcls; · exact absurd hcls (by decide)
  next hpv =>
  split at hcls; · exact absurd hcls (by decide)
  split at hcls; · exact absurd hcls (by decide)
  split at hcls; · exact absurd hcls (by decide)
  next hiif =>
  split at hcls; · exact absurd hcls (by decide)
  next hdup =>
  split at hcls; · exact absurd hcls (by decide)
  next hjunk =>
  split at hcls; · exact absurd hcls (by decide)
  split at hcls; · exact absurd hcls (by decide)
  split at hcls; · exact absurd hcls (by decide)
  -- unpack the classifier
  simp only [invalidOriginal, Bool.or_eq_true, Bool.not_eq_true', not_or, Bool.not_eq_true] at hinv
  obtain ⟨hvalid, hconf⟩ := hinv
  have hvalid2 : validB c.u w r.install = true := by
    cases hv : validB c.u w r.install with
    | true => rfl
    | false => rw [hv] at hvalid; exact absurd rfl hvalid
  obtain ⟨_, hclosed, hpw, _⟩ := (C02.validB_iff c.u w r.install).mp hvalid2
  have hsub := C02.resolve_subset c w dq0 r hres
  have ctx : Ctx c r.install := by
    refine ⟨hnoprov, ?_, hsub, hclosed⟩
    intro q hq
    simp only [hasInstallIf, List.any_eq_true, not_exists, not_and, Bool.not_eq_true', Bool.not_eq_false,
      List.isEmpty_iff] at hiif
    exact hiif q hq
  have hnames := names_of_pairwise hpw
  have hdep : hypDepPv r.install := by
    intro p hp d hd hnc
    by_cases hve : (parseConstraint d).version = []
    · exact Or.inl hve
    · right
      by_cases hany : (parseConstraint d).dep = .any
      · cases hpv2 : pv (parseConstraint d).version with
        | some v => rfl
        | none =>
          exfalso
          apply hjunk
          unfold anyOpJunkVersion
          rw [List.any_eq_true]; refine ⟨p, hp, ?_⟩
          rw [List.any_eq_true]; refine ⟨d, hd, ?_⟩
          simp [hnc, hany, hpv2, hve]
      · obtain ⟨q, _, _, hv⟩ := closed_member ctx hp hd hnc
        rcases hv with hv | ⟨req, _, hreq, _, _⟩
        · exact absurd hv hany
        · rw [hreq]; rfl
  have sd : Side c r.install := by
    refine ⟨hids, hnames, ?_, hdep, ?_⟩
    · intro p hp
      simp only [unparsableVersion, List.any_eq_true, not_exists, not_and, Bool.not_eq_true] at hpv
      have := hpv p hp
      cases h : pv p.version with
      | none => rw [h] at this; cases this
      | some v => rfl
    · intro p hp d hd hc q hq
      unfold isConflict at hc
      split at hc
      · next x =>
        simp only [conflictViolated, Bool.or_eq_false_iff, List.any_eq_false] at hconf
        have h1 := hconf.2 p hp
        simp only [Bool.not_eq_true, List.any_eq_false] at h1
        have h2 := h1 _ hd
        simp only [Bool.not_eq_true, List.any_eq_false] at h2
        have h3 := h2 q hq
        simpa using h3
      · cases hc
  have huniq : hypUniq c r.install := by
    intro x hx p hp hn hvm
    simp only [dupNameVersion, List.any_eq_true, not_exists, not_and, Bool.and_eq_true, bne_iff_ne, ne_eq,
      decide_eq_true_eq, Bool.or_eq_true] at hdup
    have hidq : x.id = p.id := by
      apply Classical.byContradiction
      intro hne
      have hd := hdup p hp x hx
      unfold versionMatches at hvm
      split at hvm
      · next a b ha hb =>
        simp only [ha, hb] at hd
        exact hd ⟨hne, hn⟩ (Or.inr (by simpa [Dep.satisfies] using hvm))
      · cases hvm
    exact C02.eq_of_id_eq hids hx (hsub p hp) hidq
  have hL : PinnedLock r.install (lockOf w r.install) := by
    constructor
    · intro e he
      obtain ⟨p, hp, rfl⟩ := (mem_lockOf w r.install hpw e).mp he
      refine ⟨(hread p hp).1, p, hp, _, (hread p hp).2, ?_⟩
      simp only [pinLost, List.any_eq_true, not_exists, not_and, Bool.and_eq_true, Bool.not_eq_true', bne_iff_ne,
        ne_eq, Decidable.not_not] at hpin
      by_cases hpe : p.pin = []
      · exact Or.inl hpe
      · right
        have h1 : p.pin.isEmpty = false := by simpa using hpe
        exact (hpin p hp h1 p hp).symm
    · intro p hp
      exact ⟨_, (mem_lockOf w r.install hpw _).mpr ⟨p, hp, rfl⟩, _, (hread p hp).2⟩
  exact relock_exact_partial c r.install _ ctx sd huniq hL

/-! ### the hypotheses of `relock_fixpoint_partial` are satisfiable by a non-trivial value -/

def eA := pk 0 "a" "1.0-r0" "" ["b>=1.5", "c"]
def eB1 := pk 1 "b" "1.0-r0" "" []
def eB2 := pk 2 "b" "2.0-r0" "" ["c"]
def eC := pk 3 "c" "3-r1" "" []
def uE : Universe := [⟨[], "r-".toList, [eA, eB1, eB2]⟩, ⟨[], "r-".toList, [eC]⟩]
def cfgE : Cfg := { u := uE, order := ownNames uE, bothBad := .eq, installIfFixed := true, addedOrder := id }
def lockE : List Text := ["a=1.0-r0".toList, "b=2.0-r0".toList, "c=3-r1".toList]

def SE : List Pkg := [eC, eB2, eA]

theorem head_ne_bang {e : Text} (h : e.head? ≠ some '!') : ∀ x, e ≠ '!' :: x := by
  intro x hx; rw [hx] at h; exact h rfl

set_option maxRecDepth 100000 in
/-- non-vacuity: `[a]` resolves to `SE` (a version choice `b>=1.5`, a shared dependency, two indexes); all
hypotheses of `relock_fixpoint_partial` hold for `SE` and its lock, and the lock does re-resolve to `SE` -/
example : installOf (resolve cfgE ["a".toList] []) = some SE ∧
    Ctx cfgE SE ∧ (∀ p ∈ SE, ∀ q ∈ SE, p.name = q.name → p = q) ∧
    (∀ x ∈ cfgE.u.all, ∀ p ∈ SE, x.name = p.name → versionMatches x.version p.version = true → x = p) ∧
    LockList SE lockE ∧ installOf (resolve cfgE lockE []) = some SE := by
  refine ⟨by decide, ⟨by decide, by decide, by decide, by decide⟩, by decide, by decide, ⟨?_, ?_⟩, by decide⟩
  · intro e he
    simp only [lockE, List.mem_cons, List.not_mem_nil, or_false] at he
    rcases he with rfl | rfl | rfl
    · exact ⟨head_ne_bang (by decide), eA, by decide, [], by decide⟩
    · exact ⟨head_ne_bang (by decide), eB2, by decide, [], by decide⟩
    · exact ⟨head_ne_bang (by decide), eC, by decide, [], by decide⟩
  · intro p hp
    simp only [SE, List.mem_cons, List.not_mem_nil, or_false] at hp
    rcases hp with rfl | rfl | rfl
    · exact ⟨"c=3-r1".toList, by decide, [], by decide⟩
    · exact ⟨"b=2.0-r0".toList, by decide, [], by decide⟩
    · exact ⟨"a=1.0-r0".toList, by decide, [], by decide⟩

set_option maxRecDepth 100000 in
/-- non-vacuity of `relock_succeeds_partial` / `relock_exact_partial`: two indexes, one of them pinned; the lock of
`[app@edge, lib@edge]` carries both pins; all hypotheses hold and the lock re-resolves to the same set; the same for the
unpinned `SE` above (version choice `b>=1.5`, shared dependency) -/
example : Ctx cfgF [lib2, app2] ∧ Side cfgF [lib2, app2] ∧ hypUniq cfgF [lib2, app2] ∧
    PinnedLock [lib2, app2] ["app=2@edge".toList, "lib=2@edge".toList] ∧
    installOf (resolve cfgF ["app=2@edge".toList, "lib=2@edge".toList] []) = some [lib2, app2] ∧
    Side cfgE SE ∧ PinnedLock SE lockE := by
  refine ⟨⟨by decide, by decide, by decide, by decide⟩, side_of _ _ (by decide) (by decide) (by decide) (by decide) (by decide),
    by decide, pinnedLock_of_lockB (by decide), by decide,
    side_of _ _ (by decide) (by decide) (by decide) (by decide) (by decide), pinnedLock_of_lockB (by decide)⟩

set_option maxRecDepth 100000 in
/-- non-vacuity of `relock_unlisted_exact_partial`: its hypotheses hold for the resolution `SE` of `[a]` in `cfgE` -/
example : installOf (resolve cfgE ["a".toList] []) = some SE ∧ (∀ q ∈ cfgE.u.all, q.provides = []) ∧
    C02.IdsDistinct cfgE.u ∧ EntriesReadBack ["a".toList] SE ∧
    relockClass cfgE.u ["a".toList] SE = "unlisted" := by
  refine ⟨by decide, by decide, by decide, ?_, by decide⟩
  intro p hp
  simp only [SE, List.mem_cons, List.not_mem_nil, or_false] at hp
  rcases hp with rfl | rfl | rfl <;> exact ⟨head_ne_bang_of (by decide), by decide⟩

end Apko.C09
