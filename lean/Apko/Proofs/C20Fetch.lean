/-
C20, end to end — a download that apko uses is the complete, correct file, or the operation reports an
error, for every fault script.

`Proofs/C20.lean` proves the range-retry reader correct for all fault scripts and consumer operation
sequences.  This file carries those theorems to what the callers hand on (model: `Model/Fetch.lean`):

* the consumers (`io.ReadAll`, `io.Copy`, the gzip / tar readers) as loops "Read until io.EOF or an error"
  over the retry reader, buffer sizes arbitrary (`drain`, any `sz`): they terminate (`readAll_terminates`),
  what they gathered is always a prefix of the file (`readAll_prefix`) and — under the per-connection evidence
  assumption of `C20.eof_complete_current`, restated, not strengthened: the connection that answered the most
  recent request has no clean early end the reader cannot see — a nil result is the whole file
  (`readAll_ok_complete`);
* `fetchRepositoryIndex` / `FetchPackage` on the retry transport (`fetchIndex_ok_complete`,
  `fetchPackage_ok_complete`, their `_evident` forms under `C20.EarlyEndsEvident` and `_signalled` forms under
  the round-1 script-level assumption, `fetch_needs_assumption` for necessity), several packages over one
  network (`fetchPackages_ok_complete`), and a bound on the requests of one operation
  (`requests_per_download_bounded`: at most 2·len + 3; the cache path sends at most one HEAD and one GET:
  `cache_requests_bounded`);
* the cache transport for ETag-addressed files, where the network body is copied to a temp file by `io.Copy`
  WITHOUT the retry transport and advertised afterwards: whatever is advertised is a complete body the
  server answered with under that very ETag (`cache_store_complete`, exact form; `cache_store_prefix`
  unconditionally a prefix; `cache_store_needs_assumption`), an operation that reports an error advertises
  nothing (`fetch_error_no_advertise`), what `fetchAndCache` / `fetchOffline` serve is such a body
  (`cache_served_complete`, `offline_ok_complete`), and the invariant holds along every history of repository
  updates, new processes and online / offline / cache-less operations with their own fault scripts
  (`history_sound`);
* the key fetch of `InitKeyring` (one request, no retry transport): `key_ok_complete_partial` — the window
  `200 ≤ status ≤ 299` is wider than the honest-server assumption covers (only 200 is known to carry the
  file); the full statement is refuted by `not_key_ok_complete` (a 203 answer with another body is accepted).

The statement lists of the callers (status test, copy, close, advertise order) and "every assignment to
err is followed by a check" are regenerated from /repo and tied below.
-/
import Apko.Proofs.C20
import Apko.Proofs.Lemmas.FetchCache
import Apko.Generated.CacheGlue

namespace Apko.C20Fetch
open Apko Apko.Retry Apko.Fetch

/-! ## ties to the regenerated facts -/

theorem tie_statuses : Generated.fetch_headStatus = httpOK ∧ Generated.fetch_getStatus = httpOK ∧
    Generated.fetch_keyLo = 200 ∧ Generated.fetch_keyHi = 299 ∧
    Generated.fetch_keyStatusCond = "resp.StatusCode < 200 || resp.StatusCode > 299" ∧
    Generated.callerStatus_fetchRepositoryIndex = httpOK ∧ Generated.callerStatus_FetchPackage = httpOK := by
  decide

/-- every assignment to `err` in the modelled callers is directly followed by `if err != nil { … return }`:
no error of a request, a copy or a file operation is dropped on the way up -/
theorem tie_errChecked : (Generated.fetch_errChecked_fetchRepositoryIndex &&
    Generated.fetch_errChecked_cacheRoundTrip && Generated.fetch_errChecked_head &&
    Generated.fetch_errChecked_get && Generated.fetch_errChecked_fetchAndCache &&
    Generated.fetch_errChecked_fetchOffline && Generated.fetch_errChecked_retrieveAndSaveFile &&
    Generated.fetch_errChecked_FetchPackageHTTP && Generated.fetch_errChecked_keyHTTP) = true := by decide

/-- the copy closure of `retrieveAndSaveFile` returns the error of `io.Copy`, no deferred function assigns to
a result, and `fetchOffline` drops temp files (the same facts C19 ties: `retrieve` leaves a failed copy
unadvertised, `fetchOffline` never serves it) -/
theorem tie_copy_closure : Generated.cacheglue_copyClosureResults = "(error)" ∧
    Generated.cacheglue_copyClosureDefers = ["tmp.Close()", "resp.Body.Close()"] ∧
    Generated.cacheglue_copyDeferAssignsResult = [] ∧
    Generated.cacheglue_copyErrReturn =
      "_, err := io.Copy(tmp, resp.Body); err != nil => return fmt.Errorf(\"unable to write to cache file: %w\", err)" ∧
    Generated.cacheglue_copyClosureCall = "err := <closure>(); err != nil => return \"\", err" ∧
    Generated.cacheglue_offlineDrops = ["des: return strings.HasSuffix(de.Name(), \".tmp\")"] :=
  ⟨rfl, rfl, rfl, rfl, rfl, rfl⟩

def expected_fetchRepositoryIndex : List String := ["client := opts.httpClient",
  "req, err := http.NewRequestWithContext(ctx, http.MethodGet, u, nil)",
  "if err != nil { return }",
  "if etag != \"\" { … }",
  "if opts.auth == nil { … }",
  "if err := opts.auth.AddAuth(ctx, req); err != nil { return }",
  "rrt := newRangeRetryTransport(ctx, client)",
  "res, err := rrt.RoundTrip(req)",
  "if err != nil { return }",
  "if res.StatusCode != http.StatusOK { return }",
  "defer res.Body.Close()",
  "b, err := io.ReadAll(res.Body)",
  "if err != nil { return }",
  "return b, nil"]
theorem tie_stmts_fetchRepositoryIndex : Generated.fetch_stmts_fetchRepositoryIndex = expected_fetchRepositoryIndex := rfl

def expected_cacheRoundTrip : List String := ["ctx, span := otel.Tracer(\"go-apk\").Start(request.Context(), \"cacheTransport.RoundTrip\")",
  "defer span.End()",
  "cacheFile, err := cachePathFromURL(t.root, *request.URL)",
  "if err != nil { return }",
  "if !t.etagRequired { return }",
  "if t.offline { return }",
  "return t.fetchAndCache(ctx, request, cacheFile)"]
theorem tie_stmts_cacheRoundTrip : Generated.fetch_stmts_cacheRoundTrip = expected_cacheRoundTrip := rfl

def expected_head : List String := ["resp, ok := t.cache.load(cacheFile)",
  "if ok { return }",
  "v, err, _ := t.cache.headFlight.Do(cacheFile, func() (interface{}, error) { req := request.Clone(request.Context()) req.Method = http.MethodHead resp, err := t.wrapped.Do(req) if err != nil { return nil, err } defer resp.Body.Close() t.cache.store(cacheFile, resp) return resp, nil })",
  "if err != nil { return }",
  "return v.(*http.Response), nil"]
theorem tie_stmts_head : Generated.fetch_stmts_head = expected_head := rfl

def expected_get : List String := ["v, err, _ := t.cache.getFlight.Do(cacheFile, func() (interface{}, error) { etagFile, err := cacheFileFromEtag(cacheFile, initialEtag) if err != nil { return \"\", err } if _, err := os.Stat(etagFile); err == nil { return etagFile, nil } return t.retrieveAndSaveFile(ctx, request, func(r *http.Response) (string, error) { _, span := otel.Tracer(\"go-apk\").Start(ctx, \"callback\") defer span.End() finalEtag, ok := etagFromResponse(r) if !ok { return \"\", fmt.Errorf(\"GET response did not contain an etag, but HEAD returned %q\", initialEtag) } return cacheFileFromEtag(cacheFile, finalEtag) }) })",
  "if err != nil { return }",
  "return v.(string), nil"]
theorem tie_stmts_get : Generated.fetch_stmts_get = expected_get := rfl

def expected_fetchAndCache : List String := ["initialEtag := request.Header.Get(\"I-Cant-Believe-Its-Not-If-None-Match\")",
  "if initialEtag == \"\" { … }",
  "request.Header.Del(\"I-Cant-Believe-Its-Not-If-None-Match\")",
  "etagFile, err := t.get(ctx, request, cacheFile, initialEtag)",
  "if err != nil { return }",
  "f, err := os.Open(etagFile)",
  "if err != nil { return }",
  "fi, err := f.Stat()",
  "if err != nil { return }",
  "return &http.Response{ StatusCode: http.StatusOK, Body: f, ContentLength: fi.Size(), }, nil"]
theorem tie_stmts_fetchAndCache : Generated.fetch_stmts_fetchAndCache = expected_fetchAndCache := rfl

def expected_fetchOffline : List String := ["cacheDir := cacheDirFromFile(cacheFile)",
  "des, err := os.ReadDir(cacheDir)",
  "if err != nil { return }",
  "des = slices.DeleteFunc(des, func(de os.DirEntry) bool { return strings.HasSuffix(de.Name(), \".tmp\") })",
  "if len(des) == 0 { return }",
  "newest, err := des[0].Info()",
  "if err != nil { return }",
  "for _, de := range des[1:] { fi, err := de.Info() if err != nil { return nil, err } if fi.ModTime().After(newest.ModTime()) { newest = fi } }",
  "f, err := os.Open(filepath.Join(cacheDir, newest.Name()))",
  "if err != nil { return }",
  "return &http.Response{ StatusCode: http.StatusOK, Body: f, ContentLength: newest.Size(), }, nil"]
theorem tie_stmts_fetchOffline : Generated.fetch_stmts_fetchOffline = expected_fetchOffline := rfl

def expected_retrieveAndSaveFile : List String := ["_, span := otel.Tracer(\"go-apk\").Start(ctx, \"cacheTransport.retrieveAndSaveFile\")",
  "defer span.End()",
  "if t.wrapped == nil { return }",
  "resp, err := t.wrapped.Do(request)",
  "if err != nil { return } else if resp.StatusCode != 200 { return }",
  "cacheFile, err := cp(resp)",
  "if err != nil { return }",
  "cacheDir := filepath.Dir(cacheFile)",
  "if err := os.MkdirAll(cacheDir, 0755); err != nil { return }",
  "tmp, err := os.CreateTemp(cacheDir, \"*.tmp\")",
  "if err != nil { return }",
  "_ = tmp.Chmod(os.FileMode(0664))",
  "verifhook.Point(\"index.tmp \" + tmp.Name())",
  "if err := func() error { defer tmp.Close() defer resp.Body.Close() if _, err := io.Copy(tmp, resp.Body); err != nil { return fmt.Errorf(\"unable to write to cache file: %w\", err) } return nil }(); err != nil { return }",
  "verifhook.Point(\"index.body \" + tmp.Name())",
  "if err := paths.AdvertiseCachedFile(tmp.Name(), cacheFile); err != nil { return }",
  "verifhook.Point(\"index.adv \" + cacheFile)",
  "return cacheFile, nil"]
theorem tie_stmts_retrieveAndSaveFile : Generated.fetch_stmts_retrieveAndSaveFile = expected_retrieveAndSaveFile := rfl

def expected_AdvertiseCachedFile : List String := ["rel, err := filepath.Rel(filepath.Dir(dst), src)",
  "if err != nil { … }",
  "if _, err := os.Stat(dst); err == nil { return }",
  "if err := os.Symlink(rel, dst); err != nil { return }",
  "return nil"]
theorem tie_stmts_AdvertiseCachedFile : Generated.fetch_stmts_AdvertiseCachedFile = expected_AdvertiseCachedFile := rfl

def expected_fetchAndCacheHead : List String := ["resp, err := t.head(request, cacheFile)",
  "if err != nil { return nil, err }",
  "if request.Method == http.MethodHead { return resp, err }",
  "etag, ok := etagFromResponse(resp)",
  "if !ok { return t.wrapped.Do(request) }",
  "initialEtag = etag"]
theorem tie_stmts_fetchAndCacheHead : Generated.fetch_stmts_fetchAndCacheHead = expected_fetchAndCacheHead := rfl

def expected_cacheRoundTripPlain : List String := ["f, err := os.Open(cacheFile)",
  "if err != nil { if t.offline { return nil, fmt.Errorf(\"failed to read %q in offline cache: %w\", cacheFile, err) } _, span := otel.Tracer(\"go-apk\").Start(ctx, fmt.Sprintf(\"Request(%q)\", request.URL.String())) defer span.End() return t.wrapped.Do(request) }",
  "return &http.Response{ StatusCode: http.StatusOK, Body: f, }, nil"]
theorem tie_stmts_cacheRoundTripPlain : Generated.fetch_stmts_cacheRoundTripPlain = expected_cacheRoundTripPlain := rfl

def expected_FetchPackageHTTP : List String := ["client := a.client",
  "if a.cache != nil { … }",
  "req, err := http.NewRequestWithContext(ctx, http.MethodGet, u, nil)",
  "if err != nil { return }",
  "if err := a.auth.AddAuth(ctx, req); err != nil { return }",
  "rrt := newRangeRetryTransport(ctx, client)",
  "res, err := rrt.RoundTrip(req)",
  "if err != nil { return }",
  "if res.StatusCode != http.StatusOK { return }",
  "return res.Body, nil"]
theorem tie_stmts_FetchPackageHTTP : Generated.fetch_stmts_FetchPackageHTTP = expected_FetchPackageHTTP := rfl

def expected_keyHTTP : List String := ["client := a.client",
  "if a.cache != nil { … }",
  "req, err := http.NewRequestWithContext(ctx, http.MethodGet, asURL.String(), nil)",
  "if err != nil { return }",
  "if err := a.auth.AddAuth(ctx, req); err != nil { return }",
  "resp, err := client.Do(req)",
  "if err != nil { return }",
  "defer resp.Body.Close()",
  "if resp.StatusCode < 200 || resp.StatusCode > 299 { return }",
  "data, err = io.ReadAll(resp.Body)",
  "if err != nil { return }"]
theorem tie_stmts_keyHTTP : Generated.fetch_stmts_keyHTTP = expected_keyHTTP := rfl

def expected_indexRemote : List String := ["asURL, err := url.Parse(u)",
  "if err != nil { return }",
  "client := opts.httpClient",
  "head, err := http.NewRequestWithContext(ctx, http.MethodHead, u, nil)",
  "if err != nil { return }",
  "if opts.auth == nil { … }",
  "if err := opts.auth.AddAuth(ctx, head); err != nil { return }",
  "resp, err := client.Do(head)",
  "if err != nil { return }",
  "if resp.StatusCode != http.StatusOK { return }",
  "fetchAndParse := func(etag string) (NamedIndex, error) { b, err := fetchRepositoryIndex(ctx, u, etag, opts) if err != nil { return nil, fmt.Errorf(\"fetching %s: %w\", asURL.Redacted(), err) } idx, err := parseRepositoryIndex(ctx, u, keys, arch, b, opts) if err != nil { return nil, fmt.Errorf(\"parsing %s: %w\", asURL.Redacted(), err) } return NewNamedRepositoryWithIndex(repoName, repoRef.WithIndex(idx)), nil }",
  "etag, ok := etagFromResponse(resp)",
  "if !ok { return }",
  "key := fmt.Sprintf(\"%s@%s#%s\", u, etag, mode)",
  "once, _ := i.onces.LoadOrStore(key, &sync.Once{})",
  "once.(*sync.Once).Do(…)",
  "return i.load(key)"]
theorem tie_stmts_indexRemote : Generated.fetch_stmts_indexRemote = expected_indexRemote := rfl

/-! ## the consumers of the retry reader -/

theorem callers_good : Callers.generated.indexStatus = httpOK ∧ Callers.generated.pkgStatus = httpOK ∧
    Callers.generated.headStatus = httpOK ∧ Callers.generated.getStatus = httpOK ∧
    Callers.generated.keyLo = 200 ∧ Callers.generated.keyHi = 299 := by decide

/-- the reader as `RoundTrip` hands it over -/
abbrev opened (data : Text) (k : Kind) (script : List Conn) : Reader :=
  (Impl.roundTrip Cfg.generated data k script).1

/-- `io.ReadAll` / `io.Copy` / a gzip reader on the body of a download: any loop that reads until `io.EOF` or
an error, with buffers of any sizes -/
abbrev readAll (data : Text) (k : Kind) (script : List Conn) (sz : Reader → Nat) : Reader × Got :=
  drain Cfg.generated data k sz (data.length + 1) (opened data k script) []

/-- the loop ends: every `Read` that returns nil hands out at least one byte, and never more than the file
has — the fuel of the model is never used up, for any fault script and any buffer sizes -/
theorem readAll_terminates (data : Text) (k : Kind) (script : List Conn) (sz : Reader → Nat) (bs : Text) :
    (readAll data k script sz).2 ≠ .fuel bs := by
  obtain ⟨hinv, hp0, w0, hat0⟩ := roundTrip_inv C20.generated_good data k script
  have hd := drain_spec C20.generated_good sz (data.length + 1) (opened data k script) [] w0 hinv hat0
    (by rw [hp0]; rfl)
  exact hd.2.2.2 (by rw [hp0]; omega) bs

/-- whatever the loop gathered — with a nil result or with an error — is a prefix of the file: faults never
duplicate, drop or alter bytes on their way through a consumer (unconditional) -/
theorem readAll_prefix (data : Text) (k : Kind) (script : List Conn) (sz : Reader → Nat) :
    (readAll data k script sz).2.bytes <+: data := by
  obtain ⟨hinv, hp0, w0, hat0⟩ := roundTrip_inv C20.generated_good data k script
  have hd := drain_spec C20.generated_good sz (data.length + 1) (opened data k script) [] w0 hinv hat0
    (by rw [hp0]; rfl)
  rw [hd.2.1]
  exact List.take_prefix _ _

/-- **a consumer that ends with a nil error has the complete file** — under the per-connection evidence
assumption of `C20.eof_complete_current`, no stronger: the connection that answered the most recent request of
the download has no clean early end that the reader cannot see (`Spec.waiveAfter … = false`, computed from
the requests of the trace and the script alone).  Nothing is asked of the connections that were replaced. -/
theorem readAll_ok_complete (data : Text) (k : Kind) (script : List Conn) (sz : Reader → Nat) (bs : Text)
    (h : (readAll data k script sz).2 = .ok bs)
    (hcur : Spec.waiveAfter data k script false (readAll data k script sz).1.log = false) : bs = data := by
  obtain ⟨hinv, hp0, w0, hat0⟩ := roundTrip_inv C20.generated_good data k script
  have hd := drain_spec C20.generated_good sz (data.length + 1) (opened data k script) [] w0 hinv hat0
    (by rw [hp0]; rfl)
  obtain ⟨w, hat, hok⟩ := hd.2.2.1
  exact hok bs h (by rw [hat.waive]; exact hcur)

/-! ## the callers on the retry transport -/

/-- `RoundTrip`, the status test for 200, the consumer, `Close`: a nil result is the complete file, under the
same assumption on the current connection -/
theorem download_ok_complete (closeOnBad : Bool) (data : Text) (k : Kind) (script : List Conn)
    (sz : Reader → Nat) (bs : Text)
    (h : (download Cfg.generated httpOK closeOnBad data k script sz).2 = .ok bs)
    (hcur : Spec.waiveAfter data k script false
      (download Cfg.generated httpOK closeOnBad data k script sz).1.log = false) : bs = data := by
  obtain ⟨hinv, hp0, w0, hat0⟩ := roundTrip_inv C20.generated_good data k script
  unfold download at h hcur
  generalize hx : Impl.roundTrip Cfg.generated data k script = x at h hcur hinv hp0 hat0
  obtain ⟨r, o⟩ := x
  cases o with
  | error e => simp at h
  | passthrough code =>
    simp only at h
    split at h
    · cases h
    · next hc =>
      have hcode : code = httpOK := Decidable.of_not_not hc
      have hx2 : Impl.reset Cfg.generated data k (Impl.start script) = (r, .passthrough code) := hx
      cases h
      exact (reset_passthrough hx2 hcode).symm
  | installed code =>
    simp only at h hcur hinv hp0 hat0
    split at h
    · cases h
    · next hc =>
      rw [if_neg hc] at hcur
      have hd := drain_spec C20.generated_good sz (data.length + 1) r [] w0 hinv hat0 (by rw [hp0]; rfl)
      generalize drain Cfg.generated data k sz (data.length + 1) r [] = y at h hcur hd
      obtain ⟨r', g⟩ := y
      obtain ⟨_, _, ⟨w, hat, hok⟩, _⟩ := hd
      cases g with
      | ok bs2 =>
        simp only at h hcur hat hok
        cases h
        exact hok bs rfl (by rw [(close_at hat).waive]; exact hcur)
      | err bs2 => simp at h
      | fuel bs2 => simp at h

/-- `fetchRepositoryIndex`: the bytes it returns with a nil error are the index the server holds -/
theorem fetchIndex_ok_complete (data : Text) (k : Kind) (script : List Conn) (sz : Reader → Nat) (bs : Text)
    (h : (fetchIndex Cfg.generated Callers.generated data k script sz).2 = .ok bs)
    (hcur : Spec.waiveAfter data k script false
      (fetchIndex Cfg.generated Callers.generated data k script sz).1.log = false) : bs = data :=
  download_ok_complete false data k script sz bs h hcur

/-- `FetchPackage` and a consumer that reads its stream to the end (ExpandApk's gzip / tar readers, any
buffer sizes): a stream that ends with `io.EOF` was the package the server holds -/
theorem fetchPackage_ok_complete (data : Text) (k : Kind) (script : List Conn) (sz : Reader → Nat) (bs : Text)
    (h : (fetchPackage Cfg.generated Callers.generated data k script sz).2 = .ok bs)
    (hcur : Spec.waiveAfter data k script false
      (fetchPackage Cfg.generated Callers.generated data k script sz).1.log = false) : bs = data :=
  download_ok_complete true data k script sz bs h hcur

/-- the same under `C20.EarlyEndsEvident`: every connection the download used has no clean early end on a
successful response, or one that is evident to the reader -/
theorem fetchIndex_ok_complete_evident (data : Text) (k : Kind) (script : List Conn) (sz : Reader → Nat)
    (bs : Text) (h : (fetchIndex Cfg.generated Callers.generated data k script sz).2 = .ok bs)
    (hassume : C20.EarlyEndsEvident data k script
      (fetchIndex Cfg.generated Callers.generated data k script sz).1.log) : bs = data :=
  fetchIndex_ok_complete data k script sz bs h (Spec.waiveAfter_of_pairs _ _ hassume)

theorem fetchPackage_ok_complete_evident (data : Text) (k : Kind) (script : List Conn) (sz : Reader → Nat)
    (bs : Text) (h : (fetchPackage Cfg.generated Callers.generated data k script sz).2 = .ok bs)
    (hassume : C20.EarlyEndsEvident data k script
      (fetchPackage Cfg.generated Callers.generated data k script sz).1.log) : bs = data :=
  fetchPackage_ok_complete data k script sz bs h (Spec.waiveAfter_of_pairs _ _ hassume)

/-- … and under the script-level assumption of round 1 (no stream of the script stops early looking like a
clean end) -/
theorem fetchIndex_ok_complete_signalled (data : Text) (k : Kind) (script : List Conn) (sz : Reader → Nat)
    (bs : Text) (hassume : TruncationSignalled script)
    (h : (fetchIndex Cfg.generated Callers.generated data k script sz).2 = .ok bs) : bs = data :=
  fetchIndex_ok_complete_evident data k script sz bs h (C20.earlyEndsEvident_of_signalled hassume data k _)

theorem fetchPackage_ok_complete_signalled (data : Text) (k : Kind) (script : List Conn) (sz : Reader → Nat)
    (bs : Text) (hassume : TruncationSignalled script)
    (h : (fetchPackage Cfg.generated Callers.generated data k script sz).2 = .ok bs) : bs = data :=
  fetchPackage_ok_complete_evident data k script sz bs h (C20.earlyEndsEvident_of_signalled hassume data k _)

/-- the full statement without the assumption, `∀ …, ok bs → bs = data`, is false and cannot be repaired
without Content-Length: a first response that stops after one of two bytes and looks like a clean end is
taken for the file by `fetchRepositoryIndex` and by `FetchPackage` -/
theorem fetch_needs_assumption :
    ∃ (data : Text) (k : Kind) (script : List Conn) (sz : Reader → Nat) (bs : Text),
      (fetchIndex Cfg.generated Callers.generated data k script sz).2 = .ok bs ∧
      (fetchPackage Cfg.generated Callers.generated data k script sz).2 = .ok bs ∧ bs ≠ data :=
  ⟨['a', 'b'], .honours, [C20.silentCut], fun _ => 3, ['a'], by decide, by decide, by decide⟩

/-- non-vacuity: "abcdef" dropped after 3 bytes, the restart answered 200 from offset 0 and cut cleanly
before the resume offset (evident: an error inside `Read`, survived by the next `Read`'s resumption), then a
complete connection: `fetchRepositoryIndex` returns the six bytes, having sent three requests; the script
satisfies `EarlyEndsEvident` but not the script-level assumption -/
example :
    (fetchIndex Cfg.generated Callers.generated "abcdef".toList .ignores
      [C20.dropAt 3 false, C20.cleanConn] (fun _ => 3)).2 = .ok "abcdef".toList ∧
    reqCount (fetchIndex Cfg.generated Callers.generated "abcdef".toList .ignores
      [C20.dropAt 3 false, C20.cleanConn] (fun _ => 3)).1.log = 2 ∧
    (fetchIndex Cfg.generated Callers.generated "abcdef".toList .ignores
      [C20.dropAt 3 false, C20.cleanCut 2 none, C20.cleanConn] (fun _ => 3)).2 = .error ∧
    (fetchIndex Cfg.generated Callers.generated "abcdef".toList .honours
      [C20.dropAt 3 false, C20.dropAt 0 false, C20.dropAt 0 false, C20.cleanConn] (fun _ => 3)).2 = .error := by
  refine ⟨by decide, by decide, by decide, by decide⟩

/-! ### several packages over one network -/

theorem script_suffix {data : Text} {k : Kind} {script0 : List Conn} {r : Reader} {w : Bool}
    (h : At data k script0 r w) : ∀ c ∈ r.script, c ∈ script0 := by
  obtain ⟨lb, h⟩ := h
  have : ∀ (l : List Event) (s s' : Spec.St), Spec.runFrom data k s l = some s' →
      ∀ c ∈ s'.script, c ∈ s.script := by
    intro l
    induction l with
    | nil => intro s s' h; simp only [Spec.runFrom] at h; cases h; exact fun c hc => hc
    | cons e es ih =>
      intro s s' h
      simp only [Spec.runFrom] at h
      split at h
      · cases h
      · next s1 h1 =>
        intro c hc
        have hc1 := ih s1 s' h c hc
        cases e with
        | req range =>
          simp only [Spec.stepEvent] at h1
          by_cases hr : range = (if s.consumed ≠ 0 then some s.consumed else none)
          · rw [if_pos hr] at h1; cases h1; exact List.mem_of_mem_tail hc1
          · rw [if_neg hr] at h1; cases h1
        | body res => simp only [Spec.stepEvent] at h1; cases h1; exact hc1
        | result out res =>
          simp only [Spec.stepEvent] at h1
          split at h1
          · cases h1; exact hc1
          · cases h1
        | close => simp only [Spec.stepEvent] at h1; cases h1; exact hc1
  exact this _ _ _ h

/-- the connections a download leaves behind are connections of the script it started with -/
theorem download_script_suffix (status : Nat) (closeOnBad : Bool) (data : Text) (k : Kind)
    (script : List Conn) (sz : Reader → Nat) :
    ∀ c ∈ (download Cfg.generated status closeOnBad data k script sz).1.script, c ∈ script := by
  obtain ⟨hinv, hp0, w0, hat0⟩ := roundTrip_inv C20.generated_good data k script
  unfold download
  generalize Impl.roundTrip Cfg.generated data k script = x at hinv hp0 hat0
  obtain ⟨r, o⟩ := x
  cases o with
  | error e => exact script_suffix hat0
  | passthrough code => simp only; split <;> exact script_suffix hat0
  | installed code =>
    simp only at hinv hp0 hat0 ⊢
    split
    · split
      · exact script_suffix (close_at hat0)
      · exact script_suffix hat0
    · have hd := drain_spec C20.generated_good sz (data.length + 1) r [] w0 hinv hat0 (by rw [hp0]; rfl)
      generalize drain Cfg.generated data k sz (data.length + 1) r [] = y at hd
      obtain ⟨r', g⟩ := y
      obtain ⟨_, _, ⟨w, hat, _⟩, _⟩ := hd
      cases g <;> exact script_suffix (close_at hat)

/-- faults on the second of two packages (or on any of them): each download that ends with `io.EOF` delivered
its own package — over one network whose connections are used up in order — given that no stream of the
script stops early looking like a clean end -/
theorem fetchPackages_ok_complete (k : Kind) :
    ∀ (pkgs : List (Text × (Reader → Nat))) (script : List Conn), TruncationSignalled script →
      ∀ p ∈ pkgs.zip (fetchPackages Cfg.generated Callers.generated k pkgs script),
        ∀ bs, p.2.1 = Result.ok bs → bs = p.1.1 := by
  intro pkgs
  induction pkgs with
  | nil => intro script _ p hp; simp [fetchPackages] at hp
  | cons pkg rest ih =>
    intro script hs p hp
    obtain ⟨data, sz⟩ := pkg
    simp only [fetchPackages, List.zip_cons_cons, List.mem_cons] at hp
    rcases hp with rfl | hp
    · intro bs hbs
      exact fetchPackage_ok_complete_signalled data k script sz bs hs hbs
    · refine ih _ ?_ p hp
      intro c hc
      exact hs c (download_script_suffix _ _ data k script sz c hc)

/-! ### requests per operation -/

/-- **retries are bounded per operation**: a whole download — `RoundTrip`, the consumer reading to the end
with buffers of any sizes, `Close` — sends at most `2·len + 3` requests, whatever the faults: every `Read`
that returns nil consumed at least one byte of a file of `len` bytes, and every `Read` sends at most two
(`C20.requests_bounded`) -/
theorem requests_per_download_bounded (status : Nat) (closeOnBad : Bool) (data : Text) (k : Kind)
    (script : List Conn) (sz : Reader → Nat) :
    reqCount (download Cfg.generated status closeOnBad data k script sz).1.log ≤ 2 * data.length + 3 := by
  obtain ⟨hinv, hp0, w0, hat0⟩ := roundTrip_inv C20.generated_good data k script
  have hrc : reqCount (Impl.roundTrip Cfg.generated data k script).1.log = 1 := by
    have := reset_reqCount Cfg.generated data k (Impl.start script)
    simpa [Impl.roundTrip, Impl.start, reqCount] using this
  unfold download
  generalize Impl.roundTrip Cfg.generated data k script = x at hinv hp0 hat0 hrc
  obtain ⟨r, o⟩ := x
  simp only at hrc
  cases o with
  | error e => show reqCount r.log ≤ _; omega
  | passthrough code =>
    dsimp only
    split
    · show reqCount r.log ≤ _; omega
    · show reqCount r.log ≤ _; omega
  | installed code =>
    simp only at hinv hp0 ⊢
    split
    · split
      · show reqCount (Impl.close r).log ≤ _; rw [reqCount_close]; omega
      · show reqCount r.log ≤ _; omega
    · have hd := drain_reqCount C20.generated_good sz (data.length + 1) r [] hinv
      generalize drain Cfg.generated data k sz (data.length + 1) r [] = y at hd
      obtain ⟨r', g⟩ := y
      simp only at hd
      have hp0' : r.progress = 0 := hp0
      rw [hp0'] at hd
      cases g <;> (show reqCount (Impl.close r').log ≤ _; rw [reqCount_close]; omega)

/-! ## the cache transport: what is stored under an advertised name -/

/-- **whatever `retrieveAndSaveFile` advertises under the final name is the complete body**, named by the
ETag of the same answer — exact form: the GET is answered by the first connection of the script, and that
connection (relative to the request without Range it answers) has no clean early end the copy cannot see.
A fault during the copy never leaves anything under an advertised name. -/
theorem cache_store_complete (s : Srv) (c : Cache) (x : XConn) (rest : List XConn) (sz : Nat → Nat)
    (hev : x.conn.invisibleEnd s.data s.kind none = false) :
    ∀ f ∈ (retrieve Callers.generated s c (x :: rest) sz).2.1.files, f ∉ c.files → f.advertised = true →
      f.content = s.data ∧ f.name = s.etag ∧ (retrieve Callers.generated s c (x :: rest) sz).1 = f.name := by
  have hcase := retrieve_case Callers.generated s c (x :: rest) sz
  generalize retrieve Callers.generated s c (x :: rest) sz = rv at hcase ⊢
  obtain ⟨ro, c2, rest2, evs2⟩ := rv
  simp only at hcase ⊢
  intro f hf hnew hadv
  cases hcase with
  | same o h => exact absurd hf hnew
  | tmp bs =>
    simp only [List.mem_append, List.mem_singleton] at hf
    rcases hf with hf | rfl
    · exact absurd hf hnew
    · simp [File.advertised] at hadv
  | stored x2 rest2 fin body bs hscript hetag hget hcopy hnew2 =>
    simp only [List.mem_append, List.mem_singleton] at hf
    rcases hf with hf | rfl
    · exact absurd hf hnew
    · cases hscript
      refine ⟨(stored_content callers_good.2.2.2.1 hget hcopy).2 hev, ?_, rfl⟩
      unfold respEtag at hetag
      split at hetag
      · cases hetag
      · exact hetag.symm

/-- unconditionally — whatever the connection does — a new advertised entry holds a prefix of the body
served under its name: bytes are never altered, duplicated or reordered on their way into the cache -/
theorem cache_store_prefix (s : Srv) (c : Cache) (script : List XConn) (sz : Nat → Nat) :
    ∀ f ∈ (retrieve Callers.generated s c script sz).2.1.files, f ∉ c.files → f.advertised = true →
      f.content <+: s.data ∧ f.name = s.etag := by
  have hcase := retrieve_case Callers.generated s c script sz
  generalize retrieve Callers.generated s c script sz = rv at hcase ⊢
  obtain ⟨ro, c2, rest2, evs2⟩ := rv
  simp only at hcase ⊢
  intro f hf hnew hadv
  cases hcase with
  | same o h => exact absurd hf hnew
  | tmp bs =>
    simp only [List.mem_append, List.mem_singleton] at hf
    rcases hf with hf | rfl
    · exact absurd hf hnew
    · simp [File.advertised] at hadv
  | stored x2 rest2 fin body bs hscript hetag hget hcopy hnew2 =>
    simp only [List.mem_append, List.mem_singleton] at hf
    rcases hf with hf | rfl
    · exact absurd hf hnew
    · refine ⟨(stored_content callers_good.2.2.2.1 hget hcopy).1, ?_⟩
      unfold respEtag at hetag
      split at hetag
      · cases hetag
      · exact hetag.symm

/-- the full statement of `cache_store_complete` without the assumption is false: a GET answer that stops
after one of two bytes and looks like a clean end (a close-delimited body whose connection went away) is
advertised under the ETag of the two-byte revision, and a later offline build is served the short entry.
Nothing on this path compares the copy with Content-Length. -/
theorem cache_store_needs_assumption :
    (retrieve Callers.generated ⟨some 7, ['a', 'b'], .honours⟩ {} [⟨C20.silentCut, false⟩] (fun _ => 3)).2.1.files
      = [⟨some 7, ['a']⟩] ∧
    fetchOffline ⟨[⟨some 7, ['a']⟩], none⟩ = .ok ['a'] := by
  refine ⟨by decide, by decide⟩

/-- **an operation of the cache transport that reports an error advertises nothing**: after a GET through
`fetchAndCache` that does not end in a served entry — a failed HEAD, GET, status, a missing ETag, a fault or
a wrapped EOF during the copy — the advertised part of the directory is what it was (at most a temp file,
which `fetchOffline` skips, was added) -/
theorem fetch_error_no_advertise (hasMemo : Bool) (s : Srv) (c : Cache) (initial : Option Etag)
    (script : List XConn) (sz : Nat → Nat)
    (h : ∀ bs, (fetchAndCache Callers.generated hasMemo s c initial script sz).1 ≠ .served bs) :
    advertisedOf (fetchAndCache Callers.generated hasMemo s c initial script sz).2.1.files =
      advertisedOf c.files :=
  fetchAndCache_no_advertise _ hasMemo s c initial script sz h

/-- non-vacuity of `fetch_error_no_advertise` / `cache_store_complete`: a GET dropped after one byte leaves
the one byte in a temp file and an error; the same GET on a healthy connection stores the revision -/
example :
    (fetchAndCache Callers.generated false ⟨some 7, ['a', 'b'], .honours⟩ {} (some 7)
      [⟨C20.dropAt 1 false, false⟩] (fun _ => 3)).1 = .error ∧
    (fetchAndCache Callers.generated false ⟨some 7, ['a', 'b'], .honours⟩ {} (some 7)
      [⟨C20.dropAt 1 false, false⟩] (fun _ => 3)).2.1.files = [⟨none, ['a']⟩] ∧
    (fetchAndCache Callers.generated false ⟨some 7, ['a', 'b'], .honours⟩ {} (some 7)
      [⟨C20.cleanConn, false⟩] (fun _ => 3)).1 = .served ['a', 'b'] ∧
    (fetchAndCache Callers.generated false ⟨some 7, ['a', 'b'], .honours⟩ {} none
      [⟨C20.cleanConn, false⟩, ⟨C20.cleanConn, false⟩] (fun _ => 3)).2.1.files = [⟨some 7, ['a', 'b']⟩] := by
  refine ⟨by decide, by decide, by decide, by decide⟩

/-- what `fetchAndCache` hands to the caller out of the directory is a complete body the server answered
with (under the ETag the entry is named by), given a sound directory and GET connections without invisible
early ends; the directory stays sound -/
theorem cache_served_complete {served : List (Etag × Text)} (hasMemo : Bool) {s : Srv} {c : Cache}
    (initial : Option Etag) {script : List XConn} (sz : Nat → Nat)
    (hs : Sound served c.files) (hnow : ∀ x ∈ servedNow s, x ∈ served) (hev : GetEvident s script) :
    Sound served (fetchAndCache Callers.generated hasMemo s c initial script sz).2.1.files ∧
    ∀ bs, (fetchAndCache Callers.generated hasMemo s c initial script sz).1 = .served bs →
      ∃ e, (e, bs) ∈ served :=
  fetchAndCache_sound callers_good.2.2.2.1 hasMemo initial sz hs hnow hev

/-- an offline build is served a complete body of some revision the server answered with, or fails -/
theorem offline_ok_complete {served : List (Etag × Text)} {c : Cache} (hs : Sound served c.files) {bs : Text}
    (h : fetchOffline c = .ok bs) : ∃ e, (e, bs) ∈ served :=
  fetchOffline_served hs h

/-- **requests per operation on the cache path**: one GET of the caller through `fetchAndCache` sends at most
one HEAD and at most one GET — there are no retries here: a fault during the copy is an error of the
operation (and a later operation starts over) -/
theorem cache_requests_bounded (cl : Callers) (hasMemo : Bool) (s : Srv) (c : Cache) (initial : Option Etag)
    (script : List XConn) (sz : Nat → Nat) :
    headCount (fetchAndCache cl hasMemo s c initial script sz).2.2.2 ≤ 1 ∧
    getCount (fetchAndCache cl hasMemo s c initial script sz).2.2.2 ≤ 1 :=
  fetchAndCache_evs cl hasMemo s c initial script sz

/-! ## histories: repository updates, new processes, online / offline / cache-less operations -/

/-- the directory is sound and the server's current revision is on record -/
def Good (st : St) : Prop :=
  Sound st.served st.cache.files ∧ ∀ x ∈ servedNow st.srv, x ∈ st.served

/-- the evidence assumption of one operation, relative to the server as it is then -/
def OpEvident (st : St) : Fetch.Op → Prop
  | .index _ _ script _ => GetEvident st.srv script
  | .key _ _ script _ => GetEvident st.srv script
  | _ => True

def HistEvident : St → List Fetch.Op → Prop
  | _, [] => True
  | st, op :: ops => OpEvident st op ∧ HistEvident (step Cfg.generated Callers.generated st op).1 ops

theorem init_good (s : Srv) : Good (St.init s) :=
  ⟨fun f hf => by simp [St.init] at hf, fun x hx => hx⟩

/-- the directory an index operation leaves is the one `fetchAndCache` left, or the one it found -/
theorem indexOp_cache (mode : Mode) (hasMemo : Bool) (s : Srv) (c : Cache) (script : List XConn)
    (sizes : List Nat) :
    (indexOp Cfg.generated Callers.generated mode hasMemo s c script sizes).2.1.files = c.files ∨
    ∃ c1 e rest, c1.files = c.files ∧ (∀ x ∈ rest, x ∈ script) ∧
      (indexOp Cfg.generated Callers.generated mode hasMemo s c script sizes).2.1 =
        (fetchAndCache Callers.generated hasMemo s c1 (some e) rest (szBody sizes)).2.1 := by
  unfold indexOp
  cases mode with
  | offline => exact Or.inl rfl
  | direct =>
    left
    simp only
    split
    · rfl
    · split <;> rfl
  | cached =>
    simp only
    have h1 := cacheHead_files hasMemo s c script
    have h2 := cacheHead_rest hasMemo s c script
    generalize cacheHead hasMemo s c script = ch at h1 h2
    obtain ⟨o, c1, rest, evs⟩ := ch
    simp only at h1 h2
    cases o with
    | none => exact Or.inl h1
    | some m =>
      obtain ⟨status, et⟩ := m
      simp only
      split
      · exact Or.inl h1
      · cases et with
        | none => simp only; split <;> exact Or.inl h1
        | some e =>
          right
          refine ⟨c1, e, rest, h1, h2, ?_⟩
          simp only
          generalize fetchAndCache Callers.generated hasMemo s c1 (some e) rest (szBody sizes) = fa
          obtain ⟨a, c2, r2, evs2⟩ := fa
          cases a <;> rfl

theorem keyOp_cache (mode : Mode) (hasMemo : Bool) (s : Srv) (c : Cache) (script : List XConn)
    (sizes : List Nat) :
    (keyOp Callers.generated mode hasMemo s c script sizes).2.1.files = c.files ∨
      (keyOp Callers.generated mode hasMemo s c script sizes).2.1 =
        (fetchAndCache Callers.generated hasMemo s c none script (szBody sizes)).2.1 := by
  unfold keyOp
  cases mode with
  | offline => exact Or.inl rfl
  | direct => exact Or.inl rfl
  | cached =>
    right
    simp only
    generalize fetchAndCache Callers.generated hasMemo s c none script (szBody sizes) = fa
    obtain ⟨a, c2, r2, evs2⟩ := fa
    cases a <;> rfl

theorem step_good {st : St} {op : Fetch.Op} (hg : Good st) (hev : OpEvident st op) :
    Good (step Cfg.generated Callers.generated st op).1 := by
  obtain ⟨hs, hnow⟩ := hg
  cases op with
  | publish e d =>
    refine ⟨hs.mono (fun x hx => List.mem_append_right _ hx), fun x hx => List.mem_append_left _ hx⟩
  | exit => exact ⟨hs, hnow⟩
  | index mode m script sizes =>
    refine ⟨?_, hnow⟩
    show Sound st.served (indexOp Cfg.generated Callers.generated mode m st.srv st.cache script sizes).2.1.files
    rcases indexOp_cache mode m st.srv st.cache script sizes with h | ⟨c1, e, rest, h1, h2, h3⟩
    · rw [h]; exact hs
    · rw [h3]
      exact (cache_served_complete m (some e) (szBody sizes) (by rw [h1]; exact hs) hnow
        (fun x hx => hev x (h2 x hx))).1
  | key mode m script sizes =>
    refine ⟨?_, hnow⟩
    show Sound st.served (keyOp Callers.generated mode m st.srv st.cache script sizes).2.1.files
    rcases keyOp_cache mode m st.srv st.cache script sizes with h | h
    · rw [h]; exact hs
    · rw [h]
      exact (cache_served_complete m none (szBody sizes) hs hnow hev).1

/-- **along every history** — repository updates with changed ETags, new processes, online operations with
their own fault scripts (faults during the HEAD, during the GET, missing ETags, error statuses), offline and
cache-less operations, index and key fetches, with or without the HEAD memo — every advertised file of the
entry directory holds a complete body the server answered with under that very ETag, given that the
connections that answer the GETs have no clean early end the copy cannot see -/
theorem history_sound : ∀ (ops : List Fetch.Op) (st : St), Good st → HistEvident st ops →
    Good (run Cfg.generated Callers.generated st ops) := by
  intro ops
  induction ops with
  | nil => intro st hg _; exact hg
  | cons op ops ih =>
    intro st hg hev
    exact ih _ (step_good hg hev.1) hev.2

/-- … hence an offline build at the end of any such history is served a complete revision, or fails -/
theorem history_offline_complete (s : Srv) (ops : List Fetch.Op) (hev : HistEvident (St.init s) ops) (bs : Text)
    (h : fetchOffline (run Cfg.generated Callers.generated (St.init s) ops).cache = .ok bs) :
    ∃ e, (e, bs) ∈ (run Cfg.generated Callers.generated (St.init s) ops).served :=
  offline_ok_complete (history_sound ops _ (init_good s) hev).1 h

/-- non-vacuity: revision 7 "ab" is fetched with a dropped GET (error, a one-byte temp file), fetched again
(stored), the repository moves to revision 8 "xyz", a new process fetches it through a HEAD that fails first,
and an offline build gets "xyz"; the history satisfies `HistEvident` -/
example :
    let hist : List Fetch.Op := [
      .index .cached true [⟨C20.cleanConn, false⟩, ⟨C20.dropAt 1 false, false⟩] [],
      .exit,
      .index .cached true [⟨C20.cleanConn, false⟩, ⟨C20.cleanConn, false⟩] [],
      .publish (some 8) "xyz".toList, .exit,
      .index .cached true [⟨{ C20.cleanConn with connFail := true }, false⟩] [],
      .index .cached true [⟨C20.cleanConn, false⟩, ⟨C20.cleanConn, false⟩] [],
      .index .offline false [] []]
    (answers Cfg.generated Callers.generated (St.init ⟨some 7, "ab".toList, .honours⟩) hist).map (·.1) =
      [.res .error, .res (.ok "ab".toList), .res .error, .res (.ok "xyz".toList), .res (.ok "xyz".toList)] ∧
    (run Cfg.generated Callers.generated (St.init ⟨some 7, "ab".toList, .honours⟩) hist).cache.files =
      [⟨none, ['a']⟩, ⟨some 7, "ab".toList⟩, ⟨some 8, "xyz".toList⟩] ∧
    HistEvident (St.init ⟨some 7, "ab".toList, .honours⟩) hist := by
  refine ⟨by decide, by decide, ?_⟩
  simp only [HistEvident, OpEvident, GetEvident, and_true]
  refine ⟨?_, ?_, ?_, ?_, ?_⟩ <;> decide

/-! ## the key fetch of InitKeyring (no retry transport) -/

/-- the property for the key fetch, as it would have to read: a key that is accepted is the key the server
holds (given the evidence assumption on the one connection) -/
def KeyOkComplete : Prop :=
  ∀ (s : Srv) (x : XConn) (rest : List XConn) (sz : Nat → Nat) (bs : Text),
    x.conn.invisibleEnd s.data s.kind none = false →
    (keyDirect Callers.generated s (x :: rest) sz).1 = .ok bs → bs = s.data

/-- proved part: when the answer has status 200 (the only status the honest server is known to send the
file with) -/
theorem key_ok_complete_partial (s : Srv) (x : XConn) (rest : List XConn) (sz : Nat → Nat) (bs : Text)
    (hev : x.conn.invisibleEnd s.data s.kind none = false)
    (h200 : (serve s.data s.kind x.conn none).1 = httpOK)
    (h : (keyDirect Callers.generated s (x :: rest) sz).1 = .ok bs) : bs = s.data := by
  unfold keyDirect at h
  simp only at h
  split at h
  · cases h
  · next code body hget =>
    split at h
    · cases h
    · have hcode : code = httpOK := by
        unfold doGet at hget
        split at hget
        · cases hget
        · simp only [Option.some.injEq, Prod.mk.injEq] at hget
          rw [← hget.1]; exact h200
      obtain ⟨_, hok, _⟩ := doGet_drain_spec hget hcode sz
      generalize (drainResp sz body).1 = g at h hok
      cases g with
      | ok bs2 =>
        simp only at h
        cases h
        exact hok bs rfl hev
      | err bs2 => simp at h
      | fuel bs2 => simp at h

/-- the full statement is false for the code as it is: `InitKeyring` accepts every status from 200 to 299.  A
203 (Non-Authoritative Information: "transformed by a proxy") answer that carries another body is written to
the keyring as the key.  The other callers test `!= 200`.  (Recorded under the honest-server assumption, not
as a defect of C20: the status says success; exercised by the suite as class `key:2xx-page`.) -/
theorem not_key_ok_complete : ¬ KeyOkComplete := by
  intro h
  have := h ⟨none, ['k', 'e', 'y'], .honours⟩
    ⟨{ C20.cleanConn with status := some 203, page := ['<', 'h', '>'] }, true⟩ [] (fun _ => 7) ['<', 'h', '>']
    (by decide) (by decide)
  exact absurd this (by decide)

end Apko.C20Fetch
