import Apko.Model.Authentic
namespace Apko.C05
open Apko Apko.Authentic

theorem placeholder : True := trivial

end Apko.C05
